import JunoModel.C01.ProofsSpec
import JunoModel.C01.ProofsState
import JunoModel.C01.ModelLegacy
import JunoModel.C01.ProofsLazy
import JunoModel.C01.ModelStore
import JunoModel.C01.ProofsLegacy
import JunoModel.C01.ProofsLegacyDel
import JunoModel.C01.ProofsAbs
import JunoModel.C01.ProofsMisc
import JunoModel.C01.ProofsAgree
import JunoModel.C01.ProofsLegacyRestart
import JunoModel.C01.ProofsVersion
import JunoModel.C01.ProofsStateL
import JunoModel.C01.ProofsChain
import JunoModel.C01.ProofsMigrate
import JunoModel.C01.ProofsLegacyState
import JunoModel.C01.ProofsEnc
/-!
C01 — property theorems (statements only; helper lemmas are in `Proofs*.lean`).
Every theorem in this module is an obligation listed in evidence/C01.json with its axioms.

Reading guide. `Spec.root k n m` is the Starknet commitment (the `(length, path, bottom)` definition
of the protocol documentation) of the key/value map `m : Path → HTerm` over keys of `n` bits, `felt 0`
meaning "absent"; hashes are free terms (ideal collision-free hash). `absRun ops` is the plain map
semantics of an operation sequence (last write wins, writing zero deletes). `Trie2.run k ops` is
what `core/trie2` builds: `Update` (insert / overwrite / delete) and `Hash()` (fills the per-node
hash caches) applied from the empty trie.
-/
namespace Juno.C01.Props
open Juno.C01

/-- The commitment of the empty map is zero at every height. -/
theorem spec_root_empty (k : HashKind) (n : Nat) : Spec.root k n (fun _ => .felt 0) = .felt 0 := by
  simp [Spec.root, spec_node_empty, SNode.hash, SNode.empty]

/-- `Spec.root` is a function of the key/value SET: it only looks at keys of the trie's height. -/
theorem spec_root_extensional (k : HashKind) (n : Nat) (m m' : Path → HTerm)
    (h : ∀ key, key.length = n → m key = m' key) : Spec.root k n m = Spec.root k n m' := by
  simp only [Spec.root]; rw [spec_node_congr k n m m' h]

/-- **trie2 is canonical.** For EVERY sequence of inserts, overwrites, zero-writes (to present or
absent keys) and interleaved `Hash()` calls on keys of the trie's height: the tree stays canonical
(no empty edge, no edge under an edge, two non-empty children per binary node, values exactly at
the leaves), every cached inner hash is the hash of the subtree below it, and the root hash is the
Starknet commitment of the resulting key/value map. -/
theorem trie2_canonical (k : HashKind) (n : Nat) (ops : List Op) (hv : ValidOps n ops) :
    WFRoot (Trie2.run k ops) n ∧ CacheOK k (Trie2.run k ops) ∧
    (Trie2.hashRoot k (Trie2.run k ops)).1 = Spec.root k n (absRun ops) :=
  let h := run_inv k n ops hv
  ⟨h.wf, h.cache, inv_hash h⟩

/-- The trie implements the map: reading any key after any history returns the last value written
(zero if deleted / never written). -/
theorem trie2_get (k : HashKind) (n : Nat) (ops : List Op) (hv : ValidOps n ops)
    (key : Path) (hk : key.length = n) : Trie2.get (Trie2.run k ops) key = absRun ops key :=
  (run_inv k n ops hv).sem key hk

/-- **Order independence.** Two histories (any order, any overwrites / deletions / re-insertions in
between) that end in the same key/value map produce the same root. -/
theorem trie2_order_independent (k : HashKind) (n : Nat) (ops ops' : List Op)
    (hv : ValidOps n ops) (hv' : ValidOps n ops')
    (hsame : ∀ key, key.length = n → absRun ops key = absRun ops' key) :
    (Trie2.hashRoot k (Trie2.run k ops)).1 = (Trie2.hashRoot k (Trie2.run k ops')).1 := by
  rw [(trie2_canonical k n ops hv).2.2, (trie2_canonical k n ops' hv').2.2]
  exact spec_root_extensional k n _ _ hsame

/-- **Batching independence.** Where `Hash()` is called in between (after every write, once per
block, never) does not change the root: cached hashes are never stale. -/
theorem trie2_batching_independent (k : HashKind) (n : Nat) (ops : List Op) (hv : ValidOps n ops) :
    (Trie2.hashRoot k (Trie2.run k ops)).1 =
      (Trie2.hashRoot k (Trie2.run k (ops.filter (fun o => match o with | .put .. => true | .hash => false)))).1 := by
  apply trie2_order_independent k n _ _ hv
  · intro op hop
    exact hv op (List.mem_filter.mp hop).1
  · intro key _
    have : ∀ (ops : List Op) (m : Path → HTerm),
        ops.foldl absStep m =
          (ops.filter (fun o => match o with | .put .. => true | .hash => false)).foldl absStep m := by
      intro ops
      induction ops with
      | nil => intro m; rfl
      | cons o rest ih =>
        intro m
        cases o with
        | put a b => simp [List.filter, ih]
        | hash => simp [List.filter, absStep, ih]
    simp only [absRun]
    rw [this ops]

/-- **Temporary tries of the transaction / event / receipt commitments** (height 64, item `i` under key `i`,
`core.TrieBackend`): the commitment is `Spec.root` of the index ↦ item-hash map (a zero item hash is absent). -/
theorem commitment_trie_canonical (k : HashKind) (items : List HTerm) :
    (Trie2.hashRoot k (Trie2.run k (commitmentOps items))).1 = Spec.root k 64 (absRun (commitmentOps items)) := by
  refine (trie2_canonical k 64 (commitmentOps items) ?_).2.2
  intro op hop
  simp only [commitmentOps, List.mem_map] at hop
  obtain ⟨e, _, rfl⟩ := hop
  simp [natToPath]

/-- **Restart independence (partial: the node database is abstracted).** `TrieL.run` is trie2 across
process restarts: `reopen` = `Commit()`, drop the object, `trie2.New` on the database — afterwards every
node below the root is an unresolved `HashNode`, and insert / delete / the collapse of a binary node into
an unresolved sibling resolve nodes on demand. For EVERY interleaving of writes, `Hash()` calls and
restarts the root is the commitment of the final map (so restarts change nothing), the resolved tree
is canonical and every cached or unresolved hash is sound.
Partial because an unresolved node carries the subtree the database holds for it (`LNode.lazy h sub`):
that `Commit` writes, and `resolveNode` reads back, exactly that subtree is not proved here; it is tied
by the committed-node-set correspondence of `ModelStore.lean`. -/
theorem trie2_commit_reopen_partial (k : HashKind) (n : Nat) (ops : List LOp)
    (hv : TrieL.ValidLOps n ops) :
    TrieL.rootHash k (TrieL.run k ops) = Spec.root k n (labsRun ops) ∧
    WFRoot (TrieL.erase (TrieL.run k ops)) n ∧ TrieL.CacheOKL k (TrieL.run k ops) :=
  let h := TrieL.run_invL k n ops hv
  ⟨TrieL.invL_hash h, h.wf, h.cache⟩

/-- Corollary: histories that differ in where (and whether) the process was restarted, in the order of
the writes, in overwrites / deletions — same final map, same root. -/
theorem trie2_restart_independent (k : HashKind) (n : Nat) (ops ops' : List LOp)
    (hv : TrieL.ValidLOps n ops) (hv' : TrieL.ValidLOps n ops')
    (hsame : ∀ key, key.length = n → labsRun ops key = labsRun ops' key) :
    TrieL.rootHash k (TrieL.run k ops) = TrieL.rootHash k (TrieL.run k ops') := by
  rw [(trie2_commit_reopen_partial k n ops hv).1, (trie2_commit_reopen_partial k n ops' hv').1]
  exact spec_root_extensional k n _ _ hsame

/-- **Reads through unresolved nodes.** `Trie.Get` resolves every unresolved node on its way and KEEPS the
resolved copies in the tree (`LOp.get`, part of the histories of the two theorems above: reads may be
interleaved anywhere without changing any root). Its answer, after any history of writes, `Hash()` calls, restarts
and earlier reads, is the last value written (zero if deleted / never written). -/
theorem trie2_get_through_unresolved_nodes (k : HashKind) (n : Nat) (ops : List LOp)
    (hv : TrieL.ValidLOps n ops) (key : Path) (hk : key.length = n) :
    (TrieL.getR (TrieL.run k ops) key).1 = labsRun ops key := by
  have h := TrieL.run_invL k n ops hv
  rw [(TrieL.getR_spec _ h.lazyOK key).2.2]
  exact h.sem key hk

/-- non-vacuity: a read between a restart and a delete resolves the sibling the delete then collapses into -/
example : TrieL.rootHash .pedersen (TrieL.run .pedersen
    [.put [true, false, true] (.felt 7), .put [true, false, false] (.felt 9), .put [false, true, true] (.felt 3),
     .reopen, .get [true, false, false], .put [false, true, true] (.felt 0), .get [false, true, true], .reopen,
     .get [true, false, true], .put [true, false, true] (.felt 0)])
    = .add (.h .pedersen (.felt 9) (.felt 4)) 3 := by decide

/-- non-vacuity: writes, restart, delete that collapses a binary node into an UNRESOLVED sibling edge,
restart, re-insert -/
example : TrieL.rootHash .pedersen (TrieL.run .pedersen
    [.put [true, false, true] (.felt 7), .put [true, false, false] (.felt 9), .put [false, true, true] (.felt 3),
     .reopen, .put [false, true, true] (.felt 0), .hash, .reopen, .put [true, false, true] (.felt 0)])
    = .add (.h .pedersen (.felt 9) (.felt 4)) 3 := by decide

/-! ## State commitment

`State.absState ds` is the ABSTRACT state after the accepted diffs `ds`: four plain maps (class hash and
nonce per address, value per address and slot, leaf value per class hash) updated by last-write-wins,
independent of every trie and of the model's records (`ModelState.lean`). `State.absCommitment` is the
Starknet commitment of such a state: `stateCommitment(version, Spec.root_Pedersen(address ↦
protocolLeaf(class, Spec.root_Pedersen(storage), nonce)), Spec.root_Poseidon(class hash ↦ leaf))`,
`protocolLeaf` = 0 for the entirely empty contract state, else `H(H(H(class, storage root), nonce), 0)`.

`State.run purge ds St.empty` applies `ds` the way `core/state.State.Update` does (state objects, per-contract
storage tries, contract trie, class trie, all trie2; the purge of a system contract whose storage is empty).
`purge = true` is core/state; `purge = false` is core/deprecatedstate of the unchanged tree.
`State.ValidDiff` is the input space: 251-bit keys, non-zero class hashes, system contracts 0x1/0x2 receive
storage writes only, distinct addresses in `deployed` and in `storage` (Go maps). -/

/-- **The state root is the protocol-defined commitment of the resulting abstract state**, after ANY
sequence of accepted state updates and on both sides of the 0.14.0 switch (`pre014`). The right-hand side
does not mention the model's state: it is the commitment of the fold of the diffs over plain maps. -/
theorem state_commitment_spec (pre014 : Bool) (ds : List State.Diff)
    (hd : ∀ d ∈ ds, State.ValidDiff d) (s : State.St)
    (h : State.run true ds State.St.empty = some s) :
    State.commitment pre014 s = State.absCommitment pre014 (State.absState ds) := by
  have hc : Inv .poseidon 251 State.St.empty.cltrie State.AbsSt.empty.classes :=
    ⟨Or.inl rfl, by simp [State.St.empty, CacheOK], by intro k _; simp [State.St.empty, State.AbsSt.empty, Trie2.get]⟩
  obtain ⟨w, r, i⟩ := State.run_rel ds hd _ _ _ State.swf_empty State.rel_empty hc h
  have hr := State.run_recsOK ds hd _ _ State.swf_empty
    (by intro a r hh; simp [State.St.empty, State.alookup] at hh) h
  rw [State.commitment_of_swf w _ i pre014]
  simp only [State.absCommitment, State.absState]
  rw [State.spec_root_congr .pedersen 251 _ _ (State.leafOfRecs_abs r hr)]

/-- **Order, batching, splitting into blocks (state level).** Two accepted histories — whatever the order of
their diffs, however the writes are split into blocks, with whatever overwrites and deletions in between —
that end in the same abstract state (on the 251-bit key space) have the same state root. -/
theorem state_root_function_of_abstract_state (pre014 : Bool) (ds ds' : List State.Diff)
    (hd : ∀ d ∈ ds, State.ValidDiff d) (hd' : ∀ d ∈ ds', State.ValidDiff d) (s s' : State.St)
    (h : State.run true ds State.St.empty = some s) (h' : State.run true ds' State.St.empty = some s')
    (hsame : State.AbsEq (State.absState ds) (State.absState ds')) :
    State.commitment pre014 s = State.commitment pre014 s' := by
  rw [state_commitment_spec pre014 ds hd s h, state_commitment_spec pre014 ds' hd' s' h']
  exact State.absCommitment_congr pre014 hsame

/-- Instance: the order in which the entries of a diff are visited (Go map iteration order — addresses of
deployed / replaced / nonce / storage entries) does not change the abstract state, hence not the root. -/
theorem state_diff_item_order_irrelevant (a : State.AbsSt) (d d' : State.Diff)
    (h1 : (d.declared ++ d.migrated) = (d'.declared ++ d'.migrated))
    (h2 : d.deployed.Perm d'.deployed) (n2 : (d.deployed.map (·.1)).Nodup)
    (h3 : d.replaced.Perm d'.replaced) (n3 : (d.replaced.map (·.1)).Nodup)
    (h4 : d.nonces.Perm d'.nonces) (n4 : (d.nonces.map (·.1)).Nodup)
    (h5 : d.storage.Perm d'.storage) (n5 : (d.storage.map (·.1)).Nodup) :
    State.AbsEq (State.absApply a d) (State.absApply a d') :=
  State.absApply_perm a d d' h1 h2 n2 h3 n3 h4 n4 h5 n5

/-- The storage trie of every contract record is canonical and its root (the `storage_root` in the
leaf above) is the commitment of its key/value map; same for the contract trie. -/
theorem state_tries_canonical (purge : Bool) (ds : List State.Diff)
    (hd : ∀ d ∈ ds, State.ValidDiff d) (s : State.St)
    (h : State.run purge ds State.St.empty = some s) :
    (∀ addr r, State.alookup s.recs addr = some r → WFRoot r.storage 251 ∧ CacheOK .pedersen r.storage) ∧
    (Trie2.hashRoot .pedersen s.ctrie).1 = Spec.root .pedersen 251 (State.leafOfRecs s.recs) := by
  have hc : Inv .poseidon 251 State.St.empty.cltrie (fun _ => .felt 0) :=
    ⟨Or.inl rfl, by simp [State.St.empty, CacheOK], by intro k _; simp [State.St.empty, Trie2.get]⟩
  obtain ⟨w, _⟩ := State.run_swf ds hd _ _ _ State.swf_empty hc h
  exact ⟨w.recs, inv_hash w.ctrie⟩

/-!
DEFECT (known finding `deprecatedstate-keeps-leaf-of-emptied-system-contract`).
The full-strength statement for the legacy backend of the unchanged tree would be
`state_commitment_spec` with `State.run false` — it is FALSE: `core/deprecatedstate.State.Update`
never removes a system contract whose storage is empty again, so its record keeps the leaf
`H(H(H(0,0),0),0)` although the protocol leaf of the empty contract state is 0.
Proved instead: the `_partial` form (juno's own leaf formula over the records held) and the
negation of the full statement with a concrete witness (block: write 0 to slot 7 of contract 0x1). -/
theorem legacy_state_commitment_spec_partial (pre014 : Bool) (ds : List State.Diff)
    (hd : ∀ d ∈ ds, State.ValidDiff d) (s : State.St)
    (h : State.run false ds State.St.empty = some s) :
    State.commitment pre014 s =
      State.stateCommitment pre014
        (Spec.root .pedersen 251 (State.leafOfRecs s.recs))
        (Spec.root .poseidon 251 (absRun (ds.flatMap State.classOpsOf))) := by
  have hc : Inv .poseidon 251 State.St.empty.cltrie (fun _ => .felt 0) :=
    ⟨Or.inl rfl, by simp [State.St.empty, CacheOK], by intro k _; simp [State.St.empty, Trie2.get]⟩
  obtain ⟨w, i⟩ := State.run_swf ds hd _ _ _ State.swf_empty hc h
  exact State.commitment_of_swf w _ i pre014

/-- **Which of the two state implementations is selected does not matter — unless a system contract is
emptied.** `State.NoSystemContractEmptied a ds` is a condition on the ABSTRACT states only: after every diff,
every system contract whose storage that diff writes has a non-empty storage. Then the model of
core/deprecatedstate (no purge) and the model of core/state go through the same states, so the legacy root is
the protocol commitment of the abstract state as well. -/
theorem state_backends_agree_unless_system_contract_emptied (pre014 : Bool) (ds : List State.Diff)
    (hd : ∀ d ∈ ds, State.ValidDiff d)
    (hk : State.NoSystemContractEmptied State.AbsSt.empty ds) (s : State.St)
    (h : State.run false ds State.St.empty = some s) :
    State.run true ds State.St.empty = some s ∧
    State.commitment pre014 s = State.absCommitment pre014 (State.absState ds) := by
  have hc : Inv .poseidon 251 State.St.empty.cltrie State.AbsSt.empty.classes :=
    ⟨Or.inl rfl, by simp [State.St.empty, CacheOK], by intro k _; simp [State.St.empty, State.AbsSt.empty, Trie2.get]⟩
  have e := State.run_backends_agree ds hd _ _ State.swf_empty State.rel_empty hc hk
  rw [e] at h
  exact ⟨h, state_commitment_spec pre014 ds hd s h⟩

/-- non-vacuity of the condition: a block that writes 5 to slot 7 of system contract 0x1 -/
example : State.NoSystemContractEmptied State.AbsSt.empty
    [⟨[], [], [], [], [], [(State.addr1, [(State.slot7, .felt 5)])]⟩] := by
  refine ⟨?_, trivial⟩
  intro e he _
  simp at he; subst he
  exact ⟨State.slot7, State.slot7_length, by simp [State.absApply, State.setAt]⟩

set_option maxRecDepth 8000 in
theorem legacy_state_commitment_not_protocol :
    ∃ (ds : List State.Diff) (s : State.St), (∀ d ∈ ds, State.ValidDiff d) ∧
      State.run false ds State.St.empty = some s ∧
      State.commitment true s ≠ State.absCommitment true (State.absState ds) := by
  refine ⟨[State.zeroWriteToSystemContract],
    ⟨[(State.addr1, ⟨.felt 0, .felt 0, .nil⟩)],
     .edge State.addr1 (.value (State.contractLeaf (.felt 0) (.felt 0) (.felt 0))) Flags.new, .nil⟩, ?_, by decide, ?_⟩
  · intro d hd'
    simp at hd'; subst hd'
    exact State.zeroWrite_valid
  · rw [State.absCommitment_zeroWrite]
    decide

set_option maxRecDepth 8000 in
/-- the same history on core/state (and the repaired legacy backend): root 0, as the protocol says -/
example : (State.run true [State.zeroWriteToSystemContract] State.St.empty).map (State.commitment true)
    = some (.felt 0) := by decide

set_option maxRecDepth 8000 in
/-- non-vacuity of `state_commitment_spec`: a block that declares a class, deploys contract 0x7 with it, sets its
nonce and writes one of its slots and one slot of system contract 0x1 is accepted -/
example : (State.run true [⟨[(State.slot7, .felt 9)], [], [(State.slot7, .felt 5)], [], [(State.slot7, .felt 1)],
    [(State.slot7, [(State.addr1, .felt 3)]), (State.addr1, [(State.slot7, .felt 4)])]⟩] State.St.empty).isSome = true := by decide

/-! ## The old root of a block

`State.Update` verifies `update.OldRoot` first. The old root of block n is the root the node STORED for
block n-1 (the feeder gateway's `old_root`; `Blockchain.Store` passes it on), which was computed under the
version of block n-1. `State.runStored fixed` is a chain in which every block carries its version flag and
is checked like that (`State.oldRootOK`).

DEFECT (known findings `state-` / `deprecatedstate-rejects-stored-old-root-at-commitment-formula-switch`).
The full-strength statement — every block of a chain with non-decreasing versions whose diff is accepted is
also accepted with the stored root as old root:
  `(∀ consecutive flags, pre = true ∨ pre' = false) → runStored false bs (St.empty, felt 0) ≠ none` whenever the
  plain `run` accepts — is FALSE on the unchanged tree: the old root is verified under the NEW block's
version, so the first ≥ 0.14.0 block after a < 0.14.0 block is rejected while the class trie is empty.
Proved instead: the `_partial` form (same version regime, or class trie not empty, or contract trie empty),
the negation witness, and the full statement for the proposed repair (`fixed = true`). -/
theorem stored_old_root_accepted_partial (pre pre' : Bool) (s : State.St)
    (h : pre = pre' ∨ (Trie2.hashRoot .poseidon s.cltrie).1 ≠ .felt 0 ∨
      (Trie2.hashRoot .pedersen s.ctrie).1 = .felt 0) :
    State.oldRootOK false pre' (State.commitment pre s) s = true :=
  State.oldRootOK_of pre pre' s h

/-- within one version regime the old-root check never rejects: the checked chain is the plain run -/
theorem stored_old_root_same_version (pre014 : Bool) (ds : List State.Diff) (s : State.St) :
    State.runStored false (ds.map (fun d => (pre014, d))) (s, State.commitment pre014 s) =
      (State.run true ds s).map (fun s' => (s', State.commitment pre014 s')) :=
  State.runStored_const false pre014 ds s

set_option maxRecDepth 8000 in
/-- negation witness: block 0 (version < 0.14.0) deploys contract 0x7; block 1 (version ≥ 0.14.0) sets its
nonce. Both diffs are valid and accepted by the plain run, the chain with stored old roots rejects block 1. -/
theorem stored_old_root_rejected_at_formula_switch :
    ∃ d0 d1 : State.Diff, State.ValidDiff d0 ∧ State.ValidDiff d1 ∧
      (State.run true [d0, d1] State.St.empty).isSome = true ∧
      State.runStored false [(true, d0), (false, d1)] (State.St.empty, .felt 0) = none :=
  ⟨State.deploy7, State.nonce7, State.deploy7_valid, State.nonce7_valid, by decide, by decide⟩

/-- the proposed repair accepts the stored root at every step of a chain whose version never goes back below
0.14.0 (`pre = true ∨ pre' = false`) -/
theorem stored_old_root_accepted_after_fix (pre pre' : Bool) (s : State.St) (h : pre = true ∨ pre' = false) :
    State.oldRootOK true pre' (State.commitment pre s) s = true :=
  State.oldRootOK_fixed pre pre' s h

set_option maxRecDepth 8000 in
example : (State.runStored true [(true, State.deploy7), (false, State.nonce7)] (State.St.empty, .felt 0)).isSome = true := by
  decide

/-! ## Process restarts at the state level (round 4)

`StateL.run` (`ModelStateL.lean`) is the state update as `core/state` really runs it: for every block the
contract trie, the class trie and the storage trie of every touched contract are OPENED from the node database
(`state.New` per block → `trie2.New`): the empty trie if the state root the block starts from is zero (the
database is not read), else the root node with everything below it unresolved, so that every write of the block
resolves nodes on demand. The Bool in front of each diff says whether the tries are reopened for that block
(`true` = what juno does for every block, and all that a process restart between two updates amounts to) or the
in-memory objects of the previous block are kept. The node database is abstracted as in
`trie2_commit_reopen_partial` (an unresolved node carries the subtree committed under its path). -/

/-- **Restarts between updates change nothing (state level).** For every history, every choice of the blocks
before which the tries are reopened from the database, both purge variants and both commitment formulas: the
same histories are accepted and the same root comes out as for the model that keeps resolved trees for ever
(`State.run`, the subject of the theorems above). Includes the soundness of `trie2.New`'s shortcut "state root
zero ⇒ empty trie, do not read the database". -/
theorem state_restart_independent (purge pre014 : Bool) (bs : List (Bool × State.Diff))
    (hd : ∀ b ∈ bs, State.ValidDiff b.2) :
    (StateL.run purge bs StateL.StL.empty).map (StateL.commitment pre014) =
      (State.run purge (bs.map (·.2)) State.St.empty).map (State.commitment pre014) :=
  StateL.run_commitment_eq purge pre014 bs hd

/-- Corollary: with tries reopened at arbitrary blocks the root is still the protocol commitment of the abstract
state (of the diffs alone: the restart flags do not occur on the right-hand side). -/
theorem state_commitment_spec_with_restarts (pre014 : Bool) (bs : List (Bool × State.Diff))
    (hd : ∀ b ∈ bs, State.ValidDiff b.2) (sl : StateL.StL)
    (h : StateL.run true bs StateL.StL.empty = some sl) :
    StateL.commitment pre014 sl = State.absCommitment pre014 (State.absState (bs.map (·.2))) := by
  have e := state_restart_independent true pre014 bs hd
  rw [h] at e
  cases hr : State.run true (bs.map (·.2)) State.St.empty with
  | none => simp [hr] at e
  | some s =>
    simp only [hr, Option.map, Option.some.injEq] at e
    rw [e]
    exact state_commitment_spec pre014 _ (by
      intro d hd'
      obtain ⟨b, hb, rfl⟩ := List.mem_map.mp hd'
      exact hd b hb) s hr

set_option maxRecDepth 8000 in
/-- non-vacuity: three blocks with a restart before each: deploy 0x7 and write two of its slots and one slot of
system contract 0x1; zero one slot of 0x7 (delete through unresolved nodes, collapse into an unresolved sibling)
and the slot of 0x1 (purge); re-insert. Accepted. -/
example : (StateL.run true
    [(true, ⟨[], [], [(State.slot7, .felt 5)], [], [],
        [(State.slot7, [(State.addr1, .felt 3), (State.slot7, .felt 4)]), (State.addr1, [(State.slot7, .felt 4)])]⟩),
     (true, ⟨[], [], [], [], [(State.slot7, .felt 1)],
        [(State.slot7, [(State.addr1, .felt 0)]), (State.addr1, [(State.slot7, .felt 0)])]⟩),
     (true, ⟨[], [], [], [], [], [(State.slot7, [(State.addr1, .felt 9)])]⟩)]
    StateL.StL.empty).isSome = true := by decide

/-! ## The version test that selects the formula (round 4)

`Version.parse` / `Version.lessThan` transcribe `core.ParseBlockVersion` and `semver.Version.LessThan`;
`State.commitmentV ver s` is `State.Commitment(ver)` with the version STRING: `none` = the code dereferences the
nil version an unparsable string leaves behind. -/

/-- `ver.LessThan(0.14.0)` holds exactly for major 0, minor < 14 — whatever the patch number and any fourth part. -/
theorem version_pre014_iff (s : String) (v : Version.V) (h : Version.parse s = some v) :
    Version.pre014? s = some true ↔ v.major = 0 ∧ v.minor < 14 := by
  simp only [Version.pre014?, h, Option.map, Option.some.injEq]
  exact Version.lessThan_0_14_0 v

/-- **The formula switches once.** Along versions that never decrease (`v.Compare(w) <= 0`), once a block is
≥ 0.14.0 every later block is: this is the hypothesis `pre = true ∨ pre' = false` of
`stored_old_root_accepted_after_fix`. -/
theorem version_switch_once (v w : Version.V) (h : Version.le v w) :
    Version.lessThan v Version.v0_14_0 = true ∨ Version.lessThan w Version.v0_14_0 = false := by
  cases hw : Version.lessThan w Version.v0_14_0 with
  | false => exact Or.inr rfl
  | true => exact Or.inl (Version.pre014_antitone h hw)

/-- **State root under a version string.** For a parsable version the commitment the code computes is the
protocol commitment of the abstract state under the formula that version selects. -/
theorem state_commitment_spec_version (ver : String) (b : Bool) (hv : Version.pre014? ver = some b)
    (ds : List State.Diff) (hd : ∀ d ∈ ds, State.ValidDiff d) (s : State.St)
    (h : State.run true ds State.St.empty = some s) :
    State.commitmentV ver s = some (State.absCommitment b (State.absState ds)) := by
  rw [← state_commitment_spec b ds hd s h]
  exact State.stateCommitmentV_of_parse hv _ _

/-- The error path: `Commitment` panics on a version string exactly when the string does not parse, the class
trie is empty and the contract trie is not (lead in the notes; `CheckBlockVersion` rejects such a header before). -/
theorem state_commitment_version_panics_iff (ver : String) (s : State.St) :
    State.commitmentV ver s = none ↔
      Version.parse ver = none ∧ (Trie2.hashRoot .poseidon s.cltrie).1 = .felt 0 ∧
        (Trie2.hashRoot .pedersen s.ctrie).1 ≠ .felt 0 :=
  State.stateCommitmentV_none_iff ver _ _

/-- non-vacuity / boundary strings: two-component, empty, minor ≥ 10, leading zeros, fourth part ignored,
`2^64` overflows `ParseUint`, 32 bytes are too long -/
example : Version.pre014? "0.13.10" = some true ∧ Version.pre014? "0.14" = some false ∧
    Version.pre014? "" = some true ∧ Version.pre014? "00.013.5" = some true ∧
    Version.pre014? "0.14.0.x" = some false ∧ Version.pre014? "1.0.0" = some false ∧
    Version.pre014? "0.x.1" = none ∧ Version.pre014? "0.18446744073709551616.0" = none ∧
    Version.pre014? "0.18446744073709551615.0" = some false ∧
    Version.pre014? "0.13.1.0000000000000000000000000" = none := by decide

/-! ## What the node stores for every block (round 4)

`Chain.runFinalise` / `Chain.runStore` (`ModelChain.lean`) are `Finalise` (`updateStateRoots`) and `Store` of
`blockchain/statebackend`: for each block they produce what `writeBlockContent` stores — the header's
`GlobalStateRoot` and the state update's `OldRoot` / `NewRoot`. `Chain.specRoots a bs` is the specification:
the commitments of the abstract states after each block, each under its own block's version. -/

/-- **Every stored root is the protocol commitment** (sequencer path, both variants of `updateStateRoots`):
for EVERY block of a chain built by `Finalise` — not only the last — `Header.GlobalStateRoot` is the commitment of
the abstract state after that block under that block's version, and the stored `NewRoot` is the header's root. -/
theorem finalise_stores_protocol_roots (fixed : Bool) (bs : List (Bool × State.Diff))
    (hd : ∀ b ∈ bs, State.ValidDiff b.2) (sts : List Chain.Stored)
    (h : Chain.runFinalise fixed true bs (State.St.empty, .felt 0) = some sts) :
    sts.map (·.root) = Chain.specRoots State.AbsSt.empty bs ∧ ∀ st ∈ sts, st.new = st.root :=
  Chain.runFinalise_roots fixed bs hd _ _ _ _ Chain.stateOK_empty h

/-- **Sync path: the node never stores a root that is not the protocol commitment**, whatever roots the
blocks CLAIM: if `Store` accepts every block of a chain then for every block the stored header root is the
commitment of the abstract state after that block (and the stored old / new roots are the claimed ones, which
therefore were right). -/
theorem store_stores_protocol_roots (fixed : Bool) (bs : List Chain.SBlock)
    (hd : ∀ b ∈ bs, State.ValidDiff b.d) (sts : List Chain.Stored)
    (h : Chain.runStore fixed true bs State.St.empty = some sts) :
    sts.map (·.root) = Chain.specRoots State.AbsSt.empty (bs.map (fun b => (b.pre014, b.d))) ∧
    sts.map (fun st => (st.old, st.new)) = bs.map (fun b => (b.old, b.new)) :=
  Chain.runStore_roots fixed bs hd _ _ _ Chain.stateOK_empty h

/-!
DEFECT (known finding `finalise-stores-old-root-other-than-previous-block-root-at-commitment-formula-switch`).
Full-strength statement: in a chain built by `Finalise` the `OldRoot` stored for block n is the `GlobalStateRoot`
stored for block n-1 — `Chain.continuous (.felt 0) sts = true` for every accepted chain. FALSE on the unchanged
tree (`updateStateRoots` overwrites the caller's `OldRoot` with the old state's commitment under the NEW block's
version). Proved: the `_partial` form (one version regime), the negation witness, the full statement for the
proposed repair. -/
theorem finalise_old_root_is_previous_root_partial (purge pre014 : Bool) (ds : List State.Diff) (s : State.St)
    (sts : List Chain.Stored)
    (h : Chain.runFinalise false purge (ds.map (fun d => (pre014, d))) (s, State.commitment pre014 s) = some sts) :
    Chain.continuous (State.commitment pre014 s) sts = true :=
  Chain.runFinalise_continuous_same_version purge pre014 ds s sts h

set_option maxRecDepth 8000 in
/-- negation witness: block 0 (< 0.14.0) deploys 0x7, block 1 (≥ 0.14.0) sets its nonce: both are finalised, and
the old root stored for block 1 is not the root stored for block 0 -/
theorem finalise_old_root_not_previous_root_at_formula_switch :
    (Chain.runFinalise false true [(true, State.deploy7), (false, State.nonce7)] (State.St.empty, .felt 0)).map
      (Chain.continuous (.felt 0)) = some false := by decide

/-- the proposed repair: every chain `Finalise` accepts is continuous -/
theorem finalise_old_root_is_previous_root_after_fix (purge : Bool) (bs : List (Bool × State.Diff))
    (s : State.St) (head : HTerm) (sts : List Chain.Stored)
    (h : Chain.runFinalise true purge bs (s, head) = some sts) : Chain.continuous head sts = true :=
  Chain.runFinalise_continuous_fixed purge bs s head sts h

set_option maxRecDepth 8000 in
/-- non-vacuity of the repaired variant on the witness chain: accepted and continuous -/
example : (Chain.runFinalise true true [(true, State.deploy7), (false, State.nonce7)] (State.St.empty, .felt 0)).map
      (Chain.continuous (.felt 0)) = some true := by decide

set_option maxRecDepth 8000 in
/-- non-vacuity of `store_stores_protocol_roots`: the same two blocks with the roots a feeder sends (old root =
root stored for the previous block, new root = commitment under the block's own version) are accepted by the
repaired `Store` and rejected by the unchanged one (known finding) -/
example : (match State.run true [State.deploy7] State.St.empty, State.run true [State.deploy7, State.nonce7] State.St.empty with
    | some s0, some s1 =>
      let chain : List Chain.SBlock :=
        [⟨true, State.deploy7, .felt 0, State.commitment true s0⟩,
         ⟨false, State.nonce7, State.commitment true s0, State.commitment false s1⟩]
      (Chain.runStore true true chain State.St.empty).isSome && (Chain.runStore false true chain State.St.empty).isNone
    | _, _ => false) = true := by decide


/-! ## Contract records with a CACHED storage root; the head-state migration (round 5)

`StateM` (`ModelMigrate.lean`) is `core/state` with its two stores kept apart, as in the code: the contract record
(`stateContract`: class hash, nonce and `StorageRoot` — a felt that CACHES the root of the storage trie) in the
`Contract` bucket, and the storage tries in the node database under the contract's address. `StateM.update` is
`State.Update`: `stateObject.commit` opens the trie stored under the address, applies the dirty slots, commits,
writes the root into the record, and `stateContract.commitment()` hashes the record's fields into the leaf.
`StateM.SimM sm s` says that `sm` represents the state `s` of `ModelState.lean` (same contract / class trie, per
address the same class hash and nonce and the trie stored under the address, no storage nodes without a record);
it does NOT constrain the cached roots. `StateM.upgrade legacy native` is the database after the upgrade of a
legacy node: the `Contract` bucket as `migration/state/headstate` writes it from the per-field layout of
core/deprecatedstate (`state.WriteContract`: class hash, nonce — and NO storage root), the tries of the same
state in the trie2 buckets. -/

/-- **The cached storage root of a record is never read before it is recomputed.** Overwrite the `StorageRoot` of
every contract record by arbitrary values (`restale f`): every history is accepted or rejected as before and
computes the same roots. -/
theorem state_root_ignores_cached_storage_roots (purge pre014 : Bool) (ds : List State.Diff) (sm : StateM.StM)
    (ho : ∀ a, State.alookup sm.recs a = none → sm.nodes a = .nil) (f : Path → StateM.RecM → HTerm) :
    (StateM.run purge ds (StateM.restale f sm)).map (StateM.commitment pre014) =
      (StateM.run purge ds sm).map (StateM.commitment pre014) := by
  have h := StateM.simM_view ho
  rw [StateM.run_commitment_eq purge pre014 ds _ _ (StateM.simM_restale h f),
    StateM.run_commitment_eq purge pre014 ds _ _ h]

/-- **`state_commitment_spec` for records in the stale form.** From ANY database that represents a reachable
state `s` with abstract state `a` — whatever its records' cached storage roots hold (zero after the head-state
migration, or anything else) — every accepted continuation `ds` ends in a state whose commitment is the protocol
commitment of `a` with `ds` applied. -/
theorem state_commitment_spec_stale_records (pre014 : Bool) (ds : List State.Diff)
    (hd : ∀ d ∈ ds, State.ValidDiff d) (sm sm' : StateM.StM) (s : State.St) (a : State.AbsSt)
    (hok : Chain.StateOK s a) (hsim : StateM.SimM sm s) (h : StateM.run true ds sm = some sm') :
    StateM.commitment pre014 sm' = State.absCommitment pre014 (ds.foldl State.absApply a) := by
  obtain ⟨s', _, hsim', hok', _⟩ :=
    StateM.run_inv (fun _ => True) (fun _ _ _ _ _ => trivial) ds hd sm sm' s a hok hsim trivial h
  rw [StateM.commitment_sim hsim', Chain.commitment_ok hok']

/-- **`stateObject.commit` recomputes the cached root of every touched contract.** One accepted block on a database
with arbitrary cached roots: every contract the diff names (deployed / replaced / nonce / storage) and that still
has a record afterwards carries, as cached root, the commitment of the storage map its trie holds; every other
record and storage trie is unchanged. -/
theorem state_update_backfills_cached_storage_root (purge : Bool) (sm sm' : StateM.StM) (s : State.St) (a0 : State.AbsSt)
    (d : State.Diff) (hok : Chain.StateOK s a0) (hsim : StateM.SimM sm s) (hd : State.ValidDiff d)
    (hu : StateM.update purge sm d = some sm') (a : Path) :
    (StateM.TouchedBy d a → ∀ r, State.alookup sm'.recs a = some r →
        r.sroot = Spec.root .pedersen 251 (Trie2.get (sm'.nodes a))) ∧
    (¬ StateM.TouchedBy d a → State.alookup sm'.recs a = State.alookup sm.recs a ∧ sm'.nodes a = sm.nodes a) :=
  StateM.update_backfills hok.swf hsim hd hu a

/-- On a NATIVELY built database every record's cached root is exact (the commitment of the contract's storage map),
after any accepted history — so there "cached root zero" does mean "no storage". -/
theorem native_contract_records_exact (ds : List State.Diff) (hd : ∀ d ∈ ds, State.ValidDiff d) (sm : StateM.StM)
    (h : StateM.run true ds StateM.StM.empty = some sm) : StateM.Exact sm := by
  obtain ⟨_, _, _, _, hx⟩ := StateM.run_inv StateM.Exact (fun hs hsim hd hu hp => StateM.update_exact hs hsim hd hu hp)
    ds hd _ sm _ _ Chain.stateOK_empty StateM.simM_empty
    (by intro a r hr; simp [StateM.StM.empty, State.alookup] at hr) h
  exact hx

/-- **After the head-state migration the state root is still the protocol commitment** — although every migrated
record carries a zero storage root, whether or not its contract has storage. `legacy` is the state the legacy node
had after `ds1` (here: of a legacy backend that removes emptied system contracts as core/state does — the proposed
repair of known finding 1; for the unchanged backend see the `_partial` form below), `native` the trie2 database
of the same history; the upgraded database takes its records from the migrator. Every accepted continuation `ds2`
computes the commitment of the abstract state of `ds1 ++ ds2`, and every record is then either still in the
rootless form or carries the exact root. -/
theorem state_commitment_spec_after_head_state_migration (pre014 : Bool) (ds1 ds2 : List State.Diff)
    (hd1 : ∀ d ∈ ds1, State.ValidDiff d) (hd2 : ∀ d ∈ ds2, State.ValidDiff d)
    (legacy : State.St) (native sm' : StateM.StM)
    (hl : State.run true ds1 State.St.empty = some legacy)
    (hn : StateM.run true ds1 StateM.StM.empty = some native)
    (h : StateM.run true ds2 (StateM.upgrade legacy native) = some sm') :
    StateM.commitment pre014 sm' = State.absCommitment pre014 (State.absState (ds1 ++ ds2)) ∧
    StateM.ZeroOrExact sm' := by
  obtain ⟨s1, hs1, hsim1, hok1, _⟩ :=
    StateM.run_inv (fun _ => True) (fun _ _ _ _ _ => trivial) ds1 hd1 _ native _ _
      Chain.stateOK_empty StateM.simM_empty trivial hn
  rw [hl, Option.some.injEq] at hs1
  subst hs1
  have hz : StateM.ZeroOrExact (StateM.upgrade legacy native) :=
    fun a r hr => Or.inl (StateM.upgrade_rootless legacy native a r hr)
  obtain ⟨s', _, hsim', hok', hx⟩ :=
    StateM.run_inv StateM.ZeroOrExact (fun hs hsim hd hu hp => StateM.update_zeroOrExact hs hsim hd hu hp)
      ds2 hd2 _ sm' _ _ hok1 (StateM.simM_upgrade hsim1) hz h
  refine ⟨?_, hx⟩
  rw [StateM.commitment_sim hsim', Chain.commitment_ok hok']
  simp only [State.absState, List.foldl_append]

/-- The same for the legacy backend of the UNCHANGED tree (`State.run false`: an emptied system contract keeps its
record, known finding 1). Partial: proved for histories in which no system contract is emptied before the upgrade
(`NoSystemContractEmptied`); without that the migrator also writes a record (class 0, nonce 0) for the emptied
system contract, which the trie2 database has no leaf for — the harness family `state-migrated-*` runs such
histories (the root stays right), the simulation argument used here does not cover them. -/
theorem state_commitment_spec_after_head_state_migration_partial (pre014 : Bool) (ds1 ds2 : List State.Diff)
    (hd1 : ∀ d ∈ ds1, State.ValidDiff d) (hd2 : ∀ d ∈ ds2, State.ValidDiff d)
    (hk : State.NoSystemContractEmptied State.AbsSt.empty ds1)
    (legacy : State.St) (native sm' : StateM.StM)
    (hl : State.run false ds1 State.St.empty = some legacy)
    (hn : StateM.run true ds1 StateM.StM.empty = some native)
    (h : StateM.run true ds2 (StateM.upgrade legacy native) = some sm') :
    StateM.commitment pre014 sm' = State.absCommitment pre014 (State.absState (ds1 ++ ds2)) ∧
    StateM.ZeroOrExact sm' :=
  state_commitment_spec_after_head_state_migration pre014 ds1 ds2 hd1 hd2 legacy native sm'
    (state_backends_agree_unless_system_contract_emptied pre014 ds1 hd1 hk legacy hl).1 hn h

/-- **The whole upgrade path, legacy side transcribed.** `ls` = the database of the legacy node after `ds1`
(`LState.run true`: core/deprecatedstate statement by statement, with the proposed repair of finding 1), `native` =
the trie2 database of the same history; `StateM.upgradeF ls.cls ls.nonce native` = the `Contract` bucket as the
migrator writes it from `ls`'s `ContractClassHash` / `ContractNonce` buckets (no storage roots) next to those tries.
Every accepted continuation `ds2` computes the protocol commitment of the abstract state of `ds1 ++ ds2`, and every
record is then rootless or exact. -/
theorem state_commitment_spec_after_head_state_migration_transcribed (pre014 : Bool) (ds1 ds2 : List State.Diff)
    (hd1 : ∀ d ∈ ds1, State.ValidDiff d) (hd2 : ∀ d ∈ ds2, State.ValidDiff d)
    (ls : LState.LSt) (native sm' : StateM.StM)
    (hl : LState.run true ds1 LState.LSt.empty = some ls)
    (hn : StateM.run true ds1 StateM.StM.empty = some native)
    (h : StateM.run true ds2 (StateM.upgradeF ls.cls ls.nonce native) = some sm') :
    StateM.commitment pre014 sm' = State.absCommitment pre014 (State.absState (ds1 ++ ds2)) ∧
    StateM.ZeroOrExact sm' :=
  StateM.upgradeF_run_spec pre014 ds1 ds2 hd1 hd2 true (Or.inl rfl) ls native sm' hl hn h

/-- ... for the legacy backend of the UNCHANGED tree (`LState.run false`). Partial: histories in which no system
contract is emptied before the upgrade (known finding 1: else the legacy database keeps a class-hash entry for the
emptied system contract and the migrator writes a record the trie2 database has no leaf for; exercised by the
harness, 15 such histories per quick run, roots stay right). -/
theorem state_commitment_spec_after_head_state_migration_transcribed_partial (pre014 : Bool) (ds1 ds2 : List State.Diff)
    (hd1 : ∀ d ∈ ds1, State.ValidDiff d) (hd2 : ∀ d ∈ ds2, State.ValidDiff d)
    (hk : State.NoSystemContractEmptied State.AbsSt.empty ds1)
    (ls : LState.LSt) (native sm' : StateM.StM)
    (hl : LState.run false ds1 LState.LSt.empty = some ls)
    (hn : StateM.run true ds1 StateM.StM.empty = some native)
    (h : StateM.run true ds2 (StateM.upgradeF ls.cls ls.nonce native) = some sm') :
    StateM.commitment pre014 sm' = State.absCommitment pre014 (State.absState (ds1 ++ ds2)) ∧
    StateM.ZeroOrExact sm' :=
  StateM.upgradeF_run_spec pre014 ds1 ds2 hd1 hd2 false (Or.inr hk) ls native sm' hl hn h

set_option maxRecDepth 8000 in
/-- non-vacuity: contract 0x7 is deployed with two storage slots (legacy node and trie2 database), the node is
upgraded — the migrated record of 0x7 has root zero although its storage is not empty —, then a NONCE-ONLY block:
accepted, the root is the one the natively built database computes, and it is not the root a leaf hashed from the
stale record would give -/
example :
    (match State.run true [⟨[], [], [(State.slot7, .felt 5)], [], [], [(State.slot7, [(State.addr1, .felt 3), (State.slot7, .felt 4)])]⟩] State.St.empty,
           StateM.run true [⟨[], [], [(State.slot7, .felt 5)], [], [], [(State.slot7, [(State.addr1, .felt 3), (State.slot7, .felt 4)])]⟩] StateM.StM.empty with
     | some legacy, some native =>
       let up := StateM.upgrade legacy native
       ((State.alookup up.recs State.slot7).map (·.sroot) == some (.felt 0)) &&
       ((StateM.run true [State.nonce7] up).map (StateM.commitment true) ==
         (StateM.run true [State.nonce7] native).map (StateM.commitment true)) &&
       ((StateM.run true [State.nonce7] up).map (StateM.commitment true) !=
         some (Trie2.hashRoot .pedersen (Trie2.update .nil State.slot7
           (State.contractLeaf (.felt 5) (.felt 0) (.felt 1)))).1)
     | _, _ => false) = true := by decide


set_option maxRecDepth 8000 in
/-- non-vacuity of the transcribed upgrade path: the unrepaired legacy node deploys 0x7 with two slots and writes,
then empties, a slot of system contract 0x1 (whose class-hash entry it keeps: the migrator writes a record for it);
upgrade; a nonce-only block on 0x7 and a new slot of 0x1: accepted, same root as the natively built database -/
example :
    (match LState.run false [⟨[], [], [(State.slot7, .felt 5)], [], [],
              [(State.slot7, [(State.addr1, .felt 3), (State.slot7, .felt 4)]), (State.addr1, [(State.slot7, .felt 4)])]⟩,
            ⟨[], [], [], [], [], [(State.addr1, [(State.slot7, .felt 0)])]⟩] LState.LSt.empty,
           StateM.run true [⟨[], [], [(State.slot7, .felt 5)], [], [],
              [(State.slot7, [(State.addr1, .felt 3), (State.slot7, .felt 4)]), (State.addr1, [(State.slot7, .felt 4)])]⟩,
            ⟨[], [], [], [], [], [(State.addr1, [(State.slot7, .felt 0)])]⟩] StateM.StM.empty with
     | some ls, some native =>
       let up := StateM.upgradeF ls.cls ls.nonce native
       let post : List State.Diff := [State.nonce7, ⟨[], [], [], [], [], [(State.addr1, [(State.slot7, .felt 8)])]⟩]
       ((State.alookup up.recs State.addr1).isSome && (State.alookup native.recs State.addr1).isNone) &&
       ((StateM.run true post up).map (StateM.commitment true) == (StateM.run true post native).map (StateM.commitment true)) &&
       (StateM.run true post up).isSome
     | _, _ => false) = true := by decide

/-! ## `core/deprecatedstate` transcribed (round 5)

`State.run false` (above) is core/state's algorithm with the purge switched off. `LState.run`
(`ModelLegacyState.lean`) is `core/deprecatedstate.State.Update` statement by statement: no records and no state
objects but a class-hash bucket, a nonce bucket and a storage trie per address; after EVERY single change
(`putNewContract`, `replaceContract`, `updateContractNonce`) the leaf of that address is recomputed from the three
stores and `Put` into the contract trie, so one block may write the leaf of an address several times;
`updateContractStorages` deploys the system contracts of the diff, writes every storage trie and only then
recomputes the leaves. `purge = true` is the backend with the proposed repair of known finding 1
(`purgesystemContracts()` at the end of `Update`), `purge = false` the unchanged tree. -/

/-- **The legacy backend (transcribed, with the proposed repair) computes the protocol commitment** of the abstract
state after any sequence of accepted updates. -/
theorem legacy_transcribed_state_commitment_spec (pre014 : Bool) (ds : List State.Diff)
    (hd : ∀ d ∈ ds, State.ValidDiff d) (ls : LState.LSt)
    (h : LState.run true ds LState.LSt.empty = some ls) :
    LState.commitment pre014 ls = State.absCommitment pre014 (State.absState ds) := by
  obtain ⟨_, hok⟩ := LState.run_ok true ds hd _ ls _ _ LState.lok_empty (Or.inl rfl) h
  exact LState.commitment_ok hok pre014

/-- The UNCHANGED legacy backend (transcribed). The full statement is false (known finding 1, witness below);
proved for histories in which no block leaves a system contract whose storage it writes empty. -/
theorem legacy_transcribed_state_commitment_spec_partial (pre014 : Bool) (ds : List State.Diff)
    (hd : ∀ d ∈ ds, State.ValidDiff d) (hk : State.NoSystemContractEmptied State.AbsSt.empty ds) (ls : LState.LSt)
    (h : LState.run false ds LState.LSt.empty = some ls) :
    LState.commitment pre014 ls = State.absCommitment pre014 (State.absState ds) := by
  obtain ⟨_, hok⟩ := LState.run_ok false ds hd _ ls _ _ LState.lok_empty (Or.inr hk) h
  exact LState.commitment_ok hok pre014

set_option maxRecDepth 8000 in
/-- negation witness on the transcription: "write 0 to slot 7 of contract 0x1" is accepted by the unchanged legacy
backend and leaves a root that is not the protocol commitment (which is 0); the repaired backend computes 0 -/
theorem legacy_transcribed_state_commitment_not_protocol :
    (LState.run false [State.zeroWriteToSystemContract] LState.LSt.empty).map (LState.commitment true) ≠
      some (State.absCommitment true (State.absState [State.zeroWriteToSystemContract])) ∧
    (LState.run true [State.zeroWriteToSystemContract] LState.LSt.empty).map (LState.commitment true) =
      some (State.absCommitment true (State.absState [State.zeroWriteToSystemContract])) := by
  rw [State.absCommitment_zeroWrite]
  decide

/-- **Which state implementation is selected does not matter** — each side now a transcription of its own code:
the eager per-field algorithm of core/deprecatedstate and the state-object algorithm of core/state compute the
same root (both the commitment of the abstract state), unless a system contract is emptied (unchanged tree). -/
theorem state_backends_agree_transcribed_partial (pre014 : Bool) (ds : List State.Diff)
    (hd : ∀ d ∈ ds, State.ValidDiff d) (hk : State.NoSystemContractEmptied State.AbsSt.empty ds)
    (ls : LState.LSt) (s : State.St)
    (hl : LState.run false ds LState.LSt.empty = some ls) (hs : State.run true ds State.St.empty = some s) :
    LState.commitment pre014 ls = State.commitment pre014 s := by
  rw [legacy_transcribed_state_commitment_spec_partial pre014 ds hd hk ls hl, state_commitment_spec pre014 ds hd s hs]

/-- ... and with the proposed repair of the legacy backend, on every history. -/
theorem state_backends_agree_transcribed_after_fix (pre014 : Bool) (ds : List State.Diff)
    (hd : ∀ d ∈ ds, State.ValidDiff d) (ls : LState.LSt) (s : State.St)
    (hl : LState.run true ds LState.LSt.empty = some ls) (hs : State.run true ds State.St.empty = some s) :
    LState.commitment pre014 ls = State.commitment pre014 s := by
  rw [legacy_transcribed_state_commitment_spec pre014 ds hd ls hl, state_commitment_spec pre014 ds hd s hs]

set_option maxRecDepth 8000 in
/-- non-vacuity: a block that declares a class, deploys 0x7 with it, replaces its class, sets its nonce and writes one
of its slots and one slot of system contract 0x1 (the leaf of 0x7 is written four times), then a block that zeroes
the slot of 0x1: accepted by both variants; the repaired one ends with the root of the state without 0x1 -/
example :
    (LState.run false [⟨[(State.slot7, .felt 9)], [], [(State.slot7, .felt 5)], [(State.slot7, .felt 6)], [(State.slot7, .felt 1)],
        [(State.slot7, [(State.addr1, .felt 3)]), (State.addr1, [(State.slot7, .felt 4)])]⟩,
      ⟨[], [], [], [], [], [(State.addr1, [(State.slot7, .felt 0)])]⟩] LState.LSt.empty).isSome = true ∧
    (LState.run true [⟨[(State.slot7, .felt 9)], [], [(State.slot7, .felt 5)], [(State.slot7, .felt 6)], [(State.slot7, .felt 1)],
        [(State.slot7, [(State.addr1, .felt 3)]), (State.addr1, [(State.slot7, .felt 4)])]⟩,
      ⟨[], [], [], [], [], [(State.addr1, [(State.slot7, .felt 0)])]⟩] LState.LSt.empty).map (LState.commitment true) =
    (State.run true [⟨[(State.slot7, .felt 9)], [], [(State.slot7, .felt 5)], [(State.slot7, .felt 6)], [(State.slot7, .felt 1)],
        [(State.slot7, [(State.addr1, .felt 3)]), (State.addr1, [(State.slot7, .felt 4)])]⟩,
      ⟨[], [], [], [], [], [(State.addr1, [(State.slot7, .felt 0)])]⟩] State.St.empty).map (State.commitment true) := by
  decide

/-! ## Lead: `Trie.Update` of core/trie2 keeps the caller's value POINTER (round 4)

`insert` stores `(*trienode.ValueNode)(value)` — no copy — so a caller that overwrites its felt variable after the
call changes the leaf in place (`Trie2.poke`: no flag, no cached hash is touched); core/trie serialises the value
at once. No caller in juno reuses the variable today (a seeded change of `updateClassTrie` did: one `leafVal`
for all classes of a block). Not judged; the model transcribes the behaviour, the harness family
`value-pointer-reuse` ties it (and checks that core/trie copies). -/

/-- two keys written through ONE variable (`Update(k1, &v)`; `v = 7`; `Update(k2, &v)`): both leaves show the last value -/
example : (Trie2.hashRoot .pedersen
      (Trie2.update (Trie2.poke (Trie2.update .nil [true, false, true] (.felt 1)) [true, false, true] (.felt 7))
        [true, false, false] (.felt 7))).1
    = (Trie2.hashRoot .pedersen (Trie2.run .pedersen [.put [true, false, true] (.felt 7), .put [true, false, false] (.felt 7)])).1 := by
  decide

/-- after `Hash()` the cached hashes above the leaf are stale: the root does not follow the variable any more -/
example : (Trie2.hashRoot .pedersen
      (Trie2.poke (Trie2.hashRoot .pedersen (Trie2.update .nil [true, false] (.felt 1))).2 [true, false] (.felt 9))).1
    = (Trie2.hashRoot .pedersen (Trie2.update .nil [true, false] (.felt 1))).1 := by decide

/-! ## Not covered by a theorem

* Dropped updates (`Simulate`, a batch closed without `Write`, a failed root check) leave no trace: in the
  functional models that is true by construction (`ProofsMisc.lean`), so it is NOT claimed here; the real
  code is checked by the harness (database dump before / after, five modes, both backends).
* Process restarts of the state layer (the state model keeps resolved trees across blocks): harness only. * The database half of trie2's commit / reopen: correspondence of the committed node sets. -/

/-! ## The legacy trie (`core/trie`)

`Legacy.put / Legacy.hash` transcribe the flat, path-keyed trie: `Put` (updateLeaf, handleEmptyTrie,
deleteExistingKey + deleteLast, insertOrUpdateValue with its eager parent hash), `nodesFromRoot`, the
dirty-node list and the lazy rehash `updateValueIfDirty` run by `Hash()`.
Invariant proved for every history (`Legacy.Repr`): the flat store is, key by key, the flattening of the
canonical trie2 tree of the history's map (leaves, inner nodes, links, root key), and every cached inner
value is the hash of its children's cached values unless a dirty key lies strictly below it. -/

/-- **The legacy trie is canonical.** For EVERY sequence of inserts, overwrites, zero-writes (present or
absent keys) and `Hash()` calls the root returned by the legacy trie is the Starknet commitment of the
resulting key/value map (and no call fails). -/
theorem legacy_canonical (k : HashKind) (n : Nat) (ops : List Op) (hv : ValidOps n ops) :
    Legacy.runOps n k ops = some (Spec.root k n (absRun ops)) :=
  Legacy.runOps_all k n ops hv

/-- **Both trie implementations agree** on every history. -/
theorem backends_agree (k : HashKind) (n : Nat) (ops : List Op) (hv : ValidOps n ops) :
    Legacy.runOps n k ops = some (Trie2.hashRoot k (Trie2.run k ops)).1 := by
  rw [legacy_canonical k n ops hv, (trie2_canonical k n ops hv).2.2]

/-- **The legacy trie across restarts.** `Legacy.runL`: writes, `Hash()` calls and restarts in any interleaving,
a restart being `Hash()` (production code always commits a trie before its transaction ends; `Hash()` is
what persists the root key) followed by a new trie object on the same storage (`Legacy.reopen`: the in-memory
dirty list is gone). The root is the commitment of the final map, so restarts change nothing. The byte
encoding of the stored nodes is not modelled (the store is a map); tied by the `lreopen` correspondence. -/
theorem legacy_restart_canonical (k : HashKind) (n : Nat) (ops : List LOp) (hv : TrieL.ValidLOps n ops) :
    Legacy.runL n k ops = some (Spec.root k n (labsRun ops)) :=
  Legacy.runL_all k n ops hv

example : Legacy.runL 2 .pedersen [.put [true, false] (.felt 3), .reopen, .put [true, true] (.felt 4), .reopen,
    .put [true, false] (.felt 9), .put [true, true] (.felt 0)] = some (.add (.h .pedersen (.felt 9) (.felt 2)) 2) := by
  decide

/-- non-vacuity: insert, hash, overwrite, delete collapsing a binary node, delete to empty -/
example : Legacy.runOps 2 .pedersen [.put [true, false] (.felt 3), .hash, .put [true, true] (.felt 4),
    .put [true, false] (.felt 9), .put [true, true] (.felt 0)] = some (.add (.h .pedersen (.felt 9) (.felt 2)) 2) := by
  decide

/-! ## The byte level of what is persisted (round 6)

`ModelEnc.lean` transcribes the encoders / decoders between the values the models above talk about and the bytes in
the database: the contract record (`stateContract.MarshalBinary / UnmarshalBinary`, `state.WriteContract`), the trie2
node blobs (`trienode.EncodeNode / DecodeNode`) with the path encoding of `trieutils.BitArray` (also the suffix of
every node key), and the legacy trie's node and key bytes (`trie.Node.WriteTo / UnmarshalBinary`, `trie.BitArray`).
Felts are numbers below the field prime `Enc.P` (`felt.SetBytes` reduces modulo it), bytes are numbers. "A restart
reads back what was written" at this level: every decoder inverts its encoder on everything the encoder is given. -/

/-- **A contract record survives the database**: what `MarshalBinary` writes, `UnmarshalBinary` reads back — class
hash, nonce, cached storage root, deployment height — for canonical felts and a 64-bit height. -/
theorem contract_record_bytes_roundtrip (r : Enc.Rec) (hn : r.nonce < Enc.P) (hc : r.cls < Enc.P)
    (hs : r.sroot < Enc.P) (hh : r.height < 2 ^ 64) : Enc.decodeRec (Enc.encodeRec r) = some r :=
  Enc.decodeRec_encodeRec r hn hc hs hh

/-- The form is chosen by the cached root alone: 72 bytes iff it is zero, else 104. -/
theorem contract_record_form (r : Enc.Rec) : (Enc.encodeRec r).length = if r.sroot = 0 then 72 else 104 :=
  Enc.encodeRec_length r

/-- **A record in the short form reads with a ZERO storage root** — whatever storage the contract has. This is the
form `state.WriteContract` (the head-state migration) writes for every contract: the byte-level fact behind
`state_commitment_spec_after_head_state_migration` (the cached root of a migrated record says nothing). -/
theorem contract_record_short_form_reads_zero_root (bs : List Nat) (r : Enc.Rec) (h : Enc.decodeRec bs = some r)
    (hl : bs.length = 72) : r.sroot = 0 :=
  Enc.decodeRec_rootless h hl

theorem migrator_record_has_no_storage_root (nonce cls height : Nat) (hn : nonce < Enc.P) (hc : cls < Enc.P)
    (hh : height < 2 ^ 64) :
    (Enc.writeContractRec nonce cls height).length = 72 ∧
    Enc.decodeRec (Enc.writeContractRec nonce cls height) = some ⟨nonce, cls, 0, height⟩ := by
  refine ⟨by simp [Enc.writeContractRec, Enc.encodeRec_length], ?_⟩
  exact Enc.decodeRec_encodeRec ⟨nonce, cls, 0, height⟩ hn hc (show 0 < Enc.P by decide) hh

/-- error path: every other length is rejected (and only those) -/
theorem contract_record_rejects_other_lengths (bs : List Nat) :
    Enc.decodeRec bs = none ↔ (bs.length ≠ 104 ∧ bs.length ≠ 72) :=
  Enc.decodeRec_none_iff bs

/-- **trie2 paths** (node keys, edge paths): `UnmarshalBinary ∘ Write = id`, for every path length. -/
theorem trie2_path_bytes_roundtrip (p : Path) : Enc.decodePath (Enc.encodePath p) = some p :=
  Enc.decodePath_encodePath p

/-- **A trie2 node survives the database.** For every node the collector writes (`BlobN.WF`: canonical felts, edge
path of at most 251 bits), stored at depth `pathLen` of a trie of height `maxLen` (a binary node above the last
level; an edge with an empty path — never written — not AT full depth, where `DecodeNode` panics:
`Enc.DecErr.childType`), `DecodeNode (EncodeNode n) = n`. -/
theorem trie2_node_bytes_roundtrip (b : Enc.BlobN) (hw : b.WF) (pathLen maxLen : Nat)
    (hp : match b with
      | .leaf _ => pathLen ≤ maxLen
      | .bin _ _ => pathLen + 1 ≤ maxLen
      | .edge _ p => pathLen ≤ maxLen ∧ (p = [] → pathLen < maxLen)) :
    Enc.decodeBlob (Enc.encodeBlob b) pathLen maxLen = .ok b :=
  Enc.decodeBlob_encodeBlob b hw pathLen maxLen hp

/-- two different nodes never have the same bytes -/
theorem trie2_node_bytes_injective (a b : Enc.BlobN) (ha : a.WF) (hb : b.WF)
    (h : Enc.encodeBlob a = Enc.encodeBlob b) : a = b :=
  Enc.encodeBlob_injective a b ha hb h

/-- `DecodeNode` tells a value / hash node from an inner node by the LENGTH of the blob (32 bytes) before it looks at
the type byte: sound, because no inner node is ever 32 bytes long. -/
theorem trie2_inner_node_never_32_bytes (b : Enc.BlobN) (h : (Enc.encodeBlob b).length = 32) : ∃ v, b = .leaf v :=
  Enc.encodeBlob_inner_not_32 b h

/-- **Database keys of trie2 nodes** (`trieutils.nodeKeyByPath`): within a bucket, the key determines the owner (the
contract whose storage trie the node belongs to), the leaf flag and the path — two nodes never share a key. -/
theorem trie2_node_key_injective (bucket o o' : Nat) (l l' : Bool) (p p' : Path) (ho : o ≠ 0) (ho' : o' ≠ 0)
    (hP : o < Enc.P) (hP' : o' < Enc.P) (h : Enc.nodeKey bucket o l p = Enc.nodeKey bucket o' l' p') :
    o = o' ∧ l = l' ∧ p = p' :=
  Enc.nodeKey_injective bucket o o' l l' p p' ho ho' hP hP' h

theorem trie2_node_key_injective_no_owner (bucket : Nat) (l l' : Bool) (p p' : Path)
    (h : Enc.nodeKey bucket 0 l p = Enc.nodeKey bucket 0 l' p') : l = l' ∧ p = p' :=
  Enc.nodeKey_injective_no_owner bucket l l' p p' h

/-- **The range delete of a purged contract's storage nodes** (`DeleteStorageNodesByPath`, run by `flush` for an
emptied system contract and by `Revert`) covers every node key of that contract and no node key of any other
contract: purging one contract cannot change another contract's storage root. -/
theorem purge_range_covers_exactly_the_contract (bucket o o' : Nat) (l : Bool) (p : Path) (ho : o ≠ 0) (ho' : o' ≠ 0)
    (hP : o < Enc.P) (hP' : o' < Enc.P) :
    Enc.storagePrefix bucket o <+: Enc.nodeKey bucket o l p ∧
    (o ≠ o' → ¬ Enc.storagePrefix bucket o <+: Enc.nodeKey bucket o' l p) :=
  ⟨Enc.storagePrefix_prefix bucket o l p ho, Enc.storagePrefix_other bucket o o' l p ho' hP hP'⟩

/-- non-vacuity: the key of the root node of contract 0xabc's storage trie, of a leaf of the contract trie -/
example : Enc.nodeKey 5 0xabc false [] = 5 :: (List.replicate 30 0 ++ [0x0a, 0xbc] ++ [1, 0]) ∧
    Enc.nodeKey 4 0 true [true, false, true] = [4, 2, 5, 3] := by
  decide

/-- **Legacy trie**: keys (`BitArray.Write`, length first) and nodes (`Node.WriteTo`: value, child keys of an inner
node, child hashes of a proof node) are read back as written; a key is followed by arbitrary further bytes. -/
theorem legacy_path_bytes_roundtrip (p : Path) (rest : List Nat) :
    Enc.decodePathL (Enc.encodePathL p ++ rest) = some (p, rest) :=
  Enc.decodePathL_encodePathL p rest

theorem legacy_node_bytes_roundtrip (n : Enc.LNodeB) (hw : n.WF) : Enc.decodeLNode (Enc.encodeLNode n) = .ok n :=
  Enc.decodeLNode_encodeLNode n hw

/-- non-vacuity: a record with and without cached root; the migrator's record; a damaged record -/
example : Enc.decodeRec (Enc.encodeRec ⟨5, 0xc1a55, 0, 3⟩) = some ⟨5, 0xc1a55, 0, 3⟩ ∧
    Enc.decodeRec (Enc.encodeRec ⟨Enc.P - 1, 2 ^ 251, 7, 2 ^ 64 - 1⟩) = some ⟨Enc.P - 1, 2 ^ 251, 7, 2 ^ 64 - 1⟩ ∧
    (Enc.encodeRec ⟨5, 0xc1a55, 0, 3⟩).length = 72 ∧ (Enc.encodeRec ⟨5, 0xc1a55, 7, 3⟩).length = 104 ∧
    Enc.decodeRec ((Enc.encodeRec ⟨5, 0xc1a55, 7, 3⟩).dropLast) = none := by
  decide

set_option maxRecDepth 8000 in
/-- non-vacuity: a leaf at full depth, a binary node, an edge reaching the leaves with a 251-bit path (66 bytes),
an edge with a 9-bit path (two value bytes); the panic of `DecodeNode` on an empty-path edge at full depth; a blob
with an unknown type byte -/
example : Enc.decodeBlob (Enc.encodeBlob (.leaf 9)) 251 251 = .ok (.leaf 9) ∧
    Enc.decodeBlob (Enc.encodeBlob (.bin 3 (Enc.P - 1))) 250 251 = .ok (.bin 3 (Enc.P - 1)) ∧
    Enc.decodeBlob (Enc.encodeBlob (.edge 7 (List.replicate 251 true))) 0 251 = .ok (.edge 7 (List.replicate 251 true)) ∧
    (Enc.encodeBlob (.edge 7 (List.replicate 251 true))).length = 66 ∧
    Enc.encodeBlob (.edge 7 [true, false, false, false, false, false, false, false, true]) =
      2 :: (List.replicate 31 0 ++ [7] ++ [1, 1, 9]) ∧
    Enc.decodeBlob (Enc.encodeBlob (.edge 7 [])) 251 251 = .error .childType ∧
    Enc.decodeBlob (3 :: List.replicate 64 0) 0 251 = .error .unknownType := by
  decide

/-- non-vacuity: legacy leaf, inner node (children at depths 2 and 9), proof node -/
example : Enc.decodeLNode (Enc.encodeLNode ⟨9, none, none⟩) = .ok ⟨9, none, none⟩ ∧
    Enc.decodeLNode (Enc.encodeLNode ⟨9, some ([false, true], List.replicate 9 true), none⟩) =
      .ok ⟨9, some ([false, true], List.replicate 9 true), none⟩ ∧
    Enc.decodeLNode (Enc.encodeLNode ⟨9, some ([false], [true]), some (4, 5)⟩) = .ok ⟨9, some ([false], [true]), some (4, 5)⟩ ∧
    Enc.decodeLNode (List.replicate 31 0) = .error .short := by
  decide

end Juno.C01.Props
