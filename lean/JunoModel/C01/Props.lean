import JunoModel.C01.ProofsSpec
import JunoModel.C01.ProofsState
import JunoModel.C01.ModelLegacy
import JunoModel.C01.ProofsLazy
import JunoModel.C01.ModelStore
import JunoModel.C01.ProofsLegacy
import JunoModel.C01.ProofsLegacyDel
/-!
C01 — property theorems (statements only; helper lemmas are in `Proofs*.lean`).
Every theorem in this module is an obligation listed in evidence/C01.json with its axioms.

Reading guide. `Spec.root k n m` is the Starknet commitment (the `(length, path, bottom)` definition
of the protocol documentation) of the key/value map `m : Path → HTerm` over keys of `n` bits, `felt 0`
meaning "absent"; hashes are free terms (ideal collision-free hash). `absRun ops` is the plain map
semantics of an operation sequence (last write wins, writing zero deletes). `Trie2.run k ops` is
what `core/trie2` builds: `Update` (insert / overwrite / delete) and `Hash()` (fills the per-node
hash caches) applied from the empty trie.
-/
namespace Juno.C01.Props
open Juno.C01

/-- The commitment of the empty map is zero at every height. -/
theorem spec_root_empty (k : HashKind) (n : Nat) : Spec.root k n (fun _ => .felt 0) = .felt 0 := by
  simp [Spec.root, spec_node_empty, SNode.hash, SNode.empty]

/-- `Spec.root` is a function of the key/value SET: it only looks at keys of the trie's height. -/
theorem spec_root_extensional (k : HashKind) (n : Nat) (m m' : Path → HTerm)
    (h : ∀ key, key.length = n → m key = m' key) : Spec.root k n m = Spec.root k n m' := by
  simp only [Spec.root]; rw [spec_node_congr k n m m' h]

/-- **trie2 is canonical.** For EVERY sequence of inserts, overwrites, zero-writes (to present or
absent keys) and interleaved `Hash()` calls on keys of the trie's height: the tree stays canonical
(no empty edge, no edge under an edge, two non-empty children per binary node, values exactly at
the leaves), every cached inner hash is the hash of the subtree below it, and the root hash is the
Starknet commitment of the resulting key/value map. -/
theorem trie2_canonical (k : HashKind) (n : Nat) (ops : List Op) (hv : ValidOps n ops) :
    WFRoot (Trie2.run k ops) n ∧ CacheOK k (Trie2.run k ops) ∧
    (Trie2.hashRoot k (Trie2.run k ops)).1 = Spec.root k n (absRun ops) :=
  let h := run_inv k n ops hv
  ⟨h.wf, h.cache, inv_hash h⟩

/-- The trie implements the map: reading any key after any history returns the last value written
(zero if deleted / never written). -/
theorem trie2_get (k : HashKind) (n : Nat) (ops : List Op) (hv : ValidOps n ops)
    (key : Path) (hk : key.length = n) : Trie2.get (Trie2.run k ops) key = absRun ops key :=
  (run_inv k n ops hv).sem key hk

/-- **Order independence.** Two histories (any order, any overwrites / deletions / re-insertions in
between) that end in the same key/value map produce the same root. -/
theorem trie2_order_independent (k : HashKind) (n : Nat) (ops ops' : List Op)
    (hv : ValidOps n ops) (hv' : ValidOps n ops')
    (hsame : ∀ key, key.length = n → absRun ops key = absRun ops' key) :
    (Trie2.hashRoot k (Trie2.run k ops)).1 = (Trie2.hashRoot k (Trie2.run k ops')).1 := by
  rw [(trie2_canonical k n ops hv).2.2, (trie2_canonical k n ops' hv').2.2]
  exact spec_root_extensional k n _ _ hsame

/-- **Batching independence.** Where `Hash()` is called in between (after every write, once per
block, never) does not change the root: cached hashes are never stale. -/
theorem trie2_batching_independent (k : HashKind) (n : Nat) (ops : List Op) (hv : ValidOps n ops) :
    (Trie2.hashRoot k (Trie2.run k ops)).1 =
      (Trie2.hashRoot k (Trie2.run k (ops.filter (fun o => match o with | .put .. => true | .hash => false)))).1 := by
  apply trie2_order_independent k n _ _ hv
  · intro op hop
    exact hv op (List.mem_filter.mp hop).1
  · intro key _
    have : ∀ (ops : List Op) (m : Path → HTerm),
        ops.foldl absStep m =
          (ops.filter (fun o => match o with | .put .. => true | .hash => false)).foldl absStep m := by
      intro ops
      induction ops with
      | nil => intro m; rfl
      | cons o rest ih =>
        intro m
        cases o with
        | put a b => simp [List.filter, ih]
        | hash => simp [List.filter, absStep, ih]
    simp only [absRun]
    rw [this ops]

/-- **Temporary tries of the transaction / event / receipt commitments** (height 64, item `i` under key `i`,
`core.TrieBackend`): the commitment is `Spec.root` of the index ↦ item-hash map (a zero item hash is absent). -/
theorem commitment_trie_canonical (k : HashKind) (items : List HTerm) :
    (Trie2.hashRoot k (Trie2.run k (commitmentOps items))).1 = Spec.root k 64 (absRun (commitmentOps items)) := by
  refine (trie2_canonical k 64 (commitmentOps items) ?_).2.2
  intro op hop
  simp only [commitmentOps, List.mem_map] at hop
  obtain ⟨e, _, rfl⟩ := hop
  simp [natToPath]

/-- **Restart independence (partial: the node database is abstracted).** `TrieL.run` is trie2 across
process restarts: `reopen` = `Commit()`, drop the object, `trie2.New` on the database — afterwards every
node below the root is an unresolved `HashNode`, and insert / delete / the collapse of a binary node into
an unresolved sibling resolve nodes on demand. For EVERY interleaving of writes, `Hash()` calls and
restarts the root is the commitment of the final map (so restarts change nothing), the resolved tree
is canonical and every cached or unresolved hash is sound.
Partial because an unresolved node carries the subtree the database holds for it (`LNode.lazy h sub`):
that `Commit` writes, and `resolveNode` reads back, exactly that subtree is not proved here; it is tied
by the committed-node-set correspondence of `ModelStore.lean`. -/
theorem trie2_commit_reopen_partial (k : HashKind) (n : Nat) (ops : List LOp)
    (hv : TrieL.ValidLOps n ops) :
    TrieL.rootHash k (TrieL.run k ops) = Spec.root k n (labsRun ops) ∧
    WFRoot (TrieL.erase (TrieL.run k ops)) n ∧ TrieL.CacheOKL k (TrieL.run k ops) :=
  let h := TrieL.run_invL k n ops hv
  ⟨TrieL.invL_hash h, h.wf, h.cache⟩

/-- Corollary: histories that differ in where (and whether) the process was restarted, in the order of
the writes, in overwrites / deletions — same final map, same root. -/
theorem trie2_restart_independent (k : HashKind) (n : Nat) (ops ops' : List LOp)
    (hv : TrieL.ValidLOps n ops) (hv' : TrieL.ValidLOps n ops')
    (hsame : ∀ key, key.length = n → labsRun ops key = labsRun ops' key) :
    TrieL.rootHash k (TrieL.run k ops) = TrieL.rootHash k (TrieL.run k ops') := by
  rw [(trie2_commit_reopen_partial k n ops hv).1, (trie2_commit_reopen_partial k n ops' hv').1]
  exact spec_root_extensional k n _ _ hsame

/-- non-vacuity: writes, restart, delete that collapses a binary node into an UNRESOLVED sibling edge,
restart, re-insert -/
example : TrieL.rootHash .pedersen (TrieL.run .pedersen
    [.put [true, false, true] (.felt 7), .put [true, false, false] (.felt 9), .put [false, true, true] (.felt 3),
     .reopen, .put [false, true, true] (.felt 0), .hash, .reopen, .put [true, false, true] (.felt 0)])
    = .add (.h .pedersen (.felt 9) (.felt 4)) 3 := by decide

/-- **Commit + reopen, hashing part (partial).** After `Commit()` and reopening, the in-memory tree is the
canonical tree `a` with subtrees left unresolved as hash nodes (`Abstracts`); whatever part is resolved,
and with any sound caches, `Hash()` returns the commitment of `a`'s map. NOT proved (correspondence
only): that `Commit` writes exactly the nodes from which `resolveNode` rebuilds such a tree, and that
`insert`/`delete` through unresolved hash nodes commute with resolution (`trie2_commit_reopen` in full). -/
theorem trie2_commit_reopen_hash_partial (k : HashKind) (n : Nat) (a t : Node)
    (hw : WFRoot a n) (hab : Abstracts k a t) (hc : CacheOK k t) :
    (Trie2.hashRoot k t).1 = Spec.root k n (Trie2.get a) := by
  rw [hashRoot_eq, (hashNode_spec k t hc).1, rawHash_abstracts hab, rawHash_eq_spec k hw]

example : Abstracts .pedersen
    (.edge [true] (.bin (.value (.felt 1)) (.value (.felt 2)) Flags.new) Flags.new)
    (.edge [true] (.hash (.h .pedersen (.felt 1) (.felt 2))) ⟨none, false⟩) :=
  .edge (.unresolved _)

/-! Non-vacuity: concrete histories that exercise an edge split, a binary collapse into the sibling
edge, a no-op zero write and a cached hash, evaluated by the kernel. -/

example : ValidOps 3 [.put [true, false, true] (.felt 7), .hash, .put [true, false, false] (.felt 9),
    .put [false, false, false] (.felt 0), .put [true, false, true] (.felt 0)] := by
  intro op hop; simp at hop; rcases hop with h | h | h | h | h <;> subst h <;> simp

example : (Trie2.hashRoot .pedersen (Trie2.run .pedersen
    [.put [true, false, true] (.felt 7), .hash, .put [true, false, false] (.felt 9)])).1
    = .add (.h .pedersen (.h .pedersen (.felt 9) (.felt 7)) (.felt 2)) 2 := by decide

example : (Trie2.hashRoot .pedersen (Trie2.run .pedersen
    [.put [true, false, true] (.felt 7), .hash, .put [true, false, false] (.felt 9),
     .put [false, false, false] (.felt 0), .put [true, false, true] (.felt 0)])).1
    = .add (.h .pedersen (.felt 9) (.felt 4)) 3 := by decide

example : Spec.root .pedersen 3 (absRun
    [.put [true, false, true] (.felt 7), .hash, .put [true, false, false] (.felt 9)])
    = .add (.h .pedersen (.h .pedersen (.felt 9) (.felt 7)) (.felt 2)) 2 := by decide

/-! ## State commitment

`State.run purge ds St.empty` applies the state diffs `ds` (deploy, replace class, nonce, storage
writes incl. zero writes, declared / migrated classes) the way `core/state.State.Update` does
(per-contract storage tries, contract trie, class trie, all trie2). `purge = true` is core/state
(and core/deprecatedstate with the proposed fix); `purge = false` is core/deprecatedstate of the
unchanged tree. `State.protocolLeaf` is the Starknet OS rule for a contract leaf. -/

/-- **The state root is the protocol-defined commitment of the state the node holds**, after ANY
sequence of accepted state updates and on both sides of the 0.14.0 switch (`pre014`):
`stateCommitment(version, Spec.root_Pedersen(address ↦ protocol leaf(class, Spec.root(storage), nonce)),
Spec.root_Poseidon(class hash ↦ Poseidon(LEAF_V0, compiled class hash)))`; every trie root in it
is the pure function `Spec.root` of a key/value map. -/
theorem state_commitment_spec (pre014 : Bool) (ds : List State.Diff)
    (hd : ∀ d ∈ ds, State.ValidDiff d) (s : State.St)
    (h : State.run true ds State.St.empty = some s) :
    State.commitment pre014 s =
      State.stateCommitment pre014
        (Spec.root .pedersen 251 (State.protocolLeafOfRecs s.recs))
        (Spec.root .poseidon 251 (absRun (ds.flatMap State.classOpsOf))) := by
  have hc : Inv .poseidon 251 State.St.empty.cltrie (fun _ => .felt 0) :=
    ⟨Or.inl rfl, by simp [State.St.empty, CacheOK], by intro k _; simp [State.St.empty, Trie2.get]⟩
  obtain ⟨w, i⟩ := State.run_swf ds hd _ _ _ State.swf_empty hc h
  have hr := State.run_recsOK ds hd _ _ State.swf_empty
    (by intro a r hh; simp [State.St.empty, State.alookup] at hh) h
  rw [State.protocolLeaf_eq_of_ok hr]
  exact State.commitment_of_swf w _ i pre014

/-- The storage trie of every contract record is canonical and its root (the `storage_root` in the
leaf above) is the commitment of its key/value map; same for the contract trie. -/
theorem state_tries_canonical (purge : Bool) (ds : List State.Diff)
    (hd : ∀ d ∈ ds, State.ValidDiff d) (s : State.St)
    (h : State.run purge ds State.St.empty = some s) :
    (∀ addr r, State.alookup s.recs addr = some r → WFRoot r.storage 251 ∧ CacheOK .pedersen r.storage) ∧
    (Trie2.hashRoot .pedersen s.ctrie).1 = Spec.root .pedersen 251 (State.leafOfRecs s.recs) := by
  have hc : Inv .poseidon 251 State.St.empty.cltrie (fun _ => .felt 0) :=
    ⟨Or.inl rfl, by simp [State.St.empty, CacheOK], by intro k _; simp [State.St.empty, Trie2.get]⟩
  obtain ⟨w, _⟩ := State.run_swf ds hd _ _ _ State.swf_empty hc h
  exact ⟨w.recs, inv_hash w.ctrie⟩

/-- Both sides of the protocol-version switch: before 0.14.0 an empty class trie makes the state
root the bare contract-trie root ... -/
theorem state_commitment_pre_0_14_0 (contractRoot : HTerm) (h : contractRoot ≠ .felt 0) :
    State.stateCommitment true contractRoot (.felt 0) = contractRoot := by
  simp [State.stateCommitment, h]

/-- ... from 0.14.0 on the Poseidon hash is always applied (unless both tries are empty). -/
theorem state_commitment_from_0_14_0 (contractRoot classRoot : HTerm)
    (h : contractRoot ≠ .felt 0 ∨ classRoot ≠ .felt 0) :
    State.stateCommitment false contractRoot classRoot =
      .pos3 (.felt State.stateVersion0) contractRoot classRoot := by
  simp only [State.stateCommitment]
  cases h with
  | inl h => simp [h]
  | inr h => simp [h]

/-!
DEFECT (known finding `deprecatedstate-keeps-leaf-of-emptied-system-contract`).
The full-strength statement for the legacy backend of the unchanged tree would be
`state_commitment_spec` with `State.run false` — it is FALSE: `core/deprecatedstate.State.Update`
never removes a system contract whose storage is empty again, so its record keeps the leaf
`H(H(H(0,0),0),0)` although the protocol leaf of the empty contract state is 0.
Proved instead: the `_partial` form (juno's own leaf formula over the records held) and the
negation of the full statement with a concrete witness (block: write 0 to slot 7 of contract 0x1). -/
theorem legacy_state_commitment_spec_partial (pre014 : Bool) (ds : List State.Diff)
    (hd : ∀ d ∈ ds, State.ValidDiff d) (s : State.St)
    (h : State.run false ds State.St.empty = some s) :
    State.commitment pre014 s =
      State.stateCommitment pre014
        (Spec.root .pedersen 251 (State.leafOfRecs s.recs))
        (Spec.root .poseidon 251 (absRun (ds.flatMap State.classOpsOf))) := by
  have hc : Inv .poseidon 251 State.St.empty.cltrie (fun _ => .felt 0) :=
    ⟨Or.inl rfl, by simp [State.St.empty, CacheOK], by intro k _; simp [State.St.empty, Trie2.get]⟩
  obtain ⟨w, i⟩ := State.run_swf ds hd _ _ _ State.swf_empty hc h
  exact State.commitment_of_swf w _ i pre014

/-- contract address 0x1 and storage slot 7 as 251-bit paths -/
def addr1 : Path := List.replicate 250 false ++ [true]
def slot7 : Path := List.replicate 248 false ++ [true, true, true]
def zeroWriteToSystemContract : State.Diff := ⟨[], [], [], [], [], [(addr1, [(slot7, .felt 0)])]⟩

theorem addr1_length : addr1.length = 251 := by
  rw [addr1, List.length_append, List.length_replicate]; rfl
theorem slot7_length : slot7.length = 251 := by
  rw [slot7, List.length_append, List.length_replicate]; rfl

set_option maxRecDepth 8000 in
theorem legacy_state_commitment_not_protocol :
    ∃ (ds : List State.Diff) (s : State.St), (∀ d ∈ ds, State.ValidDiff d) ∧
      State.run false ds State.St.empty = some s ∧
      State.commitment true s ≠
        State.stateCommitment true (Spec.root .pedersen 251 (State.protocolLeafOfRecs s.recs))
          (Spec.root .poseidon 251 (absRun (ds.flatMap State.classOpsOf))) := by
  refine ⟨[zeroWriteToSystemContract],
    ⟨[(addr1, ⟨.felt 0, .felt 0, .nil⟩)],
     .edge addr1 (.value (State.contractLeaf (.felt 0) (.felt 0) (.felt 0))) Flags.new, .nil⟩, ?_, by decide, ?_⟩
  · intro d hd'
    simp at hd'; subst hd'
    refine ⟨by simp [zeroWriteToSystemContract], by simp [zeroWriteToSystemContract],
      by simp [zeroWriteToSystemContract], by simp [zeroWriteToSystemContract], ?_⟩
    intro e he
    simp [zeroWriteToSystemContract] at he; subst he
    exact ⟨addr1_length, by intro kv hkv; simp at hkv; subst hkv; exact slot7_length⟩
  · have hz : State.protocolLeafOfRecs [(addr1, (⟨.felt 0, .felt 0, .nil⟩ : State.Rec))] = fun _ => .felt 0 := by
      funext a
      simp only [State.protocolLeafOfRecs, State.alookup]
      split
      · rfl
      · rename_i r hr
        by_cases ha : addr1 = a
        · simp [ha] at hr; subst hr
          have : Trie2.get .nil = fun _ => HTerm.felt 0 := by funext p; simp [Trie2.get]
          simp [State.protocolLeaf, this, spec_root_empty]
        · simp [ha] at hr
    rw [hz, spec_root_empty]
    have hcl : absRun (List.flatMap State.classOpsOf [zeroWriteToSystemContract]) = fun _ => .felt 0 := by
      simp [State.classOpsOf, zeroWriteToSystemContract, absRun]
    rw [hcl, spec_root_empty]
    decide

set_option maxRecDepth 8000 in
/-- the same history on core/state (and the repaired legacy backend): root 0, as the protocol says -/
example : (State.run true [zeroWriteToSystemContract] State.St.empty).map (State.commitment true)
    = some (.felt 0) := by decide

set_option maxRecDepth 8000 in
/-- non-vacuity of `state_commitment_spec`: a deploy + declare + storage block is accepted -/
example : (State.run true [⟨[(slot7, .felt 9)], [], [(slot7, .felt 5)], [], [(slot7, .felt 1)],
    [(slot7, [(addr1, .felt 3)]), (addr1, [(slot7, .felt 4)])]⟩] State.St.empty).isSome = true := by decide

/-! ## Dropped updates

An update whose batch is never written (`stateBackend.Simulate`: `NewBatch` + `defer Close`; a `Store`
/ `Finalise` that fails; a crash before `batch.Write`) must leave no trace: the root is a function of the
ACCEPTED updates only. In the models the database is a value that only an applied node set changes;
the harness checks the same on the real code (full key/value dump of the database before and after every
dropped update, through `State.Update` on a closed batch, `Blockchain.Simulate` and a failing root check). -/

/-- State layer: interleaving any dropped updates changes nothing — the resulting state (records, tries,
hence every later root) is the one of the accepted updates alone. -/
theorem state_dropped_updates_identity (purge : Bool) (ops : List State.DOp) (s : State.St) :
    State.runD purge ops s = State.run purge (State.accepted ops) s := by
  induction ops generalizing s with
  | nil => rfl
  | cons op rest ih =>
    cases op with
    | accept d =>
      simp only [State.runD, State.accepted, State.run]
      cases State.update purge s d with
      | none => rfl
      | some s' => exact ih s'
    | dropped d => simpa [State.runD, State.accepted] using ih s

theorem store_update_keeps_disk {t t' : Trie2S.T} {key : Path} {v : HTerm}
    (h : Trie2S.update t key v = some t') :
    t'.disk = t.disk ∧ t'.height = t.height ∧ t'.kind = t.kind ∧ t'.leafDeleteAbs = t.leafDeleteAbs := by
  unfold Trie2S.update at h
  simp only [Option.map_eq_some_iff] at h
  obtain ⟨x, _, rfl⟩ := h
  exact ⟨rfl, rfl, rfl, rfl⟩

/-- Trie / node-database layer: whatever is inserted, deleted and hashed on a trie2 trie, and whatever
node set its `Commit()` returns, if that node set is not applied (`applySet` is the only writer of the
database) then reopening yields exactly the trie that reopening before those operations yields — an
uncommitted node set never changes what later operations and commits read. -/
theorem store_uncommitted_changes_identity (t : Trie2S.T) (kvs : List (Path × HTerm)) (t' : Trie2S.T)
    (h : kvs.foldlM (fun t (kv : Path × HTerm) => Trie2S.update t kv.1 kv.2) t = some t') :
    Trie2S.discardReopen (Trie2S.hash t').2 = Trie2S.discardReopen t := by
  have key : t'.disk = t.disk ∧ t'.height = t.height ∧ t'.kind = t.kind ∧ t'.leafDeleteAbs = t.leafDeleteAbs := by
    induction kvs generalizing t with
    | nil => simp [List.foldlM] at h; subst h; exact ⟨rfl, rfl, rfl, rfl⟩
    | cons kv rest ih =>
      simp only [List.foldlM_cons, bind, Option.bind] at h
      cases h1 : Trie2S.update t kv.1 kv.2 with
      | none => simp [h1] at h
      | some t1 =>
        simp only [h1] at h
        obtain ⟨a, b, c, d⟩ := ih t1 h
        obtain ⟨a', b', c', d'⟩ := store_update_keeps_disk h1
        exact ⟨a.trans a', b.trans b', c.trans c', d.trans d'⟩
  obtain ⟨a, b, c, d⟩ := key
  simp [Trie2S.discardReopen, Trie2S.hash, a, b, c, d]

/-- non-vacuity: a dropped update that deploys and writes storage leaves the state as it was -/
example : State.runD true [.dropped ⟨[], [], [(slot7, .felt 5)], [], [], [(slot7, [(addr1, .felt 3)])]⟩] State.St.empty
    = some State.St.empty := rfl

/-! ## The legacy trie (`core/trie`)

`Legacy.put / Legacy.hash` transcribe the flat, path-keyed trie: `Put` (updateLeaf, handleEmptyTrie,
deleteExistingKey + deleteLast, insertOrUpdateValue with its eager parent hash), `nodesFromRoot`, the
dirty-node list and the lazy rehash `updateValueIfDirty` run by `Hash()`.
Invariant proved for every history (`Legacy.Repr`): the flat store is, key by key, the flattening of the
canonical trie2 tree of the history's map (leaves, inner nodes, links, root key), and every cached inner
value is the hash of its children's cached values unless a dirty key lies strictly below it. -/

/-- **The legacy trie is canonical.** For EVERY sequence of inserts, overwrites, zero-writes (present or
absent keys) and `Hash()` calls the root returned by the legacy trie is the Starknet commitment of the
resulting key/value map (and no call fails). -/
theorem legacy_canonical (k : HashKind) (n : Nat) (ops : List Op) (hv : ValidOps n ops) :
    Legacy.runOps n k ops = some (Spec.root k n (absRun ops)) :=
  Legacy.runOps_all k n ops hv

/-- **Both trie implementations agree** on every history. -/
theorem backends_agree (k : HashKind) (n : Nat) (ops : List Op) (hv : ValidOps n ops) :
    Legacy.runOps n k ops = some (Trie2.hashRoot k (Trie2.run k ops)).1 := by
  rw [legacy_canonical k n ops hv, (trie2_canonical k n ops hv).2.2]

/-- non-vacuity: insert, hash, overwrite, delete collapsing a binary node, delete to empty -/
example : Legacy.runOps 2 .pedersen [.put [true, false] (.felt 3), .hash, .put [true, true] (.felt 4),
    .put [true, false] (.felt 9), .put [true, true] (.felt 0)] = some (.add (.h .pedersen (.felt 9) (.felt 2)) 2) := by
  decide

end Juno.C01.Props
