import JunoModel.C01.Proofs
/-!
C01 — property theorems (statements only; helper lemmas are in `Proofs*.lean`).
-/
namespace Juno.C01.Props
open Juno.C01

/-- The commitment of the empty map is zero at every height. -/
theorem spec_root_empty (k : HashKind) (n : Nat) : Spec.root k n (fun _ => .felt 0) = .felt 0 := by
  simp [Spec.root, spec_node_empty, SNode.hash, SNode.empty]

end Juno.C01.Props
