import JunoModel.C01.Model
/-!
C01 — model, part 5: trie2 across restarts, logical view. After `Commit()` + reopen the in-memory
tree consists of nodes decoded from the database whose children are unresolved `HashNode`s; an
operation that reaches such a node calls `resolveNode`, which reads the node stored under that path.

Here an unresolved hash node carries the (decoded form of the) subtree the database holds for it:
`lazy h sub`. This abstracts the node database by the assumption that a hash node resolves to the
subtree that was committed under its path (what `ModelStore.lean` + the committed-node-set
correspondence tie to the code); everything else — insert / delete through unresolved nodes, the
re-hanging of unresolved children, the collapse into a resolved sibling, hashing with cached and
unresolved hashes, reopening — is transcribed, and recursion stays structural. Core Lean only.
-/
namespace Juno.C01

inductive LNode where
  | nil
  | value (v : HTerm)
  | lazy (h : HTerm) (sub : LNode)            -- `*HashNode` + what `resolveNode` returns for it
  | edge (p : Path) (c : LNode) (fl : Flags)
  | bin (l r : LNode) (fl : Flags)
deriving Repr, Inhabited

namespace TrieL

def insNil (key : Path) (value : LNode) : LNode :=
  if key.isEmpty then value else .edge key value Flags.new

/-- `Trie.insert` including the `*HashNode` case (resolve, recurse, keep the resolved child). -/
def ins (n : LNode) (key : Path) (v : HTerm) : LNode × Bool :=
  match key, n with
  | [], .value w => (.value v, v != w)
  | [], _ => (.value v, true)
  | _ :: _, .nil => (.edge key (.value v) Flags.new, true)
  | _ :: _, .edge p c _ =>
    let m := cpre p key
    if m.length = p.length then
      let r := ins c (key.drop m.length) v
      if !r.2 then (n, false) else (.edge p r.1 Flags.new, true)
    else
      let pb := p.getD m.length false
      let kb := key.getD m.length false
      let old := insNil (p.drop (m.length + 1)) c
      let new := insNil (key.drop (m.length + 1)) (.value v)
      let l := if kb = false then new else if pb = false then old else .nil
      let r := if kb = true then new else if pb = true then old else .nil
      let branch := LNode.bin l r Flags.new
      if m.isEmpty then (branch, true) else (.edge m branch Flags.new, true)
  | b :: ks, .bin l r _ =>
    if b then
      let res := ins r ks v
      if !res.2 then (n, false) else (.bin l res.1 Flags.new, true)
    else
      let res := ins l ks v
      if !res.2 then (n, false) else (.bin res.1 r Flags.new, true)
  | _ :: _, .value _ => (n, false)
  | _ :: _, .lazy _ sub =>
    let res := ins sub key v
    if !res.2 then (sub, false) else (res.1, true)

/-- `Trie.delete` including the `*HashNode` case and the resolution of an unresolved sibling
before a binary node collapses into it. -/
def del (n : LNode) (key : Path) : LNode × Bool :=
  match n with
  | .nil => (.nil, false)
  | .edge p c _ =>
    let m := cpre p key
    if m.length < p.length then (n, false)
    else if m.length = key.length then (.nil, true)
    else
      let res := del c (key.drop p.length)
      if !res.2 then (n, false)
      else match res.1 with
        | .edge q cc _ => (.edge (p ++ q) cc Flags.new, true)
        | c' => (.edge p c' Flags.new, true)
  | .bin l r _ =>
    match key with
    | [] => (n, false)
    | b :: ks =>
      let res := if b then del r ks else del l ks
      if !res.2 then (n, false)
      else match res.1 with
        | .nil =>
          let other := match (if b then l else r) with
            | .lazy _ sub => sub          -- resolveNode(hn, prefix + bit)
            | o => o
          match other with
          | .edge q cc _ => (.edge ((!b) :: q) cc Flags.new, true)
          | o => (.edge [!b] o Flags.new, true)
        | c' => (if b then .bin l c' Flags.new else .bin c' r Flags.new, true)
  | .value _ => (.nil, true)
  | .lazy _ sub =>
    let res := del sub key
    if !res.2 then (sub, false) else (res.1, true)

def update (n : LNode) (key : Path) (v : HTerm) : LNode :=
  if v == .felt 0 then (del n key).1 else (ins n key v).1

def selfHash : LNode → HTerm
  | .value v => v
  | .lazy h _ => h
  | _ => .felt 0

/-- `hasher.hash`: cached hashes and unresolved hash nodes are returned without looking below. -/
def hashNode (k : HashKind) : LNode → HTerm × LNode
  | .edge p c fl =>
    match fl.hash with
    | some x => (x, .edge p c fl)
    | none =>
      let r := match c with
        | .edge .. | .bin .. => hashNode k c
        | _ => (selfHash c, c)
      let x := Trie2.edgeHash k p r.1
      (x, .edge p r.2 { fl with hash := some x })
  | .bin l r fl =>
    match fl.hash with
    | some x => (x, .bin l r fl)
    | none =>
      let hl := match l with | .nil => (HTerm.felt 0, LNode.value (.felt 0)) | _ => hashNode k l
      let hr := match r with | .nil => (HTerm.felt 0, LNode.value (.felt 0)) | _ => hashNode k r
      let x := HTerm.h k hl.1 hr.1
      (x, .bin hl.2 hr.2 { fl with hash := some x })
  | .value v => (v, .value v)
  | .lazy h sub => (h, .lazy h sub)
  | .nil => (.felt 0, .nil)

/-- The fully resolved tree. -/
def erase : LNode → Node
  | .nil => .nil
  | .value v => .value v
  | .lazy _ sub => erase sub
  | .edge p c fl => .edge p (erase c) fl
  | .bin l r fl => .bin (erase l) (erase r) fl

/-- hash of the resolved tree, caches ignored -/
def rawHashL (k : HashKind) : LNode → HTerm
  | .nil => .felt 0
  | .value v => v
  | .lazy _ sub => rawHashL k sub
  | .edge p c _ => Trie2.edgeHash k p (rawHashL k c)
  | .bin l r _ => .h k (rawHashL k l) (rawHashL k r)

/-- What a child of a decoded node looks like (`DecodeNode`): a value node at the leaf level, a child
that was never resolved stays the hash node it was, anything else is a hash node whose resolution
is the decoded form `dc` of the subtree `c`. -/
def wrap (k : HashKind) (c dc : LNode) : LNode :=
  match c with
  | .nil => .nil
  | .value v => .value v
  | .lazy h sub => .lazy h sub
  | c => .lazy (rawHashL k c) dc

/-- The form in which a committed subtree comes back from the database: every inner node clean with
its hash cached, children unresolved. -/
def decoded (k : HashKind) : LNode → LNode
  | .nil => .nil
  | .value v => .value v
  | .lazy h sub => .lazy h sub
  | .edge p c fl => .edge p (wrap k c (decoded k c)) ⟨some (rawHashL k (.edge p c fl)), false⟩
  | .bin l r fl =>
    .bin (wrap k l (decoded k l)) (wrap k r (decoded k r)) ⟨some (rawHashL k (.bin l r fl)), false⟩

/-- `Commit()` + `trie2.New`: the root is resolved eagerly with an unknown (zero) hash, everything
below it is unresolved. -/
def reopen (k : HashKind) (root : LNode) : LNode :=
  match decoded k root with
  | .edge p c fl => .edge p c { fl with hash := none }
  | .bin l r fl => .bin l r { fl with hash := none }
  | n => n

/-- `Trie.get(n, prefix, key)` with its side effect: the value, the node with every unresolved node on the way
REPLACED by what `resolveNode` returned for it (`n.Copy()` with the child re-hung: flags and cached hashes are
kept), and whether anything was resolved (`didResolve`; `Trie.Get` then stores the new root). -/
def getR : LNode → Path → HTerm × LNode × Bool
  | .nil, _ => (.felt 0, .nil, false)
  | .value v, _ => (v, .value v, false)
  | .lazy _ sub, key =>
    let r := getR sub key
    (r.1, r.2.1, true)
  | .edge p c fl, key =>
    if p.isPrefixOf key then
      let r := getR c (key.drop p.length)
      (r.1, if r.2.2 then .edge p r.2.1 fl else .edge p c fl, r.2.2)
    else (.felt 0, .edge p c fl, false)
  | .bin l r fl, key =>
    match key with
    | [] => (.felt 0, .bin l r fl, false)
    | b :: ks =>
      if b then
        let x := getR r ks
        (x.1, if x.2.2 then .bin l x.2.1 fl else .bin l r fl, x.2.2)
      else
        let x := getR l ks
        (x.1, if x.2.2 then .bin x.2.1 r fl else .bin l r fl, x.2.2)

end TrieL

/-- operations of a trie2 trie across restarts -/
inductive LOp where
  | put (key : Path) (v : HTerm)
  | hash
  | reopen              -- Commit(), persist, drop the object, open a new one
  | get (key : Path)    -- `Trie.Get(key)`: resolves (and keeps resolved) the nodes on the way
deriving Repr

/-- `Trie.Hash()`: the root with caches filled -/
def TrieL.hashRoot (k : HashKind) (root : LNode) : LNode :=
  match root with | .nil => .nil | n => (TrieL.hashNode k n).2

def TrieL.step (k : HashKind) (root : LNode) : LOp → LNode
  | .put key v => TrieL.update root key v
  | .hash => TrieL.hashRoot k root
  | .reopen => TrieL.reopen k (TrieL.hashRoot k root)
  | .get key => (TrieL.getR root key).2.1

def TrieL.run (k : HashKind) (ops : List LOp) : LNode := ops.foldl (TrieL.step k) .nil

def TrieL.rootHash (k : HashKind) (root : LNode) : HTerm :=
  match root with | .nil => .felt 0 | n => (TrieL.hashNode k n).1

/-- map semantics: a reopen changes nothing -/
def labsStep (m : Path → HTerm) : LOp → (Path → HTerm)
  | .put key v => fun p => if p = key then v else m p
  | _ => m

def labsRun (ops : List LOp) : Path → HTerm := ops.foldl labsStep (fun _ => .felt 0)

end Juno.C01
