import JunoModel.C01.ModelState
/-!
C01 — model, part 6: the protocol-version test that selects the state-commitment formula
(`core/version.go` `ParseBlockVersion`, `semver.Version.Compare/LessThan`, and the way
`stateCommitment` of `core/state/state_reader.go` / `State.Commitment` of `core/deprecatedstate/state.go`
use them: `ver, _ := core.ParseBlockVersion(v)` followed by `classRoot.IsZero() && ver.LessThan(Ver0_14_0)`).
Core Lean only.

The earlier model parts take the outcome of that test as a Bool (`pre014`); here the Bool is computed
from the version STRING of the block header the way the code does it, including the error path: an
unparsable version leaves `ver == nil`, and `ver.LessThan` is only evaluated (and then dereferences nil)
when the class-trie root is zero and the contract-trie root is not.
-/
namespace Juno.C01
namespace Version

/-- `strings.Split(s, ".")` on the characters of `s`: never empty, `""` gives `[""]`. -/
def splitDot : List Char → List (List Char)
  | [] => [[]]
  | c :: cs =>
    match splitDot cs with
    | [] => [[]]                      -- unreachable: the result is never empty
    | p :: ps => if c = '.' then [] :: p :: ps else (c :: p) :: ps

/-- `strconv.ParseUint(s, 10, 64)`: a non-empty string of decimal digits (no sign, no underscore, no
space) whose value fits 64 bits; `none` = the Go call returns an error (syntax or range). -/
def parseUint (cs : List Char) : Option Nat :=
  if cs.isEmpty then none
  else
    match cs.foldlM (fun (acc : Nat) (c : Char) => if c.isDigit then some (acc * 10 + (c.toNat - 48)) else none) 0 with
    | none => none
    | some n => if n < 2 ^ 64 then some n else none

/-- `semver.Version` as `ParseBlockVersion` builds it (`semver.New(major, minor, patch, "", "")`). -/
structure V where
  major : Nat
  minor : Nat
  patch : Nat
deriving DecidableEq, Repr

/-- `maxProtocolVersionLen` -/
def maxLen : Nat := 31

/-- `core.ParseBlockVersion`: `""` is 0.0.0; more than 31 bytes is an error; the first three
dot-separated parts are parsed as unsigned decimals (missing parts are 0, a fourth and later part is
not even looked at). -/
def parse (s : String) : Option V :=
  if s.isEmpty then some ⟨0, 0, 0⟩
  else if s.utf8ByteSize > maxLen then none
  else
    match ((splitDot s.toList).take 3).mapM parseUint with
    | none => none
    | some vals => some ⟨vals.getD 0 0, vals.getD 1 0, vals.getD 2 0⟩

/-- `compareSegment` -/
def cmpSeg (a b : Nat) : Int := if a < b then -1 else if a > b then 1 else 0

/-- `Version.Compare` for versions without pre-release part. -/
def compare (v o : V) : Int :=
  if cmpSeg v.major o.major ≠ 0 then cmpSeg v.major o.major
  else if cmpSeg v.minor o.minor ≠ 0 then cmpSeg v.minor o.minor
  else cmpSeg v.patch o.patch

def lessThan (v o : V) : Bool := compare v o < 0

def v0_14_0 : V := ⟨0, 14, 0⟩

/-- `ver.LessThan(core.Ver0_14_0)` of a version string; `none` = `ParseBlockVersion` failed (`ver == nil`). -/
def pre014? (s : String) : Option Bool := (parse s).map (fun v => lessThan v v0_14_0)

end Version

namespace State

/-- `stateCommitment(contractRoot, classRoot, protocolVersion)` with the version STRING.
`none` = the Go code panics (nil `*semver.Version` dereferenced): the parse error is discarded
(`ver, _ :=`) and `ver.LessThan` is reached only if the first test failed and `classRoot.IsZero()`. -/
def stateCommitmentV (ver : String) (contractRoot classRoot : HTerm) : Option HTerm :=
  if classRoot = .felt 0 ∧ contractRoot = .felt 0 then some (.felt 0)
  else if classRoot = .felt 0 then
    match Version.pre014? ver with
    | none => none
    | some true => some contractRoot
    | some false => some (.pos3 (.felt stateVersion0) contractRoot classRoot)
  else some (.pos3 (.felt stateVersion0) contractRoot classRoot)

/-- `State.Commitment(protocolVersion)` -/
def commitmentV (ver : String) (s : St) : Option HTerm :=
  stateCommitmentV ver (Trie2.hashRoot .pedersen s.ctrie).1 (Trie2.hashRoot .poseidon s.cltrie).1

end State
end Juno.C01
