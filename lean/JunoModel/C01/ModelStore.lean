import JunoModel.C01.Model
/-!
C01 — model, part 4: trie2 with lazily resolved hash nodes, the change tracer, `Commit()` with the
node collector, the path-keyed node database (`triedb/rawdb`) and reopening
(`core/trie2/trie.go` insert / delete / resolveNode / Commit / New, `tracer.go`, `collector.go`,
`trienode/node_enc.go` as a data type, `triedb/rawdb/database.go` Update). Core Lean only.

`Model.lean` is the same algorithm on fully resolved trees; this file adds what happens between
process restarts. Used by the driver for the correspondence of the committed node sets.
-/
namespace Juno.C01
namespace Trie2S

/-- Encoded node (`EncodeNode`): a leaf value, a binary node (two child hashes / values) or an edge
(child hash / value + path). -/
inductive Blob where
  | leaf (v : HTerm)
  | bin (l r : HTerm)
  | edge (child : HTerm) (p : Path)
deriving DecidableEq, Repr

/-- the node database of one trie: (path, isLeaf) -> blob (`nodeKeyByPath`) -/
abbrev Disk := List ((Path × Bool) × Blob)

def dget : Disk → Path × Bool → Option Blob
  | [], _ => none
  | (k, v) :: rest, key => if k = key then some v else dget rest key

def ddel (d : Disk) (key : Path × Bool) : Disk := d.filter (fun e => e.1 != key)
def dput (d : Disk) (key : Path × Bool) (b : Blob) : Disk := (key, b) :: ddel d key

/-- `nodeTracer` -/
structure Tracer where
  ins : List Path
  del : List Path
  /-- instrumentation only (reported by the driver, never read by the model): how often `insert`,
  `delete` went through an unresolved node, and how often a binary node collapsed into an unresolved sibling -/
  viaIns : Nat := 0
  viaDel : Nat := 0
  viaSib : Nat := 0
deriving Repr

def Tracer.onInsert (t : Tracer) (k : Path) : Tracer :=
  if t.del.contains k then { t with del := t.del.filter (· != k) }
  else if t.ins.contains k then t else { t with ins := k :: t.ins }

def Tracer.onDelete (t : Tracer) (k : Path) : Tracer :=
  if t.ins.contains k then { t with ins := t.ins.filter (· != k) }
  else if t.del.contains k then t else { t with del := k :: t.del }

/-- `DecodeNode(blob, hash, pathLen, maxPathLen)`; children of a decoded node are hash nodes, or
value nodes when they sit at the leaf level; the cached hash is `hash` unless it is zero. -/
def decode (height : Nat) (b : Blob) (hash : HTerm) (pathLen : Nat) : Option Node :=
  if pathLen > height then none else
  let fl : Flags := ⟨if hash = .felt 0 then none else some hash, false⟩
  let child (len : Nat) (x : HTerm) : Node := if len = height then .value x else .hash x
  match b with
  | .leaf v => some (if pathLen = height then .value v else .hash v)
  | .bin l r => some (.bin (child (pathLen + 1) l) (child (pathLen + 1) r) fl)
  | .edge c p => some (.edge p (child (pathLen + p.length) c) fl)

/-- `resolveNode(hn, path)` -/
def resolve (height : Nat) (d : Disk) (hash : HTerm) (path : Path) : Option Node :=
  match dget d (path, path.length == height) with
  | none => none
  | some b => decode height b hash path.length

structure Env where
  height : Nat
  disk : Disk
  /-- which path the value-node case of `delete` reports to the tracer: `false` = the remaining key
  (`t.nodeTracer.onDelete(key)`, the unchanged tree), `true` = the absolute path of the leaf
  (`onDelete(prefix)`, the repaired tracer). Irrelevant for every root. -/
  leafDeleteAbs : Bool := false

abbrev M := StateT Tracer Option

def fail {α : Type} : M α := fun _ => none
def trace (f : Tracer → Tracer) : M Unit := modify f

/-- `Trie.insert(n, prefix, key, value)`; `fuel` bounds the recursion (2 calls per level at most). -/
def ins (e : Env) : Nat → Node → Path → Path → Node → M (Node × Bool)
  | 0, _, _, _, _ => fail
  | fuel + 1, n, pre, key, value =>
    if key.isEmpty then
      match n with
      | .value w => pure (value, value != .value w)
      | _ => pure (value, true)
    else
    match n with
    | .nil => do
      trace (·.onInsert pre)
      pure (.edge key value Flags.new, true)
    | .edge p c _ => do
      let m := cpre p key
      if m.length = p.length then
        let r ← ins e fuel c (pre ++ p) (key.drop m.length) value
        if !r.2 then pure (n, false) else pure (.edge p r.1 Flags.new, true)
      else
        let old ← ins e fuel .nil (pre ++ p.take (m.length + 1)) (p.drop (m.length + 1)) c
        let new ← ins e fuel .nil (pre ++ key.take (m.length + 1)) (key.drop (m.length + 1)) value
        let pb := p.getD m.length false
        let kb := key.getD m.length false
        let l := if kb = false then new.1 else if pb = false then old.1 else .nil
        let r := if kb = true then new.1 else if pb = true then old.1 else .nil
        let branch := Node.bin l r Flags.new
        if m.isEmpty then pure (branch, true)
        else do
          trace (·.onInsert (pre ++ m))
          pure (.edge m branch Flags.new, true)
    | .bin l r _ =>
      match key with
      | [] => fail
      | b :: ks => do
        let res ← ins e fuel (if b then r else l) (pre ++ [b]) ks value
        if !res.2 then pure (n, false)
        else pure (if b then .bin l res.1 Flags.new else .bin res.1 r Flags.new, true)
    | .hash h =>
      match resolve e.height e.disk h pre with
      | none => fail
      | some child => do
        trace (fun t => { t with viaIns := t.viaIns + 1 })
        let res ← ins e fuel child pre key value
        if !res.2 then pure (child, false) else pure (res.1, true)
    | .value _ => fail     -- `panic("unknown node type")`

/-- `Trie.delete(n, prefix, key)` -/
def del (e : Env) : Nat → Node → Path → Path → M (Node × Bool)
  | 0, _, _, _ => fail
  | fuel + 1, n, pre, key =>
    match n with
    | .nil => pure (.nil, false)
    | .edge p c _ => do
      let m := cpre p key
      if m.length < p.length then pure (n, false)
      else if m.length = key.length then do
        trace (·.onDelete pre)
        trace (·.onDelete (pre ++ key))
        pure (.nil, true)
      else
        let res ← del e fuel c (pre ++ key.take p.length) (key.drop p.length)
        if !res.2 then pure (n, false)
        else match res.1 with
          | .edge q cc _ => do
            trace (·.onDelete (pre ++ p))
            pure (.edge (p ++ q) cc Flags.new, true)
          | c' => pure (.edge p c' Flags.new, true)
    | .bin l r _ =>
      match key with
      | [] => fail
      | b :: ks => do
        let res ← del e fuel (if b then r else l) (pre ++ [b]) ks
        if !res.2 then pure (n, false)
        else match res.1 with
          | .nil => do
            let other := if b then l else r
            let other ← (match other with
              | .hash h => (match resolve e.height e.disk h (pre ++ [!b]) with
                | none => fail
                | some cn => do
                  trace (fun t => { t with viaSib := t.viaSib + 1 })
                  pure cn)
              | o => pure o : M Node)
            match other with
            | .edge q cc _ => do
              trace (·.onDelete (pre ++ [!b]))
              pure (.edge ((!b) :: q) cc Flags.new, true)
            | o => pure (.edge [!b] o Flags.new, true)
          | c' => pure (if b then .bin l c' Flags.new else .bin c' r Flags.new, true)
    | .value _ => do
      -- NB: the Go code passes the REMAINING key here (`t.nodeTracer.onDelete(key)`), not the
      -- absolute path of the leaf
      trace (·.onDelete (if e.leafDeleteAbs then pre else key))
      pure (.nil, true)
    | .hash h =>
      match resolve e.height e.disk h pre with
      | none => fail
      | some child => do
        trace (fun t => { t with viaDel := t.viaDel + 1 })
        let res ← del e fuel child pre key
        if !res.2 then pure (child, false) else pure (res.1, true)

/-- the committed node set: path -> deleted(isLeaf) | blob -/
inductive SetNode where
  | deleted (isLeaf : Bool)
  | leaf (b : Blob)
  | nonLeaf (hash : HTerm) (b : Blob)
deriving DecidableEq, Repr

abbrev NodeSet := List (Path × SetNode)

def nsAdd (ns : NodeSet) (p : Path) (n : SetNode) : NodeSet := (p, n) :: ns.filter (fun e => e.1 != p)

def cacheOf : Node → Option HTerm × Bool
  | .edge _ _ fl => (fl.hash, fl.dirty)
  | .bin _ _ fl => (fl.hash, fl.dirty)
  | _ => (none, true)

/-- `collector.collect(path, n)`: stores the dirty nodes, returns the collapsed node (hash node, or the
value node itself for a leaf). Sequential version of the (optionally parallel) Go code. -/
def collect : Node → Path → NodeSet → Node × NodeSet
  | .edge p c fl, path, ns =>
    match fl.hash, fl.dirty with
    | some h, false => (.hash h, ns)
    | oh, _ =>
      let r := collect c (path ++ p) ns
      let h := oh.getD (.felt 0)
      (.hash h, nsAdd r.2 path (.nonLeaf h (.edge (Trie2.selfHash r.1) p)))
  | .bin l r fl, path, ns =>
    match fl.hash, fl.dirty with
    | some h, false => (.hash h, ns)
    | oh, _ =>
      let rl := match l with
        | .hash x => (Node.hash x, ns)
        | _ => collect l (path ++ [false]) ns
      let rr := match r with
        | .hash x => (Node.hash x, rl.2)
        | _ => collect r (path ++ [true]) rl.2
      let h := oh.getD (.felt 0)
      (.hash h, nsAdd rr.2 path (.nonLeaf h (.bin (Trie2.selfHash rl.1) (Trie2.selfHash rr.1))))
  | .hash x, _, ns => (.hash x, ns)
  | .value v, path, ns => (.value v, nsAdd ns path (.leaf (.leaf v)))
  | .nil, _, ns => (.nil, ns)

structure T where
  height : Nat
  kind : HashKind
  root : Node
  disk : Disk
  tracer : Tracer
  leafDeleteAbs : Bool := false
deriving Repr

/-- `trie2.New(id, height, hashFn, db)` with a non-zero state commitment: the root is resolved from
the database (absent -> empty trie). -/
def openTrie (height : Nat) (kind : HashKind) (disk : Disk) (leafDeleteAbs : Bool := false) : T :=
  ⟨height, kind, (resolve height disk (.felt 0) []).getD .nil, disk, { ins := [], del := [] }, leafDeleteAbs⟩

def update (t : T) (key : Path) (v : HTerm) : Option T :=
  let e : Env := ⟨t.height, t.disk, t.leafDeleteAbs⟩
  let fuel := 2 * t.height + 4
  let r := if v == .felt 0 then del e fuel t.root [] key t.tracer
           else ins e fuel t.root [] key (.value v) t.tracer
  r.map (fun x => { t with root := x.1.1, tracer := x.2 })

def hash (t : T) : HTerm × T :=
  let r := Trie2.hashRoot t.kind t.root
  (r.1, { t with root := r.2 })

/-- `Trie.Commit()`: root hash and the node set (`none` = nothing to write). -/
def commit (t : T) : HTerm × Option NodeSet :=
  let dels : NodeSet := t.tracer.del.foldl (fun ns p => nsAdd ns p (.deleted (p.length == t.height))) []
  match t.root with
  | .nil => (.felt 0, if t.tracer.del.isEmpty then none else some dels)
  | _ =>
    let (h, t) := hash t
    let (_, dirty) := cacheOf t.root
    if !dirty then (h, none)
    else (h, some (collect t.root [] dels).2)

/-- `rawdb.Database.Update`: delete / write every node of the set by path. -/
def applySet (d : Disk) (ns : NodeSet) : Disk :=
  ns.foldl (fun d e => match e.2 with
    | .deleted isLeaf => ddel d (e.1, isLeaf)
    | .leaf b => dput d (e.1, true) b
    | .nonLeaf _ b => dput d (e.1, false) b) d

/-- Commit, persist, drop the object, open a new one. -/
def commitReopen (t : T) : HTerm × Option NodeSet × T :=
  let (h, ns) := commit t
  let disk := match ns with | some s => applySet t.disk s | none => t.disk
  (h, ns, openTrie t.height t.kind disk t.leafDeleteAbs)

/-- The node set of a `Commit()` is dropped (the batch it was written into is closed without
`Write`, as in `stateBackend.Simulate` or after a failed `Store`) and the trie is opened again. -/
def discardReopen (t : T) : T := openTrie t.height t.kind t.disk t.leafDeleteAbs

/-- `Trie.Get(key)` through unresolved nodes. -/
def get (e : Env) : Nat → Node → Path → Path → Option HTerm
  | 0, _, _, _ => none
  | fuel + 1, n, pre, key =>
    match n with
    | .nil => some (.felt 0)
    | .value v => some v
    | .edge p c _ => if p.isPrefixOf key then get e fuel c (pre ++ p) (key.drop p.length) else some (.felt 0)
    | .bin l r _ =>
      match key with
      | [] => none
      | b :: ks => get e fuel (if b then r else l) (pre ++ [b]) ks
    | .hash h =>
      match resolve e.height e.disk h pre with
      | none => none
      | some child => get e fuel child pre key

end Trie2S
end Juno.C01
