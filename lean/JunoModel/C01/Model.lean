/-
C01 — model, part 1: hash terms, the Starknet commitment definition (`Spec`), and the trie2
algorithms (`core/trie2/trie.go` insert / delete, `core/trie2/hasher.go`) on fully resolved trees.
Core Lean only: this file is linked into the driver executable.

Hashes are NOT computed: `HTerm` is the free term algebra over Pedersen / Poseidon / felt addition.
The model computes terms, the theorems are statements about terms (an ideal, collision-free hash),
and the Go harness evaluates the terms with the real primitives and compares with the real root.
-/
namespace Juno.C01

/-- A path / key: bits, most significant first (`trieutils.Path`, `trie.BitArray`). -/
abbrev Path := List Bool

inductive HashKind | pedersen | poseidon
deriving DecidableEq, Repr, Inhabited

/-- Free term algebra of the commitments. `felt n` a literal field element; `h k a b` =
`crypto.Pedersen(a,b)` / `crypto.Poseidon(a,b)`; `pos3 a b c` = `crypto.PoseidonElems(a,b,c)`;
`add t n` = felt addition of a small constant (`hash + pathLength` in the edge formula). -/
inductive HTerm where
  | felt (n : Nat)
  | h (k : HashKind) (a b : HTerm)
  | pos3 (a b c : HTerm)
  | add (t : HTerm) (n : Nat)
deriving DecidableEq, Repr, Inhabited

abbrev HTerm.zero : HTerm := .felt 0

/-- `Path.Felt()`: the bits read as a big-endian number. -/
def pathNatAux : Nat → Path → Nat
  | acc, [] => acc
  | acc, b :: bs => pathNatAux (2 * acc + (if b then 1 else 0)) bs

def pathNat (p : Path) : Nat := pathNatAux 0 p

/-- `FeltToPath(key, height)` / `FeltToKey`: the low `height` bits of `n`, most significant first. -/
def natToPath (height n : Nat) : Path :=
  (List.range height).reverse.map (fun i => n.testBit i)

/-- `CommonMSBs`: longest common prefix. -/
def cpre : Path → Path → Path
  | a :: as, b :: bs => if a = b then a :: cpre as bs else []
  | _, _ => []

/-! ## The Starknet definition of the commitment (the specification)

https://docs.starknet.io/learn/protocol/state#merkle-patricia-trie : every node of the full binary
tree of height `n` is a triple `(length, path, bottom)`; an empty subtree is `(0,0,0)`; a leaf is
`(0,0,value)`; an inner node with both children non-empty is `(0,0,H(hash left, hash right))`, with
one empty child it is the other child's triple with the branch bit prepended to the path;
`hash (len,path,bottom) = bottom` if `len = 0`, else `H(bottom, path) + len`.
The abstract state of a trie is the total function from keys (paths of length `n`) to values,
`felt 0` meaning "absent". -/

structure SNode where
  path : Path
  bottom : HTerm
deriving DecidableEq, Repr

def SNode.empty : SNode := ⟨[], .felt 0⟩

def SNode.isEmpty (s : SNode) : Bool := s.path.isEmpty && s.bottom == .felt 0

def SNode.hash (k : HashKind) (s : SNode) : HTerm :=
  if s.path.isEmpty then s.bottom
  else .add (.h k s.bottom (.felt (pathNat s.path))) s.path.length

namespace Spec

def combine (k : HashKind) (l r : SNode) : SNode :=
  if l.isEmpty then (if r.isEmpty then SNode.empty else ⟨true :: r.path, r.bottom⟩)
  else if r.isEmpty then ⟨false :: l.path, l.bottom⟩
  else ⟨[], .h k (l.hash k) (r.hash k)⟩

/-- The triple of the subtree of height `n` whose leaves are given by `m`. -/
def node (k : HashKind) : (n : Nat) → (Path → HTerm) → SNode
  | 0, m => ⟨[], m []⟩
  | n + 1, m => combine k (node k n (fun p => m (false :: p))) (node k n (fun p => m (true :: p)))

/-- The commitment of the key/value map `m` over keys of length `n`. -/
def root (k : HashKind) (n : Nat) (m : Path → HTerm) : HTerm := (node k n m).hash k

end Spec

/-! ## trie2 nodes -/

/-- `trienode.nodeFlag`: cached hash and dirty bit. -/
structure Flags where
  hash : Option HTerm
  dirty : Bool
deriving DecidableEq, Repr, Inhabited

/-- `trienode.NewNodeFlag()`. -/
def Flags.new : Flags := ⟨none, true⟩

/-- `trienode.Node`: `nil | *ValueNode | *HashNode | *EdgeNode | *BinaryNode`. -/
inductive Node where
  | nil
  | value (v : HTerm)
  | hash (h : HTerm)
  | edge (p : Path) (c : Node) (fl : Flags)
  | bin (l r : Node) (fl : Flags)
deriving DecidableEq, Repr, Inhabited

namespace Trie2

/-- `insert(nil, prefix, key, value)`: the `key.Len()==0` shortcut and the `case nil` branch; the
Go code reaches it by a recursive call with `n = nil` (also used to re-hang the old child of a
split edge), here it is a separate function so that `ins` is structurally recursive. -/
def insNil (key : Path) (value : Node) : Node :=
  if key.isEmpty then value else .edge key value Flags.new

/-- `Trie.insert` on a resolved tree (no `HashNode`; see `ModelStore` for resolution).
Returns the new node and the `dirty` flag. Cases the Go code answers with `panic` (a value node
above leaf level) or that need the database (hash node) return the node unchanged; they are
unreachable from the empty trie (theorem `run_wf`). -/
def ins (n : Node) (key : Path) (v : HTerm) : Node × Bool :=
  match key, n with
  | [], .value w => (.value v, v != w)
  | [], _ => (.value v, true)
  | _ :: _, .nil => (.edge key (.value v) Flags.new, true)
  | _ :: _, .edge p c _ =>
    let m := cpre p key
    if m.length = p.length then
      let r := ins c (key.drop m.length) v
      if !r.2 then (n, false) else (.edge p r.1 Flags.new, true)
    else
      let pb := p.getD m.length false
      let kb := key.getD m.length false
      let old := insNil (p.drop (m.length + 1)) c
      let new := insNil (key.drop (m.length + 1)) (.value v)
      -- branch.Children[pb] = old; branch.Children[kb] = new (second assignment wins)
      let l := if kb = false then new else if pb = false then old else .nil
      let r := if kb = true then new else if pb = true then old else .nil
      let branch := Node.bin l r Flags.new
      if m.isEmpty then (branch, true) else (.edge m branch Flags.new, true)
  | b :: ks, .bin l r _ =>
    if b then
      let res := ins r ks v
      if !res.2 then (n, false) else (.bin l res.1 Flags.new, true)
    else
      let res := ins l ks v
      if !res.2 then (n, false) else (.bin res.1 r Flags.new, true)
  | _ :: _, .value _ => (n, false)
  | _ :: _, .hash _ => (n, false)

/-- `Trie.delete` on a resolved tree. -/
def del (n : Node) (key : Path) : Node × Bool :=
  match n with
  | .nil => (.nil, false)
  | .edge p c _ =>
    let m := cpre p key
    if m.length < p.length then (n, false)
    else if m.length = key.length then (.nil, true)
    else
      let res := del c (key.drop p.length)
      if !res.2 then (n, false)
      else match res.1 with
        | .edge q cc _ => (.edge (p ++ q) cc Flags.new, true)
        | c' => (.edge p c' Flags.new, true)
  | .bin l r _ =>
    match key with
    | [] => (n, false)
    | b :: ks =>
      let res := if b then del r ks else del l ks
      if !res.2 then (n, false)
      else match res.1 with
        | .nil =>
          -- collapse into the other child
          match (if b then l else r) with
          | .edge q cc _ => (.edge ((!b) :: q) cc Flags.new, true)
          | other => (.edge [!b] other Flags.new, true)
        | c' => (if b then .bin l c' Flags.new else .bin c' r Flags.new, true)
  | .value _ => (.nil, true)
  | .hash _ => (n, false)

/-- `Trie.update`: zero value deletes. -/
def update (n : Node) (key : Path) (v : HTerm) : Node :=
  if v == .felt 0 then (del n key).1 else (ins n key v).1

/-- `Node.Hash(hf)` of a collapsed child: value and hash nodes are their own hash. -/
def selfHash : Node → HTerm
  | .value v => v
  | .hash h => h
  | _ => .felt 0

def edgeHash (k : HashKind) (p : Path) (child : HTerm) : HTerm :=
  .add (.h k child (.felt (pathNat p))) p.length

/-- `hasher.hash`: returns the hash and the tree with hashes cached in the flags. A cached hash
is returned without looking below it. -/
def hashNode (k : HashKind) : Node → HTerm × Node
  | .edge p c fl =>
    match fl.hash with
    | some x => (x, .edge p c fl)
    | none =>
      let r := match c with
        | .edge .. | .bin .. => hashNode k c
        | _ => (selfHash c, c)
      let x := edgeHash k p r.1
      (x, .edge p r.2 { fl with hash := some x })
  | .bin l r fl =>
    match fl.hash with
    | some x => (x, .bin l r fl)
    | none =>
      -- a nil child is replaced by NilValueNode in both the collapsed and the cached copy
      let hl := match l with | .nil => (HTerm.felt 0, Node.value (.felt 0)) | _ => hashNode k l
      let hr := match r with | .nil => (HTerm.felt 0, Node.value (.felt 0)) | _ => hashNode k r
      let x := HTerm.h k hl.1 hr.1
      (x, .bin hl.2 hr.2 { fl with hash := some x })
  | .value v => (v, .value v)
  | .hash h => (h, .hash h)
  | .nil => (.felt 0, .nil)

/-- `Trie.Hash()`: root hash and the root with caches filled (`t.root = cached`). -/
def hashRoot (k : HashKind) (root : Node) : HTerm × Node :=
  match root with
  | .nil => (.felt 0, .nil)
  | n => hashNode k n

/-- Lookup (`Trie.get` without resolution): the value stored under `key`, `felt 0` if absent. -/
def get : Node → Path → HTerm
  | .nil, _ => .felt 0
  | .value v, _ => v
  | .hash _, _ => .felt 0
  | .edge p c _, key => if p.isPrefixOf key then get c (key.drop p.length) else .felt 0
  | .bin l r _, key =>
    match key with
    | [] => .felt 0
    | b :: ks => if b then get r ks else get l ks

/-- What the trie sees when the caller of `Trie.Update(key, value *felt.Felt)` overwrites `*value` AFTER the
call: `insert` stores the caller's pointer as the leaf (`(*trienode.ValueNode)(value)`, no copy), so the leaf under
`key` changes in place — no flag is touched, no cached hash above it is invalidated. (The key is copied:
`FeltToPath` builds a new path.) No effect when `key` holds no leaf. -/
def poke (n : Node) (key : Path) (v : HTerm) : Node :=
  match n with
  | .value w => if key.isEmpty then .value v else .value w
  | .edge p c fl => if p.isPrefixOf key then .edge p (poke c (key.drop p.length) v) fl else .edge p c fl
  | .bin l r fl =>
    match key with
    | [] => .bin l r fl
    | b :: ks => if b then .bin l (poke r ks v) fl else .bin (poke l ks v) r fl
  | .nil => .nil
  | .hash h => .hash h

end Trie2

/-! ## Operation sequences on a trie (what the harness and the theorems quantify over) -/

inductive Op where
  | put (key : Path) (v : HTerm)   -- `Update(key, value)`; zero deletes
  | hash                          -- `Hash()`: caches the hashes in the tree
deriving Repr

def Trie2.step (k : HashKind) (root : Node) : Op → Node
  | .put key v => Trie2.update root key v
  | .hash => (Trie2.hashRoot k root).2

def Trie2.run (k : HashKind) (ops : List Op) : Node := ops.foldl (Trie2.step k) .nil

/-- Abstract (map) semantics of an operation sequence: last write wins, zero is absent. -/
def absStep (m : Path → HTerm) : Op → (Path → HTerm)
  | .put key v => fun p => if p = key then v else m p
  | .hash => m

def absRun (ops : List Op) : Path → HTerm := ops.foldl absStep (fun _ => .felt 0)

/-- `calculateCommitment` (core/receipt.go): item `i` is written under key `i` of a height-64 trie
(transaction, event and receipt commitments). -/
def commitmentOps (items : List HTerm) : List Op :=
  ((List.range items.length).zip items).map (fun e => Op.put (natToPath 64 e.1) e.2)

end Juno.C01
