import JunoModel.C01.Model
/-! Helper lemmas for C01 (the property statements themselves are in `Props.lean`). -/
namespace Juno.C01

theorem spec_node_empty (k : HashKind) (n : Nat) : Spec.node k n (fun _ => .felt 0) = SNode.empty := by
  induction n with
  | zero => rfl
  | succ n ih => simp [Spec.node, ih, Spec.combine, SNode.isEmpty, SNode.empty]

end Juno.C01
