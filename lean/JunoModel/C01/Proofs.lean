import JunoModel.C01.Model
/-!
Helper lemmas for C01, part 1: the trie2 algorithms on resolved trees keep the tree canonical,
implement the map semantics, keep cached hashes sound, and hash to the Starknet commitment.
(The property statements themselves are in `Props.lean`.)
-/
namespace Juno.C01
open Trie2

/-! ### paths -/

theorem cpre_full_iff (p k : Path) : (cpre p k).length = p.length ↔ p.isPrefixOf k = true := by
  induction p generalizing k with
  | nil => simp [cpre]
  | cons x xs ih =>
    cases k with
    | nil => simp [cpre]
    | cons y ys =>
      simp only [cpre]; split
      · rename_i h; subst h; simp [List.isPrefixOf, ih]
      · rename_i h; simp [List.isPrefixOf, h]

theorem cpre_length_le (p k : Path) : (cpre p k).length ≤ p.length := by
  induction p generalizing k with
  | nil => simp [cpre]
  | cons x xs ih =>
    cases k with
    | nil => simp [cpre]
    | cons y ys =>
      simp only [cpre]; split
      · simp; exact ih ys
      · simp

theorem cpre_split (p k : Path) (hlen : p.length ≤ k.length) (hne : (cpre p k).length ≠ p.length) :
    ∃ m pb prest krest, p = m ++ pb :: prest ∧ k = m ++ (!pb) :: krest ∧ cpre p k = m := by
  induction p generalizing k with
  | nil => simp [cpre] at hne
  | cons x xs ih =>
    cases k with
    | nil => simp at hlen
    | cons y ys =>
      by_cases hxy : x = y
      · subst hxy
        have hne' : (cpre xs ys).length ≠ xs.length := by
          intro h; apply hne; simp [cpre, h]
        obtain ⟨m, pb, prest, krest, h1, h2, h3⟩ := ih ys (by simpa using hlen) hne'
        exact ⟨x :: m, pb, prest, krest, by simp [h1], by simp [h2], by simp [cpre, h3]⟩
      · refine ⟨[], x, xs, ys, by simp, ?_, by simp [cpre, hxy]⟩
        have : y = !x := by cases x <;> cases y <;> simp_all
        simp [this]

theorem isPrefixOf_same_len {a b : Path} (h : a.length = b.length) :
    a.isPrefixOf b = decide (a = b) := by
  induction a generalizing b with
  | nil => cases b <;> simp_all
  | cons x xs ih =>
    cases b with
    | nil => simp at h
    | cons y ys =>
      have := ih (b := ys) (by simpa using h)
      by_cases hxy : x = y <;> simp [List.isPrefixOf, this, hxy]

theorem isPrefixOf_app_cons (m a b : Path) (x y : Bool) :
    (m ++ x :: a).isPrefixOf (m ++ y :: b) = (decide (x = y) && a.isPrefixOf b) := by
  induction m with
  | nil => by_cases h : x = y <;> simp [List.isPrefixOf, h]
  | cons z zs ih => simp [List.isPrefixOf, ih]

theorem drop_app_cons (m a b : Path) (x y : Bool) :
    List.drop (m ++ x :: a).length (m ++ y :: b) = List.drop a.length b := by
  induction m with
  | nil => simp
  | cons z zs ih => simpa using ih

/-! ### well-formedness -/

/-- Not an edge node (the child of an edge is a binary or a value node). -/
def NotEdge : Node → Prop
  | .edge .. => False
  | _ => True

/-- Canonical resolved subtree of remaining height `n`: non-empty edge paths, no edge below an
edge, binary nodes with two non-empty children, non-zero values exactly at depth 0. Flags are
not constrained here (see `CacheOK`). -/
inductive WF : Node → Nat → Prop
  | value {v : HTerm} : v ≠ .felt 0 → WF (.value v) 0
  | edge {p : Path} {c : Node} {n : Nat} {fl : Flags} :
      p ≠ [] → WF c n → NotEdge c → WF (.edge p c fl) (p.length + n)
  | bin {l r : Node} {n : Nat} {fl : Flags} : WF l n → WF r n → WF (.bin l r fl) (n + 1)

/-- A trie root: empty or a canonical tree. -/
def WFRoot (t : Node) (n : Nat) : Prop := t = .nil ∨ WF t n

theorem WF.ne_nil {t : Node} {n : Nat} (h : WF t n) : t ≠ .nil := by
  cases h <;> simp

/-- Edge-shaped lookup. -/
def getE (p : Path) (c : Node) (key : Path) : HTerm :=
  if p.isPrefixOf key then Trie2.get c (key.drop p.length) else .felt 0

theorem get_edge (p : Path) (c : Node) (fl : Flags) (key : Path) :
    Trie2.get (.edge p c fl) key = getE p c key := by
  simp [Trie2.get, getE]

theorem get_insNil (p : Path) (c : Node) (key : Path) : Trie2.get (insNil p c) key = getE p c key := by
  unfold insNil getE
  cases p with
  | nil => simp
  | cons x xs => simp [Trie2.get]

theorem WF_insNil {p : Path} {c : Node} {n : Nat} (hc : WF c n) (hne : NotEdge c) :
    WF (insNil p c) (p.length + n) := by
  unfold insNil
  cases p with
  | nil => simpa using hc
  | cons x xs => exact WF.edge (by simp) hc hne

theorem NotEdge_insNil_nil {c : Node} (hne : NotEdge c) : NotEdge (insNil [] c) := by
  simpa [insNil] using hne

/-! ### insert -/

theorem ins_clean {t : Node} {key : Path} {v : HTerm} (h : (ins t key v).2 = false) :
    (ins t key v).1 = t := by
  induction t generalizing key with
  | nil => cases key <;> simp [ins] at h
  | value w =>
    cases key with
    | nil => simp [ins] at h ⊢; exact h
    | cons b ks => simp [ins]
  | hash x => cases key <;> simp [ins] at h ⊢
  | edge p c fl ih =>
    cases key with
    | nil => simp [ins] at h
    | cons b ks =>
      simp only [ins] at h ⊢
      by_cases h1 : (cpre p (b :: ks)).length = p.length
      · simp only [h1, if_true] at h ⊢
        by_cases h2 : (ins c (List.drop p.length (b :: ks)) v).2 = true
        · simp [h2] at h
        · simp [h2]
      · simp only [h1, if_false] at h
        split at h <;> simp at h
  | bin l r fl ihl ihr =>
    cases key with
    | nil => simp [ins] at h
    | cons b ks =>
      simp only [ins] at h ⊢
      cases b
      · simp only [Bool.false_eq_true, if_false] at h ⊢
        by_cases h2 : (ins l ks v).2 = true
        · simp [h2] at h
        · simp [h2]
      · simp only [if_true] at h ⊢
        by_cases h2 : (ins r ks v).2 = true
        · simp [h2] at h
        · simp [h2]

theorem WF.cast {t : Node} {a b : Nat} (h : WF t a) (e : a = b) : WF t b := e ▸ h

theorem get_bin_cons (l r : Node) (fl : Flags) (b : Bool) (ks : Path) :
    Trie2.get (.bin l r fl) (b :: ks) = if b then Trie2.get r ks else Trie2.get l ks := by
  simp [Trie2.get]

theorem ins_nil_spec (key : Path) (v : HTerm) (hv : v ≠ .felt 0) :
    WF (ins .nil key v).1 key.length ∧
    ∀ k', k'.length = key.length → Trie2.get (ins .nil key v).1 k' = if k' = key then v else .felt 0 := by
  cases key with
  | nil =>
    refine ⟨by simpa [ins] using WF.value hv, ?_⟩
    intro k' hk'
    have : k' = [] := List.length_eq_zero_iff.mp hk'
    subst this; simp [ins, Trie2.get]
  | cons b ks =>
    refine ⟨?_, ?_⟩
    · have := WF.edge (p := b :: ks) (fl := Flags.new) (by simp) (WF.value hv) (by simp [NotEdge])
      simpa [ins] using this
    · intro k' hk'
      simp only [ins, get_edge, getE]
      rw [isPrefixOf_same_len hk'.symm]
      by_cases e : b :: ks = k'
      · subst e; simp [Trie2.get]
      · have e' : ¬ k' = b :: ks := fun h => e h.symm
        simp [e, e']

theorem ins_spec {t : Node} {n : Nat} (h : WF t n) (key : Path) (hk : key.length = n)
    (v : HTerm) (hv : v ≠ .felt 0) :
    WF (ins t key v).1 n ∧ (NotEdge t → NotEdge (ins t key v).1) ∧
    ∀ k', k'.length = n → Trie2.get (ins t key v).1 k' = if k' = key then v else Trie2.get t k' := by
  induction h generalizing key with
  | value hw =>
    have h1 : key = [] := List.length_eq_zero_iff.mp hk
    subst h1
    refine ⟨by simpa [ins] using WF.value hv, by simp [ins, NotEdge], ?_⟩
    intro k' hk'
    have h2 : k' = [] := List.length_eq_zero_iff.mp hk'
    subst h2; simp [ins, Trie2.get]
  | @bin l r n fl hl hr ihl ihr =>
    cases key with
    | nil => simp at hk
    | cons b ks =>
      have hks : ks.length = n := by simpa using hk
      cases b
      · obtain ⟨w1, _, g1⟩ := ihl ks hks
        simp only [ins, Bool.false_eq_true, if_false]
        by_cases h2 : (ins l ks v).2 = true
        · simp only [h2, Bool.not_true, Bool.false_eq_true, if_false]
          refine ⟨WF.bin w1 hr, by simp [NotEdge], ?_⟩
          intro k' hk'
          cases k' with
          | nil => simp at hk'
          | cons b' ks' =>
            have hks' : ks'.length = n := by simpa using hk'
            cases b' <;> simp [get_bin_cons, g1 ks' hks']
        · have e := ins_clean (by simpa using h2 : (ins l ks v).2 = false)
          rw [e] at g1
          simp only [h2]
          refine ⟨WF.bin hl hr, by simp [NotEdge], ?_⟩
          intro k' hk'
          cases k' with
          | nil => simp at hk'
          | cons b' ks' =>
            have hks' : ks'.length = n := by simpa using hk'
            cases b'
            · simp only [get_bin_cons, Bool.false_eq_true, if_false, List.cons.injEq, true_and]
              exact g1 ks' hks'
            · simp [get_bin_cons]
      · obtain ⟨w1, _, g1⟩ := ihr ks hks
        simp only [ins, if_true]
        by_cases h2 : (ins r ks v).2 = true
        · simp only [h2, Bool.not_true, Bool.false_eq_true, if_false]
          refine ⟨WF.bin hl w1, by simp [NotEdge], ?_⟩
          intro k' hk'
          cases k' with
          | nil => simp at hk'
          | cons b' ks' =>
            have hks' : ks'.length = n := by simpa using hk'
            cases b' <;> simp [get_bin_cons, g1 ks' hks']
        · have e := ins_clean (by simpa using h2 : (ins r ks v).2 = false)
          rw [e] at g1
          simp only [h2]
          refine ⟨WF.bin hl hr, by simp [NotEdge], ?_⟩
          intro k' hk'
          cases k' with
          | nil => simp at hk'
          | cons b' ks' =>
            have hks' : ks'.length = n := by simpa using hk'
            cases b'
            · simp [get_bin_cons]
            · simp only [get_bin_cons, if_true, List.cons.injEq, true_and]
              exact g1 ks' hks'
  | @edge p c n fl hp hc hne ih =>
    cases key with
    | nil =>
      exfalso
      cases p with
      | nil => exact hp rfl
      | cons _ _ => simp only [List.length_nil, List.length_cons] at hk; omega
    | cons kb kks =>
      simp only [ins]
      by_cases hfull : (cpre p (kb :: kks)).length = p.length
      · -- the edge path is a prefix of the key: descend
        simp only [hfull, if_true]
        have hpk : p.isPrefixOf (kb :: kks) = true := (cpre_full_iff p _).mp hfull
        obtain ⟨kt, hkt⟩ := List.isPrefixOf_iff_prefix.mp hpk
        rw [← hkt] at hk ⊢
        have hktl : kt.length = n := by simp at hk; omega
        simp only [List.drop_left]
        obtain ⟨w1, ne1, g1⟩ := ih kt hktl
        have key_get : ∀ (c' : Node) (fl' : Flags),
            (∀ k', k'.length = n → Trie2.get c' k' = if k' = kt then v else Trie2.get c k') →
            ∀ k', k'.length = p.length + n →
              Trie2.get (.edge p c' fl') k' = if k' = p ++ kt then v else Trie2.get (.edge p c fl) k' := by
          intro c' fl' g k' hk'
          simp only [get_edge, getE]
          by_cases hpk' : p.isPrefixOf k' = true
          · obtain ⟨kt', rfl⟩ := List.isPrefixOf_iff_prefix.mp hpk'
            have hkt' : kt'.length = n := by simp at hk'; omega
            simp [g kt' hkt']
          · have : k' ≠ p ++ kt := by
              intro e; apply hpk'; rw [e]; exact List.isPrefixOf_iff_prefix.mpr ⟨kt, rfl⟩
            simp [hpk', this]
        by_cases h2 : (ins c kt v).2 = true
        · simp only [h2, Bool.not_true, Bool.false_eq_true, if_false]
          exact ⟨WF.edge hp w1 (ne1 hne), by simp [NotEdge], key_get _ _ g1⟩
        · have e := ins_clean (by simpa using h2 : (ins c kt v).2 = false)
          rw [e] at g1
          simp only [h2]
          exact ⟨WF.edge hp hc hne, by simp [NotEdge], key_get _ _ g1⟩
      · -- branch out at the first differing bit
        simp only [hfull, if_false]
        obtain ⟨m, pb, prest, krest, hp', hk2, hm⟩ := cpre_split p (kb :: kks) (by omega) hfull
        rw [hk2] at hk ⊢
        subst hp'
        rw [show cpre (m ++ pb :: prest) (m ++ (!pb) :: krest) = m from by rw [← hk2]; exact hm]
        have hkr : krest.length = prest.length + n := by simp at hk; omega
        have e1 : (m ++ pb :: prest).getD m.length false = pb := by simp
        have e2 : (m ++ (!pb) :: krest).getD m.length false = !pb := by simp
        have e3 : List.drop (m.length + 1) (m ++ pb :: prest) = prest := by
          rw [show m ++ pb :: prest = (m ++ [pb]) ++ prest by simp]
          rw [show m.length + 1 = (m ++ [pb]).length by simp]
          exact List.drop_left
        have e4 : List.drop (m.length + 1) (m ++ (!pb) :: krest) = krest := by
          rw [show m ++ (!pb) :: krest = (m ++ [!pb]) ++ krest by simp]
          rw [show m.length + 1 = (m ++ [!pb]).length by simp]
          exact List.drop_left
        simp only [e1, e2, e3, e4]
        have wold : WF (insNil prest c) (prest.length + n) := WF_insNil hc hne
        have wnew : WF (insNil krest (.value v)) (prest.length + n) :=
          (WF_insNil (p := krest) (WF.value hv) (by simp [NotEdge])).cast (by omega)
        -- lookups in the two new children
        have gold : ∀ k'', Trie2.get (insNil prest c) k'' = getE prest c k'' := get_insNil _ _
        have gnew : ∀ k'', k''.length = krest.length →
            Trie2.get (insNil krest (.value v)) k'' = if k'' = krest then v else .felt 0 := by
          intro k'' hl
          rw [get_insNil]; unfold getE
          rw [isPrefixOf_same_len hl.symm]
          by_cases e : krest = k''
          · subst e; simp [Trie2.get]
          · have e' : ¬ k'' = krest := fun h => e h.symm
            simp [e, e']
        -- the branch node
        have hbranch : ∀ (brl brr : Node),
            (pb = false → brl = insNil prest c ∧ brr = insNil krest (.value v)) →
            (pb = true → brl = insNil krest (.value v) ∧ brr = insNil prest c) →
            WF (.bin brl brr Flags.new) (prest.length + n + 1) ∧
            ∀ b' rs, rs.length = prest.length + n →
              Trie2.get (.bin brl brr Flags.new) (b' :: rs) =
                if b' :: rs = (!pb) :: krest then v else getE (pb :: prest) c (b' :: rs) := by
          intro brl brr h0 h1
          cases pb
          · obtain ⟨rfl, rfl⟩ := h0 rfl
            refine ⟨WF.bin wold wnew, ?_⟩
            intro b' rs hrs
            cases b'
            · simp [get_bin_cons, gold, getE]
            · simp [get_bin_cons, gnew rs (by omega), getE]
          · obtain ⟨rfl, rfl⟩ := h1 rfl
            refine ⟨WF.bin wnew wold, ?_⟩
            intro b' rs hrs
            cases b'
            · simp [get_bin_cons, gnew rs (by omega), getE]
            · simp [get_bin_cons, gold, getE]
        obtain ⟨wbr, gbr⟩ := hbranch
          (if (!pb) = false then insNil krest (.value v) else if pb = false then insNil prest c else .nil)
          (if (!pb) = true then insNil krest (.value v) else if pb = true then insNil prest c else .nil)
          (by intro h; subst h; simp) (by intro h; subst h; simp)
        have hlen : (m ++ pb :: prest).length + n = m.length + (prest.length + n + 1) := by
          simp; omega
        by_cases hme : m = []
        · subst hme
          simp only [List.isEmpty_nil, if_true, List.nil_append]
          refine ⟨wbr.cast (by simp; omega), by simp [NotEdge], ?_⟩
          intro k' hk'
          cases k' with
          | nil => simp only [List.length_nil, List.length_cons, List.nil_append] at hk'; omega
          | cons b' rs =>
            have hrs : rs.length = prest.length + n := by simp at hk'; omega
            rw [gbr b' rs hrs, get_edge]
        · have hme' : m.isEmpty = false := by cases m <;> simp_all
          simp only [hme', Bool.false_eq_true, if_false]
          refine ⟨(WF.edge hme wbr (by simp [NotEdge])).cast hlen.symm, by simp [NotEdge], ?_⟩
          intro k' hk'
          rw [get_edge, get_edge]
          unfold getE
          by_cases hmk : m.isPrefixOf k' = true
          · obtain ⟨r', rfl⟩ := List.isPrefixOf_iff_prefix.mp hmk
            cases r' with
            | nil => simp at hk'; omega
            | cons b' rs =>
              have hrs : rs.length = prest.length + n := by simp at hk'; omega
              simp only [hmk, if_true, List.drop_left]
              rw [gbr b' rs hrs]
              simp only [isPrefixOf_app_cons, drop_app_cons, getE, List.append_cancel_left_eq]
              cases pb <;> cases b' <;> simp [List.isPrefixOf]
          · have hne1 : k' ≠ m ++ (!pb) :: krest := by
              intro e; apply hmk; rw [e]; exact List.isPrefixOf_iff_prefix.mpr ⟨_, rfl⟩
            have hne2 : (m ++ pb :: prest).isPrefixOf k' = false := by
              cases h5 : (m ++ pb :: prest).isPrefixOf k' with
              | false => rfl
              | true =>
                exfalso; apply hmk
                obtain ⟨t, ht⟩ := List.isPrefixOf_iff_prefix.mp h5
                exact List.isPrefixOf_iff_prefix.mpr ⟨pb :: prest ++ t, by simpa [List.append_assoc] using ht⟩
            simp [hmk, hne1, hne2]

/-! ### delete -/

theorem del_clean {t : Node} {key : Path} (h : (del t key).2 = false) : (del t key).1 = t := by
  induction t generalizing key with
  | nil => simp [del]
  | value w => simp [del] at h
  | hash x => simp [del]
  | edge p c fl ih =>
    simp only [del] at h ⊢
    by_cases h1 : (cpre p key).length < p.length
    · simp [h1]
    · simp only [h1, if_false] at h ⊢
      by_cases h2 : (cpre p key).length = key.length
      · simp [h2] at h
      · simp only [h2, if_false] at h ⊢
        by_cases h3 : (del c (List.drop p.length key)).2 = true
        · simp only [h3, Bool.not_true, Bool.false_eq_true, if_false] at h
          split at h <;> simp at h
        · simp [h3]
  | bin l r fl ihl ihr =>
    cases key with
    | nil => simp [del]
    | cons b ks =>
      simp only [del] at h ⊢
      by_cases h3 : (if b = true then del r ks else del l ks).2 = true
      · simp only [h3, Bool.not_true, Bool.false_eq_true, if_false] at h
        split at h
        · split at h <;> simp at h
        · simp at h
      · simp [h3]

theorem getE_append (p q : Path) (c : Node) (k : Path) :
    getE (p ++ q) c k = if p.isPrefixOf k then getE q c (k.drop p.length) else .felt 0 := by
  induction p generalizing k with
  | nil => simp
  | cons x xs ih =>
    cases k with
    | nil => simp [getE]
    | cons y ys =>
      by_cases hxy : x = y
      · subst hxy
        have := ih ys
        simp only [getE] at this ⊢
        simpa [List.isPrefixOf] using this
      · simp [getE, List.isPrefixOf, hxy]

theorem WF_pos_notEdge {c : Node} {n : Nat} (h : WF c n) (hne : NotEdge c) (hn : 0 < n) :
    ∃ l r fl, c = .bin l r fl := by
  cases h with
  | value _ => omega
  | edge _ _ _ => simp [NotEdge] at hne
  | bin _ _ => exact ⟨_, _, _, rfl⟩

theorem WFRoot.wf {t : Node} {n : Nat} (h : WFRoot t n) (hne : t ≠ .nil) : WF t n := by
  cases h with
  | inl h => exact absurd h hne
  | inr h => exact h

theorem getE_cons (x : Bool) (q : Path) (c : Node) (y : Bool) (ks : Path) :
    getE (x :: q) c (y :: ks) = if x = y then getE q c ks else .felt 0 := by
  by_cases h : x = y <;> simp [getE, List.isPrefixOf, h]

theorem del_spec {t : Node} {n : Nat} (h : WF t n) (key : Path) (hk : key.length = n) :
    WFRoot (del t key).1 n ∧ ((∃ l r fl, t = .bin l r fl) → WF (del t key).1 n) ∧
    ∀ k', k'.length = n →
      Trie2.get (del t key).1 k' = if k' = key then .felt 0 else Trie2.get t k' := by
  induction h generalizing key with
  | value hw =>
    have h1 : key = [] := List.length_eq_zero_iff.mp hk
    subst h1
    refine ⟨Or.inl (by simp [del]), by simp, ?_⟩
    intro k' hk'
    have h2 : k' = [] := List.length_eq_zero_iff.mp hk'
    subst h2; simp [del, Trie2.get]
  | @edge p c n fl hp hc hne ih =>
    simp only [del]
    have hle := cpre_length_le p key
    by_cases h1 : (cpre p key).length < p.length
    · -- mismatch: nothing to delete
      simp only [h1, if_true]
      have hnp : p.isPrefixOf key = false := by
        cases h5 : p.isPrefixOf key with
        | false => rfl
        | true => have := (cpre_full_iff p key).mpr h5; omega
      refine ⟨Or.inr (WF.edge hp hc hne), by simp, ?_⟩
      intro k' hk'
      by_cases e : k' = key
      · subst e; simp [get_edge, getE, hnp]
      · simp [e]
    · have hfull : (cpre p key).length = p.length := by omega
      simp only [h1, if_false]
      simp only [hfull]
      have hpk : p.isPrefixOf key = true := (cpre_full_iff p key).mp hfull
      obtain ⟨kt, hkt⟩ := List.isPrefixOf_iff_prefix.mp hpk
      subst hkt
      have hktl : kt.length = n := by simp at hk; omega
      by_cases h2 : p.length = (p ++ kt).length
      · -- the edge leads to the leaf: remove it
        simp only [h2, if_true]
        have hkt0 : kt = [] := by simpa using h2
        subst hkt0
        refine ⟨Or.inl rfl, by simp, ?_⟩
        intro k' hk'
        simp only [Trie2.get, get_edge, getE, List.append_nil]
        have hl : p.length = k'.length := by simp at hk'; omega
        rw [isPrefixOf_same_len hl]
        by_cases e : p = k'
        · subst e; simp
        · have e' : ¬ k' = p := fun h => e h.symm
          simp [e, e']
      · simp only [h2, if_false, List.drop_left]
        have hnpos : 0 < n := by
          cases kt with
          | nil => simp at h2
          | cons _ _ => simp at hktl; omega
        obtain ⟨cl, cr, cfl, hcbin⟩ := WF_pos_notEdge hc hne hnpos
        obtain ⟨_, w1, g1⟩ := ih kt hktl
        have w1 := w1 ⟨_, _, _, hcbin⟩
        have key_get : ∀ (c' : Node) (fl' : Flags),
            (∀ k', k'.length = n → Trie2.get c' k' = if k' = kt then .felt 0 else Trie2.get c k') →
            ∀ k', k'.length = p.length + n →
              Trie2.get (.edge p c' fl') k' =
                if k' = p ++ kt then .felt 0 else Trie2.get (.edge p c fl) k' := by
          intro c' fl' g k' hk'
          simp only [get_edge, getE]
          by_cases hpk' : p.isPrefixOf k' = true
          · obtain ⟨kt', rfl⟩ := List.isPrefixOf_iff_prefix.mp hpk'
            have hkt' : kt'.length = n := by simp at hk'; omega
            simp [g kt' hkt']
          · have : k' ≠ p ++ kt := by
              intro e; apply hpk'; rw [e]; exact List.isPrefixOf_iff_prefix.mpr ⟨kt, rfl⟩
            simp [hpk', this]
        by_cases h3 : (del c kt).2 = true
        · simp only [h3, Bool.not_true, Bool.false_eq_true, if_false]
          cases hres : (del c kt).1 with
          | edge q cc qfl =>
            rw [hres] at w1 g1
            simp only []
            cases w1 with
            | @edge _ _ n' _ hq hcc hncc =>
              refine ⟨Or.inr ((WF.edge (by simp [hp]) hcc hncc).cast (by simp; omega)), by simp, ?_⟩
              intro k' hk'
              have := key_get (.edge q cc qfl) fl g1 k' hk'
              rw [← this]
              simp only [get_edge]
              rw [getE_append]
              simp only [getE, get_edge]
          | nil => rw [hres] at w1; exact absurd rfl w1.ne_nil
          | value x =>
            rw [hres] at w1 g1
            simp only []
            exact ⟨Or.inr (WF.edge hp w1 (by simp [NotEdge])), by simp, key_get _ _ g1⟩
          | hash x =>
            rw [hres] at w1 g1
            simp only []
            exact ⟨Or.inr (WF.edge hp w1 (by simp [NotEdge])), by simp, key_get _ _ g1⟩
          | bin bl br bfl =>
            rw [hres] at w1 g1
            simp only []
            exact ⟨Or.inr (WF.edge hp w1 (by simp [NotEdge])), by simp, key_get _ _ g1⟩
        · have e := del_clean (by simpa using h3 : (del c kt).2 = false)
          rw [e] at g1
          simp only [h3]
          exact ⟨Or.inr (WF.edge hp hc hne), by simp, key_get _ _ g1⟩
  | @bin l r n fl hl hr ihl ihr =>
    cases key with
    | nil => simp at hk
    | cons b ks =>
      have hks : ks.length = n := by simpa using hk
      simp only [del]
      -- the child we descend into and the other one
      have hch : ∀ (ch other : Node), WF ch n → WF other n →
          (WFRoot (del ch ks).1 n ∧
            ∀ k', k'.length = n → Trie2.get (del ch ks).1 k' = if k' = ks then .felt 0 else Trie2.get ch k') →
          (∀ b' ks', Trie2.get (.bin l r fl) (b' :: ks') = if b' = b then Trie2.get ch ks' else Trie2.get other ks') →
          (∀ c' : Node, WF c' n → WF (if b = true then .bin l c' Flags.new else .bin c' r Flags.new) (n + 1) ∧
            ∀ b' ks', Trie2.get (if b = true then .bin l c' Flags.new else .bin c' r Flags.new) (b' :: ks') =
              if b' = b then Trie2.get c' ks' else Trie2.get other ks') →
          (del ch ks).2 = true →
          WF (match (del ch ks).1 with
              | .nil => (match other with
                | .edge q cc _ => (Node.edge ((!b) :: q) cc Flags.new, true)
                | o => (Node.edge [!b] o Flags.new, true))
              | c' => (if b = true then Node.bin l c' Flags.new else Node.bin c' r Flags.new, true)).1 (n + 1) ∧
          ∀ k', k'.length = n + 1 →
            Trie2.get (match (del ch ks).1 with
              | .nil => (match other with
                | .edge q cc _ => (Node.edge ((!b) :: q) cc Flags.new, true)
                | o => (Node.edge [!b] o Flags.new, true))
              | c' => (if b = true then Node.bin l c' Flags.new else Node.bin c' r Flags.new, true)).1 k' =
              if k' = b :: ks then .felt 0 else Trie2.get (.bin l r fl) k' := by
        intro ch other wch wother ⟨w1, g1⟩ gbin grepl _
        have fin : ∀ (res : Node), WF res (n + 1) →
            (∀ b' ks', ks'.length = n → Trie2.get res (b' :: ks') =
              if b' = b then (if ks' = ks then .felt 0 else Trie2.get ch ks') else Trie2.get other ks') →
            WF res (n + 1) ∧ ∀ k', k'.length = n + 1 →
              Trie2.get res k' = if k' = b :: ks then .felt 0 else Trie2.get (.bin l r fl) k' := by
          intro res wres gres
          refine ⟨wres, ?_⟩
          intro k' hk'
          cases k' with
          | nil => simp at hk'
          | cons b' ks' =>
            have hks' : ks'.length = n := by simpa using hk'
            rw [gres b' ks' hks', gbin]
            by_cases e : b' = b
            · subst e; simp
            · simp [e]
        cases hres : (del ch ks).1 with
        | nil =>
          rw [hres] at g1
          have gz : ∀ ks', ks'.length = n → (if ks' = ks then HTerm.felt 0 else Trie2.get ch ks') = .felt 0 := by
            intro ks' hl
            have := g1 ks' hl
            simp only [Trie2.get] at this
            exact this.symm
          cases other with
          | edge q cc qfl =>
            simp only []
            cases wother with
            | @edge _ _ n' _ hq hcc hncc =>
              apply fin
              · exact (WF.edge (by simp) hcc hncc).cast (by simp; omega)
              · intro b' ks' hl
                rw [get_edge, getE_cons, gz ks' hl, get_edge]
                cases b <;> cases b' <;> simp
          | nil => exact absurd rfl wother.ne_nil
          | value x =>
            simp only []
            apply fin
            · exact (WF.edge (by simp) wother (by simp [NotEdge])).cast (by simp; omega)
            · intro b' ks' hl
              rw [get_edge, getE_cons, gz ks' hl]
              cases b <;> cases b' <;> simp [getE]
          | hash x =>
            simp only []
            apply fin
            · exact (WF.edge (by simp) wother (by simp [NotEdge])).cast (by simp; omega)
            · intro b' ks' hl
              rw [get_edge, getE_cons, gz ks' hl]
              cases b <;> cases b' <;> simp [getE]
          | bin ol or_ ofl =>
            simp only []
            apply fin
            · exact (WF.edge (by simp) wother (by simp [NotEdge])).cast (by simp; omega)
            · intro b' ks' hl
              rw [get_edge, getE_cons, gz ks' hl]
              cases b <;> cases b' <;> simp [getE]
        | value x =>
          rw [hres] at w1 g1
          simp only []
          obtain ⟨wr, gr⟩ := grepl _ (w1.wf (by simp))
          apply fin _ wr
          intro b' ks' hl
          rw [gr]
          by_cases e : b' = b
          · simp [e, g1 ks' hl]
          · simp [e]
        | hash x =>
          rw [hres] at w1 g1
          simp only []
          obtain ⟨wr, gr⟩ := grepl _ (w1.wf (by simp))
          apply fin _ wr
          intro b' ks' hl
          rw [gr]
          by_cases e : b' = b
          · simp [e, g1 ks' hl]
          · simp [e]
        | edge q cc qfl =>
          rw [hres] at w1 g1
          simp only []
          obtain ⟨wr, gr⟩ := grepl _ (w1.wf (by simp))
          apply fin _ wr
          intro b' ks' hl
          rw [gr]
          by_cases e : b' = b
          · simp [e, g1 ks' hl]
          · simp [e]
        | bin bl br bfl =>
          rw [hres] at w1 g1
          simp only []
          obtain ⟨wr, gr⟩ := grepl _ (w1.wf (by simp))
          apply fin _ wr
          intro b' ks' hl
          rw [gr]
          by_cases e : b' = b
          · simp [e, g1 ks' hl]
          · simp [e]
      by_cases h3 : (if b = true then del r ks else del l ks).2 = true
      · simp only [h3, Bool.not_true, Bool.false_eq_true, if_false]
        cases b
        · simp only [Bool.false_eq_true, if_false] at h3 ⊢
          obtain ⟨a1, _, a3⟩ := ihl ks hks
          have := hch l r hl hr ⟨a1, a3⟩ (by intro b' ks'; cases b' <;> simp [get_bin_cons])
            (by intro c' wc'; exact ⟨WF.bin wc' hr, by intro b' ks'; cases b' <;> simp [get_bin_cons]⟩) h3
          simp only [Bool.false_eq_true, if_false, Bool.not_false] at this
          exact ⟨Or.inr this.1, fun _ => this.1, this.2⟩
        · simp only [if_true] at h3 ⊢
          obtain ⟨a1, _, a3⟩ := ihr ks hks
          have := hch r l hr hl ⟨a1, a3⟩ (by intro b' ks'; cases b' <;> simp [get_bin_cons])
            (by intro c' wc'; exact ⟨WF.bin hl wc', by intro b' ks'; cases b' <;> simp [get_bin_cons]⟩) h3
          simp only [if_true, Bool.not_true] at this
          exact ⟨Or.inr this.1, fun _ => this.1, this.2⟩
      · simp only [h3]
        have hcl : (if b = true then del r ks else del l ks).2 = false := by simpa using h3
        refine ⟨Or.inr (WF.bin hl hr), fun _ => WF.bin hl hr, ?_⟩
        intro k' hk'
        cases k' with
        | nil => simp at hk'
        | cons b' ks' =>
          have hks' : ks'.length = n := by simpa using hk'
          by_cases e : b' :: ks' = b :: ks
          · simp only [e, if_true]
            cases b
            · simp only [Bool.false_eq_true, if_false] at hcl
              have e2 := del_clean hcl
              obtain ⟨_, _, a3⟩ := ihl ks hks
              have := a3 ks hks
              rw [e2] at this
              simpa [get_bin_cons] using this
            · simp only [if_true] at hcl
              have e2 := del_clean hcl
              obtain ⟨_, _, a3⟩ := ihr ks hks
              have := a3 ks hks
              rw [e2] at this
              simpa [get_bin_cons] using this
          · simp [e]

end Juno.C01
