import JunoModel.C01.ModelState
/-!
C01 — model, part 8: what the node STORES for a block — `Header.GlobalStateRoot` and the
`StateUpdate.OldRoot / NewRoot` written by `writeBlockContent` — on the two paths that add a block:
`Finalise` (sequencer; `updateStateRoots` of `blockchain/statebackend/block_ops.go`) and `Store` (sync;
`stateBackend.Store` of `statebackend.go` / `deprecated.go`). Core Lean only.

`fixed = false` is the unchanged tree, `fixed = true` the proposed repair
(`proposed-fixes/C01-old-root-at-commitment-formula-switch.diff`): `updateStateRoots` keeps the caller's
`OldRoot` and `Update` also accepts the old root under the formula of before 0.14.0.
-/
namespace Juno.C01
namespace Chain
open State

/-- what is stored for one block -/
structure Stored where
  root : HTerm     -- `Header.GlobalStateRoot`
  old : HTerm      -- `StateUpdate.OldRoot`
  new : HTerm      -- `StateUpdate.NewRoot`
deriving DecidableEq, Repr

/-- The `OldRoot` that `updateStateRoots` leaves in the state update. Unchanged tree: the caller's `OldRoot` is
overwritten with `state.Commitment(block.ProtocolVersion)` — the commitment of the OLD state under the NEW
block's version. Repaired tree: the caller's `OldRoot` is kept (recomputed only if it is nil). -/
def oldOf (fixed pre014 : Bool) (callerOld : Option HTerm) (s : St) : HTerm :=
  match fixed, callerOld with
  | true, some r => r
  | _, _ => commitment pre014 s

/-- `updateStateRoots` inside `Finalise` / `Simulate`: old root as above, then
`state.Update(header, update, classes, skipVerifyNewRoot = true)` (which verifies the old root),
`newRoot = state.Commitment(version)`, `block.GlobalStateRoot = stateUpdate.NewRoot = newRoot`. -/
def finalise (fixed purge pre014 : Bool) (callerOld : Option HTerm) (s : St) (d : Diff) : Option (St × Stored) :=
  let old := oldOf fixed pre014 callerOld s
  if oldRootOK fixed pre014 old s then
    (update purge s d).map (fun s' => (s', ⟨commitment pre014 s', old, commitment pre014 s'⟩))
  else none

/-- `Store`: the state is opened at the head's stored root and `Update(header, update, classes, false)` verifies
the claimed `OldRoot` before and the claimed `NewRoot` after applying the diff; header and state update are
stored as given. -/
def store (fixed purge pre014 : Bool) (old new : HTerm) (s : St) (d : Diff) : Option (St × Stored) :=
  if oldRootOK fixed pre014 old s then
    match update purge s d with
    | none => none
    | some s' => if commitment pre014 s' == new then some (s', ⟨new, old, new⟩) else none
  else none

/-- A chain built by `Finalise`: the caller (builder / genesis) passes the stored root of the head as `OldRoot`
(zero for the first block). Blocks carry their version flag. -/
def runFinalise (fixed purge : Bool) : List (Bool × Diff) → St × HTerm → Option (List Stored)
  | [], _ => some []
  | (pre014, d) :: rest, (s, head) =>
    match finalise fixed purge pre014 (some head) s d with
    | none => none
    | some (s', st) => (runFinalise fixed purge rest (s', st.root)).map (st :: ·)

/-- one synced block: version flag, diff, and the roots the feeder claims -/
structure SBlock where
  pre014 : Bool
  d : Diff
  old : HTerm
  new : HTerm

/-- A chain synced through `Store`. -/
def runStore (fixed purge : Bool) : List SBlock → St → Option (List Stored)
  | [], _ => some []
  | b :: rest, s =>
    match store fixed purge b.pre014 b.old b.new s b.d with
    | none => none
    | some (s', st) => (runStore fixed purge rest s').map (st :: ·)

/-- Specification side: the commitments of the abstract states after each block, each under its block's version. -/
def specRoots : AbsSt → List (Bool × Diff) → List HTerm
  | _, [] => []
  | a, (pre014, d) :: rest => absCommitment pre014 (absApply a d) :: specRoots (absApply a d) rest

/-- The `OldRoot` stored for every block is the root stored for the block before it (`head` for the first). -/
def continuous : HTerm → List Stored → Bool
  | _, [] => true
  | head, st :: rest => st.old == head && continuous st.root rest

end Chain
end Juno.C01
