import JunoModel.C01.ProofsSpec
import JunoModel.C01.ProofsState
import JunoModel.C01.ProofsHash
import JunoModel.C01.ModelStore
/-!
Helper lemmas for C01, part 8: facts that hold by construction of the models or restate a definition.
They are NOT property theorems (moved out of `Props.lean` after the review): the corresponding behaviour
of the real code is checked by the harness only (database dump before / after every dropped update).
-/
namespace Juno.C01.Misc
open Juno.C01

/-- Both sides of the protocol-version switch: before 0.14.0 an empty class trie makes the state
root the bare contract-trie root ... -/
theorem state_commitment_pre_0_14_0 (contractRoot : HTerm) (h : contractRoot ≠ .felt 0) :
    State.stateCommitment true contractRoot (.felt 0) = contractRoot := by
  simp [State.stateCommitment, h]

/-- ... from 0.14.0 on the Poseidon hash is always applied (unless both tries are empty). -/
theorem state_commitment_from_0_14_0 (contractRoot classRoot : HTerm)
    (h : contractRoot ≠ .felt 0 ∨ classRoot ≠ .felt 0) :
    State.stateCommitment false contractRoot classRoot =
      .pos3 (.felt State.stateVersion0) contractRoot classRoot := by
  simp only [State.stateCommitment]
  cases h with
  | inl h => simp [h]
  | inr h => simp [h]

/-- State layer: interleaving any dropped updates changes nothing — the resulting state (records, tries,
hence every later root) is the one of the accepted updates alone. -/
theorem state_dropped_updates_identity (purge : Bool) (ops : List State.DOp) (s : State.St) :
    State.runD purge ops s = State.run purge (State.accepted ops) s := by
  induction ops generalizing s with
  | nil => rfl
  | cons op rest ih =>
    cases op with
    | accept d =>
      simp only [State.runD, State.accepted, State.run]
      cases State.update purge s d with
      | none => rfl
      | some s' => exact ih s'
    | dropped d => simpa [State.runD, State.accepted] using ih s

theorem store_update_keeps_disk {t t' : Trie2S.T} {key : Path} {v : HTerm}
    (h : Trie2S.update t key v = some t') :
    t'.disk = t.disk ∧ t'.height = t.height ∧ t'.kind = t.kind ∧ t'.leafDeleteAbs = t.leafDeleteAbs := by
  unfold Trie2S.update at h
  simp only [Option.map_eq_some_iff] at h
  obtain ⟨x, _, rfl⟩ := h
  exact ⟨rfl, rfl, rfl, rfl⟩

/-- Trie / node-database layer: whatever is inserted, deleted and hashed on a trie2 trie, and whatever
node set its `Commit()` returns, if that node set is not applied (`applySet` is the only writer of the
database) then reopening yields exactly the trie that reopening before those operations yields — an
uncommitted node set never changes what later operations and commits read. -/
theorem store_uncommitted_changes_identity (t : Trie2S.T) (kvs : List (Path × HTerm)) (t' : Trie2S.T)
    (h : kvs.foldlM (fun t (kv : Path × HTerm) => Trie2S.update t kv.1 kv.2) t = some t') :
    Trie2S.discardReopen (Trie2S.hash t').2 = Trie2S.discardReopen t := by
  have key : t'.disk = t.disk ∧ t'.height = t.height ∧ t'.kind = t.kind ∧ t'.leafDeleteAbs = t.leafDeleteAbs := by
    induction kvs generalizing t with
    | nil => simp [List.foldlM] at h; subst h; exact ⟨rfl, rfl, rfl, rfl⟩
    | cons kv rest ih =>
      simp only [List.foldlM_cons, bind, Option.bind] at h
      cases h1 : Trie2S.update t kv.1 kv.2 with
      | none => simp [h1] at h
      | some t1 =>
        simp only [h1] at h
        obtain ⟨a, b, c, d⟩ := ih t1 h
        obtain ⟨a', b', c', d'⟩ := store_update_keeps_disk h1
        exact ⟨a.trans a', b.trans b', c.trans c', d.trans d'⟩
  obtain ⟨a, b, c, d⟩ := key
  simp [Trie2S.discardReopen, Trie2S.hash, a, b, c, d]


example : State.runD true [.dropped ⟨[], [], [], [], [], []⟩] State.St.empty = some State.St.empty := rfl

/-- **Commit + reopen, hashing part (partial).** After `Commit()` and reopening, the in-memory tree is the
canonical tree `a` with subtrees left unresolved as hash nodes (`Abstracts`); whatever part is resolved,
and with any sound caches, `Hash()` returns the commitment of `a`'s map. NOT proved (correspondence
only): that `Commit` writes exactly the nodes from which `resolveNode` rebuilds such a tree, and that
`insert`/`delete` through unresolved hash nodes commute with resolution (`trie2_commit_reopen` in full). -/
theorem trie2_commit_reopen_hash_partial (k : HashKind) (n : Nat) (a t : Node)
    (hw : WFRoot a n) (hab : Abstracts k a t) (hc : CacheOK k t) :
    (Trie2.hashRoot k t).1 = Spec.root k n (Trie2.get a) := by
  rw [hashRoot_eq, (hashNode_spec k t hc).1, rawHash_abstracts hab, rawHash_eq_spec k hw]

example : Abstracts .pedersen
    (.edge [true] (.bin (.value (.felt 1)) (.value (.felt 2)) Flags.new) Flags.new)
    (.edge [true] (.hash (.h .pedersen (.felt 1) (.felt 2))) ⟨none, false⟩) :=
  .edge (.unresolved _)

/-! Non-vacuity: concrete histories that exercise an edge split, a binary collapse into the sibling
edge, a no-op zero write and a cached hash, evaluated by the kernel. -/

example : ValidOps 3 [.put [true, false, true] (.felt 7), .hash, .put [true, false, false] (.felt 9),
    .put [false, false, false] (.felt 0), .put [true, false, true] (.felt 0)] := by
  intro op hop; simp at hop; rcases hop with h | h | h | h | h <;> subst h <;> simp

example : (Trie2.hashRoot .pedersen (Trie2.run .pedersen
    [.put [true, false, true] (.felt 7), .hash, .put [true, false, false] (.felt 9)])).1
    = .add (.h .pedersen (.h .pedersen (.felt 9) (.felt 7)) (.felt 2)) 2 := by decide

example : (Trie2.hashRoot .pedersen (Trie2.run .pedersen
    [.put [true, false, true] (.felt 7), .hash, .put [true, false, false] (.felt 9),
     .put [false, false, false] (.felt 0), .put [true, false, true] (.felt 0)])).1
    = .add (.h .pedersen (.felt 9) (.felt 4)) 3 := by decide

example : Spec.root .pedersen 3 (absRun
    [.put [true, false, true] (.felt 7), .hash, .put [true, false, false] (.felt 9)])
    = .add (.h .pedersen (.h .pedersen (.felt 9) (.felt 7)) (.felt 2)) 2 := by decide


end Juno.C01.Misc
