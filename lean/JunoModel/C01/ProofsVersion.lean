import JunoModel.C01.ModelVersion
/-!
Helper lemmas for C01, part 9: the version test of the commitment formula.
-/
namespace Juno.C01
namespace Version

theorem cmpSeg_cases (a b : Nat) :
    (a < b ∧ cmpSeg a b = -1) ∨ (a = b ∧ cmpSeg a b = 0) ∨ (b < a ∧ cmpSeg a b = 1) := by
  unfold cmpSeg
  by_cases h1 : a < b
  · left; simp [h1]
  · by_cases h2 : a > b
    · right; right; simp [h1, h2]
    · right; left
      refine ⟨by omega, by simp [h1, h2]⟩

/-- `Compare` is the lexicographic order on (major, minor, patch). -/
theorem compare_neg_iff (v o : V) :
    compare v o < 0 ↔
      v.major < o.major ∨ (v.major = o.major ∧ (v.minor < o.minor ∨ (v.minor = o.minor ∧ v.patch < o.patch))) := by
  unfold compare
  rcases cmpSeg_cases v.major o.major with ⟨h, e⟩ | ⟨h, e⟩ | ⟨h, e⟩ <;>
  rcases cmpSeg_cases v.minor o.minor with ⟨h', e'⟩ | ⟨h', e'⟩ | ⟨h', e'⟩ <;>
  rcases cmpSeg_cases v.patch o.patch with ⟨h'', e''⟩ | ⟨h'', e''⟩ | ⟨h'', e''⟩ <;>
  simp [e, e', e''] <;> omega

theorem compare_pos_iff (v o : V) : compare v o > 0 ↔ compare o v < 0 := by
  rw [compare_neg_iff]
  unfold compare
  rcases cmpSeg_cases v.major o.major with ⟨h, e⟩ | ⟨h, e⟩ | ⟨h, e⟩ <;>
  rcases cmpSeg_cases v.minor o.minor with ⟨h', e'⟩ | ⟨h', e'⟩ | ⟨h', e'⟩ <;>
  rcases cmpSeg_cases v.patch o.patch with ⟨h'', e''⟩ | ⟨h'', e''⟩ | ⟨h'', e''⟩ <;>
  simp [e, e', e''] <;> omega

/-- `ver.LessThan(0.14.0)` ⇔ major 0 and minor below 14 (the patch number never matters). -/
theorem lessThan_0_14_0 (v : V) : lessThan v v0_14_0 = true ↔ v.major = 0 ∧ v.minor < 14 := by
  unfold lessThan
  rw [decide_eq_true_iff, compare_neg_iff]
  simp only [v0_14_0]
  omega

/-- The order of versions (`w` not older than `v`: `v.Compare(w) <= 0`). -/
def le (v w : V) : Prop := compare v w ≤ 0

theorem le_iff (v w : V) : le v w ↔ ¬ compare w v < 0 := by
  unfold le
  rw [← compare_pos_iff]
  omega

/-- The formula switch happens once: if `w` is not older than `v` and `w` is still before 0.14.0, so is `v`. -/
theorem pre014_antitone {v w : V} (h : le v w) (hw : lessThan w v0_14_0 = true) : lessThan v v0_14_0 = true := by
  rw [lessThan_0_14_0] at *
  rw [le_iff, compare_neg_iff] at h
  omega

end Version

namespace State

/-- With a parsable version the string-level formula is the Bool-level one. -/
theorem stateCommitmentV_of_parse {ver : String} {b : Bool} (h : Version.pre014? ver = some b)
    (c cl : HTerm) : stateCommitmentV ver c cl = some (stateCommitment b c cl) := by
  unfold stateCommitmentV stateCommitment
  by_cases h1 : cl = .felt 0 ∧ c = .felt 0
  · simp [h1]
  · by_cases h2 : cl = .felt 0
    · have h3 : c ≠ .felt 0 := fun e => h1 ⟨h2, e⟩
      cases b <;> simp [h2, h3, h]
    · simp [h2]

/-- The code panics on an unparsable version exactly when the class trie is empty and the contract trie is not. -/
theorem stateCommitmentV_none_iff (ver : String) (c cl : HTerm) :
    stateCommitmentV ver c cl = none ↔ Version.parse ver = none ∧ cl = .felt 0 ∧ c ≠ .felt 0 := by
  unfold stateCommitmentV Version.pre014?
  by_cases h1 : cl = .felt 0 ∧ c = .felt 0
  · simp [h1]
  · by_cases h2 : cl = .felt 0
    · have h3 : c ≠ .felt 0 := fun e => h1 ⟨h2, e⟩
      cases hp : Version.parse ver with
      | none => simp [h2, h3]
      | some v => cases hl : Version.lessThan v Version.v0_14_0 <;> simp [h2, h3, hl]
    · simp [h2]

end State
end Juno.C01
