import JunoModel.C01.ProofsStateL
import JunoModel.C01.ProofsChain
import JunoModel.C01.ProofsAgree
import JunoModel.C01.ModelMigrate
import JunoModel.C01.ProofsLegacyState
/-!
Helper lemmas for C01, part 12 (round 5): the state update over contract records with a CACHED storage root and
a separate storage-trie store (`ModelMigrate.lean`) simulates the update of `ModelState.lean` (record = class,
nonce and the trie itself) whatever the cached roots hold: `stateObject.commit` recomputes the root from the trie
for every touched object before the leaf is hashed, and nothing else reads it. Hence the theorems of
`ModelState.lean` hold on a database whose records were written by the head-state migration (root zero).
-/
namespace Juno.C01
namespace StateM
open State StateL

def RelObj (a : ObjM) (b : Obj) : Prop :=
  a.crec.cls = b.crec.cls ∧ a.crec.nonce = b.crec.nonce ∧ a.dirty = b.dirty ∧ a.trie = b.crec.storage

/-- `sm` (records with cached roots + storage-trie store) represents `s` (records holding their trie): same
contract / class trie; for every address the same class hash and nonce, and the trie stored under the address;
no storage nodes under an address without a record. The cached roots `sroot` are NOT constrained. -/
structure SimM (sm : StM) (s : St) : Prop where
  ctrie : sm.ctrie = s.ctrie
  cltrie : sm.cltrie = s.cltrie
  recs : ∀ a, alookup s.recs a = (alookup sm.recs a).map (fun r => (⟨r.cls, r.nonce, sm.nodes a⟩ : Rec))
  orphan : ∀ a, alookup sm.recs a = none → sm.nodes a = .nil

theorem simM_empty : SimM StM.empty St.empty :=
  ⟨rfl, rfl, fun _ => by simp [StM.empty, St.empty, alookup], fun _ _ => rfl⟩

theorem commitment_sim {sm : StM} {s : St} (h : SimM sm s) (pre014 : Bool) :
    StateM.commitment pre014 sm = State.commitment pre014 s := by
  simp only [StateM.commitment, State.commitment, h.ctrie, h.cltrie]

theorem recs_none_iff {sm : StM} {s : St} (h : SimM sm s) (a : Path) :
    alookup s.recs a = none ↔ alookup sm.recs a = none := by
  rw [h.recs a]
  cases alookup sm.recs a <;> simp

theorem getObj_rel {sm : StM} {s : St} {ol : AList ObjM} {o : AList Obj} (hsim : SimM sm s)
    (ho : RelA RelObj ol o) (addr : Path) :
    ORel RelObj (StateM.getObj sm ol addr) (State.getObj s o addr) := by
  unfold StateM.getObj State.getObj
  have h1 := alookup_rel ho addr
  cases e1 : alookup ol addr with
  | some a =>
    cases e2 : alookup o addr with
    | some b => simp only [e1, e2, ORel] at h1 ⊢; exact h1
    | none => simp [e1, e2, ORel] at h1
  | none =>
    cases e2 : alookup o addr with
    | some b => simp [e1, e2, ORel] at h1
    | none =>
      simp only
      rw [hsim.recs addr]
      cases alookup sm.recs addr with
      | none => simp [ORel]
      | some r => simp [ORel, RelObj]

theorem deployAll_rel {sm : StM} {s : St} (hsim : SimM sm s) (l : List (Path × HTerm)) :
    ∀ (ol : AList ObjM) (o : AList Obj), RelA RelObj ol o →
      ORel (RelA RelObj) (StateM.deployAll sm l ol) (State.deployAll s l o) := by
  induction l with
  | nil => intro ol o h; simpa [StateM.deployAll, State.deployAll, ORel] using h
  | cons e rest ih =>
    intro ol o h
    obtain ⟨addr, cls⟩ := e
    simp only [StateM.deployAll, State.deployAll]
    cases e3 : alookup sm.recs addr with
    | some rl =>
      have : alookup s.recs addr ≠ none := by
        intro hn; rw [(recs_none_iff hsim addr).mp hn] at e3; cases e3
      cases e4 : alookup s.recs addr with
      | some r => simp [ORel]
      | none => exact absurd e4 this
    | none =>
      have e4 : alookup s.recs addr = none := (recs_none_iff hsim addr).mpr e3
      simp only [e4]
      exact ih _ _ (.cons ⟨rfl, rfl, rfl, hsim.orphan addr e3⟩ h)

theorem replaceAll_rel {sm : StM} {s : St} (hsim : SimM sm s) (l : List (Path × HTerm)) :
    ∀ (ol : AList ObjM) (o : AList Obj), RelA RelObj ol o →
      ORel (RelA RelObj) (StateM.replaceAll sm l ol) (State.replaceAll s l o) := by
  induction l with
  | nil => intro ol o h; simpa [StateM.replaceAll, State.replaceAll, ORel] using h
  | cons e rest ih =>
    intro ol o h
    obtain ⟨addr, cls⟩ := e
    simp only [StateM.replaceAll, State.replaceAll]
    have hg := getObj_rel hsim h addr
    cases e1 : StateM.getObj sm ol addr with
    | none =>
      cases e2 : State.getObj s o addr with
      | none => simp [ORel]
      | some b => simp [e1, e2, ORel] at hg
    | some a =>
      cases e2 : State.getObj s o addr with
      | none => simp [e1, e2, ORel] at hg
      | some b =>
        simp only [e1, e2, ORel] at hg
        simp only
        exact ih _ _ (.cons ⟨rfl, hg.2.1, hg.2.2.1, hg.2.2.2⟩ h)

theorem nonceAll_rel {sm : StM} {s : St} (hsim : SimM sm s) (l : List (Path × HTerm)) :
    ∀ (ol : AList ObjM) (o : AList Obj), RelA RelObj ol o →
      ORel (RelA RelObj) (StateM.nonceAll sm l ol) (State.nonceAll s l o) := by
  induction l with
  | nil => intro ol o h; simpa [StateM.nonceAll, State.nonceAll, ORel] using h
  | cons e rest ih =>
    intro ol o h
    obtain ⟨addr, n⟩ := e
    simp only [StateM.nonceAll, State.nonceAll]
    have hg := getObj_rel hsim h addr
    cases e1 : StateM.getObj sm ol addr with
    | none =>
      cases e2 : State.getObj s o addr with
      | none => simp [ORel]
      | some b => simp [e1, e2, ORel] at hg
    | some a =>
      cases e2 : State.getObj s o addr with
      | none => simp [e1, e2, ORel] at hg
      | some b =>
        simp only [e1, e2, ORel] at hg
        simp only
        exact ih _ _ (.cons ⟨hg.1, rfl, hg.2.2.1, hg.2.2.2⟩ h)

theorem storageAll_rel {sm : StM} {s : St} (hsim : SimM sm s) (l : List (Path × List (Path × HTerm))) :
    ∀ (ol : AList ObjM) (o : AList Obj), RelA RelObj ol o →
      ORel (RelA RelObj) (StateM.storageAll sm l ol) (State.storageAll s l o) := by
  induction l with
  | nil => intro ol o h; simpa [StateM.storageAll, State.storageAll, ORel] using h
  | cons e rest ih =>
    intro ol o h
    obtain ⟨addr, kvs⟩ := e
    simp only [StateM.storageAll, State.storageAll]
    have hg := getObj_rel hsim h addr
    cases e1 : StateM.getObj sm ol addr with
    | none =>
      cases e2 : State.getObj s o addr with
      | none =>
        simp only
        by_cases hsys : isSystem addr = true
        · simp only [hsys, if_true]
          -- no object and no record: nothing is stored under the address
          have hrec : alookup sm.recs addr = none := by
            unfold StateM.getObj at e1
            cases e3 : alookup ol addr with
            | some _ => simp [e3] at e1
            | none =>
              simp only [e3] at e1
              cases e4 : alookup sm.recs addr with
              | none => rfl
              | some _ => simp [e4] at e1
          exact ih _ _ (.cons ⟨rfl, rfl, rfl, hsim.orphan addr hrec⟩ h)
        · simp [hsys, ORel]
      | some b => simp [e1, e2, ORel] at hg
    | some a =>
      cases e2 : State.getObj s o addr with
      | none => simp [e1, e2, ORel] at hg
      | some b =>
        simp only [e1, e2, ORel] at hg
        simp only
        exact ih _ _ (.cons ⟨hg.1, hg.2.1, rfl, hg.2.2.2⟩ h)

theorem touched_rel {ol : AList ObjM} {o : AList Obj} (h : RelA RelObj ol o) :
    RelA RelObj (StateM.touched ol) (State.touched o) := by
  have key : ∀ (xl : AList ObjM) (x : AList Obj), RelA RelObj xl x →
      RelA RelObj
        (xl.foldr (fun (e : Path × ObjM) acc => if (alookup acc e.1).isSome then acc else e :: acc) [])
        (x.foldr (fun (e : Path × Obj) acc => if (alookup acc e.1).isSome then acc else e :: acc) []) := by
    intro xl x hx
    induction hx with
    | nil => exact .nil
    | @cons k a b l l' hab _ ih =>
      simp only [List.foldr_cons]
      have hl := alookup_rel ih k
      generalize List.foldr (fun (e : Path × ObjM) acc => if (alookup acc e.1).isSome then acc else e :: acc) [] l = accL at *
      generalize List.foldr (fun (e : Path × Obj) acc => if (alookup acc e.1).isSome then acc else e :: acc) [] l' = acc at *
      cases e1 : alookup accL k with
      | none =>
        cases e2 : alookup acc k with
        | none => simp only [Option.isSome_none, Bool.false_eq_true, if_false]; exact .cons hab ih
        | some _ => simp [e1, e2, ORel] at hl
      | some _ =>
        cases e2 : alookup acc k with
        | none => simp [e1, e2, ORel] at hl
        | some _ => simp only [Option.isSome_some, if_true]; exact ih
  have mapk : ∀ (xl : AList ObjM) (x : AList Obj), RelA RelObj xl x →
      RelA RelObj (xl.map (fun e => (e.1, (alookup ol e.1).getD e.2)))
        (x.map (fun e => (e.1, (alookup o e.1).getD e.2))) := by
    intro xl x hx
    induction hx with
    | nil => exact .nil
    | @cons k a b l l' hab _ ih =>
      simp only [List.map_cons]
      refine .cons ?_ ih
      have hl := alookup_rel h k
      cases e1 : alookup ol k with
      | none =>
        cases e2 : alookup o k with
        | none => simpa using hab
        | some _ => simp [e1, e2, ORel] at hl
      | some a' =>
        cases e2 : alookup o k with
        | none => simp [e1, e2, ORel] at hl
        | some b' => simp only [e1, e2, ORel] at hl; simpa using hl
  exact mapk _ _ (key _ _ h)

/-- `stateObject.commit`: the record gets the root of the trie it has just committed — the old cached root is
overwritten without having been read -/
theorem commitObj_rel {a : ObjM} {b : Obj} (h : RelObj a b) :
    (StateM.commitObj a).1.cls = (State.commitObj b).1.cls ∧
    (StateM.commitObj a).1.nonce = (State.commitObj b).1.nonce ∧
    (StateM.commitObj a).1.sroot = (State.commitObj b).2 ∧
    (StateM.commitObj a).2.1 = (State.commitObj b).1.storage ∧
    (StateM.commitObj a).2.2 = (State.commitObj b).2 := by
  obtain ⟨h1, h2, h3, h4⟩ := h
  simp only [StateM.commitObj, State.commitObj, h1, h2, h3, h4, and_self]

theorem setAt_same {α : Type} (m : Path → α) (k : Path) (v : α) : setAt m k v k = v := by simp [setAt]

theorem setAt_other {α : Type} (m : Path → α) (k p : Path) (v : α) (h : p ≠ k) : setAt m k v p = m p := by
  simp [setAt, h]

theorem commitObjs_rel (purge : Bool) {ol : AList ObjM} {o : AList Obj} (h : RelA RelObj ol o) :
    ∀ (sm : StM) (s : St), SimM sm s → SimM (StateM.commitObjs purge ol sm) (State.commitObjs purge o s) := by
  induction h with
  | nil => intro sm s hs; exact hs
  | @cons k a b l l' hab _ ih =>
    intro sm s hs
    obtain ⟨c1, c2, c3, c4, c5⟩ := commitObj_rel hab
    simp only [StateM.commitObjs, State.commitObjs]
    have hleaf : recLeaf (StateM.commitObj a).1 =
        contractLeaf (State.commitObj b).1.cls (State.commitObj b).2 (State.commitObj b).1.nonce := by
      simp only [recLeaf, c1, c2, c3]
    rw [c5, hleaf]
    split
    · apply ih
      refine ⟨?_, hs.cltrie, ?_, ?_⟩
      · simp only [hs.ctrie]
      · intro p
        simp only [alookup_filter_ne]
        by_cases hp : p = k
        · simp [hp]
        · simp only [hp, if_false, setAt_other _ _ _ _ hp]
          exact hs.recs p
      · intro p hp
        by_cases hpk : p = k
        · subst hpk; exact setAt_same _ _ _
        · simp only [setAt_other _ _ _ _ hpk]
          apply hs.orphan
          simpa [alookup_filter_ne, hpk] using hp
    · apply ih
      refine ⟨?_, hs.cltrie, ?_, ?_⟩
      · simp only [hs.ctrie]
      · intro p
        by_cases hp : p = k
        · subst hp
          simp only [alookup, if_true, Option.map, setAt_same, c4]
          have : (State.commitObj b).1 =
              ⟨(State.commitObj b).1.cls, (State.commitObj b).1.nonce, (State.commitObj b).1.storage⟩ := rfl
          rw [this, c1, c2]
        · have hk : ¬ k = p := fun e => hp e.symm
          simp only [alookup, hk, if_false, setAt_other _ _ _ _ hp]
          exact hs.recs p
      · intro p hp
        by_cases hpk : p = k
        · subst hpk; simp [alookup] at hp
        · have hk : ¬ k = p := fun e => hpk e.symm
          simp only [alookup, hk, if_false] at hp
          simp only [setAt_other _ _ _ _ hpk]
          exact hs.orphan p hp

/-- one block: same acceptance, related results — for ANY content of the cached roots -/
theorem update_sim {purge : Bool} {sm : StM} {s : St} (d : Diff) (hsim : SimM sm s) :
    ORel SimM (StateM.update purge sm d) (State.update purge s d) := by
  simp only [StateM.update, State.update, bind, Option.bind, pure]
  have r1 := deployAll_rel hsim d.deployed [] [] .nil
  cases e1 : StateM.deployAll sm d.deployed [] with
  | none =>
    cases f1 : State.deployAll s d.deployed [] with
    | none => simp [ORel]
    | some _ => simp [e1, f1, ORel] at r1
  | some ol1 =>
    cases f1 : State.deployAll s d.deployed [] with
    | none => simp [e1, f1, ORel] at r1
    | some o1 =>
      simp only [e1, f1, ORel] at r1
      simp only
      have r2 := replaceAll_rel hsim d.replaced _ _ r1
      cases e2 : StateM.replaceAll sm d.replaced ol1 with
      | none =>
        cases f2 : State.replaceAll s d.replaced o1 with
        | none => simp [ORel]
        | some _ => simp [e2, f2, ORel] at r2
      | some ol2 =>
        cases f2 : State.replaceAll s d.replaced o1 with
        | none => simp [e2, f2, ORel] at r2
        | some o2 =>
          simp only [e2, f2, ORel] at r2
          simp only
          have r3 := nonceAll_rel hsim d.nonces _ _ r2
          cases e3 : StateM.nonceAll sm d.nonces ol2 with
          | none =>
            cases f3 : State.nonceAll s d.nonces o2 with
            | none => simp [ORel]
            | some _ => simp [e3, f3, ORel] at r3
          | some ol3 =>
            cases f3 : State.nonceAll s d.nonces o2 with
            | none => simp [e3, f3, ORel] at r3
            | some o3 =>
              simp only [e3, f3, ORel] at r3
              simp only
              have r4 := storageAll_rel hsim d.storage _ _ r3
              cases e4 : StateM.storageAll sm d.storage ol3 with
              | none =>
                cases f4 : State.storageAll s d.storage o3 with
                | none => simp [ORel]
                | some _ => simp [e4, f4, ORel] at r4
              | some ol4 =>
                cases f4 : State.storageAll s d.storage o3 with
                | none => simp [e4, f4, ORel] at r4
                | some o4 =>
                  simp only [e4, f4, ORel] at r4
                  simp only [ORel]
                  apply commitObjs_rel purge (touched_rel r4)
                  exact ⟨hsim.ctrie, by simp only [hsim.cltrie], hsim.recs, hsim.orphan⟩

theorem run_sim (purge : Bool) (ds : List Diff) :
    ∀ (sm : StM) (s : St), SimM sm s → ORel SimM (StateM.run purge ds sm) (State.run purge ds s) := by
  induction ds with
  | nil => intro sm s h; simpa [StateM.run, State.run, ORel] using h
  | cons d rest ih =>
    intro sm s hsim
    simp only [StateM.run, State.run]
    have h1 := update_sim (purge := purge) d hsim
    cases e1 : StateM.update purge sm d with
    | none =>
      cases f1 : State.update purge s d with
      | none => simp [ORel]
      | some _ => simp [e1, f1, ORel] at h1
    | some sm1 =>
      cases f1 : State.update purge s d with
      | none => simp [e1, f1, ORel] at h1
      | some s1 =>
        simp only [e1, f1, ORel] at h1
        simp only [Option.bind]
        exact ih _ _ h1

/-- same acceptance and same root as the model whose records hold their trie, from any pair of related states -/
theorem run_commitment_eq (purge pre014 : Bool) (ds : List Diff) (sm : StM) (s : St) (h : SimM sm s) :
    (StateM.run purge ds sm).map (StateM.commitment pre014) =
      (State.run purge ds s).map (State.commitment pre014) := by
  have hr := run_sim purge ds sm s h
  cases e1 : StateM.run purge ds sm with
  | none =>
    cases f1 : State.run purge ds s with
    | none => rfl
    | some _ => simp [e1, f1, ORel] at hr
  | some sm' =>
    cases f1 : State.run purge ds s with
    | none => simp [e1, f1, ORel] at hr
    | some s' =>
      simp only [e1, f1, ORel] at hr
      simp [commitment_sim hr]


/-! ### `stateObject.commit` backfills the cached root of every touched contract -/

theorem commitObjs_recs (purge : Bool) (objs : AList ObjM) (hnd : (objs.map (·.1)).Nodup) :
    ∀ (sm : StM) (p : Path),
      alookup (StateM.commitObjs purge objs sm).recs p =
        (match alookup objs p with
        | some o => if purge && isSystem p && (StateM.commitObj o).2.2 == .felt 0 then none
            else some (StateM.commitObj o).1
        | none => alookup sm.recs p) ∧
      (StateM.commitObjs purge objs sm).nodes p =
        (match alookup objs p with
        | some o => if purge && isSystem p && (StateM.commitObj o).2.2 == .felt 0 then .nil
            else (StateM.commitObj o).2.1
        | none => sm.nodes p) := by
  induction objs with
  | nil => intro sm p; exact ⟨rfl, rfl⟩
  | cons e rest ih =>
    intro sm p
    obtain ⟨addr, o⟩ := e
    simp only [List.map_cons, List.nodup_cons] at hnd
    have hrest : addr = p → alookup rest p = none := by
      intro h; subst h; exact alookup_none_of_not_mem _ _ hnd.1
    simp only [StateM.commitObjs]
    split
    · rename_i hc
      obtain ⟨i1, i2⟩ := ih hnd.2 { sm with
          ctrie := Trie2.update (Trie2.update sm.ctrie addr (recLeaf (StateM.commitObj o).1)) addr (.felt 0),
          recs := sm.recs.filter (fun e => e.1 != addr), nodes := setAt sm.nodes addr .nil } p
      rw [i1, i2]
      simp only [alookup]
      by_cases hap : addr = p
      · subst hap
        simp only [hrest rfl, if_true, alookup_filter_ne, setAt_same]
        simp [hc]
      · have hpa : ¬ p = addr := fun h => hap h.symm
        simp only [hap, if_false]
        cases alookup rest p with
        | some _ => simp
        | none => simp [alookup_filter_ne, hpa, setAt_other _ _ _ _ hpa]
    · rename_i hc
      obtain ⟨i1, i2⟩ := ih hnd.2 { sm with
          ctrie := Trie2.update sm.ctrie addr (recLeaf (StateM.commitObj o).1),
          recs := (addr, (StateM.commitObj o).1) :: sm.recs, nodes := setAt sm.nodes addr (StateM.commitObj o).2.1 } p
      rw [i1, i2]
      simp only [alookup]
      by_cases hap : addr = p
      · subst hap
        simp only [hrest rfl, if_true, setAt_same]
        simp [hc]
      · have hpa : ¬ p = addr := fun h => hap h.symm
        simp only [hap, if_false]
        cases alookup rest p with
        | some _ => simp
        | none => simp [setAt_other _ _ _ _ hpa]

theorem commitObjs_at (purge : Bool) (objs : AList ObjM) (hnd : (objs.map (·.1)).Nodup) (sm0 sm sm' : StM) (p : Path)
    (h : StateM.commitObjs purge objs sm0 = sm') (hr : sm0.recs = sm.recs) (hn : sm0.nodes = sm.nodes) :
      alookup sm'.recs p =
        (match alookup objs p with
        | some o => if purge && isSystem p && (StateM.commitObj o).2.2 == .felt 0 then none
            else some (StateM.commitObj o).1
        | none => alookup sm.recs p) ∧
      sm'.nodes p =
        (match alookup objs p with
        | some o => if purge && isSystem p && (StateM.commitObj o).2.2 == .felt 0 then .nil
            else (StateM.commitObj o).2.1
        | none => sm.nodes p) := by
  have hc := commitObjs_recs purge objs hnd sm0 p
  rw [h, hr, hn] at hc
  exact hc

/-- the addresses a diff touches: the keys of `stateObjects` -/
def TouchedBy (d : Diff) (a : Path) : Prop :=
  a ∈ d.deployed.map (·.1) ∨ a ∈ d.replaced.map (·.1) ∨ a ∈ d.nonces.map (·.1) ∨ a ∈ d.storage.map (·.1)

theorem deployAll_keys (sm : StM) (l : List (Path × HTerm)) : ∀ (objs objs' : AList ObjM),
    StateM.deployAll sm l objs = some objs' →
    ∀ p, (alookup objs' p).isSome = true ↔ ((alookup objs p).isSome = true ∨ p ∈ l.map (·.1)) := by
  induction l with
  | nil => intro objs objs' h p; simp only [StateM.deployAll, Option.some.injEq] at h; subst h; simp
  | cons e rest ih =>
    intro objs objs' h p
    obtain ⟨addr, cls⟩ := e
    simp only [StateM.deployAll] at h
    cases e3 : alookup sm.recs addr with
    | some _ => simp [e3] at h
    | none =>
      simp only [e3] at h
      rw [ih _ _ h p]
      simp only [alookup, List.map_cons, List.mem_cons]
      by_cases hap : addr = p
      · subst hap; simp
      · have : ¬ p = addr := fun h => hap h.symm
        simp [hap, this]

theorem replaceAll_keys (sm : StM) (l : List (Path × HTerm)) : ∀ (objs objs' : AList ObjM),
    StateM.replaceAll sm l objs = some objs' →
    ∀ p, (alookup objs' p).isSome = true ↔ ((alookup objs p).isSome = true ∨ p ∈ l.map (·.1)) := by
  induction l with
  | nil => intro objs objs' h p; simp only [StateM.replaceAll, Option.some.injEq] at h; subst h; simp
  | cons e rest ih =>
    intro objs objs' h p
    obtain ⟨addr, cls⟩ := e
    simp only [StateM.replaceAll] at h
    cases e3 : StateM.getObj sm objs addr with
    | none => simp [e3] at h
    | some o =>
      simp only [e3] at h
      rw [ih _ _ h p]
      simp only [alookup, List.map_cons, List.mem_cons]
      by_cases hap : addr = p
      · subst hap; simp
      · have : ¬ p = addr := fun h => hap h.symm
        simp [hap, this]

theorem nonceAll_keys (sm : StM) (l : List (Path × HTerm)) : ∀ (objs objs' : AList ObjM),
    StateM.nonceAll sm l objs = some objs' →
    ∀ p, (alookup objs' p).isSome = true ↔ ((alookup objs p).isSome = true ∨ p ∈ l.map (·.1)) := by
  induction l with
  | nil => intro objs objs' h p; simp only [StateM.nonceAll, Option.some.injEq] at h; subst h; simp
  | cons e rest ih =>
    intro objs objs' h p
    obtain ⟨addr, n⟩ := e
    simp only [StateM.nonceAll] at h
    cases e3 : StateM.getObj sm objs addr with
    | none => simp [e3] at h
    | some o =>
      simp only [e3] at h
      rw [ih _ _ h p]
      simp only [alookup, List.map_cons, List.mem_cons]
      by_cases hap : addr = p
      · subst hap; simp
      · have : ¬ p = addr := fun h => hap h.symm
        simp [hap, this]

theorem storageAll_keys (sm : StM) (l : List (Path × List (Path × HTerm))) : ∀ (objs objs' : AList ObjM),
    StateM.storageAll sm l objs = some objs' →
    ∀ p, (alookup objs' p).isSome = true ↔ ((alookup objs p).isSome = true ∨ p ∈ l.map (·.1)) := by
  induction l with
  | nil => intro objs objs' h p; simp only [StateM.storageAll, Option.some.injEq] at h; subst h; simp
  | cons e rest ih =>
    intro objs objs' h p
    obtain ⟨addr, kvs⟩ := e
    simp only [StateM.storageAll] at h
    have fin : ∀ (x : ObjM), StateM.storageAll sm rest ((addr, x) :: objs) = some objs' →
        ((alookup objs' p).isSome = true ↔ ((alookup objs p).isSome = true ∨ p ∈ ((addr, kvs) :: rest).map (·.1))) := by
      intro x hx
      rw [ih _ _ hx p]
      simp only [alookup, List.map_cons, List.mem_cons]
      by_cases hap : addr = p
      · subst hap; simp
      · have : ¬ p = addr := fun h => hap h.symm
        simp [hap, this]
    cases e3 : StateM.getObj sm objs addr with
    | some o => simp only [e3] at h; exact fin _ h
    | none =>
      simp only [e3] at h
      by_cases hsys : isSystem addr = true
      · simp only [hsys, if_true] at h; exact fin _ h
      · simp [hsys] at h

theorem touchedM_spec (objs : AList ObjM) :
    ((StateM.touched objs).map (·.1)).Nodup ∧ ∀ p, alookup (StateM.touched objs) p = alookup objs p := by
  -- `touched` = dedup (first occurrence from the right) followed by a lookup of the newest binding
  have dd : ∀ (l : AList ObjM),
      ((l.foldr (fun (e : Path × ObjM) acc => if (alookup acc e.1).isSome then acc else e :: acc) []).map (·.1)).Nodup ∧
      ∀ p, (alookup (l.foldr (fun (e : Path × ObjM) acc => if (alookup acc e.1).isSome then acc else e :: acc) []) p).isSome
        = (alookup l p).isSome := by
    intro l
    induction l with
    | nil => exact ⟨by simp, fun _ => rfl⟩
    | cons e rest ih =>
      simp only [List.foldr_cons]
      generalize List.foldr (fun (e : Path × ObjM) acc => if (alookup acc e.1).isSome then acc else e :: acc) [] rest = acc at ih ⊢
      by_cases hacc : (alookup acc e.1).isSome = true
      · simp only [hacc, if_true]
        refine ⟨ih.1, fun p => ?_⟩
        simp only [alookup]
        by_cases hep : e.1 = p
        · subst hep; simp [hacc]
        · simp [hep, ih.2 p]
      · simp only [hacc, Bool.false_eq_true, if_false]
        refine ⟨?_, fun p => ?_⟩
        · simp only [List.map_cons, List.nodup_cons]
          refine ⟨?_, ih.1⟩
          intro hmem
          obtain ⟨x, hx, hx1⟩ := List.mem_map.mp hmem
          have := alookup_ne_none_of_mem e.1 acc ⟨x, hx, hx1⟩
          cases hh : alookup acc e.1 with
          | none => exact this hh
          | some _ => simp [hh] at hacc
        · simp only [alookup]
          by_cases hep : e.1 = p
          · simp [hep]
          · simp [hep, ih.2 p]
  obtain ⟨nd, lk⟩ := dd objs
  refine ⟨?_, fun p => ?_⟩
  · simp only [StateM.touched, List.map_map]
    have : ((fun (x : Path × ObjM) => x.1) ∘ fun (e : Path × ObjM) => (e.1, (alookup objs e.1).getD e.2)) = (·.1) := by
      funext e; rfl
    rw [this]; exact nd
  · simp only [StateM.touched]
    rw [alookup_map_snd _ (fun k (o : ObjM) => (alookup objs k).getD o) p]
    have h2 := lk p
    cases h3 : alookup objs p with
    | none =>
      rw [h3] at h2
      cases h4 : alookup (objs.foldr (fun (e : Path × ObjM) acc => if (alookup acc e.1).isSome then acc else e :: acc) []) p with
      | none => rfl
      | some _ => rw [h4] at h2; cases h2
    | some o =>
      rw [h3] at h2
      cases h4 : alookup (objs.foldr (fun (e : Path × ObjM) acc => if (alookup acc e.1).isSome then acc else e :: acc) []) p with
      | none => rw [h4] at h2; cases h2
      | some _ => simp

/-- **One block on records with arbitrary cached roots.** After `Update`, every contract the diff touches (and that
still has a record) carries the commitment of the storage map its trie holds as cached root — whatever the record
held before —, and every other record and storage trie is as it was. -/
theorem update_backfills {purge : Bool} {sm sm' : StM} {s : St} {d : Diff} (hs : SWF s) (hsim : SimM sm s)
    (hd : ValidDiff d) (hu : StateM.update purge sm d = some sm') (a : Path) :
    (TouchedBy d a → ∀ r, alookup sm'.recs a = some r →
        r.sroot = Spec.root .pedersen 251 (Trie2.get (sm'.nodes a))) ∧
    (¬ TouchedBy d a → alookup sm'.recs a = alookup sm.recs a ∧ sm'.nodes a = sm.nodes a) := by
  simp only [StateM.update, bind, Option.bind, pure] at hu
  cases e1 : StateM.deployAll sm d.deployed [] with
  | none => simp [e1] at hu
  | some ol1 =>
    simp only [e1] at hu
    cases e2 : StateM.replaceAll sm d.replaced ol1 with
    | none => simp [e2] at hu
    | some ol2 =>
      simp only [e2] at hu
      cases e3 : StateM.nonceAll sm d.nonces ol2 with
      | none => simp [e3] at hu
      | some ol3 =>
        simp only [e3] at hu
        cases e4 : StateM.storageAll sm d.storage ol3 with
        | none => simp [e4] at hu
        | some ol4 =>
          simp only [e4, Option.some.injEq] at hu
          -- the State side of the same phases: related objects, good tries
          have r1 := deployAll_rel hsim d.deployed [] [] .nil
          rw [e1] at r1
          cases f1 : State.deployAll s d.deployed [] with
          | none => simp [f1, ORel] at r1
          | some o1 =>
            simp only [f1, ORel] at r1
            have r2 := replaceAll_rel hsim d.replaced _ _ r1
            rw [e2] at r2
            cases f2 : State.replaceAll s d.replaced o1 with
            | none => simp [f2, ORel] at r2
            | some o2 =>
              simp only [f2, ORel] at r2
              have r3 := nonceAll_rel hsim d.nonces _ _ r2
              rw [e3] at r3
              cases f3 : State.nonceAll s d.nonces o2 with
              | none => simp [f3, ORel] at r3
              | some o3 =>
                simp only [f3, ORel] at r3
                have r4 := storageAll_rel hsim d.storage _ _ r3
                rw [e4] at r4
                cases f4 : State.storageAll s d.storage o3 with
                | none => simp [f4, ORel] at r4
                | some o4 =>
                  simp only [f4, ORel] at r4
                  have g1 := deployAll_good (s := s) d.deployed (fun e he => (hd.deployed e he).1) [] o1
                    (by intro e he; simp at he) f1
                  have g2 := replaceAll_good hs d.replaced (fun e he => (hd.replaced e he).1) o1 o2 g1 f2
                  have g3 := nonceAll_good hs d.nonces (fun e he => (hd.nonces e he).1) o2 o3 g2 f3
                  have g4 := storageAll_good hs d.storage hd.storage o3 o4 g3 f4
                  have gt := touched_good g4
                  have rt := touched_rel r4
                  obtain ⟨tnd, tlk⟩ := touchedM_spec ol4
                  have hc := commitObjs_at purge (StateM.touched ol4) tnd _ sm sm' a hu rfl rfl
                  -- which addresses are in the object list
                  have hkeys : (alookup ol4 a).isSome = true ↔ TouchedBy d a := by
                    rw [storageAll_keys sm d.storage _ _ e4 a, nonceAll_keys sm d.nonces _ _ e3 a,
                      replaceAll_keys sm d.replaced _ _ e2 a, deployAll_keys sm d.deployed _ _ e1 a]
                    simp only [alookup, Option.isSome_none, Bool.false_eq_true, false_or, TouchedBy]
                    constructor
                    · rintro (((h | h) | h) | h)
                      · exact Or.inl h
                      · exact Or.inr (Or.inl h)
                      · exact Or.inr (Or.inr (Or.inl h))
                      · exact Or.inr (Or.inr (Or.inr h))
                    · rintro (h | h | h | h)
                      · exact Or.inl (Or.inl (Or.inl h))
                      · exact Or.inl (Or.inl (Or.inr h))
                      · exact Or.inl (Or.inr h)
                      · exact Or.inr h
                  refine ⟨?_, ?_⟩
                  · intro ht r hr
                    have hsome := hkeys.mpr ht
                    rw [← tlk a] at hsome
                    cases eo : alookup (StateM.touched ol4) a with
                    | none => simp [eo] at hsome
                    | some om =>
                      have hrel := alookup_rel rt a
                      rw [eo] at hrel
                      cases fo : alookup (State.touched o4) a with
                      | none => simp [fo, ORel] at hrel
                      | some b =>
                        simp only [fo, ORel] at hrel
                        have hb := gt _ (alookup_mem fo)
                        obtain ⟨c1, c2, c3, c4, c5⟩ := commitObj_rel hrel
                        obtain ⟨_, s2, _, _⟩ := commitObj_spec b hb.2.1 hb.2.2
                        simp only [eo] at hc
                        obtain ⟨hc1, hc2⟩ := hc
                        rw [hr] at hc1
                        split at hc1
                        · cases hc1
                        · rename_i hnp
                          simp only [Option.some.injEq] at hc1
                          rw [hc2, if_neg hnp, hc1, c3, c4, s2]
                  · intro hnt
                    have hnone : alookup (StateM.touched ol4) a = none := by
                      rw [tlk a]
                      cases eo : alookup ol4 a with
                      | none => rfl
                      | some _ => exact absurd (hkeys.mp (by simp [eo])) hnt
                    simp only [hnone] at hc
                    exact hc

/-! ### whole histories -/

open Chain in
theorem stateOK_run (ds : List Diff) (hd : ∀ d ∈ ds, ValidDiff d) :
    ∀ (s s' : St) (a : AbsSt), StateOK s a → State.run true ds s = some s' → StateOK s' (ds.foldl absApply a) := by
  induction ds with
  | nil => intro s s' a h hr; simp only [State.run, Option.some.injEq] at hr; subst hr; exact h
  | cons d rest ih =>
    intro s s' a h hr
    simp only [State.run] at hr
    cases e : State.update true s d with
    | none => simp [e] at hr
    | some s1 =>
      simp only [e, Option.bind] at hr
      exact ih (fun d hd' => hd d (List.mem_cons_of_mem _ hd')) _ _ _
        (stateOK_update h (hd d (List.mem_cons_self ..)) e) hr

/-- every record's cached root is zero or the commitment of the storage map held under its address -/
def ZeroOrExact (sm : StM) : Prop :=
  ∀ a r, alookup sm.recs a = some r →
    r.sroot = .felt 0 ∨ r.sroot = Spec.root .pedersen 251 (Trie2.get (sm.nodes a))

/-- every record's cached root is the commitment of the storage map held under its address -/
def Exact (sm : StM) : Prop :=
  ∀ a r, alookup sm.recs a = some r → r.sroot = Spec.root .pedersen 251 (Trie2.get (sm.nodes a))

theorem update_zeroOrExact {sm sm' : StM} {s : St} {d : Diff} (hs : SWF s) (hsim : SimM sm s) (hd : ValidDiff d)
    (hu : StateM.update true sm d = some sm') (h : ZeroOrExact sm) : ZeroOrExact sm' := by
  intro a r hr
  by_cases ht : TouchedBy d a
  · exact Or.inr ((update_backfills hs hsim hd hu a).1 ht r hr)
  · obtain ⟨h1, h2⟩ := (update_backfills hs hsim hd hu a).2 ht
    rw [h1] at hr
    rw [h2]
    exact h a r hr

theorem update_exact {sm sm' : StM} {s : St} {d : Diff} (hs : SWF s) (hsim : SimM sm s) (hd : ValidDiff d)
    (hu : StateM.update true sm d = some sm') (h : Exact sm) : Exact sm' := by
  intro a r hr
  by_cases ht : TouchedBy d a
  · exact (update_backfills hs hsim hd hu a).1 ht r hr
  · obtain ⟨h1, h2⟩ := (update_backfills hs hsim hd hu a).2 ht
    rw [h1] at hr
    rw [h2]
    exact h a r hr

open Chain in
/-- along a run: the related `St` run exists, stays `StateOK`, and an invariant of the cached roots that every
block preserves is preserved -/
theorem run_inv (P : StM → Prop)
    (hP : ∀ {sm sm' : StM} {s : St} {d : Diff}, SWF s → SimM sm s → ValidDiff d →
      StateM.update true sm d = some sm' → P sm → P sm')
    (ds : List Diff) (hd : ∀ d ∈ ds, ValidDiff d) :
    ∀ (sm sm' : StM) (s : St) (a : AbsSt), StateOK s a → SimM sm s → P sm →
      StateM.run true ds sm = some sm' →
      ∃ s', State.run true ds s = some s' ∧ SimM sm' s' ∧ StateOK s' (ds.foldl absApply a) ∧ P sm' := by
  induction ds with
  | nil =>
    intro sm sm' s a hok hsim hp hr
    simp only [StateM.run, Option.some.injEq] at hr; subst hr
    exact ⟨s, rfl, hsim, hok, hp⟩
  | cons d rest ih =>
    intro sm sm' s a hok hsim hp hr
    simp only [StateM.run] at hr
    have hdv := hd d (List.mem_cons_self ..)
    have h1 := update_sim (purge := true) d hsim
    cases e1 : StateM.update true sm d with
    | none => simp [e1] at hr
    | some sm1 =>
      cases f1 : State.update true s d with
      | none => simp [e1, f1, ORel] at h1
      | some s1 =>
        simp only [e1, f1, ORel] at h1
        simp only [e1, Option.bind] at hr
        obtain ⟨s', hs', r⟩ := ih (fun d hd' => hd d (List.mem_cons_of_mem _ hd')) sm1 sm' s1 _
          (stateOK_update hok hdv f1) h1 (hP hok.swf hsim hdv e1 hp) hr
        exact ⟨s', by simp only [State.run, f1, Option.bind]; exact hs', r⟩

/-! ### arbitrary corruption of the cached roots -/

/-- overwrite the cached storage root of every record by an arbitrary function of address and record -/
def restale (f : Path → RecM → HTerm) (sm : StM) : StM :=
  { sm with recs := sm.recs.map (fun e => (e.1, { e.2 with sroot := f e.1 e.2 })) }

theorem simM_restale {sm : StM} {s : St} (h : SimM sm s) (f : Path → RecM → HTerm) : SimM (restale f sm) s := by
  refine ⟨h.ctrie, h.cltrie, ?_, ?_⟩
  · intro a
    have := alookup_map_snd sm.recs (fun p (r : RecM) => ({ r with sroot := f p r } : RecM)) a
    simp only [restale]
    rw [this, h.recs a]
    cases alookup sm.recs a <;> simp
  · intro a ha
    have := alookup_map_snd sm.recs (fun p (r : RecM) => ({ r with sroot := f p r } : RecM)) a
    simp only [restale] at ha ⊢
    rw [this] at ha
    apply h.orphan
    cases e : alookup sm.recs a with
    | none => rfl
    | some _ => simp [e] at ha

/-- the state of `ModelState.lean` that a two-store state represents -/
def view (sm : StM) : St :=
  ⟨sm.recs.map (fun e => (e.1, (⟨e.2.cls, e.2.nonce, sm.nodes e.1⟩ : Rec))), sm.ctrie, sm.cltrie⟩

theorem simM_view {sm : StM} (ho : ∀ a, alookup sm.recs a = none → sm.nodes a = .nil) : SimM sm (view sm) :=
  ⟨rfl, rfl, fun a => by
      simp only [view]
      exact alookup_map_snd sm.recs (fun p (r : RecM) => (⟨r.cls, r.nonce, sm.nodes p⟩ : Rec)) a, ho⟩

/-! ### the head-state migration -/

theorem migrateGo_lookup (full : AList Rec) : ∀ (l : AList Rec), (∀ e ∈ l, alookup full e.1 ≠ none) →
    ∀ (recs : AList RecM) (a : Path),
    alookup (migrateGo full l recs) a =
      match alookup recs a with
      | some r => some r
      | none => if (alookup l a).isSome then
          some (writeContract ((alookup full a).getD ⟨.felt 0, .felt 0, .nil⟩).cls
            ((alookup full a).getD ⟨.felt 0, .felt 0, .nil⟩).nonce) else none := by
  intro l
  induction l with
  | nil => intro _ recs a; simp only [migrateGo, alookup]; cases alookup recs a <;> simp
  | cons e rest ih0 =>
    intro hfull recs a
    have ih := ih0 (fun e he => hfull e (List.mem_cons_of_mem _ he))
    have hhead := hfull e (List.mem_cons_self ..)
    obtain ⟨addr, r⟩ := e
    simp only [migrateGo]
    by_cases hacc : (alookup (migrateGo full rest recs) addr).isSome = true
    · simp only [hacc, if_true]
      rw [ih recs a]
      cases hr : alookup recs a with
      | some _ => rfl
      | none =>
        simp only [alookup]
        by_cases haddr : addr = a
        · subst haddr
          -- the address was reached before: it is in `rest` (or in `recs`, excluded by `hr`)
          rw [ih recs addr, hr] at hacc
          simp only [if_true, Option.isSome_some]
          by_cases h2 : (alookup rest addr).isSome = true
          · simp [h2]
          · simp [h2] at hacc
        · simp [haddr]
    · simp only [hacc, Bool.false_eq_true, if_false, alookup]
      by_cases haddr : addr = a
      · subst haddr
        have hnone : alookup (migrateGo full rest recs) addr = none := by
          cases e : alookup (migrateGo full rest recs) addr with
          | none => rfl
          | some _ => simp [e] at hacc
        rw [ih recs addr] at hnone
        cases hr : alookup recs addr with
        | some _ => simp [hr] at hnone
        | none =>
          simp only [if_true, Option.isSome_some]
          -- `full` has a binding for every address of `l`: the default is never used
          cases hf : alookup full addr with
          | none => exact absurd hf hhead
          | some _ => rfl
      · simp only [haddr, if_false]
        exact ih recs a

/-- the `Contract` bucket after the migration of a legacy database that had none: one record per legacy contract,
class hash and nonce of the newest binding, root zero -/
theorem migrateRecs_lookup (legacy : AList Rec) (a : Path) :
    alookup (migrateRecs legacy []) a = (alookup legacy a).map (fun r => writeContract r.cls r.nonce) := by
  simp only [migrateRecs]
  rw [migrateGo_lookup legacy legacy (fun e he => alookup_ne_none_of_mem e.1 legacy ⟨e, he, rfl⟩) [] a]
  simp only [alookup]
  cases alookup legacy a with
  | none => simp
  | some r => simp

/-- the upgraded database represents the state the legacy node had, provided the trie2 buckets hold the tries of
that same state (`SimM native s`) -/
theorem simM_upgrade {native : StM} {s : St} (h : SimM native s) : SimM (upgrade s native) s := by
  refine ⟨h.ctrie, h.cltrie, ?_, ?_⟩
  · intro a
    simp only [upgrade]
    rw [migrateRecs_lookup]
    cases e : alookup s.recs a with
    | none => rfl
    | some r =>
      have := h.recs a
      rw [e] at this
      cases e2 : alookup native.recs a with
      | none => simp [e2] at this
      | some rn =>
        simp only [e2, Option.map, Option.some.injEq] at this
        simp only [Option.map, writeContract, Option.some.injEq]
        rw [this]
  · intro a ha
    simp only [upgrade] at ha ⊢
    rw [migrateRecs_lookup] at ha
    apply h.orphan
    apply (recs_none_iff h a).mp
    cases e : alookup s.recs a with
    | none => rfl
    | some _ => simp [e] at ha

/-- after the upgrade every record is in the rootless form -/
theorem upgrade_rootless (legacy : St) (native : StM) (a : Path) (r : RecM)
    (h : alookup (upgrade legacy native).recs a = some r) : r.sroot = .felt 0 := by
  simp only [upgrade] at h
  rw [migrateRecs_lookup] at h
  cases e : alookup legacy.recs a with
  | none => simp [e] at h
  | some l =>
    simp only [e, Option.map, Option.some.injEq] at h
    rw [← h]; rfl

/-! ### the migrator reading the buckets of the TRANSCRIBED legacy state -/

theorem migrateFieldsGo_lookup (cls nonce : AList HTerm) : ∀ (l : AList HTerm), (∀ e ∈ l, alookup cls e.1 ≠ none) →
    ∀ (recs : AList RecM) (a : Path),
    alookup (migrateFieldsGo cls nonce l recs) a =
      match alookup recs a with
      | some r => some r
      | none => if (alookup l a).isSome then
          some (writeContract ((alookup cls a).getD (.felt 0)) ((alookup nonce a).getD (.felt 0))) else none := by
  intro l
  induction l with
  | nil => intro _ recs a; simp only [migrateFieldsGo, alookup]; cases alookup recs a <;> simp
  | cons e rest ih0 =>
    intro hfull recs a
    have ih := ih0 (fun e he => hfull e (List.mem_cons_of_mem _ he))
    have hhead := hfull e (List.mem_cons_self ..)
    obtain ⟨addr, c⟩ := e
    simp only [migrateFieldsGo]
    by_cases hacc : (alookup (migrateFieldsGo cls nonce rest recs) addr).isSome = true
    · simp only [hacc, if_true]
      rw [ih recs a]
      cases hr : alookup recs a with
      | some _ => rfl
      | none =>
        simp only [alookup]
        by_cases haddr : addr = a
        · subst haddr
          rw [ih recs addr, hr] at hacc
          simp only [if_true, Option.isSome_some]
          by_cases h2 : (alookup rest addr).isSome = true
          · simp [h2]
          · simp [h2] at hacc
        · simp [haddr]
    · simp only [hacc, Bool.false_eq_true, if_false, alookup]
      by_cases haddr : addr = a
      · subst haddr
        have hnone : alookup (migrateFieldsGo cls nonce rest recs) addr = none := by
          cases e : alookup (migrateFieldsGo cls nonce rest recs) addr with
          | none => rfl
          | some _ => simp [e] at hacc
        rw [ih recs addr] at hnone
        cases hr : alookup recs addr with
        | some _ => simp [hr] at hnone
        | none =>
          simp only [if_true, Option.isSome_some]
          cases hf : alookup cls addr with
          | none => exact absurd hf hhead
          | some _ => rfl
      · simp only [haddr, if_false]
        exact ih recs a

theorem upgradeF_lookup (cls nonce : AList HTerm) (native : StM) (a : Path) :
    alookup (upgradeF cls nonce native).recs a =
      (alookup cls a).map (fun c => writeContract c ((alookup nonce a).getD (.felt 0))) := by
  simp only [upgradeF]
  rw [migrateFieldsGo_lookup cls nonce cls (fun e he => alookup_ne_none_of_mem e.1 cls ⟨e, he, rfl⟩) [] a]
  simp only [alookup]
  cases alookup cls a with
  | none => simp
  | some r => simp

/-- every record of a reachable state of `ModelState.lean` sits under a 251-bit address -/
theorem update_keys251 {s s' : St} {d : Diff} (hs : SWF s) (hd : ValidDiff d)
    (hk : ∀ p, p.length ≠ 251 → alookup s.recs p = none) (hu : State.update true s d = some s') :
    ∀ p, p.length ≠ 251 → alookup s'.recs p = none := by
  intro p hp
  simp only [State.update, bind, Option.bind, pure] at hu
  cases h1 : State.deployAll s d.deployed [] with
  | none => simp [h1] at hu
  | some o1 =>
    simp only [h1] at hu
    cases h2 : State.replaceAll s d.replaced o1 with
    | none => simp [h2] at hu
    | some o2 =>
      simp only [h2] at hu
      cases h3 : State.nonceAll s d.nonces o2 with
      | none => simp [h3] at hu
      | some o3 =>
        simp only [h3] at hu
        cases h4 : State.storageAll s d.storage o3 with
        | none => simp [h4] at hu
        | some o4 =>
          simp only [h4, Option.some.injEq] at hu
          have g1 := deployAll_good (s := s) d.deployed (fun e he => (hd.deployed e he).1) [] o1
            (by intro e he; simp at he) h1
          have g2 := replaceAll_good hs d.replaced (fun e he => (hd.replaced e he).1) o1 o2 g1 h2
          have g3 := nonceAll_good hs d.nonces (fun e he => (hd.nonces e he).1) o2 o3 g2 h3
          have g4 := storageAll_good hs d.storage hd.storage o3 o4 g3 h4
          have gt := touched_good g4
          obtain ⟨tnd, _⟩ := touched_spec o4
          rw [← hu, State.commitObjs_recs true (State.touched o4) tnd _ p]
          cases ho : alookup (State.touched o4) p with
          | some o => exact absurd (gt _ (alookup_mem ho)).1 hp
          | none => exact hk p hp

open Chain in
theorem run_keys251 (ds : List Diff) (hd : ∀ d ∈ ds, ValidDiff d) :
    ∀ (s s' : St) (a : AbsSt), StateOK s a → (∀ p, p.length ≠ 251 → alookup s.recs p = none) →
      State.run true ds s = some s' → ∀ p, p.length ≠ 251 → alookup s'.recs p = none := by
  induction ds with
  | nil => intro s s' a _ hk hr; simp only [State.run, Option.some.injEq] at hr; subst hr; exact hk
  | cons d rest ih =>
    intro s s' a hok hk hr
    simp only [State.run] at hr
    cases e : State.update true s d with
    | none => simp [e] at hr
    | some s1 =>
      simp only [e, Option.bind] at hr
      have hdv := hd d (List.mem_cons_self ..)
      exact ih (fun d hd' => hd d (List.mem_cons_of_mem _ hd')) s1 s' _ (stateOK_update hok hdv e)
        (update_keys251 hok.swf hdv hk e) hr

open Chain in
/-- **The upgraded database represents the state of the legacy node**: `ls` = a state of the transcribed legacy
backend (`LState.LOK`), `s` = the state of the same abstract state on the trie2 side (`StateOK`), `native` = the
trie2 database (`SimM`): the `Contract` bucket the migrator writes from `ls`'s buckets, together with the tries of
`native`, represents `s`. -/
theorem simM_upgradeF {ls : LState.LSt} {dep : Path → Bool} {a : AbsSt} {s : St} {native : StM}
    (hl : LState.LOK ls dep a) (hok : StateOK s a) (hk : ∀ p, p.length ≠ 251 → alookup s.recs p = none)
    (hsim : SimM native s) : SimM (upgradeF ls.cls ls.nonce native) s := by
  -- a record exists on the trie2 side exactly for the deployed addresses
  have hex : ∀ p, (alookup s.recs p).isSome = dep p := by
    intro p
    by_cases hp : p.length = 251
    · have ag := hok.rel.agree p hp
      simp only [State.getObj, alookup] at ag
      cases hd : dep p with
      | true =>
        cases hr : alookup s.recs p with
        | some _ => rfl
        | none =>
          exfalso
          simp only [hr, Option.map, AgreeObj] at ag
          rcases hl.ne p hd with c | c
          · exact c ag.1
          · exact c (spec_root_zero_map _ _ _ ag.2.2)
      | false =>
        cases hr : alookup s.recs p with
        | none => rfl
        | some r =>
          exfalso
          simp only [hr, Option.map, AgreeObj, objMap, List.foldl_nil] at ag
          obtain ⟨u1, _, u3⟩ := hl.inv.undep p hd
          rcases hok.recs p r hr with c | c
          · exact c (ag.1.trans u1)
          · apply c.2
            rw [spec_root_congr _ _ _ _ ag.2.2]
            exact spec_root_zero_map _ _ _ u3
    · rw [hk p hp]
      cases hd : dep p with
      | false => rfl
      | true => exact absurd (hl.side.deplen p hd) hp
  refine ⟨hsim.ctrie, hsim.cltrie, ?_, ?_⟩
  · intro p
    simp only [upgradeF_lookup, hl.inv.cls p]
    have h1 := hex p
    cases hd : dep p with
    | false =>
      rw [hd] at h1
      cases hr : alookup s.recs p with
      | none => simp
      | some _ => simp [hr] at h1
    | true =>
      rw [hd] at h1
      cases hr : alookup s.recs p with
      | none => simp [hr] at h1
      | some r =>
        have hp : p.length = 251 := hl.side.deplen p hd
        have ag := hok.rel.agree p hp
        simp only [State.getObj, alookup, hr, Option.map, AgreeObj] at ag
        have hn := hsim.recs p
        rw [hr] at hn
        cases e2 : alookup native.recs p with
        | none => simp [e2] at hn
        | some rn =>
          simp only [e2, Option.map, Option.some.injEq] at hn
          simp only [if_true, Option.map, hl.inv.nonce p hd, Option.getD, writeContract, Option.some.injEq]
          rw [hn]
          simp only [Rec.mk.injEq]
          rw [hn] at ag
          exact ⟨ag.1, ag.2.1, rfl⟩
  · intro p hp
    simp only [upgradeF_lookup, hl.inv.cls p] at hp
    apply hsim.orphan
    apply (recs_none_iff hsim p).mp
    have h1 := hex p
    cases hd : dep p with
    | true => simp [hd] at hp
    | false =>
      rw [hd] at h1
      cases hr : alookup s.recs p with
      | none => rfl
      | some _ => simp [hr] at h1

theorem upgradeF_rootless (cls nonce : AList HTerm) (native : StM) (a : Path) (r : RecM)
    (h : alookup (upgradeF cls nonce native).recs a = some r) : r.sroot = .felt 0 := by
  rw [upgradeF_lookup] at h
  cases e : alookup cls a with
  | none => simp [e] at h
  | some c =>
    simp only [e, Option.map, Option.some.injEq] at h
    rw [← h]; rfl

open Chain in
/-- legacy database (transcribed backend) → migrator → continuation on the trie2 backend -/
theorem upgradeF_run_spec (pre014 : Bool) (ds1 ds2 : List Diff)
    (hd1 : ∀ d ∈ ds1, ValidDiff d) (hd2 : ∀ d ∈ ds2, ValidDiff d)
    (purge : Bool) (hk : purge = true ∨ NoSystemContractEmptied AbsSt.empty ds1)
    (ls : LState.LSt) (native sm' : StM)
    (hl : LState.run purge ds1 LState.LSt.empty = some ls)
    (hn : StateM.run true ds1 StM.empty = some native)
    (h : StateM.run true ds2 (upgradeF ls.cls ls.nonce native) = some sm') :
    StateM.commitment pre014 sm' = absCommitment pre014 (absState (ds1 ++ ds2)) ∧ ZeroOrExact sm' := by
  obtain ⟨dep, hlok⟩ := LState.run_ok purge ds1 hd1 _ ls _ _ LState.lok_empty hk hl
  obtain ⟨s1, hs1, hsim1, hok1, _⟩ :=
    run_inv (fun _ => True) (fun _ _ _ _ _ => trivial) ds1 hd1 _ native _ _
      stateOK_empty simM_empty trivial hn
  have hkeys := run_keys251 ds1 hd1 _ s1 _ stateOK_empty
    (by intro p _; simp [St.empty, alookup]) hs1
  have hsimU := simM_upgradeF hlok hok1 hkeys hsim1
  have hz : ZeroOrExact (upgradeF ls.cls ls.nonce native) :=
    fun a r hr => Or.inl (upgradeF_rootless ls.cls ls.nonce native a r hr)
  obtain ⟨s', _, hsim', hok', hx⟩ :=
    run_inv ZeroOrExact (fun hs hsim hd hu hp => update_zeroOrExact hs hsim hd hu hp)
      ds2 hd2 _ sm' _ _ hok1 hsimU hz h
  refine ⟨?_, hx⟩
  rw [commitment_sim hsim', commitment_ok hok']
  simp only [absState, List.foldl_append]

end StateM
end Juno.C01
