import JunoModel.C01.ModelEnc
/-!
Proofs for `ModelEnc.lean`: what is written is what is read back (contract record, path, trie2 node blob).
-/
deriving instance DecidableEq for Except

namespace Juno.C01.Enc

theorem beBytes_length (k n : Nat) : (beBytes k n).length = k := by
  induction k generalizing n with
  | zero => rfl
  | succ k ih => simp [beBytes, ih]

theorem foldl_be (bs : List Nat) (acc : Nat) :
    bs.foldl (fun a b => a * 256 + b) acc = acc * 256 ^ bs.length + bs.foldl (fun a b => a * 256 + b) 0 := by
  induction bs generalizing acc with
  | nil => simp
  | cons b bs ih =>
    simp only [List.foldl_cons, List.length_cons]
    rw [ih (acc * 256 + b), ih (0 * 256 + b)]
    simp only [Nat.zero_mul, Nat.zero_add, Nat.pow_succ]
    rw [Nat.add_mul, Nat.mul_assoc, Nat.mul_comm 256 (256 ^ bs.length), Nat.add_assoc]

theorem beVal_append (a b : List Nat) : beVal (a ++ b) = beVal a * 256 ^ b.length + beVal b := by
  simp only [beVal, List.foldl_append]
  exact foldl_be b _

theorem beVal_beBytes (k n : Nat) : beVal (beBytes k n) = n % 256 ^ k := by
  induction k generalizing n with
  | zero => simp [beBytes, beVal, Nat.mod_one]
  | succ k ih =>
    rw [beBytes, beVal_append, ih]
    simp only [List.length_cons, List.length_nil, Nat.zero_add, Nat.pow_one, beVal, List.foldl_cons,
      List.foldl_nil, Nat.zero_mul]
    rw [Nat.pow_succ, Nat.mul_comm (256 ^ k) 256, Nat.mod_mul]
    omega

theorem beVal_beBytes_of_lt {k n : Nat} (h : n < 256 ^ k) : beVal (beBytes k n) = n := by
  rw [beVal_beBytes, Nat.mod_eq_of_lt h]

theorem P_lt : P < 256 ^ 32 := by decide

theorem felt_roundtrip {v : Nat} (h : v < P) : feltOfBytes (beBytes 32 v) = v := by
  unfold feltOfBytes
  rw [beVal_beBytes_of_lt (Nat.lt_trans h P_lt), Nat.mod_eq_of_lt h]

theorem take_beBytes (k n : Nat) (rest : List Nat) : (beBytes k n ++ rest).take k = beBytes k n :=
  List.take_left' (beBytes_length k n)

theorem drop_beBytes (k n : Nat) (rest : List Nat) : (beBytes k n ++ rest).drop k = rest :=
  List.drop_left' (beBytes_length k n)

/-! ### contract record -/

theorem encodeRec_length (r : Rec) : (encodeRec r).length = if r.sroot = 0 then 72 else 104 := by
  unfold encodeRec
  split <;> simp [beBytes_length]

theorem decodeRec_encodeRec (r : Rec) (hn : r.nonce < P) (hc : r.cls < P) (hs : r.sroot < P)
    (hh : r.height < 2 ^ 64) : decodeRec (encodeRec r) = some r := by
  have hl := encodeRec_length r
  have h8 : r.height < 256 ^ 8 := by
    have : (256 : Nat) ^ 8 = 2 ^ 64 := by decide
    omega
  unfold decodeRec
  by_cases h0 : r.sroot = 0
  · rw [if_pos h0] at hl
    simp only [hl]
    simp only [encodeRec, if_pos h0, take_beBytes, drop_beBytes, felt_roundtrip hn, felt_roundtrip hc,
      beVal_beBytes_of_lt h8]
    cases r
    simp_all
  · rw [if_neg h0] at hl
    simp only [hl]
    simp only [encodeRec, if_neg h0, take_beBytes, drop_beBytes, felt_roundtrip hn, felt_roundtrip hc,
      felt_roundtrip hs, beVal_beBytes_of_lt h8]
    simp

theorem decodeRec_rootless {bs : List Nat} {r : Rec} (h : decodeRec bs = some r) (hl : bs.length = 72) :
    r.sroot = 0 := by
  unfold decodeRec at h
  simp only [hl] at h
  simp at h
  rw [← h]

theorem decodeRec_none_iff (bs : List Nat) : decodeRec bs = none ↔ (bs.length ≠ 104 ∧ bs.length ≠ 72) := by
  unfold decodeRec
  by_cases h1 : bs.length = 104
  · simp [h1]
  · by_cases h2 : bs.length = 72
    · simp [h2]
    · simp [h1, h2]

/-! ### paths -/

theorem pathVal_lt (p : Path) : pathVal p < 2 ^ p.length := by
  induction p with
  | nil => simp [pathVal]
  | cons b p ih =>
    simp only [pathVal, List.length_cons, Nat.pow_succ]
    split <;> omega

theorem bitsOf_pathVal (p : Path) : bitsOf p.length (pathVal p) = p := by
  induction p with
  | nil => rfl
  | cons b p ih =>
    have hlt := pathVal_lt p
    have hpos : 0 < 2 ^ p.length := Nat.pow_pos (by decide)
    simp only [List.length_cons, bitsOf, pathVal]
    cases b
    · simp only [Bool.false_eq_true, if_false, Nat.zero_add]
      rw [Nat.div_eq_of_lt hlt, Nat.mod_eq_of_lt hlt, ih]
      simp
    · simp only [if_true]
      have h1 : (2 ^ p.length + pathVal p) / 2 ^ p.length = 1 := by
        rw [Nat.add_div_left _ hpos, Nat.div_eq_of_lt hlt]
      have h2 : (2 ^ p.length + pathVal p) % 2 ^ p.length = pathVal p := by
        rw [Nat.add_mod_left, Nat.mod_eq_of_lt hlt]
      rw [h1, h2, ih]
      simp

theorem pow2_le_256 (n : Nat) : 2 ^ n ≤ 256 ^ ((n + 7) / 8) := by
  have : (256 : Nat) = 2 ^ 8 := by decide
  rw [this, ← Nat.pow_mul]
  apply Nat.pow_le_pow_right (by decide)
  omega

theorem encodePath_length (p : Path) : (encodePath p).length = (p.length + 7) / 8 + 1 := by
  simp [encodePath, beBytes_length]

theorem decodePathRaw_encodePath (p : Path) : decodePathRaw (encodePath p) = some (p.length, pathVal p) := by
  have hv : pathVal p < 256 ^ ((p.length + 7) / 8) := Nat.lt_of_lt_of_le (pathVal_lt p) (pow2_le_256 _)
  unfold decodePathRaw
  have hlast : (encodePath p).getLast? = some p.length := by simp [encodePath]
  rw [hlast]
  simp only [encodePath_length, Nat.lt_irrefl, if_false]
  simp [encodePath, beVal_beBytes_of_lt hv]

theorem decodePath_encodePath (p : Path) : decodePath (encodePath p) = some p := by
  unfold decodePath
  rw [decodePathRaw_encodePath]
  simp [pathVal_lt, bitsOf_pathVal]

/-! ### trie2 node blobs -/

theorem encodeBlob_length (b : BlobN) :
    (encodeBlob b).length = match b with
      | .leaf _ => 32
      | .bin _ _ => 65
      | .edge _ p => 34 + (p.length + 7) / 8 := by
  cases b <;> simp [encodeBlob, beBytes_length, encodePath_length] <;> omega

theorem decodeBlob_cons (t : Nat) (rest : List Nat) (pathLen maxLen : Nat) :
    decodeBlob (t :: rest) pathLen maxLen =
      if pathLen > maxLen then .error .pathLen
      else if (t :: rest).length = 32 then .ok (.leaf (feltOfBytes (t :: rest)))
      else if t = 1 then
        if rest.length < 64 then .error .binSize
        else if pathLen + 1 > maxLen then .error .pathLen
        else if rest.length ≠ 64 then .error .binTail
        else .ok (.bin (feltOfBytes (rest.take 32)) (feltOfBytes (rest.drop 32)))
      else if t = 2 then
        if rest.length > 65 ∨ rest.length < 32 then .error .edgeSize
        else match decodePath (rest.drop 32) with
          | none => .error .badPath
          | some p =>
            if pathLen = maxLen ∧ p.length = 0 then .error .childType
            else .ok (.edge (feltOfBytes (rest.take 32)) p)
      else .error .unknownType := rfl

theorem decodeBlob_encodeBlob (b : BlobN) (hw : b.WF) (pathLen maxLen : Nat)
    (hp : match b with
      | .leaf _ => pathLen ≤ maxLen
      | .bin _ _ => pathLen + 1 ≤ maxLen
      | .edge _ p => pathLen ≤ maxLen ∧ (p = [] → pathLen < maxLen)) :
    decodeBlob (encodeBlob b) pathLen maxLen = .ok b := by
  cases b with
  | leaf v =>
    simp only [BlobN.WF] at hw
    have hl : (beBytes 32 v).length = 32 := beBytes_length 32 v
    simp only [encodeBlob]
    match hb : beBytes 32 v with
    | [] => simp [hb] at hl
    | t :: rest =>
      have hl' : (t :: rest).length = 32 := by rw [← hb]; exact hl
      simp only at hp
      rw [decodeBlob_cons, if_neg (by omega), if_pos hl', ← hb, felt_roundtrip hw]
  | bin l r =>
    simp only [BlobN.WF] at hw
    simp only at hp
    simp only [encodeBlob]
    rw [decodeBlob_cons]
    have hlen : (beBytes 32 l ++ beBytes 32 r).length = 64 := by simp [beBytes_length]
    simp only [List.length_cons, hlen]
    rw [if_neg (by omega)]
    simp only [show (64 + 1 = 32) = False by simp, if_false, if_true, Nat.lt_irrefl, ne_eq, not_true_eq_false]
    rw [if_neg (by omega), take_beBytes, drop_beBytes, felt_roundtrip hw.1, felt_roundtrip hw.2]
  | edge c p =>
    simp only [BlobN.WF] at hw
    simp only at hp
    simp only [encodeBlob]
    rw [decodeBlob_cons]
    have hlen : (beBytes 32 c ++ encodePath p).length = 33 + (p.length + 7) / 8 := by
      simp [beBytes_length, encodePath_length]; omega
    simp only [List.length_cons, hlen]
    rw [if_neg (by omega), if_neg (by omega)]
    simp only [show ((2 : Nat) = 1) = False by simp, if_false, if_true]
    rw [if_neg (by omega), take_beBytes, drop_beBytes, decodePath_encodePath, felt_roundtrip hw.1]
    simp only
    rw [if_neg]
    rintro ⟨h1, h2⟩
    have := hp.2 (List.length_eq_zero_iff.mp h2)
    omega

/-- inner nodes are never 32 bytes long: the length test of `DecodeNode` cannot take an inner node for a value -/
theorem encodeBlob_inner_not_32 (b : BlobN) (h : (encodeBlob b).length = 32) : ∃ v, b = .leaf v := by
  cases b with
  | leaf v => exact ⟨v, rfl⟩
  | bin l r => simp [encodeBlob, beBytes_length] at h
  | edge c p => simp [encodeBlob, beBytes_length, encodePath_length] at h; omega

theorem encodeBlob_injective (a b : BlobN) (ha : a.WF) (hb : b.WF) (h : encodeBlob a = encodeBlob b) : a = b := by
  have h1 := decodeBlob_encodeBlob a ha 0 251 (by cases a <;> simp)
  have h2 := decodeBlob_encodeBlob b hb 0 251 (by cases b <;> simp)
  rw [h] at h1
  rw [h1] at h2
  exact Except.ok.inj h2

/-! ### trie2 database keys -/

theorem beBytes_inj {k a b : Nat} (ha : a < 256 ^ k) (hb : b < 256 ^ k) (h : beBytes k a = beBytes k b) : a = b := by
  have := congrArg beVal h
  rwa [beVal_beBytes_of_lt ha, beVal_beBytes_of_lt hb] at this

theorem encodePath_inj {p q : Path} (h : encodePath p = encodePath q) : p = q := by
  have := congrArg decodePath h
  rw [decodePath_encodePath, decodePath_encodePath] at this
  exact Option.some.inj this

theorem nodeKey_injective (bucket o o' : Nat) (l l' : Bool) (p p' : Path) (ho : o ≠ 0) (ho' : o' ≠ 0)
    (hP : o < P) (hP' : o' < P) (h : nodeKey bucket o l p = nodeKey bucket o' l' p') : o = o' ∧ l = l' ∧ p = p' := by
  simp only [nodeKey, if_neg ho, if_neg ho', List.cons.injEq, true_and] at h
  have hlen : (beBytes 32 o).length = (beBytes 32 o').length := by simp [beBytes_length]
  obtain ⟨h1, h2⟩ := List.append_inj h hlen
  have hoo := beBytes_inj (Nat.lt_trans hP P_lt) (Nat.lt_trans hP' P_lt) h1
  simp only [List.cons.injEq] at h2
  refine ⟨hoo, ?_, encodePath_inj h2.2⟩
  cases l <;> cases l' <;> simp_all

/-- the keys of the contract trie / class trie (no owner) are told apart as well -/
theorem nodeKey_injective_no_owner (bucket : Nat) (l l' : Bool) (p p' : Path)
    (h : nodeKey bucket 0 l p = nodeKey bucket 0 l' p') : l = l' ∧ p = p' := by
  simp only [nodeKey, if_true, List.nil_append, List.cons.injEq, true_and] at h
  refine ⟨?_, encodePath_inj h.2⟩
  cases l <;> cases l' <;> simp_all

theorem storagePrefix_prefix (bucket o : Nat) (l : Bool) (p : Path) (ho : o ≠ 0) :
    storagePrefix bucket o <+: nodeKey bucket o l p := by
  simp only [nodeKey, if_neg ho, storagePrefix]
  exact ⟨_, rfl⟩

theorem storagePrefix_other (bucket o o' : Nat) (l : Bool) (p : Path) (ho' : o' ≠ 0) (hP : o < P) (hP' : o' < P)
    (hne : o ≠ o') : ¬ storagePrefix bucket o <+: nodeKey bucket o' l p := by
  rintro ⟨t, ht⟩
  simp only [nodeKey, if_neg ho', storagePrefix, List.cons_append, List.cons.injEq, true_and] at ht
  have hlen : (beBytes 32 o).length = (beBytes 32 o').length := by simp [beBytes_length]
  obtain ⟨h1, _⟩ := List.append_inj ht hlen
  exact hne (beBytes_inj (Nat.lt_trans hP P_lt) (Nat.lt_trans hP' P_lt) h1)

/-! ### legacy trie nodes -/

theorem decodePathL_encodePathL (p : Path) (rest : List Nat) :
    decodePathL (encodePathL p ++ rest) = some (p, rest) := by
  have hv : pathVal p < 256 ^ ((p.length + 7) / 8) := Nat.lt_of_lt_of_le (pathVal_lt p) (pow2_le_256 _)
  unfold decodePathL decodePathLRaw
  simp only [encodePathL, List.cons_append, List.length_append, beBytes_length]
  rw [if_neg (by omega)]
  simp only [take_beBytes, beVal_beBytes_of_lt hv, pathVal_lt, if_true, bitsOf_pathVal]
  simp only [List.drop_succ_cons, drop_beBytes]

theorem decodeLNode_encodeLNode (n : LNodeB) (hw : n.WF) : decodeLNode (encodeLNode n) = .ok n := by
  obtain ⟨v, kids, hashes⟩ := n
  obtain ⟨hv, hk, hh⟩ := hw
  simp only at hv hk hh
  unfold decodeLNode encodeLNode
  simp only [List.length_append, beBytes_length, take_beBytes, drop_beBytes, felt_roundtrip hv]
  rw [if_neg (by omega)]
  cases kids with
  | none =>
    simp only at hk
    subst hk
    simp
  | some lr =>
    obtain ⟨l, r⟩ := lr
    simp only
    have hne : ∀ tail : List Nat, encodePathL l ++ tail ≠ [] := by
      intro tail; simp [encodePathL]
    simp only [List.append_assoc, hne, ↓reduceIte]
    rw [decodePathL_encodePathL]
    simp only
    rw [decodePathL_encodePathL]
    simp only
    cases hashes with
    | none => simp
    | some hs =>
      obtain ⟨lh, rh⟩ := hs
      simp only at hh
      have hne2 : beBytes 32 lh ++ beBytes 32 rh ≠ [] := by
        intro h
        have := congrArg List.length h
        simp [beBytes_length] at this
      simp only [hne2, ↓reduceIte]
      simp only [List.length_append, beBytes_length, ne_eq, not_true_eq_false, if_false, take_beBytes,
        drop_beBytes, felt_roundtrip hh.1, felt_roundtrip hh.2]

end Juno.C01.Enc
