import JunoModel.Common.Proto
import JunoModel.C01.Model
import JunoModel.C01.ModelState
import JunoModel.C01.ModelLegacy
import JunoModel.C01.ModelStore
import JunoModel.C01.ModelLazy
import JunoModel.C01.ModelVersion
import JunoModel.C01.ModelStateL
import JunoModel.C01.ModelChain
import JunoModel.C01.ModelMigrate
import JunoModel.C01.ModelLegacyState
import JunoModel.C01.ModelEnc
/-!
Line-protocol driver for the C01 models (`lake build c01drv`).

Requests (one per line, answers one line each):
  new  <id> <height> <ped|pos>      fresh trie2 model in slot <id>            -> ok
  put  <id> <keyhex> <valhex>       Trie.Update(key, value)                    -> ok
  poke <id> <keyhex> <valhex>       the caller overwrites the felt whose POINTER it passed to the last Update(key, ·):
                                    the leaf changes in place, no flag / cached hash is touched   -> ok
  hash <id>                         Trie.Hash() (caches hashes)                -> <term>
  get  <id> <keyhex>                Trie.Get(key)                              -> <term>
  spec <height> <ped|pos> k:v ...   Spec.root of the given map (height <= 12)  -> <term>
  lnew <id> <height> <ped|pos>      fresh legacy (core/trie) model in slot <id>    -> ok
  lput <id> <keyhex> <valhex>       Trie.Put(key, value)                           -> ok | err:put
  lhash <id>                        Trie.Hash() (rehashes dirty paths)             -> <term> | err:hash
  lreopen <id>                      drop the object, open a new one on the storage -> ok
  bnew <id> <height> <ped|pos> <0|1> trie2 with node database, tracer and lazy resolution (1 = tracer records the
                                    absolute path of a deleted last-level leaf)           -> ok
  bput <id> <keyhex> <valhex>       Trie.Update   -> ok | ok:<flags> | err:update   (flags: i/d = insert/delete went
                                    through an unresolved node, s = collapse into an unresolved sibling)
  bhash <id>                        Trie.Hash()                                     -> <term>
  bget <id> <keyhex>                Trie.Get through unresolved nodes               -> <term> | err:get
  bcommit <id>                      Trie.Commit(), write the node set, reopen       -> <rootterm> none | <rootterm> entry...
        entries sorted by (path length, path): D:<len>:<path>:<isLeaf> | L:<len>:<path>:<value term> |
        B:<len>:<path>:<hash term>:<left term>:<right term> | E:<len>:<path>:<hash term>:<child term>:<plen>:<p>
  bdump <id>                        the whole node database of the trie (after the last bcommit), sorted by (length, path, leaf)
                                    -> empty | <len>:<path>:<isLeaf>:L:<value term> | …:B:<left>:<right> | …:E:<child>:<plen>:<p> ...
  zget <id> <keyhex>                Trie.Get on the restart model: resolves and keeps the nodes on the way -> <term>
  znew/zput/zhash/zreopen <id> ...  the restart model of ModelLazy.lean (unresolved nodes carry their subtree) -> ok | <term>
  snew <id> <purge 0|1>             fresh state model (purge = empty system contracts lose their leaf) -> ok
  sblock <id> <pre014 0|1> item...  State.Update + Commitment; items in application order:
        D:<class>:<casm> M:<class>:<casm> P:<addr>:<class> R:<addr>:<class> N:<addr>:<nonce>
        S:<addr>:<key>=<val>,<key>=<val>...                                    -> <term> | rejected
  sold <id> <fixed 0|1> <prePrev> <preNew>   old-root check of the next Update: OldRoot = the root stored for the
                                    previous block (version flag prePrev), verified for a block with flag preNew;
                                    fixed = variant with the proposed repair  -> ok | mismatch
  comm <ped|pos> <hex item>...      root of the temporary commitment trie (item i under key i, height 64) -> <term>
  sdiscard <id> <pre014> item...    the same update executed and DROPPED (state unchanged)  -> <term> | rejected
  In sblock / sdiscard / tblock / cfin / cstore the version flag may be given as `v=<version string>`: the model then
  parses the string itself (`Version.pre014?`); a commitment the code cannot compute (nil version) is answered `panic`.
  ver v=<string>                    ParseBlockVersion + LessThan(0.14.0)                    -> pre | post | err
  tnew <id> <purge>                 fresh state model on tries that are reopened from the node database -> ok
  tblock <id> <restart 0|1> <pre014> item...   state.New + State.Update + Commitment (ModelStateL.lean) -> <term> | rejected
  cnew <id> <fixed 0|1> <purge>     fresh chain (what the node stores per block, ModelChain.lean)        -> ok
  cfin <id> <pre014> item...        Blockchain.Finalise of the next block (caller's OldRoot = stored root of the head)
                                    -> <root term> <old term> <new term> | rejected
  cstore <id> <pre014> <old: prev|cur|bad> <new: ok|bad> item...   Blockchain.Store of the next block; the claimed OldRoot is
                                    the root stored for the head / the head state's commitment under THIS block's version /
                                    a wrong value, the claimed NewRoot right or wrong -> <root> <old> <new> | rejected
  mnew <id> <legacyPurge 0|1>      fresh pair (legacy state of core/deprecatedstate, native state of core/state with the
                                    contract records' cached storage roots and the storage-trie store, ModelMigrate.lean) -> ok
  mblock <id> <pre014> item...      State.Update on the native state (and, before the migration, on the legacy one)
                                    -> <root term> R:<addr>:<class>:<nonce>:<cached storage root>... | rejected
                                    (the Contract bucket afterwards: live records sorted by address)
  mmigrate <id>                     the head-state migration: the Contract bucket is rebuilt from the per-field buckets of the
                                    TRANSCRIBED legacy state (ModelLegacyState.lean) by
                                    state.WriteContract (no storage root); the tries stay              -> ok R:...
  ynew <id> <purge 0|1>             fresh TRANSCRIBED legacy state (core/deprecatedstate.Update statement by statement:
                                    per-field buckets, leaf recomputed after every single change, ModelLegacyState.lean) -> ok
  yblock <id> <pre014> item...      State.Update + Commitment -> <root term> F:<addr>:<class>:<nonce|->... | rejected
                                    (the ContractClassHash / ContractNonce buckets afterwards, sorted by address)
  byte level (ModelEnc.lean; felts / heights as hex numbers, byte strings as hex, `-` = empty):
  erec <nonce> <class> <sroot> <height>   stateContract.MarshalBinary                       -> <bytes>
  drec <bytes>                            stateContract.UnmarshalBinary  -> ok <nonce> <class> <sroot> <height> | err
  epath <len> <val> / dpath <bytes>       trie2 BitArray.Write / UnmarshalBinary            -> <bytes> / ok <len> <val> | err
  epathl <len> <val> / dpathl <bytes>     core/trie BitArray.Write / UnmarshalBinary        -> <bytes> / ok <len> <val> <used> | err
  enode L <v> | B <l> <r> | E <c> <plen> <pval>      trienode.EncodeNode                      -> <bytes>
  dnode <pathLen> <maxLen> <bytes>        trienode.DecodeNode -> L:<v> | B:<l>:<r> | E:<c>:<plen>:<pval> | err:<class>
  elnode <v> <kids: - | ll:lv:rl:rv> <hashes: - | lh:rh>    core/trie Node.WriteTo           -> <bytes>
  dlnode <bytes>                          core/trie Node.UnmarshalBinary -> ok <v> <kids> <hashes> | err:<class>
  ekey <bucket> <owner> <leaf 0|1> <len> <val>   trieutils.nodeKeyByPath (bucket as a decimal byte, owner 0 = none)   -> <bytes>
  ldump <id>                              the storage of the legacy trie model: root key, then every node sorted by
                                          (key length, key)  -> R:<len>:<key>|R:- N:<len>:<key>:<value term>:<left len>.<left>|-:<right…>|- ...
Terms are printed in prefix form: f<hex> | P(a,b) | S(a,b) | T(a,b,c) | A(t,<hex>).
-/
open Juno.Proto Juno.C01

def kindOf? : String → Option HashKind
  | "ped" => some .pedersen
  | "pos" => some .poseidon
  | _ => none

partial def termStr : HTerm → String
  | .felt n => "f" ++ natToHex n
  | .h .pedersen a b => "P(" ++ termStr a ++ "," ++ termStr b ++ ")"
  | .h .poseidon a b => "S(" ++ termStr a ++ "," ++ termStr b ++ ")"
  | .pos3 a b c => "T(" ++ termStr a ++ "," ++ termStr b ++ "," ++ termStr c ++ ")"
  | .add t n => "A(" ++ termStr t ++ "," ++ natToHex n ++ ")"

structure T2 where
  height : Nat
  kind : HashKind
  root : Node

structure St where
  t2 : List (Nat × T2) := []
  states : List (Nat × (Bool × State.St)) := []
  legacy : List (Nat × Legacy.Trie) := []
  lazyT : List (Nat × Trie2S.T) := []
  lazyL : List (Nat × (Nat × HashKind × LNode)) := []
  lstates : List (Nat × (Bool × StateL.StL)) := []
  chains : List (Nat × (Bool × Bool × State.St × HTerm)) := []
  mstates : List (Nat × (Bool × Bool × LState.LSt × StateM.StM)) := []   -- legacy purge, migrated?, legacy (transcribed), native
  ystates : List (Nat × (Bool × LState.LSt)) := []

def pathStr (p : Path) : String := toString p.length ++ ":" ++ natToHex (pathNat p)

def setNodeStr (e : Path × Trie2S.SetNode) : String :=
  match e.2 with
  | .deleted l => "D:" ++ pathStr e.1 ++ ":" ++ (if l then "1" else "0")
  | .leaf (.leaf v) => "L:" ++ pathStr e.1 ++ ":" ++ termStr v
  | .nonLeaf h (.bin l r) => "B:" ++ pathStr e.1 ++ ":" ++ termStr h ++ ":" ++ termStr l ++ ":" ++ termStr r
  | .nonLeaf h (.edge c p) => "E:" ++ pathStr e.1 ++ ":" ++ termStr h ++ ":" ++ termStr c ++ ":" ++ pathStr p
  | _ => "X:" ++ pathStr e.1

/-- one entry of the model's node database: `<len>:<path>:<isLeaf>:L:<value>` | `…:B:<left>:<right>` | `…:E:<child>:<plen>:<p>` -/
def diskEntryStr (e : (Path × Bool) × Trie2S.Blob) : String :=
  let pre := pathStr e.1.1 ++ ":" ++ (if e.1.2 then "1" else "0") ++ ":"
  match e.2 with
  | .leaf v => pre ++ "L:" ++ termStr v
  | .bin l r => pre ++ "B:" ++ termStr l ++ ":" ++ termStr r
  | .edge c p => pre ++ "E:" ++ termStr c ++ ":" ++ pathStr p

def sortSet (ns : Trie2S.NodeSet) : Trie2S.NodeSet :=
  (ns.toArray.qsort (fun a b => a.1.length < b.1.length || (a.1.length == b.1.length && pathNat a.1 < pathNat b.1))).toList

def parsePair (a b : String) : Option (Path × HTerm) := do
  let x ← hexToNat? a
  let y ← hexToNat? b
  if x ≥ 2 ^ 251 then none else pure (natToPath 251 x, .felt y)

def parseStorage (s : String) : Option (List (Path × HTerm)) :=
  (s.splitOn ",").mapM (fun kv => match kv.splitOn "=" with
    | [k, v] => parsePair k v
    | _ => none)

def addItem (d : State.Diff) (item : String) : Option State.Diff :=
  match item.splitOn ":" with
  | ["D", a, b] => do let e ← parsePair a b; pure { d with declared := d.declared ++ [e] }
  | ["M", a, b] => do let e ← parsePair a b; pure { d with migrated := d.migrated ++ [e] }
  | ["P", a, b] => do let e ← parsePair a b; pure { d with deployed := d.deployed ++ [e] }
  | ["R", a, b] => do let e ← parsePair a b; pure { d with replaced := d.replaced ++ [e] }
  | ["N", a, b] => do let e ← parsePair a b; pure { d with nonces := d.nonces ++ [e] }
  | ["S", a, kvs] => do
    let x ← hexToNat? a
    if x ≥ 2 ^ 251 then none
    let st ← parseStorage kvs
    pure { d with storage := d.storage ++ [(natToPath 251 x, st)] }
  | _ => none

/-- version flag of a block: `0` / `1`, or `v=<string>` parsed by the model; inner `none` = unparsable string -/
def preOf? (tok : String) : Option (Option Bool) :=
  if tok.startsWith "v=" then some (Version.pre014? (tok.drop 2).toString)
  else match tok.toNat? with
    | some n => some (some (n != 0))
    | none => none

/-- `Commitment(version)` when the version may be unparsable: the code needs the version only if the class trie is
empty and the contract trie is not -/
def commitmentStr (pre : Option Bool) (contractRoot classRoot : HTerm) : String :=
  match pre with
  | some b => termStr (State.stateCommitment b contractRoot classRoot)
  | none =>
    if classRoot = .felt 0 ∧ contractRoot = .felt 0 then termStr (.felt 0)
    else if classRoot = .felt 0 then "panic"
    else termStr (.pos3 (.felt State.stateVersion0) contractRoot classRoot)

def stCommitmentStr (pre : Option Bool) (st : State.St) : String :=
  commitmentStr pre (Trie2.hashRoot .pedersen st.ctrie).1 (Trie2.hashRoot .poseidon st.cltrie).1

def parseDiff (items : List String) : Option State.Diff :=
  items.foldlM addItem (⟨[], [], [], [], [], []⟩ : State.Diff)

def St.getT2 (s : St) (id : Nat) : Option T2 := (s.t2.find? (·.1 == id)).map (·.2)
def St.setT2 (s : St) (id : Nat) (t : T2) : St :=
  { s with t2 := (id, t) :: s.t2.filter (·.1 != id) }

def parseKV (s : String) : Option (Nat × Nat) :=
  match s.splitOn ":" with
  | [a, b] => do let x ← hexToNat? a; let y ← hexToNat? b; pure (x, y)
  | _ => none

def recsStr (recs : State.AList StateM.RecM) : String :=
  let live := (StateM.liveRecs recs).toArray.qsort (fun a b => pathNat a.1 < pathNat b.1)
  " ".intercalate (live.toList.map (fun e =>
    "R:" ++ natToHex (pathNat e.1) ++ ":" ++ termStr e.2.cls ++ ":" ++ termStr e.2.nonce ++ ":" ++ termStr e.2.sroot))

/-! byte-level requests (`ModelEnc.lean`) -/
def bytesStr (bs : List Nat) : String := bytesToHex (bs.map UInt8.ofNat)
def bytesOf? (s : String) : Option (List Nat) := (hexToBytes? s).map (·.map UInt8.toNat)
def optPathStr : Option Path → String
  | none => "-"
  | some p => toString p.length ++ "." ++ natToHex (pathNat p)

def decErrStr : Enc.DecErr → String
  | .empty => "empty" | .pathLen => "pathlen" | .binSize => "binsize" | .binTail => "bintail"
  | .edgeSize => "edgesize" | .badPath => "badpath" | .unknownType => "panic" | .childType => "panic-child"

def ldecErrStr : Enc.LDecErr → String
  | .short => "short" | .badLeft => "left" | .badRight => "right" | .hashSize => "hashsize"

def stepE (s : St) (ws : List String) : Option (St × String) :=
  match ws with
  | ["erec", n, c, r, h] =>
    match hexToNat? n, hexToNat? c, hexToNat? r, hexToNat? h with
    | some n, some c, some r, some h => some (s, bytesStr (Enc.encodeRec ⟨n, c, r, h⟩))
    | _, _, _, _ => some (s, "bad-op")
  | ["drec", b] =>
    match bytesOf? b with
    | some bs =>
      match Enc.decodeRec bs with
      | some r => some (s, "ok " ++ natToHex r.nonce ++ " " ++ natToHex r.cls ++ " " ++ natToHex r.sroot ++ " " ++ natToHex r.height)
      | none => some (s, "err")
    | none => some (s, "bad-op")
  | ["epath", l, v] =>
    match l.toNat?, hexToNat? v with
    | some l, some v => if l > 255 ∨ v ≥ 2 ^ l then some (s, "bad-op") else some (s, bytesStr (Enc.encodePath (natToPath l v)))
    | _, _ => some (s, "bad-op")
  | ["ekey", b, o, lf, l, v] =>
    match b.toNat?, hexToNat? o, lf.toNat?, l.toNat?, hexToNat? v with
    | some b, some o, some lf, some l, some v =>
      if l > 255 ∨ v ≥ 2 ^ l ∨ b > 255 then some (s, "bad-op")
      else some (s, bytesStr (Enc.nodeKey b o (lf != 0) (natToPath l v)))
    | _, _, _, _, _ => some (s, "bad-op")
  | ["dpath", b] =>
    match bytesOf? b with
    | some bs =>
      match Enc.decodePathRaw bs with
      | some (l, v) => some (s, "ok " ++ toString l ++ " " ++ natToHex v)
      | none => some (s, "err")
    | none => some (s, "bad-op")
  | ["epathl", l, v] =>
    match l.toNat?, hexToNat? v with
    | some l, some v => if l > 255 ∨ v ≥ 2 ^ l then some (s, "bad-op") else some (s, bytesStr (Enc.encodePathL (natToPath l v)))
    | _, _ => some (s, "bad-op")
  | ["dpathl", b] =>
    match bytesOf? b with
    | some bs =>
      match Enc.decodePathLRaw bs with
      | some (l, v, u) => some (s, "ok " ++ toString l ++ " " ++ natToHex v ++ " " ++ toString u)
      | none => some (s, "err")
    | none => some (s, "bad-op")
  | ["enode", "L", v] =>
    match hexToNat? v with
    | some v => some (s, bytesStr (Enc.encodeBlob (.leaf v)))
    | none => some (s, "bad-op")
  | ["enode", "B", l, r] =>
    match hexToNat? l, hexToNat? r with
    | some l, some r => some (s, bytesStr (Enc.encodeBlob (.bin l r)))
    | _, _ => some (s, "bad-op")
  | ["enode", "E", c, pl, pv] =>
    match hexToNat? c, pl.toNat?, hexToNat? pv with
    | some c, some pl, some pv =>
      if pl > 255 ∨ pv ≥ 2 ^ pl then some (s, "bad-op") else some (s, bytesStr (Enc.encodeBlob (.edge c (natToPath pl pv))))
    | _, _, _ => some (s, "bad-op")
  | ["dnode", pl, ml, b] =>
    match pl.toNat?, ml.toNat?, bytesOf? b with
    | some pl, some ml, some bs =>
      match Enc.decodeBlob bs pl ml with
      | .ok (.leaf v) => some (s, "L:" ++ natToHex v)
      | .ok (.bin l r) => some (s, "B:" ++ natToHex l ++ ":" ++ natToHex r)
      | .ok (.edge c p) => some (s, "E:" ++ natToHex c ++ ":" ++ toString p.length ++ ":" ++ natToHex (pathNat p))
      | .error e => some (s, "err:" ++ decErrStr e)
    | _, _, _ => some (s, "bad-op")
  | ["elnode", v, kids, hashes] =>
    let kids? : Option (Option (Path × Path)) :=
      if kids == "-" then some none else
      match kids.splitOn ":" with
      | [ll, lv, rl, rv] =>
        match ll.toNat?, hexToNat? lv, rl.toNat?, hexToNat? rv with
        | some ll, some lv, some rl, some rv =>
          if ll > 255 ∨ rl > 255 ∨ lv ≥ 2 ^ ll ∨ rv ≥ 2 ^ rl then none else some (some (natToPath ll lv, natToPath rl rv))
        | _, _, _, _ => none
      | _ => none
    let hashes? : Option (Option (Nat × Nat)) :=
      if hashes == "-" then some none else
      match hashes.splitOn ":" with
      | [a, b] => match hexToNat? a, hexToNat? b with
        | some a, some b => some (some (a, b))
        | _, _ => none
      | _ => none
    match hexToNat? v, kids?, hashes? with
    | some v, some k, some h => some (s, bytesStr (Enc.encodeLNode ⟨v, k, h⟩))
    | _, _, _ => some (s, "bad-op")
  | ["dlnode", b] =>
    match bytesOf? b with
    | some bs =>
      match Enc.decodeLNode bs with
      | .ok n =>
        let k := match n.kids with
          | none => "-"
          | some (l, r) => toString l.length ++ ":" ++ natToHex (pathNat l) ++ ":" ++ toString r.length ++ ":" ++ natToHex (pathNat r)
        let h := match n.hashes with
          | none => "-"
          | some (a, b) => natToHex a ++ ":" ++ natToHex b
        some (s, "ok " ++ natToHex n.value ++ " " ++ k ++ " " ++ h)
      | .error e => some (s, "err:" ++ ldecErrStr e)
    | none => some (s, "bad-op")
  | ["ldump", id] =>
    match id.toNat? with
    | some id =>
      match s.legacy.find? (·.1 == id) with
      | some (_, t) =>
        let es := (t.store.toArray.qsort (fun a b =>
          a.1.length < b.1.length || (a.1.length == b.1.length && pathNat a.1 < pathNat b.1))).toList
        let root := match t.rootKey with
          | none => "R:-"
          | some k => "R:" ++ pathStr k
        some (s, " ".intercalate (root :: es.map (fun e =>
          "N:" ++ pathStr e.1 ++ ":" ++ termStr e.2.value ++ ":" ++ optPathStr e.2.left ++ ":" ++ optPathStr e.2.right)))
      | none => some (s, "bad-op")
    | none => some (s, "bad-op")
  | _ => none

/-- requests of the migration model (`ModelMigrate.lean`) -/
def stepM (s : St) (ws : List String) : St × String :=
  match stepE s ws with
  | some r => r
  | none =>
  match ws with
  | ["mnew", id, lp] =>
    match id.toNat?, lp.toNat? with
    | some id, some lp =>
      ({ s with mstates := (id, (lp != 0, false, LState.LSt.empty, StateM.StM.empty)) :: s.mstates.filter (·.1 != id) }, "ok")
    | _, _ => (s, "bad-op")
  | "mblock" :: id :: pre :: items =>
    match id.toNat?, preOf? pre with
    | some id, some pre =>
      match s.mstates.find? (·.1 == id) with
      | some (_, (lp, migrated, legacy, native)) =>
        match parseDiff items with
        | some d =>
          match StateM.update true native d with
          | some native' =>
            let legacy? := if migrated then some legacy else LState.update lp legacy d
            match legacy? with
            | some legacy' =>
              ({ s with mstates := (id, (lp, migrated, legacy', native')) :: s.mstates.filter (·.1 != id) },
                (commitmentStr pre (Trie2.hashRoot .pedersen native'.ctrie).1 (Trie2.hashRoot .poseidon native'.cltrie).1
                  ++ " " ++ recsStr native'.recs).trimAscii.toString)
            | none => (s, "rejected-by-legacy")
          | none => (s, "rejected")
        | none => (s, "bad-op")
      | none => (s, "bad-op")
    | _, _ => (s, "bad-op")
  | ["ynew", id, purge] =>
    match id.toNat?, purge.toNat? with
    | some id, some p =>
      ({ s with ystates := (id, (p != 0, LState.LSt.empty)) :: s.ystates.filter (·.1 != id) }, "ok")
    | _, _ => (s, "bad-op")
  | "yblock" :: id :: pre :: items =>
    match id.toNat?, preOf? pre with
    | some id, some pre =>
      match s.ystates.find? (·.1 == id) with
      | some (_, (purge, st)) =>
        match parseDiff items with
        | some d =>
          match LState.update purge st d with
          | some st' =>
            let fs := (LState.liveFields st').toArray.qsort (fun a b => pathNat a.1 < pathNat b.1)
            let dump := " ".intercalate (fs.toList.map (fun e =>
              "F:" ++ natToHex (pathNat e.1) ++ ":" ++ termStr e.2.1 ++ ":" ++ (match e.2.2 with | some n => termStr n | none => "-")))
            ({ s with ystates := (id, (purge, st')) :: s.ystates.filter (·.1 != id) },
              (commitmentStr pre (Trie2.hashRoot .pedersen st'.ctrie).1 (Trie2.hashRoot .poseidon st'.cltrie).1
                ++ " " ++ dump).trimAscii.toString)
          | none => (s, "rejected")
        | none => (s, "bad-op")
      | none => (s, "bad-op")
    | _, _ => (s, "bad-op")
  | ["mmigrate", id] =>
    match id.toNat? with
    | some id =>
      match s.mstates.find? (·.1 == id) with
      | some (_, (lp, _, legacy, native)) =>
        let m := StateM.upgradeF legacy.cls legacy.nonce native
        ({ s with mstates := (id, (lp, true, legacy, m)) :: s.mstates.filter (·.1 != id) },
          ("ok " ++ recsStr m.recs).trimAscii.toString)
      | none => (s, "bad-op")
    | none => (s, "bad-op")
  | _ => (s, "bad-op")

def step (s : St) (line : String) : St × String :=
  match words line with
  | ["new", id, h, k] =>
    match id.toNat?, h.toNat?, kindOf? k with
    | some id, some h, some k => (s.setT2 id ⟨h, k, .nil⟩, "ok")
    | _, _, _ => (s, "bad-op")
  | ["put", id, key, val] =>
    match id.toNat?, hexToNat? key, hexToNat? val with
    | some id, some key, some val =>
      match s.getT2 id with
      | some t =>
        if key ≥ 2 ^ t.height then (s, "err:key-too-big") else
        (s.setT2 id { t with root := Trie2.update t.root (natToPath t.height key) (.felt val) }, "ok")
      | none => (s, "bad-op")
    | _, _, _ => (s, "bad-op")
  | ["poke", id, key, val] =>
    -- the caller overwrote the felt it had passed to Update(key, &felt): the leaf changes in place
    match id.toNat?, hexToNat? key, hexToNat? val with
    | some id, some key, some val =>
      match s.getT2 id with
      | some t =>
        if key ≥ 2 ^ t.height then (s, "err:key-too-big") else
        (s.setT2 id { t with root := Trie2.poke t.root (natToPath t.height key) (.felt val) }, "ok")
      | none => (s, "bad-op")
    | _, _, _ => (s, "bad-op")
  | ["hash", id] =>
    match id.toNat? with
    | some id =>
      match s.getT2 id with
      | some t =>
        let r := Trie2.hashRoot t.kind t.root
        (s.setT2 id { t with root := r.2 }, termStr r.1)
      | none => (s, "bad-op")
    | none => (s, "bad-op")
  | ["get", id, key] =>
    match id.toNat?, hexToNat? key with
    | some id, some key =>
      match s.getT2 id with
      | some t => (s, termStr (Trie2.get t.root (natToPath t.height key)))
      | none => (s, "bad-op")
    | _, _ => (s, "bad-op")
  | "spec" :: h :: k :: kvs =>
    match h.toNat?, kindOf? k, kvs.mapM parseKV with
    | some h, some k, some kvs =>
      if h > 12 then (s, "bad-op") else
      let m : Path → HTerm := fun p =>
        match kvs.find? (fun kv => natToPath h kv.1 == p) with
        | some kv => .felt kv.2
        | none => .felt 0
      (s, termStr (Spec.root k h m))
    | _, _, _ => (s, "bad-op")
  | ["lnew", id, h, k] =>
    match id.toNat?, h.toNat?, kindOf? k with
    | some id, some h, some k =>
      ({ s with legacy := (id, Legacy.Trie.empty h k) :: s.legacy.filter (·.1 != id) }, "ok")
    | _, _, _ => (s, "bad-op")
  | ["lput", id, key, val] =>
    match id.toNat?, hexToNat? key, hexToNat? val with
    | some id, some key, some val =>
      match s.legacy.find? (·.1 == id) with
      | some (_, t) =>
        if key ≥ 2 ^ t.height then (s, "err:key-too-big") else
        match Legacy.put t (natToPath t.height key) (.felt val) with
        | some t' => ({ s with legacy := (id, t') :: s.legacy.filter (·.1 != id) }, "ok")
        | none => (s, "err:put")
      | none => (s, "bad-op")
    | _, _, _ => (s, "bad-op")
  | ["lhash", id] =>
    match id.toNat? with
    | some id =>
      match s.legacy.find? (·.1 == id) with
      | some (_, t) =>
        match Legacy.hash t with
        | some (h, t') => ({ s with legacy := (id, t') :: s.legacy.filter (·.1 != id) }, termStr h)
        | none => (s, "err:hash")
      | none => (s, "bad-op")
    | none => (s, "bad-op")
  | ["lreopen", id] =>
    match id.toNat? with
    | some id =>
      match s.legacy.find? (·.1 == id) with
      | some (_, t) => ({ s with legacy := (id, Legacy.reopen t) :: s.legacy.filter (·.1 != id) }, "ok")
      | none => (s, "bad-op")
    | none => (s, "bad-op")
  | ["bnew", id, h, k, fix] =>
    match id.toNat?, h.toNat?, kindOf? k, fix.toNat? with
    | some id, some h, some k, some fix =>
      ({ s with lazyT := (id, Trie2S.openTrie h k [] (fix != 0)) :: s.lazyT.filter (·.1 != id) }, "ok")
    | _, _, _, _ => (s, "bad-op")
  | ["bput", id, key, val] =>
    match id.toNat?, hexToNat? key, hexToNat? val with
    | some id, some key, some val =>
      match s.lazyT.find? (·.1 == id) with
      | some (_, t) =>
        if key ≥ 2 ^ t.height then (s, "err:key-too-big") else
        match Trie2S.update t (natToPath t.height key) (.felt val) with
        | some t' =>
          let flags := (if t'.tracer.viaIns > t.tracer.viaIns then "i" else "") ++
            (if t'.tracer.viaDel > t.tracer.viaDel then "d" else "") ++
            (if t'.tracer.viaSib > t.tracer.viaSib then "s" else "")
          ({ s with lazyT := (id, t') :: s.lazyT.filter (·.1 != id) }, if flags.isEmpty then "ok" else "ok:" ++ flags)
        | none => (s, "err:update")
      | none => (s, "bad-op")
    | _, _, _ => (s, "bad-op")
  | ["bhash", id] =>
    match id.toNat? with
    | some id =>
      match s.lazyT.find? (·.1 == id) with
      | some (_, t) =>
        let r := Trie2S.hash t
        ({ s with lazyT := (id, r.2) :: s.lazyT.filter (·.1 != id) }, termStr r.1)
      | none => (s, "bad-op")
    | none => (s, "bad-op")
  | ["bget", id, key] =>
    match id.toNat?, hexToNat? key with
    | some id, some key =>
      match s.lazyT.find? (·.1 == id) with
      | some (_, t) =>
        match Trie2S.get ⟨t.height, t.disk, false⟩ (2 * t.height + 4) t.root [] (natToPath t.height key) with
        | some v => (s, termStr v)
        | none => (s, "err:get")
      | none => (s, "bad-op")
    | _, _ => (s, "bad-op")
  | ["bcommit", id] =>
    match id.toNat? with
    | some id =>
      match s.lazyT.find? (·.1 == id) with
      | some (_, t) =>
        let (h, ns, t') := Trie2S.commitReopen t
        let body := match ns with
          | none => "none"
          | some ns => " ".intercalate ((sortSet ns).map setNodeStr)
        ({ s with lazyT := (id, t') :: s.lazyT.filter (·.1 != id) }, termStr h ++ " " ++ body)
      | none => (s, "bad-op")
    | none => (s, "bad-op")
  | ["bdump", id] =>
    match id.toNat? with
    | some id =>
      match s.lazyT.find? (·.1 == id) with
      | some (_, t) =>
        let es := (t.disk.toArray.qsort (fun a b =>
          a.1.1.length < b.1.1.length ||
          (a.1.1.length == b.1.1.length && (pathNat a.1.1 < pathNat b.1.1 ||
            (pathNat a.1.1 == pathNat b.1.1 && !a.1.2 && b.1.2))))).toList
        (s, if es.isEmpty then "empty" else " ".intercalate (es.map diskEntryStr))
      | none => (s, "bad-op")
    | none => (s, "bad-op")
  | ["znew", id, h, k] =>
    match id.toNat?, h.toNat?, kindOf? k with
    | some id, some h, some k => ({ s with lazyL := (id, (h, k, .nil)) :: s.lazyL.filter (·.1 != id) }, "ok")
    | _, _, _ => (s, "bad-op")
  | ["zput", id, key, val] =>
    match id.toNat?, hexToNat? key, hexToNat? val with
    | some id, some key, some val =>
      match s.lazyL.find? (·.1 == id) with
      | some (_, (h, k, t)) =>
        if key ≥ 2 ^ h then (s, "err:key-too-big") else
        ({ s with lazyL := (id, (h, k, TrieL.update t (natToPath h key) (.felt val))) :: s.lazyL.filter (·.1 != id) }, "ok")
      | none => (s, "bad-op")
    | _, _, _ => (s, "bad-op")
  | ["zget", id, key] =>
    -- Trie.Get: the answer, and the tree with the nodes it resolved kept resolved
    match id.toNat?, hexToNat? key with
    | some id, some key =>
      match s.lazyL.find? (·.1 == id) with
      | some (_, (h, k, t)) =>
        if key ≥ 2 ^ h then (s, "err:key-too-big") else
        let r := TrieL.getR t (natToPath h key)
        ({ s with lazyL := (id, (h, k, r.2.1)) :: s.lazyL.filter (·.1 != id) }, termStr r.1)
      | none => (s, "bad-op")
    | _, _ => (s, "bad-op")
  | ["zhash", id] =>
    match id.toNat? with
    | some id =>
      match s.lazyL.find? (·.1 == id) with
      | some (_, (h, k, t)) =>
        ({ s with lazyL := (id, (h, k, TrieL.hashRoot k t)) :: s.lazyL.filter (·.1 != id) }, termStr (TrieL.rootHash k t))
      | none => (s, "bad-op")
    | none => (s, "bad-op")
  | ["zreopen", id] =>
    match id.toNat? with
    | some id =>
      match s.lazyL.find? (·.1 == id) with
      | some (_, (h, k, t)) =>
        ({ s with lazyL := (id, (h, k, TrieL.reopen k (TrieL.hashRoot k t))) :: s.lazyL.filter (·.1 != id) }, "ok")
      | none => (s, "bad-op")
    | none => (s, "bad-op")
  | ["snew", id, purge] =>
    match id.toNat?, purge.toNat? with
    | some id, some p =>
      ({ s with states := (id, (p != 0, State.St.empty)) :: s.states.filter (·.1 != id) }, "ok")
    | _, _ => (s, "bad-op")
  | "sblock" :: id :: pre :: items =>
    match id.toNat?, preOf? pre with
    | some id, some pre =>
      match s.states.find? (·.1 == id) with
      | some (_, (purge, st)) =>
        match parseDiff items with
        | some d =>
          match State.update purge st d with
          | some st' =>
            ({ s with states := (id, (purge, st')) :: s.states.filter (·.1 != id) }, stCommitmentStr pre st')
          | none => (s, "rejected")
        | none => (s, "bad-op")
      | none => (s, "bad-op")
    | _, _ => (s, "bad-op")
  | ["ver", v] =>
    if v.startsWith "v=" then
      (s, match Version.pre014? (v.drop 2).toString with
        | some true => "pre"
        | some false => "post"
        | none => "err")
    else (s, "bad-op")
  | ["tnew", id, purge] =>
    match id.toNat?, purge.toNat? with
    | some id, some p =>
      ({ s with lstates := (id, (p != 0, StateL.StL.empty)) :: s.lstates.filter (·.1 != id) }, "ok")
    | _, _ => (s, "bad-op")
  | "tblock" :: id :: restart :: pre :: items =>
    match id.toNat?, restart.toNat?, preOf? pre with
    | some id, some restart, some pre =>
      match s.lstates.find? (·.1 == id) with
      | some (_, (purge, st)) =>
        match parseDiff items with
        | some d =>
          match StateL.update purge (restart != 0) st d with
          | some st' =>
            ({ s with lstates := (id, (purge, st')) :: s.lstates.filter (·.1 != id) },
              commitmentStr pre (TrieL.rootHash .pedersen st'.ctrie) (TrieL.rootHash .poseidon st'.cltrie))
          | none => (s, "rejected")
        | none => (s, "bad-op")
      | none => (s, "bad-op")
    | _, _, _ => (s, "bad-op")
  | ["cnew", id, fixed, purge] =>
    match id.toNat?, fixed.toNat?, purge.toNat? with
    | some id, some fx, some p =>
      ({ s with chains := (id, (fx != 0, p != 0, State.St.empty, .felt 0)) :: s.chains.filter (·.1 != id) }, "ok")
    | _, _, _ => (s, "bad-op")
  | "cfin" :: id :: pre :: items =>
    match id.toNat?, preOf? pre with
    | some id, some (some pre) =>
      match s.chains.find? (·.1 == id) with
      | some (_, (fixed, purge, st, head)) =>
        match parseDiff items with
        | some d =>
          match Chain.finalise fixed purge pre (some head) st d with
          | some (st', stored) =>
            ({ s with chains := (id, (fixed, purge, st', stored.root)) :: s.chains.filter (·.1 != id) },
              termStr stored.root ++ " " ++ termStr stored.old ++ " " ++ termStr stored.new)
          | none => (s, "rejected")
        | none => (s, "bad-op")
      | none => (s, "bad-op")
    | _, _ => (s, "bad-op")
  | "cstore" :: id :: pre :: oldSel :: newSel :: items =>
    match id.toNat?, preOf? pre with
    | some id, some (some pre) =>
      match s.chains.find? (·.1 == id) with
      | some (_, (fixed, purge, st, head)) =>
        match parseDiff items with
        | some d =>
          let old? : Option HTerm := match oldSel with
            | "prev" => some head
            | "cur" => some (State.commitment pre st)
            | "bad" => some (.felt 0xdead)
            | _ => none
          -- the right new root is only known after the update; `bad` is a value no commitment equals
          let new? : Option (Option HTerm) := match newSel with
            | "ok" => some ((State.update purge st d).map (State.commitment pre))
            | "bad" => some (some (.felt 0xdead))
            | _ => none
          match old?, new? with
          | some old, some (some new) =>
            match Chain.store fixed purge pre old new st d with
            | some (st', stored) =>
              ({ s with chains := (id, (fixed, purge, st', stored.root)) :: s.chains.filter (·.1 != id) },
                termStr stored.root ++ " " ++ termStr stored.old ++ " " ++ termStr stored.new)
            | none => (s, "rejected")
          | some _, some none => (s, "rejected")      -- the diff itself is not accepted
          | _, _ => (s, "bad-op")
        | none => (s, "bad-op")
      | none => (s, "bad-op")
    | _, _ => (s, "bad-op")
  | ["sold", id, fixed, prePrev, preNew] =>
    -- the old-root check of Update: OldRoot = root stored for the previous block (computed under prePrev)
    match id.toNat?, fixed.toNat?, prePrev.toNat?, preNew.toNat? with
    | some id, some fx, some pp, some pn =>
      match s.states.find? (·.1 == id) with
      | some (_, (_, st)) =>
        (s, if State.oldRootOK (fx != 0) (pn != 0) (State.commitment (pp != 0) st) st then "ok" else "mismatch")
      | none => (s, "bad-op")
    | _, _, _, _ => (s, "bad-op")
  | "comm" :: k :: items =>
    -- calculateCommitment: item i under key i of a height-64 trie (`commitmentOps`)
    match kindOf? k, items.mapM hexToNat? with
    | some k, some vs =>
      (s, termStr (Trie2.hashRoot k (Trie2.run k (commitmentOps (vs.map HTerm.felt)))).1)
    | _, _ => (s, "bad-op")
  | "sdiscard" :: id :: pre :: items =>
    -- an update that is executed and dropped: answer the root it computes, keep the state
    match id.toNat?, preOf? pre with
    | some id, some pre =>
      match s.states.find? (·.1 == id) with
      | some (_, (purge, st)) =>
        match parseDiff items with
        | some d =>
          match State.update purge st d with
          | some st' => (s, stCommitmentStr pre st')
          | none => (s, "rejected")
        | none => (s, "bad-op")
      | none => (s, "bad-op")
    | _, _ => (s, "bad-op")
  | ws => stepM s ws

def main : IO Unit := loop step {}
