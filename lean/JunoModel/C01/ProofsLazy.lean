import JunoModel.C01.ProofsSpec
import JunoModel.C01.ModelLazy
/-!
Helper lemmas for C01, part 5: operations through unresolved hash nodes commute with resolution
(`erase`), so the invariant of `ProofsSpec` carries across Commit + reopen.
-/
namespace Juno.C01
namespace TrieL

/-- An unresolved node stands for an edge or a binary node (`DecodeNode` turns leaf-level children
into value nodes, never into hash nodes). -/
def LazyOK : LNode → Prop
  | .lazy _ sub => (match sub with | .edge .. | .bin .. => True | _ => False) ∧ LazyOK sub
  | .edge _ c _ => LazyOK c
  | .bin l r _ => LazyOK l ∧ LazyOK r
  | _ => True

def NotLazy : LNode → Prop
  | .lazy .. => False
  | _ => True

theorem erase_insNil (p : Path) (c : LNode) : erase (insNil p c) = Trie2.insNil p (erase c) := by
  unfold insNil Trie2.insNil
  split <;> simp [erase]

theorem lazyOK_insNil {p : Path} {c : LNode} (h : LazyOK c) : LazyOK (insNil p c) := by
  unfold insNil
  split
  · exact h
  · exact h

/-- erase of an unresolved node is an edge or a binary node, in particular not a value / nil -/
theorem erase_lazy_shape {h : HTerm} {sub : LNode} (hl : LazyOK (.lazy h sub)) :
    (∃ p c fl, erase sub = .edge p c fl) ∨ (∃ l r fl, erase sub = .bin l r fl) := by
  cases sub with
  | edge p c fl => exact Or.inl ⟨_, _, _, rfl⟩
  | bin l r fl => exact Or.inr ⟨_, _, _, rfl⟩
  | nil => simp [LazyOK] at hl
  | value v => simp [LazyOK] at hl
  | lazy h' s' => simp [LazyOK] at hl

theorem ins_erase (t : LNode) (hl : LazyOK t) (key : Path) (v : HTerm) :
    erase (ins t key v).1 = (Trie2.ins (erase t) key v).1 ∧
    (ins t key v).2 = (Trie2.ins (erase t) key v).2 ∧ LazyOK (ins t key v).1 := by
  induction t generalizing key with
  | nil => cases key <;> simp [ins, Trie2.ins, erase, LazyOK]
  | value w => cases key <;> simp [ins, Trie2.ins, erase, LazyOK]
  | lazy h sub ih =>
    have hsub : LazyOK sub := hl.2
    obtain ⟨i1, i2, i3⟩ := ih hsub key
    cases key with
    | nil =>
      rcases erase_lazy_shape hl with ⟨p, c, fl, e⟩ | ⟨l, r, fl, e⟩ <;>
        simp [ins, erase, e, Trie2.ins, LazyOK]
    | cons b ks =>
      simp only [ins, erase]
      by_cases hd : (ins sub (b :: ks) v).2 = true
      · simp only [hd, Bool.not_true, Bool.false_eq_true, if_false]
        exact ⟨i1, by rw [← i2, hd], i3⟩
      · have hd' : (ins sub (b :: ks) v).2 = false := by simpa using hd
        simp only [hd', Bool.not_false, if_true]
        have hA : (Trie2.ins (erase sub) (b :: ks) v).2 = false := by rw [← i2]; exact hd'
        exact ⟨(ins_clean hA).symm, hA.symm, hsub⟩
  | edge p c fl ih =>
    cases key with
    | nil => simp [ins, Trie2.ins, erase, LazyOK]
    | cons b ks =>
      have hc : LazyOK c := hl
      simp only [ins, Trie2.ins, erase]
      by_cases hfull : (cpre p (b :: ks)).length = p.length
      · simp only [hfull, if_true]
        obtain ⟨i1, i2, i3⟩ := ih hc (List.drop p.length (b :: ks))
        rw [← i2]
        by_cases hd : (ins c (List.drop p.length (b :: ks)) v).2 = true
        · simp only [hd, Bool.not_true, Bool.false_eq_true, if_false, erase, i1]
          exact ⟨trivial, trivial, i3⟩
        · have hd' : (ins c (List.drop p.length (b :: ks)) v).2 = false := by simpa using hd
          simp only [hd', Bool.not_false, if_true, erase]
          exact ⟨trivial, trivial, hc⟩
      · simp only [hfull, if_false]
        have hold := lazyOK_insNil (p := List.drop ((cpre p (b :: ks)).length + 1) p) hc
        have hnew : LazyOK (insNil (List.drop ((cpre p (b :: ks)).length + 1) (b :: ks)) (.value v)) :=
          lazyOK_insNil (by simp [LazyOK])
        by_cases hm : (cpre p (b :: ks)).isEmpty = true
        · simp only [hm, if_true]
          refine ⟨?_, trivial, ?_⟩
          · simp only [erase]
            congr 1 <;> (split <;> (try split) <;> simp [erase_insNil, erase])
          · refine ⟨?_, ?_⟩ <;> (split <;> (try split) <;> simp_all [LazyOK])
        · simp only [hm, Bool.false_eq_true, if_false]
          refine ⟨?_, trivial, ?_⟩
          · simp only [erase]
            congr 2 <;> (split <;> (try split) <;> simp [erase_insNil, erase])
          · simp only [LazyOK]
            refine ⟨?_, ?_⟩ <;> (split <;> (try split) <;> simp_all [LazyOK])
  | bin l r fl ihl ihr =>
    cases key with
    | nil => simp [ins, Trie2.ins, erase, LazyOK]
    | cons b ks =>
      simp only [ins, Trie2.ins, erase]
      cases b
      · obtain ⟨i1, i2, i3⟩ := ihl hl.1 ks
        simp only [Bool.false_eq_true, if_false]
        rw [← i2]
        by_cases hd : (ins l ks v).2 = true
        · simp only [hd, Bool.not_true, Bool.false_eq_true, if_false, erase, i1]
          exact ⟨trivial, trivial, i3, hl.2⟩
        · have hd' : (ins l ks v).2 = false := by simpa using hd
          simp only [hd', Bool.not_false, if_true, erase]
          exact ⟨trivial, trivial, hl⟩
      · obtain ⟨i1, i2, i3⟩ := ihr hl.2 ks
        simp only [if_true]
        rw [← i2]
        by_cases hd : (ins r ks v).2 = true
        · simp only [hd, Bool.not_true, Bool.false_eq_true, if_false, erase, i1]
          exact ⟨trivial, trivial, hl.1, i3⟩
        · have hd' : (ins r ks v).2 = false := by simpa using hd
          simp only [hd', Bool.not_false, if_true, erase]
          exact ⟨trivial, trivial, hl⟩

theorem lazyOK_sub_of_shape {sub : LNode} (h : LazyOK sub) :
    (match sub with | .edge .. | .bin .. => True | _ => False) → NotLazy sub := by
  cases sub <;> simp [NotLazy]

theorem del_erase (t : LNode) (hl : LazyOK t) (key : Path) :
    erase (del t key).1 = (Trie2.del (erase t) key).1 ∧
    (del t key).2 = (Trie2.del (erase t) key).2 ∧ LazyOK (del t key).1 ∧
    ((del t key).2 = true → NotLazy (del t key).1) := by
  induction t generalizing key with
  | nil => simp [del, Trie2.del, erase, LazyOK]
  | value w => simp [del, Trie2.del, erase, LazyOK, NotLazy]
  | lazy h sub ih =>
    have hsub : LazyOK sub := hl.2
    obtain ⟨i1, i2, i3, i4⟩ := ih hsub key
    simp only [del, erase]
    by_cases hd : (del sub key).2 = true
    · simp only [hd, Bool.not_true, Bool.false_eq_true, if_false]
      exact ⟨i1, by rw [← i2, hd], i3, fun _ => i4 hd⟩
    · have hd' : (del sub key).2 = false := by simpa using hd
      simp only [hd', Bool.not_false, if_true]
      have hA : (Trie2.del (erase sub) key).2 = false := by rw [← i2]; exact hd'
      exact ⟨(del_clean hA).symm, hA.symm, hsub, by simp⟩
  | edge p c fl ih =>
    have hc : LazyOK c := hl
    simp only [del, Trie2.del, erase]
    by_cases h1 : (cpre p key).length < p.length
    · simp only [h1, if_true, erase]
      exact ⟨trivial, trivial, hl, by simp⟩
    · simp only [h1, if_false]
      by_cases h2 : (cpre p key).length = key.length
      · simp [h2, erase, LazyOK, NotLazy]
      · simp only [h2, if_false]
        obtain ⟨i1, i2, i3, i4⟩ := ih hc (List.drop p.length key)
        rw [← i2]
        by_cases hd : (del c (List.drop p.length key)).2 = true
        · simp only [hd, Bool.not_true, Bool.false_eq_true, if_false]
          have hnl := i4 hd
          cases hres : (del c (List.drop p.length key)).1 with
          | lazy h' s' => rw [hres] at hnl; simp [NotLazy] at hnl
          | nil =>
            rw [hres] at i1 i3
            simp only [erase] at i1
            simp [← i1, erase, LazyOK, NotLazy]
          | value x =>
            rw [hres] at i1 i3
            simp only [erase] at i1
            simp [← i1, erase, LazyOK, NotLazy]
          | edge q cc qfl =>
            rw [hres] at i1 i3
            simp only [erase] at i1
            simp only [← i1, erase]
            exact ⟨trivial, trivial, i3, by simp [NotLazy]⟩
          | bin bl br bfl =>
            rw [hres] at i1 i3
            simp only [erase] at i1
            simp only [← i1, erase]
            exact ⟨trivial, trivial, i3, by simp [NotLazy]⟩
        · have hd' : (del c (List.drop p.length key)).2 = false := by simpa using hd
          simp only [hd', Bool.not_false, if_true, erase]
          exact ⟨trivial, trivial, hl, by simp⟩
  | bin l r fl ihl ihr =>
    cases key with
    | nil => simp [del, Trie2.del, erase]; exact hl
    | cons b ks =>
      simp only [del, Trie2.del, erase]
      -- the child we descend into / the other child, uniformly in b
      have main : ∀ (ch other : LNode), LazyOK ch → LazyOK other →
          (erase (del ch ks).1 = (Trie2.del (erase ch) ks).1 ∧
            (del ch ks).2 = (Trie2.del (erase ch) ks).2 ∧ LazyOK (del ch ks).1 ∧
            ((del ch ks).2 = true → NotLazy (del ch ks).1)) →
          ∀ (mk : LNode → LNode) (mkA : Node → Node),
            (∀ x, erase (mk x) = mkA (erase x)) → (∀ x, LazyOK x → LazyOK (mk x)) → (∀ x, NotLazy (mk x)) →
          let resL := (if !(del ch ks).2 then (LNode.bin l r fl, false)
            else match (del ch ks).1 with
              | .nil =>
                (match (match other with | .lazy _ sub => sub | o => o) with
                  | .edge q cc _ => (LNode.edge ((!b) :: q) cc Flags.new, true)
                  | o => (LNode.edge [!b] o Flags.new, true))
              | c' => (mk c', true))
          let resA := (if !(Trie2.del (erase ch) ks).2 then (Node.bin (erase l) (erase r) fl, false)
            else match (Trie2.del (erase ch) ks).1 with
              | .nil =>
                (match erase other with
                  | .edge q cc _ => (Node.edge ((!b) :: q) cc Flags.new, true)
                  | o => (Node.edge [!b] o Flags.new, true))
              | c' => (mkA c', true))
          erase resL.1 = resA.1 ∧ resL.2 = resA.2 ∧ LazyOK resL.1 ∧ (resL.2 = true → NotLazy resL.1) := by
        intro ch other hch hother ⟨i1, i2, i3, i4⟩ mk mkA hmk hmkl hmkn
        simp only []
        rw [← i2]
        by_cases hd : (del ch ks).2 = true
        · simp only [hd, Bool.not_true, Bool.false_eq_true, if_false]
          have hnl := i4 hd
          cases hres : (del ch ks).1 with
          | lazy h' s' => rw [hres] at hnl; simp [NotLazy] at hnl
          | nil =>
            rw [hres] at i1
            simp only [erase] at i1
            simp only [← i1]
            -- collapse into the other child
            cases other with
            | lazy oh osub =>
              have hsh := hother.1
              cases osub with
              | edge q cc qfl => simp [erase, LazyOK, NotLazy] at hother ⊢; exact hother
              | bin ol or_ ofl => simp [erase, LazyOK, NotLazy] at hother ⊢; exact hother
              | nil => simp at hsh
              | value x => simp at hsh
              | lazy a b' => simp at hsh
            | edge q cc qfl => simp [erase, LazyOK, NotLazy] at hother ⊢; exact hother
            | bin ol or_ ofl => simp [erase, LazyOK, NotLazy] at hother ⊢; exact hother
            | nil => simp [erase, LazyOK, NotLazy]
            | value x => simp [erase, LazyOK, NotLazy]
          | value x =>
            rw [hres] at i1 i3
            simp only [erase] at i1
            simp only [← i1]
            exact ⟨hmk _, trivial, hmkl _ i3, fun _ => hmkn _⟩
          | edge q cc qfl =>
            rw [hres] at i1 i3
            simp only [erase] at i1
            simp only [← i1]
            exact ⟨hmk _, trivial, hmkl _ i3, fun _ => hmkn _⟩
          | bin bl br bfl =>
            rw [hres] at i1 i3
            simp only [erase] at i1
            simp only [← i1]
            exact ⟨hmk _, trivial, hmkl _ i3, fun _ => hmkn _⟩
        · have hd' : (del ch ks).2 = false := by simpa using hd
          simp only [hd', Bool.not_false, if_true, erase]
          exact ⟨trivial, trivial, hl, by simp⟩
      cases b
      · have := main l r hl.1 hl.2 (ihl hl.1 ks) (fun c' => .bin c' r Flags.new) (fun c' => .bin c' (erase r) Flags.new)
          (by intro x; simp [erase]) (by intro x hx; exact ⟨hx, hl.2⟩) (by intro x; simp [NotLazy])
        exact this
      · have := main r l hl.2 hl.1 (ihr hl.2 ks) (fun c' => .bin l c' Flags.new) (fun c' => .bin (erase l) c' Flags.new)
          (by intro x; simp [erase]) (by intro x hx; exact ⟨hl.1, hx⟩) (by intro x; simp [NotLazy])
        exact this

/-! ### hashes -/

theorem rawHashL_erase (k : HashKind) (t : LNode) : rawHashL k t = rawHash k (erase t) := by
  induction t with
  | nil => rfl
  | value v => rfl
  | lazy h sub ih => simpa [rawHashL, erase] using ih
  | edge p c fl ih => simp [rawHashL, erase, rawHash, ih]
  | bin l r fl ihl ihr => simp [rawHashL, erase, rawHash, ihl, ihr]

/-- cached hashes AND the hashes of unresolved nodes are the hashes of the subtrees they stand for -/
def CacheOKL (k : HashKind) : LNode → Prop
  | .lazy h sub => h = rawHashL k sub ∧ CacheOKL k sub
  | .edge p c fl => (∀ x, fl.hash = some x → x = rawHashL k (.edge p c fl)) ∧ CacheOKL k c
  | .bin l r fl => (∀ x, fl.hash = some x → x = rawHashL k (.bin l r fl)) ∧ CacheOKL k l ∧ CacheOKL k r
  | _ => True

theorem cacheOKL_insNil {k : HashKind} {p : Path} {c : LNode} (h : CacheOKL k c) :
    CacheOKL k (insNil p c) := by
  unfold insNil
  split
  · exact h
  · exact ⟨by simp [Flags.new], h⟩

theorem ins_cacheOKL {k : HashKind} {t : LNode} (h : CacheOKL k t) (key : Path) (v : HTerm) :
    CacheOKL k (ins t key v).1 := by
  induction t generalizing key with
  | nil => cases key <;> simp [ins, CacheOKL, Flags.new]
  | value w => cases key <;> simp [ins, CacheOKL]
  | lazy x sub ih =>
    cases key with
    | nil => simp [ins, CacheOKL]
    | cons b ks =>
      simp only [ins]
      split
      · exact h.2
      · exact ih h.2 _
  | edge p c fl ih =>
    cases key with
    | nil => simp [ins, CacheOKL]
    | cons b ks =>
      simp only [ins]
      split
      · split
        · exact h
        · exact ⟨by simp [Flags.new], ih h.2 _⟩
      · have hold : CacheOKL k (insNil (List.drop ((cpre p (b :: ks)).length + 1) p) c) :=
          cacheOKL_insNil h.2
        have hnew : CacheOKL k (insNil (List.drop ((cpre p (b :: ks)).length + 1) (b :: ks)) (.value v)) :=
          cacheOKL_insNil (by simp [CacheOKL])
        have hbr : CacheOKL k (LNode.bin
            (if (b :: ks).getD (cpre p (b :: ks)).length false = false then
              insNil (List.drop ((cpre p (b :: ks)).length + 1) (b :: ks)) (.value v)
             else if p.getD (cpre p (b :: ks)).length false = false then
              insNil (List.drop ((cpre p (b :: ks)).length + 1) p) c else .nil)
            (if (b :: ks).getD (cpre p (b :: ks)).length false = true then
              insNil (List.drop ((cpre p (b :: ks)).length + 1) (b :: ks)) (.value v)
             else if p.getD (cpre p (b :: ks)).length false = true then
              insNil (List.drop ((cpre p (b :: ks)).length + 1) p) c else .nil) Flags.new) := by
          refine ⟨by simp [Flags.new], ?_, ?_⟩
          · split
            · exact hnew
            · split
              · exact hold
              · simp [CacheOKL]
          · split
            · exact hnew
            · split
              · exact hold
              · simp [CacheOKL]
        split
        · exact hbr
        · exact ⟨by simp [Flags.new], hbr⟩
  | bin l r fl ihl ihr =>
    cases key with
    | nil => simp [ins, CacheOKL]
    | cons b ks =>
      simp only [ins]
      cases b
      · simp only [Bool.false_eq_true, if_false]
        split
        · exact h
        · exact ⟨by simp [Flags.new], ihl h.2.1 _, h.2.2⟩
      · simp only [if_true]
        split
        · exact h
        · exact ⟨by simp [Flags.new], h.2.1, ihr h.2.2 _⟩

theorem del_cacheOKL {k : HashKind} {t : LNode} (h : CacheOKL k t) (key : Path) :
    CacheOKL k (del t key).1 := by
  induction t generalizing key with
  | nil => simp [del, CacheOKL]
  | value w => simp [del, CacheOKL]
  | lazy x sub ih =>
    simp only [del]
    split
    · exact h.2
    · exact ih h.2 _
  | edge p c fl ih =>
    simp only [del]
    split
    · exact h
    · split
      · simp [CacheOKL]
      · have hc := ih h.2 (List.drop p.length key)
        split
        · exact h
        · split
          · rename_i q cc qfl heq
            rw [heq] at hc
            exact ⟨by simp [Flags.new], hc.2⟩
          · exact ⟨by simp [Flags.new], hc⟩
  | bin l r fl ihl ihr =>
    cases key with
    | nil => simpa [del] using h
    | cons b ks =>
      simp only [del]
      have hother : ∀ (o : LNode), CacheOKL k o →
          CacheOKL k (match (match o with | .lazy _ sub => sub | o => o) with
            | .edge q cc _ => (LNode.edge ((!b) :: q) cc Flags.new, true)
            | o => (LNode.edge [!b] o Flags.new, true)).1 := by
        intro o ho
        cases o with
        | lazy x sub =>
          simp only []
          have hs := ho.2
          split
          · rename_i q cc qfl
            exact ⟨by simp [Flags.new], hs.2⟩
          · exact ⟨by simp [Flags.new], hs⟩
        | edge q cc qfl => exact ⟨by simp [Flags.new], ho.2⟩
        | nil => exact ⟨by simp [Flags.new], ho⟩
        | value x => exact ⟨by simp [Flags.new], ho⟩
        | bin a b' c' => exact ⟨by simp [Flags.new], ho⟩
      cases b
      · simp only [Bool.false_eq_true, if_false, Bool.not_false]
        have hres := ihl h.2.1 ks
        split
        · exact h
        · split
          · exact hother r h.2.2
          · exact ⟨by simp [Flags.new], hres, h.2.2⟩
      · simp only [if_true, Bool.not_true]
        have hres := ihr h.2.2 ks
        split
        · exact h
        · split
          · exact hother l h.2.1
          · exact ⟨by simp [Flags.new], h.2.1, hres⟩

theorem hashNode_spec (k : HashKind) (t : LNode) (h : CacheOKL k t) :
    (hashNode k t).1 = rawHashL k t ∧ CacheOKL k (hashNode k t).2 ∧
    rawHashL k (hashNode k t).2 = rawHashL k t ∧
    (∀ key, Trie2.get (erase (hashNode k t).2) key = Trie2.get (erase t) key) ∧
    (LazyOK t → LazyOK (hashNode k t).2) := by
  induction t with
  | nil => simp [hashNode, rawHashL, CacheOKL]
  | value v => simp [hashNode, rawHashL, CacheOKL]
  | lazy x sub ih => exact ⟨by simpa [hashNode, rawHashL] using h.1, h, rfl, fun _ => rfl, fun hl => hl⟩
  | edge p c fl ih =>
    unfold hashNode
    cases hfl : fl.hash with
    | some x =>
      simp only []
      exact ⟨h.1 x hfl, h, by simp, by simp, fun hl => hl⟩
    | none =>
      simp only []
      have hc : ∀ (r : HTerm × LNode), r.1 = rawHashL k c → CacheOKL k r.2 → rawHashL k r.2 = rawHashL k c →
          (∀ key, Trie2.get (erase r.2) key = Trie2.get (erase c) key) → (LazyOK c → LazyOK r.2) →
          Trie2.edgeHash k p r.1 = rawHashL k (.edge p c fl) ∧
          CacheOKL k (.edge p r.2 { fl with hash := some (Trie2.edgeHash k p r.1) }) ∧
          rawHashL k (.edge p r.2 { fl with hash := some (Trie2.edgeHash k p r.1) }) = rawHashL k (.edge p c fl) ∧
          (∀ key, Trie2.get (erase (.edge p r.2 { fl with hash := some (Trie2.edgeHash k p r.1) })) key =
            Trie2.get (erase (.edge p c fl)) key) ∧
          (LazyOK (.edge p c fl) → LazyOK (.edge p r.2 { fl with hash := some (Trie2.edgeHash k p r.1) })) := by
        intro r h1 h2 h3 h4 h5
        refine ⟨by simp [rawHashL, h1], ⟨?_, h2⟩, by simp [rawHashL, h3], ?_, fun hl => h5 hl⟩
        · intro x hx
          simp at hx
          simp [← hx, rawHashL, h1, h3]
        · intro key; simp [erase, Trie2.get, h4]
      cases c with
      | nil => exact hc (_, _) rfl (by simp [CacheOKL]) rfl (fun _ => rfl) (fun hl => hl)
      | value v => exact hc (_, _) rfl (by simp [CacheOKL]) rfl (fun _ => rfl) (fun hl => hl)
      | lazy x sub => exact hc (_, _) (by simpa [selfHash, rawHashL] using h.2.1) h.2 rfl (fun _ => rfl) (fun hl => hl)
      | edge q cc qfl => obtain ⟨a, b, c', d, e⟩ := ih h.2; exact hc _ a b c' d e
      | bin l r bfl => obtain ⟨a, b, c', d, e⟩ := ih h.2; exact hc _ a b c' d e
  | bin l r fl ihl ihr =>
    unfold hashNode
    cases hfl : fl.hash with
    | some x =>
      simp only []
      exact ⟨h.1 x hfl, h, by simp, by simp, fun hl => hl⟩
    | none =>
      simp only []
      obtain ⟨a1, a2, a3, a4, a5⟩ := ihl h.2.1
      obtain ⟨b1, b2, b3, b4, b5⟩ := ihr h.2.2
      split <;> split <;>
      · refine ⟨by simp [rawHashL, a1, b1], ⟨?_, by simp [CacheOKL, a2], by simp [CacheOKL, b2]⟩,
          by simp [rawHashL, a3, b3], ?_, ?_⟩
        · intro x hx; simp at hx; simp [← hx, rawHashL, a1, b1, a3, b3]
        · intro key
          cases key with
          | nil => simp [erase, Trie2.get]
          | cons b ks => cases b <;> simp [erase, Trie2.get, a4, b4]
        · intro hl
          simp only [LazyOK] at hl ⊢
          exact ⟨by first | exact a5 hl.1 | trivial, by first | exact b5 hl.2 | trivial⟩

theorem hashNode_wf (k : HashKind) (t : LNode) {n : Nat} (h : WF (erase t) n) :
    WF (erase (hashNode k t).2) n := by
  induction t generalizing n with
  | nil => simpa [hashNode] using h
  | value v => simpa [hashNode] using h
  | lazy x sub ih => simpa [hashNode] using h
  | edge p c fl ih =>
    unfold hashNode
    cases fl.hash with
    | some x => exact h
    | none =>
      simp only []
      simp only [erase] at h
      cases h with
      | @edge _ _ n' _ hp hc hne =>
        cases c with
        | nil => exact WF.edge hp hc hne
        | value v => exact WF.edge hp hc hne
        | lazy x sub => exact WF.edge hp hc hne
        | edge q cc qfl => simp [erase, NotEdge] at hne
        | bin l r bfl =>
          simp only [erase]
          refine WF.edge hp (ih hc) ?_
          unfold hashNode
          cases bfl.hash <;> simp [erase, NotEdge]
  | bin l r fl ihl ihr =>
    unfold hashNode
    cases fl.hash with
    | some x => exact h
    | none =>
      simp only []
      simp only [erase] at h
      cases h with
      | bin hl hr =>
        split
        · exact absurd rfl hl.ne_nil
        · split
          · exact absurd rfl hr.ne_nil
          · exact WF.bin (ihl hl) (ihr hr)

/-! ### reopening -/

/-- same tree up to the flags -/
inductive FlagEq : Node → Node → Prop
  | nil : FlagEq .nil .nil
  | value (v : HTerm) : FlagEq (.value v) (.value v)
  | hash (h : HTerm) : FlagEq (.hash h) (.hash h)
  | edge {p : Path} {c c' : Node} {fl fl' : Flags} : FlagEq c c' → FlagEq (.edge p c fl) (.edge p c' fl')
  | bin {l r l' r' : Node} {fl fl' : Flags} : FlagEq l l' → FlagEq r r' → FlagEq (.bin l r fl) (.bin l' r' fl')

theorem FlagEq.refl (a : Node) : FlagEq a a := by
  induction a with
  | nil => exact .nil
  | value v => exact .value v
  | hash h => exact .hash h
  | edge p c fl ih => exact .edge ih
  | bin l r fl ihl ihr => exact .bin ihl ihr

theorem FlagEq.notEdge {a b : Node} (h : FlagEq a b) (hn : NotEdge a) : NotEdge b := by
  cases h <;> simp_all [NotEdge]

theorem FlagEq.wf {a b : Node} (h : FlagEq a b) {n : Nat} (hw : WF a n) : WF b n := by
  induction h generalizing n with
  | nil => exact hw
  | value v => exact hw
  | hash x => exact hw
  | edge hc ih =>
    cases hw with
    | edge hp hcw hne => exact WF.edge hp (ih hcw) (hc.notEdge hne)
  | bin hl hr ihl ihr =>
    cases hw with
    | bin wl wr => exact WF.bin (ihl wl) (ihr wr)

theorem FlagEq.get {a b : Node} (h : FlagEq a b) (key : Path) : Trie2.get a key = Trie2.get b key := by
  induction h generalizing key with
  | nil => rfl
  | value v => rfl
  | hash x => rfl
  | edge _ ih => simp [Trie2.get, ih]
  | bin _ _ ihl ihr =>
    cases key with
    | nil => rfl
    | cons b ks => cases b <;> simp [Trie2.get, ihl, ihr]

def IsInner : LNode → Prop
  | .edge .. => True
  | .bin .. => True
  | _ => False

theorem wrap_spec (k : HashKind) (c dc : LNode)
    (i1 : rawHashL k dc = rawHashL k c) (i2 : FlagEq (erase c) (erase dc))
    (i3 : CacheOKL k c → CacheOKL k dc) (i4 : LazyOK c → LazyOK dc) (i5 : IsInner c → IsInner dc) :
    rawHashL k (wrap k c dc) = rawHashL k c ∧ FlagEq (erase c) (erase (wrap k c dc)) ∧
    (CacheOKL k c → CacheOKL k (wrap k c dc)) ∧ (LazyOK c → LazyOK (wrap k c dc)) := by
  cases c with
  | nil => exact ⟨rfl, FlagEq.refl _, fun h => h, fun h => h⟩
  | value v => exact ⟨rfl, FlagEq.refl _, fun h => h, fun h => h⟩
  | lazy x sub => exact ⟨rfl, FlagEq.refl _, fun h => h, fun h => h⟩
  | edge q cc qfl =>
    refine ⟨by simpa [wrap, rawHashL] using i1, by simpa [wrap, erase] using i2,
      fun h => ⟨i1.symm, i3 h⟩, fun h => ⟨?_, i4 h⟩⟩
    have := i5 trivial
    cases dc <;> simp_all [IsInner]
  | bin l r bfl =>
    refine ⟨by simpa [wrap, rawHashL] using i1, by simpa [wrap, erase] using i2,
      fun h => ⟨i1.symm, i3 h⟩, fun h => ⟨?_, i4 h⟩⟩
    have := i5 trivial
    cases dc <;> simp_all [IsInner]

theorem decoded_spec (k : HashKind) (t : LNode) :
    rawHashL k (decoded k t) = rawHashL k t ∧ FlagEq (erase t) (erase (decoded k t)) ∧
    (CacheOKL k t → CacheOKL k (decoded k t)) ∧ (LazyOK t → LazyOK (decoded k t)) ∧
    (IsInner t → IsInner (decoded k t)) := by
  induction t with
  | nil => simp [decoded, FlagEq.nil, erase]
  | value v => simp [decoded, erase, FlagEq.value]
  | lazy x sub ih => exact ⟨rfl, FlagEq.refl _, fun h => h, fun h => h, fun h => h⟩
  | edge p c fl ih =>
    obtain ⟨i1, i2, i3, i4, i5⟩ := ih
    obtain ⟨w1, w2, w3, w4⟩ := wrap_spec k c _ i1 i2 i3 i4 i5
    refine ⟨?_, ?_, ?_, ?_, fun _ => by simp [decoded, IsInner]⟩
    · simp only [decoded, rawHashL, w1]
    · simp only [decoded, erase]; exact FlagEq.edge w2
    · intro h
      refine ⟨?_, w3 h.2⟩
      intro x hx
      simp only [Option.some.injEq] at hx
      simp only [← hx, rawHashL, w1]
    · intro h; exact w4 h
  | bin l r fl ihl ihr =>
    obtain ⟨a1, a2, a3, a4, a5⟩ := ihl
    obtain ⟨b1, b2, b3, b4, b5⟩ := ihr
    obtain ⟨l1, l2, l3, l4⟩ := wrap_spec k l _ a1 a2 a3 a4 a5
    obtain ⟨r1, r2, r3, r4⟩ := wrap_spec k r _ b1 b2 b3 b4 b5
    refine ⟨?_, ?_, ?_, ?_, fun _ => by simp [decoded, IsInner]⟩
    · simp only [decoded, rawHashL, l1, r1]
    · simp only [decoded, erase]; exact FlagEq.bin l2 r2
    · intro h
      refine ⟨?_, l3 h.2.1, r3 h.2.2⟩
      intro x hx
      simp only [Option.some.injEq] at hx
      simp only [← hx, rawHashL, l1, r1]
    · intro h; exact ⟨l4 h.1, r4 h.2⟩

theorem reopen_spec (k : HashKind) (t : LNode) :
    rawHashL k (reopen k t) = rawHashL k t ∧ FlagEq (erase t) (erase (reopen k t)) ∧
    (CacheOKL k t → CacheOKL k (reopen k t)) ∧ (LazyOK t → LazyOK (reopen k t)) := by
  obtain ⟨d1, d2, d3, d4, _⟩ := decoded_spec k t
  unfold reopen
  cases hd : decoded k t with
  | nil => rw [hd] at d1 d2 d3 d4; exact ⟨d1, d2, d3, d4⟩
  | value v => rw [hd] at d1 d2 d3 d4; exact ⟨d1, d2, d3, d4⟩
  | lazy x sub => rw [hd] at d1 d2 d3 d4; exact ⟨d1, d2, d3, d4⟩
  | edge p c fl =>
    rw [hd] at d1 d2 d3 d4
    refine ⟨by simpa [rawHashL] using d1, ?_, ?_, fun h => d4 h⟩
    · cases he : erase t with
      | edge p' c' fl' =>
        rw [he] at d2
        simp only [erase] at d2 ⊢
        cases d2 with
        | edge hc => exact FlagEq.edge hc
      | nil => rw [he] at d2; simp only [erase] at d2; cases d2
      | value v => rw [he] at d2; simp only [erase] at d2; cases d2
      | hash x => rw [he] at d2; simp only [erase] at d2; cases d2
      | bin a b c' => rw [he] at d2; simp only [erase] at d2; cases d2
    · intro h
      have := d3 h
      exact ⟨by simp, this.2⟩
  | bin l r fl =>
    rw [hd] at d1 d2 d3 d4
    refine ⟨by simpa [rawHashL] using d1, ?_, ?_, fun h => d4 h⟩
    · cases he : erase t with
      | bin l' r' fl' =>
        rw [he] at d2
        simp only [erase] at d2 ⊢
        cases d2 with
        | bin hl hr => exact FlagEq.bin hl hr
      | nil => rw [he] at d2; simp only [erase] at d2; cases d2
      | value v => rw [he] at d2; simp only [erase] at d2; cases d2
      | hash x => rw [he] at d2; simp only [erase] at d2; cases d2
      | edge a b c' => rw [he] at d2; simp only [erase] at d2; cases d2
    · intro h
      have := d3 h
      exact ⟨by simp, this.2.1, this.2.2⟩

/-! ### reading through unresolved nodes (`Trie.Get` resolves and keeps what it resolved) -/

theorem getR_spec (t : LNode) (hl : LazyOK t) (key : Path) :
    erase (getR t key).2.1 = erase t ∧ LazyOK (getR t key).2.1 ∧
    (getR t key).1 = Trie2.get (erase t) key := by
  induction t generalizing key with
  | nil => simp [getR, erase, Trie2.get, LazyOK]
  | value v => simp [getR, erase, Trie2.get, LazyOK]
  | lazy x sub ih =>
    obtain ⟨e1, e2, e3⟩ := ih hl.2 key
    exact ⟨by simpa [getR, erase] using e1, by simpa [getR] using e2, by simpa [getR, erase] using e3⟩
  | edge p c fl ih =>
    simp only [getR]
    by_cases hp : p.isPrefixOf key = true
    · obtain ⟨e1, e2, e3⟩ := ih hl (key.drop p.length)
      simp only [hp, if_true]
      refine ⟨?_, ?_, ?_⟩
      · split
        · simp [erase, e1]
        · rfl
      · split
        · exact e2
        · exact hl
      · simp [erase, Trie2.get, hp, e3]
    · simp only [hp, Bool.false_eq_true, if_false]
      exact ⟨trivial, hl, by simp [erase, Trie2.get, hp]⟩
  | bin l r fl ihl ihr =>
    cases key with
    | nil => simp only [getR]; exact ⟨trivial, hl, by simp [erase, Trie2.get]⟩
    | cons b ks =>
      simp only [getR]
      cases b with
      | true =>
        obtain ⟨e1, e2, e3⟩ := ihr hl.2 ks
        simp only [if_true]
        refine ⟨?_, ?_, ?_⟩
        · split
          · simp [erase, e1]
          · rfl
        · split
          · exact ⟨hl.1, e2⟩
          · exact hl
        · simp [erase, Trie2.get, e3]
      | false =>
        obtain ⟨e1, e2, e3⟩ := ihl hl.1 ks
        simp only [Bool.false_eq_true, if_false]
        refine ⟨?_, ?_, ?_⟩
        · split
          · simp [erase, e1]
          · rfl
        · split
          · exact ⟨e2, hl.2⟩
          · exact hl
        · simp [erase, Trie2.get, e3]

theorem getR_cacheOKL {k : HashKind} (t : LNode) (hl : LazyOK t) (hc : CacheOKL k t) (key : Path) :
    CacheOKL k (getR t key).2.1 := by
  induction t generalizing key with
  | nil => simpa [getR] using hc
  | value v => simpa [getR] using hc
  | lazy x sub ih => simpa [getR] using ih hl.2 hc.2 key
  | edge p c fl ih =>
    simp only [getR]
    by_cases hp : p.isPrefixOf key = true
    · simp only [hp, if_true]
      split
      · refine ⟨?_, ih hl hc.2 _⟩
        intro x hx
        have := hc.1 x hx
        rw [this, rawHashL_erase, rawHashL_erase]
        simp [erase, (getR_spec c hl (key.drop p.length)).1]
      · exact hc
    · simp only [hp, Bool.false_eq_true, if_false]; exact hc
  | bin l r fl ihl ihr =>
    cases key with
    | nil => simpa [getR] using hc
    | cons b ks =>
      simp only [getR]
      cases b with
      | true =>
        simp only [if_true]
        split
        · refine ⟨?_, hc.2.1, ihr hl.2 hc.2.2 _⟩
          intro x hx
          have := hc.1 x hx
          rw [this, rawHashL_erase, rawHashL_erase]
          simp [erase, (getR_spec r hl.2 ks).1]
        · exact hc
      | false =>
        simp only [Bool.false_eq_true, if_false]
        split
        · refine ⟨?_, ihl hl.1 hc.2.1 _, hc.2.2⟩
          intro x hx
          have := hc.1 x hx
          rw [this, rawHashL_erase, rawHashL_erase]
          simp [erase, (getR_spec l hl.1 ks).1]
        · exact hc

/-! ### the invariant across restarts -/

theorem cacheOK_erase {k : HashKind} {t : LNode} (h : CacheOKL k t) : CacheOK k (erase t) := by
  induction t with
  | nil => simp [erase, CacheOK]
  | value v => simp [erase, CacheOK]
  | lazy x sub ih => exact ih h.2
  | edge p c fl ih =>
    refine ⟨?_, ih h.2⟩
    intro x hx
    have := h.1 x hx
    rw [rawHashL_erase] at this
    simpa [erase] using this
  | bin l r fl ihl ihr =>
    refine ⟨?_, ihl h.2.1, ihr h.2.2⟩
    intro x hx
    have := h.1 x hx
    rw [rawHashL_erase] at this
    simpa [erase] using this

structure InvL (k : HashKind) (n : Nat) (t : LNode) (m : Path → HTerm) : Prop where
  lazyOK : LazyOK t
  cache : CacheOKL k t
  wf : WFRoot (erase t) n
  sem : ∀ key, key.length = n → Trie2.get (erase t) key = m key

theorem InvL.toInv {k : HashKind} {n : Nat} {t : LNode} {m : Path → HTerm} (h : InvL k n t m) :
    Inv k n (erase t) m := ⟨h.wf, cacheOK_erase h.cache, h.sem⟩

theorem update_erase (t : LNode) (hl : LazyOK t) (key : Path) (v : HTerm) :
    erase (update t key v) = Trie2.update (erase t) key v ∧ LazyOK (update t key v) := by
  unfold update Trie2.update
  split
  · exact ⟨(del_erase t hl key).1, (del_erase t hl key).2.2.1⟩
  · exact ⟨(ins_erase t hl key v).1, (ins_erase t hl key v).2.2⟩

theorem hash_step_inv {k : HashKind} {n : Nat} {t : LNode} {m : Path → HTerm} (h : InvL k n t m) :
    InvL k n (hashRoot k t) m := by
  unfold hashRoot
  have key : InvL k n (hashNode k t).2 m := by
    obtain ⟨_, c, _, g, l⟩ := hashNode_spec k t h.cache
    refine ⟨l h.lazyOK, c, ?_, fun key hk => by rw [g key, h.sem key hk]⟩
    cases h.wf with
    | inl e =>
      left
      cases t with
      | nil => simp [hashNode, erase]
      | value v => simp [erase] at e
      | lazy x sub => simpa [hashNode] using e
      | edge p c' fl => simp [erase] at e
      | bin l' r' fl => simp [erase] at e
    | inr w => exact Or.inr (hashNode_wf k t w)
  cases t with
  | nil => simpa [hashNode] using key
  | value v => exact key
  | lazy x sub => exact key
  | edge p c fl => exact key
  | bin l r fl => exact key

theorem step_invL {k : HashKind} {n : Nat} {t : LNode} {m : Path → HTerm} (h : InvL k n t m)
    (op : LOp) (hop : match op with | .put key _ => key.length = n | _ => True) :
    InvL k n (step k t op) (labsStep m op) := by
  cases op with
  | put key v =>
    simp only [] at hop
    simp only [step, labsStep]
    obtain ⟨e1, e2⟩ := update_erase t h.lazyOK key v
    have hA := step_inv h.toInv (.put key v) hop
    simp only [Trie2.step, absStep] at hA
    refine ⟨e2, ?_, by rw [e1]; exact hA.wf, by intro k' hk'; rw [e1]; exact hA.sem k' hk'⟩
    unfold update
    split
    · exact del_cacheOKL h.cache key
    · exact ins_cacheOKL h.cache key v
  | hash => exact hash_step_inv h
  | get key =>
    simp only [step, labsStep]
    obtain ⟨e1, e2, _⟩ := getR_spec t h.lazyOK key
    exact ⟨e2, getR_cacheOKL t h.lazyOK h.cache key, by rw [e1]; exact h.wf,
      by intro k' hk'; rw [e1]; exact h.sem k' hk'⟩
  | reopen =>
    simp only [step, labsStep]
    have h1 := hash_step_inv h
    obtain ⟨_, r2, r3, r4⟩ := reopen_spec k (hashRoot k t)
    refine ⟨r4 h1.lazyOK, r3 h1.cache, ?_, ?_⟩
    · cases h1.wf with
      | inl e =>
        left
        rw [e] at r2
        generalize erase (reopen k (hashRoot k t)) = x at r2
        cases r2
        rfl
      | inr w => exact Or.inr (r2.wf w)
    · intro key hk
      rw [← r2.get key]
      exact h1.sem key hk

def ValidLOps (n : Nat) (ops : List LOp) : Prop :=
  ∀ op ∈ ops, match op with
    | .put key _ => key.length = n
    | _ => True

theorem foldl_invL {k : HashKind} {n : Nat} (ops : List LOp) (hv : ValidLOps n ops) :
    ∀ (t : LNode) (m : Path → HTerm), InvL k n t m →
      InvL k n (ops.foldl (step k) t) (ops.foldl labsStep m) := by
  induction ops with
  | nil => intro t m h; exact h
  | cons op rest ih =>
    intro t m h
    simp only [List.foldl_cons]
    exact ih (fun o ho => hv o (List.mem_cons_of_mem _ ho)) _ _
      (step_invL h op (hv op (List.mem_cons_self ..)))

theorem run_invL (k : HashKind) (n : Nat) (ops : List LOp) (hv : ValidLOps n ops) :
    InvL k n (run k ops) (labsRun ops) :=
  foldl_invL ops hv .nil _
    ⟨by simp [LazyOK], by simp [CacheOKL], Or.inl rfl, fun _ _ => by simp [erase, Trie2.get]⟩

theorem invL_hash {k : HashKind} {n : Nat} {t : LNode} {m : Path → HTerm} (h : InvL k n t m) :
    rootHash k t = Spec.root k n m := by
  have e : rootHash k t = (hashNode k t).1 := by
    cases t <;> simp [rootHash, hashNode]
  rw [e, (hashNode_spec k t h.cache).1, rawHashL_erase, rawHash_eq_spec k h.wf]
  simp only [Spec.root]
  rw [spec_node_congr k n _ _ h.sem]

end TrieL
end Juno.C01
