import JunoModel.C01.ProofsAbs
import JunoModel.C01.ProofsAgree
import JunoModel.C01.ModelLegacyState
/-!
Helper lemmas for C01, part 13 (round 5): the TRANSCRIPTION of `core/deprecatedstate.State.Update`
(`ModelLegacyState.lean`: per-field buckets, the leaf of an address recomputed after every single change)
computes the protocol commitment of the abstract state.

Invariant `LInv ls dep a stL`: `dep` = which addresses have a class-hash entry; the class-hash / nonce buckets
hold `a.cls` / `a.nonce` for them; the storage trie under every address holds `a.storage`; the contract trie holds,
for every deployed address, the leaf of (class, root of `stL`, nonce) — `stL` is the storage map the leaf was last
computed from (= `a.storage` except inside `updateContractStorages`, between the trie writes and the final loop).
-/
namespace Juno.C01
namespace LState
open State

theorem inv_congr {k : HashKind} {n : Nat} {t : Node} {m m' : Path → HTerm} (h : Inv k n t m)
    (e : ∀ key, key.length = n → m key = m' key) : Inv k n t m' :=
  ⟨h.wf, h.cache, fun key hk => (h.sem key hk).trans (e key hk)⟩

theorem setAt_self {α : Type} (m : Path → α) (k : Path) (v : α) (h : m k = v) : setAt m k v = m := by
  funext p
  by_cases hp : p = k
  · subst hp; simp [setAt, h]
  · simp [setAt, hp]

/-- the leaf map the contract trie holds -/
def leafMap (dep : Path → Bool) (a : AbsSt) (stL : Path → Path → HTerm) (p : Path) : HTerm :=
  if dep p = true then contractLeaf (a.cls p) (Spec.root .pedersen 251 (stL p)) (a.nonce p) else .felt 0

structure LInv (ls : LSt) (dep : Path → Bool) (a : AbsSt) (stL : Path → Path → HTerm) : Prop where
  cls : ∀ p, alookup ls.cls p = if dep p = true then some (a.cls p) else none
  nonce : ∀ p, dep p = true → alookup ls.nonce p = some (a.nonce p)
  stor : ∀ p, Inv .pedersen 251 (ls.stor p) (a.storage p)
  ctrie : Inv .pedersen 251 ls.ctrie (leafMap dep a stL)
  undep : ∀ p, dep p = false → a.cls p = .felt 0 ∧ a.nonce p = .felt 0 ∧
    ∀ k, k.length = 251 → a.storage p k = .felt 0

theorem deployed_iff {ls : LSt} {dep : Path → Bool} {a : AbsSt} {stL : Path → Path → HTerm}
    (h : LInv ls dep a stL) (p : Path) : deployed ls p = dep p := by
  simp only [deployed, h.cls p]
  cases dep p <;> simp

/-- `updateContractCommitment` on explicit facts about the three stores -/
theorem updateCommitment_spec {ls ls' : LSt} {m : Path → HTerm} (hc : Inv .pedersen 251 ls.ctrie m)
    (addr : Path) (ha : addr.length = 251) {c n : HTerm} (hcls : alookup ls.cls addr = some c)
    (hn : alookup ls.nonce addr = some n) {sm : Path → HTerm} (hs : Inv .pedersen 251 (ls.stor addr) sm)
    (hu : updateCommitment ls addr = some ls') :
    ls'.cls = ls.cls ∧ ls'.nonce = ls.nonce ∧ ls'.stor = ls.stor ∧ ls'.cltrie = ls.cltrie ∧
    Inv .pedersen 251 ls'.ctrie
      (fun p => if p = addr then contractLeaf c (Spec.root .pedersen 251 sm) n else m p) := by
  unfold updateCommitment at hu
  rw [hcls, hn] at hu
  have hu' := Option.some.inj hu
  subst hu'
  refine ⟨rfl, rfl, rfl, rfl, ?_⟩
  have := step_inv hc (.put addr (contractLeaf c (Trie2.hashRoot .pedersen (ls.stor addr)).1 n)) ha
  simp only [Trie2.step, absStep] at this
  refine ⟨this.wf, this.cache, fun key hk => ?_⟩
  rw [this.sem key hk, inv_hash hs]

/-- a fresh contract: `putNewContract` -/
theorem putNewContract_inv {ls ls' : LSt} {dep : Path → Bool} {a : AbsSt} (h : LInv ls dep a a.storage)
    (addr : Path) (ha : addr.length = 251) (c : HTerm) (hu : putNewContract ls addr c = some ls') :
    dep addr = false ∧ ls'.cltrie = ls.cltrie ∧
    LInv ls' (setAt dep addr true) { a with cls := setAt a.cls addr c } a.storage := by
  simp only [putNewContract, deployed_iff h] at hu
  cases hd : dep addr with
  | true => simp [hd] at hu
  | false =>
    simp only [hd, Bool.false_eq_true, if_false] at hu
    obtain ⟨e1, e2, e3, e4, e5⟩ := updateCommitment_spec
      (ls := { ls with cls := (addr, c) :: ls.cls, nonce := (addr, .felt 0) :: ls.nonce })
      h.ctrie addr ha (c := c) (n := .felt 0) (by simp [alookup]) (by simp [alookup]) (h.stor addr) hu
    have hund := h.undep addr hd
    refine ⟨rfl, e4, ?_, ?_, ?_, ?_, ?_⟩
    · intro p
      rw [e1]
      simp only [alookup]
      by_cases hp : addr = p
      · subst hp; simp [setAt]
      · have hp' : ¬ p = addr := fun e => hp e.symm
        simp only [hp, if_false, setAt, hp']
        exact h.cls p
    · intro p hp
      rw [e2]
      simp only [alookup]
      by_cases hpa : addr = p
      · subst hpa; simp [hund.2.1]
      · have hp' : ¬ p = addr := fun e => hpa e.symm
        simp only [hpa, if_false]
        simp only [setAt, hp', if_false] at hp
        exact h.nonce p hp
    · intro p; rw [e3]; exact h.stor p
    · apply inv_congr e5
      intro key _
      simp only [leafMap, setAt]
      by_cases hk : key = addr
      · subst hk; simp [hund.2.1]
      · simp [hk]
    · intro p hp
      by_cases hpa : p = addr
      · subst hpa; simp [setAt] at hp
      · simp only [setAt, hpa, if_false] at hp ⊢
        exact h.undep p hp

/-- `replaceContract` -/
theorem replaceContract_inv {ls ls' : LSt} {dep : Path → Bool} {a : AbsSt} (h : LInv ls dep a a.storage)
    (addr : Path) (ha : addr.length = 251) (c : HTerm) (hu : replaceContract ls addr c = some ls') :
    dep addr = true ∧ ls'.cltrie = ls.cltrie ∧ LInv ls' dep { a with cls := setAt a.cls addr c } a.storage := by
  simp only [replaceContract, deployed_iff h] at hu
  cases hd : dep addr with
  | false => simp [hd] at hu
  | true =>
    simp only [hd, if_true] at hu
    obtain ⟨e1, e2, e3, e4, e5⟩ := updateCommitment_spec
      (ls := { ls with cls := (addr, c) :: ls.cls })
      h.ctrie addr ha (c := c) (n := a.nonce addr) (by simp [alookup]) (h.nonce addr hd) (h.stor addr) hu
    refine ⟨rfl, e4, ?_, ?_, ?_, ?_, ?_⟩
    · intro p
      rw [e1]
      simp only [alookup]
      by_cases hp : addr = p
      · subst hp; simp [setAt, hd]
      · have hp' : ¬ p = addr := fun e => hp e.symm
        simp only [hp, if_false, setAt, hp']
        exact h.cls p
    · intro p hp; rw [e2]; exact h.nonce p hp
    · intro p; rw [e3]; exact h.stor p
    · apply inv_congr e5
      intro key _
      simp only [leafMap, setAt]
      by_cases hk : key = addr
      · subst hk; simp [hd]
      · simp [hk]
    · intro p hp
      have hpa : ¬ p = addr := by intro e; subst e; rw [hd] at hp; cases hp
      simp only [setAt, hpa, if_false]
      exact h.undep p hp

/-- `updateContractNonce` -/
theorem updateNonce_inv {ls ls' : LSt} {dep : Path → Bool} {a : AbsSt} (h : LInv ls dep a a.storage)
    (addr : Path) (ha : addr.length = 251) (n : HTerm) (hu : updateNonce ls addr n = some ls') :
    dep addr = true ∧ ls'.cltrie = ls.cltrie ∧ LInv ls' dep { a with nonce := setAt a.nonce addr n } a.storage := by
  simp only [updateNonce, deployed_iff h] at hu
  cases hd : dep addr with
  | false => simp [hd] at hu
  | true =>
    simp only [hd, if_true, h.nonce addr hd] at hu
    obtain ⟨e1, e2, e3, e4, e5⟩ := updateCommitment_spec
      (ls := { ls with nonce := (addr, n) :: ls.nonce })
      h.ctrie addr ha (c := a.cls addr) (n := n) (by simp [h.cls addr, hd]) (by simp [alookup]) (h.stor addr) hu
    refine ⟨rfl, e4, ?_, ?_, ?_, ?_, ?_⟩
    · intro p; rw [e1]; exact h.cls p
    · intro p hp
      rw [e2]
      simp only [alookup]
      by_cases hpa : addr = p
      · subst hpa; simp [setAt]
      · have hp' : ¬ p = addr := fun e => hpa e.symm
        simp only [hpa, if_false, setAt, hp']
        exact h.nonce p hp
    · intro p; rw [e3]; exact h.stor p
    · apply inv_congr e5
      intro key _
      simp only [leafMap, setAt]
      by_cases hk : key = addr
      · subst hk; simp [hd]
      · simp [hk]
    · intro p hp
      have hpa : ¬ p = addr := by intro e; subst e; rw [hd] at hp; cases hp
      simp only [setAt, hpa, if_false]
      exact h.undep p hp

/-! ### the three simple phases -/

/-- facts carried between the blocks besides `LInv` -/
structure Side (dep : Path → Bool) (a : AbsSt) : Prop where
  deplen : ∀ p, dep p = true → p.length = 251
  sysz : ∀ p, isSystem p = true → a.cls p = .felt 0 ∧ a.nonce p = .felt 0
  clsne : ∀ p, dep p = true → isSystem p = false → a.cls p ≠ .felt 0

theorem deployAll_inv (l : List (Path × HTerm))
    (hl : ∀ e ∈ l, e.1.length = 251 ∧ e.2 ≠ .felt 0 ∧ isSystem e.1 = false) :
    ∀ (ls ls' : LSt) (dep : Path → Bool) (a : AbsSt), LInv ls dep a a.storage → Side dep a →
      deployAll ls l = some ls' →
      ∃ dep', ls'.cltrie = ls.cltrie ∧
        LInv ls' dep' { a with cls := l.foldl (fun m e => setAt m e.1 e.2) a.cls } a.storage ∧
        Side dep' { a with cls := l.foldl (fun m e => setAt m e.1 e.2) a.cls } ∧
        (∀ p, dep p = true → dep' p = true) ∧
        (∀ p, dep' p = true → dep p = true ∨ isSystem p = false) := by
  induction l with
  | nil =>
    intro ls ls' dep a h hs hu
    simp only [deployAll, Option.some.injEq] at hu; subst hu
    exact ⟨dep, rfl, h, hs, fun _ hp => hp, fun _ hp => Or.inl hp⟩
  | cons e rest ih =>
    intro ls ls' dep a h hs hu
    obtain ⟨addr, c⟩ := e
    have he := hl (addr, c) (List.mem_cons_self ..)
    simp only [deployAll] at hu
    cases h1 : putNewContract ls addr c with
    | none => simp [h1] at hu
    | some ls1 =>
      simp only [h1, Option.bind] at hu
      obtain ⟨hd, hcl, hi⟩ := putNewContract_inv h addr he.1 c h1
      have hs1 : Side (setAt dep addr true) { a with cls := setAt a.cls addr c } := by
        refine ⟨?_, ?_, ?_⟩
        · intro p hp
          by_cases hpa : p = addr
          · subst hpa; exact he.1
          · simp only [setAt, hpa, if_false] at hp; exact hs.deplen p hp
        · intro p hp
          have hpa : ¬ p = addr := by intro e; subst e; rw [he.2.2] at hp; cases hp
          simp only [setAt, hpa, if_false]
          exact hs.sysz p hp
        · intro p hp hsys
          by_cases hpa : p = addr
          · subst hpa; simp [setAt, he.2.1]
          · simp only [setAt, hpa, if_false] at hp ⊢
            exact hs.clsne p hp hsys
      obtain ⟨dep', c1, c2, c3, c4, c5⟩ := ih (fun e he' => hl e (List.mem_cons_of_mem _ he')) ls1 ls' _ _ hi hs1 hu
      refine ⟨dep', c1.trans hcl, c2, c3, ?_, ?_⟩
      · intro p hp
        apply c4
        by_cases hpa : p = addr
        · subst hpa; simp [setAt]
        · simp [setAt, hpa, hp]
      · intro p hp
        rcases c5 p hp with h2 | h2
        · by_cases hpa : p = addr
          · subst hpa; exact Or.inr he.2.2
          · simp only [setAt, hpa, if_false] at h2; exact Or.inl h2
        · exact Or.inr h2

theorem replaceAll_inv (l : List (Path × HTerm))
    (hl : ∀ e ∈ l, e.1.length = 251 ∧ e.2 ≠ .felt 0 ∧ isSystem e.1 = false) :
    ∀ (ls ls' : LSt) (dep : Path → Bool) (a : AbsSt), LInv ls dep a a.storage → Side dep a →
      replaceAll ls l = some ls' →
      ls'.cltrie = ls.cltrie ∧
        LInv ls' dep { a with cls := l.foldl (fun m e => setAt m e.1 e.2) a.cls } a.storage ∧
        Side dep { a with cls := l.foldl (fun m e => setAt m e.1 e.2) a.cls } := by
  induction l with
  | nil =>
    intro ls ls' dep a h hs hu
    simp only [replaceAll, Option.some.injEq] at hu; subst hu
    exact ⟨rfl, h, hs⟩
  | cons e rest ih =>
    intro ls ls' dep a h hs hu
    obtain ⟨addr, c⟩ := e
    have he := hl (addr, c) (List.mem_cons_self ..)
    simp only [replaceAll] at hu
    cases h1 : replaceContract ls addr c with
    | none => simp [h1] at hu
    | some ls1 =>
      simp only [h1, Option.bind] at hu
      obtain ⟨hd, hcl, hi⟩ := replaceContract_inv h addr he.1 c h1
      have hs1 : Side dep { a with cls := setAt a.cls addr c } := by
        refine ⟨hs.deplen, ?_, ?_⟩
        · intro p hp
          have hpa : ¬ p = addr := by intro e; subst e; rw [he.2.2] at hp; cases hp
          simp only [setAt, hpa, if_false]
          exact hs.sysz p hp
        · intro p hp hsys
          by_cases hpa : p = addr
          · subst hpa; simp [setAt, he.2.1]
          · simp only [setAt, hpa, if_false]
            exact hs.clsne p hp hsys
      obtain ⟨c1, c2, c3⟩ := ih (fun e he' => hl e (List.mem_cons_of_mem _ he')) ls1 ls' _ _ hi hs1 hu
      exact ⟨c1.trans hcl, c2, c3⟩

theorem nonceAll_inv (l : List (Path × HTerm)) (hl : ∀ e ∈ l, e.1.length = 251 ∧ isSystem e.1 = false) :
    ∀ (ls ls' : LSt) (dep : Path → Bool) (a : AbsSt), LInv ls dep a a.storage → Side dep a →
      nonceAll ls l = some ls' →
      ls'.cltrie = ls.cltrie ∧
        LInv ls' dep { a with nonce := l.foldl (fun m e => setAt m e.1 e.2) a.nonce } a.storage ∧
        Side dep { a with nonce := l.foldl (fun m e => setAt m e.1 e.2) a.nonce } := by
  induction l with
  | nil =>
    intro ls ls' dep a h hs hu
    simp only [nonceAll, Option.some.injEq] at hu; subst hu
    exact ⟨rfl, h, hs⟩
  | cons e rest ih =>
    intro ls ls' dep a h hs hu
    obtain ⟨addr, n⟩ := e
    have he := hl (addr, n) (List.mem_cons_self ..)
    simp only [nonceAll] at hu
    cases h1 : updateNonce ls addr n with
    | none => simp [h1] at hu
    | some ls1 =>
      simp only [h1, Option.bind] at hu
      obtain ⟨hd, hcl, hi⟩ := updateNonce_inv h addr he.1 n h1
      have hs1 : Side dep { a with nonce := setAt a.nonce addr n } := by
        refine ⟨hs.deplen, ?_, hs.clsne⟩
        intro p hp
        have hpa : ¬ p = addr := by intro e; subst e; rw [he.2] at hp; cases hp
        simp only [setAt, hpa, if_false]
        exact hs.sysz p hp
      obtain ⟨c1, c2, c3⟩ := ih (fun e he' => hl e (List.mem_cons_of_mem _ he')) ls1 ls' _ _ hi hs1 hu
      exact ⟨c1.trans hcl, c2, c3⟩

/-! ### `updateContractStorages` -/

theorem absSt_eta (a : AbsSt) : ({ a with cls := a.cls } : AbsSt) = a := by cases a; rfl

theorem deploySystem_inv (l : List (Path × List (Path × HTerm))) (hl : ∀ e ∈ l, e.1.length = 251) :
    ∀ (ls ls' : LSt) (dep : Path → Bool) (a : AbsSt), LInv ls dep a a.storage → Side dep a →
      deploySystem ls l = some ls' →
      ∃ dep', ls'.cltrie = ls.cltrie ∧ LInv ls' dep' a a.storage ∧ Side dep' a ∧
        (∀ p, dep p = true → dep' p = true) ∧
        (∀ e ∈ l, isSystem e.1 = true → dep' e.1 = true) ∧
        (∀ p, dep' p = true → dep p = true ∨ p ∈ l.map (·.1)) := by
  induction l with
  | nil =>
    intro ls ls' dep a h hs hu
    simp only [deploySystem, Option.some.injEq] at hu; subst hu
    exact ⟨dep, rfl, h, hs, fun _ hp => hp, (fun e he => by cases he), fun p hp => Or.inl hp⟩
  | cons e rest ih =>
    intro ls ls' dep a h hs hu
    obtain ⟨addr, kvs⟩ := e
    have ha := hl (addr, kvs) (List.mem_cons_self ..)
    have hrest : ∀ e ∈ rest, e.1.length = 251 := fun e he => hl e (List.mem_cons_of_mem _ he)
    simp only [deploySystem, deployed_iff h] at hu
    by_cases hc : (isSystem addr && !dep addr) = true
    · simp only [hc, if_true] at hu
      have hsys : isSystem addr = true := by
        cases h1 : isSystem addr <;> simp [h1] at hc ⊢
      cases h1 : putNewContract ls addr (.felt 0) with
      | none => simp [h1] at hu
      | some ls1 =>
        simp only [h1, Option.bind] at hu
        obtain ⟨hd, hcl, hi⟩ := putNewContract_inv h addr ha (.felt 0) h1
        have hz := (h.undep addr hd).1
        rw [setAt_self a.cls addr (.felt 0) hz, absSt_eta a] at hi
        have hs1 : Side (setAt dep addr true) a := by
          refine ⟨?_, hs.sysz, ?_⟩
          · intro p hp
            by_cases hpa : p = addr
            · subst hpa; exact ha
            · simp only [setAt, hpa, if_false] at hp; exact hs.deplen p hp
          · intro p hp hns
            have hpa : ¬ p = addr := by intro e; subst e; rw [hsys] at hns; cases hns
            simp only [setAt, hpa, if_false] at hp
            exact hs.clsne p hp hns
        obtain ⟨dep', c1, c2, c3, c4, c5, c6⟩ := ih hrest ls1 ls' _ a hi hs1 hu
        refine ⟨dep', c1.trans hcl, c2, c3, ?_, ?_, ?_⟩
        · intro p hp
          apply c4
          by_cases hpa : p = addr
          · subst hpa; simp [setAt]
          · simp [setAt, hpa, hp]
        · intro e he hse
          cases he with
          | head => exact c4 addr (by simp [setAt])
          | tail _ he => exact c5 e he hse
        · intro p hp
          rcases c6 p hp with h2 | h2
          · by_cases hpa : p = addr
            · subst hpa; exact Or.inr (by simp)
            · simp only [setAt, hpa, if_false] at h2; exact Or.inl h2
          · exact Or.inr (by simp [h2])
    · have hc' : (isSystem addr && !dep addr) = false := by
        cases h2 : (isSystem addr && !dep addr) <;> simp_all
      simp only [hc', Bool.false_eq_true, if_false] at hu
      obtain ⟨dep', c1, c2, c3, c4, c5, c6⟩ := ih hrest ls ls' dep a h hs hu
      refine ⟨dep', c1, c2, c3, c4, ?_, ?_⟩
      · intro e he hse
        cases he with
        | head =>
          apply c4
          cases hd : dep addr with
          | true => rfl
          | false => simp [hse, hd] at hc'
        | tail _ he => exact c5 e he hse
      · intro p hp
        rcases c6 p hp with h2 | h2
        · exact Or.inl h2
        · exact Or.inr (by simp [h2])

/-- the storage component of `absApply` -/
def storFold (l : List (Path × List (Path × HTerm))) (m : Path → Path → HTerm) : Path → Path → HTerm :=
  l.foldl (fun m e => setAt m e.1 (e.2.foldl (fun sm (kv : Path × HTerm) => setAt sm kv.1 kv.2) (m e.1))) m

theorem storFold_not_mem (l : List (Path × List (Path × HTerm))) : ∀ (m : Path → Path → HTerm) (p : Path),
    p ∉ l.map (·.1) → storFold l m p = m p := by
  induction l with
  | nil => intro m p _; rfl
  | cons e rest ih =>
    intro m p hp
    simp only [List.map_cons, List.mem_cons, not_or] at hp
    simp only [storFold, List.foldl_cons]
    have := ih (setAt m e.1 (e.2.foldl (fun sm (kv : Path × HTerm) => setAt sm kv.1 kv.2) (m e.1))) p hp.2
    simp only [storFold] at this
    rw [this]
    simp [setAt, hp.1]

theorem writeStorages_inv (l : List (Path × List (Path × HTerm)))
    (hl : ∀ e ∈ l, e.1.length = 251 ∧ ∀ kv ∈ e.2, kv.1.length = 251) :
    ∀ (ls ls' : LSt) (dep : Path → Bool) (a : AbsSt) (stL : Path → Path → HTerm), LInv ls dep a stL →
      writeStorages ls l = some ls' →
      (∀ e ∈ l, dep e.1 = true) ∧ ls'.cltrie = ls.cltrie ∧
        LInv ls' dep { a with storage := storFold l a.storage } stL := by
  induction l with
  | nil =>
    intro ls ls' dep a stL h hu
    simp only [writeStorages, Option.some.injEq] at hu; subst hu
    exact ⟨(fun e he => by cases he), rfl, (by cases a; exact h)⟩
  | cons e rest ih =>
    intro ls ls' dep a stL h hu
    obtain ⟨addr, kvs⟩ := e
    have he := hl (addr, kvs) (List.mem_cons_self ..)
    simp only [writeStorages, deployed_iff h] at hu
    cases hd : dep addr with
    | false => simp [hd] at hu
    | true =>
      simp only [hd, if_true] at hu
      generalize hst : setAt ls.stor addr (Trie2.hashRoot .pedersen (kvs.foldl (fun t (kv : Path × HTerm) => Trie2.update t kv.1 kv.2) (ls.stor addr))).2 = st1 at hu
      have h1 : LInv { ls with stor := st1 } dep
          { a with storage := (setAt a.storage addr (kvs.foldl (fun sm (kv : Path × HTerm) => setAt sm kv.1 kv.2) (a.storage addr))) } stL := by
        subst hst
        refine ⟨h.cls, h.nonce, ?_, h.ctrie, ?_⟩
        · intro p
          by_cases hp : p = addr
          · subst hp
            simp only [setAt, if_true]
            have f1 := fold_update_inv (k := .pedersen) kvs he.2 _ _ (h.stor p)
            have f2 := step_inv f1 .hash trivial
            simp only [Trie2.step, absStep] at f2
            exact f2
          · simp only [setAt, hp, if_false]
            exact h.stor p
        · intro p hp
          have hpa : ¬ p = addr := by intro e; subst e; rw [hd] at hp; cases hp
          simp only [setAt, hpa, if_false]
          exact h.undep p hp
      obtain ⟨c1, c2, c3⟩ := ih (fun e he' => hl e (List.mem_cons_of_mem _ he')) _ ls' dep _ stL h1 hu
      refine ⟨?_, c2, c3⟩
      intro e he'
      cases he' with
      | head => exact hd
      | tail _ he' => exact c1 e he'

theorem commitAll_inv (l : List (Path × List (Path × HTerm))) :
    ∀ (ls ls' : LSt) (dep : Path → Bool) (a : AbsSt) (stL : Path → Path → HTerm), LInv ls dep a stL →
      (∀ e ∈ l, dep e.1 = true ∧ e.1.length = 251) → commitAll ls l = some ls' →
      ls'.cltrie = ls.cltrie ∧
        LInv ls' dep a (l.foldl (fun st e => setAt st e.1 (a.storage e.1)) stL) := by
  induction l with
  | nil =>
    intro ls ls' dep a stL h _ hu
    simp only [commitAll, Option.some.injEq] at hu; subst hu
    exact ⟨rfl, h⟩
  | cons e rest ih =>
    intro ls ls' dep a stL h hl hu
    obtain ⟨addr, kvs⟩ := e
    have he := hl (addr, kvs) (List.mem_cons_self ..)
    simp only [commitAll] at hu
    cases h1 : updateCommitment ls addr with
    | none => simp [h1] at hu
    | some ls1 =>
      simp only [h1, Option.bind] at hu
      obtain ⟨e1, e2, e3, e4, e5⟩ := updateCommitment_spec h.ctrie addr he.2 (c := a.cls addr) (n := a.nonce addr)
        (by simp [h.cls addr, he.1]) (h.nonce addr he.1) (h.stor addr) h1
      have hi : LInv ls1 dep a (setAt stL addr (a.storage addr)) := by
        refine ⟨fun p => by rw [e1]; exact h.cls p, fun p hp => by rw [e2]; exact h.nonce p hp,
          fun p => by rw [e3]; exact h.stor p, ?_, h.undep⟩
        apply inv_congr e5
        intro key _
        simp only [leafMap, setAt]
        by_cases hk : key = addr
        · subst hk; simp [he.1]
        · simp [hk]
      obtain ⟨c1, c2⟩ := ih ls1 ls' dep a _ hi (fun e he' => hl e (List.mem_cons_of_mem _ he')) hu
      exact ⟨c1.trans e4, c2⟩

theorem commitFold_spec (f : Path → Path → HTerm) (l : List (Path × List (Path × HTerm))) :
    ∀ (st : Path → Path → HTerm) (p : Path),
      l.foldl (fun st e => setAt st e.1 (f e.1)) st p = if p ∈ l.map (·.1) then f p else st p := by
  induction l with
  | nil => intro st p; simp
  | cons e rest ih =>
    intro st p
    simp only [List.foldl_cons, ih, List.map_cons, List.mem_cons]
    by_cases h1 : p ∈ rest.map (·.1)
    · simp [h1]
    · by_cases h2 : p = e.1
      · subst h2; simp [h1, setAt]
      · simp [h1, h2, setAt]

theorem updateContractStorages_inv (l : List (Path × List (Path × HTerm)))
    (hl : ∀ e ∈ l, e.1.length = 251 ∧ ∀ kv ∈ e.2, kv.1.length = 251)
    (ls ls' : LSt) (dep : Path → Bool) (a : AbsSt) (h : LInv ls dep a a.storage) (hs : Side dep a)
    (hu : updateContractStorages ls l = some ls') :
    ∃ dep', ls'.cltrie = ls.cltrie ∧
      LInv ls' dep' { a with storage := storFold l a.storage } (storFold l a.storage) ∧
      Side dep' { a with storage := storFold l a.storage } ∧
      (∀ p, dep p = true → dep' p = true) ∧
      (∀ p, dep' p = true → dep p = true ∨ p ∈ l.map (·.1)) := by
  simp only [updateContractStorages] at hu
  cases h1 : deploySystem ls l with
  | none => simp [h1] at hu
  | some ls1 =>
    simp only [h1, Option.bind] at hu
    cases h2 : writeStorages ls1 l with
    | none => simp [h2] at hu
    | some ls2 =>
      simp only [h2] at hu
      obtain ⟨dep', d1, d2, d3, d4, _, d6⟩ := deploySystem_inv l (fun e he => (hl e he).1) ls ls1 dep a h hs h1
      obtain ⟨w1, w2, w3⟩ := writeStorages_inv l hl ls1 ls2 dep' a a.storage d2 h2
      obtain ⟨c1, c2⟩ := commitAll_inv l ls2 ls' dep' _ a.storage w3
        (fun e he => ⟨w1 e he, (hl e he).1⟩) hu
      refine ⟨dep', (c1.trans w2).trans d1, ?_, ⟨d3.deplen, d3.sysz, d3.clsne⟩, d4, d6⟩
      have hsync : (l.foldl (fun st e => setAt st e.1 (storFold l a.storage e.1)) a.storage) = storFold l a.storage := by
        funext p
        rw [commitFold_spec (storFold l a.storage) l a.storage p]
        by_cases hp : p ∈ l.map (·.1)
        · simp [hp]
        · simp only [hp, if_false]
          exact (storFold_not_mem l a.storage p hp).symm
      rw [hsync] at c2
      exact c2

/-! ### system addresses -/

theorem bit_cases (b : Bool) :
    ((if b = true then 1 else 0 : Nat) = 0 ∧ b = false) ∨ ((if b = true then 1 else 0 : Nat) = 1 ∧ b = true) := by
  cases b <;> simp

theorem pathNatAux_one : ∀ (p : Path) (acc : Nat), pathNatAux acc p = 1 →
    (acc = 0 ∧ 1 ≤ p.length ∧ p = List.replicate (p.length - 1) false ++ [true]) ∨ (acc = 1 ∧ p = []) := by
  intro p
  induction p with
  | nil => intro acc h; simp only [pathNatAux] at h; exact Or.inr ⟨h, rfl⟩
  | cons b bs ih =>
    intro acc h
    simp only [pathNatAux] at h
    rcases ih _ h with ⟨h1, h2, h3⟩ | ⟨h1, h2⟩
    · rcases bit_cases b with ⟨e, hb⟩ | ⟨e, hb⟩
      · rw [e] at h1
        subst hb
        refine Or.inl ⟨by omega, by simp, ?_⟩
        have : (false :: bs).length - 1 = (bs.length - 1) + 1 := by simp only [List.length_cons]; omega
        rw [this, List.replicate_succ, List.cons_append, ← h3]
      · rw [e] at h1; omega
    · subst h2
      rcases bit_cases b with ⟨e, hb⟩ | ⟨e, hb⟩
      · rw [e] at h1; omega
      · rw [e] at h1
        subst hb
        exact Or.inl ⟨by omega, by simp, by simp⟩

theorem pathNatAux_two : ∀ (p : Path) (acc : Nat), pathNatAux acc p = 2 →
    (acc = 0 ∧ 2 ≤ p.length ∧ p = List.replicate (p.length - 2) false ++ [true, false]) ∨
    (acc = 1 ∧ p = [false]) ∨ (acc = 2 ∧ p = []) := by
  intro p
  induction p with
  | nil => intro acc h; simp only [pathNatAux] at h; exact Or.inr (Or.inr ⟨h, rfl⟩)
  | cons b bs ih =>
    intro acc h
    simp only [pathNatAux] at h
    rcases ih _ h with ⟨h1, h2, h3⟩ | ⟨h1, h2⟩ | ⟨h1, h2⟩
    · rcases bit_cases b with ⟨e, hb⟩ | ⟨e, hb⟩
      · rw [e] at h1
        subst hb
        refine Or.inl ⟨by omega, by simp only [List.length_cons]; omega, ?_⟩
        have : (false :: bs).length - 2 = (bs.length - 2) + 1 := by simp only [List.length_cons]; omega
        rw [this, List.replicate_succ, List.cons_append, ← h3]
      · rw [e] at h1; omega
    · subst h2
      rcases bit_cases b with ⟨e, hb⟩ | ⟨e, hb⟩
      · rw [e] at h1; omega
      · rw [e] at h1
        subst hb
        exact Or.inl ⟨by omega, by simp, by simp⟩
    · subst h2
      rcases bit_cases b with ⟨e, hb⟩ | ⟨e, hb⟩
      · rw [e] at h1
        subst hb
        exact Or.inr (Or.inl ⟨by omega, rfl⟩)
      · rw [e] at h1; omega

/-- the two system addresses are the only 251-bit paths `IsSystemContract` accepts -/
theorem isSystem_251 (p : Path) (hp : p.length = 251) (hs : isSystem p = true) : p = sys1 ∨ p = sys2 := by
  simp only [isSystem, Bool.or_eq_true, beq_iff_eq, pathNat] at hs
  rcases hs with h1 | h2
  · rcases pathNatAux_one p 0 h1 with ⟨_, _, h3⟩ | ⟨h3, _⟩
    · left; rw [h3, hp]; rfl
    · cases h3
  · rcases pathNatAux_two p 0 h2 with ⟨_, _, h3⟩ | ⟨h3, _⟩ | ⟨h3, _⟩
    · right; rw [h3, hp]; rfl
    · cases h3
    · cases h3

theorem pathNatAux_zeros (n : Nat) (r : Path) : pathNatAux 0 (List.replicate n false ++ r) = pathNatAux 0 r := by
  induction n with
  | zero => rfl
  | succ n ih => rw [List.replicate_succ, List.cons_append]; simp only [pathNatAux]; exact ih

theorem sys1_length : sys1.length = 251 := by
  unfold sys1; rw [List.length_append, List.length_replicate]; rfl
theorem sys2_length : sys2.length = 251 := by
  unfold sys2; rw [List.length_append, List.length_replicate]; rfl
theorem sys1_nat : pathNat sys1 = 1 := by
  unfold sys1 pathNat; rw [pathNatAux_zeros]; rfl
theorem sys2_nat : pathNat sys2 = 2 := by
  unfold sys2 pathNat; rw [pathNatAux_zeros]; rfl
theorem sys1_isSystem : isSystem sys1 = true := by simp [isSystem, sys1_nat]
theorem sys2_isSystem : isSystem sys2 = true := by simp [isSystem, sys2_nat]
theorem sys1_ne_sys2 : sys1 ≠ sys2 := by
  intro h
  have := congrArg pathNat h
  rw [sys1_nat, sys2_nat] at this
  cases this

/-! ### `purgesystemContracts` (the proposed repair) -/

theorem purgeOne_inv {ls : LSt} {dep : Path → Bool} {a : AbsSt} (h : LInv ls dep a a.storage) (hs : Side dep a)
    (addr : Path) (ha : addr.length = 251) (hsys : isSystem addr = true) :
    ∃ dep', (purgeOne ls addr).cltrie = ls.cltrie ∧ LInv (purgeOne ls addr) dep' a a.storage ∧ Side dep' a ∧
      (dep' addr = true → Spec.root .pedersen 251 (a.storage addr) ≠ .felt 0) ∧
      (∀ p, p ≠ addr → dep' p = dep p) ∧ (∀ p, dep' p = true → dep p = true) := by
  unfold purgeOne
  rw [deployed_iff h, inv_hash (h.stor addr)]
  by_cases hc : (dep addr && Spec.root .pedersen 251 (a.storage addr) == .felt 0) = true
  · simp only [hc, if_true]
    have hd : dep addr = true := by cases hd : dep addr <;> simp [hd] at hc ⊢
    have hz : Spec.root .pedersen 251 (a.storage addr) = .felt 0 := by
      rw [hd] at hc; simpa using hc
    refine ⟨setAt dep addr false, trivial, ⟨?_, ?_, h.stor, ?_, ?_⟩, ⟨?_, hs.sysz, ?_⟩, ?_, ?_, ?_⟩
    · intro p
      simp only [alookup_filter_ne, setAt]
      by_cases hp : p = addr
      · simp [hp]
      · simp only [hp, if_false]; exact h.cls p
    · intro p hp
      by_cases hpa : p = addr
      · subst hpa; simp [setAt] at hp
      · simp only [setAt, hpa, if_false] at hp
        simp only [alookup_filter_ne, hpa, if_false]
        exact h.nonce p hp
    · have s1 := step_inv h.ctrie (.put addr (.felt 0)) ha
      simp only [Trie2.step, absStep] at s1
      apply inv_congr s1
      intro key _
      simp only [leafMap, setAt]
      by_cases hk : key = addr
      · simp [hk]
      · simp [hk]
    · intro p hp
      by_cases hpa : p = addr
      · subst hpa
        exact ⟨(hs.sysz p hsys).1, (hs.sysz p hsys).2, spec_root_zero hz⟩
      · simp only [setAt, hpa, if_false] at hp
        exact h.undep p hp
    · intro p hp
      by_cases hpa : p = addr
      · subst hpa; simp [setAt] at hp
      · simp only [setAt, hpa, if_false] at hp; exact hs.deplen p hp
    · intro p hp hns
      by_cases hpa : p = addr
      · subst hpa; simp [setAt] at hp
      · simp only [setAt, hpa, if_false] at hp; exact hs.clsne p hp hns
    · intro hp; simp [setAt] at hp
    · intro p hp; simp [setAt, hp]
    · intro p hp
      by_cases hpa : p = addr
      · subst hpa; exact hd
      · simpa [setAt, hpa] using hp
  · have hc' : (dep addr && Spec.root .pedersen 251 (a.storage addr) == .felt 0) = false := by
      cases h2 : (dep addr && Spec.root .pedersen 251 (a.storage addr) == .felt 0) <;> simp_all
    simp only [hc', Bool.false_eq_true, if_false]
    refine ⟨dep, trivial, h, hs, ?_, fun _ _ => rfl, fun _ hp => hp⟩
    intro hd hz
    simp [hd, hz] at hc'

theorem purgeSystemContracts_inv {ls : LSt} {dep : Path → Bool} {a : AbsSt} (h : LInv ls dep a a.storage)
    (hs : Side dep a) :
    ∃ dep', (purgeSystemContracts ls).cltrie = ls.cltrie ∧ LInv (purgeSystemContracts ls) dep' a a.storage ∧
      Side dep' a ∧ (∀ p, dep' p = true → dep p = true) ∧
      (∀ p, dep' p = true → isSystem p = true → Spec.root .pedersen 251 (a.storage p) ≠ .felt 0) := by
  obtain ⟨d1, a1, a2, a3, a4, a5, a6⟩ := purgeOne_inv h hs sys1 sys1_length sys1_isSystem
  obtain ⟨d2, b1, b2, b3, b4, b5, b6⟩ := purgeOne_inv a2 a3 sys2 sys2_length sys2_isSystem
  refine ⟨d2, b1.trans a1, b2, b3, fun p hp => a6 p (b6 p hp), ?_⟩
  intro p hp hsys
  rcases isSystem_251 p (b3.deplen p hp) hsys with e | e
  · subst e
    apply a4
    rw [← b5 sys1 sys1_ne_sys2]
    exact hp
  · subst e
    exact b4 hp

/-! ### one block, a whole history -/

/-- a state between two blocks -/
structure LOK (ls : LSt) (dep : Path → Bool) (a : AbsSt) : Prop where
  inv : LInv ls dep a a.storage
  side : Side dep a
  cl : Inv .poseidon 251 ls.cltrie a.classes
  ne : ∀ p, dep p = true → a.cls p ≠ .felt 0 ∨ Spec.root .pedersen 251 (a.storage p) ≠ .felt 0

theorem lok_empty : LOK LSt.empty (fun _ => false) AbsSt.empty := by
  refine ⟨⟨?_, ?_, ?_, ?_, ?_⟩, ⟨?_, ?_, ?_⟩, ?_, ?_⟩
  · intro p; simp [LSt.empty, alookup]
  · intro p hp; cases hp
  · intro p; exact ⟨Or.inl rfl, by simp [LSt.empty, CacheOK], fun _ _ => by simp [LSt.empty, AbsSt.empty, Trie2.get]⟩
  · exact ⟨Or.inl rfl, by simp [LSt.empty, CacheOK], fun _ _ => by simp [LSt.empty, leafMap, Trie2.get]⟩
  · intro p _; exact ⟨rfl, rfl, fun _ _ => rfl⟩
  · intro p hp; cases hp
  · intro p _; exact ⟨rfl, rfl⟩
  · intro p hp; cases hp
  · exact ⟨Or.inl rfl, by simp [LSt.empty, CacheOK], fun _ _ => by simp [LSt.empty, AbsSt.empty, Trie2.get]⟩
  · intro p hp; cases hp

/-- in such a state the commitment is the protocol commitment of the abstract state -/
theorem commitment_ok {ls : LSt} {dep : Path → Bool} {a : AbsSt} (h : LOK ls dep a) (pre014 : Bool) :
    commitment pre014 ls = absCommitment pre014 a := by
  simp only [commitment, absCommitment, inv_hash h.inv.ctrie, inv_hash h.cl]
  rw [spec_root_congr .pedersen 251 (leafMap dep a a.storage) (absContractLeaf a)]
  intro p _
  simp only [leafMap, absContractLeaf, protocolLeaf]
  cases hd : dep p with
  | true =>
    have hne : ¬ (a.cls p = .felt 0 ∧ Spec.root .pedersen 251 (a.storage p) = .felt 0 ∧ a.nonce p = .felt 0) := by
      intro ⟨z1, z2, _⟩
      rcases h.ne p hd with c | c
      · exact c z1
      · exact c z2
    simp [hne]
  | false =>
    obtain ⟨u1, u2, u3⟩ := h.inv.undep p hd
    simp [u1, u2, spec_root_zero_map .pedersen 251 (a.storage p) u3]

theorem classFold_inv (d : Diff) (hd : ValidDiff d) {t : Node} {m : Path → HTerm} (h : Inv .poseidon 251 t m) :
    Inv .poseidon 251
      ((d.declared ++ d.migrated).foldl (fun t (e : Path × HTerm) => Trie2.update t e.1 (classLeaf e.2)) t)
      ((d.declared ++ d.migrated).foldl (fun m e => setAt m e.1 (classLeaf e.2)) m) := by
  have hvalid : ValidOps 251 (classOpsOf d) := by
    intro op hop
    simp only [classOpsOf, List.mem_map] at hop
    obtain ⟨e, he, rfl⟩ := hop
    exact hd.declared e he
  have hcl := foldl_inv (k := .poseidon) (classOpsOf d) hvalid t m h
  rw [foldl_class_eq]
  rw [classes_fold_eq] at hcl
  exact hcl

/-- **One block of the transcribed legacy `Update`.** `purge = true` (the proposed repair) needs nothing more;
for the unchanged backend the block must not leave a system contract whose storage it writes empty. -/
theorem update_ok {purge : Bool} {ls ls' : LSt} {dep : Path → Bool} {a : AbsSt} {d : Diff} (h : LOK ls dep a)
    (hd : ValidDiff d) (hk : purge = true ∨ SysKept a d) (hu : update purge ls d = some ls') :
    ∃ dep', LOK ls' dep' (absApply a d) := by
  simp only [update, bind, Option.bind, pure] at hu
  generalize hcl0 : (d.declared ++ d.migrated).foldl
    (fun t (e : Path × HTerm) => Trie2.update t e.1 (classLeaf e.2)) ls.cltrie = cl at hu
  have hclinv := classFold_inv d hd h.cl
  rw [hcl0] at hclinv
  have h0 : LInv { ls with cltrie := cl } dep a a.storage :=
    ⟨h.inv.cls, h.inv.nonce, h.inv.stor, h.inv.ctrie, h.inv.undep⟩
  cases e1 : deployAll { ls with cltrie := cl } d.deployed with
  | none => simp [e1] at hu
  | some ls1 =>
    simp only [e1] at hu
    obtain ⟨dep1, p1, i1, s1, m1, n1⟩ := deployAll_inv d.deployed hd.deployed _ ls1 dep a h0 h.side e1
    cases e2 : replaceAll ls1 d.replaced with
    | none => simp [e2] at hu
    | some ls2 =>
      simp only [e2] at hu
      obtain ⟨p2, i2, s2⟩ := replaceAll_inv d.replaced hd.replaced ls1 ls2 dep1 _ i1 s1 e2
      cases e3 : nonceAll ls2 d.nonces with
      | none => simp [e3] at hu
      | some ls3 =>
        simp only [e3] at hu
        obtain ⟨p3, i3, s3⟩ := nonceAll_inv d.nonces hd.nonces ls2 ls3 dep1 _ i2 s2 e3
        cases e4 : updateContractStorages ls3 d.storage with
        | none => simp [e4] at hu
        | some ls4 =>
          simp only [e4, Option.some.injEq] at hu
          obtain ⟨dep4, p4, i4, s4, m4, k4⟩ :=
            updateContractStorages_inv d.storage hd.storage ls3 ls4 dep1 _ i3 s3 e4
          have hcl4 : ls4.cltrie = cl := by rw [p4, p3, p2, p1]
          -- the abstract state reached is `absApply a d` (the class component is the folded class map)
          have i4' : LInv ls4 dep4 (absApply a d) (absApply a d).storage :=
            ⟨i4.cls, i4.nonce, i4.stor, i4.ctrie, i4.undep⟩
          have s4' : Side dep4 (absApply a d) := ⟨s4.deplen, s4.sysz, s4.clsne⟩
          have hcl' : Inv .poseidon 251 cl (absApply a d).classes := hclinv
          cases purge with
          | true =>
            simp only [if_true] at hu
            subst hu
            obtain ⟨dep5, q1, q2, q3, _, q5⟩ := purgeSystemContracts_inv i4' s4'
            refine ⟨dep5, q2, q3, by rw [q1, hcl4]; exact hcl', ?_⟩
            intro p hp
            cases hsp : isSystem p with
            | false => exact Or.inl (q3.clsne p hp hsp)
            | true => exact Or.inr (q5 p hp hsp)
          | false =>
            simp only [Bool.false_eq_true, if_false] at hu
            subst hu
            have hk' : SysKept a d := by
              rcases hk with hk | hk
              · cases hk
              · exact hk
            refine ⟨dep4, i4', s4', by rw [hcl4]; exact hcl', ?_⟩
            intro p hp
            cases hsp : isSystem p with
            | false => exact Or.inl (s4'.clsne p hp hsp)
            | true =>
              right
              by_cases hmem : p ∈ d.storage.map (·.1)
              · obtain ⟨e, he, hep⟩ := List.mem_map.mp hmem
                obtain ⟨key, hkl, hkv⟩ := hk' e he (by rw [hep]; exact hsp)
                intro hz
                rw [hep] at hkv
                exact hkv (spec_root_zero hz key hkl)
              · have hd1 : dep1 p = true := by
                  rcases k4 p hp with h5 | h5
                  · exact h5
                  · exact absurd h5 hmem
                have hd0 : dep p = true := by
                  rcases n1 p hd1 with h5 | h5
                  · exact h5
                  · rw [hsp] at h5; cases h5
                have hst : (absApply a d).storage p = a.storage p := storFold_not_mem d.storage a.storage p hmem
                rw [hst]
                rcases h.ne p hd0 with c | c
                · exact absurd (h.side.sysz p hsp).1 c
                · exact c

/-- **A whole history on the transcribed legacy state.** -/
theorem run_ok (purge : Bool) (ds : List Diff) (hd : ∀ d ∈ ds, ValidDiff d) :
    ∀ (ls ls' : LSt) (dep : Path → Bool) (a : AbsSt), LOK ls dep a →
      (purge = true ∨ NoSystemContractEmptied a ds) → run purge ds ls = some ls' →
      ∃ dep', LOK ls' dep' (ds.foldl absApply a) := by
  induction ds with
  | nil =>
    intro ls ls' dep a h _ hu
    simp only [run, Option.some.injEq] at hu; subst hu
    exact ⟨dep, h⟩
  | cons d rest ih =>
    intro ls ls' dep a h hk hu
    simp only [run] at hu
    cases e1 : update purge ls d with
    | none => simp [e1] at hu
    | some ls1 =>
      simp only [e1, Option.bind] at hu
      have hk1 : purge = true ∨ SysKept a d := by
        rcases hk with hk | hk
        · exact Or.inl hk
        · exact Or.inr hk.1
      have hk2 : purge = true ∨ NoSystemContractEmptied (absApply a d) rest := by
        rcases hk with hk | hk
        · exact Or.inl hk
        · exact Or.inr hk.2
      obtain ⟨dep1, h1⟩ := update_ok h (hd d (List.mem_cons_self ..)) hk1 e1
      exact ih (fun d hd' => hd d (List.mem_cons_of_mem _ hd')) ls1 ls' dep1 _ h1 hk2 hu

end LState
end Juno.C01
