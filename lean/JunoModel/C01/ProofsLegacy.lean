import JunoModel.C01.ProofsSpec
import JunoModel.C01.ModelLegacy
/-!
Helper lemmas for C01, part 6: the legacy flat trie (`core/trie`). The flat storage is described by a
trie2-style tree: a legacy node keyed by its absolute path corresponds to a binary node (inner) or a
value node (leaf) of the tree, the relative path of a legacy node to the edge above it.
-/
namespace Juno.C01
namespace Legacy
open Trie2

/-! ### the store -/

theorem sget_sdel (s : Store) (k k' : Path) : sget (sdel s k) k' = if k' = k then none else sget s k' := by
  induction s with
  | nil => simp [sdel, sget]
  | cons e rest ih =>
    obtain ⟨a, b⟩ := e
    simp only [sdel] at ih ⊢
    by_cases ha : a = k
    · subst ha
      simp only [List.filter, bne_self_eq_false, sget, ih]
      by_cases hk : k' = a
      · simp [hk]
      · have : ¬ a = k' := fun h => hk h.symm
        simp [hk, this]
    · have : (a != k) = true := by simpa using ha
      simp only [List.filter, this, sget, ih]
      by_cases hk : k' = k
      · subst hk; simp [ha]
      · simp [hk]

theorem sget_sput (s : Store) (k : Path) (n : LNode) (k' : Path) :
    sget (sput s k n) k' = if k' = k then some n else sget s k' := by
  simp only [sput, sget, sget_sdel]
  by_cases hk : k' = k
  · subst hk; simp
  · have : ¬ k = k' := fun h => hk h.symm
    simp [hk, this]

/-! ### the tree view of the store -/

/-- storage key of the top legacy node of the subtree `t` hanging at absolute prefix `pre` -/
def topKey (pre : Path) : Node → Path
  | .edge p _ _ => pre ++ p
  | _ => pre

inductive Shape where
  | leaf (v : HTerm)
  | inner (l r : Path)
deriving DecidableEq, Repr

/-- the legacy node expected under storage key `k` for the subtree `t` at prefix `pre` (cached value of
inner nodes left open) -/
def flatS (pre : Path) : Node → Path → Option Shape
  | .value v, k => if k = pre then some (.leaf v) else none
  | .edge p c _, k => flatS (pre ++ p) c k
  | .bin l r _, k =>
    if k = pre then some (.inner (topKey (pre ++ [false]) l) (topKey (pre ++ [true]) r))
    else if (pre ++ [false]).isPrefixOf k then flatS (pre ++ [false]) l k
    else flatS (pre ++ [true]) r k
  | _, _ => none

def Matches (o : Option LNode) : Option Shape → Prop
  | none => o = none
  | some (.leaf v) => o = some ⟨v, none, none⟩
  | some (.inner l r) => ∃ c, o = some ⟨c, some l, some r⟩

theorem flatS_prefix {pre : Path} {t : Node} {k : Path} {x : Shape} (h : flatS pre t k = some x) :
    pre <+: k := by
  induction t generalizing pre x with
  | nil => simp [flatS] at h
  | hash _ => simp [flatS] at h
  | value v =>
    simp only [flatS] at h
    split at h
    · rename_i e; subst e; exact List.prefix_refl _
    · simp at h
  | edge p c fl ih =>
    have := ih (pre := pre ++ p) h
    exact (List.prefix_append _ _).trans this
  | bin l r fl ihl ihr =>
    simp only [flatS] at h
    split at h
    · rename_i e; subst e; exact List.prefix_refl _
    · split at h
      · exact (List.prefix_append _ _).trans (ihl (pre := pre ++ [false]) h)
      · exact (List.prefix_append _ _).trans (ihr (pre := pre ++ [true]) h)

/-- agreement of the store with the subtree `t` on every key below `pre` -/
def AgreeAt (s : Store) (pre : Path) (t : Node) : Prop :=
  ∀ k, pre <+: k → Matches (sget s k) (flatS pre t k)

theorem flatS_none_of_not_prefix {pre : Path} {t : Node} {k : Path} (h : ¬ pre <+: k) :
    flatS pre t k = none := by
  cases hx : flatS pre t k with
  | none => rfl
  | some x => exact absurd (flatS_prefix hx) h

theorem AgreeAt.edge {s : Store} {pre p : Path} {c : Node} {fl : Flags} (h : AgreeAt s pre (.edge p c fl)) :
    AgreeAt s (pre ++ p) c := by
  intro k hk
  have := h k ((List.prefix_append _ _).trans hk)
  simpa [flatS] using this

theorem not_prefix_sibling (pre : Path) (b : Bool) {k : Path} (h : pre ++ [b] <+: k) : ¬ pre ++ [!b] <+: k := by
  intro h2
  obtain ⟨t1, rfl⟩ := h
  obtain ⟨t2, e⟩ := h2
  simp only [List.append_assoc, List.append_cancel_left_eq, List.singleton_append, List.cons.injEq] at e
  cases b <;> simp at e

theorem AgreeAt.binL {s : Store} {pre : Path} {l r : Node} {fl : Flags} (h : AgreeAt s pre (.bin l r fl)) :
    AgreeAt s (pre ++ [false]) l := by
  intro k hk
  have := h k ((List.prefix_append _ _).trans hk)
  have hne : k ≠ pre := by
    intro e; subst e
    have := hk.length_le; simp at this; omega
  have hp : (pre ++ [false]).isPrefixOf k = true := List.isPrefixOf_iff_prefix.mpr hk
  simpa [flatS, hne, hp] using this

theorem AgreeAt.binR {s : Store} {pre : Path} {l r : Node} {fl : Flags} (h : AgreeAt s pre (.bin l r fl)) :
    AgreeAt s (pre ++ [true]) r := by
  intro k hk
  have := h k ((List.prefix_append _ _).trans hk)
  have hne : k ≠ pre := by
    intro e; subst e
    have := hk.length_le; simp at this; omega
  have hp : (pre ++ [false]).isPrefixOf k = false := by
    cases h5 : (pre ++ [false]).isPrefixOf k with
    | false => rfl
    | true => exact absurd (List.isPrefixOf_iff_prefix.mp h5) (by simpa using not_prefix_sibling pre true hk)
  simpa [flatS, hne, hp] using this

theorem AgreeAt.binTop {s : Store} {pre : Path} {l r : Node} {fl : Flags} (h : AgreeAt s pre (.bin l r fl)) :
    ∃ c, sget s pre = some ⟨c, some (topKey (pre ++ [false]) l), some (topKey (pre ++ [true]) r)⟩ := by
  have := h pre (List.prefix_refl _)
  simpa [flatS, Matches] using this

/-- the stop test of `nodesFromRoot` at the node stored under `cur` -/
def stops (key cur : Path) : Bool := cur.length ≥ key.length || !equalMSBs key cur

/-- storage keys of the nodes `nodesFromRoot` visits inside the subtree `t` at `pre` -/
def pathKeys (key : Path) : Path → Node → List Path
  | pre, .edge p c _ => pathKeys key (pre ++ p) c
  | pre, .bin l r _ =>
    if stops key pre then [pre]
    else pre :: (if key.getD pre.length false then pathKeys key (pre ++ [true]) r
                 else pathKeys key (pre ++ [false]) l)
  | pre, _ => [pre]

theorem zero_guard {acc : List (Path × LNode)} {pre : Path} (h : acc = [] ∨ pre ≠ []) :
    (!acc.isEmpty && pre.length == 0) = false := by
  cases h with
  | inl h => simp [h]
  | inr h =>
    have : (pre.length == 0) = false := by
      cases pre with
      | nil => exact absurd rfl h
      | cons _ _ => simp
    simp [this]

theorem walk {tr : Trie} {key : Path} {S : Node} {n : Nat} (hw : WF S n) :
    ∀ (pre : Path) (fuel : Nat) (acc : List (Path × LNode)),
      AgreeAt tr.store pre S → pre.length + n = key.length → n + 1 ≤ fuel → (acc = [] ∨ pre ≠ []) →
      ∃ nodes, nodesFromRoot tr key fuel (some (topKey pre S)) acc = some (acc ++ nodes) ∧
        nodes.map Prod.fst = pathKeys key pre S ∧ ∀ e ∈ nodes, sget tr.store e.1 = some e.2 := by
  induction hw with
  | @value v hv =>
    intro pre fuel acc ha hlen hf hacc
    cases fuel with
    | zero => omega
    | succ fuel =>
      have hs : sget tr.store pre = some ⟨v, none, none⟩ := by
        have := ha pre (List.prefix_refl _); simpa [flatS, Matches] using this
      have hzero : (!acc.isEmpty && pre.length == 0) = false := zero_guard hacc
      refine ⟨[(pre, ⟨v, none, none⟩)], ?_, by simp [pathKeys], by simp [hs]⟩
      simp only [topKey, nodesFromRoot, hzero, hs]
      have : (pre.length ≥ key.length) := by omega
      simp [this]
  | @edge p c n fl hp hc hne ih =>
    intro pre fuel acc ha hlen hf hacc
    have := ih (pre ++ p) fuel acc ha.edge (by simp; omega) (by omega)
      (Or.inr (by intro h; simp at h; exact hp h.2))
    cases c with
    | edge q cc qfl => simp [NotEdge] at hne
    | nil => simpa [topKey, pathKeys] using this
    | value v => simpa [topKey, pathKeys] using this
    | hash x => simpa [topKey, pathKeys] using this
    | bin l r bfl => simpa [topKey, pathKeys] using this
  | @bin l r n fl hl hr ihl ihr =>
    intro pre fuel acc ha hlen hf hacc
    cases fuel with
    | zero => omega
    | succ fuel =>
      obtain ⟨cv, hs⟩ := ha.binTop
      have hzero : (!acc.isEmpty && pre.length == 0) = false := zero_guard hacc
      have ht : topKey pre (.bin l r fl) = pre := rfl
      rw [ht]
      simp only [nodesFromRoot, hzero, hs, pathKeys]
      by_cases hst : stops key pre = true
      · have hst' : (decide (pre.length ≥ key.length) || !equalMSBs key pre) = true := by simpa [stops] using hst
        refine ⟨[(pre, ⟨cv, some (topKey (pre ++ [false]) l), some (topKey (pre ++ [true]) r)⟩)], ?_,
          by simp [hst], by simp [hs]⟩
        simp [hst']
      · have hst' : (decide (pre.length ≥ key.length) || !equalMSBs key pre) = false := by simpa [stops] using hst
        simp only [hst', hst]
        by_cases hb : key.getD pre.length false = true
        · simp only [hb, if_true]
          obtain ⟨nodes, h1, h2, h3⟩ := ihr (pre ++ [true]) fuel (acc ++ [(pre, ⟨cv, some (topKey (pre ++ [false]) l), some (topKey (pre ++ [true]) r)⟩)]) ha.binR
            (by simp; omega) (by omega) (Or.inr (by simp))
          refine ⟨(pre, ⟨cv, some (topKey (pre ++ [false]) l), some (topKey (pre ++ [true]) r)⟩) :: nodes, ?_, by simp [h2], ?_⟩
          · simpa [List.append_assoc] using h1
          · intro e he
            cases he with
            | head => exact hs
            | tail _ he => exact h3 e he
        · simp only [hb]
          obtain ⟨nodes, h1, h2, h3⟩ := ihl (pre ++ [false]) fuel (acc ++ [(pre, ⟨cv, some (topKey (pre ++ [false]) l), some (topKey (pre ++ [true]) r)⟩)]) ha.binL
            (by simp; omega) (by omega) (Or.inr (by simp))
          refine ⟨(pre, ⟨cv, some (topKey (pre ++ [false]) l), some (topKey (pre ++ [true]) r)⟩) :: nodes, ?_, by simp [h2], ?_⟩
          · simpa [List.append_assoc] using h1
          · intro e he
            cases he with
            | head => exact hs
            | tail _ he => exact h3 e he

/-! ### paths -/

theorem cpre_append_left (pre a b : Path) : cpre (pre ++ a) (pre ++ b) = pre ++ cpre a b := by
  induction pre with
  | nil => rfl
  | cons x xs ih => simp [cpre, ih]

theorem cpre_comm (a b : Path) : cpre a b = cpre b a := by
  induction a generalizing b with
  | nil => cases b <;> simp [cpre]
  | cons x xs ih =>
    cases b with
    | nil => simp [cpre]
    | cons y ys =>
      by_cases h : x = y
      · subst h; simp [cpre, ih ys]
      · have : ¬ y = x := fun e => h e.symm
        simp [cpre, h, this]

theorem equalMSBs_prefix (pre rest : Path) : equalMSBs (pre ++ rest) pre = true := by
  unfold equalMSBs
  by_cases h : (pre ++ rest).length ≤ pre.length
  · have : rest = [] := by
      have : rest.length = 0 := by simp at h; omega
      exact List.length_eq_zero_iff.mp this
    subst this; simp
  · simp only [h, if_false]
    exact List.isPrefixOf_iff_prefix.mpr (List.prefix_append _ _)

theorem stops_prefix (pre rest : Path) (h : rest ≠ []) : stops (pre ++ rest) pre = false := by
  have hl : ¬ (pre.length ≥ (pre ++ rest).length) := by
    cases rest with
    | nil => exact absurd rfl h
    | cons _ _ => simp
  have hl' : decide (pre.length ≥ (pre ++ rest).length) = false := by simpa using hl
  simp only [stops, hl', equalMSBs_prefix]; rfl

theorem isPrefixOf_append_left (pre a b : Path) : (pre ++ a).isPrefixOf (pre ++ b) = a.isPrefixOf b := by
  induction pre with
  | nil => rfl
  | cons x xs ih => simp [List.isPrefixOf, ih]

theorem stops_mismatch (pre p rest : Path) (hlen : p.length ≤ rest.length) (hnp : p.isPrefixOf rest = false) :
    stops (pre ++ rest) (pre ++ p) = true := by
  unfold stops equalMSBs
  by_cases h : (pre ++ p).length ≥ (pre ++ rest).length
  · have : decide ((pre ++ p).length ≥ (pre ++ rest).length) = true := by simpa using h
    simp only [this, Bool.true_or]
  · have h2 : ¬ (pre ++ rest).length ≤ (pre ++ p).length := by omega
    simp only [h2, if_false, isPrefixOf_append_left, hnp]
    simp

theorem getD_append_len (pre rest : Path) : (pre ++ rest).getD pre.length false = rest.getD 0 false := by
  induction pre with
  | nil => rfl
  | cons x xs ih => simpa using ih

def secondLast {α : Type} (l : List α) : Option α := l.dropLast.getLast?

def relink (old new : Path) : Shape → Shape
  | .inner l r => if l = old then .inner new r else .inner l new
  | sh => sh

theorem topKey_prefix (pre : Path) (S : Node) : pre <+: topKey pre S := by
  cases S <;> simp [topKey]

theorem pathKeys_head {key : Path} {S : Node} {n : Nat} (hw : WF S n) (pre : Path) :
    ∃ tl, pathKeys key pre S = topKey pre S :: tl := by
  induction hw generalizing pre with
  | value _ => exact ⟨[], rfl⟩
  | @edge p c n fl hp hc hne ih =>
    obtain ⟨tl, h⟩ := ih (pre ++ p)
    refine ⟨tl, ?_⟩
    cases c with
    | edge _ _ _ => simp [NotEdge] at hne
    | _ => simpa [pathKeys, topKey] using h
  | bin _ _ _ _ =>
    simp only [pathKeys, topKey]
    split
    · exact ⟨[], rfl⟩
    · exact ⟨_, rfl⟩

theorem pathKeys_prefix {key : Path} {S : Node} {n : Nat} (hw : WF S n) (pre : Path) :
    ∀ K ∈ pathKeys key pre S, pre <+: K := by
  induction hw generalizing pre with
  | value _ => intro K hK; simp [pathKeys] at hK; subst hK; exact List.prefix_refl _
  | edge _ _ _ ih =>
    intro K hK
    exact (List.prefix_append _ _).trans (ih _ K (by simpa [pathKeys] using hK))
  | bin _ _ ihl ihr =>
    intro K hK
    simp only [pathKeys] at hK
    split at hK
    · simp at hK; subst hK; exact List.prefix_refl _
    · cases hK with
      | head => exact List.prefix_refl _
      | tail _ hK =>
        split at hK
        · exact (List.prefix_append _ _).trans (ihr _ K hK)
        · exact (List.prefix_append _ _).trans (ihl _ K hK)

/-- how the expected store content changes when a new key is inserted -/
def insUpd (f : Path → Option Shape) (key : Path) (v : HTerm) (parent : Option Path) (last C : Path)
    (k : Path) : Option Shape :=
  if k = key then some (.leaf v)
  else if parent = some k then (f k).map (relink last C)
  else if k = C then some (if key.getD C.length false then .inner last key else .inner key last)
  else f k

theorem secondLast_cons {α : Type} (a : α) (l : List α) :
    secondLast (a :: l) = if l.length = 1 then some a else secondLast l := by
  cases l with
  | nil => simp [secondLast]
  | cons b t =>
    cases t with
    | nil => simp [secondLast]
    | cons c u => simp [secondLast, List.dropLast]

theorem append_cons_assoc (pre : Path) (b : Bool) (ks : Path) : pre ++ b :: ks = (pre ++ [b]) ++ ks := by simp

/-! ### binary nodes, uniformly in the branch bit -/

def child (b : Bool) (l r : Node) : Node := if b then r else l
def setChild (b : Bool) (l r c : Node) (fl : Flags) : Node := if b then .bin l c fl else .bin c r fl

theorem prefix_dec (a k : Path) : a.isPrefixOf k = true ↔ a <+: k := List.isPrefixOf_iff_prefix

theorem isPrefixOf_false_of_not {a k : Path} (h : ¬ a <+: k) : a.isPrefixOf k = false := by
  cases h5 : a.isPrefixOf k with
  | false => rfl
  | true => exact absurd (List.isPrefixOf_iff_prefix.mp h5) h

theorem flatS_bin_child (pre : Path) (l r : Node) (fl : Flags) (b : Bool) (k : Path) (hk : k ≠ pre) :
    flatS pre (.bin l r fl) k =
      if (pre ++ [b]).isPrefixOf k then flatS (pre ++ [b]) (child b l r) k
      else flatS (pre ++ [!b]) (child (!b) l r) k := by
  simp only [flatS, hk, if_false]
  cases b
  · simp [child]
  · simp only [child, if_true, Bool.not_true, Bool.false_eq_true, if_false]
    by_cases h1 : (pre ++ [true]).isPrefixOf k = true
    · have : (pre ++ [false]).isPrefixOf k = false :=
        isPrefixOf_false_of_not (by simpa using not_prefix_sibling pre true ((prefix_dec _ _).mp h1))
      simp [h1, this]
    · have h1' : (pre ++ [true]).isPrefixOf k = false := Bool.eq_false_iff.mpr h1
      simp only [h1', Bool.false_eq_true, if_false]
      by_cases h0 : (pre ++ [false]).isPrefixOf k = true
      · simp [h0]
      · have h0' : (pre ++ [false]).isPrefixOf k = false := Bool.eq_false_iff.mpr h0
        simp only [h0', Bool.false_eq_true, if_false]
        rw [flatS_none_of_not_prefix (t := r) (fun h => h1 ((prefix_dec _ _).mpr h)),
            flatS_none_of_not_prefix (t := l) (fun h => h0 ((prefix_dec _ _).mpr h))]

theorem flatS_setChild (pre : Path) (l r c : Node) (fl : Flags) (b : Bool) (k : Path) :
    flatS pre (setChild b l r c fl) k =
      if k = pre then some (.inner (topKey (pre ++ [false]) (if b then l else c)) (topKey (pre ++ [true]) (if b then c else r)))
      else if (pre ++ [b]).isPrefixOf k then flatS (pre ++ [b]) c k
      else flatS (pre ++ [!b]) (child (!b) l r) k := by
  by_cases hk : k = pre
  · cases b <;> simp [setChild, flatS, hk]
  · simp only [hk, if_false]
    cases b
    · have := flatS_bin_child pre c r fl false k hk
      simpa [setChild, child] using this
    · have := flatS_bin_child pre l c fl true k hk
      simpa [setChild, child] using this

theorem ins_bin (l r : Node) (fl : Flags) (b : Bool) (ks : Path) (v : HTerm) :
    ∃ fl', (ins (.bin l r fl) (b :: ks) v).1 = setChild b l r (ins (child b l r) ks v).1 fl' := by
  cases b
  · simp only [ins, Bool.false_eq_true, if_false, child, setChild]
    by_cases hd : (ins l ks v).2 = true
    · exact ⟨Flags.new, by simp [hd]⟩
    · have hd' : (ins l ks v).2 = false := by simpa using hd
      exact ⟨fl, by simp [hd', ins_clean hd']⟩
  · simp only [ins, if_true, child, setChild]
    by_cases hd : (ins r ks v).2 = true
    · exact ⟨Flags.new, by simp [hd]⟩
    · have hd' : (ins r ks v).2 = false := by simpa using hd
      exact ⟨fl, by simp [hd', ins_clean hd']⟩

theorem pathKeys_bin (pre : Path) (l r : Node) (fl : Flags) (b : Bool) (ks : Path) :
    pathKeys (pre ++ b :: ks) pre (.bin l r fl) =
      pre :: pathKeys (pre ++ b :: ks) (pre ++ [b]) (child b l r) := by
  have hstop : stops (pre ++ b :: ks) pre = false := stops_prefix pre (b :: ks) (by simp)
  have hbit : (pre ++ b :: ks).getD pre.length false = b := by simp [getD_append_len]
  cases b <;> simp [pathKeys, hstop, hbit, child]

theorem mem_of_secondLast {α : Type} {l : List α} {a : α} (h : secondLast l = some a) : a ∈ l :=
  List.dropLast_subset _ (List.mem_of_getLast? h)


theorem topKey_child_ne (pre : Path) (l r : Node) :
    topKey (pre ++ [false]) l ≠ topKey (pre ++ [true]) r := by
  intro e
  have p1 := topKey_prefix (pre ++ [false]) l
  have p2 := topKey_prefix (pre ++ [true]) r
  rw [e] at p1
  exact not_prefix_sibling pre false p1 (by simpa using p2)

theorem ins_edge_eq (p : Path) (c : Node) (fl : Flags) (key : Path) (v : HTerm) (hk : key ≠ []) :
    ins (.edge p c fl) key v =
      (if (cpre p key).length = p.length then
        (if !(ins c (key.drop (cpre p key).length) v).2 then (Node.edge p c fl, false)
         else (Node.edge p (ins c (key.drop (cpre p key).length) v).1 Flags.new, true))
      else
        (if (cpre p key).isEmpty then
          (Node.bin
            (if key.getD (cpre p key).length false = false then insNil (key.drop ((cpre p key).length + 1)) (.value v)
             else if p.getD (cpre p key).length false = false then insNil (p.drop ((cpre p key).length + 1)) c else .nil)
            (if key.getD (cpre p key).length false = true then insNil (key.drop ((cpre p key).length + 1)) (.value v)
             else if p.getD (cpre p key).length false = true then insNil (p.drop ((cpre p key).length + 1)) c else .nil)
            Flags.new, true)
         else
          (Node.edge (cpre p key) (Node.bin
            (if key.getD (cpre p key).length false = false then insNil (key.drop ((cpre p key).length + 1)) (.value v)
             else if p.getD (cpre p key).length false = false then insNil (p.drop ((cpre p key).length + 1)) c else .nil)
            (if key.getD (cpre p key).length false = true then insNil (key.drop ((cpre p key).length + 1)) (.value v)
             else if p.getD (cpre p key).length false = true then insNil (p.drop ((cpre p key).length + 1)) c else .nil)
            Flags.new) Flags.new, true))) := by
  cases key with
  | nil => exact absurd rfl hk
  | cons b ks => simp only [ins]

theorem topKey_insNil (q x : Path) {c : Node} (hne : NotEdge c) : topKey q (insNil x c) = q ++ x := by
  unfold insNil
  cases x with
  | nil => cases c <;> simp_all [topKey, NotEdge]
  | cons a t => simp [topKey]

theorem flatS_insNil (q x : Path) (c : Node) (k : Path) : flatS q (insNil x c) k = flatS (q ++ x) c k := by
  unfold insNil
  cases x with
  | nil => simp
  | cons a t => simp [flatS]

theorem pathKeys_edge_stop (pre p rest : Path) {c : Node} {n : Nat} (hc : WF c n) (hne : NotEdge c)
    (hlen : p.length ≤ rest.length) (hnp : p.isPrefixOf rest = false) :
    pathKeys (pre ++ rest) (pre ++ p) c = [pre ++ p] := by
  cases hc with
  | value _ => rfl
  | edge _ _ _ => simp [NotEdge] at hne
  | bin _ _ => simp [pathKeys, stops_mismatch pre p rest hlen hnp]

/-- The expected store content after inserting a new key, in terms of the walk of `nodesFromRoot`:
a new leaf, a new inner node at the common prefix `C` of the key and the last node visited, and the
link of that node's parent. -/
theorem flatS_ins {v : HTerm} {S : Node} {n : Nat} (hw : WF S n) :
    ∀ (pre rest : Path), rest.length = n → flatS pre S (pre ++ rest) = none →
      ∃ last, (pathKeys (pre ++ rest) pre S).getLast? = some last ∧
        pre <+: cpre (pre ++ rest) last ∧
        (∀ k, flatS pre (ins S rest v).1 k =
          insUpd (flatS pre S) (pre ++ rest) v (secondLast (pathKeys (pre ++ rest) pre S)) last
            (cpre (pre ++ rest) last) k) ∧
        topKey pre (ins S rest v).1 =
          (if (pathKeys (pre ++ rest) pre S).length = 1 then cpre (pre ++ rest) last else topKey pre S) ∧
        flatS pre S (cpre (pre ++ rest) last) = none ∧
        (∀ P, secondLast (pathKeys (pre ++ rest) pre S) = some P →
          P <+: cpre (pre ++ rest) last ∧ P.length < (cpre (pre ++ rest) last).length) := by
  induction hw with
  | @value w hwv =>
    intro pre rest hr habs
    have : rest = [] := List.length_eq_zero_iff.mp hr
    subst this
    simp [flatS] at habs
  | @bin l r n fl hl hr ihl ihr =>
    intro pre rest hrl habs
    cases rest with
    | nil => simp at hrl
    | cons b ks =>
      have hks : ks.length = n := by simpa using hrl
      have hkey : pre ++ b :: ks = (pre ++ [b]) ++ ks := append_cons_assoc pre b ks
      have hne_pre : pre ++ b :: ks ≠ pre := by
        intro e; have := congrArg List.length e; simp at this
      have hkeypre : (pre ++ [b]).isPrefixOf (pre ++ b :: ks) = true :=
        (prefix_dec _ _).mpr (by rw [hkey]; exact List.prefix_append _ _)
      have hwc : WF (child b l r) n := by cases b <;> simp [child, hl, hr]
      have hchild : flatS (pre ++ [b]) (child b l r) ((pre ++ [b]) ++ ks) = none := by
        rw [← hkey]
        have := flatS_bin_child pre l r fl b (pre ++ b :: ks) hne_pre
        rw [habs, hkeypre] at this
        simpa using this.symm
      have ih : ∃ last, (pathKeys ((pre ++ [b]) ++ ks) (pre ++ [b]) (child b l r)).getLast? = some last ∧
          (pre ++ [b]) <+: cpre ((pre ++ [b]) ++ ks) last ∧
          (∀ k, flatS (pre ++ [b]) (ins (child b l r) ks v).1 k =
            insUpd (flatS (pre ++ [b]) (child b l r)) ((pre ++ [b]) ++ ks) v
              (secondLast (pathKeys ((pre ++ [b]) ++ ks) (pre ++ [b]) (child b l r))) last
              (cpre ((pre ++ [b]) ++ ks) last) k) ∧
          topKey (pre ++ [b]) (ins (child b l r) ks v).1 =
            (if (pathKeys ((pre ++ [b]) ++ ks) (pre ++ [b]) (child b l r)).length = 1
              then cpre ((pre ++ [b]) ++ ks) last else topKey (pre ++ [b]) (child b l r)) ∧
          flatS (pre ++ [b]) (child b l r) (cpre ((pre ++ [b]) ++ ks) last) = none ∧
          (∀ P, secondLast (pathKeys ((pre ++ [b]) ++ ks) (pre ++ [b]) (child b l r)) = some P →
            P <+: cpre ((pre ++ [b]) ++ ks) last ∧ P.length < (cpre ((pre ++ [b]) ++ ks) last).length) := by
        cases b
        · exact ihl (pre ++ [false]) ks hks hchild
        · exact ihr (pre ++ [true]) ks hks hchild
      obtain ⟨last, h1, h2, h3, h4, h5, h6⟩ := ih
      rw [← hkey] at h1 h2 h3 h4 h5 h6
      obtain ⟨tl, htl⟩ := pathKeys_head (key := pre ++ b :: ks) hwc (pre ++ [b])
      obtain ⟨fl', hins⟩ := ins_bin l r fl b ks v
      have hpath := pathKeys_bin pre l r fl b ks
      -- abbreviations
      generalize hP : pathKeys (pre ++ b :: ks) (pre ++ [b]) (child b l r) = pc at h1 h3 h4 h6 htl hpath
      generalize hC : cpre (pre ++ b :: ks) last = C at h2 h3 h4 h5 h6
      generalize hc' : (ins (child b l r) ks v).1 = c' at h3 h4 hins
      have hCne : C ≠ pre := by
        intro e; have := h2.length_le; rw [e] at this; simp at this; omega
      refine ⟨last, ?_, ?_, ?_, ?_, ?_, ?_⟩
      · rw [hpath, htl]; rw [htl] at h1; simpa [List.getLast?_cons_cons] using h1
      · rw [hC]; exact (List.prefix_append _ _).trans h2
      · intro k
        rw [hC, hpath, secondLast_cons, hins, flatS_setChild]
        by_cases hkpre : k = pre
        · subst hkpre
          have hk1 : ¬ k = k ++ b :: ks := fun e => hne_pre e.symm
          simp only [if_true, insUpd, hk1, if_false]
          by_cases hlen1 : pc.length = 1
          · simp only [hlen1, if_true]
            have htop : topKey (k ++ [b]) c' = C := by simpa [hlen1] using h4
            have hlast : topKey (k ++ [b]) (child b l r) = last := by
              rw [htl] at hlen1 h1
              have : tl = [] := by simpa using hlen1
              subst this; simpa using h1
            cases b
            · simp only [child, Bool.false_eq_true, if_false] at hlast htop ⊢
              simp [flatS, relink, hlast, htop]
            · simp only [child, if_true] at hlast htop ⊢
              have hdiff : topKey (k ++ [false]) l ≠ last := by
                rw [← hlast]; exact topKey_child_ne k l r
              simp [flatS, relink, hlast, htop, hdiff]
          · simp only [hlen1, if_false]
            have htop : topKey (k ++ [b]) c' = topKey (k ++ [b]) (child b l r) := by simpa [hlen1] using h4
            have hsl : ¬ secondLast pc = some k := by
              intro e
              have hm : k ∈ pathKeys (k ++ b :: ks) (k ++ [b]) (child b l r) := by rw [hP]; exact mem_of_secondLast e
              have := (pathKeys_prefix hwc (k ++ [b]) k hm).length_le
              simp at this; omega
            have hkc : ¬ k = C := by
              intro e
              have := h2.length_le
              rw [← e] at this; simp at this; omega
            cases b
            · simp only [child, Bool.false_eq_true, if_false] at htop ⊢
              simp [hsl, hkc, flatS, htop]
            · simp only [child, if_true] at htop ⊢
              simp [hsl, hkc, flatS, htop]
        · simp only [hkpre, if_false]
          by_cases hkin : (pre ++ [b]).isPrefixOf k = true
          · simp only [hkin, if_true]
            rw [h3 k]
            have hold := flatS_bin_child pre l r fl b k hkpre
            simp only [hkin, if_true] at hold
            have hpk : ¬ (some pre = some k) := by simpa using fun e : pre = k => hkpre e.symm
            unfold insUpd
            rw [hold]
            by_cases hlen1 : pc.length = 1
            · have hsl : secondLast pc = none := by
                rw [htl] at hlen1 ⊢
                have : tl = [] := by simpa using hlen1
                subst this; simp [secondLast]
              simp [hlen1, hsl, hpk]
            · simp [hlen1]
          · have hkin' : (pre ++ [b]).isPrefixOf k = false := Bool.eq_false_iff.mpr hkin
            have hnp : ¬ (pre ++ [b]) <+: k := fun h => hkin ((prefix_dec _ _).mpr h)
            simp only [hkin', Bool.false_eq_true, if_false]
            have hold := flatS_bin_child pre l r fl b k hkpre
            simp only [hkin', Bool.false_eq_true, if_false] at hold
            have c1 : ¬ k = pre ++ b :: ks := by
              intro e; apply hnp; rw [e, hkey]; exact List.prefix_append _ _
            have c2 : ¬ (if pc.length = 1 then some pre else secondLast pc) = some k := by
              split
              · simpa using fun e : pre = k => hkpre e.symm
              · intro e
                have hm : k ∈ pathKeys (pre ++ b :: ks) (pre ++ [b]) (child b l r) := by rw [hP]; exact mem_of_secondLast e
                exact hnp (pathKeys_prefix hwc (pre ++ [b]) k hm)
            have c3 : ¬ k = C := by
              intro e; apply hnp; rw [e]; exact h2
            simp only [insUpd, c1, c2, c3, if_false, hold]
      · rw [hC, hpath, hins]
        have : (pre :: pc).length ≠ 1 := by rw [htl]; simp
        simp only [this, if_false]
        cases b <;> simp [setChild, topKey]
      · rw [hC, flatS_bin_child pre l r fl b C hCne, (prefix_dec _ _).mpr h2]
        simpa using h5
      · intro P hPs
        rw [hC]
        rw [hpath, secondLast_cons] at hPs
        by_cases hlen1 : pc.length = 1
        · simp only [hlen1, if_true, Option.some.injEq] at hPs
          subst hPs
          refine ⟨(List.prefix_append _ _).trans h2, ?_⟩
          have := h2.length_le; simp at this; omega
        · simp only [hlen1, if_false] at hPs
          exact h6 P hPs
  | @edge p c n fl hp hc hne ih =>
    intro pre rest hrl habs
    have habs' : flatS (pre ++ p) c (pre ++ rest) = none := by simpa [flatS] using habs
    by_cases hpre : p.isPrefixOf rest = true
    · -- the edge path is a prefix of the key: descend
      obtain ⟨kt, rfl⟩ := List.isPrefixOf_iff_prefix.mp hpre
      have hkt : kt.length = n := by simp at hrl; omega
      have hassoc : pre ++ (p ++ kt) = (pre ++ p) ++ kt := by simp
      rw [hassoc] at habs'
      obtain ⟨last, h1, h2, h3, h4, h5, h6⟩ := ih (pre ++ p) kt hkt habs'
      rw [← hassoc] at h1 h2 h3 h4 h5 h6
      have hfull : (cpre p (p ++ kt)).length = p.length :=
        (cpre_full_iff p _).mpr hpre
      -- the walk inside `c` has at least two nodes
      have hlen2 : (pathKeys (pre ++ (p ++ kt)) (pre ++ p) c).length ≠ 1 := by
        cases hc with
        | value hv =>
          have : kt = [] := List.length_eq_zero_iff.mp hkt
          subst this
          simp [flatS] at habs'
        | edge _ _ _ => simp [NotEdge] at hne
        | @bin l r n' bfl hl hr =>
          have hktne : kt ≠ [] := by intro e; subst e; simp at hkt
          rw [hassoc]
          cases kt with
          | nil => exact absurd rfl hktne
          | cons b ks =>
            rw [pathKeys_bin]
            have hwc : WF (child b l r) n' := by cases b <;> simp [child, hl, hr]
            obtain ⟨tl, htl⟩ := pathKeys_head (key := (pre ++ p) ++ b :: ks) hwc ((pre ++ p) ++ [b])
            rw [htl]; simp
      have hins : ∃ fl', (ins (.edge p c fl) (p ++ kt) v).1 = .edge p (ins c kt v).1 fl' := by
        cases hk : p ++ kt with
        | nil => simp at hk; exact absurd hk.1 hp
        | cons kb kks =>
          rw [← hk]
          have : (ins (.edge p c fl) (p ++ kt) v) =
              (if !(ins c kt v).2 then (Node.edge p c fl, false) else (Node.edge p (ins c kt v).1 Flags.new, true)) := by
            rw [hk]; simp only [ins]; rw [← hk]; simp [hfull]
          rw [this]
          by_cases hd : (ins c kt v).2 = true
          · exact ⟨Flags.new, by simp [hd]⟩
          · have hd' : (ins c kt v).2 = false := by simpa using hd
            exact ⟨fl, by simp [hd', ins_clean hd']⟩
      obtain ⟨fl', hins⟩ := hins
      refine ⟨last, by simpa [pathKeys] using h1, (List.prefix_append _ _).trans h2, ?_, ?_,
        by simpa [flatS] using h5, by simpa [pathKeys] using h6⟩
      · intro k
        rw [hins]
        simp only [flatS, pathKeys]
        exact h3 k
      · rw [hins]
        simp only [pathKeys, hlen2, if_false, topKey]
    · -- branch out below the common prefix
      have hnp : p.isPrefixOf rest = false := Bool.eq_false_iff.mpr hpre
      have hfull : (cpre p rest).length ≠ p.length := fun e => hpre ((cpre_full_iff p rest).mp e)
      obtain ⟨m, pb, prest, krest, hp', hk2, hm⟩ := cpre_split p rest (by omega) hfull
      subst hp' hk2
      have hpath : pathKeys (pre ++ (m ++ (!pb) :: krest)) (pre ++ (m ++ pb :: prest)) c = [pre ++ (m ++ pb :: prest)] :=
        pathKeys_edge_stop pre _ _ hc hne (by omega) hnp
      have hC : cpre (pre ++ (m ++ (!pb) :: krest)) (pre ++ (m ++ pb :: prest)) = pre ++ m := by
        rw [cpre_append_left, cpre_comm, hm]
      have hkr : krest.length = prest.length + n := by simp at hrl; omega
      -- the result of the split
      have hres : ∃ fl1 fl2, (ins (.edge (m ++ pb :: prest) c fl) (m ++ (!pb) :: krest) v).1 =
          (if m.isEmpty then setChild pb (insNil krest (.value v)) (insNil krest (.value v)) (insNil prest c) fl1
           else .edge m (setChild pb (insNil krest (.value v)) (insNil krest (.value v)) (insNil prest c) fl1) fl2) := by
        have e1 : (m ++ pb :: prest).getD m.length false = pb := by simp
        have e2 : (m ++ (!pb) :: krest).getD m.length false = !pb := by simp
        have e3 : List.drop (m.length + 1) (m ++ pb :: prest) = prest := by
          rw [show m ++ pb :: prest = (m ++ [pb]) ++ prest by simp]
          rw [show m.length + 1 = (m ++ [pb]).length by simp]
          exact List.drop_left
        have e4 : List.drop (m.length + 1) (m ++ (!pb) :: krest) = krest := by
          rw [show m ++ (!pb) :: krest = (m ++ [!pb]) ++ krest by simp]
          rw [show m.length + 1 = (m ++ [!pb]).length by simp]
          exact List.drop_left
        refine ⟨Flags.new, Flags.new, ?_⟩
        rw [ins_edge_eq _ _ _ _ _ (by simp), hm]
        have hf : ¬ m.length = (m ++ pb :: prest).length := by simp
        simp only [hf, if_false, e1, e2, e3, e4]
        cases pb <;> cases hme : m.isEmpty <;> simp [setChild]
      obtain ⟨fl1, fl2, hres⟩ := hres
      refine ⟨pre ++ (m ++ pb :: prest), by simp [pathKeys, hpath], ?_, ?_, ?_, ?_, ?_⟩
      · rw [hC]; exact List.prefix_append _ _
      · intro k
        have hflat : flatS pre (ins (.edge (m ++ pb :: prest) c fl) (m ++ (!pb) :: krest) v).1 k =
            flatS (pre ++ m) (setChild pb (insNil krest (.value v)) (insNil krest (.value v)) (insNil prest c) fl1) k := by
          rw [hres]
          cases hme : m.isEmpty with
          | true =>
            have : m = [] := by cases m <;> simp_all
            subst this; simp
          | false => simp [flatS]
        rw [hflat, hC, flatS_setChild]
        simp only [pathKeys, hpath]
        have hsl : secondLast [pre ++ (m ++ pb :: prest)] = none := by simp [secondLast]
        rw [hsl]
        have hq1 : (pre ++ m) ++ [pb] ++ prest = pre ++ (m ++ pb :: prest) := by simp
        have hq2 : (pre ++ m) ++ [!pb] ++ krest = pre ++ (m ++ (!pb) :: krest) := by simp
        have hbit : (pre ++ (m ++ (!pb) :: krest)).getD (pre ++ m).length false = !pb := by
          rw [show pre ++ (m ++ (!pb) :: krest) = (pre ++ m) ++ (!pb) :: krest by simp, getD_append_len]; rfl
        unfold insUpd
        by_cases hkc : k = pre ++ m
        · subst hkc
          have hne1 : ¬ pre ++ m = pre ++ (m ++ (!pb) :: krest) := by
            intro e; have := congrArg List.length e; simp at this
          have hnone : ¬ (none : Option Path) = some (pre ++ m) := by simp
          simp only [if_true, hne1, if_false, hbit, hnone]
          have t1 := topKey_insNil ((pre ++ m) ++ [pb]) prest hne
          have t2 := topKey_insNil ((pre ++ m) ++ [!pb]) krest (c := .value v) (by simp [NotEdge])
          rw [hq1] at t1; rw [hq2] at t2
          cases pb <;> simp_all
        · simp only [hkc, if_false]
          by_cases hold : ((pre ++ m) ++ [pb]).isPrefixOf k = true
          · simp only [hold, if_true, flatS_insNil, hq1]
            have hne1 : ¬ k = pre ++ (m ++ (!pb) :: krest) := by
              intro e
              have h1 := (prefix_dec _ _).mp hold
              have h2 : (pre ++ m) ++ [!pb] <+: k := by rw [e, ← hq2]; simp
              exact not_prefix_sibling (pre ++ m) pb h1 h2
            simp [hne1, flatS]
          · have hold' : ((pre ++ m) ++ [pb]).isPrefixOf k = false := Bool.eq_false_iff.mpr hold
            simp only [hold', Bool.false_eq_true, if_false, child]
            have hsel : (if (!pb) = true then insNil krest (Node.value v) else insNil krest (Node.value v)) =
                insNil krest (.value v) := by cases pb <;> rfl
            rw [hsel, flatS_insNil, hq2]
            have hf0 : flatS pre (.edge (m ++ pb :: prest) c fl) k = none := by
              simp only [flatS]
              apply flatS_none_of_not_prefix
              intro h
              apply hold
              apply (prefix_dec _ _).mpr
              rw [← hq1] at h
              exact (List.prefix_append _ _).trans h
            have hf1 : flatS (pre ++ (m ++ pb :: prest)) c k = none := by simpa [flatS] using hf0
            simp [flatS, hf0, hf1]
      · rw [hres, hC]
        simp only [pathKeys, hpath, List.length_singleton, if_true]
        cases hme : m.isEmpty with
        | true =>
          have : m = [] := by cases m <;> simp_all
          subst this
          cases pb <;> simp [setChild, topKey]
        | false => simp [topKey]
      · rw [hC]
        simp only [flatS]
        apply flatS_none_of_not_prefix
        intro h
        have := h.length_le
        simp at this; omega
      · intro P hPs
        simp [pathKeys, hpath, secondLast] at hPs

theorem ins_edge_descend (p : Path) (c : Node) (fl : Flags) (kt : Path) (v : HTerm) (hp : p ≠ []) :
    ∃ fl', (ins (.edge p c fl) (p ++ kt) v).1 = .edge p (ins c kt v).1 fl' := by
  have hfull : (cpre p (p ++ kt)).length = p.length :=
    (cpre_full_iff p _).mpr (List.isPrefixOf_iff_prefix.mpr (List.prefix_append _ _))
  rw [ins_edge_eq _ _ _ _ _ (by intro e; simp at e; exact hp e.1)]
  simp only [hfull, if_true, List.drop_left]
  by_cases hd : (ins c kt v).2 = true
  · exact ⟨Flags.new, by simp [hd]⟩
  · have hd' : (ins c kt v).2 = false := by simpa using hd
    exact ⟨fl, by simp [hd', ins_clean hd']⟩

/-- overwriting a present key only changes that leaf -/
theorem flatS_ins_present {v : HTerm} {S : Node} {n : Nat} (hw : WF S n) :
    ∀ (pre rest : Path), rest.length = n → flatS pre S (pre ++ rest) ≠ none →
      (∀ k, flatS pre (ins S rest v).1 k = if k = pre ++ rest then some (.leaf v) else flatS pre S k) ∧
      topKey pre (ins S rest v).1 = topKey pre S := by
  induction hw with
  | @value w hwv =>
    intro pre rest hr _
    have : rest = [] := List.length_eq_zero_iff.mp hr
    subst this
    refine ⟨?_, by simp [ins, topKey]⟩
    intro k
    simp only [ins, flatS, List.append_nil]
    split <;> rfl
  | @edge p c n fl hp hc hne ih =>
    intro pre rest hrl hpres
    have hpres' : flatS (pre ++ p) c (pre ++ rest) ≠ none := by simpa [flatS] using hpres
    have hpp : p <+: rest := by
      cases hx : flatS (pre ++ p) c (pre ++ rest) with
      | none => exact absurd hx hpres'
      | some x =>
        have := flatS_prefix hx
        obtain ⟨t, ht⟩ := this
        rw [List.append_assoc] at ht
        exact ⟨t, List.append_cancel_left ht⟩
    obtain ⟨kt, rfl⟩ := hpp
    have hkt : kt.length = n := by simp at hrl; omega
    have hassoc : pre ++ (p ++ kt) = (pre ++ p) ++ kt := by simp
    rw [hassoc] at hpres'
    obtain ⟨h1, h2⟩ := ih (pre ++ p) kt hkt hpres'
    obtain ⟨fl', hins⟩ := ins_edge_descend p c fl kt v hp
    rw [hins]
    refine ⟨?_, by simp [topKey]⟩
    intro k
    simp only [flatS]
    rw [h1 k, hassoc]
  | @bin l r n fl hl hr ihl ihr =>
    intro pre rest hrl hpres
    cases rest with
    | nil => simp at hrl
    | cons b ks =>
      have hks : ks.length = n := by simpa using hrl
      have hkey : pre ++ b :: ks = (pre ++ [b]) ++ ks := append_cons_assoc pre b ks
      have hne_pre : pre ++ b :: ks ≠ pre := by
        intro e; have := congrArg List.length e; simp at this
      have hkeypre : (pre ++ [b]).isPrefixOf (pre ++ b :: ks) = true :=
        (prefix_dec _ _).mpr (by rw [hkey]; exact List.prefix_append _ _)
      have hchild : flatS (pre ++ [b]) (child b l r) ((pre ++ [b]) ++ ks) ≠ none := by
        rw [← hkey]
        have := flatS_bin_child pre l r fl b (pre ++ b :: ks) hne_pre
        rw [hkeypre] at this
        simpa [this] using hpres
      have ih : (∀ k, flatS (pre ++ [b]) (ins (child b l r) ks v).1 k =
            if k = (pre ++ [b]) ++ ks then some (.leaf v) else flatS (pre ++ [b]) (child b l r) k) ∧
          topKey (pre ++ [b]) (ins (child b l r) ks v).1 = topKey (pre ++ [b]) (child b l r) := by
        cases b
        · exact ihl (pre ++ [false]) ks hks hchild
        · exact ihr (pre ++ [true]) ks hks hchild
      obtain ⟨h1, h2⟩ := ih
      obtain ⟨fl', hins⟩ := ins_bin l r fl b ks v
      rw [hins]
      refine ⟨?_, by cases b <;> simp [setChild, topKey]⟩
      intro k
      rw [flatS_setChild]
      by_cases hkpre : k = pre
      · subst hkpre
        have hk1 : ¬ k = k ++ b :: ks := fun e => hne_pre e.symm
        simp only [if_true, hk1, if_false, flatS]
        cases b
        · simp only [child, Bool.false_eq_true, if_false] at h2 ⊢; rw [h2]
        · simp only [child, if_true] at h2 ⊢; rw [h2]
      · simp only [hkpre, if_false]
        have hold := flatS_bin_child pre l r fl b k hkpre
        by_cases hkin : (pre ++ [b]).isPrefixOf k = true
        · simp only [hkin, if_true] at hold ⊢
          rw [h1 k, hold, hkey]
        · have hkin' : (pre ++ [b]).isPrefixOf k = false := Bool.eq_false_iff.mpr hkin
          simp only [hkin', Bool.false_eq_true, if_false] at hold ⊢
          have c1 : ¬ k = pre ++ b :: ks := by
            intro e; apply hkin; rw [e]; exact hkeypre
          simp [c1, hold]

/-! ### `insertOrUpdateValue` on the store -/

theorem secondLast_of_reverse {α : Type} (l : List α) :
    (∀ a b rest, l.reverse = a :: b :: rest → secondLast l = some b) ∧
    ((l.reverse = [] ∨ ∃ a, l.reverse = [a]) → secondLast l = none) := by
  constructor
  · intro a b rest h
    have : l = (a :: b :: rest).reverse := by rw [← h, List.reverse_reverse]
    subst this
    simp [secondLast]
  · intro h
    rcases h with h | ⟨a, h⟩
    · have : l = [] := by simpa using h
      subst this; rfl
    · have : l = [a] := by
        have := congrArg List.reverse h; simpa using this
      subst this; simp [secondLast]

def relinkNode (nd : LNode) (old new : Path) : LNode :=
  if nd.left = some old then { nd with left := some new } else { nd with right := some new }

theorem iouv_spec (tr : Trie) (key : Path) (node : LNode) (nodes : List (Path × LNode)) (sib : Path × LNode) :
    let C := cpre key sib.1
    let np : LNode := ⟨.h tr.kind
        (nodeHash tr.kind (if key.getD C.length false then sib.2 else node)
          (relPath (if key.getD C.length false then sib.1 else key) (some C)))
        (nodeHash tr.kind (if key.getD C.length false then node else sib.2)
          (relPath (if key.getD C.length false then key else sib.1) (some C))),
      some (if key.getD C.length false then sib.1 else key), some (if key.getD C.length false then key else sib.1)⟩
    let r := insertOrUpdateValue tr key node nodes sib
    r.height = tr.height ∧ r.kind = tr.kind ∧
    match secondLast nodes with
    | some e =>
      (∀ k, sget r.store k = if k = key then some node else if k = e.1 then some (relinkNode e.2 sib.1 C)
        else if k = C then some np else sget tr.store k) ∧
      r.dirty = tr.dirty ++ [C] ∧ r.rootKey = tr.rootKey
    | none =>
      (∀ k, sget r.store k = if k = key then some node else if k = C then some np else sget tr.store k) ∧
      r.dirty = tr.dirty ∧ r.rootKey = some C := by
  intro C np r
  obtain ⟨h2, h1⟩ := secondLast_of_reverse nodes
  cases hrev : nodes.reverse with
  | nil =>
    rw [h1 (Or.inl hrev)]
    simp only [r, insertOrUpdateValue, hrev, setRootKey]
    refine ⟨trivial, trivial, ?_, trivial, rfl⟩
    intro k; simp only [sget_sput]; rfl
  | cons a rest =>
    cases rest with
    | nil =>
      rw [h1 (Or.inr ⟨a, hrev⟩)]
      simp only [r, insertOrUpdateValue, hrev, setRootKey]
      refine ⟨trivial, trivial, ?_, trivial, rfl⟩
      intro k; simp only [sget_sput]; rfl
    | cons b rest2 =>
      rw [h2 a b rest2 hrev]
      simp only [r, insertOrUpdateValue, hrev]
      refine ⟨trivial, trivial, ?_, rfl, trivial⟩
      intro k
      simp only [sget_sput, relinkNode]
      rfl

/-! ### the representation invariant -/

def DirtyBelow (dirty : List Path) (K : Path) : Prop := ∃ d ∈ dirty, K.length < d.length ∧ K <+: d

/-- the cached value of an inner node is the hash of its children's stored values -/
def LocalOK (kind : HashKind) (s : Store) (K : Path) (nd : LNode) : Prop :=
  ∀ L R, nd.left = some L → nd.right = some R →
    ∃ nl nr, sget s L = some nl ∧ sget s R = some nr ∧
      nd.value = .h kind (nodeHash kind nl (relPath L (some K))) (nodeHash kind nr (relPath R (some K)))

def rootKeyOf : Node → Option Path
  | .nil => none
  | t => some (topKey [] t)

structure Repr (tr : Trie) (t : Node) (n : Nat) : Prop where
  height : tr.height = n
  wf : WFRoot t n
  agree : ∀ k, Matches (sget tr.store k) (flatS [] t k)
  root : tr.rootKey = rootKeyOf t
  cache : ∀ K nd, sget tr.store K = some nd → LocalOK tr.kind tr.store K nd ∨ DirtyBelow tr.dirty K

theorem top_exists {S : Node} {n : Nat} (hw : WF S n) (pre : Path) : flatS pre S (topKey pre S) ≠ none := by
  induction hw generalizing pre with
  | value _ => simp [flatS, topKey]
  | @edge p c n fl hp hc hne ih =>
    have := ih (pre ++ p)
    cases c with
    | edge _ _ _ => simp [NotEdge] at hne
    | _ => simpa [flatS, topKey] using this
  | bin _ _ _ _ => simp [flatS, topKey]

theorem link_facts {S : Node} {n : Nat} (hw : WF S n) :
    ∀ (pre K L R : Path), flatS pre S K = some (.inner L R) →
      (K ++ [false]) <+: L ∧ (K ++ [true]) <+: R ∧ flatS pre S L ≠ none ∧ flatS pre S R ≠ none := by
  induction hw with
  | value _ =>
    intro pre K L R h
    simp only [flatS] at h
    split at h <;> simp at h
  | edge _ _ _ ih => intro pre K L R h; exact ih _ K L R (by simpa [flatS] using h)
  | @bin l r n fl hl hr ihl ihr =>
    intro pre K L R h
    by_cases hk : K = pre
    · subst hk
      simp only [flatS, if_true, Option.some.injEq, Shape.inner.injEq] at h
      obtain ⟨rfl, rfl⟩ := h
      have pl := topKey_prefix (K ++ [false]) l
      have pr := topKey_prefix (K ++ [true]) r
      refine ⟨pl, pr, ?_, ?_⟩
      · have hne : topKey (K ++ [false]) l ≠ K := by
          intro e; have := pl.length_le; rw [e] at this; simp at this; omega
        rw [flatS_bin_child K l r fl false _ hne, (prefix_dec _ _).mpr pl]
        simpa [child] using top_exists hl (K ++ [false])
      · have hne : topKey (K ++ [true]) r ≠ K := by
          intro e; have := pr.length_le; rw [e] at this; simp at this; omega
        rw [flatS_bin_child K l r fl true _ hne, (prefix_dec _ _).mpr pr]
        simpa [child] using top_exists hr (K ++ [true])
    · have h0 := flatS_bin_child pre l r fl false K hk
      rw [h] at h0
      by_cases hin : (pre ++ [false]).isPrefixOf K = true
      · simp only [hin, if_true, child, Bool.false_eq_true, if_false] at h0
        obtain ⟨a, b, c, d⟩ := ihl _ K L R h0.symm
        have hL : (pre ++ [false]) <+: L :=
          ((prefix_dec _ _).mp hin).trans ((List.prefix_append _ _).trans a)
        have hR : (pre ++ [false]) <+: R :=
          ((prefix_dec _ _).mp hin).trans ((List.prefix_append _ _).trans b)
        have hLne : L ≠ pre := by intro e; have := hL.length_le; rw [e] at this; simp at this; omega
        have hRne : R ≠ pre := by intro e; have := hR.length_le; rw [e] at this; simp at this; omega
        refine ⟨a, b, ?_, ?_⟩
        · rw [flatS_bin_child pre l r fl false L hLne, (prefix_dec _ _).mpr hL]; simpa [child] using c
        · rw [flatS_bin_child pre l r fl false R hRne, (prefix_dec _ _).mpr hR]; simpa [child] using d
      · have hin' : (pre ++ [false]).isPrefixOf K = false := Bool.eq_false_iff.mpr hin
        simp only [hin', Bool.false_eq_true, if_false, child, Bool.not_false, if_true] at h0
        obtain ⟨a, b, c, d⟩ := ihr _ K L R h0.symm
        have hK : (pre ++ [true]) <+: K := flatS_prefix h0.symm
        have hL : (pre ++ [true]) <+: L := hK.trans ((List.prefix_append _ _).trans a)
        have hR : (pre ++ [true]) <+: R := hK.trans ((List.prefix_append _ _).trans b)
        have hLne : L ≠ pre := by intro e; have := hL.length_le; rw [e] at this; simp at this; omega
        have hRne : R ≠ pre := by intro e; have := hR.length_le; rw [e] at this; simp at this; omega
        refine ⟨a, b, ?_, ?_⟩
        · rw [flatS_bin_child pre l r fl true L hLne, (prefix_dec _ _).mpr hL]; simpa [child] using c
        · rw [flatS_bin_child pre l r fl true R hRne, (prefix_dec _ _).mpr hR]; simpa [child] using d

theorem secondLast_map {α β : Type} (f : α → β) (l : List α) :
    secondLast (l.map f) = (secondLast l).map f := by
  unfold secondLast
  rw [← List.map_dropLast, List.getLast?_map]

theorem matches_some_iff {o : Option LNode} {sh : Option Shape} (h : Matches o sh) :
    o = none ↔ sh = none := by
  cases sh with
  | none => simpa [Matches] using h
  | some x =>
    cases x with
    | leaf v => simp [Matches] at h; simp [h]
    | inner l r => simp only [Matches] at h; obtain ⟨c, hc⟩ := h; simp [hc]

theorem dirtyBelow_mono {dirty : List Path} {K : Path} (h : DirtyBelow dirty K) (extra : List Path) :
    DirtyBelow (dirty ++ extra) K := by
  obtain ⟨d, hd, h1, h2⟩ := h
  exact ⟨d, List.mem_append_left _ hd, h1, h2⟩

theorem root_of_wf {t : Node} {n : Nat} (h : WF t n) : rootKeyOf t = some (topKey [] t) := by
  cases h <;> rfl

/-- `Put` of a non-zero value to a key that is present (`updateLeaf`) -/
theorem put_present {tr : Trie} {t : Node} {n : Nat} (hr : Repr tr t n) (key : Path) (hk : key.length = n)
    (v : HTerm) (hv : v ≠ .felt 0) (hp : sget tr.store key ≠ none) :
    ∃ tr', put tr key v = some tr' ∧ Repr tr' (ins t key v).1 n ∧ tr'.kind = tr.kind := by
  have hsome : (sget tr.store key).isSome = true := by
    cases h : sget tr.store key with
    | none => exact absurd h hp
    | some _ => rfl
  have hb : (v != HTerm.felt 0) = true := by simpa using hv
  refine ⟨{ tr with store := sput tr.store key ⟨v, none, none⟩, dirty := tr.dirty ++ [key] },
    by simp [put, hb, hsome], ?_, rfl⟩
  have hflat : flatS [] t ([] ++ key) ≠ none := by
    intro e
    exact hp ((matches_some_iff (hr.agree key)).mpr (by simpa using e))
  have hwf : WF t n := by
    cases hr.wf with
    | inl e => subst e; simp [flatS] at hflat
    | inr w => exact w
  obtain ⟨f1, f2⟩ := flatS_ins_present (v := v) hwf [] key hk hflat
  simp only [List.nil_append] at f1
  have hwf' := (ins_spec hwf key hk v hv).1
  refine ⟨hr.height, Or.inr hwf', ?_, ?_, ?_⟩
  · intro k
    simp only [sget_sput]
    rw [f1 k]
    by_cases e : k = key
    · simp [e, Matches]
    · simpa [e] using hr.agree k
  · show tr.rootKey = _
    rw [root_of_wf hwf', f2, hr.root, root_of_wf hwf]
  · intro K nd hK
    simp only [sget_sput] at hK
    by_cases e : K = key
    · simp only [e, if_true, Option.some.injEq] at hK
      subst hK
      left; intro L R hL; simp at hL
    · simp only [e, if_false] at hK
      cases hr.cache K nd hK with
      | inr hd => exact Or.inr (dirtyBelow_mono hd _)
      | inl hl =>
        by_cases hlink : nd.left = some key ∨ nd.right = some key
        · -- the parent of the overwritten leaf
          right
          have hm := hr.agree K
          rw [hK] at hm
          cases hsh : flatS [] t K with
          | none => rw [hsh] at hm; simp [Matches] at hm
          | some sh =>
            rw [hsh] at hm
            cases sh with
            | leaf w =>
              simp only [Matches, Option.some.injEq] at hm; subst hm
              rcases hlink with h | h <;> simp at h
            | inner L R =>
              simp only [Matches, Option.some.injEq] at hm
              obtain ⟨c, hc⟩ := hm; subst hc
              obtain ⟨a, b, _, _⟩ := link_facts hwf [] K L R hsh
              refine ⟨key, by simp, ?_, ?_⟩
              · rcases hlink with h | h
                · simp only [Option.some.injEq] at h; subst h
                  have := a.length_le; simp at this; omega
                · simp only [Option.some.injEq] at h; subst h
                  have := b.length_le; simp at this; omega
              · rcases hlink with h | h
                · simp only [Option.some.injEq] at h; subst h
                  exact (List.prefix_append _ _).trans a
                · simp only [Option.some.injEq] at h; subst h
                  exact (List.prefix_append _ _).trans b
        · left
          intro L R hL hR
          obtain ⟨nl, nr, a, b, c⟩ := hl L R hL hR
          have hLk : L ≠ key := fun e => hlink (Or.inl (by rw [hL, e]))
          have hRk : R ≠ key := fun e => hlink (Or.inr (by rw [hR, e]))
          exact ⟨nl, nr, by simp [sget_sput, hLk, a], by simp [sget_sput, hRk, b], c⟩

/-- `Put` of a non-zero value into the empty trie (`handleEmptyTrie`) -/
theorem put_empty {tr : Trie} {n : Nat} (hr : Repr tr .nil n) (key : Path) (hk : key.length = n)
    (v : HTerm) (hv : v ≠ .felt 0) :
    ∃ tr', put tr key v = some tr' ∧ Repr tr' (ins .nil key v).1 n ∧ tr'.kind = tr.kind := by
  have hnone : ∀ k, sget tr.store k = none := by
    intro k; have := hr.agree k; simpa [flatS, Matches] using this
  have hroot : tr.rootKey = none := hr.root
  have hb : (v == HTerm.felt 0) = false := by simpa using hv
  have hput : put tr key v = some (setRootKey { tr with store := sput tr.store key ⟨v, none, none⟩ } (some key)) := by
    simp [put, hnone, hroot, nodesFromRoot, hb]
  refine ⟨_, hput, ?_, rfl⟩
  obtain ⟨w, g⟩ := ins_nil_spec key v hv
  refine ⟨hr.height, Or.inr (hk ▸ w), ?_, ?_, ?_⟩
  · intro k
    simp only [setRootKey, sget_sput, hnone]
    cases key with
    | nil =>
      by_cases e : k = [] <;> simp [ins, flatS, e, Matches]
    | cons b ks =>
      by_cases e : k = b :: ks <;> simp [ins, flatS, e, Matches]
  · cases key with
    | nil => simp [setRootKey, ins, topKey, rootKeyOf]
    | cons b ks => simp [setRootKey, ins, topKey, rootKeyOf]
  · intro K nd hK
    simp only [setRootKey, sget_sput, hnone] at hK
    by_cases e : K = key
    · simp only [e, if_true, Option.some.injEq] at hK
      subst hK
      left; intro L R hL; simp at hL
    · simp [e] at hK

theorem leaf_depth {S : Node} {n : Nat} (hw : WF S n) :
    ∀ (pre K : Path) (w : HTerm), flatS pre S K = some (.leaf w) → K.length = pre.length + n := by
  induction hw with
  | value _ =>
    intro pre K w h
    simp only [flatS] at h
    split at h
    · rename_i e; subst e; simp
    · simp at h
  | edge _ _ _ ih =>
    intro pre K w h
    have := ih _ K w (by simpa [flatS] using h)
    simp at this; omega
  | @bin l r n fl hl hr ihl ihr =>
    intro pre K w h
    by_cases hk : K = pre
    · subst hk; simp [flatS] at h
    · have h0 := flatS_bin_child pre l r fl false K hk
      rw [h] at h0
      by_cases hin : (pre ++ [false]).isPrefixOf K = true
      · simp only [hin, if_true, child, Bool.false_eq_true, if_false] at h0
        have := ihl _ K w h0.symm; simp at this; omega
      · have hin' : (pre ++ [false]).isPrefixOf K = false := Bool.eq_false_iff.mpr hin
        simp only [hin', Bool.false_eq_true, if_false, child, Bool.not_false, if_true] at h0
        have := ihr _ K w h0.symm; simp at this; omega

theorem secondLast_none_iff {α : Type} (l : List α) : secondLast l = none ↔ l.length ≤ 1 := by
  unfold secondLast
  rw [List.getLast?_eq_none_iff]
  cases l with
  | nil => simp
  | cons a t =>
    cases t with
    | nil => simp
    | cons b u => simp [List.dropLast]

theorem nodeHash_value (kind : HashKind) (a b : LNode) (p : Path) (h : a.value = b.value) :
    nodeHash kind a p = nodeHash kind b p := by
  simp [nodeHash, h]

/-- `Put` of a non-zero value to an absent key of a non-empty trie (`insertOrUpdateValue`) -/
theorem put_absent {tr : Trie} {t : Node} {n : Nat} (hr : Repr tr t n) (hwf : WF t n) (key : Path)
    (hk : key.length = n) (v : HTerm) (hv : v ≠ .felt 0) (hab : sget tr.store key = none) :
    ∃ tr', put tr key v = some tr' ∧ Repr tr' (ins t key v).1 n ∧ tr'.kind = tr.kind := by
  have hflat : flatS [] t ([] ++ key) = none := by
    simpa using (matches_some_iff (hr.agree key)).mp hab
  obtain ⟨last, f1, _, f3, f4, f5, f6⟩ := flatS_ins (v := v) hwf [] key hk hflat
  simp only [List.nil_append] at f1 f3 f4 f5 f6
  obtain ⟨nodes, w1, w2, w3⟩ := walk (tr := tr) (key := key) hwf [] (tr.height + 2) []
    (fun k _ => hr.agree k) (by simp [hk]) (by rw [hr.height]; omega) (Or.inl rfl)
  simp only [List.nil_append] at w1
  -- the sibling
  have hlast : (nodes.map Prod.fst).getLast? = some last := by rw [w2]; exact f1
  rw [List.getLast?_map] at hlast
  cases hsib : nodes.getLast? with
  | none => rw [hsib] at hlast; simp at hlast
  | some sib =>
    rw [hsib] at hlast
    simp only [Option.map_some, Option.some.injEq] at hlast
    have hsibmem : sib ∈ nodes := List.mem_of_getLast? hsib
    have hsibs : sget tr.store sib.1 = some sib.2 := w3 sib hsibmem
    have hsibs' : sget tr.store last = some sib.2 := hlast ▸ hsibs
    have hne : key ≠ sib.1 := by
      intro e; rw [← e, hab] at hsibs; simp at hsibs
    have hnodes : nodes ≠ [] := by intro e; subst e; simp at hsib
    have hroot : tr.rootKey = some (topKey [] t) := by rw [hr.root, root_of_wf hwf]
    have hb1 : (v != HTerm.felt 0 && (sget tr.store key).isSome) = false := by simp [hab]
    have hb2 : (v == HTerm.felt 0) = false := by simpa using hv
    have hput : put tr key v = some (insertOrUpdateValue tr key ⟨v, none, none⟩ nodes sib) := by
      simp only [put, hb1, Bool.false_eq_true, if_false, hroot, w1]
      cases nodes with
      | nil => exact absurd rfl hnodes
      | cons a rest => simp only [hsib, hne, if_false, hb2, Bool.false_eq_true]
    refine ⟨_, hput, ?_, (iouv_spec tr key ⟨v, none, none⟩ nodes sib).2.1⟩
    have hspec := iouv_spec tr key ⟨v, none, none⟩ nodes sib
    simp only [hlast] at hspec
    obtain ⟨sh, sk, hcase⟩ := hspec
    have hsl : secondLast (pathKeys key [] t) = (secondLast nodes).map Prod.fst := by
      rw [← w2, secondLast_map]
    have hwf' := (ins_spec hwf key hk v hv).1
    have hCabs : sget tr.store (cpre key last) = none :=
      (matches_some_iff (hr.agree _)).mpr f5
    have hClen : (cpre key last).length ≤ n := by
      have := cpre_length_le key last; omega
    cases hsp : secondLast nodes with
    | none =>
      rw [hsp] at hcase hsl
      obtain ⟨c1, c2, c3⟩ := hcase
      have hlen1 : (pathKeys key [] t).length = 1 := by
        have h1 : nodes.length ≤ 1 := (secondLast_none_iff nodes).mp hsp
        have h2 : nodes.length ≠ 0 := by intro e; exact hnodes (List.length_eq_zero_iff.mp e)
        rw [← w2]; simp; omega
      refine ⟨sh.trans hr.height, Or.inr hwf', ?_, ?_, ?_⟩
      · intro k
        rw [c1 k, f3 k, hsl]
        unfold insUpd
        by_cases e1 : k = key
        · simp [e1, Matches]
        · simp only [e1, if_false, Option.map_none]
          have : ¬ (none : Option Path) = some k := by simp
          simp only [this, if_false]
          by_cases e2 : k = cpre key last
          · simp only [e2, if_true]
            cases key.getD (cpre key last).length false <;> simp [Matches]
          · simpa [e2] using hr.agree k
      · rw [c3, root_of_wf hwf', f4, hlen1]; simp
      · intro K nd hK
        rw [c1 K] at hK
        by_cases e1 : K = key
        · simp only [e1, if_true, Option.some.injEq] at hK
          subst hK; left; intro L R hL; simp at hL
        · simp only [e1, if_false] at hK
          by_cases e2 : K = cpre key last
          · -- the new inner node: consistent with its children by construction
            simp only [e2, if_true, Option.some.injEq] at hK
            subst hK
            left
            intro L R hL hR
            simp only [Option.some.injEq] at hL hR
            subst hL hR
            have hs1 : sget (insertOrUpdateValue tr key ⟨v, none, none⟩ nodes sib).store last = some sib.2 := by
              rw [c1 last]
              have a1 : last ≠ key := fun e => hne (by rw [hlast]; exact e.symm)
              have a2 : last ≠ cpre key last := by
                intro e; rw [← e] at hCabs; rw [hCabs] at hsibs'; simp at hsibs'
              simp [a1, a2, hsibs']
            have hs2 : sget (insertOrUpdateValue tr key ⟨v, none, none⟩ nodes sib).store key = some ⟨v, none, none⟩ := by
              rw [c1 key]; simp
            rw [e2]
            cases hbit : key.getD (cpre key last).length false
            · exact ⟨_, _, hs2, hs1, by simp [sk, hbit]⟩
            · exact ⟨_, _, hs1, hs2, by simp [sk, hbit]⟩
          · simp only [e2, if_false] at hK
            cases hr.cache K nd hK with
            | inr hd => right; rw [c2]; exact hd
            | inl hl =>
              left
              intro L R hL hR
              obtain ⟨nl, nr, a, b, c⟩ := hl L R hL hR
              have hLk : L ≠ key := by intro e; rw [e, hab] at a; simp at a
              have hRk : R ≠ key := by intro e; rw [e, hab] at b; simp at b
              have hLc : L ≠ cpre key last := by intro e; rw [e, hCabs] at a; simp at a
              have hRc : R ≠ cpre key last := by intro e; rw [e, hCabs] at b; simp at b
              exact ⟨nl, nr, by rw [c1 L]; simp [hLk, hLc, a], by rw [c1 R]; simp [hRk, hRc, b], by rw [sk]; exact c⟩
    | some e =>
      rw [hsp] at hcase hsl
      obtain ⟨c1, c2, c3⟩ := hcase
      simp only [Option.map_some] at hsl
      obtain ⟨p1, p2⟩ := f6 e.1 hsl
      have hemem : e ∈ nodes := mem_of_secondLast hsp
      have hes : sget tr.store e.1 = some e.2 := w3 e hemem
      have hlen2 : (pathKeys key [] t).length ≠ 1 := by
        intro h1
        have : secondLast (pathKeys key [] t) = none := (secondLast_none_iff _).mpr (by omega)
        rw [hsl] at this; simp at this
      have hPk : e.1 ≠ key := by intro h; rw [h, hab] at hes; simp at hes
      have hPc : e.1 ≠ cpre key last := by intro h; rw [h] at p2; omega
      -- the parent is an inner node
      have hPinner : ∃ L R, flatS [] t e.1 = some (.inner L R) := by
        have hm := hr.agree e.1
        rw [hes] at hm
        cases hsh : flatS [] t e.1 with
        | none => rw [hsh] at hm; simp [Matches] at hm
        | some s0 =>
          cases s0 with
          | inner L R => exact ⟨L, R, rfl⟩
          | leaf w =>
            have := leaf_depth hwf [] e.1 w hsh
            simp at this; omega
      obtain ⟨PL, PR, hPsh⟩ := hPinner
      refine ⟨sh.trans hr.height, Or.inr hwf', ?_, ?_, ?_⟩
      · intro k
        rw [c1 k, f3 k, hsl]
        unfold insUpd
        by_cases e1 : k = key
        · simp [e1, Matches]
        · simp only [e1, if_false]
          by_cases e0 : k = e.1
          · subst e0
            simp only [if_true, hPsh, Option.map_some]
            have hm := hr.agree e.1
            rw [hes, hPsh] at hm
            simp only [Matches, Option.some.injEq] at hm
            obtain ⟨cv, hcv⟩ := hm
            rw [hcv]
            simp only [relinkNode, relink]
            by_cases hl : PL = last
            · simp [hl, Matches]
            · simp [hl, Matches]
          · have : ¬ some e.1 = some k := by simpa using fun h : e.1 = k => e0 h.symm
            simp only [e0, this, if_false]
            by_cases e2 : k = cpre key last
            · simp only [e2, if_true]
              cases key.getD (cpre key last).length false <;> simp [Matches]
            · simpa [e2] using hr.agree k
      · rw [c3, root_of_wf hwf', f4]; simp only [hlen2, if_false]; exact hroot
      · intro K nd hK
        rw [c1 K] at hK
        by_cases e1 : K = key
        · simp only [e1, if_true, Option.some.injEq] at hK
          subst hK; left; intro L R hL; simp at hL
        · simp only [e1, if_false] at hK
          by_cases e0 : K = e.1
          · -- the parent of the sibling: a dirty key (the new inner node) lies below it
            right
            rw [c2, e0]
            exact ⟨cpre key last, by simp, p2, p1⟩
          · simp only [e0, if_false] at hK
            by_cases e2 : K = cpre key last
            · simp only [e2, if_true, Option.some.injEq] at hK
              subst hK
              left
              intro L R hL hR
              simp only [Option.some.injEq] at hL hR
              subst hL hR
              have a1 : last ≠ key := fun e => hne (by rw [hlast]; exact e.symm)
              have a2 : last ≠ cpre key last := by
                intro h; rw [← h] at hCabs; rw [hCabs] at hsibs'; simp at hsibs'
              have a3 : last ≠ e.1 := by
                intro h
                have l1 := cpre_length_le last key
                rw [cpre_comm] at l1
                rw [← h] at p2; omega
              have hs1 : sget (insertOrUpdateValue tr key ⟨v, none, none⟩ nodes sib).store last = some sib.2 := by
                rw [c1 last]; simp [a1, a2, a3, hsibs']
              have hs2 : sget (insertOrUpdateValue tr key ⟨v, none, none⟩ nodes sib).store key = some ⟨v, none, none⟩ := by
                rw [c1 key]; simp
              rw [e2]
              cases hbit : key.getD (cpre key last).length false
              · exact ⟨_, _, hs2, hs1, by simp [sk, hbit]⟩
              · exact ⟨_, _, hs1, hs2, by simp [sk, hbit]⟩
            · simp only [e2, if_false] at hK
              cases hr.cache K nd hK with
              | inr hd => right; rw [c2]; exact dirtyBelow_mono hd _
              | inl hl =>
                left
                intro L R hL hR
                obtain ⟨nl, nr, a, b, c⟩ := hl L R hL hR
                have hLk : L ≠ key := by intro h; rw [h, hab] at a; simp at a
                have hRk : R ≠ key := by intro h; rw [h, hab] at b; simp at b
                have hLc : L ≠ cpre key last := by intro h; rw [h, hCabs] at a; simp at a
                have hRc : R ≠ cpre key last := by intro h; rw [h, hCabs] at b; simp at b
                -- a child may be the relinked parent: same cached value
                have getC : ∀ (X : Path) (nx : LNode), X ≠ key → X ≠ cpre key last → sget tr.store X = some nx →
                    ∃ nx', sget (insertOrUpdateValue tr key ⟨v, none, none⟩ nodes sib).store X = some nx' ∧
                      nx'.value = nx.value := by
                  intro X nx h1 h2 h3
                  rw [c1 X]
                  by_cases hx : X = e.1
                  · subst hx
                    rw [hes] at h3
                    simp only [Option.some.injEq] at h3; subst h3
                    refine ⟨relinkNode e.2 last (cpre key last), by simp [h1], ?_⟩
                    simp only [relinkNode]; split <;> rfl
                  · exact ⟨nx, by simp [h1, hx, h2, h3], rfl⟩
                obtain ⟨nl', gl1, gl2⟩ := getC L nl hLk hLc a
                obtain ⟨nr', gr1, gr2⟩ := getC R nr hRk hRc b
                refine ⟨nl', nr', gl1, gr1, ?_⟩
                rw [sk, c, nodeHash_value _ nl' nl _ gl2, nodeHash_value _ nr' nr _ gr2]

/-! ### `Hash()`: the lazy rehash -/

/-- the tree below the leading edge (the part a legacy node stands for) -/
def body : Node → Node
  | .edge _ c _ => c
  | t => t

theorem shouldUpdate_iff (dirty : List Path) (key : Path) :
    dirty.any (fun d => decide (key.length < d.length) && equalMSBs key d) = true ↔ DirtyBelow dirty key := by
  simp only [List.any_eq_true, Bool.and_eq_true, decide_eq_true_eq, DirtyBelow]
  constructor
  · rintro ⟨d, hd, h1, h2⟩
    refine ⟨d, hd, h1, ?_⟩
    unfold equalMSBs at h2
    have : key.length ≤ d.length := by omega
    simp only [this, if_true] at h2
    exact (prefix_dec _ _).mp h2
  · rintro ⟨d, hd, h1, h2⟩
    refine ⟨d, hd, h1, ?_⟩
    unfold equalMSBs
    have : key.length ≤ d.length := by omega
    simp only [this, if_true]
    exact (prefix_dec _ _).mpr h2

theorem relPath_topKey (K : Path) (b : Bool) (S : Node) :
    relPath (topKey (K ++ [b]) S) (some K) = (match S with | .edge p _ _ => p | _ => []) := by
  cases S <;> simp [relPath, topKey]

/-- hash of a subtree from the cached value of its top legacy node -/
theorem nodeHash_sub (kind : HashKind) (K : Path) (b : Bool) {S : Node} {n : Nat} (hw : WF S n) (nd : LNode)
    (hv : nd.value = rawHash kind (body S)) :
    nodeHash kind nd (relPath (topKey (K ++ [b]) S) (some K)) = rawHash kind S := by
  rw [relPath_topKey]
  cases hw with
  | value _ => simpa [nodeHash, body, rawHash] using hv
  | bin _ _ => simpa [nodeHash, body] using hv
  | @edge p c n fl hp hc hne =>
    have : p.isEmpty = false := by cases p <;> simp_all
    simp only [nodeHash, this, Bool.false_eq_true, if_false, rawHash, edgeHash]
    simp only [body] at hv
    rw [hv]

def CacheH (kind : HashKind) (s : Store) (dirty : List Path) (pre : Path) : Prop :=
  ∀ K nd, pre <+: K → sget s K = some nd → LocalOK kind s K nd ∨ DirtyBelow dirty K

theorem flatS_topKey_prefix {pre : Path} {S : Node} {K : Path} {x : Shape} (h : flatS pre S K = some x) :
    topKey pre S <+: K := by
  cases S with
  | edge p c fl =>
    have h' : flatS (pre ++ p) c K = some x := by simpa [flatS] using h
    exact flatS_prefix h'
  | nil => simp [flatS] at h
  | hash _ => simp [flatS] at h
  | value v => simpa [topKey] using flatS_prefix h
  | bin l r fl => simpa [topKey] using flatS_prefix h

theorem dirtyBelow_of_prefix {dirty : List Path} {A B : Path} (hAB : A <+: B) (h : DirtyBelow dirty B) :
    DirtyBelow dirty A := by
  obtain ⟨d, hd, h1, h2⟩ := h
  exact ⟨d, hd, by have := hAB.length_le; omega, hAB.trans h2⟩

/-- below a node with no dirty key underneath, every cached value is the true hash -/
theorem clean_value (kind : HashKind) {s : Store} {dirty : List Path} {S : Node} {n : Nat} (hw : WF S n) :
    ∀ (pre : Path), AgreeAt s pre S → CacheH kind s dirty pre → ¬ DirtyBelow dirty (topKey pre S) →
      ∃ nd, sget s (topKey pre S) = some nd ∧ nd.value = rawHash kind (body S) := by
  induction hw with
  | @value v hv =>
    intro pre ha _ _
    have := ha pre (List.prefix_refl _)
    exact ⟨⟨v, none, none⟩, by simpa [flatS, Matches, topKey] using this, by simp [body, rawHash]⟩
  | @edge p c n fl hp hc hne ih =>
    intro pre ha hch hnd
    have htk : topKey (pre ++ p) c = pre ++ p := by cases c <;> simp_all [topKey, NotEdge]
    have hbc : body c = c := by cases c <;> simp_all [body, NotEdge]
    obtain ⟨nd, h1, h2⟩ := ih (pre ++ p) ha.edge
      (fun K nd hK hs => hch K nd ((List.prefix_append _ _).trans hK) hs)
      (by rw [htk]; simpa [topKey] using hnd)
    rw [htk] at h1; rw [hbc] at h2
    exact ⟨nd, h1, h2⟩
  | @bin l r n fl hl hr ihl ihr =>
    intro pre ha hch hnd
    simp only [topKey] at hnd ⊢
    obtain ⟨cv, hs⟩ := ha.binTop
    have hloc : LocalOK kind s pre ⟨cv, some (topKey (pre ++ [false]) l), some (topKey (pre ++ [true]) r)⟩ := by
      cases hch pre _ (List.prefix_refl _) hs with
      | inl h => exact h
      | inr h => exact absurd h hnd
    obtain ⟨nl, nr, a, b, c⟩ := hloc _ _ rfl rfl
    have hsub : ∀ (bb : Bool) (ch : Node), ¬ DirtyBelow dirty (topKey (pre ++ [bb]) ch) := by
      intro bb ch h
      apply hnd
      obtain ⟨d, hd, h1, h2⟩ := h
      have hp := (List.prefix_append pre [bb]).trans (topKey_prefix (pre ++ [bb]) ch)
      have hlt : pre.length < (topKey (pre ++ [bb]) ch).length := by
        have := (topKey_prefix (pre ++ [bb]) ch).length_le; simp at this; omega
      exact ⟨d, hd, by omega, hp.trans h2⟩
    obtain ⟨ndl, l1, l2⟩ := ihl (pre ++ [false]) ha.binL
      (fun K nd hK hs => hch K nd ((List.prefix_append _ _).trans hK) hs) (hsub false l)
    obtain ⟨ndr, r1, r2⟩ := ihr (pre ++ [true]) ha.binR
      (fun K nd hK hs => hch K nd ((List.prefix_append _ _).trans hK) hs) (hsub true r)
    rw [a] at l1; rw [b] at r1
    simp only [Option.some.injEq] at l1 r1
    subst l1 r1
    refine ⟨_, hs, ?_⟩
    simp only [body, rawHash]
    have c' : cv = _ := c
    rw [c', nodeHash_sub kind pre false hl nl l2, nodeHash_sub kind pre true hr nr r2]

/-- `updateValueIfDirty` on the subtree `S` at `pre`: returns the top node with the true hash of the
body, leaves the store outside the subtree alone, keeps the shapes, and makes every cached value
below consistent with its children. -/
theorem upd_spec (height : Nat) (kind : HashKind) (dirty : List Path) {S : Node} {n : Nat} (hw : WF S n) :
    ∀ (pre : Path) (s : Store) (fuel : Nat), AgreeAt s pre S → CacheH kind s dirty pre →
      pre.length + n = height → n + 1 ≤ fuel →
      ∃ nd s', updateValueIfDirty height kind dirty fuel s (topKey pre S) = some (nd, s') ∧
        nd.value = rawHash kind (body S) ∧ sget s' (topKey pre S) = some nd ∧
        (∀ k, ¬ pre <+: k → sget s' k = sget s k) ∧ AgreeAt s' pre S ∧
        (∀ K nd', pre <+: K → sget s' K = some nd' → LocalOK kind s' K nd') := by
  induction hw with
  | @value v hv =>
    intro pre s fuel ha hch hlen hf
    cases fuel with
    | zero => omega
    | succ fuel =>
      have hs : sget s pre = some ⟨v, none, none⟩ := by
        have := ha pre (List.prefix_refl _); simpa [flatS, Matches] using this
      have hl : (pre.length == height) = true := by simp; omega
      refine ⟨⟨v, none, none⟩, s, by simp [topKey, updateValueIfDirty, hs, hl], by simp [body, rawHash],
        by simpa [topKey] using hs, fun _ _ => rfl, ha, ?_⟩
      intro K nd' hK hsK
      have hm := ha K hK
      rw [hsK] at hm
      simp only [flatS] at hm
      split at hm
      · simp only [Matches, Option.some.injEq] at hm; subst hm
        intro L R hL; simp at hL
      · simp [Matches] at hm
  | @edge p c n fl hp hc hne ih =>
    intro pre s fuel ha hch hlen hf
    have htk : topKey (pre ++ p) c = pre ++ p := by cases c <;> simp_all [topKey, NotEdge]
    have hbc : body c = c := by cases c <;> simp_all [body, NotEdge]
    obtain ⟨nd, s', h1, h2, h3, h4, h5, h6⟩ := ih (pre ++ p) s fuel ha.edge
      (fun K nd hK hs => hch K nd ((List.prefix_append _ _).trans hK) hs) (by simp; omega) (by omega)
    rw [htk] at h1 h3; rw [hbc] at h2
    refine ⟨nd, s', by simpa [topKey] using h1, by simpa [body] using h2, by simpa [topKey] using h3, ?_, ?_, ?_⟩
    · intro k hk
      exact h4 k (fun h => hk ((List.prefix_append _ _).trans h))
    · intro k hk
      by_cases hkp : (pre ++ p) <+: k
      · simpa [flatS] using h5 k hkp
      · rw [h4 k hkp]; exact ha k hk
    · intro K nd' hK hsK
      by_cases hkp : (pre ++ p) <+: K
      · exact h6 K nd' hkp hsK
      · -- no node of the subtree lives outside the edge
        have hm := ha K hK
        rw [← h4 K hkp, hsK] at hm
        have : flatS pre (.edge p c fl) K = none := by
          simp only [flatS]; exact flatS_none_of_not_prefix hkp
        rw [this] at hm; simp [Matches] at hm
  | @bin l r n fl hl hr ihl ihr =>
    intro pre s fuel ha hch hlen hf
    cases fuel with
    | zero => omega
    | succ fuel =>
      obtain ⟨cv, hs⟩ := ha.binTop
      have hl0 : (pre.length == height) = false := by
        have : pre.length ≠ height := by omega
        simpa using this
      simp only [topKey]
      by_cases hdb : DirtyBelow dirty pre
      · -- recompute
        have hsu : dirty.any (fun d => decide (pre.length < d.length) && equalMSBs pre d) = true :=
          (shouldUpdate_iff dirty pre).mpr hdb
        obtain ⟨lc, s1, a1, a2, a3, a4, a5, a6⟩ := ihl (pre ++ [false]) s fuel ha.binL
          (fun K nd hK hs => hch K nd ((List.prefix_append _ _).trans hK) hs) (by simp; omega) (by omega)
        -- the right subtree is untouched by the left recursion
        have hframeR : ∀ k, (pre ++ [true]) <+: k → sget s1 k = sget s k := by
          intro k hk
          exact a4 k (by simpa using not_prefix_sibling pre true hk)
        have haR : AgreeAt s1 (pre ++ [true]) r := by
          intro k hk; rw [hframeR k hk]; exact ha.binR k hk
        have hchR : CacheH kind s1 dirty (pre ++ [true]) := by
          intro K nd hK hsK
          rw [hframeR K hK] at hsK
          cases hch K nd ((List.prefix_append _ _).trans hK) hsK with
          | inr h => exact Or.inr h
          | inl h =>
            left
            intro L R hL hR
            obtain ⟨nl, nr, x, y, z⟩ := h L R hL hR
            -- the children of a node of the right subtree are in the right subtree
            have hm := ha.binR K hK
            rw [hsK] at hm
            cases hsh : flatS (pre ++ [true]) r K with
            | none => rw [hsh] at hm; simp [Matches] at hm
            | some sh =>
              rw [hsh] at hm
              cases sh with
              | leaf w => simp only [Matches, Option.some.injEq] at hm; subst hm; simp at hL
              | inner L' R' =>
                simp only [Matches, Option.some.injEq] at hm
                obtain ⟨c0, hc0⟩ := hm; subst hc0
                simp only [Option.some.injEq] at hL hR; subst hL hR
                obtain ⟨p1, p2, _, _⟩ := link_facts hr (pre ++ [true]) K L' R' hsh
                have q1 : (pre ++ [true]) <+: L' := hK.trans ((List.prefix_append _ _).trans p1)
                have q2 : (pre ++ [true]) <+: R' := hK.trans ((List.prefix_append _ _).trans p2)
                exact ⟨nl, nr, by rw [hframeR _ q1]; exact x, by rw [hframeR _ q2]; exact y, z⟩
        obtain ⟨rc, s2, b1, b2, b3, b4, b5, b6⟩ := ihr (pre ++ [true]) s1 fuel haR hchR (by simp; omega) (by omega)
        let nd : LNode := ⟨.h kind (nodeHash kind lc (relPath (topKey (pre ++ [false]) l) (some pre)))
          (nodeHash kind rc (relPath (topKey (pre ++ [true]) r) (some pre))),
          some (topKey (pre ++ [false]) l), some (topKey (pre ++ [true]) r)⟩
        have hLne : topKey (pre ++ [false]) l ≠ pre := by
          intro e; have := (topKey_prefix (pre ++ [false]) l).length_le; rw [e] at this; simp at this; omega
        have hRne : topKey (pre ++ [true]) r ≠ pre := by
          intro e; have := (topKey_prefix (pre ++ [true]) r).length_le; rw [e] at this; simp at this; omega
        have hLs2 : sget s2 (topKey (pre ++ [false]) l) = some lc := by
          rw [b4 _ (by simpa using not_prefix_sibling pre false (topKey_prefix (pre ++ [false]) l))]; exact a3
        refine ⟨nd, sput s2 pre nd, ?_, ?_, by simp [sget_sput], ?_, ?_, ?_⟩
        · simp only [updateValueIfDirty, hs, hl0, Bool.false_eq_true, if_false, hsu, Bool.not_true, a1, b1]
          rfl
        · simp only [nd, body, rawHash]
          rw [nodeHash_sub kind pre false hl lc a2, nodeHash_sub kind pre true hr rc b2]
        · intro k hk
          have hkne : k ≠ pre := fun e => hk (e ▸ List.prefix_refl _)
          rw [sget_sput]; simp only [hkne, if_false]
          rw [b4 k (fun h => hk ((List.prefix_append _ _).trans h)),
              a4 k (fun h => hk ((List.prefix_append _ _).trans h))]
        · intro k hk
          rw [sget_sput]
          by_cases hkp : k = pre
          · subst hkp; simp [flatS, Matches, nd]
          · simp only [hkp, if_false]
            rw [flatS_bin_child pre l r fl false k hkp]
            by_cases hin : (pre ++ [false]).isPrefixOf k = true
            · simp only [hin, if_true, child, Bool.false_eq_true, if_false]
              have hpk := (prefix_dec _ _).mp hin
              rw [b4 k (by simpa using not_prefix_sibling pre false hpk)]
              exact a5 k hpk
            · have hin' : (pre ++ [false]).isPrefixOf k = false := Bool.eq_false_iff.mpr hin
              simp only [hin', Bool.false_eq_true, if_false, child, Bool.not_false, if_true]
              by_cases hin2 : (pre ++ [true]) <+: k
              · exact b5 k hin2
              · rw [b4 k hin2, a4 k (fun h => hin ((prefix_dec _ _).mpr h))]
                have := ha k hk
                rw [flatS_bin_child pre l r fl false k hkp] at this
                simpa [hin', child] using this
        · intro K nd' hK hsK
          rw [sget_sput] at hsK
          by_cases hkp : K = pre
          · subst hkp
            simp only [if_true, Option.some.injEq] at hsK; subst hsK
            intro L R hL hR
            simp only [nd, Option.some.injEq] at hL hR; subst hL hR
            exact ⟨lc, rc, by rw [sget_sput]; simp [hLne, hLs2], by rw [sget_sput]; simp [hRne, b3], rfl⟩
          · simp only [hkp, if_false] at hsK
            -- a node of one of the two subtrees
            have lift : ∀ (bb : Bool), (pre ++ [bb]) <+: K → LocalOK kind s2 K nd' →
                LocalOK kind (sput s2 pre nd) K nd' := by
              intro bb hb hloc L R hL hR
              obtain ⟨nl, nr, x, y, z⟩ := hloc L R hL hR
              have hlen : pre.length < L.length ∧ pre.length < R.length := by
                -- links point downwards
                have hm : Matches (sget s2 K) (flatS (pre ++ [bb]) (child bb l r) K) := by
                  cases bb
                  · rw [b4 K (by simpa using not_prefix_sibling pre false hb)]; exact a5 K hb
                  · exact b5 K hb
                rw [hsK] at hm
                have hwc : WF (child bb l r) n := by cases bb <;> simp [child, hl, hr]
                cases hsh : flatS (pre ++ [bb]) (child bb l r) K with
                | none => rw [hsh] at hm; simp [Matches] at hm
                | some sh =>
                  rw [hsh] at hm
                  cases sh with
                  | leaf w => simp only [Matches, Option.some.injEq] at hm; subst hm; simp at hL
                  | inner L' R' =>
                    simp only [Matches, Option.some.injEq] at hm
                    obtain ⟨c0, hc0⟩ := hm; subst hc0
                    simp only [Option.some.injEq] at hL hR; subst hL hR
                    obtain ⟨p1, p2, _, _⟩ := link_facts hwc (pre ++ [bb]) K L' R' hsh
                    have l1 := (hb.trans ((List.prefix_append _ _).trans p1)).length_le
                    have l2 := (hb.trans ((List.prefix_append _ _).trans p2)).length_le
                    simp at l1 l2; omega
              have hLp : L ≠ pre := by intro e; rw [e] at hlen; omega
              have hRp : R ≠ pre := by intro e; rw [e] at hlen; omega
              exact ⟨nl, nr, by rw [sget_sput]; simp [hLp, x], by rw [sget_sput]; simp [hRp, y], z⟩
            by_cases hin : (pre ++ [false]) <+: K
            · apply lift false hin
              -- consistent after the left recursion, untouched by the right one
              have hsK1 : sget s1 K = some nd' := by
                rw [← b4 K (by simpa using not_prefix_sibling pre false hin)]; exact hsK
              have hloc1 := a6 K nd' hin hsK1
              intro L R hL hR
              obtain ⟨nl, nr, x, y, z⟩ := hloc1 L R hL hR
              have hm := a5 K hin
              rw [hsK1] at hm
              cases hsh : flatS (pre ++ [false]) l K with
              | none => rw [hsh] at hm; simp [Matches] at hm
              | some sh =>
                rw [hsh] at hm
                cases sh with
                | leaf w => simp only [Matches, Option.some.injEq] at hm; subst hm; simp at hL
                | inner L' R' =>
                  simp only [Matches, Option.some.injEq] at hm
                  obtain ⟨c0, hc0⟩ := hm; subst hc0
                  simp only [Option.some.injEq] at hL hR; subst hL hR
                  obtain ⟨p1, p2, _, _⟩ := link_facts hl (pre ++ [false]) K L' R' hsh
                  have q1 : (pre ++ [false]) <+: L' := hin.trans ((List.prefix_append _ _).trans p1)
                  have q2 : (pre ++ [false]) <+: R' := hin.trans ((List.prefix_append _ _).trans p2)
                  exact ⟨nl, nr, by rw [b4 _ (by simpa using not_prefix_sibling pre false q1)]; exact x,
                    by rw [b4 _ (by simpa using not_prefix_sibling pre false q2)]; exact y, z⟩
            · by_cases hin2 : (pre ++ [true]) <+: K
              · exact lift true hin2 (b6 K nd' hin2 hsK)
              · -- no node lives there
                exfalso
                have hm := ha K hK
                rw [← a4 K hin, ← b4 K hin2, hsK] at hm
                rw [flatS_bin_child pre l r fl false K hkp, isPrefixOf_false_of_not hin] at hm
                simp only [Bool.false_eq_true, if_false, child, Bool.not_false, if_true] at hm
                rw [flatS_none_of_not_prefix hin2] at hm
                simp [Matches] at hm
      · -- nothing dirty below: everything cached here is already right
        have hsu : dirty.any (fun d => decide (pre.length < d.length) && equalMSBs pre d) = false := by
          cases h : dirty.any (fun d => decide (pre.length < d.length) && equalMSBs pre d) with
          | false => rfl
          | true => exact absurd ((shouldUpdate_iff dirty pre).mp h) hdb
        obtain ⟨nd0, c1, c2⟩ := clean_value kind (WF.bin (fl := fl) hl hr) pre ha hch (by simpa [topKey] using hdb)
        simp only [topKey] at c1
        rw [hs] at c1
        simp only [Option.some.injEq] at c1; subst c1
        refine ⟨_, s, by simp [updateValueIfDirty, hs, hl0, hsu], c2, hs, fun _ _ => rfl, ha, ?_⟩
        intro K nd' hK hsK
        cases hch K nd' hK hsK with
        | inl h => exact h
        | inr h =>
          exfalso
          apply hdb
          have hm := ha K hK
          rw [hsK] at hm
          cases hsh : flatS pre (.bin l r fl) K with
          | none => rw [hsh] at hm; simp [Matches] at hm
          | some sh => exact dirtyBelow_of_prefix (by simpa [topKey] using flatS_topKey_prefix hsh) h

theorem hash_repr {tr : Trie} {t : Node} {n : Nat} (hr : Repr tr t n) :
    ∃ tr', hash tr = some (rawHash tr.kind t, tr') ∧ Repr tr' t n ∧ tr'.kind = tr.kind := by
  cases hr.wf with
  | inl e =>
    subst e
    have hroot : tr.rootKey = none := hr.root
    exact ⟨tr, by simp [hash, hroot, rawHash], hr, rfl⟩
  | inr hwf =>
    have hroot : tr.rootKey = some (topKey [] t) := by rw [hr.root, root_of_wf hwf]
    obtain ⟨nd, s', u1, u2, u3, _, u5, u6⟩ := upd_spec tr.height tr.kind tr.dirty hwf [] tr.store (tr.height + 2)
      (fun k _ => hr.agree k) (fun K nd _ hs => hr.cache K nd hs) (by simp [hr.height]) (by rw [hr.height]; omega)
    refine ⟨{ tr with store := s', dirty := [] }, ?_, ?_, rfl⟩
    · simp only [hash, hroot, u1]
      congr 2
      simp only [relPath]
      cases hwf with
      | value _ => simpa [nodeHash, topKey, body, rawHash] using u2
      | bin _ _ => simpa [nodeHash, topKey, body] using u2
      | @edge p c n' fl hp hc hne =>
        have : p.isEmpty = false := by cases p <;> simp_all
        simp only [topKey, List.nil_append, nodeHash, this, Bool.false_eq_true, if_false, rawHash, edgeHash]
        simp only [body] at u2
        rw [u2]
    · exact ⟨hr.height, hr.wf, fun k => u5 k List.nil_prefix, hr.root,
        fun K nd' hs => Or.inl (u6 K nd' List.nil_prefix hs)⟩

/-- operation sequences without deletions: every write has a non-zero value -/
def OpNonZero : Op → Prop
  | .put _ v => v ≠ .felt 0
  | .hash => True

def OpKeyLen (n : Nat) : Op → Prop
  | .put key _ => key.length = n
  | .hash => True

def NonZeroOps (ops : List Op) : Prop := ∀ op ∈ ops, OpNonZero op

theorem repr_empty (n : Nat) (kind : HashKind) : Repr (Trie.empty n kind) .nil n :=
  ⟨rfl, Or.inl rfl, by intro k; simp [Trie.empty, sget, flatS, Matches], rfl,
    by intro K nd h; simp [Trie.empty, sget] at h⟩

theorem stepOp_inv {kind : HashKind} {n : Nat} {tr : Trie} {t : Node} {m : Path → HTerm}
    (hr : Repr tr t n) (hk : tr.kind = kind) (hi : Inv kind n t m) (op : Op)
    (hv : OpKeyLen n op) (hnz : OpNonZero op) :
    ∃ tr' t', stepOp tr op = some tr' ∧ Repr tr' t' n ∧ tr'.kind = kind ∧ Inv kind n t' (absStep m op) := by
  cases op with
  | hash =>
    obtain ⟨tr', h1, h2, h3⟩ := hash_repr hr
    exact ⟨tr', t, by simp [stepOp, h1], h2, h3.trans hk, hi⟩
  | put key v =>
    simp only [OpKeyLen, OpNonZero] at hv hnz
    have hstep := step_inv hi (.put key v) hv
    have hb : (v == HTerm.felt 0) = false := by simpa using hnz
    simp only [Trie2.step, Trie2.update, hb, Bool.false_eq_true, if_false] at hstep
    have fin : (∃ tr', put tr key v = some tr' ∧ Repr tr' (ins t key v).1 n ∧ tr'.kind = tr.kind) →
        ∃ tr' t', stepOp tr (.put key v) = some tr' ∧ Repr tr' t' n ∧ tr'.kind = kind ∧
          Inv kind n t' (absStep m (.put key v)) := by
      rintro ⟨tr', a, b, c⟩
      exact ⟨tr', _, by simpa [stepOp] using a, b, c.trans hk, hstep⟩
    apply fin
    cases hr.wf with
    | inl e => subst e; exact put_empty hr key hv v hnz
    | inr hwf =>
      cases hs : sget tr.store key with
      | none => exact put_absent hr hwf key hv v hnz hs
      | some x => exact put_present hr key hv v hnz (by rw [hs]; simp)

theorem foldlM_inv {kind : HashKind} {n : Nat} (ops : List Op) (hv : ValidOps n ops) (hnz : NonZeroOps ops) :
    ∀ (tr : Trie) (t : Node) (m : Path → HTerm), Repr tr t n → tr.kind = kind → Inv kind n t m →
      ∃ tr' t', ops.foldlM stepOp tr = some tr' ∧ Repr tr' t' n ∧ tr'.kind = kind ∧
        Inv kind n t' (ops.foldl absStep m) := by
  induction ops with
  | nil => intro tr t m hr hk hi; exact ⟨tr, t, rfl, hr, hk, hi⟩
  | cons op rest ih =>
    intro tr t m hr hk hi
    have hv1 : OpKeyLen n op := by
      have := hv op (List.mem_cons_self ..)
      cases op <;> simpa [OpKeyLen] using this
    obtain ⟨tr1, t1, s1, r1, k1, i1⟩ := stepOp_inv hr hk hi op hv1 (hnz op (List.mem_cons_self ..))
    obtain ⟨tr2, t2, s2, r2, k2, i2⟩ := ih (fun o ho => hv o (List.mem_cons_of_mem _ ho))
      (fun o ho => hnz o (List.mem_cons_of_mem _ ho)) tr1 t1 _ r1 k1 i1
    exact ⟨tr2, t2, by simp [List.foldlM_cons, s1, s2], r2, k2, i2⟩

theorem runOps_nonzero (kind : HashKind) (n : Nat) (ops : List Op) (hv : ValidOps n ops) (hnz : NonZeroOps ops) :
    runOps n kind ops = some (Spec.root kind n (absRun ops)) := by
  obtain ⟨tr, t, s, r, k, i⟩ := foldlM_inv (kind := kind) ops hv hnz (Trie.empty n kind) .nil
    (fun _ => HTerm.felt 0) (repr_empty n kind) rfl
    ⟨Or.inl rfl, by simp [CacheOK], fun _ _ => by simp [Trie2.get]⟩
  obtain ⟨tr', h1, _, _⟩ := hash_repr r
  simp only [runOps, s, Option.bind, h1, Option.map_some, Option.some.injEq]
  rw [k, rawHash_eq_spec kind i.wf]
  simp only [Spec.root, absRun]
  rw [spec_node_congr kind n _ _ i.sem]

end Legacy
end Juno.C01
