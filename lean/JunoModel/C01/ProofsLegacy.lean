import JunoModel.C01.ProofsSpec
import JunoModel.C01.ModelLegacy
/-!
Helper lemmas for C01, part 6: the legacy flat trie (`core/trie`). The flat storage is described by a
trie2-style tree: a legacy node keyed by its absolute path corresponds to a binary node (inner) or a
value node (leaf) of the tree, the relative path of a legacy node to the edge above it.
-/
namespace Juno.C01
namespace Legacy
open Trie2

/-! ### the store -/

theorem sget_sdel (s : Store) (k k' : Path) : sget (sdel s k) k' = if k' = k then none else sget s k' := by
  induction s with
  | nil => simp [sdel, sget]
  | cons e rest ih =>
    obtain ⟨a, b⟩ := e
    simp only [sdel] at ih ⊢
    by_cases ha : a = k
    · subst ha
      simp only [List.filter, bne_self_eq_false, sget, ih]
      by_cases hk : k' = a
      · simp [hk]
      · have : ¬ a = k' := fun h => hk h.symm
        simp [hk, this]
    · have : (a != k) = true := by simpa using ha
      simp only [List.filter, this, sget, ih]
      by_cases hk : k' = k
      · subst hk; simp [ha]
      · simp [hk]

theorem sget_sput (s : Store) (k : Path) (n : LNode) (k' : Path) :
    sget (sput s k n) k' = if k' = k then some n else sget s k' := by
  simp only [sput, sget, sget_sdel]
  by_cases hk : k' = k
  · subst hk; simp
  · have : ¬ k = k' := fun h => hk h.symm
    simp [hk, this]

/-! ### the tree view of the store -/

/-- storage key of the top legacy node of the subtree `t` hanging at absolute prefix `pre` -/
def topKey (pre : Path) : Node → Path
  | .edge p _ _ => pre ++ p
  | _ => pre

inductive Shape where
  | leaf (v : HTerm)
  | inner (l r : Path)
deriving DecidableEq, Repr

/-- the legacy node expected under storage key `k` for the subtree `t` at prefix `pre` (cached value of
inner nodes left open) -/
def flatS (pre : Path) : Node → Path → Option Shape
  | .value v, k => if k = pre then some (.leaf v) else none
  | .edge p c _, k => flatS (pre ++ p) c k
  | .bin l r _, k =>
    if k = pre then some (.inner (topKey (pre ++ [false]) l) (topKey (pre ++ [true]) r))
    else if (pre ++ [false]).isPrefixOf k then flatS (pre ++ [false]) l k
    else flatS (pre ++ [true]) r k
  | _, _ => none

def Matches (o : Option LNode) : Option Shape → Prop
  | none => o = none
  | some (.leaf v) => o = some ⟨v, none, none⟩
  | some (.inner l r) => ∃ c, o = some ⟨c, some l, some r⟩

theorem flatS_prefix {pre : Path} {t : Node} {k : Path} {x : Shape} (h : flatS pre t k = some x) :
    pre <+: k := by
  induction t generalizing pre x with
  | nil => simp [flatS] at h
  | hash _ => simp [flatS] at h
  | value v =>
    simp only [flatS] at h
    split at h
    · rename_i e; subst e; exact List.prefix_refl _
    · simp at h
  | edge p c fl ih =>
    have := ih (pre := pre ++ p) h
    exact (List.prefix_append _ _).trans this
  | bin l r fl ihl ihr =>
    simp only [flatS] at h
    split at h
    · rename_i e; subst e; exact List.prefix_refl _
    · split at h
      · exact (List.prefix_append _ _).trans (ihl (pre := pre ++ [false]) h)
      · exact (List.prefix_append _ _).trans (ihr (pre := pre ++ [true]) h)

/-- agreement of the store with the subtree `t` on every key below `pre` -/
def AgreeAt (s : Store) (pre : Path) (t : Node) : Prop :=
  ∀ k, pre <+: k → Matches (sget s k) (flatS pre t k)

theorem flatS_none_of_not_prefix {pre : Path} {t : Node} {k : Path} (h : ¬ pre <+: k) :
    flatS pre t k = none := by
  cases hx : flatS pre t k with
  | none => rfl
  | some x => exact absurd (flatS_prefix hx) h

theorem AgreeAt.edge {s : Store} {pre p : Path} {c : Node} {fl : Flags} (h : AgreeAt s pre (.edge p c fl)) :
    AgreeAt s (pre ++ p) c := by
  intro k hk
  have := h k ((List.prefix_append _ _).trans hk)
  simpa [flatS] using this

theorem not_prefix_sibling (pre : Path) (b : Bool) {k : Path} (h : pre ++ [b] <+: k) : ¬ pre ++ [!b] <+: k := by
  intro h2
  obtain ⟨t1, rfl⟩ := h
  obtain ⟨t2, e⟩ := h2
  simp only [List.append_assoc, List.append_cancel_left_eq, List.singleton_append, List.cons.injEq] at e
  cases b <;> simp at e

theorem AgreeAt.binL {s : Store} {pre : Path} {l r : Node} {fl : Flags} (h : AgreeAt s pre (.bin l r fl)) :
    AgreeAt s (pre ++ [false]) l := by
  intro k hk
  have := h k ((List.prefix_append _ _).trans hk)
  have hne : k ≠ pre := by
    intro e; subst e
    have := hk.length_le; simp at this; omega
  have hp : (pre ++ [false]).isPrefixOf k = true := List.isPrefixOf_iff_prefix.mpr hk
  simpa [flatS, hne, hp] using this

theorem AgreeAt.binR {s : Store} {pre : Path} {l r : Node} {fl : Flags} (h : AgreeAt s pre (.bin l r fl)) :
    AgreeAt s (pre ++ [true]) r := by
  intro k hk
  have := h k ((List.prefix_append _ _).trans hk)
  have hne : k ≠ pre := by
    intro e; subst e
    have := hk.length_le; simp at this; omega
  have hp : (pre ++ [false]).isPrefixOf k = false := by
    cases h5 : (pre ++ [false]).isPrefixOf k with
    | false => rfl
    | true => exact absurd (List.isPrefixOf_iff_prefix.mp h5) (by simpa using not_prefix_sibling pre true hk)
  simpa [flatS, hne, hp] using this

theorem AgreeAt.binTop {s : Store} {pre : Path} {l r : Node} {fl : Flags} (h : AgreeAt s pre (.bin l r fl)) :
    ∃ c, sget s pre = some ⟨c, some (topKey (pre ++ [false]) l), some (topKey (pre ++ [true]) r)⟩ := by
  have := h pre (List.prefix_refl _)
  simpa [flatS, Matches] using this

/-- the stop test of `nodesFromRoot` at the node stored under `cur` -/
def stops (key cur : Path) : Bool := cur.length ≥ key.length || !equalMSBs key cur

/-- storage keys of the nodes `nodesFromRoot` visits inside the subtree `t` at `pre` -/
def pathKeys (key : Path) : Path → Node → List Path
  | pre, .edge p c _ => pathKeys key (pre ++ p) c
  | pre, .bin l r _ =>
    if stops key pre then [pre]
    else pre :: (if key.getD pre.length false then pathKeys key (pre ++ [true]) r
                 else pathKeys key (pre ++ [false]) l)
  | pre, _ => [pre]

theorem zero_guard {acc : List (Path × LNode)} {pre : Path} (h : acc = [] ∨ pre ≠ []) :
    (!acc.isEmpty && pre.length == 0) = false := by
  cases h with
  | inl h => simp [h]
  | inr h =>
    have : (pre.length == 0) = false := by
      cases pre with
      | nil => exact absurd rfl h
      | cons _ _ => simp
    simp [this]

theorem walk {tr : Trie} {key : Path} {S : Node} {n : Nat} (hw : WF S n) :
    ∀ (pre : Path) (fuel : Nat) (acc : List (Path × LNode)),
      AgreeAt tr.store pre S → pre.length + n = key.length → n + 1 ≤ fuel → (acc = [] ∨ pre ≠ []) →
      ∃ nodes, nodesFromRoot tr key fuel (some (topKey pre S)) acc = some (acc ++ nodes) ∧
        nodes.map Prod.fst = pathKeys key pre S ∧ ∀ e ∈ nodes, sget tr.store e.1 = some e.2 := by
  induction hw with
  | @value v hv =>
    intro pre fuel acc ha hlen hf hacc
    cases fuel with
    | zero => omega
    | succ fuel =>
      have hs : sget tr.store pre = some ⟨v, none, none⟩ := by
        have := ha pre (List.prefix_refl _); simpa [flatS, Matches] using this
      have hzero : (!acc.isEmpty && pre.length == 0) = false := zero_guard hacc
      refine ⟨[(pre, ⟨v, none, none⟩)], ?_, by simp [pathKeys], by simp [hs]⟩
      simp only [topKey, nodesFromRoot, hzero, hs]
      have : (pre.length ≥ key.length) := by omega
      simp [this]
  | @edge p c n fl hp hc hne ih =>
    intro pre fuel acc ha hlen hf hacc
    have := ih (pre ++ p) fuel acc ha.edge (by simp; omega) (by omega)
      (Or.inr (by intro h; simp at h; exact hp h.2))
    cases c with
    | edge q cc qfl => simp [NotEdge] at hne
    | nil => simpa [topKey, pathKeys] using this
    | value v => simpa [topKey, pathKeys] using this
    | hash x => simpa [topKey, pathKeys] using this
    | bin l r bfl => simpa [topKey, pathKeys] using this
  | @bin l r n fl hl hr ihl ihr =>
    intro pre fuel acc ha hlen hf hacc
    cases fuel with
    | zero => omega
    | succ fuel =>
      obtain ⟨cv, hs⟩ := ha.binTop
      have hzero : (!acc.isEmpty && pre.length == 0) = false := zero_guard hacc
      have ht : topKey pre (.bin l r fl) = pre := rfl
      rw [ht]
      simp only [nodesFromRoot, hzero, hs, pathKeys]
      by_cases hst : stops key pre = true
      · have hst' : (decide (pre.length ≥ key.length) || !equalMSBs key pre) = true := by simpa [stops] using hst
        refine ⟨[(pre, ⟨cv, some (topKey (pre ++ [false]) l), some (topKey (pre ++ [true]) r)⟩)], ?_,
          by simp [hst], by simp [hs]⟩
        simp [hst']
      · have hst' : (decide (pre.length ≥ key.length) || !equalMSBs key pre) = false := by simpa [stops] using hst
        simp only [hst', hst]
        by_cases hb : key.getD pre.length false = true
        · simp only [hb, if_true]
          obtain ⟨nodes, h1, h2, h3⟩ := ihr (pre ++ [true]) fuel (acc ++ [(pre, ⟨cv, some (topKey (pre ++ [false]) l), some (topKey (pre ++ [true]) r)⟩)]) ha.binR
            (by simp; omega) (by omega) (Or.inr (by simp))
          refine ⟨(pre, ⟨cv, some (topKey (pre ++ [false]) l), some (topKey (pre ++ [true]) r)⟩) :: nodes, ?_, by simp [h2], ?_⟩
          · simpa [List.append_assoc] using h1
          · intro e he
            cases he with
            | head => exact hs
            | tail _ he => exact h3 e he
        · simp only [hb]
          obtain ⟨nodes, h1, h2, h3⟩ := ihl (pre ++ [false]) fuel (acc ++ [(pre, ⟨cv, some (topKey (pre ++ [false]) l), some (topKey (pre ++ [true]) r)⟩)]) ha.binL
            (by simp; omega) (by omega) (Or.inr (by simp))
          refine ⟨(pre, ⟨cv, some (topKey (pre ++ [false]) l), some (topKey (pre ++ [true]) r)⟩) :: nodes, ?_, by simp [h2], ?_⟩
          · simpa [List.append_assoc] using h1
          · intro e he
            cases he with
            | head => exact hs
            | tail _ he => exact h3 e he

/-! ### paths -/

theorem cpre_append_left (pre a b : Path) : cpre (pre ++ a) (pre ++ b) = pre ++ cpre a b := by
  induction pre with
  | nil => rfl
  | cons x xs ih => simp [cpre, ih]

theorem cpre_comm (a b : Path) : cpre a b = cpre b a := by
  induction a generalizing b with
  | nil => cases b <;> simp [cpre]
  | cons x xs ih =>
    cases b with
    | nil => simp [cpre]
    | cons y ys =>
      by_cases h : x = y
      · subst h; simp [cpre, ih ys]
      · have : ¬ y = x := fun e => h e.symm
        simp [cpre, h, this]

theorem equalMSBs_prefix (pre rest : Path) : equalMSBs (pre ++ rest) pre = true := by
  unfold equalMSBs
  by_cases h : (pre ++ rest).length ≤ pre.length
  · have : rest = [] := by
      have : rest.length = 0 := by simp at h; omega
      exact List.length_eq_zero_iff.mp this
    subst this; simp
  · simp only [h, if_false]
    exact List.isPrefixOf_iff_prefix.mpr (List.prefix_append _ _)

theorem stops_prefix (pre rest : Path) (h : rest ≠ []) : stops (pre ++ rest) pre = false := by
  have hl : ¬ (pre.length ≥ (pre ++ rest).length) := by
    cases rest with
    | nil => exact absurd rfl h
    | cons _ _ => simp
  have hl' : decide (pre.length ≥ (pre ++ rest).length) = false := by simpa using hl
  simp only [stops, hl', equalMSBs_prefix]; rfl

theorem isPrefixOf_append_left (pre a b : Path) : (pre ++ a).isPrefixOf (pre ++ b) = a.isPrefixOf b := by
  induction pre with
  | nil => rfl
  | cons x xs ih => simp [List.isPrefixOf, ih]

theorem stops_mismatch (pre p rest : Path) (hlen : p.length ≤ rest.length) (hnp : p.isPrefixOf rest = false) :
    stops (pre ++ rest) (pre ++ p) = true := by
  unfold stops equalMSBs
  by_cases h : (pre ++ p).length ≥ (pre ++ rest).length
  · have : decide ((pre ++ p).length ≥ (pre ++ rest).length) = true := by simpa using h
    simp only [this, Bool.true_or]
  · have h2 : ¬ (pre ++ rest).length ≤ (pre ++ p).length := by omega
    simp only [h2, if_false, isPrefixOf_append_left, hnp]
    simp

theorem getD_append_len (pre rest : Path) : (pre ++ rest).getD pre.length false = rest.getD 0 false := by
  induction pre with
  | nil => rfl
  | cons x xs ih => simpa using ih

def secondLast {α : Type} (l : List α) : Option α := l.dropLast.getLast?

def relink (old new : Path) : Shape → Shape
  | .inner l r => if l = old then .inner new r else .inner l new
  | sh => sh

theorem topKey_prefix (pre : Path) (S : Node) : pre <+: topKey pre S := by
  cases S <;> simp [topKey]

theorem pathKeys_head {key : Path} {S : Node} {n : Nat} (hw : WF S n) (pre : Path) :
    ∃ tl, pathKeys key pre S = topKey pre S :: tl := by
  induction hw generalizing pre with
  | value _ => exact ⟨[], rfl⟩
  | @edge p c n fl hp hc hne ih =>
    obtain ⟨tl, h⟩ := ih (pre ++ p)
    refine ⟨tl, ?_⟩
    cases c with
    | edge _ _ _ => simp [NotEdge] at hne
    | _ => simpa [pathKeys, topKey] using h
  | bin _ _ _ _ =>
    simp only [pathKeys, topKey]
    split
    · exact ⟨[], rfl⟩
    · exact ⟨_, rfl⟩

theorem pathKeys_prefix {key : Path} {S : Node} {n : Nat} (hw : WF S n) (pre : Path) :
    ∀ K ∈ pathKeys key pre S, pre <+: K := by
  induction hw generalizing pre with
  | value _ => intro K hK; simp [pathKeys] at hK; subst hK; exact List.prefix_refl _
  | edge _ _ _ ih =>
    intro K hK
    exact (List.prefix_append _ _).trans (ih _ K (by simpa [pathKeys] using hK))
  | bin _ _ ihl ihr =>
    intro K hK
    simp only [pathKeys] at hK
    split at hK
    · simp at hK; subst hK; exact List.prefix_refl _
    · cases hK with
      | head => exact List.prefix_refl _
      | tail _ hK =>
        split at hK
        · exact (List.prefix_append _ _).trans (ihr _ K hK)
        · exact (List.prefix_append _ _).trans (ihl _ K hK)

/-- how the expected store content changes when a new key is inserted -/
def insUpd (f : Path → Option Shape) (key : Path) (v : HTerm) (parent : Option Path) (last C : Path)
    (k : Path) : Option Shape :=
  if k = key then some (.leaf v)
  else if parent = some k then (f k).map (relink last C)
  else if k = C then some (if key.getD C.length false then .inner last key else .inner key last)
  else f k

theorem secondLast_cons {α : Type} (a : α) (l : List α) :
    secondLast (a :: l) = if l.length = 1 then some a else secondLast l := by
  cases l with
  | nil => simp [secondLast]
  | cons b t =>
    cases t with
    | nil => simp [secondLast]
    | cons c u => simp [secondLast, List.dropLast]

theorem append_cons_assoc (pre : Path) (b : Bool) (ks : Path) : pre ++ b :: ks = (pre ++ [b]) ++ ks := by simp

/-! ### binary nodes, uniformly in the branch bit -/

def child (b : Bool) (l r : Node) : Node := if b then r else l
def setChild (b : Bool) (l r c : Node) (fl : Flags) : Node := if b then .bin l c fl else .bin c r fl

theorem prefix_dec (a k : Path) : a.isPrefixOf k = true ↔ a <+: k := List.isPrefixOf_iff_prefix

theorem isPrefixOf_false_of_not {a k : Path} (h : ¬ a <+: k) : a.isPrefixOf k = false := by
  cases h5 : a.isPrefixOf k with
  | false => rfl
  | true => exact absurd (List.isPrefixOf_iff_prefix.mp h5) h

theorem flatS_bin_child (pre : Path) (l r : Node) (fl : Flags) (b : Bool) (k : Path) (hk : k ≠ pre) :
    flatS pre (.bin l r fl) k =
      if (pre ++ [b]).isPrefixOf k then flatS (pre ++ [b]) (child b l r) k
      else flatS (pre ++ [!b]) (child (!b) l r) k := by
  simp only [flatS, hk, if_false]
  cases b
  · simp [child]
  · simp only [child, if_true, Bool.not_true, Bool.false_eq_true, if_false]
    by_cases h1 : (pre ++ [true]).isPrefixOf k = true
    · have : (pre ++ [false]).isPrefixOf k = false :=
        isPrefixOf_false_of_not (by simpa using not_prefix_sibling pre true ((prefix_dec _ _).mp h1))
      simp [h1, this]
    · have h1' : (pre ++ [true]).isPrefixOf k = false := Bool.eq_false_iff.mpr h1
      simp only [h1', Bool.false_eq_true, if_false]
      by_cases h0 : (pre ++ [false]).isPrefixOf k = true
      · simp [h0]
      · have h0' : (pre ++ [false]).isPrefixOf k = false := Bool.eq_false_iff.mpr h0
        simp only [h0', Bool.false_eq_true, if_false]
        rw [flatS_none_of_not_prefix (t := r) (fun h => h1 ((prefix_dec _ _).mpr h)),
            flatS_none_of_not_prefix (t := l) (fun h => h0 ((prefix_dec _ _).mpr h))]

theorem flatS_setChild (pre : Path) (l r c : Node) (fl : Flags) (b : Bool) (k : Path) :
    flatS pre (setChild b l r c fl) k =
      if k = pre then some (.inner (topKey (pre ++ [false]) (if b then l else c)) (topKey (pre ++ [true]) (if b then c else r)))
      else if (pre ++ [b]).isPrefixOf k then flatS (pre ++ [b]) c k
      else flatS (pre ++ [!b]) (child (!b) l r) k := by
  by_cases hk : k = pre
  · cases b <;> simp [setChild, flatS, hk]
  · simp only [hk, if_false]
    cases b
    · have := flatS_bin_child pre c r fl false k hk
      simpa [setChild, child] using this
    · have := flatS_bin_child pre l c fl true k hk
      simpa [setChild, child] using this

theorem ins_bin (l r : Node) (fl : Flags) (b : Bool) (ks : Path) (v : HTerm) :
    ∃ fl', (ins (.bin l r fl) (b :: ks) v).1 = setChild b l r (ins (child b l r) ks v).1 fl' := by
  cases b
  · simp only [ins, Bool.false_eq_true, if_false, child, setChild]
    by_cases hd : (ins l ks v).2 = true
    · exact ⟨Flags.new, by simp [hd]⟩
    · have hd' : (ins l ks v).2 = false := by simpa using hd
      exact ⟨fl, by simp [hd', ins_clean hd']⟩
  · simp only [ins, if_true, child, setChild]
    by_cases hd : (ins r ks v).2 = true
    · exact ⟨Flags.new, by simp [hd]⟩
    · have hd' : (ins r ks v).2 = false := by simpa using hd
      exact ⟨fl, by simp [hd', ins_clean hd']⟩

theorem pathKeys_bin (pre : Path) (l r : Node) (fl : Flags) (b : Bool) (ks : Path) :
    pathKeys (pre ++ b :: ks) pre (.bin l r fl) =
      pre :: pathKeys (pre ++ b :: ks) (pre ++ [b]) (child b l r) := by
  have hstop : stops (pre ++ b :: ks) pre = false := stops_prefix pre (b :: ks) (by simp)
  have hbit : (pre ++ b :: ks).getD pre.length false = b := by simp [getD_append_len]
  cases b <;> simp [pathKeys, hstop, hbit, child]

theorem mem_of_secondLast {α : Type} {l : List α} {a : α} (h : secondLast l = some a) : a ∈ l :=
  List.dropLast_subset _ (List.mem_of_getLast? h)


theorem topKey_child_ne (pre : Path) (l r : Node) :
    topKey (pre ++ [false]) l ≠ topKey (pre ++ [true]) r := by
  intro e
  have p1 := topKey_prefix (pre ++ [false]) l
  have p2 := topKey_prefix (pre ++ [true]) r
  rw [e] at p1
  exact not_prefix_sibling pre false p1 (by simpa using p2)

theorem ins_edge_eq (p : Path) (c : Node) (fl : Flags) (key : Path) (v : HTerm) (hk : key ≠ []) :
    ins (.edge p c fl) key v =
      (if (cpre p key).length = p.length then
        (if !(ins c (key.drop (cpre p key).length) v).2 then (Node.edge p c fl, false)
         else (Node.edge p (ins c (key.drop (cpre p key).length) v).1 Flags.new, true))
      else
        (if (cpre p key).isEmpty then
          (Node.bin
            (if key.getD (cpre p key).length false = false then insNil (key.drop ((cpre p key).length + 1)) (.value v)
             else if p.getD (cpre p key).length false = false then insNil (p.drop ((cpre p key).length + 1)) c else .nil)
            (if key.getD (cpre p key).length false = true then insNil (key.drop ((cpre p key).length + 1)) (.value v)
             else if p.getD (cpre p key).length false = true then insNil (p.drop ((cpre p key).length + 1)) c else .nil)
            Flags.new, true)
         else
          (Node.edge (cpre p key) (Node.bin
            (if key.getD (cpre p key).length false = false then insNil (key.drop ((cpre p key).length + 1)) (.value v)
             else if p.getD (cpre p key).length false = false then insNil (p.drop ((cpre p key).length + 1)) c else .nil)
            (if key.getD (cpre p key).length false = true then insNil (key.drop ((cpre p key).length + 1)) (.value v)
             else if p.getD (cpre p key).length false = true then insNil (p.drop ((cpre p key).length + 1)) c else .nil)
            Flags.new) Flags.new, true))) := by
  cases key with
  | nil => exact absurd rfl hk
  | cons b ks => simp only [ins]

theorem topKey_insNil (q x : Path) {c : Node} (hne : NotEdge c) : topKey q (insNil x c) = q ++ x := by
  unfold insNil
  cases x with
  | nil => cases c <;> simp_all [topKey, NotEdge]
  | cons a t => simp [topKey]

theorem flatS_insNil (q x : Path) (c : Node) (k : Path) : flatS q (insNil x c) k = flatS (q ++ x) c k := by
  unfold insNil
  cases x with
  | nil => simp
  | cons a t => simp [flatS]

theorem pathKeys_edge_stop (pre p rest : Path) {c : Node} {n : Nat} (hc : WF c n) (hne : NotEdge c)
    (hlen : p.length ≤ rest.length) (hnp : p.isPrefixOf rest = false) :
    pathKeys (pre ++ rest) (pre ++ p) c = [pre ++ p] := by
  cases hc with
  | value _ => rfl
  | edge _ _ _ => simp [NotEdge] at hne
  | bin _ _ => simp [pathKeys, stops_mismatch pre p rest hlen hnp]

/-- The expected store content after inserting a new key, in terms of the walk of `nodesFromRoot`:
a new leaf, a new inner node at the common prefix `C` of the key and the last node visited, and the
link of that node's parent. -/
theorem flatS_ins {v : HTerm} {S : Node} {n : Nat} (hw : WF S n) :
    ∀ (pre rest : Path), rest.length = n → flatS pre S (pre ++ rest) = none →
      ∃ last, (pathKeys (pre ++ rest) pre S).getLast? = some last ∧
        pre <+: cpre (pre ++ rest) last ∧
        (∀ k, flatS pre (ins S rest v).1 k =
          insUpd (flatS pre S) (pre ++ rest) v (secondLast (pathKeys (pre ++ rest) pre S)) last
            (cpre (pre ++ rest) last) k) ∧
        topKey pre (ins S rest v).1 =
          (if (pathKeys (pre ++ rest) pre S).length = 1 then cpre (pre ++ rest) last else topKey pre S) := by
  induction hw with
  | @value w hwv =>
    intro pre rest hr habs
    have : rest = [] := List.length_eq_zero_iff.mp hr
    subst this
    simp [flatS] at habs
  | @bin l r n fl hl hr ihl ihr =>
    intro pre rest hrl habs
    cases rest with
    | nil => simp at hrl
    | cons b ks =>
      have hks : ks.length = n := by simpa using hrl
      have hkey : pre ++ b :: ks = (pre ++ [b]) ++ ks := append_cons_assoc pre b ks
      have hne_pre : pre ++ b :: ks ≠ pre := by
        intro e; have := congrArg List.length e; simp at this
      have hkeypre : (pre ++ [b]).isPrefixOf (pre ++ b :: ks) = true :=
        (prefix_dec _ _).mpr (by rw [hkey]; exact List.prefix_append _ _)
      have hwc : WF (child b l r) n := by cases b <;> simp [child, hl, hr]
      have hchild : flatS (pre ++ [b]) (child b l r) ((pre ++ [b]) ++ ks) = none := by
        rw [← hkey]
        have := flatS_bin_child pre l r fl b (pre ++ b :: ks) hne_pre
        rw [habs, hkeypre] at this
        simpa using this.symm
      have ih : ∃ last, (pathKeys ((pre ++ [b]) ++ ks) (pre ++ [b]) (child b l r)).getLast? = some last ∧
          (pre ++ [b]) <+: cpre ((pre ++ [b]) ++ ks) last ∧
          (∀ k, flatS (pre ++ [b]) (ins (child b l r) ks v).1 k =
            insUpd (flatS (pre ++ [b]) (child b l r)) ((pre ++ [b]) ++ ks) v
              (secondLast (pathKeys ((pre ++ [b]) ++ ks) (pre ++ [b]) (child b l r))) last
              (cpre ((pre ++ [b]) ++ ks) last) k) ∧
          topKey (pre ++ [b]) (ins (child b l r) ks v).1 =
            (if (pathKeys ((pre ++ [b]) ++ ks) (pre ++ [b]) (child b l r)).length = 1
              then cpre ((pre ++ [b]) ++ ks) last else topKey (pre ++ [b]) (child b l r)) := by
        cases b
        · exact ihl (pre ++ [false]) ks hks hchild
        · exact ihr (pre ++ [true]) ks hks hchild
      obtain ⟨last, h1, h2, h3, h4⟩ := ih
      rw [← hkey] at h1 h2 h3 h4
      obtain ⟨tl, htl⟩ := pathKeys_head (key := pre ++ b :: ks) hwc (pre ++ [b])
      obtain ⟨fl', hins⟩ := ins_bin l r fl b ks v
      have hpath := pathKeys_bin pre l r fl b ks
      -- abbreviations
      generalize hP : pathKeys (pre ++ b :: ks) (pre ++ [b]) (child b l r) = pc at h1 h3 h4 htl hpath
      generalize hC : cpre (pre ++ b :: ks) last = C at h2 h3 h4
      generalize hc' : (ins (child b l r) ks v).1 = c' at h3 h4 hins
      refine ⟨last, ?_, ?_, ?_, ?_⟩
      · rw [hpath, htl]; rw [htl] at h1; simpa [List.getLast?_cons_cons] using h1
      · rw [hC]; exact (List.prefix_append _ _).trans h2
      · intro k
        rw [hC, hpath, secondLast_cons, hins, flatS_setChild]
        by_cases hkpre : k = pre
        · subst hkpre
          have hk1 : ¬ k = k ++ b :: ks := fun e => hne_pre e.symm
          simp only [if_true, insUpd, hk1, if_false]
          by_cases hlen1 : pc.length = 1
          · simp only [hlen1, if_true]
            have htop : topKey (k ++ [b]) c' = C := by simpa [hlen1] using h4
            have hlast : topKey (k ++ [b]) (child b l r) = last := by
              rw [htl] at hlen1 h1
              have : tl = [] := by simpa using hlen1
              subst this; simpa using h1
            cases b
            · simp only [child, Bool.false_eq_true, if_false] at hlast htop ⊢
              simp [flatS, relink, hlast, htop]
            · simp only [child, if_true] at hlast htop ⊢
              have hdiff : topKey (k ++ [false]) l ≠ last := by
                rw [← hlast]; exact topKey_child_ne k l r
              simp [flatS, relink, hlast, htop, hdiff]
          · simp only [hlen1, if_false]
            have htop : topKey (k ++ [b]) c' = topKey (k ++ [b]) (child b l r) := by simpa [hlen1] using h4
            have hsl : ¬ secondLast pc = some k := by
              intro e
              have hm : k ∈ pathKeys (k ++ b :: ks) (k ++ [b]) (child b l r) := by rw [hP]; exact mem_of_secondLast e
              have := (pathKeys_prefix hwc (k ++ [b]) k hm).length_le
              simp at this; omega
            have hkc : ¬ k = C := by
              intro e
              have := h2.length_le
              rw [← e] at this; simp at this; omega
            cases b
            · simp only [child, Bool.false_eq_true, if_false] at htop ⊢
              simp [hsl, hkc, flatS, htop]
            · simp only [child, if_true] at htop ⊢
              simp [hsl, hkc, flatS, htop]
        · simp only [hkpre, if_false]
          by_cases hkin : (pre ++ [b]).isPrefixOf k = true
          · simp only [hkin, if_true]
            rw [h3 k]
            have hold := flatS_bin_child pre l r fl b k hkpre
            simp only [hkin, if_true] at hold
            have hpk : ¬ (some pre = some k) := by simpa using fun e : pre = k => hkpre e.symm
            unfold insUpd
            rw [hold]
            by_cases hlen1 : pc.length = 1
            · have hsl : secondLast pc = none := by
                rw [htl] at hlen1 ⊢
                have : tl = [] := by simpa using hlen1
                subst this; simp [secondLast]
              simp [hlen1, hsl, hpk]
            · simp [hlen1]
          · have hkin' : (pre ++ [b]).isPrefixOf k = false := Bool.eq_false_iff.mpr hkin
            have hnp : ¬ (pre ++ [b]) <+: k := fun h => hkin ((prefix_dec _ _).mpr h)
            simp only [hkin', Bool.false_eq_true, if_false]
            have hold := flatS_bin_child pre l r fl b k hkpre
            simp only [hkin', Bool.false_eq_true, if_false] at hold
            have c1 : ¬ k = pre ++ b :: ks := by
              intro e; apply hnp; rw [e, hkey]; exact List.prefix_append _ _
            have c2 : ¬ (if pc.length = 1 then some pre else secondLast pc) = some k := by
              split
              · simpa using fun e : pre = k => hkpre e.symm
              · intro e
                have hm : k ∈ pathKeys (pre ++ b :: ks) (pre ++ [b]) (child b l r) := by rw [hP]; exact mem_of_secondLast e
                exact hnp (pathKeys_prefix hwc (pre ++ [b]) k hm)
            have c3 : ¬ k = C := by
              intro e; apply hnp; rw [e]; exact h2
            simp only [insUpd, c1, c2, c3, if_false, hold]
      · rw [hC, hpath, hins]
        have : (pre :: pc).length ≠ 1 := by rw [htl]; simp
        simp only [this, if_false]
        cases b <;> simp [setChild, topKey]
  | @edge p c n fl hp hc hne ih =>
    intro pre rest hrl habs
    have habs' : flatS (pre ++ p) c (pre ++ rest) = none := by simpa [flatS] using habs
    by_cases hpre : p.isPrefixOf rest = true
    · -- the edge path is a prefix of the key: descend
      obtain ⟨kt, rfl⟩ := List.isPrefixOf_iff_prefix.mp hpre
      have hkt : kt.length = n := by simp at hrl; omega
      have hassoc : pre ++ (p ++ kt) = (pre ++ p) ++ kt := by simp
      rw [hassoc] at habs'
      obtain ⟨last, h1, h2, h3, h4⟩ := ih (pre ++ p) kt hkt habs'
      rw [← hassoc] at h1 h2 h3 h4
      have hfull : (cpre p (p ++ kt)).length = p.length :=
        (cpre_full_iff p _).mpr hpre
      -- the walk inside `c` has at least two nodes
      have hlen2 : (pathKeys (pre ++ (p ++ kt)) (pre ++ p) c).length ≠ 1 := by
        cases hc with
        | value hv =>
          have : kt = [] := List.length_eq_zero_iff.mp hkt
          subst this
          simp [flatS] at habs'
        | edge _ _ _ => simp [NotEdge] at hne
        | @bin l r n' bfl hl hr =>
          have hktne : kt ≠ [] := by intro e; subst e; simp at hkt
          rw [hassoc]
          cases kt with
          | nil => exact absurd rfl hktne
          | cons b ks =>
            rw [pathKeys_bin]
            have hwc : WF (child b l r) n' := by cases b <;> simp [child, hl, hr]
            obtain ⟨tl, htl⟩ := pathKeys_head (key := (pre ++ p) ++ b :: ks) hwc ((pre ++ p) ++ [b])
            rw [htl]; simp
      have hins : ∃ fl', (ins (.edge p c fl) (p ++ kt) v).1 = .edge p (ins c kt v).1 fl' := by
        cases hk : p ++ kt with
        | nil => simp at hk; exact absurd hk.1 hp
        | cons kb kks =>
          rw [← hk]
          have : (ins (.edge p c fl) (p ++ kt) v) =
              (if !(ins c kt v).2 then (Node.edge p c fl, false) else (Node.edge p (ins c kt v).1 Flags.new, true)) := by
            rw [hk]; simp only [ins]; rw [← hk]; simp [hfull]
          rw [this]
          by_cases hd : (ins c kt v).2 = true
          · exact ⟨Flags.new, by simp [hd]⟩
          · have hd' : (ins c kt v).2 = false := by simpa using hd
            exact ⟨fl, by simp [hd', ins_clean hd']⟩
      obtain ⟨fl', hins⟩ := hins
      refine ⟨last, by simpa [pathKeys] using h1, (List.prefix_append _ _).trans h2, ?_, ?_⟩
      · intro k
        rw [hins]
        simp only [flatS, pathKeys]
        exact h3 k
      · rw [hins]
        simp only [pathKeys, hlen2, if_false, topKey]
    · -- branch out below the common prefix
      have hnp : p.isPrefixOf rest = false := Bool.eq_false_iff.mpr hpre
      have hfull : (cpre p rest).length ≠ p.length := fun e => hpre ((cpre_full_iff p rest).mp e)
      obtain ⟨m, pb, prest, krest, hp', hk2, hm⟩ := cpre_split p rest (by omega) hfull
      subst hp' hk2
      have hpath : pathKeys (pre ++ (m ++ (!pb) :: krest)) (pre ++ (m ++ pb :: prest)) c = [pre ++ (m ++ pb :: prest)] :=
        pathKeys_edge_stop pre _ _ hc hne (by omega) hnp
      have hC : cpre (pre ++ (m ++ (!pb) :: krest)) (pre ++ (m ++ pb :: prest)) = pre ++ m := by
        rw [cpre_append_left, cpre_comm, hm]
      have hkr : krest.length = prest.length + n := by simp at hrl; omega
      -- the result of the split
      have hres : ∃ fl1 fl2, (ins (.edge (m ++ pb :: prest) c fl) (m ++ (!pb) :: krest) v).1 =
          (if m.isEmpty then setChild pb (insNil krest (.value v)) (insNil krest (.value v)) (insNil prest c) fl1
           else .edge m (setChild pb (insNil krest (.value v)) (insNil krest (.value v)) (insNil prest c) fl1) fl2) := by
        have e1 : (m ++ pb :: prest).getD m.length false = pb := by simp
        have e2 : (m ++ (!pb) :: krest).getD m.length false = !pb := by simp
        have e3 : List.drop (m.length + 1) (m ++ pb :: prest) = prest := by
          rw [show m ++ pb :: prest = (m ++ [pb]) ++ prest by simp]
          rw [show m.length + 1 = (m ++ [pb]).length by simp]
          exact List.drop_left
        have e4 : List.drop (m.length + 1) (m ++ (!pb) :: krest) = krest := by
          rw [show m ++ (!pb) :: krest = (m ++ [!pb]) ++ krest by simp]
          rw [show m.length + 1 = (m ++ [!pb]).length by simp]
          exact List.drop_left
        refine ⟨Flags.new, Flags.new, ?_⟩
        rw [ins_edge_eq _ _ _ _ _ (by simp), hm]
        have hf : ¬ m.length = (m ++ pb :: prest).length := by simp
        simp only [hf, if_false, e1, e2, e3, e4]
        cases pb <;> cases hme : m.isEmpty <;> simp [setChild]
      obtain ⟨fl1, fl2, hres⟩ := hres
      refine ⟨pre ++ (m ++ pb :: prest), by simp [pathKeys, hpath], ?_, ?_, ?_⟩
      · rw [hC]; exact List.prefix_append _ _
      · intro k
        have hflat : flatS pre (ins (.edge (m ++ pb :: prest) c fl) (m ++ (!pb) :: krest) v).1 k =
            flatS (pre ++ m) (setChild pb (insNil krest (.value v)) (insNil krest (.value v)) (insNil prest c) fl1) k := by
          rw [hres]
          cases hme : m.isEmpty with
          | true =>
            have : m = [] := by cases m <;> simp_all
            subst this; simp
          | false => simp [flatS]
        rw [hflat, hC, flatS_setChild]
        simp only [pathKeys, hpath]
        have hsl : secondLast [pre ++ (m ++ pb :: prest)] = none := by simp [secondLast]
        rw [hsl]
        have hq1 : (pre ++ m) ++ [pb] ++ prest = pre ++ (m ++ pb :: prest) := by simp
        have hq2 : (pre ++ m) ++ [!pb] ++ krest = pre ++ (m ++ (!pb) :: krest) := by simp
        have hbit : (pre ++ (m ++ (!pb) :: krest)).getD (pre ++ m).length false = !pb := by
          rw [show pre ++ (m ++ (!pb) :: krest) = (pre ++ m) ++ (!pb) :: krest by simp, getD_append_len]; rfl
        unfold insUpd
        by_cases hkc : k = pre ++ m
        · subst hkc
          have hne1 : ¬ pre ++ m = pre ++ (m ++ (!pb) :: krest) := by
            intro e; have := congrArg List.length e; simp at this
          have hnone : ¬ (none : Option Path) = some (pre ++ m) := by simp
          simp only [if_true, hne1, if_false, hbit, hnone]
          have t1 := topKey_insNil ((pre ++ m) ++ [pb]) prest hne
          have t2 := topKey_insNil ((pre ++ m) ++ [!pb]) krest (c := .value v) (by simp [NotEdge])
          rw [hq1] at t1; rw [hq2] at t2
          cases pb <;> simp_all
        · simp only [hkc, if_false]
          by_cases hold : ((pre ++ m) ++ [pb]).isPrefixOf k = true
          · simp only [hold, if_true, flatS_insNil, hq1]
            have hne1 : ¬ k = pre ++ (m ++ (!pb) :: krest) := by
              intro e
              have h1 := (prefix_dec _ _).mp hold
              have h2 : (pre ++ m) ++ [!pb] <+: k := by rw [e, ← hq2]; simp
              exact not_prefix_sibling (pre ++ m) pb h1 h2
            simp [hne1, flatS]
          · have hold' : ((pre ++ m) ++ [pb]).isPrefixOf k = false := Bool.eq_false_iff.mpr hold
            simp only [hold', Bool.false_eq_true, if_false, child]
            have hsel : (if (!pb) = true then insNil krest (Node.value v) else insNil krest (Node.value v)) =
                insNil krest (.value v) := by cases pb <;> rfl
            rw [hsel, flatS_insNil, hq2]
            have hf0 : flatS pre (.edge (m ++ pb :: prest) c fl) k = none := by
              simp only [flatS]
              apply flatS_none_of_not_prefix
              intro h
              apply hold
              apply (prefix_dec _ _).mpr
              rw [← hq1] at h
              exact (List.prefix_append _ _).trans h
            have hf1 : flatS (pre ++ (m ++ pb :: prest)) c k = none := by simpa [flatS] using hf0
            simp [flatS, hf0, hf1]
      · rw [hres, hC]
        simp only [pathKeys, hpath, List.length_singleton, if_true]
        cases hme : m.isEmpty with
        | true =>
          have : m = [] := by cases m <;> simp_all
          subst this
          cases pb <;> simp [setChild, topKey]
        | false => simp [topKey]

end Legacy
end Juno.C01
