import JunoModel.C01.ProofsSpec
import JunoModel.C01.ModelLegacy
/-!
Helper lemmas for C01, part 6: the legacy flat trie (`core/trie`). The flat storage is described by a
trie2-style tree: a legacy node keyed by its absolute path corresponds to a binary node (inner) or a
value node (leaf) of the tree, the relative path of a legacy node to the edge above it.
-/
namespace Juno.C01
namespace Legacy
open Trie2

/-! ### the store -/

theorem sget_sdel (s : Store) (k k' : Path) : sget (sdel s k) k' = if k' = k then none else sget s k' := by
  induction s with
  | nil => simp [sdel, sget]
  | cons e rest ih =>
    obtain ⟨a, b⟩ := e
    simp only [sdel] at ih ⊢
    by_cases ha : a = k
    · subst ha
      simp only [List.filter, bne_self_eq_false, sget, ih]
      by_cases hk : k' = a
      · simp [hk]
      · have : ¬ a = k' := fun h => hk h.symm
        simp [hk, this]
    · have : (a != k) = true := by simpa using ha
      simp only [List.filter, this, sget, ih]
      by_cases hk : k' = k
      · subst hk; simp [ha]
      · simp [hk]

theorem sget_sput (s : Store) (k : Path) (n : LNode) (k' : Path) :
    sget (sput s k n) k' = if k' = k then some n else sget s k' := by
  simp only [sput, sget, sget_sdel]
  by_cases hk : k' = k
  · subst hk; simp
  · have : ¬ k = k' := fun h => hk h.symm
    simp [hk, this]

/-! ### the tree view of the store -/

/-- storage key of the top legacy node of the subtree `t` hanging at absolute prefix `pre` -/
def topKey (pre : Path) : Node → Path
  | .edge p _ _ => pre ++ p
  | _ => pre

inductive Shape where
  | leaf (v : HTerm)
  | inner (l r : Path)
deriving DecidableEq, Repr

/-- the legacy node expected under storage key `k` for the subtree `t` at prefix `pre` (cached value of
inner nodes left open) -/
def flatS (pre : Path) : Node → Path → Option Shape
  | .value v, k => if k = pre then some (.leaf v) else none
  | .edge p c _, k => flatS (pre ++ p) c k
  | .bin l r _, k =>
    if k = pre then some (.inner (topKey (pre ++ [false]) l) (topKey (pre ++ [true]) r))
    else match flatS (pre ++ [false]) l k with
      | some x => some x
      | none => flatS (pre ++ [true]) r k
  | _, _ => none

def Matches (o : Option LNode) : Option Shape → Prop
  | none => o = none
  | some (.leaf v) => o = some ⟨v, none, none⟩
  | some (.inner l r) => ∃ c, o = some ⟨c, some l, some r⟩

theorem flatS_prefix {pre : Path} {t : Node} {k : Path} {x : Shape} (h : flatS pre t k = some x) :
    pre <+: k := by
  induction t generalizing pre x with
  | nil => simp [flatS] at h
  | hash _ => simp [flatS] at h
  | value v =>
    simp only [flatS] at h
    split at h
    · rename_i e; subst e; exact List.prefix_refl _
    · simp at h
  | edge p c fl ih =>
    have := ih (pre := pre ++ p) h
    exact (List.prefix_append _ _).trans this
  | bin l r fl ihl ihr =>
    simp only [flatS] at h
    split at h
    · rename_i e; subst e; exact List.prefix_refl _
    · split at h
      · rename_i y hy
        exact (List.prefix_append _ _).trans (ihl (pre := pre ++ [false]) hy)
      · exact (List.prefix_append _ _).trans (ihr (pre := pre ++ [true]) h)

/-- agreement of the store with the subtree `t` on every key below `pre` -/
def AgreeAt (s : Store) (pre : Path) (t : Node) : Prop :=
  ∀ k, pre <+: k → Matches (sget s k) (flatS pre t k)

theorem flatS_none_of_not_prefix {pre : Path} {t : Node} {k : Path} (h : ¬ pre <+: k) :
    flatS pre t k = none := by
  cases hx : flatS pre t k with
  | none => rfl
  | some x => exact absurd (flatS_prefix hx) h

theorem AgreeAt.edge {s : Store} {pre p : Path} {c : Node} {fl : Flags} (h : AgreeAt s pre (.edge p c fl)) :
    AgreeAt s (pre ++ p) c := by
  intro k hk
  have := h k ((List.prefix_append _ _).trans hk)
  simpa [flatS] using this

theorem not_prefix_sibling (pre : Path) (b : Bool) {k : Path} (h : pre ++ [b] <+: k) : ¬ pre ++ [!b] <+: k := by
  intro h2
  obtain ⟨t1, rfl⟩ := h
  obtain ⟨t2, e⟩ := h2
  simp only [List.append_assoc, List.append_cancel_left_eq, List.singleton_append, List.cons.injEq] at e
  cases b <;> simp at e

theorem AgreeAt.binL {s : Store} {pre : Path} {l r : Node} {fl : Flags} (h : AgreeAt s pre (.bin l r fl)) :
    AgreeAt s (pre ++ [false]) l := by
  intro k hk
  have := h k ((List.prefix_append _ _).trans hk)
  have hne : k ≠ pre := by
    intro e; subst e
    have := hk.length_le; simp at this; omega
  simp only [flatS, hne, if_false] at this
  cases hl : flatS (pre ++ [false]) l k with
  | some x => simpa [hl] using this
  | none =>
    have hr : flatS (pre ++ [true]) r k = none :=
      flatS_none_of_not_prefix (by simpa using not_prefix_sibling pre false hk)
    simpa [hl, hr] using this

theorem AgreeAt.binR {s : Store} {pre : Path} {l r : Node} {fl : Flags} (h : AgreeAt s pre (.bin l r fl)) :
    AgreeAt s (pre ++ [true]) r := by
  intro k hk
  have := h k ((List.prefix_append _ _).trans hk)
  have hne : k ≠ pre := by
    intro e; subst e
    have := hk.length_le; simp at this; omega
  have hl : flatS (pre ++ [false]) l k = none :=
    flatS_none_of_not_prefix (by simpa using not_prefix_sibling pre true hk)
  simpa [flatS, hne, hl] using this

theorem AgreeAt.binTop {s : Store} {pre : Path} {l r : Node} {fl : Flags} (h : AgreeAt s pre (.bin l r fl)) :
    ∃ c, sget s pre = some ⟨c, some (topKey (pre ++ [false]) l), some (topKey (pre ++ [true]) r)⟩ := by
  have := h pre (List.prefix_refl _)
  simpa [flatS, Matches] using this

/-- the stop test of `nodesFromRoot` at the node stored under `cur` -/
def stops (key cur : Path) : Bool := cur.length ≥ key.length || !equalMSBs key cur

/-- storage keys of the nodes `nodesFromRoot` visits inside the subtree `t` at `pre` -/
def pathKeys (key : Path) : Path → Node → List Path
  | pre, .edge p c _ => pathKeys key (pre ++ p) c
  | pre, .bin l r _ =>
    if stops key pre then [pre]
    else pre :: (if key.getD pre.length false then pathKeys key (pre ++ [true]) r
                 else pathKeys key (pre ++ [false]) l)
  | pre, _ => [pre]

theorem zero_guard {acc : List (Path × LNode)} {pre : Path} (h : acc = [] ∨ pre ≠ []) :
    (!acc.isEmpty && pre.length == 0) = false := by
  cases h with
  | inl h => simp [h]
  | inr h =>
    have : (pre.length == 0) = false := by
      cases pre with
      | nil => exact absurd rfl h
      | cons _ _ => simp
    simp [this]

theorem walk {tr : Trie} {key : Path} {S : Node} {n : Nat} (hw : WF S n) :
    ∀ (pre : Path) (fuel : Nat) (acc : List (Path × LNode)),
      AgreeAt tr.store pre S → pre.length + n = key.length → n + 1 ≤ fuel → (acc = [] ∨ pre ≠ []) →
      ∃ nodes, nodesFromRoot tr key fuel (some (topKey pre S)) acc = some (acc ++ nodes) ∧
        nodes.map Prod.fst = pathKeys key pre S ∧ ∀ e ∈ nodes, sget tr.store e.1 = some e.2 := by
  induction hw with
  | @value v hv =>
    intro pre fuel acc ha hlen hf hacc
    cases fuel with
    | zero => omega
    | succ fuel =>
      have hs : sget tr.store pre = some ⟨v, none, none⟩ := by
        have := ha pre (List.prefix_refl _); simpa [flatS, Matches] using this
      have hzero : (!acc.isEmpty && pre.length == 0) = false := zero_guard hacc
      refine ⟨[(pre, ⟨v, none, none⟩)], ?_, by simp [pathKeys], by simp [hs]⟩
      simp only [topKey, nodesFromRoot, hzero, hs]
      have : (pre.length ≥ key.length) := by omega
      simp [this]
  | @edge p c n fl hp hc hne ih =>
    intro pre fuel acc ha hlen hf hacc
    have := ih (pre ++ p) fuel acc ha.edge (by simp; omega) (by omega)
      (Or.inr (by intro h; simp at h; exact hp h.2))
    cases c with
    | edge q cc qfl => simp [NotEdge] at hne
    | nil => simpa [topKey, pathKeys] using this
    | value v => simpa [topKey, pathKeys] using this
    | hash x => simpa [topKey, pathKeys] using this
    | bin l r bfl => simpa [topKey, pathKeys] using this
  | @bin l r n fl hl hr ihl ihr =>
    intro pre fuel acc ha hlen hf hacc
    cases fuel with
    | zero => omega
    | succ fuel =>
      obtain ⟨cv, hs⟩ := ha.binTop
      have hzero : (!acc.isEmpty && pre.length == 0) = false := zero_guard hacc
      have ht : topKey pre (.bin l r fl) = pre := rfl
      rw [ht]
      simp only [nodesFromRoot, hzero, hs, pathKeys]
      by_cases hst : stops key pre = true
      · have hst' : (decide (pre.length ≥ key.length) || !equalMSBs key pre) = true := by simpa [stops] using hst
        refine ⟨[(pre, ⟨cv, some (topKey (pre ++ [false]) l), some (topKey (pre ++ [true]) r)⟩)], ?_,
          by simp [hst], by simp [hs]⟩
        simp [hst']
      · have hst' : (decide (pre.length ≥ key.length) || !equalMSBs key pre) = false := by simpa [stops] using hst
        simp only [hst', hst]
        by_cases hb : key.getD pre.length false = true
        · simp only [hb, if_true]
          obtain ⟨nodes, h1, h2, h3⟩ := ihr (pre ++ [true]) fuel (acc ++ [(pre, ⟨cv, some (topKey (pre ++ [false]) l), some (topKey (pre ++ [true]) r)⟩)]) ha.binR
            (by simp; omega) (by omega) (Or.inr (by simp))
          refine ⟨(pre, ⟨cv, some (topKey (pre ++ [false]) l), some (topKey (pre ++ [true]) r)⟩) :: nodes, ?_, by simp [h2], ?_⟩
          · simpa [List.append_assoc] using h1
          · intro e he
            cases he with
            | head => exact hs
            | tail _ he => exact h3 e he
        · simp only [hb]
          obtain ⟨nodes, h1, h2, h3⟩ := ihl (pre ++ [false]) fuel (acc ++ [(pre, ⟨cv, some (topKey (pre ++ [false]) l), some (topKey (pre ++ [true]) r)⟩)]) ha.binL
            (by simp; omega) (by omega) (Or.inr (by simp))
          refine ⟨(pre, ⟨cv, some (topKey (pre ++ [false]) l), some (topKey (pre ++ [true]) r)⟩) :: nodes, ?_, by simp [h2], ?_⟩
          · simpa [List.append_assoc] using h1
          · intro e he
            cases he with
            | head => exact hs
            | tail _ he => exact h3 e he

/-! ### paths -/

theorem cpre_append_left (pre a b : Path) : cpre (pre ++ a) (pre ++ b) = pre ++ cpre a b := by
  induction pre with
  | nil => rfl
  | cons x xs ih => simp [cpre, ih]

theorem cpre_comm (a b : Path) : cpre a b = cpre b a := by
  induction a generalizing b with
  | nil => cases b <;> simp [cpre]
  | cons x xs ih =>
    cases b with
    | nil => simp [cpre]
    | cons y ys =>
      by_cases h : x = y
      · subst h; simp [cpre, ih ys]
      · have : ¬ y = x := fun e => h e.symm
        simp [cpre, h, this]

theorem equalMSBs_prefix (pre rest : Path) : equalMSBs (pre ++ rest) pre = true := by
  unfold equalMSBs
  by_cases h : (pre ++ rest).length ≤ pre.length
  · have : rest = [] := by
      have : rest.length = 0 := by simp at h; omega
      exact List.length_eq_zero_iff.mp this
    subst this; simp
  · simp only [h, if_false]
    exact List.isPrefixOf_iff_prefix.mpr (List.prefix_append _ _)

theorem stops_prefix (pre rest : Path) (h : rest ≠ []) : stops (pre ++ rest) pre = false := by
  have hl : ¬ (pre.length ≥ (pre ++ rest).length) := by
    cases rest with
    | nil => exact absurd rfl h
    | cons _ _ => simp
  have hl' : decide (pre.length ≥ (pre ++ rest).length) = false := by simpa using hl
  simp only [stops, hl', equalMSBs_prefix]; rfl

theorem isPrefixOf_append_left (pre a b : Path) : (pre ++ a).isPrefixOf (pre ++ b) = a.isPrefixOf b := by
  induction pre with
  | nil => rfl
  | cons x xs ih => simp [List.isPrefixOf, ih]

theorem stops_mismatch (pre p rest : Path) (hlen : p.length ≤ rest.length) (hnp : p.isPrefixOf rest = false) :
    stops (pre ++ rest) (pre ++ p) = true := by
  unfold stops equalMSBs
  by_cases h : (pre ++ p).length ≥ (pre ++ rest).length
  · have : decide ((pre ++ p).length ≥ (pre ++ rest).length) = true := by simpa using h
    simp only [this, Bool.true_or]
  · have h2 : ¬ (pre ++ rest).length ≤ (pre ++ p).length := by omega
    simp only [h2, if_false, isPrefixOf_append_left, hnp]
    simp

theorem getD_append_len (pre rest : Path) : (pre ++ rest).getD pre.length false = rest.getD 0 false := by
  induction pre with
  | nil => rfl
  | cons x xs ih => simpa using ih

def secondLast {α : Type} (l : List α) : Option α := l.dropLast.getLast?

def relink (old new : Path) : Shape → Shape
  | .inner l r => if l = old then .inner new r else .inner l new
  | sh => sh

end Legacy
end Juno.C01
