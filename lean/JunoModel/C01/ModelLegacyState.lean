import JunoModel.C01.ModelState
/-!
C01 — model, part 10 (round 5): `core/deprecatedstate.State.Update` TRANSCRIBED. Core Lean only.

`State.run false` of `ModelState.lean` is core/state's algorithm with the purge switched off — the legacy backend
computes its root quite differently, and this file follows it statement by statement:
* there are no contract records and no state objects: class hash and nonce live in buckets of their own
  (`ContractClassHash`, `ContractNonce`), the storage trie under the contract's address (`ContractStorage`);
* every single change is followed at once by `updateContractCommitment`: the leaf is recomputed from the three
  stores (`ContractRoot`, `GetContractClassHash`, `GetContractNonce`) and `Put` into the contract trie
  (`putNewContract` → leaf of the fresh contract; `replaceContract`, `updateContractNonce` → `updateContract` → leaf
  again), so one block may write the leaf of one address several times;
* `updateContractStorages`: (1) system contracts of the diff that are not deployed are deployed (class hash 0,
  nonce 0, leaf `H(H(H(0,0),0),0)`), (2) every contract's storage trie is updated and committed
  (`updateStorageBuffered`: `NewContractUpdater` fails for an undeployed address), (3) the leaf of every address of
  the diff is recomputed;
* nothing removes a system contract whose storage is empty again (`purge = false`, the unchanged tree); the
  proposed repair calls `purgesystemContracts()` at the end of `Update` (`purge = true`): for 0x1 and 0x2, if
  deployed and the storage root is zero: leaf := 0, class-hash and nonce entries deleted.
The legacy tries are written as trie2 trees (theorem `backends_agree`: same roots on every history; the legacy
trie itself is the subject of `legacy_canonical`).
-/
namespace Juno.C01
namespace LState
open State

structure LSt where
  cls : AList HTerm         -- bucket ContractClassHash (newest binding first)
  nonce : AList HTerm       -- bucket ContractNonce
  stor : Path → Node        -- bucket ContractStorage: the storage trie per address
  ctrie : Node              -- StateTrie
  cltrie : Node             -- ClassesTrie

def LSt.empty : LSt := ⟨[], [], fun _ => .nil, .nil, .nil⟩

/-- `deployed(addr, txn)`: a class-hash entry exists -/
def deployed (s : LSt) (addr : Path) : Bool := (alookup s.cls addr).isSome

/-- `updateContractCommitment`: `ContractRoot`, `GetContractClassHash`, `GetContractNonce` (each may fail with
`ErrKeyNotFound`), `stateTrie.Put(addr, calculateContractCommitment(root, classHash, nonce))` -/
def updateCommitment (s : LSt) (addr : Path) : Option LSt :=
  match alookup s.cls addr, alookup s.nonce addr with
  | some c, some n =>
    some { s with ctrie := Trie2.update s.ctrie addr (contractLeaf c (Trie2.hashRoot .pedersen (s.stor addr)).1 n) }
  | _, _ => none

/-- `putNewContract` = `DeployContract` (`ErrContractAlreadyDeployed`; class hash; nonce 0) + leaf -/
def putNewContract (s : LSt) (addr : Path) (c : HTerm) : Option LSt :=
  if deployed s addr then none
  else updateCommitment { s with cls := (addr, c) :: s.cls, nonce := (addr, .felt 0) :: s.nonce } addr

/-- `replaceContract` → `updateContract`: `NewContractUpdater` (`ErrContractNotDeployed`), old value, `Replace`, leaf -/
def replaceContract (s : LSt) (addr : Path) (c : HTerm) : Option LSt :=
  if deployed s addr then updateCommitment { s with cls := (addr, c) :: s.cls } addr else none

/-- `updateContractNonce` → `updateContract`: the old nonce is read first (`GetContractNonce` may fail) -/
def updateNonce (s : LSt) (addr : Path) (n : HTerm) : Option LSt :=
  if deployed s addr then
    match alookup s.nonce addr with
    | some _ => updateCommitment { s with nonce := (addr, n) :: s.nonce } addr
    | none => none
  else none

def deployAll : LSt → List (Path × HTerm) → Option LSt
  | s, [] => some s
  | s, (addr, c) :: rest => (putNewContract s addr c).bind (deployAll · rest)

def replaceAll : LSt → List (Path × HTerm) → Option LSt
  | s, [] => some s
  | s, (addr, c) :: rest => (replaceContract s addr c).bind (replaceAll · rest)

def nonceAll : LSt → List (Path × HTerm) → Option LSt
  | s, [] => some s
  | s, (addr, n) :: rest => (updateNonce s addr n).bind (nonceAll · rest)

/-- `updateContractStorages`, first loop: "make sure all system contracts are deployed" -/
def deploySystem : LSt → List (Path × List (Path × HTerm)) → Option LSt
  | s, [] => some s
  | s, (addr, _) :: rest =>
    if isSystem addr && !deployed s addr then (putNewContract s addr (.felt 0)).bind (deploySystem · rest)
    else deploySystem s rest

/-- ... the storage tries: `updateStorageBuffered` (`NewContractUpdater` must find the contract),
`ContractUpdater.UpdateStorage` (`Put` every slot, `Commit`), buffered transactions flushed -/
def writeStorages : LSt → List (Path × List (Path × HTerm)) → Option LSt
  | s, [] => some s
  | s, (addr, kvs) :: rest =>
    if deployed s addr then
      let tr := kvs.foldl (fun t (kv : Path × HTerm) => Trie2.update t kv.1 kv.2) (s.stor addr)
      writeStorages { s with stor := setAt s.stor addr (Trie2.hashRoot .pedersen tr).2 } rest
    else none

/-- ... last loop: the leaf of every address of the diff -/
def commitAll : LSt → List (Path × List (Path × HTerm)) → Option LSt
  | s, [] => some s
  | s, (addr, _) :: rest => (updateCommitment s addr).bind (commitAll · rest)

def updateContractStorages (s : LSt) (diffs : List (Path × List (Path × HTerm))) : Option LSt :=
  (deploySystem s diffs).bind (fun s1 => (writeStorages s1 diffs).bind (fun s2 => commitAll s2 diffs))

/-- `state.SystemContracts`: 0x1 and 0x2 as 251-bit paths -/
def sys1 : Path := List.replicate 250 false ++ [true]
def sys2 : Path := List.replicate 249 false ++ [true, false]

/-- `purgesystemContracts` for one address: deployed and `ContractRoot == 0` → `purgeContract` (leaf := 0,
`ContractUpdater.Purge`: nonce and class-hash entries deleted) -/
def purgeOne (s : LSt) (addr : Path) : LSt :=
  if deployed s addr && (Trie2.hashRoot .pedersen (s.stor addr)).1 == .felt 0 then
    { s with ctrie := Trie2.update s.ctrie addr (.felt 0),
             cls := s.cls.filter (fun e => e.1 != addr), nonce := s.nonce.filter (fun e => e.1 != addr) }
  else s

def purgeSystemContracts (s : LSt) : LSt := purgeOne (purgeOne s sys1) sys2

/-- `State.Update` (skipVerifyNewRoot; the old-root check is modelled separately, `State.oldRootOK`): class trie,
deployed contracts, `updateContracts` (replaced classes, nonces, storages); `purge` = with the proposed repair. -/
def update (purge : Bool) (s : LSt) (d : Diff) : Option LSt := do
  let cl := (d.declared ++ d.migrated).foldl
    (fun t (e : Path × HTerm) => Trie2.update t e.1 (classLeaf e.2)) s.cltrie
  let s0 := { s with cltrie := cl }
  let s1 ← deployAll s0 d.deployed
  let s2 ← replaceAll s1 d.replaced
  let s3 ← nonceAll s2 d.nonces
  let s4 ← updateContractStorages s3 d.storage
  pure (if purge then purgeSystemContracts s4 else s4)

def run (purge : Bool) : List Diff → LSt → Option LSt
  | [], s => some s
  | d :: rest, s => (update purge s d).bind (run purge rest)

/-- `State.Commitment(protocolVersion)` -/
def commitment (pre014 : Bool) (s : LSt) : HTerm :=
  stateCommitment pre014 (Trie2.hashRoot .pedersen s.ctrie).1 (Trie2.hashRoot .poseidon s.cltrie).1

/-- the two field buckets as the driver prints them: one entry per deployed address -/
def liveFields (s : LSt) : List (Path × HTerm × Option HTerm) :=
  (s.cls.foldr (fun (e : Path × HTerm) acc => if (alookup acc e.1).isSome then acc else e :: acc) []).map
    (fun e => (e.1, (alookup s.cls e.1).getD e.2, alookup s.nonce e.1))

end LState
end Juno.C01
