import JunoModel.C01.Model
/-!
C01 — model, part 3: the legacy dense trie `core/trie/trie.go`: flat storage keyed by the full path
of a node, `Put` (updateLeaf / handleEmptyTrie / deleteExistingKey+deleteLast /
insertOrUpdateValue), the dirty-node list and the lazy rehash `updateValueIfDirty` run by
`Hash()`. Proof nodes (`PutWithProof`, Left/RightHash) are not part of the state commitment and are
not modelled. Core Lean only.
-/
namespace Juno.C01
namespace Legacy

/-- `trie.Node`: `Value`, and for inner nodes the storage keys of both children. -/
structure LNode where
  value : HTerm
  left : Option Path
  right : Option Path
deriving DecidableEq, Repr

/-- flat storage: storage key (full path from the root) -> node; newest binding first, a key is
bound at most once (`put` removes the old binding). -/
abbrev Store := List (Path × LNode)

def sget : Store → Path → Option LNode
  | [], _ => none
  | (k, v) :: rest, key => if k = key then some v else sget rest key

def sdel (s : Store) (key : Path) : Store := s.filter (fun e => e.1 != key)
def sput (s : Store) (key : Path) (n : LNode) : Store := (key, n) :: sdel s key

structure Trie where
  height : Nat
  kind : HashKind
  store : Store
  rootKey : Option Path
  dirty : List Path       -- `dirtyNodes`, in append order
deriving Repr

def Trie.empty (height : Nat) (kind : HashKind) : Trie := ⟨height, kind, [], none, []⟩

/-- `path(key, parentKey)`: the part of `key` below the parent and its branch bit. -/
def relPath (key : Path) (parent : Option Path) : Path :=
  match parent with
  | none => key
  | some p => key.drop (p.length + 1)

/-- `Node.Hash(path, hashFn)`. -/
def nodeHash (k : HashKind) (n : LNode) (path : Path) : HTerm :=
  if path.isEmpty then n.value else .add (.h k n.value (.felt (pathNat path))) path.length

/-- `EqualMSBs`: the shorter one is a prefix of the longer one. -/
def equalMSBs (a b : Path) : Bool :=
  if a.length ≤ b.length then a.isPrefixOf b else b.isPrefixOf a

/-- `nodesFromRoot(key)`: the nodes met walking from the root towards `key`; `none` = a node
referenced by a link is missing from storage. `fuel` bounds the walk (paths get strictly longer). -/
def nodesFromRoot (t : Trie) (key : Path) : Nat → Option Path → List (Path × LNode) → Option (List (Path × LNode))
  | 0, _, _ => none
  | _, none, acc => some acc
  | fuel + 1, some cur, acc =>
    if !acc.isEmpty && cur.length == 0 then some acc else
    match sget t.store cur with
    | none => none
    | some node =>
      let acc := acc ++ [(cur, node)]
      if cur.length ≥ key.length || !equalMSBs key cur then some acc
      else nodesFromRoot t key fuel (if key.getD cur.length false then node.right else node.left) acc

def setRootKey (t : Trie) (k : Option Path) : Trie := { t with rootKey := k }

/-- `deleteLast(nodes)`. -/
def deleteLast (t : Trie) (nodes : List (Path × LNode)) : Option Trie :=
  match nodes.reverse with
  | [] => none
  | last :: revRest =>
    let t := { t with store := sdel t.store last.1 }
    match revRest with
    | [] => some (setRootKey t none)                       -- deleted node was root
    | parent :: revRest2 =>
      let t := { t with store := sdel t.store parent.1 }
      let siblingKey? := if parent.2.left = some last.1 then parent.2.right else parent.2.left
      match siblingKey? with
      | none => none
      | some siblingKey =>
        match revRest2 with
        | [] => some (setRootKey t (some siblingKey))     -- sibling becomes root
        | grand :: _ =>
          let g := if grand.2.left = some parent.1 then { grand.2 with left := some siblingKey }
                   else { grand.2 with right := some siblingKey }
          some { t with store := sput t.store grand.1 g, dirty := t.dirty ++ [siblingKey] }

/-- `insertOrUpdateValue(nodeKey, node, nodes, sibling, false)`. -/
def insertOrUpdateValue (t : Trie) (nodeKey : Path) (node : LNode) (nodes : List (Path × LNode))
    (sibling : Path × LNode) : Trie :=
  let commonKey := cpre nodeKey sibling.1
  let nodeRight := nodeKey.getD commonKey.length false
  let leftKey := if nodeRight then sibling.1 else nodeKey
  let rightKey := if nodeRight then nodeKey else sibling.1
  let leftChild := if nodeRight then sibling.2 else node
  let rightChild := if nodeRight then node else sibling.2
  let lh := nodeHash t.kind leftChild (relPath leftKey (some commonKey))
  let rh := nodeHash t.kind rightChild (relPath rightKey (some commonKey))
  let newParent : LNode := ⟨.h t.kind lh rh, some leftKey, some rightKey⟩
  let t := { t with store := sput t.store commonKey newParent }
  let t :=
    match nodes.reverse with
    | _ :: siblingParent :: _ =>
      let sp := if siblingParent.2.left = some sibling.1 then { siblingParent.2 with left := some commonKey }
                else { siblingParent.2 with right := some commonKey }
      { t with store := sput t.store siblingParent.1 sp, dirty := t.dirty ++ [commonKey] }
    | _ => setRootKey t (some commonKey)
  { t with store := sput t.store nodeKey node }

/-- `Trie.Put(key, value)` for a key of the trie's height; `none` = the Go code returns an error. -/
def put (t : Trie) (nodeKey : Path) (value : HTerm) : Option Trie :=
  let node : LNode := ⟨value, none, none⟩
  -- updateLeaf: overwrite of an existing leaf with a non-zero value
  if value != .felt 0 && (sget t.store nodeKey).isSome then
    some { t with store := sput t.store nodeKey node, dirty := t.dirty ++ [nodeKey] }
  else
    match nodesFromRoot t nodeKey (t.height + 2) t.rootKey [] with
    | none => none
    | some [] =>
      -- handleEmptyTrie
      if value == .felt 0 then some t
      else some (setRootKey { t with store := sput t.store nodeKey node } (some nodeKey))
    | some nodes =>
      match nodes.getLast? with
      | none => none
      | some sibling =>
        if nodeKey = sibling.1 then deleteLast t nodes          -- deleteExistingKey
        else if value == .felt 0 then some t                    -- zero to a key that does not exist
        else some (insertOrUpdateValue t nodeKey node nodes sibling)

/-- `updateValueIfDirty(key)`: returns the (possibly recomputed) node and the storage. -/
def updateValueIfDirty (height : Nat) (kind : HashKind) (dirty : List Path) :
    Nat → Store → Path → Option (LNode × Store)
  | 0, _, _ => none
  | fuel + 1, store, key =>
    match sget store key with
    | none => none
    | some node =>
      if key.length == height then some (node, store)
      else
        let shouldUpdate := dirty.any (fun d => key.length < d.length && equalMSBs key d)
        if !shouldUpdate then some (node, store)
        else
          match node.left, node.right with
          | some l, some r =>
            match updateValueIfDirty height kind dirty fuel store l with
            | none => none
            | some (lc, store) =>
              match updateValueIfDirty height kind dirty fuel store r with
              | none => none
              | some (rc, store) =>
                let v := HTerm.h kind (nodeHash kind lc (relPath l (some key))) (nodeHash kind rc (relPath r (some key)))
                let node := { node with value := v }
                some (node, sput store key node)
          | _, _ => none

/-- `Trie.Hash()`: rehash what the dirty list says, clear it, return the root hash. -/
def hash (t : Trie) : Option (HTerm × Trie) :=
  match t.rootKey with
  | none => some (.felt 0, t)
  | some rk =>
    match updateValueIfDirty t.height t.kind t.dirty (t.height + 2) t.store rk with
    | none => none
    | some (root, store) =>
      some (nodeHash t.kind root (relPath rk none), { t with store := store, dirty := [] })

/-- Reopening (`NewTriePedersen(txn, prefix, height)` on the same storage): the dirty list is lost. -/
def reopen (t : Trie) : Trie := { t with dirty := [] }

/-- Run an operation sequence (`Op.hash` = `Hash()`) from the empty trie and return the final root
hash; `none` = some call returned an error. -/
def stepOp (t : Trie) : Op → Option Trie
  | .put key v => put t key v
  | .hash => (hash t).map (·.2)

def runOps (height : Nat) (kind : HashKind) (ops : List Op) : Option HTerm :=
  (ops.foldlM stepOp (Trie.empty height kind)).bind (fun t => (hash t).map (·.1))

end Legacy
end Juno.C01
