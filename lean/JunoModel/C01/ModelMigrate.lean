import JunoModel.C01.ModelState
/-!
C01 — model, part 9 (round 5): the contract RECORD of `core/state` with its cached storage root, the storage
tries as a store of their own, and the head-state migration that writes records WITHOUT a root. Core Lean only.

`ModelState.lean` keeps the storage trie inside the contract record. The code does not: the record
(`stateContract`, bucket `Contract`, `core/state/contract.go`) holds `Nonce`, `ClassHash`, `DeployedHeight` and
`StorageRoot` — a felt, a CACHE of the root of the storage trie — and the trie itself lives in the node database
under the contract's address (bucket `ContractTrieStorage`, opened by owner: `stateObject.getStorageTrie` →
`StateDB.ContractStorageTrie(stateRoot, addr)`). Nothing ties the two stores together except that
`stateObject.commit` always opens the storage trie, applies the dirty slots, commits it and writes the root it
gets back into the record before `stateContract.commitment()` hashes the record's fields into the contract-trie
leaf.

That discipline is what makes a database produced by an UPGRADE work: `migration/state/headstate` turns the
per-field layout of `core/deprecatedstate` (buckets `ContractClassHash`, `ContractNonce`,
`ContractDeploymentHeight`) into `Contract` records through `state.WriteContract`, which leaves `StorageRoot` zero
("the running node lazily backfills it"). On such a database the cached root of a contract WITH storage is stale
(zero) until the contract is touched by a block.

Here:
* `RecM.sroot` is that cached field; it is an explicit component that may hold ANY value (stale);
* `StM.nodes` is the storage-trie store, by owner;
* `update` transcribes `State.Update / commit / flush` over the two stores (`stateObject.commit` recomputes
  `sroot` from the trie for every touched object; `commitment()` reads the record);
* `migrateRecs` / `upgrade` transcribe the head-state migrator (`ingestAddress`: skip an address that already
  has a `Contract` record, class hash from `ContractClassHash`, nonce from `ContractNonce`, root left zero).
`DeployedHeight` does not feed any commitment and is left out.
-/
namespace Juno.C01
namespace StateM
open State

/-- `stateContract`: the on-disk record. `sroot` = the `StorageRoot` field AS STORED: a cache that may be stale. -/
structure RecM where
  cls : HTerm
  nonce : HTerm
  sroot : HTerm
deriving DecidableEq

/-- `stateObject`: record being modified, `dirtyStorage`, and `storageTrie`. (The Go code opens the storage trie
in `commit()`; the model opens it when the object is created — the database is not written before `flush`, so
the two read the same nodes.) -/
structure ObjM where
  crec : RecM
  dirty : List (Path × HTerm)
  trie : Node

structure StM where
  recs : AList RecM          -- bucket `Contract` (newest binding first)
  nodes : Path → Node        -- bucket `ContractTrieStorage`: committed storage trie per owner (`.nil` = no nodes)
  ctrie : Node               -- contract trie
  cltrie : Node              -- class trie

def StM.empty : StM := ⟨[], fun _ => .nil, .nil, .nil⟩

/-- `getStateObject` (+ `getStorageTrie`): the object touched in this update, else the record on disk with the
storage trie stored under its address. -/
def getObj (s : StM) (objs : AList ObjM) (addr : Path) : Option ObjM :=
  match alookup objs addr with
  | some o => some o
  | none => (alookup s.recs addr).map (fun r => ⟨r, [], s.nodes addr⟩)

/-- `Update`, deployed contracts: `HasContract(disk)` → `ErrContractAlreadyDeployed`; `newContractDeployed`
(nonce 0, root 0). The storage trie opened for the new object is whatever the node database holds under the
address. -/
def deployAll (s : StM) : List (Path × HTerm) → AList ObjM → Option (AList ObjM)
  | [], objs => some objs
  | (addr, cls) :: rest, objs =>
    match alookup s.recs addr with
    | some _ => none
    | none => deployAll s rest ((addr, ⟨⟨cls, .felt 0, .felt 0⟩, [], s.nodes addr⟩) :: objs)

def replaceAll (s : StM) : List (Path × HTerm) → AList ObjM → Option (AList ObjM)
  | [], objs => some objs
  | (addr, cls) :: rest, objs =>
    match getObj s objs addr with
    | none => none
    | some o => replaceAll s rest ((addr, { o with crec := { o.crec with cls := cls } }) :: objs)

def nonceAll (s : StM) : List (Path × HTerm) → AList ObjM → Option (AList ObjM)
  | [], objs => some objs
  | (addr, n) :: rest, objs =>
    match getObj s objs addr with
    | none => none
    | some o => nonceAll s rest ((addr, { o with crec := { o.crec with nonce := n } }) :: objs)

def storageAll (s : StM) : List (Path × List (Path × HTerm)) → AList ObjM → Option (AList ObjM)
  | [], objs => some objs
  | (addr, kvs) :: rest, objs =>
    match getObj s objs addr with
    | some o => storageAll s rest ((addr, { o with dirty := kvs }) :: objs)
    | none =>
      if isSystem addr then storageAll s rest ((addr, ⟨⟨.felt 0, .felt 0, .felt 0⟩, kvs, s.nodes addr⟩) :: objs)
      else none

/-- the Go map `stateObjects`: distinct touched addresses, each with its final object -/
def touched (objs : AList ObjM) : AList ObjM :=
  objs.foldr (fun (e : Path × ObjM) acc => if (alookup acc e.1).isSome then acc else e :: acc) []
    |>.map (fun e => (e.1, (alookup objs e.1).getD e.2))

/-- `stateObject.commit`: the dirty slots into the storage trie, `Commit()`, and
`s.contract.StorageRoot = root` — whatever the record held before. Returns the record, the committed trie
(the node set that `flush` writes) and the root. -/
def commitObj (o : ObjM) : RecM × Node × HTerm :=
  let tr := o.dirty.foldl (fun t (kv : Path × HTerm) => Trie2.update t kv.1 kv.2) o.trie
  let r := Trie2.hashRoot .pedersen tr
  ({ o.crec with sroot := r.1 }, r.2, r.1)

/-- `stateContract.commitment()`: the leaf is computed from the RECORD's fields. -/
def recLeaf (r : RecM) : HTerm := contractLeaf r.cls r.sroot r.nonce

/-- `State.commit` + `flush` for the touched objects: storage tries, contract-trie leaves, records; a system
contract whose storage root (`getStorageRoot`: the trie is loaded, so its hash) is zero loses leaf, record and
storage nodes (`DeleteContract`, `DeleteStorageNodesByPath`). -/
def commitObjs (purgeEmptySystem : Bool) : AList ObjM → StM → StM
  | [], s => s
  | (addr, o) :: rest, s =>
    let (rec, tr, root) := commitObj o
    if purgeEmptySystem && isSystem addr && root == .felt 0 then
      commitObjs purgeEmptySystem rest
        { s with ctrie := Trie2.update (Trie2.update s.ctrie addr (recLeaf rec)) addr (.felt 0),
                 recs := s.recs.filter (fun e => e.1 != addr),
                 nodes := setAt s.nodes addr .nil }
    else
      commitObjs purgeEmptySystem rest
        { s with ctrie := Trie2.update s.ctrie addr (recLeaf rec),
                 recs := (addr, rec) :: s.recs,
                 nodes := setAt s.nodes addr tr }

/-- `State.Update` (skipVerifyNewRoot): `none` = the update is rejected. -/
def update (purgeEmptySystem : Bool) (s : StM) (d : Diff) : Option StM := do
  let cl := (d.declared ++ d.migrated).foldl
    (fun t (e : Path × HTerm) => Trie2.update t e.1 (classLeaf e.2)) s.cltrie
  let objs ← deployAll s d.deployed []
  let objs ← replaceAll s d.replaced objs
  let objs ← nonceAll s d.nonces objs
  let objs ← storageAll s d.storage objs
  pure (commitObjs purgeEmptySystem (touched objs) { s with cltrie := cl })

def run (purgeEmptySystem : Bool) : List Diff → StM → Option StM
  | [], s => some s
  | d :: rest, s => (update purgeEmptySystem s d).bind (run purgeEmptySystem rest)

/-- `State.Commitment(protocolVersion)` -/
def commitment (pre014 : Bool) (s : StM) : HTerm :=
  stateCommitment pre014 (Trie2.hashRoot .pedersen s.ctrie).1 (Trie2.hashRoot .poseidon s.cltrie).1

/-! ## The head-state migration (`migration/state/headstate`) -/

/-- `state.WriteContract(w, addr, nonce, classHash, deployHeight)`: a record WITHOUT a storage root. -/
def writeContract (cls nonce : HTerm) : RecM := ⟨cls, nonce, .felt 0⟩

/-- `Migrator.Migrate` over the addresses of the `ContractClassHash` bucket (`legacy` = the per-field layout as
an association list: address ↦ class hash, nonce; the storage component of `Rec` is the LEGACY trie and is not
used). `ingestAddress`: an address that already has a `Contract` record is skipped (`state.HasContract`), else
`WriteContract(class hash, nonce, height)` with the values the buckets hold for the address (`full`: the
newest binding wins). -/
def migrateGo (full : AList Rec) : AList Rec → AList RecM → AList RecM
  | [], recs => recs
  | (addr, r) :: rest, recs =>
    let acc := migrateGo full rest recs
    if (alookup acc addr).isSome then acc
    else
      let live := (alookup full addr).getD r
      (addr, writeContract live.cls live.nonce) :: acc

def migrateRecs (legacy : AList Rec) (recs : AList RecM) : AList RecM := migrateGo legacy legacy recs

/-- The database after the upgrade of a node from the deprecated state to the new one: the `Contract` bucket is
written by the migrator from the legacy fields (it was empty: a legacy database has no `Contract` records), the
trie2 buckets (`nodes`, contract trie, class trie) hold the tries of the same state. -/
def upgrade (legacy : St) (native : StM) : StM :=
  { native with recs := migrateRecs legacy.recs [] }

/-- The same migrator reading the two per-field buckets as they are (`ContractClassHash`, `ContractNonce` as
association lists, newest binding first; this is what the TRANSCRIBED legacy state of `ModelLegacyState.lean`
holds): one record per address of the class-hash bucket; a missing nonce entry reads as zero (`ingestAddress`:
`db.ErrKeyNotFound` → `felt.Zero`). -/
def migrateFieldsGo (cls nonce : AList HTerm) : AList HTerm → AList RecM → AList RecM
  | [], recs => recs
  | (addr, c) :: rest, recs =>
    let acc := migrateFieldsGo cls nonce rest recs
    if (alookup acc addr).isSome then acc
    else (addr, writeContract ((alookup cls addr).getD c) ((alookup nonce addr).getD (.felt 0))) :: acc

def upgradeF (cls nonce : AList HTerm) (native : StM) : StM :=
  { native with recs := migrateFieldsGo cls nonce cls [] }

/-- the records as the driver prints them: live bindings only, one per address -/
def liveRecs (recs : AList RecM) : AList RecM :=
  recs.foldr (fun (e : Path × RecM) acc => if (alookup acc e.1).isSome then acc else e :: acc) []
    |>.map (fun e => (e.1, (alookup recs e.1).getD e.2))

end StateM
end Juno.C01
