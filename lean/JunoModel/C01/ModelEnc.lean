import JunoModel.C01.Model
/-!
Byte level of what the trie2-based backend persists (round 6): the contract record
(`core/state/contract.go` `MarshalBinary / marshalFull / marshalEmptyRoot / UnmarshalBinary`,
`accessors.go` `WriteContract`), the trie2 node blobs (`core/trie2/trienode/node_enc.go`
`EncodeNode / DecodeNode / decodeBinaryNode / decodeEdgeNode`) and the path encoding they embed
(`core/trie2/trieutils/bitarray.go` `Write / EncodedBytes / UnmarshalBinary / activeBytes`, also the
suffix of every node key). Bytes are `Nat`s below 256, felts are `Nat`s (`felt.Marshal` = 32 bytes big
endian of the canonical value, `felt.SetBytes` = big-endian value reduced modulo the field prime).
Core Lean only.
-/
namespace Juno.C01.Enc

/-- the Stark field prime: `felt.SetBytes` reduces modulo it -/
def P : Nat := 2 ^ 251 + 17 * 2 ^ 192 + 1

/-- `k` bytes, big endian (`felt.Marshal`, `binary.BigEndian.PutUint64`, `BitArray.Bytes`) -/
def beBytes : Nat → Nat → List Nat
  | 0, _ => []
  | k + 1, n => beBytes k (n / 256) ++ [n % 256]

/-- big-endian value of a byte string -/
def beVal (bs : List Nat) : Nat := bs.foldl (fun acc b => acc * 256 + b) 0

/-- `felt.SetBytes` -/
def feltOfBytes (bs : List Nat) : Nat := beVal bs % P

/-! ### the contract record -/

/-- `stateContract` -/
structure Rec where
  nonce : Nat
  cls : Nat
  sroot : Nat
  height : Nat
deriving DecidableEq, Repr

/-- `stateContract.MarshalBinary`: a zero storage root is NOT written (`marshalEmptyRoot`, 72 bytes), any other
root is (`marshalFull`, 104 bytes) -/
def encodeRec (r : Rec) : List Nat :=
  if r.sroot = 0 then beBytes 32 r.nonce ++ (beBytes 32 r.cls ++ beBytes 8 r.height)
  else beBytes 32 r.nonce ++ (beBytes 32 r.cls ++ (beBytes 32 r.sroot ++ beBytes 8 r.height))

/-- `state.WriteContract` (its one caller is the head-state migration): a record without storage root -/
def writeContractRec (nonce cls height : Nat) : List Nat := encodeRec ⟨nonce, cls, 0, height⟩

/-- `stateContract.UnmarshalBinary`: the length selects the form; any other length is an error -/
def decodeRec (bs : List Nat) : Option Rec :=
  let r1 := bs.drop 32
  let r2 := r1.drop 32
  if bs.length = 104 then
    some ⟨feltOfBytes (bs.take 32), feltOfBytes (r1.take 32), feltOfBytes (r2.take 32), beVal (r2.drop 32)⟩
  else if bs.length = 72 then
    some ⟨feltOfBytes (bs.take 32), feltOfBytes (r1.take 32), 0, beVal r2⟩
  else none

/-! ### paths -/

/-- value of a path read as a big-endian bit string (`BitArray.words`) -/
def pathVal : Path → Nat
  | [] => 0
  | b :: p => (if b then 2 ^ p.length else 0) + pathVal p

/-- the `n` low bits of `v`, most significant first -/
def bitsOf : Nat → Nat → Path
  | 0, _ => []
  | n + 1, v => (v / 2 ^ n % 2 == 1) :: bitsOf n (v % 2 ^ n)

/-- `BitArray.Write` / `EncodedBytes`: the `activeBytes() = ceil(len / 8)` low bytes of the 32-byte big-endian
image, then the length byte -/
def encodePath (p : Path) : List Nat := beBytes ((p.length + 7) / 8) (pathVal p) ++ [p.length]

/-- `BitArray.UnmarshalBinary`, as it is: the last byte is the length; more than `ceil(len/8)` value bytes are an
error, fewer are accepted (left-padded); answers (length, value of the words). The Go code does not check that the
value fits into `len` bits. -/
def decodePathRaw (bs : List Nat) : Option (Nat × Nat) :=
  match bs.getLast? with
  | none => none
  | some len => if bs.length > (len + 7) / 8 + 1 then none else some (len, beVal bs.dropLast)

/-- ... as a bit list: defined when the value fits into the length (always, for what `encodePath` wrote:
`decodePath_encodePath`) -/
def decodePath (bs : List Nat) : Option Path :=
  match decodePathRaw bs with
  | none => none
  | some (len, v) => if v < 2 ^ len then some (bitsOf len v) else none

/-! ### trie2 node blobs -/

/-- a persisted node: a leaf value, a binary node (two child hashes / values), an edge (child hash / value + path) -/
inductive BlobN where
  | leaf (v : Nat)
  | bin (l r : Nat)
  | edge (child : Nat) (p : Path)
deriving DecidableEq, Repr

/-- `EncodeNode`: value / hash nodes are the bare 32 bytes, inner nodes start with their type byte
(`binaryNodeType = 1`, `edgeNodeType = 2`) -/
def encodeBlob : BlobN → List Nat
  | .leaf v => beBytes 32 v
  | .bin l r => 1 :: (beBytes 32 l ++ beBytes 32 r)
  | .edge c p => 2 :: (beBytes 32 c ++ encodePath p)

inductive DecErr where
  | empty | pathLen | binSize | binTail | edgeSize | badPath | childType | unknownType
deriving DecidableEq, Repr

/-- `DecodeNode(blob, hash, pathLen, maxPathLen)`. A blob of exactly 32 bytes is a value node (at full depth) or a
hash node (above) — decided by the length ALONE, before the type byte is looked at. `binTail`: a binary blob
with more than 64 payload bytes (the Go code would decode the tail as a nested node; never written). `unknownType` and
`childType` (an edge with an empty path stored at full depth) are panics in the Go code. -/
def decodeBlob (bs : List Nat) (pathLen maxLen : Nat) : Except DecErr BlobN :=
  match bs with
  | [] => .error .empty
  | t :: rest =>
    if pathLen > maxLen then .error .pathLen
    else if bs.length = 32 then .ok (.leaf (feltOfBytes bs))
    else if t = 1 then
      if rest.length < 64 then .error .binSize
      else if pathLen + 1 > maxLen then .error .pathLen
      else if rest.length ≠ 64 then .error .binTail
      else .ok (.bin (feltOfBytes (rest.take 32)) (feltOfBytes (rest.drop 32)))
    else if t = 2 then
      if rest.length > 65 ∨ rest.length < 32 then .error .edgeSize
      else match decodePath (rest.drop 32) with
        | none => .error .badPath
        | some p =>
          -- the child was decoded at `pathLen`: a VALUE node iff `pathLen = maxLen`; the conversion of an edge that
          -- reaches full depth (`pathLen + len == maxLen`, uint8) asserts it is a HASH node: panic
          if pathLen = maxLen ∧ p.length = 0 then .error .childType
          else .ok (.edge (feltOfBytes (rest.take 32)) p)
    else .error .unknownType

/-- what the encoder is ever given: canonical felts, a path that fits into the `uint8` length -/
def BlobN.WF : BlobN → Prop
  | .leaf v => v < P
  | .bin l r => l < P ∧ r < P
  | .edge c p => c < P ∧ p.length ≤ 251

/-! ### trie2 database keys -/

/-- `trieutils.nodeKeyByPath(bucket, owner, path, isLeaf)`: bucket byte, the owner's 32 bytes unless the owner is
zero (class trie, contract trie), the node type (`nonLeaf = 1`, `leaf = 2`), the encoded path -/
def nodeKey (bucket owner : Nat) (isLeaf : Bool) (p : Path) : List Nat :=
  bucket :: ((if owner = 0 then [] else beBytes 32 owner) ++ ((if isLeaf then 2 else 1) :: encodePath p))

/-- `trieutils.DeleteStorageNodesByPath(owner)` (purge of a system contract, revert of a deployment) deletes the key
range `[prefix, UpperBound(prefix))` = every key that starts with `bucket ++ owner.Marshal()` -/
def storagePrefix (bucket owner : Nat) : List Nat := bucket :: beBytes 32 owner

/-! ### the legacy trie (`core/trie`): node and key bytes

`core/trie/bitarray.go` writes a path LENGTH FIRST (`Write`: length byte, then the `ceil(len/8)` active bytes);
`core/trie/node.go` `WriteTo`: value (32), then — for an inner node — both child keys, then — for a proof node —
both child hashes; `core/trie/storage.go`: a node lives under `prefix ++ encodePathL key`, the root key under
`prefix` itself. -/

/-- `BitArray.Write` of core/trie -/
def encodePathL (p : Path) : List Nat := p.length :: beBytes ((p.length + 7) / 8) (pathVal p)

/-- `BitArray.UnmarshalBinary` of core/trie: length byte, then `ceil(len/8)` bytes (fewer is an error, further bytes
are ignored); answers (length, value of the words, number of bytes consumed = `EncodedLen`) -/
def decodePathLRaw (bs : List Nat) : Option (Nat × Nat × Nat) :=
  match bs with
  | [] => none
  | len :: rest =>
    let bc := (len + 7) / 8
    if rest.length < bc then none else some (len, beVal (rest.take bc), bc + 1)

def decodePathL (bs : List Nat) : Option (Path × List Nat) :=
  match decodePathLRaw bs with
  | none => none
  | some (len, v, used) => if v < 2 ^ len then some (bitsOf len v, bs.drop used) else none

/-- `trie.Node` as persisted -/
structure LNodeB where
  value : Nat
  kids : Option (Path × Path)
  hashes : Option (Nat × Nat)
deriving DecidableEq, Repr

/-- `Node.WriteTo` (a nil `Value`, or exactly one of the two hashes, is an error there: not representable here) -/
def encodeLNode (n : LNodeB) : List Nat :=
  beBytes 32 n.value ++
    ((match n.kids with
      | none => []
      | some (l, r) => encodePathL l ++ encodePathL r) ++
     (match n.hashes with
      | none => []
      | some (lh, rh) => beBytes 32 lh ++ beBytes 32 rh))

inductive LDecErr where
  | short | badLeft | badRight | hashSize
deriving DecidableEq, Repr

/-- `Node.UnmarshalBinary` (on a fresh `Node`; the Go code reuses pooled nodes — the fields it does not reset, the
child hashes of a node stored without them, are read by the proof code only) -/
def decodeLNode (bs : List Nat) : Except LDecErr LNodeB :=
  if bs.length < 32 then .error .short
  else
    let v := feltOfBytes (bs.take 32)
    let rest := bs.drop 32
    if rest = [] then .ok ⟨v, none, none⟩
    else match decodePathL rest with
      | none => .error .badLeft
      | some (l, rest1) =>
        match decodePathL rest1 with
        | none => .error .badRight
        | some (r, rest2) =>
          if rest2 = [] then .ok ⟨v, some (l, r), none⟩
          else if rest2.length ≠ 64 then .error .hashSize
          else .ok ⟨v, some (l, r), some (feltOfBytes (rest2.take 32), feltOfBytes (rest2.drop 32))⟩

/-- what `WriteTo` is given by the trie code: hashes only on inner nodes -/
def LNodeB.WF (n : LNodeB) : Prop :=
  n.value < P ∧
  (match n.kids with
   | none => n.hashes = none
   | some (l, r) => l.length ≤ 251 ∧ r.length ≤ 251) ∧
  (match n.hashes with
   | none => True
   | some (lh, rh) => lh < P ∧ rh < P)

end Juno.C01.Enc
