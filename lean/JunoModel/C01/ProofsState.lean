import JunoModel.C01.ProofsSpec
import JunoModel.C01.ModelState
/-!
Helper lemmas for C01, part 4: the state commitment computed by `State.update` / `commitment` is
the protocol formula over the contract records the node holds and the declared classes.
-/
namespace Juno.C01
namespace State
open Trie2

/-- The leaf map of a set of contract records as juno computes it. -/
def leafOfRecs (recs : AList Rec) (addr : Path) : HTerm :=
  match alookup recs addr with
  | none => .felt 0
  | some r => contractLeaf r.cls (Spec.root .pedersen 251 (Trie2.get r.storage)) r.nonce

/-- The leaf map of a set of contract records as the protocol defines it. -/
def protocolLeafOfRecs (recs : AList Rec) (addr : Path) : HTerm :=
  match alookup recs addr with
  | none => .felt 0
  | some r => protocolLeaf r.cls (Spec.root .pedersen 251 (Trie2.get r.storage)) r.nonce

def GoodTrie (k : HashKind) (t : Node) : Prop := WFRoot t 251 ∧ CacheOK k t

/-- The input space: all keys are 251-bit paths; class hashes of deployed / replaced contracts are
non-zero; system contracts (0x1, 0x2) only receive storage writes — never a class or a nonce (they have no
Cairo class; no deployment can produce their address); the components of a diff are Go maps, so the
addresses of `deployed` and of `storage` are pairwise distinct (for the other components last-write-wins
makes duplicates harmless). -/
structure ValidDiff (d : Diff) : Prop where
  declared : ∀ e ∈ d.declared ++ d.migrated, e.1.length = 251
  deployed : ∀ e ∈ d.deployed, e.1.length = 251 ∧ e.2 ≠ .felt 0 ∧ isSystem e.1 = false
  replaced : ∀ e ∈ d.replaced, e.1.length = 251 ∧ e.2 ≠ .felt 0 ∧ isSystem e.1 = false
  nonces : ∀ e ∈ d.nonces, e.1.length = 251 ∧ isSystem e.1 = false
  storage : ∀ e ∈ d.storage, e.1.length = 251 ∧ ∀ kv ∈ e.2, kv.1.length = 251
  deployedNodup : (d.deployed.map (·.1)).Nodup
  storageNodup : (d.storage.map (·.1)).Nodup

/-- A record is never the protocol's "empty contract state". -/
def NonEmptyRec (r : Rec) : Prop :=
  r.cls ≠ .felt 0 ∨ Spec.root .pedersen 251 (Trie2.get r.storage) ≠ .felt 0

structure SWF (s : St) : Prop where
  recs : ∀ addr r, alookup s.recs addr = some r → GoodTrie .pedersen r.storage
  ctrie : Inv .pedersen 251 s.ctrie (leafOfRecs s.recs)
  cltrie : GoodTrie .poseidon s.cltrie

/-- objects being updated: good storage tries, addresses of the right length -/
def GoodObjs (objs : AList Obj) : Prop :=
  ∀ e ∈ objs, e.1.length = 251 ∧ GoodTrie .pedersen e.2.crec.storage ∧
    ∀ kv ∈ e.2.dirty, kv.1.length = 251

theorem alookup_mem {α : Type} {l : AList α} {k : Path} {v : α} (h : alookup l k = some v) :
    (k, v) ∈ l := by
  induction l with
  | nil => simp [alookup] at h
  | cons e rest ih =>
    obtain ⟨k', v'⟩ := e
    simp only [alookup] at h
    by_cases e : k' = k
    · simp [e] at h; subst h; subst e; simp
    · simp [e] at h; exact List.mem_cons_of_mem _ (ih h)

theorem getObj_good {s : St} {objs : AList Obj} {addr : Path} {o : Obj} (hs : SWF s)
    (ho : GoodObjs objs) (h : getObj s objs addr = some o) :
    GoodTrie .pedersen o.crec.storage ∧ ∀ kv ∈ o.dirty, kv.1.length = 251 := by
  unfold getObj at h
  cases h1 : alookup objs addr with
  | some o' =>
    simp [h1] at h; subst h
    have := ho _ (alookup_mem h1)
    exact ⟨this.2.1, this.2.2⟩
  | none =>
    simp only [h1] at h
    cases h2 : alookup s.recs addr with
    | none => simp [h2] at h
    | some r =>
      simp [h2] at h; subst h
      exact ⟨hs.recs _ _ h2, by simp⟩

theorem goodTrie_nil (k : HashKind) : GoodTrie k .nil := ⟨Or.inl rfl, by simp [CacheOK]⟩

theorem deployAll_good {s : St} (l : List (Path × HTerm)) (hl : ∀ e ∈ l, e.1.length = 251) :
    ∀ objs objs', GoodObjs objs → deployAll s l objs = some objs' → GoodObjs objs' := by
  induction l with
  | nil => intro objs objs' ho h; simp [deployAll] at h; subst h; exact ho
  | cons e rest ih =>
    intro objs objs' ho h
    obtain ⟨addr, cls⟩ := e
    simp only [deployAll] at h
    cases h1 : alookup s.recs addr with
    | some _ => simp [h1] at h
    | none =>
      simp only [h1] at h
      refine ih (fun e he => hl e (List.mem_cons_of_mem _ he)) _ _ ?_ h
      intro e he
      cases he with
      | head => exact ⟨hl _ (List.mem_cons_self ..), goodTrie_nil _, by simp⟩
      | tail _ he => exact ho e he

theorem replaceAll_good {s : St} (hs : SWF s) (l : List (Path × HTerm))
    (hl : ∀ e ∈ l, e.1.length = 251) :
    ∀ objs objs', GoodObjs objs → replaceAll s l objs = some objs' → GoodObjs objs' := by
  induction l with
  | nil => intro objs objs' ho h; simp [replaceAll] at h; subst h; exact ho
  | cons e rest ih =>
    intro objs objs' ho h
    obtain ⟨addr, cls⟩ := e
    simp only [replaceAll] at h
    cases h1 : getObj s objs addr with
    | none => simp [h1] at h
    | some o =>
      simp only [h1] at h
      refine ih (fun e he => hl e (List.mem_cons_of_mem _ he)) _ _ ?_ h
      intro e he
      cases he with
      | head => exact ⟨hl _ (List.mem_cons_self ..), (getObj_good hs ho h1).1, (getObj_good hs ho h1).2⟩
      | tail _ he => exact ho e he

theorem nonceAll_good {s : St} (hs : SWF s) (l : List (Path × HTerm))
    (hl : ∀ e ∈ l, e.1.length = 251) :
    ∀ objs objs', GoodObjs objs → nonceAll s l objs = some objs' → GoodObjs objs' := by
  induction l with
  | nil => intro objs objs' ho h; simp [nonceAll] at h; subst h; exact ho
  | cons e rest ih =>
    intro objs objs' ho h
    obtain ⟨addr, cls⟩ := e
    simp only [nonceAll] at h
    cases h1 : getObj s objs addr with
    | none => simp [h1] at h
    | some o =>
      simp only [h1] at h
      refine ih (fun e he => hl e (List.mem_cons_of_mem _ he)) _ _ ?_ h
      intro e he
      cases he with
      | head => exact ⟨hl _ (List.mem_cons_self ..), (getObj_good hs ho h1).1, (getObj_good hs ho h1).2⟩
      | tail _ he => exact ho e he

theorem storageAll_good {s : St} (hs : SWF s) (l : List (Path × List (Path × HTerm)))
    (hl : ∀ e ∈ l, e.1.length = 251 ∧ ∀ kv ∈ e.2, kv.1.length = 251) :
    ∀ objs objs', GoodObjs objs → storageAll s l objs = some objs' → GoodObjs objs' := by
  induction l with
  | nil => intro objs objs' ho h; simp [storageAll] at h; subst h; exact ho
  | cons e rest ih =>
    intro objs objs' ho h
    obtain ⟨addr, kvs⟩ := e
    have hh := hl _ (List.mem_cons_self ..)
    simp only [storageAll] at h
    cases h1 : getObj s objs addr with
    | some o =>
      simp only [h1] at h
      refine ih (fun e he => hl e (List.mem_cons_of_mem _ he)) _ _ ?_ h
      intro e he
      cases he with
      | head => exact ⟨hh.1, (getObj_good hs ho h1).1, hh.2⟩
      | tail _ he => exact ho e he
    | none =>
      simp only [h1] at h
      by_cases hsys : isSystem addr = true
      · simp only [hsys, if_true] at h
        refine ih (fun e he => hl e (List.mem_cons_of_mem _ he)) _ _ ?_ h
        intro e he
        cases he with
        | head => exact ⟨hh.1, goodTrie_nil _, hh.2⟩
        | tail _ he => exact ho e he
      · simp [hsys] at h

theorem touched_good {objs : AList Obj} (ho : GoodObjs objs) : GoodObjs (touched objs) := by
  have key : ∀ (l : AList Obj), (∀ e ∈ l, e ∈ objs) →
      ∀ e ∈ (l.foldr (fun (e : Path × Obj) acc => if (alookup acc e.1).isSome then acc else e :: acc) []),
        e ∈ objs := by
    intro l
    induction l with
    | nil => intro _ e he; simp at he
    | cons x rest ih =>
      intro hl e he
      simp only [List.foldr_cons] at he
      split at he
      · exact ih (fun e he => hl e (List.mem_cons_of_mem _ he)) e he
      · cases he with
        | head => exact hl _ (List.mem_cons_self ..)
        | tail _ he => exact ih (fun e he => hl e (List.mem_cons_of_mem _ he)) e he
  intro e he
  simp only [touched, List.mem_map] at he
  obtain ⟨x, hx, rfl⟩ := he
  have hxo := key objs (fun e he => he) x hx
  cases h1 : alookup objs x.1 with
  | none => simpa [h1] using ho x hxo
  | some o =>
    have := ho _ (alookup_mem h1)
    simpa [h1] using this

/-- fold of storage writes keeps the storage trie good -/
theorem fold_update_inv {k : HashKind} (kvs : List (Path × HTerm)) (hk : ∀ kv ∈ kvs, kv.1.length = 251) :
    ∀ (t : Node) (m : Path → HTerm), Inv k 251 t m →
      Inv k 251 (kvs.foldl (fun t (kv : Path × HTerm) => Trie2.update t kv.1 kv.2) t)
        (kvs.foldl (fun m (kv : Path × HTerm) => fun p => if p = kv.1 then kv.2 else m p) m) := by
  induction kvs with
  | nil => intro t m h; exact h
  | cons kv rest ih =>
    intro t m h
    simp only [List.foldl_cons]
    exact ih (fun e he => hk e (List.mem_cons_of_mem _ he)) _ _
      (step_inv h (.put kv.1 kv.2) (hk kv (List.mem_cons_self ..)))

theorem inv_of_good {k : HashKind} {t : Node} (h : GoodTrie k t) : Inv k 251 t (Trie2.get t) :=
  ⟨h.1, h.2, fun _ _ => rfl⟩

theorem commitObj_spec (o : Obj) (hg : GoodTrie .pedersen o.crec.storage)
    (hd : ∀ kv ∈ o.dirty, kv.1.length = 251) :
    GoodTrie .pedersen (commitObj o).1.storage ∧
    (commitObj o).2 = Spec.root .pedersen 251 (Trie2.get (commitObj o).1.storage) ∧
    (commitObj o).1.cls = o.crec.cls ∧ (commitObj o).1.nonce = o.crec.nonce := by
  have h1 := fold_update_inv (k := .pedersen) o.dirty hd _ _ (inv_of_good hg)
  have h2 := step_inv h1 .hash trivial
  simp only [Trie2.step, absStep] at h2
  refine ⟨⟨h2.wf, h2.cache⟩, ?_, rfl, rfl⟩
  simp only [commitObj]
  rw [inv_hash h1]
  simp only [Spec.root]
  rw [spec_node_congr _ 251 _ _ (fun p hp => (h2.sem p hp).symm)]

theorem contractLeaf_ne_zero (a b c : HTerm) : contractLeaf a b c ≠ .felt 0 := by
  simp [contractLeaf]

theorem alookup_filter_ne {α : Type} (l : AList α) (addr p : Path) :
    alookup (l.filter (fun e => e.1 != addr)) p = if p = addr then none else alookup l p := by
  induction l with
  | nil => simp [alookup]
  | cons e rest ih =>
    obtain ⟨k, v⟩ := e
    by_cases hk : k = addr
    · subst hk
      simp only [List.filter, bne_self_eq_false, alookup, ih]
      by_cases hp : p = k
      · simp [hp]
      · have : ¬ k = p := fun h => hp h.symm
        simp [hp, this]
    · have : (k != addr) = true := by simpa using hk
      simp only [List.filter, this, alookup, ih]
      by_cases hp : p = addr
      · subst hp; simp [hk]
      · simp [hp]

theorem commitObjs_swf (purge : Bool) (objs : AList Obj) (ho : GoodObjs objs) :
    ∀ s, SWF s → SWF (commitObjs purge objs s) := by
  induction objs with
  | nil => intro s hs; exact hs
  | cons e rest ih =>
    intro s hs
    obtain ⟨addr, o⟩ := e
    have hgo := ho _ (List.mem_cons_self ..)
    obtain ⟨c1, c2, c3, c4⟩ := commitObj_spec o hgo.2.1 hgo.2.2
    simp only [commitObjs]
    have hrest : GoodObjs rest := fun e he => ho e (List.mem_cons_of_mem _ he)
    split
    · -- purged system contract
      apply ih hrest
      refine ⟨?_, ?_, hs.cltrie⟩
      · intro a r hr
        rw [alookup_filter_ne] at hr
        by_cases ha : a = addr
        · simp [ha] at hr
        · simp only [ha, if_false] at hr; exact hs.recs a r hr
      · have s1 := step_inv hs.ctrie (.put addr (contractLeaf (commitObj o).1.cls (commitObj o).2 (commitObj o).1.nonce)) hgo.1
        have s2 := step_inv s1 (.put addr (.felt 0)) hgo.1
        simp only [Trie2.step, absStep] at s2
        refine ⟨s2.wf, s2.cache, ?_⟩
        intro key hk
        rw [s2.sem key hk]
        simp only [leafOfRecs, alookup_filter_ne]
        by_cases hka : key = addr <;> simp [hka]
    · apply ih hrest
      refine ⟨?_, ?_, hs.cltrie⟩
      · intro a r hr
        simp only [alookup] at hr
        by_cases ha : addr = a
        · simp [ha] at hr; subst hr; exact c1
        · simp only [ha, if_false] at hr; exact hs.recs a r hr
      · have s1 := step_inv hs.ctrie (.put addr (contractLeaf (commitObj o).1.cls (commitObj o).2 (commitObj o).1.nonce)) hgo.1
        simp only [Trie2.step, absStep] at s1
        refine ⟨s1.wf, s1.cache, ?_⟩
        intro key hk
        rw [s1.sem key hk]
        simp only [leafOfRecs, alookup]
        by_cases hka : key = addr
        · subst hka; simp [c2]
        · have : ¬ addr = key := fun h => hka h.symm
          simp [hka, this]

theorem swf_empty : SWF St.empty :=
  ⟨by intro a r h; simp [St.empty, alookup] at h,
   ⟨Or.inl rfl, by simp [St.empty, CacheOK], by intro k _; simp [St.empty, Trie2.get, leafOfRecs, alookup]⟩,
   goodTrie_nil _⟩

/-- class-trie writes of one diff, as trie operations -/
def classOpsOf (d : Diff) : List Op := (d.declared ++ d.migrated).map (fun e => .put e.1 (classLeaf e.2))

theorem foldl_class_eq (l : List (Path × HTerm)) (t : Node) :
    l.foldl (fun t (e : Path × HTerm) => Trie2.update t e.1 (classLeaf e.2)) t =
      (l.map (fun e => Op.put e.1 (classLeaf e.2))).foldl (Trie2.step .poseidon) t := by
  induction l generalizing t with
  | nil => rfl
  | cons e rest ih => simp [List.foldl_cons, ih, Trie2.step]

theorem update_swf {purge : Bool} {s s' : St} {d : Diff} (hs : SWF s) (hd : ValidDiff d)
    (m : Path → HTerm) (hm : Inv .poseidon 251 s.cltrie m)
    (h : update purge s d = some s') :
    SWF s' ∧ Inv .poseidon 251 s'.cltrie ((classOpsOf d).foldl absStep m) := by
  simp only [update, bind, Option.bind] at h
  cases h1 : deployAll s d.deployed [] with
  | none => simp [h1] at h
  | some o1 =>
    simp only [h1] at h
    cases h2 : replaceAll s d.replaced o1 with
    | none => simp [h2] at h
    | some o2 =>
      simp only [h2] at h
      cases h3 : nonceAll s d.nonces o2 with
      | none => simp [h3] at h
      | some o3 =>
        simp only [h3] at h
        cases h4 : storageAll s d.storage o3 with
        | none => simp [h4] at h
        | some o4 =>
          simp only [h4, pure, Option.some.injEq] at h
          have g1 := deployAll_good (s := s) d.deployed (fun e he => (hd.deployed e he).1) [] o1
            (by intro e he; simp at he) h1
          have g2 := replaceAll_good hs d.replaced (fun e he => (hd.replaced e he).1) o1 o2 g1 h2
          have g3 := nonceAll_good hs d.nonces (fun e he => (hd.nonces e he).1) o2 o3 g2 h3
          have g4 := storageAll_good hs d.storage hd.storage o3 o4 g3 h4
          have hvalid : ValidOps 251 (classOpsOf d) := by
            intro op hop
            simp only [classOpsOf, List.mem_map] at hop
            obtain ⟨e, he, rfl⟩ := hop
            exact hd.declared e he
          have hcl := foldl_inv (k := .poseidon) (classOpsOf d) hvalid s.cltrie m hm
          have hs0 : SWF ⟨s.recs, s.ctrie, List.foldl
              (fun t (e : Path × HTerm) => Trie2.update t e.1 (classLeaf e.2)) s.cltrie (d.declared ++ d.migrated)⟩ := by
            refine ⟨hs.recs, hs.ctrie, ?_⟩
            show GoodTrie _ (List.foldl _ _ _)
            rw [foldl_class_eq]
            exact ⟨hcl.wf, hcl.cache⟩
          have hfin := commitObjs_swf purge (touched o4) (touched_good g4) _ hs0
          have hclsame : ∀ (objs : AList Obj) (s0 : St), (commitObjs purge objs s0).cltrie = s0.cltrie := by
            intro objs
            induction objs with
            | nil => intro s0; rfl
            | cons e rest ih =>
              intro s0
              simp only [commitObjs]
              split <;> rw [ih]
          subst h
          refine ⟨hfin, ?_⟩
          rw [hclsame, foldl_class_eq]
          exact hcl

theorem run_swf {purge : Bool} (ds : List Diff) (hd : ∀ d ∈ ds, ValidDiff d) :
    ∀ (s s' : St) (m : Path → HTerm), SWF s → Inv .poseidon 251 s.cltrie m → run purge ds s = some s' →
      SWF s' ∧ Inv .poseidon 251 s'.cltrie ((ds.flatMap classOpsOf).foldl absStep m) := by
  induction ds with
  | nil => intro s s' m hs hm h; simp [run] at h; subst h; exact ⟨hs, hm⟩
  | cons d rest ih =>
    intro s s' m hs hm h
    simp only [run] at h
    cases h1 : update purge s d with
    | none => simp [h1] at h
    | some s1 =>
      simp only [h1, Option.bind] at h
      obtain ⟨w1, i1⟩ := update_swf hs (hd d (List.mem_cons_self ..)) m hm h1
      have := ih (fun d hd' => hd d (List.mem_cons_of_mem _ hd')) s1 s' _ w1 i1 h
      simpa [List.flatMap_cons, List.foldl_append] using this

theorem commitment_of_swf {s : St} (hs : SWF s) (m : Path → HTerm) (hm : Inv .poseidon 251 s.cltrie m)
    (pre014 : Bool) :
    commitment pre014 s = stateCommitment pre014 (Spec.root .pedersen 251 (leafOfRecs s.recs))
      (Spec.root .poseidon 251 m) := by
  simp only [commitment]
  rw [inv_hash hs.ctrie, inv_hash hm]

/-! ### with the purge, no record is the protocol's empty contract state -/

def RecOK (addr : Path) (r : Rec) : Prop :=
  r.cls ≠ .felt 0 ∨ (isSystem addr = true ∧ Spec.root .pedersen 251 (Trie2.get r.storage) ≠ .felt 0)

def RecsOK (recs : AList Rec) : Prop := ∀ addr r, alookup recs addr = some r → RecOK addr r

def ObjsOK (objs : AList Obj) : Prop := ∀ e ∈ objs, e.2.crec.cls ≠ .felt 0 ∨ isSystem e.1 = true

theorem getObj_ok {s : St} {objs : AList Obj} {addr : Path} {o : Obj} (hr : RecsOK s.recs)
    (ho : ObjsOK objs) (h : getObj s objs addr = some o) :
    o.crec.cls ≠ .felt 0 ∨ isSystem addr = true := by
  unfold getObj at h
  cases h1 : alookup objs addr with
  | some o' => simp [h1] at h; subst h; exact ho _ (alookup_mem h1)
  | none =>
    simp only [h1] at h
    cases h2 : alookup s.recs addr with
    | none => simp [h2] at h
    | some r =>
      simp [h2] at h; subst h
      cases hr _ _ h2 with
      | inl h => exact Or.inl h
      | inr h => exact Or.inr h.1

theorem deployAll_ok {s : St} (l : List (Path × HTerm)) (hl : ∀ e ∈ l, e.2 ≠ .felt 0) :
    ∀ objs objs', ObjsOK objs → deployAll s l objs = some objs' → ObjsOK objs' := by
  induction l with
  | nil => intro objs objs' ho h; simp [deployAll] at h; subst h; exact ho
  | cons e rest ih =>
    intro objs objs' ho h
    obtain ⟨addr, cls⟩ := e
    simp only [deployAll] at h
    cases h1 : alookup s.recs addr with
    | some _ => simp [h1] at h
    | none =>
      simp only [h1] at h
      refine ih (fun e he => hl e (List.mem_cons_of_mem _ he)) _ _ ?_ h
      intro e he
      cases he with
      | head => exact Or.inl (hl _ (List.mem_cons_self ..))
      | tail _ he => exact ho e he

theorem replaceAll_ok {s : St} (l : List (Path × HTerm)) (hl : ∀ e ∈ l, e.2 ≠ .felt 0) :
    ∀ objs objs', ObjsOK objs → replaceAll s l objs = some objs' → ObjsOK objs' := by
  induction l with
  | nil => intro objs objs' ho h; simp [replaceAll] at h; subst h; exact ho
  | cons e rest ih =>
    intro objs objs' ho h
    obtain ⟨addr, cls⟩ := e
    simp only [replaceAll] at h
    cases h1 : getObj s objs addr with
    | none => simp [h1] at h
    | some o =>
      simp only [h1] at h
      refine ih (fun e he => hl e (List.mem_cons_of_mem _ he)) _ _ ?_ h
      intro e he
      cases he with
      | head => exact Or.inl (hl _ (List.mem_cons_self ..))
      | tail _ he => exact ho e he

theorem nonceAll_ok {s : St} (hr : RecsOK s.recs) (l : List (Path × HTerm)) :
    ∀ objs objs', ObjsOK objs → nonceAll s l objs = some objs' → ObjsOK objs' := by
  induction l with
  | nil => intro objs objs' ho h; simp [nonceAll] at h; subst h; exact ho
  | cons e rest ih =>
    intro objs objs' ho h
    obtain ⟨addr, cls⟩ := e
    simp only [nonceAll] at h
    cases h1 : getObj s objs addr with
    | none => simp [h1] at h
    | some o =>
      simp only [h1] at h
      refine ih _ _ ?_ h
      intro e he
      cases he with
      | head => exact (getObj_ok hr ho h1 : o.crec.cls ≠ .felt 0 ∨ isSystem addr = true)
      | tail _ he => exact ho e he

theorem storageAll_ok {s : St} (hr : RecsOK s.recs) (l : List (Path × List (Path × HTerm))) :
    ∀ objs objs', ObjsOK objs → storageAll s l objs = some objs' → ObjsOK objs' := by
  induction l with
  | nil => intro objs objs' ho h; simp [storageAll] at h; subst h; exact ho
  | cons e rest ih =>
    intro objs objs' ho h
    obtain ⟨addr, kvs⟩ := e
    simp only [storageAll] at h
    cases h1 : getObj s objs addr with
    | some o =>
      simp only [h1] at h
      refine ih _ _ ?_ h
      intro e he
      cases he with
      | head => exact (getObj_ok hr ho h1 : o.crec.cls ≠ .felt 0 ∨ isSystem addr = true)
      | tail _ he => exact ho e he
    | none =>
      simp only [h1] at h
      by_cases hsys : isSystem addr = true
      · simp only [hsys, if_true] at h
        refine ih _ _ ?_ h
        intro e he
        cases he with
        | head => exact Or.inr hsys
        | tail _ he => exact ho e he
      · simp [hsys] at h

theorem touched_ok {objs : AList Obj} (ho : ObjsOK objs) : ObjsOK (touched objs) := by
  have key : ∀ (l : AList Obj), (∀ e ∈ l, e ∈ objs) →
      ∀ e ∈ (l.foldr (fun (e : Path × Obj) acc => if (alookup acc e.1).isSome then acc else e :: acc) []),
        e ∈ objs := by
    intro l
    induction l with
    | nil => intro _ e he; simp at he
    | cons x rest ih =>
      intro hl e he
      simp only [List.foldr_cons] at he
      split at he
      · exact ih (fun e he => hl e (List.mem_cons_of_mem _ he)) e he
      · cases he with
        | head => exact hl _ (List.mem_cons_self ..)
        | tail _ he => exact ih (fun e he => hl e (List.mem_cons_of_mem _ he)) e he
  intro e he
  simp only [touched, List.mem_map] at he
  obtain ⟨x, hx, rfl⟩ := he
  have hxo := key objs (fun e he => he) x hx
  cases h1 : alookup objs x.1 with
  | none => simpa [h1] using ho x hxo
  | some o =>
    have := ho _ (alookup_mem h1)
    simpa [h1] using this

theorem commitObjs_recsOK (objs : AList Obj) (hg : GoodObjs objs) (ho : ObjsOK objs) :
    ∀ s, RecsOK s.recs → RecsOK (commitObjs true objs s).recs := by
  induction objs with
  | nil => intro s hs; exact hs
  | cons e rest ih =>
    intro s hs
    obtain ⟨addr, o⟩ := e
    have hgo := hg _ (List.mem_cons_self ..)
    have hoo := ho _ (List.mem_cons_self ..)
    obtain ⟨c1, c2, c3, c4⟩ := commitObj_spec o hgo.2.1 hgo.2.2
    simp only [commitObjs]
    have hrest : GoodObjs rest := fun e he => hg e (List.mem_cons_of_mem _ he)
    have horest : ObjsOK rest := fun e he => ho e (List.mem_cons_of_mem _ he)
    split
    · apply ih hrest horest
      intro a r hr
      rw [alookup_filter_ne] at hr
      by_cases ha : a = addr
      · simp [ha] at hr
      · simp only [ha, if_false] at hr; exact hs a r hr
    · rename_i hcond
      apply ih hrest horest
      intro a r hr
      simp only [alookup] at hr
      by_cases ha : addr = a
      · simp [ha] at hr; subst hr; subst ha
        cases hoo with
        | inl h => exact Or.inl (by rw [c3]; exact h)
        | inr h =>
          refine Or.inr ⟨h, ?_⟩
          intro hz
          apply hcond
          simp only [Bool.true_and, Bool.and_eq_true, beq_iff_eq]
          exact ⟨h, by rw [c2]; exact hz⟩
      · simp only [ha, if_false] at hr; exact hs a r hr

theorem update_recsOK {s s' : St} {d : Diff} (hs : SWF s) (hr : RecsOK s.recs) (hd : ValidDiff d)
    (h : update true s d = some s') : RecsOK s'.recs := by
  simp only [update, bind, Option.bind] at h
  cases h1 : deployAll s d.deployed [] with
  | none => simp [h1] at h
  | some o1 =>
    simp only [h1] at h
    cases h2 : replaceAll s d.replaced o1 with
    | none => simp [h2] at h
    | some o2 =>
      simp only [h2] at h
      cases h3 : nonceAll s d.nonces o2 with
      | none => simp [h3] at h
      | some o3 =>
        simp only [h3] at h
        cases h4 : storageAll s d.storage o3 with
        | none => simp [h4] at h
        | some o4 =>
          simp only [h4, pure, Option.some.injEq] at h
          have g1 := deployAll_good (s := s) d.deployed (fun e he => (hd.deployed e he).1) [] o1
            (by intro e he; simp at he) h1
          have g2 := replaceAll_good hs d.replaced (fun e he => (hd.replaced e he).1) o1 o2 g1 h2
          have g3 := nonceAll_good hs d.nonces (fun e he => (hd.nonces e he).1) o2 o3 g2 h3
          have g4 := storageAll_good hs d.storage hd.storage o3 o4 g3 h4
          have k1 := deployAll_ok (s := s) d.deployed (fun e he => (hd.deployed e he).2.1) [] o1
            (by intro e he; simp at he) h1
          have k2 := replaceAll_ok (s := s) d.replaced (fun e he => (hd.replaced e he).2.1) o1 o2 k1 h2
          have k3 := nonceAll_ok hr d.nonces o2 o3 k2 h3
          have k4 := storageAll_ok hr d.storage o3 o4 k3 h4
          subst h
          exact commitObjs_recsOK (touched o4) (touched_good g4) (touched_ok k4) _ hr

theorem run_recsOK (ds : List Diff) (hd : ∀ d ∈ ds, ValidDiff d) :
    ∀ (s s' : St), SWF s → RecsOK s.recs → run true ds s = some s' → RecsOK s'.recs := by
  induction ds with
  | nil => intro s s' hs hr h; simp [run] at h; subst h; exact hr
  | cons d rest ih =>
    intro s s' hs hr h
    simp only [run] at h
    cases h1 : update true s d with
    | none => simp [h1] at h
    | some s1 =>
      simp only [h1, Option.bind] at h
      have hd1 := hd d (List.mem_cons_self ..)
      obtain ⟨w1, _⟩ := update_swf hs hd1 _ (inv_of_good hs.cltrie) h1
      exact ih (fun d hd' => hd d (List.mem_cons_of_mem _ hd')) s1 s' w1 (update_recsOK hs hr hd1 h1) h

theorem protocolLeaf_eq_of_ok {recs : AList Rec} (h : RecsOK recs) :
    protocolLeafOfRecs recs = leafOfRecs recs := by
  funext addr
  simp only [protocolLeafOfRecs, leafOfRecs]
  cases h1 : alookup recs addr with
  | none => rfl
  | some r =>
    simp only [protocolLeaf]
    cases h addr r h1 with
    | inl hc => simp [hc]
    | inr hc => simp [hc.2]

end State
end Juno.C01
