import JunoModel.C01.ProofsAbs
import JunoModel.C01.ModelChain
/-!
Helper lemmas for C01, part 11: the roots stored for every block of a chain (`ModelChain.lean`).
-/
namespace Juno.C01
namespace Chain
open State

/-- a reachable state together with the abstract state it represents -/
structure StateOK (s : St) (a : AbsSt) : Prop where
  swf : SWF s
  rel : Rel s a
  recs : RecsOK s.recs
  cl : Inv .poseidon 251 s.cltrie a.classes

theorem stateOK_empty : StateOK St.empty AbsSt.empty :=
  ⟨swf_empty, rel_empty, by intro a r hh; simp [St.empty, alookup] at hh,
   ⟨Or.inl rfl, by simp [St.empty, CacheOK], by intro k _; simp [St.empty, AbsSt.empty, Trie2.get]⟩⟩

theorem stateOK_update {s s' : St} {a : AbsSt} {d : Diff} (h : StateOK s a) (hd : ValidDiff d)
    (hu : update true s d = some s') : StateOK s' (absApply a d) := by
  obtain ⟨w1, i1⟩ := update_swf h.swf hd _ h.cl hu
  rw [classes_fold_eq] at i1
  exact ⟨w1, update_rel h.swf hd h.rel hu, update_recsOK h.swf h.recs hd hu, i1⟩

/-- in every reachable state the commitment is the protocol commitment of the abstract state -/
theorem commitment_ok {s : St} {a : AbsSt} (h : StateOK s a) (pre014 : Bool) :
    commitment pre014 s = absCommitment pre014 a := by
  rw [commitment_of_swf h.swf _ h.cl pre014]
  simp only [absCommitment]
  rw [spec_root_congr .pedersen 251 _ _ (leafOfRecs_abs h.rel h.recs)]

theorem finalise_some {fixed purge pre014 : Bool} {callerOld : Option HTerm} {s s' : St} {d : Diff} {st : Stored}
    (h : finalise fixed purge pre014 callerOld s d = some (s', st)) :
    update purge s d = some s' ∧ st.root = commitment pre014 s' ∧ st.new = commitment pre014 s' ∧
    st.old = oldOf fixed pre014 callerOld s := by
  unfold finalise at h
  simp only [] at h
  generalize oldOf fixed pre014 callerOld s = old at h ⊢
  by_cases hc : oldRootOK fixed pre014 old s = true
  · simp only [hc, if_true] at h
    cases hu : update purge s d with
    | none => simp [hu] at h
    | some s1 =>
      simp only [hu, Option.map, Option.some.injEq, Prod.mk.injEq] at h
      obtain ⟨e1, e2⟩ := h
      subst e1; subst e2
      exact ⟨rfl, rfl, rfl, rfl⟩
  · simp [hc] at h

theorem store_some {fixed purge pre014 : Bool} {old new : HTerm} {s s' : St} {d : Diff} {st : Stored}
    (h : store fixed purge pre014 old new s d = some (s', st)) :
    update purge s d = some s' ∧ commitment pre014 s' = new ∧ st = ⟨new, old, new⟩ := by
  unfold store at h
  by_cases hc : oldRootOK fixed pre014 old s = true
  · simp only [hc, if_true] at h
    cases hu : update purge s d with
    | none => simp [hu] at h
    | some s1 =>
      simp only [hu] at h
      by_cases hn : (commitment pre014 s1 == new) = true
      · simp only [hn, if_true, Option.some.injEq, Prod.mk.injEq] at h
        obtain ⟨e1, e2⟩ := h
        subst e1
        exact ⟨rfl, by simpa using hn, e2.symm⟩
      · simp [hn] at h
  · simp [hc] at h

theorem runFinalise_cons {fixed purge pre014 : Bool} {d : Diff} {rest : List (Bool × Diff)} {s : St} {head : HTerm}
    {sts : List Stored} (h : runFinalise fixed purge ((pre014, d) :: rest) (s, head) = some sts) :
    ∃ s' st sts', finalise fixed purge pre014 (some head) s d = some (s', st) ∧
      runFinalise fixed purge rest (s', st.root) = some sts' ∧ sts = st :: sts' := by
  simp only [runFinalise] at h
  cases hf : finalise fixed purge pre014 (some head) s d with
  | none => simp [hf] at h
  | some p =>
    obtain ⟨s', st⟩ := p
    simp only [hf] at h
    cases hr : runFinalise fixed purge rest (s', st.root) with
    | none => simp [hr] at h
    | some sts' =>
      simp only [hr, Option.map, Option.some.injEq] at h
      exact ⟨s', st, sts', rfl, hr, h.symm⟩

theorem runFinalise_roots (fixed : Bool) (bs : List (Bool × Diff)) (hd : ∀ b ∈ bs, ValidDiff b.2) :
    ∀ (s : St) (head : HTerm) (a : AbsSt) (sts : List Stored), StateOK s a →
      runFinalise fixed true bs (s, head) = some sts →
      sts.map (·.root) = specRoots a bs ∧ ∀ st ∈ sts, st.new = st.root := by
  induction bs with
  | nil =>
    intro s head a sts _ h
    simp only [runFinalise, Option.some.injEq] at h
    subst h
    exact ⟨rfl, by intro st hst; cases hst⟩
  | cons b rest ih =>
    intro s head a sts hok h
    obtain ⟨pre014, d⟩ := b
    obtain ⟨s', st, sts', hf, hr, rfl⟩ := runFinalise_cons h
    obtain ⟨hu, e1, e2, _⟩ := finalise_some hf
    have hok' := stateOK_update hok (hd _ (List.mem_cons_self ..)) hu
    obtain ⟨i1, i2⟩ := ih (fun b hb => hd b (List.mem_cons_of_mem _ hb)) _ _ _ _ hok' hr
    refine ⟨?_, ?_⟩
    · simp only [List.map_cons, specRoots, i1]
      rw [e1, commitment_ok hok']
    · intro x hx
      cases hx with
      | head => rw [e1, e2]
      | tail _ hx => exact i2 x hx

theorem runStore_roots (fixed : Bool) (bs : List SBlock) (hd : ∀ b ∈ bs, ValidDiff b.d) :
    ∀ (s : St) (a : AbsSt) (sts : List Stored), StateOK s a →
      runStore fixed true bs s = some sts →
      sts.map (·.root) = specRoots a (bs.map (fun b => (b.pre014, b.d))) ∧
      sts.map (fun st => (st.old, st.new)) = bs.map (fun b => (b.old, b.new)) := by
  induction bs with
  | nil =>
    intro s a sts _ h
    simp only [runStore, Option.some.injEq] at h
    subst h
    exact ⟨rfl, rfl⟩
  | cons b rest ih =>
    intro s a sts hok h
    simp only [runStore] at h
    cases hf : store fixed true b.pre014 b.old b.new s b.d with
    | none => simp [hf] at h
    | some p =>
      obtain ⟨s', st⟩ := p
      simp only [hf] at h
      cases hr : runStore fixed true rest s' with
      | none => simp [hr] at h
      | some sts' =>
        simp only [hr, Option.map, Option.some.injEq] at h
        subst h
        obtain ⟨hu, hn, e⟩ := store_some hf
        subst e
        have hok' := stateOK_update hok (hd _ (List.mem_cons_self ..)) hu
        obtain ⟨i1, i2⟩ := ih (fun b hb => hd b (List.mem_cons_of_mem _ hb)) _ _ _ hok' hr
        refine ⟨?_, ?_⟩
        · simp only [List.map_cons, specRoots, i1]
          rw [← hn, commitment_ok hok']
        · simp only [List.map_cons, i2]

theorem runFinalise_continuous_fixed (purge : Bool) (bs : List (Bool × Diff)) :
    ∀ (s : St) (head : HTerm) (sts : List Stored),
      runFinalise true purge bs (s, head) = some sts → continuous head sts = true := by
  induction bs with
  | nil =>
    intro s head sts h
    simp only [runFinalise, Option.some.injEq] at h
    subst h; rfl
  | cons b rest ih =>
    intro s head sts h
    obtain ⟨pre014, d⟩ := b
    obtain ⟨s', st, sts', hf, hr, rfl⟩ := runFinalise_cons h
    obtain ⟨_, _, _, e3⟩ := finalise_some hf
    simp only [continuous, Bool.and_eq_true, beq_iff_eq]
    exact ⟨by simpa [oldOf] using e3, ih _ _ _ hr⟩

/-- unchanged tree, one version regime: the recomputed old root IS the stored root of the head -/
theorem runFinalise_continuous_same_version (purge pre014 : Bool) (ds : List Diff) :
    ∀ (s : St) (sts : List Stored),
      runFinalise false purge (ds.map (fun d => (pre014, d))) (s, commitment pre014 s) = some sts →
      continuous (commitment pre014 s) sts = true := by
  induction ds with
  | nil =>
    intro s sts h
    simp only [List.map_nil, runFinalise, Option.some.injEq] at h
    subst h; rfl
  | cons d rest ih =>
    intro s sts h
    simp only [List.map_cons] at h
    obtain ⟨s', st, sts', hf, hr, rfl⟩ := runFinalise_cons h
    obtain ⟨_, e1, _, e3⟩ := finalise_some hf
    simp only [continuous, Bool.and_eq_true, beq_iff_eq]
    refine ⟨by simpa [oldOf] using e3, ?_⟩
    rw [e1] at hr ⊢
    exact ih _ _ hr

end Chain
end Juno.C01
