import JunoModel.C01.ProofsState
/-!
Helper lemmas for C01, part 7: the records the state model holds after a sequence of accepted diffs
agree with the INDEPENDENT abstract state `State.absState` (plain maps, last write wins).
-/
namespace Juno.C01
namespace State
open Trie2

/-! ### an empty root means an empty map (hash outputs are never the felt 0) -/

theorem snode_hash_zero {k : HashKind} {s : SNode} (h : s.hash k = .felt 0) : s.isEmpty = true := by
  unfold SNode.hash at h
  split at h
  · rename_i hp
    simp [SNode.isEmpty, hp, h]
  · cases h

theorem combine_isEmpty (k : HashKind) (l r : SNode) (h : (Spec.combine k l r).isEmpty = true) :
    l.isEmpty = true ∧ r.isEmpty = true := by
  unfold Spec.combine at h
  cases hl : l.isEmpty <;> cases hr : r.isEmpty <;>
    simp only [hl, hr, if_true, if_false, Bool.false_eq_true] at h <;>
    simp [SNode.isEmpty] at h ⊢

theorem spec_node_isEmpty (k : HashKind) : ∀ (n : Nat) (m : Path → HTerm),
    (Spec.node k n m).isEmpty = true → ∀ p, p.length = n → m p = .felt 0 := by
  intro n
  induction n with
  | zero =>
    intro m h p hp
    have : p = [] := List.length_eq_zero_iff.mp hp
    subst this
    simpa [Spec.node, SNode.isEmpty] using h
  | succ n ih =>
    intro m h p hp
    simp only [Spec.node] at h
    obtain ⟨hl, hr⟩ := combine_isEmpty k _ _ h
    cases p with
    | nil => simp at hp
    | cons b ps =>
      have hps : ps.length = n := by simpa using hp
      cases b
      · exact ih _ hl ps hps
      · exact ih _ hr ps hps

theorem spec_root_zero {k : HashKind} {n : Nat} {m : Path → HTerm} (h : Spec.root k n m = .felt 0) :
    ∀ p, p.length = n → m p = .felt 0 :=
  spec_node_isEmpty k n m (snode_hash_zero h)

theorem spec_root_congr (k : HashKind) (n : Nat) (m m' : Path → HTerm)
    (h : ∀ p, p.length = n → m p = m' p) : Spec.root k n m = Spec.root k n m' := by
  simp only [Spec.root]; rw [spec_node_congr k n m m' h]

theorem spec_root_zero_map (k : HashKind) (n : Nat) (m : Path → HTerm)
    (h : ∀ p, p.length = n → m p = .felt 0) : Spec.root k n m = .felt 0 := by
  rw [spec_root_congr k n m (fun _ => .felt 0) h]
  simp only [Spec.root, spec_node_empty]
  rfl

/-! ### folds of `setAt` -/

theorem foldl_setAt_congr {α : Type} (l : List (Path × α)) (m m' : Path → α) (p : Path) (h : m p = m' p) :
    l.foldl (fun m e => setAt m e.1 e.2) m p = l.foldl (fun m e => setAt m e.1 e.2) m' p := by
  induction l generalizing m m' with
  | nil => exact h
  | cons e rest ih =>
    simp only [List.foldl_cons]
    apply ih
    simp only [setAt]; split <;> simp [h]

theorem foldl_setAt_not_mem {α : Type} (l : List (Path × α)) (m : Path → α) (p : Path)
    (h : p ∉ l.map (·.1)) : l.foldl (fun m e => setAt m e.1 e.2) m p = m p := by
  induction l generalizing m with
  | nil => rfl
  | cons e rest ih =>
    simp only [List.map_cons, List.mem_cons, not_or] at h
    simp only [List.foldl_cons]
    rw [ih _ h.2]
    simp [setAt, h.1]

/-! ### the object view -/

/-- the storage map an object stands for: its trie with the dirty writes applied -/
def objMap (o : Obj) : Path → HTerm :=
  o.dirty.foldl (fun m (kv : Path × HTerm) => setAt m kv.1 kv.2) (Trie2.get o.crec.storage)

def AgreeObj (o : Option Obj) (c n : HTerm) (st : Path → HTerm) : Prop :=
  match o with
  | some o => o.crec.cls = c ∧ o.crec.nonce = n ∧ ∀ key, key.length = 251 → objMap o key = st key
  | none => c = .felt 0 ∧ n = .felt 0 ∧ ∀ key, key.length = 251 → st key = .felt 0

structure PInv (s : St) (objs : AList Obj) (c n : Path → HTerm) (st : Path → Path → HTerm) : Prop where
  agree : ∀ addr, addr.length = 251 → AgreeObj (getObj s objs addr) (c addr) (n addr) (st addr)
  sys : ∀ addr, isSystem addr = true → c addr = .felt 0 ∧ n addr = .felt 0

/-- records vs abstract state -/
def Rel (s : St) (a : AbsSt) : Prop := PInv s [] a.cls a.nonce a.storage

def Clean (objs : AList Obj) : Prop := ∀ e ∈ objs, e.2.dirty = []

theorem getObj_cons (s : St) (objs : AList Obj) (addr p : Path) (o : Obj) :
    getObj s ((addr, o) :: objs) p = if addr = p then some o else getObj s objs p := by
  simp only [getObj, alookup]
  by_cases h : addr = p <;> simp [h]

theorem alookup_none_of_not_mem {α : Type} (l : AList α) (k : Path) (h : k ∉ l.map (·.1)) :
    alookup l k = none := by
  induction l with
  | nil => rfl
  | cons e rest ih =>
    simp only [List.map_cons, List.mem_cons, not_or] at h
    simp only [alookup]
    have : ¬ e.1 = k := fun hh => h.1 hh.symm
    simp [this, ih h.2]

theorem getObj_clean {s : St} {objs : AList Obj} {addr : Path} {o : Obj} (hc : Clean objs)
    (h : getObj s objs addr = some o) : o.dirty = [] := by
  unfold getObj at h
  cases h1 : alookup objs addr with
  | some o' => simp [h1] at h; subst h; exact hc _ (alookup_mem h1)
  | none =>
    simp only [h1] at h
    cases h2 : alookup s.recs addr with
    | none => simp [h2] at h
    | some r => simp [h2] at h; subst h; rfl

theorem deployAll_pinv {s : St} {n : Path → HTerm} {st : Path → Path → HTerm}
    (l : List (Path × HTerm)) (hl : ∀ e ∈ l, isSystem e.1 = false) (hnd : (l.map (·.1)).Nodup) :
    ∀ objs objs' c, (∀ e ∈ objs, e.1 ∉ l.map (·.1)) → Clean objs → PInv s objs c n st →
      deployAll s l objs = some objs' →
      PInv s objs' (l.foldl (fun m e => setAt m e.1 e.2) c) n st ∧ Clean objs' := by
  induction l with
  | nil => intro objs objs' c _ hc hp h; simp [deployAll] at h; subst h; exact ⟨hp, hc⟩
  | cons e rest ih =>
    intro objs objs' c hdis hc hp h
    obtain ⟨addr, cls⟩ := e
    simp only [deployAll] at h
    cases h1 : alookup s.recs addr with
    | some _ => simp [h1] at h
    | none =>
      simp only [h1] at h
      simp only [List.map_cons, List.nodup_cons] at hnd
      have hobjs : alookup objs addr = none := by
        apply alookup_none_of_not_mem
        intro hmem
        obtain ⟨e, he, hea⟩ := List.mem_map.mp hmem
        exact hdis e he (by simp [hea])
      have hview : getObj s objs addr = none := by simp [getObj, hobjs, h1]
      have hsysA : isSystem addr = false := hl _ (List.mem_cons_self ..)
      simp only [List.foldl_cons]
      refine ih (fun e he => hl e (List.mem_cons_of_mem _ he)) hnd.2 _ _ _ ?_ ?_ ?_ h
      · intro e he
        cases he with
        | head => exact hnd.1
        | tail _ he =>
          intro hm
          exact hdis e he (by simp [hm])
      · intro e he
        cases he with
        | head => rfl
        | tail _ he => exact hc e he
      · refine ⟨?_, ?_⟩
        · intro p hp251
          rw [getObj_cons]
          by_cases hap : addr = p
          · subst hap
            have ag := hp.agree addr hp251
            rw [hview] at ag
            simp only [AgreeObj] at ag
            simp only [if_true, AgreeObj, setAt, objMap, List.foldl_nil]
            refine ⟨trivial, ag.2.1.symm, ?_⟩
            intro key hk
            rw [ag.2.2 key hk]
            simp [Trie2.get]
          · have : ¬ p = addr := fun hh => hap hh.symm
            simp only [hap, if_false, setAt, this]
            exact hp.agree p hp251
        · intro p hps
          have : ¬ p = addr := by
            intro hh; subst hh; rw [hsysA] at hps; cases hps
          simp only [setAt, this, if_false]
          exact hp.sys p hps

theorem replaceAll_pinv {s : St} {n : Path → HTerm} {st : Path → Path → HTerm}
    (l : List (Path × HTerm)) (hl : ∀ e ∈ l, isSystem e.1 = false) :
    ∀ objs objs' c, Clean objs → PInv s objs c n st → replaceAll s l objs = some objs' →
      PInv s objs' (l.foldl (fun m e => setAt m e.1 e.2) c) n st ∧ Clean objs' := by
  induction l with
  | nil => intro objs objs' c hc hp h; simp [replaceAll] at h; subst h; exact ⟨hp, hc⟩
  | cons e rest ih =>
    intro objs objs' c hc hp h
    obtain ⟨addr, cls⟩ := e
    simp only [replaceAll] at h
    cases h1 : getObj s objs addr with
    | none => simp [h1] at h
    | some o =>
      simp only [h1] at h
      have hsysA : isSystem addr = false := hl _ (List.mem_cons_self ..)
      simp only [List.foldl_cons]
      refine ih (fun e he => hl e (List.mem_cons_of_mem _ he)) _ _ _ ?_ ?_ h
      · intro e he
        cases he with
        | head => exact (getObj_clean hc h1 : o.dirty = [])
        | tail _ he => exact hc e he
      · refine ⟨?_, ?_⟩
        · intro p hp251
          rw [getObj_cons]
          by_cases hap : addr = p
          · subst hap
            have ag := hp.agree addr hp251
            rw [h1] at ag
            simp only [AgreeObj] at ag
            simp only [if_true, AgreeObj, setAt, objMap]
            exact ⟨trivial, ag.2.1, ag.2.2⟩
          · have : ¬ p = addr := fun hh => hap hh.symm
            simp only [hap, if_false, setAt, this]
            exact hp.agree p hp251
        · intro p hps
          have : ¬ p = addr := by
            intro hh; subst hh; rw [hsysA] at hps; cases hps
          simp only [setAt, this, if_false]
          exact hp.sys p hps

theorem nonceAll_pinv {s : St} {c : Path → HTerm} {st : Path → Path → HTerm}
    (l : List (Path × HTerm)) (hl : ∀ e ∈ l, isSystem e.1 = false) :
    ∀ objs objs' n, Clean objs → PInv s objs c n st → nonceAll s l objs = some objs' →
      PInv s objs' c (l.foldl (fun m e => setAt m e.1 e.2) n) st ∧ Clean objs' := by
  induction l with
  | nil => intro objs objs' n hc hp h; simp [nonceAll] at h; subst h; exact ⟨hp, hc⟩
  | cons e rest ih =>
    intro objs objs' n hc hp h
    obtain ⟨addr, v⟩ := e
    simp only [nonceAll] at h
    cases h1 : getObj s objs addr with
    | none => simp [h1] at h
    | some o =>
      simp only [h1] at h
      have hsysA : isSystem addr = false := hl _ (List.mem_cons_self ..)
      simp only [List.foldl_cons]
      refine ih (fun e he => hl e (List.mem_cons_of_mem _ he)) _ _ _ ?_ ?_ h
      · intro e he
        cases he with
        | head => exact (getObj_clean hc h1 : o.dirty = [])
        | tail _ he => exact hc e he
      · refine ⟨?_, ?_⟩
        · intro p hp251
          rw [getObj_cons]
          by_cases hap : addr = p
          · subst hap
            have ag := hp.agree addr hp251
            rw [h1] at ag
            simp only [AgreeObj] at ag
            simp only [if_true, AgreeObj, setAt, objMap]
            exact ⟨ag.1, trivial, ag.2.2⟩
          · have : ¬ p = addr := fun hh => hap hh.symm
            simp only [hap, if_false, setAt, this]
            exact hp.agree p hp251
        · intro p hps
          have : ¬ p = addr := by
            intro hh; subst hh; rw [hsysA] at hps; cases hps
          simp only [setAt, this, if_false]
          exact hp.sys p hps

theorem storageAll_pinv {s : St} {c n : Path → HTerm}
    (l : List (Path × List (Path × HTerm))) (hnd : (l.map (·.1)).Nodup) :
    ∀ objs objs' st, (∀ e ∈ objs, e.1 ∈ l.map (·.1) → e.2.dirty = []) → PInv s objs c n st →
      storageAll s l objs = some objs' →
      PInv s objs' c n (l.foldl
        (fun m e => setAt m e.1 (e.2.foldl (fun sm (kv : Path × HTerm) => setAt sm kv.1 kv.2) (m e.1))) st) := by
  induction l with
  | nil => intro objs objs' st _ hp h; simp [storageAll] at h; subst h; exact hp
  | cons e rest ih =>
    intro objs objs' st hcl hp h
    obtain ⟨addr, kvs⟩ := e
    simp only [List.map_cons, List.nodup_cons] at hnd
    simp only [storageAll] at h
    simp only [List.foldl_cons]
    have hrestclean : ∀ (o : Obj), ∀ e ∈ ((addr, o) :: objs), e.1 ∈ rest.map (·.1) → e.2.dirty = [] := by
      intro o e he hm
      cases he with
      | head => exact absurd hm hnd.1
      | tail _ he => exact hcl e he (by simp [hm])
    cases h1 : getObj s objs addr with
    | some o =>
      simp only [h1] at h
      have hod : o.dirty = [] := by
        unfold getObj at h1
        cases h2 : alookup objs addr with
        | some o' =>
          simp [h2] at h1; subst h1
          exact hcl _ (alookup_mem h2) (by simp)
        | none =>
          simp only [h2] at h1
          cases h3 : alookup s.recs addr with
          | none => simp [h3] at h1
          | some r => simp [h3] at h1; subst h1; rfl
      refine ih hnd.2 _ _ _ (hrestclean _) ?_ h
      refine ⟨?_, hp.sys⟩
      intro p hp251
      rw [getObj_cons]
      by_cases hap : addr = p
      · subst hap
        have ag := hp.agree addr hp251
        rw [h1] at ag
        simp only [AgreeObj] at ag
        simp only [if_true, AgreeObj, setAt, objMap]
        refine ⟨ag.1, ag.2.1, ?_⟩
        intro key hk
        apply foldl_setAt_congr
        have := ag.2.2 key hk
        simpa [objMap, hod] using this
      · have : ¬ p = addr := fun hh => hap hh.symm
        simp only [hap, if_false, setAt, this]
        exact hp.agree p hp251
    | none =>
      simp only [h1] at h
      by_cases hsys : isSystem addr = true
      · simp only [hsys, if_true] at h
        refine ih hnd.2 _ _ _ (hrestclean _) ?_ h
        refine ⟨?_, hp.sys⟩
        intro p hp251
        rw [getObj_cons]
        by_cases hap : addr = p
        · subst hap
          have ag := hp.agree addr hp251
          rw [h1] at ag
          simp only [AgreeObj] at ag
          simp only [if_true, AgreeObj, setAt, objMap]
          refine ⟨ag.1.symm, ag.2.1.symm, ?_⟩
          intro key hk
          apply foldl_setAt_congr
          rw [ag.2.2 key hk]
          simp [Trie2.get]
        · have : ¬ p = addr := fun hh => hap hh.symm
          simp only [hap, if_false, setAt, this]
          exact hp.agree p hp251
      · simp [hsys] at h

/-! ### `touched`: distinct addresses, each with its newest object -/

def dedup (l : AList Obj) : AList Obj :=
  l.foldr (fun (e : Path × Obj) acc => if (alookup acc e.1).isSome then acc else e :: acc) []

theorem alookup_ne_none_of_mem {α : Type} (k : Path) : ∀ (l : AList α), (∃ e ∈ l, e.1 = k) → alookup l k ≠ none := by
  intro l
  induction l with
  | nil => intro ⟨e, he, _⟩; cases he
  | cons x xs ihx =>
    intro ⟨e, he, hek⟩ hnone
    simp only [alookup] at hnone
    by_cases hx : x.1 = k
    · simp [hx] at hnone
    · simp only [hx, if_false] at hnone
      cases he with
      | head => exact hx hek
      | tail _ he => exact ihx ⟨e, he, hek⟩ hnone

theorem dedup_spec (l : AList Obj) :
    ((dedup l).map (·.1)).Nodup ∧ ∀ p, (alookup (dedup l) p).isSome = (alookup l p).isSome := by
  induction l with
  | nil => simp [dedup, alookup]
  | cons e rest ih =>
    obtain ⟨k, o⟩ := e
    have hd : dedup ((k, o) :: rest) =
        if (alookup (dedup rest) k).isSome then dedup rest else (k, o) :: dedup rest := rfl
    rw [hd]
    by_cases hk : (alookup (dedup rest) k).isSome = true
    · rw [if_pos hk]
      refine ⟨ih.1, ?_⟩
      intro p
      by_cases hkp : k = p
      · subst hkp; simp [alookup, hk]
      · simp [alookup, hkp, ih.2 p]
    · rw [if_neg hk]
      refine ⟨?_, ?_⟩
      · simp only [List.map_cons, List.nodup_cons]
        refine ⟨?_, ih.1⟩
        intro hm
        apply hk
        obtain ⟨e, he, hek⟩ := List.mem_map.mp hm
        cases hl : alookup (dedup rest) k with
        | some _ => rfl
        | none => exact absurd hl (alookup_ne_none_of_mem k _ ⟨e, he, hek⟩)
      · intro p
        by_cases hkp : k = p
        · simp [alookup, hkp]
        · simp [alookup, hkp, ih.2 p]

theorem alookup_map_snd {α β : Type} (l : AList α) (f : Path → α → β) (p : Path) :
    alookup (l.map (fun e => (e.1, f e.1 e.2))) p = (alookup l p).map (f p) := by
  induction l with
  | nil => rfl
  | cons e rest ih =>
    simp only [List.map_cons, alookup]
    by_cases h : e.1 = p
    · subst h; simp
    · simp [h, ih]

theorem touched_spec (objs : AList Obj) :
    ((touched objs).map (·.1)).Nodup ∧ ∀ p, alookup (touched objs) p = alookup objs p := by
  have hd := dedup_spec objs
  have ht : touched objs = (dedup objs).map (fun e => (e.1, (fun k o => (alookup objs k).getD o) e.1 e.2)) := rfl
  refine ⟨?_, ?_⟩
  · rw [ht, List.map_map]
    have : ((fun (x : Path × Obj) => x.1) ∘ fun (e : Path × Obj) => (e.1, (alookup objs e.1).getD e.2)) = (·.1) := by
      funext e; rfl
    rw [this]; exact hd.1
  · intro p
    rw [ht, alookup_map_snd (dedup objs) (fun k o => (alookup objs k).getD o) p]
    have h2 := hd.2 p
    cases h3 : alookup objs p with
    | none =>
      rw [h3] at h2
      cases h4 : alookup (dedup objs) p with
      | none => rfl
      | some _ => rw [h4] at h2; cases h2
    | some o =>
      rw [h3] at h2
      cases h4 : alookup (dedup objs) p with
      | none => rw [h4] at h2; cases h2
      | some _ => simp

/-! ### `commitObjs` on distinct addresses -/

theorem commitObjs_recs (purge : Bool) (objs : AList Obj) (hnd : (objs.map (·.1)).Nodup) :
    ∀ (s : St) (p : Path), alookup (commitObjs purge objs s).recs p =
      match alookup objs p with
      | some o => if purge && isSystem p && (commitObj o).2 == .felt 0 then none else some (commitObj o).1
      | none => alookup s.recs p := by
  induction objs with
  | nil => intro s p; rfl
  | cons e rest ih =>
    intro s p
    obtain ⟨addr, o⟩ := e
    simp only [List.map_cons, List.nodup_cons] at hnd
    have hrest : addr = p → alookup rest p = none := by
      intro h; subst h; exact alookup_none_of_not_mem _ _ hnd.1
    simp only [commitObjs]
    split
    · rename_i hc
      rw [ih hnd.2]
      simp only [alookup]
      by_cases hap : addr = p
      · subst hap
        simp only [hrest rfl, if_true]
        rw [alookup_filter_ne]
        simp [hc]
      · simp only [hap, if_false]
        cases alookup rest p with
        | some _ => rfl
        | none =>
          simp only
          rw [alookup_filter_ne]
          have : ¬ p = addr := fun h => hap h.symm
          simp [this]
    · rename_i hc
      rw [ih hnd.2]
      simp only [alookup]
      by_cases hap : addr = p
      · subst hap
        simp only [hrest rfl, if_true]
        simp [hc]
      · simp only [hap, if_false]

theorem commitObj_get (o : Obj) (hg : GoodTrie .pedersen o.crec.storage)
    (hd : ∀ kv ∈ o.dirty, kv.1.length = 251) :
    ∀ key, key.length = 251 → Trie2.get (commitObj o).1.storage key = objMap o key := by
  have h1 := fold_update_inv (k := .pedersen) o.dirty hd _ _ (inv_of_good hg)
  have h2 := step_inv h1 .hash trivial
  simp only [Trie2.step, absStep] at h2
  intro key hk
  exact h2.sem key hk

theorem commitObjs_cltrie (purge : Bool) : ∀ (objs : AList Obj) (s0 : St),
    (commitObjs purge objs s0).cltrie = s0.cltrie := by
  intro objs
  induction objs with
  | nil => intro s0; rfl
  | cons e rest ih =>
    intro s0
    simp only [commitObjs]
    split <;> rw [ih]

theorem classes_fold_eq (d : Diff) (m : Path → HTerm) :
    (classOpsOf d).foldl absStep m =
      (d.declared ++ d.migrated).foldl (fun m e => setAt m e.1 (classLeaf e.2)) m := by
  simp only [classOpsOf, List.foldl_map]
  rfl

/-- one accepted diff: the records follow the abstract state -/
theorem update_rel {s s' : St} {d : Diff} {a : AbsSt} (hs : SWF s) (hd : ValidDiff d) (hr : Rel s a)
    (h : update true s d = some s') : Rel s' (absApply a d) := by
  simp only [update, bind, Option.bind] at h
  cases h1 : deployAll s d.deployed [] with
  | none => simp [h1] at h
  | some o1 =>
    simp only [h1] at h
    cases h2 : replaceAll s d.replaced o1 with
    | none => simp [h2] at h
    | some o2 =>
      simp only [h2] at h
      cases h3 : nonceAll s d.nonces o2 with
      | none => simp [h3] at h
      | some o3 =>
        simp only [h3] at h
        cases h4 : storageAll s d.storage o3 with
        | none => simp [h4] at h
        | some o4 =>
          simp only [h4, pure, Option.some.injEq] at h
          have g1 := deployAll_good (s := s) d.deployed (fun e he => (hd.deployed e he).1) [] o1
            (by intro e he; simp at he) h1
          have g2 := replaceAll_good hs d.replaced (fun e he => (hd.replaced e he).1) o1 o2 g1 h2
          have g3 := nonceAll_good hs d.nonces (fun e he => (hd.nonces e he).1) o2 o3 g2 h3
          have g4 := storageAll_good hs d.storage hd.storage o3 o4 g3 h4
          obtain ⟨p1, c1⟩ := deployAll_pinv d.deployed (fun e he => (hd.deployed e he).2.2) hd.deployedNodup
            [] o1 a.cls (by intro e he; cases he) (by intro e he; cases he) hr h1
          obtain ⟨p2, c2⟩ := replaceAll_pinv d.replaced (fun e he => (hd.replaced e he).2.2) o1 o2 _ c1 p1 h2
          obtain ⟨p3, c3⟩ := nonceAll_pinv d.nonces (fun e he => (hd.nonces e he).2) o2 o3 _ c2 p2 h3
          have p4 := storageAll_pinv d.storage hd.storageNodup o3 o4 _ (fun e he _ => c3 e he) p3 h4
          obtain ⟨tnd, tlk⟩ := touched_spec o4
          have tg := touched_good g4
          subst h
          refine ⟨?_, p4.sys⟩
          intro addr h251
          have hrec := commitObjs_recs true (touched o4) tnd
            { recs := s.recs, ctrie := s.ctrie,
              cltrie := List.foldl (fun t (e : Path × HTerm) => Trie2.update t e.1 (classLeaf e.2)) s.cltrie
                (d.declared ++ d.migrated) } addr
          have ag := p4.agree addr h251
          simp only [getObj, alookup]
          rw [hrec, tlk addr]
          unfold getObj at ag
          cases h5 : alookup o4 addr with
          | none =>
            simp only [h5] at ag ⊢
            exact ag
          | some o =>
            simp only [h5] at ag ⊢
            have hmem : (addr, o) ∈ touched o4 := alookup_mem (by rw [tlk addr]; exact h5)
            have hgo := tg _ hmem
            obtain ⟨cs1, cs2, cs3, cs4⟩ := commitObj_spec o hgo.2.1 hgo.2.2
            have hget := commitObj_get o hgo.2.1 hgo.2.2
            simp only [AgreeObj] at ag
            split
            · rename_i hc
              simp only [Bool.true_and, Bool.and_eq_true, beq_iff_eq] at hc
              simp only [Option.map, AgreeObj]
              have hz := spec_root_zero (hc.2 ▸ cs2.symm)
              refine ⟨(p4.sys addr hc.1).1, (p4.sys addr hc.1).2, ?_⟩
              intro key hk
              exact (ag.2.2 key hk).symm.trans ((hget key hk).symm.trans (hz key hk))
            · simp only [Option.map, AgreeObj, objMap, List.foldl_nil]
              refine ⟨cs3.trans ag.1, cs4.trans ag.2.1, ?_⟩
              intro key hk
              rw [hget key hk]
              exact ag.2.2 key hk

theorem rel_empty : Rel St.empty AbsSt.empty := by
  refine ⟨?_, ?_⟩
  · intro addr _
    simp [getObj, alookup, St.empty, AgreeObj, AbsSt.empty]
  · intro addr _
    simp [AbsSt.empty]

theorem run_rel (ds : List Diff) (hd : ∀ d ∈ ds, ValidDiff d) :
    ∀ (s s' : St) (a : AbsSt), SWF s → Rel s a → Inv .poseidon 251 s.cltrie a.classes →
      run true ds s = some s' →
      SWF s' ∧ Rel s' (ds.foldl absApply a) ∧ Inv .poseidon 251 s'.cltrie (ds.foldl absApply a).classes := by
  induction ds with
  | nil => intro s s' a hs hr hm h; simp [run] at h; subst h; exact ⟨hs, hr, hm⟩
  | cons d rest ih =>
    intro s s' a hs hr hm h
    simp only [run] at h
    cases h1 : update true s d with
    | none => simp [h1] at h
    | some s1 =>
      simp only [h1, Option.bind] at h
      have hd1 := hd d (List.mem_cons_self ..)
      obtain ⟨w1, i1⟩ := update_swf hs hd1 _ hm h1
      rw [classes_fold_eq] at i1
      exact ih (fun d hd' => hd d (List.mem_cons_of_mem _ hd')) s1 s' _ w1 (update_rel hs hd1 hr h1) i1 h

/-- the leaf map of the records = the protocol leaf map of the abstract state (on 251-bit addresses) -/
theorem leafOfRecs_abs {s : St} {a : AbsSt} (hr : Rel s a) (hok : RecsOK s.recs) :
    ∀ addr, addr.length = 251 → leafOfRecs s.recs addr = absContractLeaf a addr := by
  intro addr h251
  have ag := hr.agree addr h251
  simp only [getObj, alookup] at ag
  simp only [leafOfRecs, absContractLeaf]
  cases h1 : alookup s.recs addr with
  | none =>
    simp only [h1, Option.map, AgreeObj] at ag
    simp only [protocolLeaf]
    rw [spec_root_zero_map _ _ _ ag.2.2, ag.1, ag.2.1]
    simp
  | some r =>
    simp only [h1, Option.map, AgreeObj, objMap, List.foldl_nil] at ag
    simp only [spec_root_congr _ _ _ _ ag.2.2]
    have hne : ¬ (a.cls addr = .felt 0 ∧ Spec.root .pedersen 251 (a.storage addr) = .felt 0 ∧ a.nonce addr = .felt 0) := by
      intro ⟨z1, z2, _⟩
      cases hok addr r h1 with
      | inl hc => exact hc (ag.1.trans z1)
      | inr hc => exact hc.2 ((spec_root_congr _ _ _ _ ag.2.2).trans z2)
    simp only [protocolLeaf, hne, if_false]
    rw [ag.1, ag.2.1]

/-! ### the commitment only depends on the abstract state, on 251-bit keys -/

/-- equality of abstract states on the protocol's key space -/
structure AbsEq (a b : AbsSt) : Prop where
  cls : ∀ addr, addr.length = 251 → a.cls addr = b.cls addr
  nonce : ∀ addr, addr.length = 251 → a.nonce addr = b.nonce addr
  storage : ∀ addr, addr.length = 251 → ∀ key, key.length = 251 → a.storage addr key = b.storage addr key
  classes : ∀ ch, ch.length = 251 → a.classes ch = b.classes ch

theorem absCommitment_congr (pre014 : Bool) {a b : AbsSt} (h : AbsEq a b) :
    absCommitment pre014 a = absCommitment pre014 b := by
  simp only [absCommitment]
  rw [spec_root_congr .poseidon 251 a.classes b.classes h.classes]
  rw [spec_root_congr .pedersen 251 (absContractLeaf a) (absContractLeaf b)]
  intro addr h251
  simp only [absContractLeaf]
  rw [h.cls addr h251, h.nonce addr h251, spec_root_congr .pedersen 251 _ _ (h.storage addr h251)]

/-! ### order of the items inside a diff (Go map iteration order) -/

theorem foldl_setAt_mem {α : Type} (l : List (Path × α)) (hnd : (l.map (·.1)).Nodup) (m : Path → α)
    (k : Path) (v : α) (h : (k, v) ∈ l) : l.foldl (fun m e => setAt m e.1 e.2) m k = v := by
  induction l generalizing m with
  | nil => cases h
  | cons e rest ih =>
    simp only [List.map_cons, List.nodup_cons] at hnd
    simp only [List.foldl_cons]
    cases h with
    | head =>
      rw [foldl_setAt_not_mem _ _ _ hnd.1]
      simp [setAt]
    | tail _ h => exact ih hnd.2 _ h

theorem foldl_setAt_perm {α : Type} {l l' : List (Path × α)} (hp : l.Perm l') (hnd : (l.map (·.1)).Nodup)
    (m : Path → α) (p : Path) :
    l.foldl (fun m e => setAt m e.1 e.2) m p = l'.foldl (fun m e => setAt m e.1 e.2) m p := by
  have hnd' : (l'.map (·.1)).Nodup := (hp.map _).nodup_iff.mp hnd
  by_cases hm : p ∈ l.map (·.1)
  · obtain ⟨e, he, hep⟩ := List.mem_map.mp hm
    have he1 : (p, e.2) ∈ l := by rw [← hep]; exact he
    rw [foldl_setAt_mem l hnd m p e.2 he1, foldl_setAt_mem l' hnd' m p e.2 (hp.mem_iff.mp he1)]
  · have hm' : p ∉ l'.map (·.1) := fun h => hm ((hp.map _).mem_iff.mpr h)
    rw [foldl_setAt_not_mem _ _ _ hm, foldl_setAt_not_mem _ _ _ hm']

/-- with distinct addresses, the storage component is a plain last-write-wins fold as well -/
theorem foldl_storage_eq (l : List (Path × List (Path × HTerm))) (hnd : (l.map (·.1)).Nodup)
    (m : Path → Path → HTerm) :
    l.foldl (fun m e => setAt m e.1 (e.2.foldl (fun sm (kv : Path × HTerm) => setAt sm kv.1 kv.2) (m e.1))) m =
    (l.map (fun e => (e.1, e.2.foldl (fun sm (kv : Path × HTerm) => setAt sm kv.1 kv.2) (m e.1)))).foldl
      (fun m e => setAt m e.1 e.2) m := by
  induction l generalizing m with
  | nil => rfl
  | cons e rest ih =>
    simp only [List.map_cons, List.nodup_cons] at hnd
    simp only [List.foldl_cons, List.map_cons]
    rw [ih hnd.2]
    congr 1
    apply List.map_congr_left
    intro x hx
    have : ¬ x.1 = e.1 := by
      intro hh
      exact hnd.1 (hh ▸ List.mem_map_of_mem (f := (·.1)) hx)
    simp [setAt, this]

theorem absApply_perm (a : AbsSt) (d d' : Diff)
    (h1 : (d.declared ++ d.migrated) = (d'.declared ++ d'.migrated))
    (h2 : d.deployed.Perm d'.deployed) (n2 : (d.deployed.map (·.1)).Nodup)
    (h3 : d.replaced.Perm d'.replaced) (n3 : (d.replaced.map (·.1)).Nodup)
    (h4 : d.nonces.Perm d'.nonces) (n4 : (d.nonces.map (·.1)).Nodup)
    (h5 : d.storage.Perm d'.storage) (n5 : (d.storage.map (·.1)).Nodup) :
    AbsEq (absApply a d) (absApply a d') := by
  have n5' : (d'.storage.map (·.1)).Nodup := (h5.map _).nodup_iff.mp n5
  refine ⟨?_, ?_, ?_, ?_⟩
  · intro addr _
    simp only [absApply]
    rw [foldl_setAt_perm h3 n3]
    apply foldl_setAt_congr
    exact foldl_setAt_perm h2 n2 _ _
  · intro addr _
    simp only [absApply]
    exact foldl_setAt_perm h4 n4 _ _
  · intro addr _ key _
    simp only [absApply]
    rw [foldl_storage_eq _ n5, foldl_storage_eq _ n5']
    have hp := h5.map (fun e => (e.1, e.2.foldl (fun sm (kv : Path × HTerm) => setAt sm kv.1 kv.2) (a.storage e.1)))
    have hn : ((d.storage.map (fun e => (e.1, e.2.foldl (fun sm (kv : Path × HTerm) => setAt sm kv.1 kv.2)
        (a.storage e.1)))).map (·.1)).Nodup := by
      rw [List.map_map]; exact n5
    exact congrFun (foldl_setAt_perm hp hn a.storage addr) key
  · intro ch _
    simp only [absApply, h1]

/-! ### the old-root check -/

theorem oldRootOK_same (fixed pre014 : Bool) (s : St) : oldRootOK fixed pre014 (commitment pre014 s) s = true := by
  simp [oldRootOK]

/-- unchanged tree: the stored root passes the check if the version flag does not change, or the class
trie is not empty, or the contract trie is empty -/
theorem oldRootOK_of (pre pre' : Bool) (s : St)
    (h : pre = pre' ∨ (Trie2.hashRoot .poseidon s.cltrie).1 ≠ .felt 0 ∨ (Trie2.hashRoot .pedersen s.ctrie).1 = .felt 0) :
    oldRootOK false pre' (commitment pre s) s = true := by
  simp only [oldRootOK, Bool.false_and, Bool.or_false, beq_iff_eq, commitment, stateCommitment]
  rcases h with h | h | h
  · subst h; rfl
  · simp [h]
  · by_cases hc : (Trie2.hashRoot .poseidon s.cltrie).1 = .felt 0
    · simp [h, hc]
    · simp [hc]

/-- repaired tree: the stored root passes whenever the version does not go back below 0.14.0 -/
theorem oldRootOK_fixed (pre pre' : Bool) (s : St) (h : pre = true ∨ pre' = false) :
    oldRootOK true pre' (commitment pre s) s = true := by
  simp only [oldRootOK, Bool.true_and, Bool.or_eq_true, beq_iff_eq]
  rcases h with h | h
  · subst h; exact Or.inr rfl
  · subst h
    cases pre
    · exact Or.inl rfl
    · exact Or.inr rfl

theorem runStored_const (fixed pre014 : Bool) (ds : List Diff) :
    ∀ s, runStored fixed (ds.map (fun d => (pre014, d))) (s, commitment pre014 s) =
      (run true ds s).map (fun s' => (s', commitment pre014 s')) := by
  induction ds with
  | nil => intro s; rfl
  | cons d rest ih =>
    intro s
    simp only [List.map_cons, runStored, oldRootOK_same, if_true, run]
    cases update true s d with
    | none => rfl
    | some s1 => exact ih s1

/-! ### witnesses used in `Props.lean` -/

/-- contract address 0x1 and the number 7 (a storage slot, or the address 0x7) as 251-bit paths -/
def addr1 : Path := List.replicate 250 false ++ [true]
def slot7 : Path := List.replicate 248 false ++ [true, true, true]
def zeroWriteToSystemContract : Diff := ⟨[], [], [], [], [], [(addr1, [(slot7, .felt 0)])]⟩
/-- deploy contract 0x7 with class 5 / set its nonce to 1 -/
def deploy7 : Diff := ⟨[], [], [(slot7, .felt 5)], [], [], []⟩
def nonce7 : Diff := ⟨[], [], [], [], [(slot7, .felt 1)], []⟩

theorem addr1_length : addr1.length = 251 := by
  rw [addr1, List.length_append, List.length_replicate]; rfl
theorem slot7_length : slot7.length = 251 := by
  rw [slot7, List.length_append, List.length_replicate]; rfl

set_option maxRecDepth 8000 in
theorem slot7_not_system : isSystem slot7 = false := by decide

theorem zeroWrite_valid : ValidDiff zeroWriteToSystemContract := by
  refine ⟨by simp [zeroWriteToSystemContract], by simp [zeroWriteToSystemContract],
    by simp [zeroWriteToSystemContract], by simp [zeroWriteToSystemContract], ?_,
    by simp [zeroWriteToSystemContract], by simp [zeroWriteToSystemContract]⟩
  intro e he
  simp [zeroWriteToSystemContract] at he; subst he
  exact ⟨addr1_length, by intro kv hkv; simp at hkv; subst hkv; exact slot7_length⟩

theorem deploy7_valid : ValidDiff deploy7 := by
  refine ⟨by simp [deploy7], ?_, by simp [deploy7], by simp [deploy7], by simp [deploy7],
    by simp [deploy7], by simp [deploy7]⟩
  intro e he
  simp [deploy7] at he; subst he
  exact ⟨slot7_length, by simp, slot7_not_system⟩

theorem nonce7_valid : ValidDiff nonce7 := by
  refine ⟨by simp [nonce7], by simp [nonce7], by simp [nonce7], ?_, by simp [nonce7],
    by simp [nonce7], by simp [nonce7]⟩
  intro e he
  simp [nonce7] at he; subst he
  exact ⟨slot7_length, slot7_not_system⟩

/-- the abstract state after the zero write is empty: its commitment is 0 -/
theorem absCommitment_zeroWrite (pre014 : Bool) :
    absCommitment pre014 (absState [zeroWriteToSystemContract]) = .felt 0 := by
  have hs : ∀ addr key, (absState [zeroWriteToSystemContract]).storage addr key = .felt 0 := by
    intro addr key
    simp only [absState, List.foldl_cons, List.foldl_nil, absApply, zeroWriteToSystemContract, setAt, AbsSt.empty]
    split
    · simp only [setAt]; split <;> rfl
    · rfl
  have hl : ∀ addr, absContractLeaf (absState [zeroWriteToSystemContract]) addr = .felt 0 := by
    intro addr
    simp only [absContractLeaf]
    rw [spec_root_zero_map _ _ _ (fun key _ => hs addr key)]
    simp [absState, absApply, zeroWriteToSystemContract, AbsSt.empty, protocolLeaf]
  simp only [absCommitment]
  rw [spec_root_zero_map _ _ _ (fun addr _ => hl addr)]
  rw [spec_root_zero_map .poseidon 251 (absState [zeroWriteToSystemContract]).classes
    (fun ch _ => by simp [absState, absApply, zeroWriteToSystemContract, AbsSt.empty])]
  simp [stateCommitment]

end State
end Juno.C01
