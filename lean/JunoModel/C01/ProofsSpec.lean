import JunoModel.C01.ProofsHash
/-!
Helper lemmas for C01, part 3: the hash of a canonical tree is the Starknet commitment
(`Spec.root`) of the key/value map it represents; the invariant of operation sequences.
-/
namespace Juno.C01
open Trie2

theorem spec_node_empty (k : HashKind) (n : Nat) : Spec.node k n (fun _ => .felt 0) = SNode.empty := by
  induction n with
  | zero => rfl
  | succ n ih => simp [Spec.node, ih, Spec.combine, SNode.isEmpty, SNode.empty]

/-- `Spec.node` looks at the map only at keys of the right length. -/
theorem spec_node_congr (k : HashKind) (n : Nat) (m m' : Path → HTerm)
    (h : ∀ p, p.length = n → m p = m' p) : Spec.node k n m = Spec.node k n m' := by
  induction n generalizing m m' with
  | zero => simp [Spec.node, h [] rfl]
  | succ n ih =>
    simp only [Spec.node]
    rw [ih (fun p => m (false :: p)) (fun p => m' (false :: p)) (fun p hp => h _ (by simp [hp])),
        ih (fun p => m (true :: p)) (fun p => m' (true :: p)) (fun p hp => h _ (by simp [hp]))]

/-- The `(path, bottom)` triple of a canonical tree. -/
def snodeOf (k : HashKind) : Node → SNode
  | .value v => ⟨[], v⟩
  | .bin l r _ => ⟨[], .h k (rawHash k l) (rawHash k r)⟩
  | .edge p c _ => ⟨p, (snodeOf k c).bottom⟩
  | _ => SNode.empty

/-- An edge in front of a non-empty subtree: the triple gets the edge path prepended. -/
theorem spec_node_edge (k : HashKind) (n : Nat) (g : Path → HTerm) (s : SNode)
    (hs : Spec.node k n g = s) (hne : s.isEmpty = false) (p : Path) :
    Spec.node k (p.length + n)
      (fun key => if p.isPrefixOf key then g (key.drop p.length) else .felt 0) = ⟨p ++ s.path, s.bottom⟩ := by
  induction p with
  | nil => simpa using hs
  | cons b p' ih =>
    have hlen : (b :: p').length + n = (p'.length + n) + 1 := by simp; omega
    rw [hlen]
    simp only [Spec.node]
    have hne' : (SNode.mk (p' ++ s.path) s.bottom).isEmpty = false := by
      cases p' with
      | nil => simpa [SNode.isEmpty] using hne
      | cons _ _ => simp [SNode.isEmpty]
    cases b
    · have e1 : (fun q : Path => if (false :: p').isPrefixOf (false :: q) then g ((false :: q).drop (false :: p').length) else HTerm.felt 0)
          = (fun key => if p'.isPrefixOf key then g (key.drop p'.length) else .felt 0) := by
        funext q; simp [List.isPrefixOf]
      have e2 : (fun q : Path => if (false :: p').isPrefixOf (true :: q) then g ((true :: q).drop (false :: p').length) else HTerm.felt 0)
          = (fun _ => .felt 0) := by
        funext q; simp [List.isPrefixOf]
      rw [e1, e2, ih, spec_node_empty]
      have hE : SNode.empty.isEmpty = true := rfl
      simp only [Spec.combine, hne', hE, Bool.false_eq_true, if_false, if_true, List.cons_append]
    · have e1 : (fun q : Path => if (true :: p').isPrefixOf (true :: q) then g ((true :: q).drop (true :: p').length) else HTerm.felt 0)
          = (fun key => if p'.isPrefixOf key then g (key.drop p'.length) else .felt 0) := by
        funext q; simp [List.isPrefixOf]
      have e2 : (fun q : Path => if (true :: p').isPrefixOf (false :: q) then g ((false :: q).drop (true :: p').length) else HTerm.felt 0)
          = (fun _ => .felt 0) := by
        funext q; simp [List.isPrefixOf]
      rw [e1, e2, ih, spec_node_empty]
      have hE : SNode.empty.isEmpty = true := rfl
      simp only [Spec.combine, hne', hE, Bool.false_eq_true, if_false, if_true, List.cons_append]

theorem snodeOf_hash (k : HashKind) {t : Node} {n : Nat} (h : WF t n) :
    (snodeOf k t).hash k = rawHash k t ∧ (NotEdge t → (snodeOf k t).path = []) := by
  induction h with
  | value hv => simp [snodeOf, SNode.hash, rawHash]
  | bin hl hr _ _ => simp [snodeOf, SNode.hash, rawHash]
  | @edge p c n fl hp hc hne ih =>
    refine ⟨?_, by simp [NotEdge]⟩
    have hpe : p.isEmpty = false := by cases p <;> simp_all
    have h1 := ih.1
    have h2 := ih.2 hne
    simp only [SNode.hash, h2, List.isEmpty_nil, if_true] at h1
    simp [snodeOf, SNode.hash, hpe, rawHash, edgeHash, h1]

/-- The Starknet triple of the map represented by a canonical tree is the tree's own triple. -/
theorem spec_node_of_wf (k : HashKind) {t : Node} {n : Nat} (h : WF t n) :
    Spec.node k n (Trie2.get t) = snodeOf k t ∧ (snodeOf k t).isEmpty = false := by
  induction h with
  | @value v hv =>
    refine ⟨by simp [Spec.node, Trie2.get, snodeOf], ?_⟩
    simp [snodeOf, SNode.isEmpty, hv]
  | @bin l r n fl hl hr ihl ihr =>
    refine ⟨?_, by simp [snodeOf, SNode.isEmpty]⟩
    simp only [Spec.node]
    have e1 : (fun p => Trie2.get (.bin l r fl) (false :: p)) = Trie2.get l := by
      funext p; simp [Trie2.get]
    have e2 : (fun p => Trie2.get (.bin l r fl) (true :: p)) = Trie2.get r := by
      funext p; simp [Trie2.get]
    rw [e1, e2, ihl.1, ihr.1]
    simp [Spec.combine, ihl.2, ihr.2, snodeOf, (snodeOf_hash k hl).1, (snodeOf_hash k hr).1]
  | @edge p c n fl hp hc hne ih =>
    have hpath := (snodeOf_hash k hc).2 hne
    refine ⟨?_, by cases p <;> simp_all [snodeOf, SNode.isEmpty]⟩
    have e : Trie2.get (.edge p c fl) =
        (fun key => if p.isPrefixOf key then Trie2.get c (key.drop p.length) else .felt 0) := by
      funext key; simp [Trie2.get]
    rw [e, spec_node_edge k n (Trie2.get c) (snodeOf k c) ih.1 ih.2 p]
    simp [snodeOf, hpath]

/-- Main hashing lemma: a canonical tree hashes to the commitment of its map. -/
theorem rawHash_eq_spec (k : HashKind) {t : Node} {n : Nat} (h : WFRoot t n) :
    rawHash k t = Spec.root k n (Trie2.get t) := by
  cases h with
  | inl h =>
    subst h
    have : Trie2.get .nil = fun _ => HTerm.felt 0 := by funext p; simp [Trie2.get]
    simp [Spec.root, this, spec_node_empty, rawHash, SNode.hash, SNode.empty]
  | inr h =>
    simp [Spec.root, (spec_node_of_wf k h).1, (snodeOf_hash k h).1]

/-! ### operation sequences -/

/-- Every key written has the trie's height (`FeltToPath(key, height)` guarantees it). -/
def ValidOps (n : Nat) (ops : List Op) : Prop :=
  ∀ op ∈ ops, match op with
    | .put key _ => key.length = n
    | .hash => True

/-- The invariant of a trie2 trie: canonical tree, sound hash caches, map semantics `m`. -/
structure Inv (k : HashKind) (n : Nat) (t : Node) (m : Path → HTerm) : Prop where
  wf : WFRoot t n
  cache : CacheOK k t
  sem : ∀ key, key.length = n → Trie2.get t key = m key

theorem hashRoot_eq (k : HashKind) (t : Node) : Trie2.hashRoot k t = hashNode k t := by
  cases t <;> simp [Trie2.hashRoot, hashNode]

theorem step_inv {k : HashKind} {n : Nat} {t : Node} {m : Path → HTerm} (h : Inv k n t m)
    (op : Op) (hop : match op with | .put key _ => key.length = n | .hash => True) :
    Inv k n (Trie2.step k t op) (absStep m op) := by
  cases op with
  | hash =>
    simp only [Trie2.step, absStep, hashRoot_eq]
    obtain ⟨_, c, _, g⟩ := hashNode_spec k t h.cache
    refine ⟨?_, c, fun key hk => by rw [g key, h.sem key hk]⟩
    cases h.wf with
    | inl e => subst e; exact Or.inl (by simp [hashNode])
    | inr w => exact Or.inr (hashNode_wf k w)
  | put key v =>
    simp only [] at hop
    simp only [Trie2.step, absStep, Trie2.update]
    by_cases hv : v = .felt 0
    · subst hv
      simp only [beq_self_eq_true, if_true]
      refine ⟨?_, del_cacheOK h.cache key, ?_⟩
      · cases h.wf with
        | inl e => subst e; exact Or.inl (by simp [del])
        | inr w => exact (del_spec w key hop).1
      · intro k' hk'
        cases h.wf with
        | inl e =>
          subst e
          have := h.sem k' hk'
          simp only [Trie2.get] at this
          by_cases e : k' = key <;> simp [del, Trie2.get, e, ← this]
        | inr w =>
          rw [(del_spec w key hop).2.2 k' hk', h.sem k' hk']
    · have hb : (v == HTerm.felt 0) = false := by simpa using hv
      simp only [hb, Bool.false_eq_true, if_false]
      refine ⟨?_, ins_cacheOK h.cache key v, ?_⟩
      · cases h.wf with
        | inl e => subst e; exact Or.inr (hop ▸ (ins_nil_spec key v hv).1)
        | inr w => exact Or.inr (ins_spec w key hop v hv).1
      · intro k' hk'
        cases h.wf with
        | inl e =>
          subst e
          have := h.sem k' hk'
          simp only [Trie2.get] at this
          rw [(ins_nil_spec key v hv).2 k' (by omega), ← this]
        | inr w =>
          rw [(ins_spec w key hop v hv).2.2 k' hk', h.sem k' hk']

theorem foldl_inv {k : HashKind} {n : Nat} (ops : List Op) (hv : ValidOps n ops) :
    ∀ (t : Node) (m : Path → HTerm), Inv k n t m →
      Inv k n (ops.foldl (Trie2.step k) t) (ops.foldl absStep m) := by
  induction ops with
  | nil => intro t m h; exact h
  | cons op rest ih =>
    intro t m h
    simp only [List.foldl_cons]
    exact ih (fun o ho => hv o (List.mem_cons_of_mem _ ho)) _ _
      (step_inv h op (hv op (List.mem_cons_self ..)))

theorem run_inv (k : HashKind) (n : Nat) (ops : List Op) (hv : ValidOps n ops) :
    Inv k n (Trie2.run k ops) (absRun ops) :=
  foldl_inv ops hv .nil _ ⟨Or.inl rfl, by simp [CacheOK], fun _ _ => by simp [Trie2.get]⟩

theorem inv_hash {k : HashKind} {n : Nat} {t : Node} {m : Path → HTerm} (h : Inv k n t m) :
    (Trie2.hashRoot k t).1 = Spec.root k n m := by
  rw [hashRoot_eq, (hashNode_spec k t h.cache).1, rawHash_eq_spec k h.wf]
  simp only [Spec.root]
  rw [spec_node_congr k n _ _ h.sem]

end Juno.C01
