import JunoModel.C05.ProofsFilter2
/-! Helper lemmas for C05, part 8: on a good node the next block can be stored. -/
namespace Juno.C05

theorem ensureInit_good {W : Nat} (hW : 0 < W) {c : List Block} {n : Node} (hg : Good W c n) :
    ∃ f, (ensureInit W n).mem = .ready f ∧ FiltOK W c f := by
  unfold ensureInit
  cases hm : n.mem with
  | lazy =>
    obtain ⟨f, d', hi, hf⟩ := initFilter_good hW hg.wf hg.coh hg.wins hg.snap
    simp only [hi]
    exact ⟨f, rfl, hf⟩
  | ready f =>
    have := hg.mem
    rw [hm] at this
    exact ⟨f, by simp [hm], this⟩
  | broken =>
    have := hg.mem
    rw [hm] at this
    exact absurd this (by simp [MemOK])

/-- On a good node (memory lazy after a restart / crash, or live) the block the network offers
next is stored: `Store` returns ok. -/
theorem store_ok_of_good {W : Nat} (hW : 0 < W) (fx : Fixes) {c : List Block} {n : Node} {b : Block}
    (hg : Good W c n) (hn : NextBlock c n.disk b) :
    (exec W fx n (.store b) .none).2 = .ok := by
  obtain ⟨f, hmem, hf⟩ := ensureInit_good hW hg
  obtain ⟨f', ws, hins, _, _⟩ := insert_filtOK hW hf hn.num
  have hen := expectedNext_of_coh hg.coh
  have h1 : ¬ (expectedNext n.disk).1 ≠ b.num := by rw [hen, hn.num]; simp
  have h2 : ¬ (expectedNext n.disk).2 ≠ b.parent := by rw [hen, hn.parent]; simp
  have h3 : ¬ stateRoot n.disk ≠ b.oldRoot := by rw [hg.coh.state, hn.oldRoot]; simp
  have h4 : ¬ b.applied ≠ b.root := by rw [hn.newRoot]; simp
  simp only [exec, plan, storePlan, h1, h2, h3, h4, if_false, hmem, hins]

/-- … and the node is then at the new height with that block as its head. -/
theorem store_height_of_good {W : Nat} (hW : 0 < W) (fx : Fixes) {c : List Block} {n : Node} {b : Block}
    (hg : Good W c n) (hn : NextBlock c n.disk b) :
    getHeight (exec W fx n (.store b) .none).1.disk = some b.num ∧
      getBlk (exec W fx n (.store b) .none).1.disk (.header b.num) = some b := by
  obtain ⟨f, hmem, hf⟩ := ensureInit_good hW hg
  obtain ⟨f', ws, hins, _, _⟩ := insert_filtOK hW hf hn.num
  have hen := expectedNext_of_coh hg.coh
  have h1 : ¬ (expectedNext n.disk).1 ≠ b.num := by rw [hen, hn.num]; simp
  have h2 : ¬ (expectedNext n.disk).2 ≠ b.parent := by rw [hen, hn.parent]; simp
  have h3 : ¬ stateRoot n.disk ≠ b.oldRoot := by rw [hg.coh.state, hn.oldRoot]; simp
  have h4 : ¬ b.applied ≠ b.root := by rw [hn.newRoot]; simp
  have haux := insert_onlyAux hins
  have hd : (exec W fx n (.store b) .none).1.disk =
      applyBatch (ensureInit W n).disk (blockWrites b ++ ws) := by
    simp only [exec, plan, storePlan, h1, h2, h3, h4, if_false, hmem, hins, applyCommits,
      List.foldl_cons, List.foldl_nil]
  rw [hd]
  constructor
  · simp only [getHeight, store_lookup haux (k := .height) trivial, blockWrites_lookup _ b hn.fresh.2.2]
  · simp only [getBlk, store_lookup haux (k := .header b.num) trivial, blockWrites_lookup _ b hn.fresh.2.2,
      if_true]

end Juno.C05
