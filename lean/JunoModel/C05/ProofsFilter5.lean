import JunoModel.C05.ProofsFilter4
/-! Helper lemmas for C05, part 10: histories without RevertHead keep the node good under every
crash and every failed snapshot / L1-head write. -/
namespace Juno.C05

theorem fst_ite {α β : Type} {p : Prop} [Decidable p] (a b : α × β) :
    (if p then a else b).1 = if p then a.1 else b.1 := by
  split <;> rfl

theorem exec_failAt_ge {W : Nat} {fx : Fixes} {n : Node} {op : Op} {k : Nat}
    (h : ¬ k < (plan W fx n op).commits.length) :
    exec W fx n op (.failAt k) = exec W fx n op .none := by
  simp only [exec, h, if_false]

/-- Memory a call leaves behind when one of its commits fails. -/
def failMem (W : Nat) (fx : Fixes) (n : Node) (op : Op) : Mem :=
  match op with
  | .restart => (snapPlan W n).mem
  | _ => (plan W fx n op).mem

theorem exec_failAt_lt {W : Nat} {fx : Fixes} {n : Node} {op : Op} {k : Nat}
    (h : k < (plan W fx n op).commits.length) :
    (exec W fx n op (.failAt k)).1 =
      ⟨applyCommits (plan W fx n op).disk0 ((plan W fx n op).commits.take k),
        memAfter fx op (.err .io) (failMem W fx n op)⟩ := by
  simp only [exec, h, if_true]
  cases op <;> rfl

theorem good_of_disk_eq {W : Nat} {c : List Block} {n n' : Node} (hg : Good W c n)
    (hd : n'.disk = n.disk) (hm : MemOK W c n'.mem) : Good W c n' :=
  ⟨hg.wf, by rw [hd]; exact hg.coh, by rw [hd]; exact hg.wins, by rw [hd]; exact hg.snap, hm⟩

/-- A Store of any fresh block from a good node, with any crash: good again (for the same chain
when the block is refused, for the extended chain when it is the next block). -/
theorem store_any_good {W : Nat} (hW : 0 < W) (fx : Fixes) {c : List Block} {n : Node} {b : Block}
    (hg : Good W c n) (hfr : Extends n.disk b → Fresh n.disk b) (ft : Fault) (hft : ∀ k, ft ≠ .failAt k)
    (hb : ft ≠ .failInit ∧ ft ≠ .crashInit) :
    ∃ c', Good W c' (exec W fx n (.store b) ft).1 := by
  have hen := expectedNext_of_coh hg.coh
  have refused : ∀ p : Plan, plan W fx n (.store b) = p → p.disk0 = n.disk → p.commits = [] →
      (p.mem = n.mem) → ∃ c', Good W c' (exec W fx n (.store b) ft).1 := by
    intro p hp h0 hcm hmem
    refine ⟨c, good_of_disk_eq hg ?_ ?_⟩
    · cases ft with
      | failInit => exact absurd rfl hb.1
      | crashInit => exact absurd rfl hb.2
      | none => simp only [exec, hp, hcm, h0, applyCommits, List.foldl_nil]
      | failAt k => exact absurd rfl (hft k)
      | crashAfter k => simp only [exec, hp, hcm, h0, applyCommits, List.take_nil, List.foldl_nil]
    · cases ft with
      | failInit => exact absurd rfl hb.1
      | crashInit => exact absurd rfl hb.2
      | none =>
        cases hout : p.out with
        | ok => simp only [exec, hp, memAfter, hmem, hout]; exact hg.mem
        | err e =>
          simp only [exec, hp, memAfter, hmem, hout]
          split
          · trivial
          · exact hg.mem
      | failAt k => exact absurd rfl (hft k)
      | crashAfter k => simp [exec, MemOK]
  by_cases h1 : (expectedNext n.disk).1 ≠ b.num
  · exact refused _ (by simp only [plan, storePlan]; rw [if_pos h1]) rfl rfl rfl
  · by_cases h2 : (expectedNext n.disk).2 ≠ b.parent
    · exact refused _ (by simp only [plan, storePlan]; rw [if_neg h1, if_pos h2]) rfl rfl rfl
    · by_cases h3 : stateRoot n.disk ≠ b.oldRoot
      · exact refused _ (by simp only [plan, storePlan]; rw [if_neg h1, if_neg h2, if_pos h3]) rfl rfl rfl
      by_cases h4 : b.applied ≠ b.root
      · exact refused _ (by simp only [plan, storePlan]; rw [if_neg h1, if_neg h2, if_neg h3, if_pos h4]) rfl rfl rfl
      · have hext : Extends n.disk b :=
          Prod.ext (Classical.not_not.mp h1) (Classical.not_not.mp h2)
        have hn : NextBlock c n.disk b := by
          refine ⟨?_, ?_, ?_, Classical.not_not.mp h4, hfr hext⟩
          · have := Classical.not_not.mp h1; rw [hen] at this; exact this.symm
          · have := Classical.not_not.mp h2; rw [hen] at this; exact this.symm
          · have := Classical.not_not.mp h3; rw [hg.coh.state] at this; exact this.symm
        refine ⟨c ++ [b], store_good hW fx hg hn ft ?_⟩
        cases ft with
        | none => exact Or.inl rfl
        | failAt k => exact absurd rfl (hft k)
        | crashAfter k => exact Or.inr ⟨k, rfl⟩
        | failInit => exact absurd rfl hb.1
        | crashInit => exact absurd rfl hb.2

/-- Writing the snapshot of a filter that describes the chain gives a good disk. -/
theorem snap_put_good {W : Nat} {c : List Block} {d : Disk} {f : Filt} (hc : Coh c d)
    (hw : WinsOK W c d) (hf : FiltOK W c f) :
    Coh c (applyBatch d [.put .snap (.snap f.win f.next)]) ∧
    WinsOK W c (applyBatch d [.put .snap (.snap f.win f.next)]) ∧
    SnapOK W c (applyBatch d [.put .snap (.snap f.win f.next)]) := by
  have hk : ∀ k, k ≠ Key.snap → applyBatch d [Write.put .snap (.snap f.win f.next)] k = d k := by
    intro k hk; simp [applyBatch, applyW, hk]
  refine ⟨coh_of_eq_chainKeys hc (fun k hk' => hk k (by intro e; subst e; exact hk')), ?_, ?_⟩
  · constructor
    · intro lo; rw [getWin_congr (hk (.win lo) (by simp))]; exact hw.exist lo
    · intro lo w h; rw [getWin_congr (hk (.win lo) (by simp))] at h; exact hw.sound lo w h
  · unfold SnapOK
    have : applyBatch d [Write.put .snap (.snap f.win f.next)] .snap = some (.snap f.win f.next) := by
      simp [applyBatch, applyW]
    rw [this]
    refine ⟨by rw [hf.next]; exact Nat.le_refl _, by rw [hf.lo, hf.next], ?_⟩
    intro b i h1 h2 hb
    exact hf.sound b i h1 (by rw [← hf.next]; exact h2) hb

/-- snapshot / graceful restart from a good node, any fault. -/
theorem snap_good {W : Nat} (hW : 0 < W) (fx : Fixes) {c : List Block} {n : Node} (hg : Good W c n)
    (op : Op) (hop : op = .snap ∨ op = .restart) (ft : Fault) (hb : ft ≠ .failInit ∧ ft ≠ .crashInit) :
    Good W c (exec W fx n op ft).1 := by
  obtain ⟨hg1, f, hmem, hf⟩ := ensureInit_good' hW hg
  obtain ⟨hc2, hw2, hs2⟩ := snap_put_good hg1.coh hg1.wins hf
  have hsp : snapPlan W n = ⟨(ensureInit W n).disk, [[.put .snap (.snap f.win f.next)]], .ready f, .ok⟩ := by
    simp only [snapPlan, hmem]
  have applied : ∀ m, MemOK W c m →
      Good W c ⟨applyCommits (ensureInit W n).disk [[.put .snap (.snap f.win f.next)]], m⟩ := by
    intro m hm
    exact ⟨hg1.wf, hc2, hw2, hs2, hm⟩
  have notapplied : ∀ m, MemOK W c m → Good W c ⟨applyCommits (ensureInit W n).disk [], m⟩ := by
    intro m hm
    exact ⟨hg1.wf, hg1.coh, hg1.wins, hg1.snap, hm⟩
  have hready : MemOK W c (.ready f) := hf
  rcases hop with rfl | rfl
  · cases ft with
    | failInit => exact absurd rfl hb.1
    | crashInit => exact absurd rfl hb.2
    | none => simp only [exec, plan, hsp, memAfter]; exact applied _ hready
    | failAt k =>
      simp only [exec, plan, hsp, memAfter, fst_ite]
      split
      · rename_i hk
        have : k = 0 := by simpa using hk
        subst this
        exact notapplied _ hready
      · exact applied _ hready
    | crashAfter k => simp only [exec, plan, hsp, List.take_succ_cons, List.take_nil]; exact applied _ trivial
  · cases ft with
    | failInit => exact absurd rfl hb.1
    | crashInit => exact absurd rfl hb.2
    | none => simp only [exec, plan, hsp, memAfter]; exact applied _ trivial
    | failAt k =>
      simp only [exec, plan, hsp, memAfter, fst_ite]
      split
      · rename_i hk
        have : k = 0 := by simpa using hk
        subst this
        exact notapplied _ hready
      · exact applied _ trivial
    | crashAfter k => simp only [exec, plan, hsp, List.take_succ_cons, List.take_nil]; exact applied _ trivial

/-- set-L1-head / kill from a good node, any fault. -/
theorem misc_good {W : Nat} (fx : Fixes) {c : List Block} {n : Node} (hg : Good W c n)
    (op : Op) (hop : (∃ v, op = .l1head v) ∨ op = .kill) (ft : Fault) (hb : ft ≠ .failInit ∧ ft ≠ .crashInit) :
    Good W c (exec W fx n op ft).1 := by
  have hput : ∀ v, Good W c ⟨applyCommits n.disk [[.put .l1head (.num v)]], n.mem⟩ ∧
      Good W c ⟨applyCommits n.disk [[.put .l1head (.num v)]], .lazy⟩ := by
    intro v
    have hk : ∀ k, k ≠ Key.l1head → applyCommits n.disk [[Write.put .l1head (.num v)]] k = n.disk k := by
      intro k hk; simp [applyCommits, applyBatch, applyW, hk]
    have hc : Coh c (applyCommits n.disk [[Write.put .l1head (.num v)]]) :=
      coh_of_eq_chainKeys hg.coh (fun k hk' => hk k (by intro e; subst e; exact hk'))
    have hw : WinsOK W c (applyCommits n.disk [[Write.put .l1head (.num v)]]) := by
      constructor
      · intro lo; rw [getWin_congr (hk (.win lo) (by simp))]; exact hg.wins.exist lo
      · intro lo w h; rw [getWin_congr (hk (.win lo) (by simp))] at h; exact hg.wins.sound lo w h
    have hs : SnapOK W c (applyCommits n.disk [[Write.put .l1head (.num v)]]) := by
      unfold SnapOK; rw [hk .snap (by simp)]; exact hg.snap
    exact ⟨⟨hg.wf, hc, hw, hs, hg.mem⟩, ⟨hg.wf, hc, hw, hs, trivial⟩⟩
  have hsame : ∀ m, MemOK W c m → Good W c ⟨applyCommits n.disk [], m⟩ := fun m hm =>
    ⟨hg.wf, hg.coh, hg.wins, hg.snap, hm⟩
  rcases hop with ⟨v, rfl⟩ | rfl
  · cases ft with
    | failInit => exact absurd rfl hb.1
    | crashInit => exact absurd rfl hb.2
    | none => simp only [exec, plan, memAfter]; exact (hput v).1
    | failAt k =>
      by_cases hk : k < (plan W fx n (.l1head v)).commits.length
      · rw [exec_failAt_lt hk]
        have : k = 0 := by simpa [plan] using hk
        subst this
        simp only [plan, memAfter, failMem, List.take_zero]
        exact hsame _ hg.mem
      · rw [exec_failAt_ge hk]
        simp only [exec, plan, memAfter]; exact (hput v).1
    | crashAfter k => simp only [exec, plan, List.take_succ_cons, List.take_nil]; exact (hput v).2
  · cases ft with
    | failInit => exact absurd rfl hb.1
    | crashInit => exact absurd rfl hb.2
    | none => simp only [exec, plan, memAfter]; exact hsame _ trivial
    | failAt k =>
      have hk : ¬ k < (plan W fx n .kill).commits.length := by simp [plan]
      rw [exec_failAt_ge hk]
      simp only [exec, plan, memAfter]; exact hsame _ trivial
    | crashAfter k => simp only [exec, plan, List.take_nil]; exact hsame _ trivial

/-! ### Faults inside the lazy filter initialisation -/

theorem plan_disk0 (W : Nat) (fx : Fixes) (n : Node) (op : Op) (hp : ∀ e, op ≠ .prune e) :
    (plan W fx n op).disk0 = n.disk ∨ (plan W fx n op).disk0 = (ensureInit W n).disk := by
  cases op with
  | store b =>
    simp only [plan, storePlan]
    repeat' split
    all_goals first | exact Or.inl rfl | exact Or.inr rfl
  | revert =>
    simp only [plan, revertPlan]
    repeat' split
    all_goals first | exact Or.inl rfl | exact Or.inr rfl
  | l1head v => exact Or.inl rfl
  | snap =>
    simp only [plan, snapPlan]
    split <;> exact Or.inr rfl
  | restart =>
    simp only [plan, snapPlan]
    split <;> exact Or.inr rfl
  | kill => exact Or.inl rfl
  | prune e => exact absurd rfl (hp e)

/-- A crash right after the lazy initialisation's write, before the call's own commit: the disk
differs from the node's at most by complete, sound windows; good again. -/
theorem crashInit_good {W : Nat} (hW : 0 < W) (fx : Fixes) {c : List Block} {n : Node} (hg : Good W c n)
    (op : Op) (hp : ∀ e, op ≠ .prune e) : Good W c (exec W fx n op .crashInit).1 := by
  obtain ⟨hg1, _⟩ := ensureInit_good' hW hg
  show Good W c ⟨(plan W fx n op).disk0, .lazy⟩
  rcases plan_disk0 W fx n op hp with h | h
  · rw [h]; exact ⟨hg.wf, hg.coh, hg.wins, hg.snap, trivial⟩
  · rw [h]; exact ⟨hg1.wf, hg1.coh, hg1.wins, hg1.snap, trivial⟩

/-- The failing initialisation write: the call behaves as without the fault (the initialisation
was not needed or needs no write), or nothing reaches the disk and the filter is what
`ensureInit` leaves after a failed initialisation, passed through the error handling of the call. -/
theorem exec_failInit (W : Nat) (fx : Fixes) (n : Node) (op : Op) :
    exec W fx n op .failInit = exec W fx n op .none ∨
    (exec W fx n op .failInit).1 =
      ⟨n.disk, memAfter fx op (.err .init) (if fx.retryInit then .lazy else .broken)⟩ := by
  simp only [exec]
  split
  · exact Or.inr rfl
  · exact Or.inl rfl

theorem memAfter_lazy (fx : Fixes) (op : Op) (o : Out) : memAfter fx op o .lazy = .lazy := by
  unfold memAfter
  split <;> (try split) <;> rfl

/-- … with the repaired `ensureInit` (the error is not kept) the node stays good. -/
theorem failInit_good {W : Nat} {fx : Fixes} (hi : fx.retryInit = true) {c : List Block} {n : Node}
    (hg : Good W c n) (op : Op) :
    exec W fx n op .failInit = exec W fx n op .none ∨ Good W c (exec W fx n op .failInit).1 := by
  rcases exec_failInit W fx n op with h | h
  · exact Or.inl h
  · right
    rw [h]
    simp only [hi, if_true, memAfter_lazy]
    exact ⟨hg.wf, hg.coh, hg.wins, hg.snap, trivial⟩

/-- Histories without RevertHead / prune. -/
def NoRevert : List (Op × Fault) → Prop
  | [] => True
  | (op, _) :: rest => (match op with | .revert => False | .prune _ => False | _ => True) ∧ NoRevert rest

theorem good_init (W : Nat) (hW : 0 < W) : Good W [] Node.init := by
  refine ⟨cinv_init_wf, cinv_init_coh, ⟨?_, ?_⟩, ?_, ?_⟩
  · intro lo; simp [getWin, Node.init, Disk.empty]; omega
  · intro lo w h; simp [getWin, Node.init, Disk.empty] at h
  · simp [SnapOK, Node.init, Disk.empty]
  · simp [MemOK, Node.init]

theorem good_run_no_revert {W : Nat} (hW : 0 < W) (fx : Fixes) :
    ∀ (hs : List (Op × Fault)) (n : Node) (c : List Block), Good W c n → ValidHist W fx n hs →
      NoRevert hs → NoFailedChainCommit hs → ∃ c', Good W c' (run W fx n hs) := by
  intro hs
  induction hs with
  | nil => intro n c hg _ _ _; exact ⟨c, hg⟩
  | cons x rest ih =>
    intro n c hg hv hnr hnf
    obtain ⟨op, ft⟩ := x
    simp only [ValidHist] at hv
    simp only [NoRevert] at hnr
    simp only [NoFailedChainCommit] at hnf
    simp only [run]
    have hpr : ∀ e, op ≠ .prune e := by
      intro e he; subst he; exact hnr.1
    have step : ∃ c', Good W c' (exec W fx n op ft).1 := by
      by_cases hci : ft = .crashInit
      · subst hci; exact ⟨c, crashInit_good hW fx hg op hpr⟩
      have hfi : ft ≠ .failInit := by
        intro e; subst e
        cases op <;> exact hnf.1
      have hb : ft ≠ .failInit ∧ ft ≠ .crashInit := ⟨hfi, hci⟩
      cases op with
      | store b =>
        apply store_any_good hW fx hg hv.1 ft _ hb
        intro k e; subst e; exact hnf.1
      | revert => exact absurd hnr.1 (by simp)
      | l1head v => exact ⟨c, misc_good fx hg _ (Or.inl ⟨v, rfl⟩) ft hb⟩
      | snap => exact ⟨c, snap_good hW fx hg _ (Or.inl rfl) ft hb⟩
      | restart => exact ⟨c, snap_good hW fx hg _ (Or.inr rfl) ft hb⟩
      | kill => exact ⟨c, misc_good fx hg _ (Or.inr rfl) ft hb⟩
      | prune e => exact absurd hnr.1 (by simp)
    obtain ⟨c', hg'⟩ := step
    exact ih _ c' hg' hv.2 hnr.2 hnf.2

end Juno.C05
