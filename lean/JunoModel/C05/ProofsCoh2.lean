import JunoModel.C05.ProofsCoh
/-! Helper lemmas for C05, part 3: storing the next block extends the coherent chain. -/
namespace Juno.C05

theorem lookupTx_none_iff (c : List Block) (t : Nat) :
    lookupTx c t = none ↔ t ∉ c.flatMap (·.txs) := by
  induction c with
  | nil => simp [lookupTx]
  | cons b rest ih =>
    simp only [lookupTx, List.flatMap_cons, List.mem_append, not_or]
    cases h : b.txs.idxOf? t with
    | none =>
      have : t ∉ b.txs := List.idxOf?_eq_none_iff.mp h
      simp [this, ih]
    | some i =>
      have : t ∈ b.txs := by
        apply Classical.byContradiction
        intro hn
        rw [List.idxOf?_eq_none_iff.mpr hn] at h
        cases h
      simp [this]

theorem lookupTx_append (c : List Block) (b : Block) (t : Nat) :
    lookupTx (c ++ [b]) t =
      match lookupTx c t with
      | some v => some v
      | none =>
        (match b.txs.idxOf? t with
          | some i => some (.idx b.num i)
          | none => none) := by
  induction c with
  | nil => cases h : List.idxOf? t b.txs <;> simp [lookupTx, h]
  | cons x rest ih =>
    simp only [List.cons_append, lookupTx]
    cases x.txs.idxOf? t with
    | some i => simp
    | none => simpa using ih

theorem find_hash_none_iff (c : List Block) (h : Nat) :
    c.find? (fun b => b.hash = h) = none ↔ h ∉ c.map (·.hash) := by
  simp [List.find?_eq_none]

theorem getLast?_eq_getElem? (c : List Block) : c.getLast? = c[c.length - 1]? := by
  rw [List.getLast?_eq_getElem?]

theorem expectedNext_of_coh {c : List Block} {d : Disk} (hc : Coh c d) :
    expectedNext d = (c.length, (c.getLast?.map (·.hash)).getD 0) := by
  unfold expectedNext
  rw [hc.height]
  by_cases hl : c.length = 0
  · have : c = [] := List.eq_nil_of_length_eq_zero hl
    subst this
    simp
  · simp only [hl, if_false]
    have hlt : c.length - 1 < c.length := by omega
    have hh := hc.header (c.length - 1)
    simp only [getBlk, hh, List.getElem?_eq_getElem hlt, Option.map_some]
    rw [getLast?_eq_getElem?, List.getElem?_eq_getElem hlt]
    simp
    omega

theorem append_getElem? (c : List Block) (b : Block) (n : Nat) :
    (c ++ [b])[n]? = if n < c.length then c[n]? else if n = c.length then some b else none := by
  rw [List.getElem?_append]
  split
  · rfl
  · rename_i h
    by_cases e : n = c.length
    · simp [e]
    · have : n - c.length ≠ 0 := by omega
      simp only [e, if_false]
      cases hk : n - c.length with
      | zero => exact absurd hk this
      | succ k => simp

theorem wf_append {c : List Block} {d : Disk} {b : Block}
    (hwf : WfChain c) (hc : Coh c d) (hn : NextBlock c d b) : WfChain (c ++ [b]) := by
  obtain ⟨hfh, hft, hnd⟩ := hn.fresh
  have hhash : b.hash ∉ c.map (·.hash) := by
    rw [← find_hash_none_iff]
    have := hc.numByHash b.hash
    rw [hfh] at this
    cases hf : c.find? (fun x => x.hash = b.hash) with
    | none => rfl
    | some v => rw [hf] at this; simp at this
  have htx : ∀ t ∈ b.txs, t ∉ c.flatMap (·.txs) := by
    intro t ht
    rw [← lookupTx_none_iff, ← hc.txLookup t]
    exact hft t ht
  have hlen : (c ++ [b]).length = c.length + 1 := by simp
  have hat : (c ++ [b])[c.length]? = some b := by
    rw [List.getElem?_append_right (Nat.le_refl _)]; simp
  refine ⟨?_, ?_, ?_, ?_, ?_⟩
  · intro i x hx
    by_cases h1 : i < c.length
    · rw [List.getElem?_append_left h1] at hx
      exact hwf.num i x hx
    · by_cases h2 : i = c.length
      · subst h2; rw [hat] at hx; cases hx; exact hn.num
      · have : (c ++ [b])[i]? = none := List.getElem?_eq_none (by omega)
        rw [this] at hx; cases hx
  · intro i x y hx hy
    by_cases h1 : i + 1 < c.length
    · rw [List.getElem?_append_left (by omega)] at hx
      rw [List.getElem?_append_left h1] at hy
      exact hwf.link i x y hx hy
    · by_cases h2 : i + 1 = c.length
      · rw [List.getElem?_append_left (by omega)] at hx
        rw [h2, hat] at hy
        cases hy
        have hlast : c.getLast? = some x := by
          rw [getLast?_eq_getElem?, ← hx]; congr 1; omega
        rw [hn.parent, hn.oldRoot, hlast]
        simp
      · have : (c ++ [b])[i + 1]? = none := List.getElem?_eq_none (by omega)
        rw [this] at hy; cases hy
  · intro x hx
    by_cases h0 : 0 < c.length
    · rw [List.getElem?_append_left h0] at hx
      exact hwf.first x hx
    · have hl : c = [] := List.eq_nil_of_length_eq_zero (by omega)
      subst hl
      simp at hx
      subst hx
      rw [hn.parent, hn.oldRoot]
      simp
  · rw [List.map_append, List.nodup_append]
    refine ⟨hwf.hashes, by simp, ?_⟩
    intro a ha b' hb' e
    simp at hb'
    subst hb'
    subst e
    exact hhash ha
  · rw [List.flatMap_append, List.nodup_append]
    refine ⟨hwf.txs, by simpa using hnd, ?_⟩
    intro a ha b' hb' e
    simp at hb'
    subst e
    exact htx a hb' ha

theorem store_lookup {d : Disk} {b : Block} {ws : List Write} (haux : OnlyAux ws) {k : Key}
    (hk : IsChainKey k) : applyBatch d (blockWrites b ++ ws) k = applyBatch d (blockWrites b) k := by
  rw [applyBatch_append, applyBatch_onlyAux haux _ hk]

theorem coh_append {c : List Block} {d : Disk} {b : Block} {ws : List Write}
    (hc : Coh c d) (hn : NextBlock c d b) (haux : OnlyAux ws) :
    Coh (c ++ [b]) (applyBatch d (blockWrites b ++ ws)) := by
  obtain ⟨hfh, hft, hnd⟩ := hn.fresh
  have hnum := hn.num
  have hat : (c ++ [b])[c.length]? = some b := by
    rw [List.getElem?_append_right (Nat.le_refl _)]; simp
  have elem : ∀ n, (c ++ [b])[n]? = if n = b.num then some b else c[n]? := by
    intro n
    by_cases h1 : n < c.length
    · rw [List.getElem?_append_left h1]; simp [hnum, Nat.ne_of_lt h1]
    · by_cases h2 : n = c.length
      · subst h2; simp [hnum]
      · have h3 : (c ++ [b])[n]? = none := List.getElem?_eq_none (by simp; omega)
        have h4 : c[n]? = none := List.getElem?_eq_none (by omega)
        simp [h3, h4, hnum, h2]
  refine ⟨?_, ?_, ?_, ?_, ?_, ?_, ?_, ?_⟩
  · have : applyBatch d (blockWrites b ++ ws) .height = some (.num b.num) := by
      rw [store_lookup haux (k := .height) trivial, blockWrites_lookup d b hnd]
    simp [getHeight, this, hnum]
  · intro n
    rw [store_lookup haux (k := .header n) trivial, blockWrites_lookup d b hnd, elem]
    by_cases e : n = b.num <;> simp [e, hc.header]
  · intro n
    rw [store_lookup haux (k := .txs n) trivial, blockWrites_lookup d b hnd, elem]
    by_cases e : n = b.num <;> simp [e, hc.txs]
  · intro n
    rw [store_lookup haux (k := .su n) trivial, blockWrites_lookup d b hnd, elem]
    by_cases e : n = b.num <;> simp [e, hc.su]
  · intro n
    rw [store_lookup haux (k := .commit n) trivial, blockWrites_lookup d b hnd]
    by_cases e : n = b.num
    · simp [e, hnum]
    · simp only [e, if_false, hc.commit, List.length_append, List.length_singleton]
      by_cases h1 : n < c.length
      · simp [h1]; omega
      · simp [h1]; omega
  · intro h
    rw [store_lookup haux (k := .numByHash h) trivial, blockWrites_lookup d b hnd, List.find?_append]
    by_cases e : h = b.hash
    · subst e
      have hnone : c.find? (fun x => x.hash = b.hash) = none := by
        have := hc.numByHash b.hash
        rw [hfh] at this
        cases hf : c.find? (fun x => x.hash = b.hash) with
        | none => rfl
        | some v => rw [hf] at this; simp at this
      simp [hnone]
    · have : [b].find? (fun x => decide (x.hash = h)) = none := by simp [Ne.symm e]
      simp only [e, if_false, hc.numByHash, this, Option.or_none]
  · intro t
    rw [store_lookup haux (k := .txLookup t) trivial, blockWrites_lookup d b hnd, lookupTx_append]
    cases hi : List.idxOf? t b.txs with
    | none =>
      simp only [hi, hc.txLookup]
      cases lookupTx c t <;> rfl
    | some j =>
      have hmem : t ∈ b.txs := by
        apply Classical.byContradiction
        intro hn'
        rw [List.idxOf?_eq_none_iff.mpr hn'] at hi
        cases hi
      have : lookupTx c t = none := by rw [← hc.txLookup t]; exact hft t hmem
      simp [hi, this]
  · have : applyBatch d (blockWrites b ++ ws) .state = some (.num b.root) := by
      rw [store_lookup haux (k := .state) trivial, blockWrites_lookup d b hnd]
    simp [stateRoot, this]

end Juno.C05
