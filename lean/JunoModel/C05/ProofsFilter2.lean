import JunoModel.C05.ProofsFilter
/-! Helper lemmas for C05, part 7: a filter initialised from a good disk describes the chain. -/
namespace Juno.C05

theorem take_succ_eq {c : List Block} {k : Nat} {x : Block} (h : c[k]? = some x) :
    c.take (k + 1) = c.take k ++ [x] := by
  rw [List.take_add_one, h]; rfl

theorem bitIn_take {c : List Block} {k b i : Nat} (h : bitIn (c.take k) b i) : bitIn c b i := by
  obtain ⟨blk, hb, hi⟩ := h
  refine ⟨blk, ?_, hi⟩
  rw [List.getElem?_take] at hb
  split at hb
  · exact hb
  · cases hb

/-- `fillRunningEventFilter` from a filter that describes the first `k` blocks ends with a filter
that describes the whole chain. -/
theorem fill_filtOK {W : Nat} (hW : 0 < W) {c : List Block} (hwf : WfChain c) :
    ∀ (cnt k : Nat) (f : Filt) (d : Disk), k + cnt = c.length →
      (∀ n, getBlk d (.header n) = c[n]?) → FiltOK W (c.take k) f →
      ∃ f' d', fill W cnt k f d = some (f', d') ∧ FiltOK W c f' := by
  intro cnt
  induction cnt with
  | zero =>
    intro k f d hk _ hf
    refine ⟨f, d, rfl, ?_⟩
    have : c.take k = c := List.take_of_length_le (by omega)
    rw [this] at hf; exact hf
  | succ cnt ih =>
    intro k f d hk hhdr hf
    have hklt : k < c.length := by omega
    have hx : c[k]? = some c[k] := List.getElem?_eq_getElem hklt
    have hnum : (c[k]).num = (c.take k).length := by
      rw [List.length_take, Nat.min_eq_left (by omega)]
      exact hwf.num k _ hx
    obtain ⟨f', ws, hins, hf', _⟩ := insert_filtOK hW hf hnum
    have hlen : (c.take k).length = k := by rw [List.length_take]; omega
    rw [hlen] at hnum
    rw [← take_succ_eq hx] at hf'
    simp only [fill, hhdr k, hx]
    rw [hnum] at hins
    rw [hins]
    have haux := insert_onlyAux hins
    cases ws with
    | nil => exact ih (k + 1) f' d (by omega) hhdr hf'
    | cons w ws' =>
      apply ih (k + 1) f' _ (by omega) _ hf'
      intro n
      have : applyBatch d (w :: ws') (.header n) = d (.header n) := applyBatch_onlyAux haux d trivial
      simp only [getBlk, this]
      exact hhdr n

theorem getBlk_header_of_coh {c : List Block} {d : Disk} (hc : Coh c d) (n : Nat) :
    getBlk d (.header n) = c[n]? := by
  simp only [getBlk, hc.header n]
  cases c[n]? <;> rfl

/-- The backward scan of the rebuild finds where the window of the next block starts. -/
theorem scanBack_good {W : Nat} (hW : 0 < W) {c : List Block} {d : Disk} (hw : WinsOK W c d)
    (hne : c.length ≠ 0) :
    scanBack W d ((c.length - 1) / W + 1) (wstart W (c.length - 1)) = wstart W c.length := by
  have hpers : ∀ lo, (getWin d lo).isSome = true ↔ (lo % W = 0 ∧ lo + W ≤ c.length) := hw.exist
  have hL : c.length - 1 + 1 = c.length := by omega
  rcases wstart_succ hW (c.length - 1) with ⟨hlast, hnext⟩ | ⟨hnl, hsame⟩
  · -- the head is the last block of its window: that window is persisted
    rw [hL] at hnext
    have hfound : (getWin d (wstart W (c.length - 1))).isSome = true :=
      (hpers _).mpr ⟨wstart_mod _, by omega⟩
    simp only [scanBack, hfound, if_true]
    omega
  · rw [hL] at hsame
    have hlt := lt_wstart_add hW (c.length - 1)
    have hnot : ¬ (getWin d (wstart W (c.length - 1))).isSome = true := by
      rw [hpers]; intro h; omega
    by_cases h0 : wstart W (c.length - 1) = 0
    · rw [h0] at hnot
      simp [scanBack, h0, hnot, hsame]
    · have hge : W ≤ wstart W (c.length - 1) := by
        have hm := wstart_mod (W := W) (c.length - 1)
        have := Nat.le_of_dvd (by omega) (Nat.dvd_of_mod_eq_zero hm)
        exact this
      have hprev : (getWin d (wstart W (c.length - 1) - W)).isSome = true := by
        rw [hpers]
        refine ⟨?_, by have := wstart_le W (c.length - 1); omega⟩
        have hm := wstart_mod (W := W) (c.length - 1)
        have : (wstart W (c.length - 1) - W) % W = 0 := by
          rw [Nat.sub_mod_eq_zero_of_mod_eq (by rw [hm, Nat.mod_self])]
        exact this
      have hfuel : (c.length - 1) / W = ((c.length - 1) / W - 1) + 1 := by
        have : 1 ≤ (c.length - 1) / W := by
          rw [Nat.le_div_iff_mul_le hW]
          have := wstart_le W (c.length - 1); omega
        omega
      have hfuel2 : (c.length - 1) / W + 1 = ((c.length - 1) / W - 1) + 1 + 1 := by omega
      rw [hfuel2]
      simp only [scanBack, hnot, h0, hprev, if_true, if_false]
      simp
      omega

/-- `restart_ok`: on a good disk, InitializeRunningEventFilter succeeds and yields a filter that
describes the chain (next = height+1, aligned window, no false negatives). -/
theorem initFilter_good {W : Nat} (hW : 0 < W) {c : List Block} {d : Disk} (hwf : WfChain c)
    (hc : Coh c d) (hw : WinsOK W c d) (hs : SnapOK W c d) :
    ∃ f d', initFilter W d = some (f, d') ∧ FiltOK W c f := by
  have hhdr := getBlk_header_of_coh hc
  unfold initFilter
  rw [hc.height]
  by_cases hne : c.length = 0
  · have : c = [] := List.eq_nil_of_length_eq_zero hne
    subst this
    refine ⟨_, _, rfl, ⟨rfl, by simp [Win.empty, wstart], ?_⟩⟩
    intro b i _ h2; simp at h2
  · simp only [hne, if_false]
    have hL : c.length - 1 + 1 = c.length := by omega
    have rebuild_ok : ∃ f d', rebuild W d (c.length - 1) = some (f, d') ∧ FiltOK W c f := by
      unfold rebuild
      simp only [scanBack_good hW hw hne, hL]
      have hle := wstart_le W c.length
      apply fill_filtOK hW hwf _ _ _ _ (by omega) hhdr
      have hlen : (c.take (wstart W c.length)).length = wstart W c.length := by
        rw [List.length_take]; omega
      refine ⟨by rw [hlen], ?_, ?_⟩
      · rw [hlen]; simp only [Win.empty]
        exact (wstart_of_mod_zero (wstart_mod _)).symm
      · intro b i h1 h2 _
        rw [hlen] at h2
        simp only [Win.empty] at h1
        omega
    unfold SnapOK at hs
    split
    · rename_i w nx hsn
      rw [hsn] at hs
      obtain ⟨hnx, hlo, hsound⟩ := hs
      split
      · rename_i e
        refine ⟨_, _, rfl, ⟨by show nx = _; omega, by show w.lo = _; rw [hlo]; congr 1; omega, ?_⟩⟩
        intro b i h1 h2 hb
        exact hsound b i h1 (by omega) hb
      · split
        · rename_i hgap
          have hlen : (c.take nx).length = nx := by rw [List.length_take]; omega
          apply fill_filtOK hW hwf _ _ _ _ (by omega) hhdr
          refine ⟨by rw [hlen], by rw [hlen]; exact hlo, ?_⟩
          intro b i h1 h2 hb
          rw [hlen] at h2
          exact hsound b i h1 h2 (bitIn_take hb)
        · exact rebuild_ok
    · exact rebuild_ok

end Juno.C05
