import JunoModel.C05.ProofsCoh3
/-! Helper lemmas for C05, part 5: every call, under every fault, keeps the image coherent. -/
namespace Juno.C05

theorem onlyAux_nil : OnlyAux [] := by intro w hw; cases hw

theorem onlyAux_append {a b : List Write} (ha : OnlyAux a) (hb : OnlyAux b) : OnlyAux (a ++ b) := by
  intro w hw
  rcases List.mem_append.mp hw with h | h
  · exact ha w h
  · exact hb w h

theorem onlyAux_del_win (lo : Nat) : OnlyAux [Write.del (.win lo)] := by
  intro w hw; simp at hw; subst hw; exact Or.inr ⟨_, rfl, fun h => h⟩

theorem onlyAux_del_snap : OnlyAux [Write.del .snap] := by
  intro w hw; simp at hw; subst hw; exact Or.inr ⟨_, rfl, fun h => h⟩

theorem onlyAux_ite {c : Prop} [Decidable c] {a : List Write} (ha : OnlyAux a) :
    OnlyAux (if c then a else []) := by
  split
  · exact ha
  · exact onlyAux_nil

theorem onReorg_onlyAux (W : Nat) (fx : Fixes) (f : Filt) (d : Disk) :
    OnlyAux (f.onReorg W fx d).2.1 := by
  unfold Filt.onReorg
  have hs : OnlyAux (if fx.dropSnapOnRevert then [Write.del .snap] else []) := onlyAux_ite onlyAux_del_snap
  have hcross : ∀ cur lo, OnlyAux ((if fx.dropSnapOnRevert then [Write.del .snap] else []) ++ [Write.del (.win lo)]
      ++ (if fx.dropPrevWinOnCross then [Write.del (.win (wstart W cur))] else [])) := by
    intro cur lo
    exact onlyAux_append (onlyAux_append hs (onlyAux_del_win _)) (onlyAux_ite (onlyAux_del_win _))
  simp only
  split
  · exact hs
  · split
    · split
      · exact hcross _ _
      · split <;> exact hcross _ _
    · split <;> exact hs

/-- The store as it is when the first commit of a call is issued agrees with the node's disk on
every chain key (a lazy filter initialisation only writes windows). -/
theorem disk0_chainKeys (W : Nat) (fx : Fixes) (n : Node) (op : Op) (hp : ∀ e, op ≠ .prune e) :
    ∀ k, IsChainKey k → (plan W fx n op).disk0 k = n.disk k := by
  intro k hk
  have hE := ensureInit_chainKeys W n k hk
  cases op with
  | store b =>
    simp only [plan, storePlan]
    repeat' split
    all_goals first | rfl | exact hE
  | revert =>
    simp only [plan, revertPlan]
    repeat' split
    all_goals first | rfl | exact hE
  | l1head v => rfl
  | snap =>
    simp only [plan, snapPlan]
    split <;> exact hE
  | restart =>
    simp only [plan, snapPlan]
    split <;> exact hE
  | kill => rfl
  | prune e => exact absurd rfl (hp e)

/-- Shape of the commits a call issues when nothing fails. -/
inductive Shape (n : Node) (op : Op) (p : Plan) : Prop where
  | none (h : p.commits = [])
  | aux (ws : List Write) (h : p.commits = [ws]) (ha : OnlyAux ws)
  | store (b : Block) (ws' : List Write) (hop : op = .store b)
      (h : p.commits = [blockWrites b ++ ws']) (ha : OnlyAux ws')
      (he : expectedNext n.disk = (b.num, b.parent)) (hs : stateRoot n.disk = b.oldRoot)
      (hr : b.applied = b.root)
  | revert (h : Nat) (hb tb su : Block) (ws' : List Write) (hop : op = .revert)
      (hc : p.commits = [revertWrites h hb tb su ++ ws']) (ha : OnlyAux ws')
      (hh : getHeight n.disk = some h) (hsu : getBlk n.disk (.su h) = some su)
      (hhb : getBlk n.disk (.header h) = some hb) (htb : getBlk n.disk (.txs h) = some tb)

theorem storePlan_shape (W : Nat) (n : Node) (b : Block) : Shape n (.store b) (storePlan W n b) := by
  simp only [storePlan]
  split
  · exact .none rfl
  · rename_i h1
    split
    · exact .none rfl
    · rename_i h2
      split
      · exact .none rfl
      · rename_i h3
        split
        · exact .none rfl
        · rename_i h4
          split
          · rename_i f hm
            split
            · exact .none rfl
            · rename_i f' ws hins
              refine .store b ws rfl rfl (insert_onlyAux hins) ?_ (by simpa using h3) (by simpa using h4)
              have e1 : (expectedNext n.disk).1 = b.num := by simpa using h1
              have e2 : (expectedNext n.disk).2 = b.parent := by simpa using h2
              exact Prod.ext e1 e2
          · exact .none rfl

theorem revertPlan_shape (W : Nat) (fx : Fixes) (n : Node) : Shape n .revert (revertPlan W fx n) := by
  simp only [revertPlan]
  split
  · exact .none rfl
  · rename_i h hh
    split
    · rename_i su hb tb hsu hhb htb
      split
      · exact .none rfl
      · split
        · rename_i f hm
          have haux := onReorg_onlyAux W fx f (ensureInit W n).disk
          split
          · rename_i hok
            exact .revert h hb tb su _ rfl rfl haux hh hsu hhb htb
          · exact .none rfl
        · exact .none rfl
    · exact .none rfl

theorem onlyAux_put_snap (v : Val) : OnlyAux [Write.put .snap v] := by
  intro w hw; simp at hw; subst hw; exact Or.inl ⟨_, _, rfl, fun h => h⟩

theorem snapPlan_shape (W : Nat) (n : Node) (op : Op) : Shape n op (snapPlan W n) := by
  simp only [snapPlan]
  split
  · exact .aux _ rfl (onlyAux_put_snap _)
  · exact .none rfl

theorem plan_shape (W : Nat) (fx : Fixes) (n : Node) (op : Op) (hp : ∀ e, op ≠ .prune e) :
    Shape n op (plan W fx n op) := by
  cases op with
  | store b => exact storePlan_shape W n b
  | revert => exact revertPlan_shape W fx n
  | l1head v =>
    refine .aux _ rfl ?_
    intro w hw; simp at hw; subst hw; exact Or.inl ⟨_, _, rfl, fun h => h⟩
  | snap => exact snapPlan_shape W n _
  | restart =>
    have := snapPlan_shape W n .restart
    simp only [plan]
    cases this with
    | none h => exact .none h
    | aux ws h ha => exact .aux ws h ha
    | store b ws' hop => cases hop
    | revert h hb tb su ws' hop => cases hop
  | kill => exact .none rfl
  | prune e => exact absurd rfl (hp e)

/-- The image describes some well-formed chain. -/
def CInv (n : Node) : Prop := ∃ c, WfChain c ∧ Coh c n.disk

theorem fresh_congr {d d' : Disk} {b : Block} (h : ∀ k, IsChainKey k → d' k = d k) (hf : Fresh d b) :
    Fresh d' b := by
  obtain ⟨h1, h2, h3⟩ := hf
  refine ⟨by rw [h (.numByHash b.hash) trivial]; exact h1, ?_, h3⟩
  intro t ht
  rw [h (.txLookup t) trivial]
  exact h2 t ht

theorem exec_none_disk (W : Nat) (fx : Fixes) (n : Node) (op : Op) :
    (exec W fx n op .none).1.disk = applyCommits (plan W fx n op).disk0 (plan W fx n op).commits := rfl

theorem getBlk_of_eq {d : Disk} {k : Key} {x : Block} (h : d k = (some x).map Val.blk) :
    getBlk d k = some x := by
  simp [getBlk, h]

theorem exec_cinv (W : Nat) (fx : Fixes) (n : Node) (op : Op) (ft : Fault)
    (hfresh : ∀ b, op = .store b → Extends n.disk b → Fresh n.disk b) (hp : ∀ e, op ≠ .prune e)
    (hi : CInv n) : CInv (exec W fx n op ft).1 := by
  obtain ⟨c, hwf, hc⟩ := hi
  unfold CInv
  have h0 := disk0_chainKeys W fx n op hp
  have hc0 : Coh c (plan W fx n op).disk0 := coh_of_eq_chainKeys hc h0
  rcases op_atomic_lemma W fx n op ft hp with hd | hd | hd
  · exact ⟨c, hwf, by rw [hd]; exact hc0⟩
  rotate_left
  · exact ⟨c, hwf, by rw [hd]; exact hc⟩
  · rw [hd, exec_none_disk]
    cases plan_shape W fx n op hp with
    | none h => rw [h]; exact ⟨c, hwf, hc0⟩
    | aux ws h ha =>
      rw [h]
      refine ⟨c, hwf, coh_of_eq_chainKeys hc0 ?_⟩
      intro k hk
      simp only [applyCommits, List.foldl_cons, List.foldl_nil]
      exact applyBatch_onlyAux ha _ hk
    | store b ws' hop h ha he hs hr =>
      subst hop
      rw [h]
      simp only [applyCommits, List.foldl_cons, List.foldl_nil]
      have hen := expectedNext_of_coh hc
      rw [he] at hen
      have hnb : NextBlock c (plan W fx n (.store b)).disk0 b := by
        refine ⟨(Prod.mk.inj hen).1, (Prod.mk.inj hen).2, ?_, hr, fresh_congr h0 (hfresh b rfl he)⟩
        rw [← hs, hc.state]
      exact ⟨c ++ [b], wf_append hwf hc0 hnb, coh_append hc0 hnb ha⟩
    | revert h hb tb su ws' hop hcm ha hh hsu hhb htb =>
      subst hop
      rw [hcm]
      simp only [applyCommits, List.foldl_cons, List.foldl_nil]
      have hne : c.length ≠ 0 := by
        intro e
        have := hc.height
        rw [hh] at this
        simp [e] at this
      have hhe : h = c.length - 1 := by
        have := hc.height
        rw [hh] at this
        simp [hne] at this
        exact this
      obtain ⟨c', last, rfl⟩ : ∃ c' last, c = c' ++ [last] := by
        have hnil : c ≠ [] := by intro e; subst e; exact hne rfl
        exact ⟨c.dropLast, c.getLast hnil, (List.dropLast_concat_getLast hnil).symm⟩
      have hlen : h = c'.length := by simp at hhe; exact hhe
      have hat : (c' ++ [last])[h]? = some last := by
        rw [hlen, List.getElem?_append_right (Nat.le_refl _)]; simp
      have e1 : su = last := by
        have := getBlk_of_eq (d := n.disk) (k := .su h) (x := last) (by rw [hc.su h, hat])
        rw [hsu] at this; exact Option.some.inj this
      have e2 : hb = last := by
        have := getBlk_of_eq (d := n.disk) (k := .header h) (x := last) (by rw [hc.header h, hat])
        rw [hhb] at this; exact Option.some.inj this
      have e3 : tb = last := by
        have := getBlk_of_eq (d := n.disk) (k := .txs h) (x := last) (by rw [hc.txs h, hat])
        rw [htb] at this; exact Option.some.inj this
      subst e1 e2 e3
      rw [hlen]
      exact ⟨c', wf_prefix hwf, coh_prefix hwf hc0 ha⟩

theorem cinv_init_wf : WfChain [] := by
  refine ⟨?_, ?_, ?_, by simp, by simp⟩ <;> intros <;> simp_all

theorem cinv_init_coh : Coh [] Node.init.disk := by
  refine ⟨?_, ?_, ?_, ?_, ?_, ?_, ?_, ?_⟩ <;>
    intros <;> simp_all [Node.init, Disk.empty, getHeight, stateRoot, lookupTx]

theorem cinv_init : CInv Node.init := ⟨[], cinv_init_wf, cinv_init_coh⟩

/-- Every reachable image, under every fault schedule, describes exactly one well-formed chain. -/
theorem consistent_image_chain (W : Nat) (fx : Fixes) : ∀ (hs : List (Op × Fault)) (n : Node),
    CInv n → ValidHist W fx n hs → CInv (run W fx n hs) := by
  intro hs
  induction hs with
  | nil => intro n hi _; exact hi
  | cons x rest ih =>
    intro n hi hv
    obtain ⟨op, ft⟩ := x
    simp only [ValidHist] at hv
    simp only [run]
    apply ih _ _ hv.2
    have hp : ∀ e, op ≠ .prune e := by
      intro e he; subst he; exact hv.1
    apply exec_cinv W fx n op ft _ hp hi
    intro b hb
    subst hb
    exact hv.1

end Juno.C05
