import JunoModel.C05.ProofsPrune
/-! Helper lemmas for C05, part 13: Store and RevertHead on a pruned node keep the image that of
the chain pruned below the same floor. -/
namespace Juno.C05

theorem lookupTxF_append {c : List Block} {b : Block} {F t : Nat} (hwf : WfChain (c ++ [b]))
    (hF : F ≤ c.length) :
    lookupTxF (c ++ [b]) F t =
      match lookupTxF c F t, lookupTx c t with
      | some v, _ => some v
      | none, some _ => none
      | none, none =>
        (match b.txs.idxOf? t with
          | some i => some (.idx b.num i)
          | none => none) := by
  have hnum : b.num = c.length := hwf.num c.length b (by
    rw [List.getElem?_append_right (Nat.le_refl _)]; simp)
  unfold lookupTxF
  rw [lookupTx_append]
  cases hl : lookupTx c t with
  | none =>
    cases hi : List.idxOf? t b.txs with
    | none => simp
    | some i =>
      have : ¬ b.num < F := by omega
      simp [this]
  | some v =>
    cases v with
    | idx n i => by_cases h : n < F <;> simp [h]
    | num x => simp
    | blk x => simp
    | win x => simp
    | snap x y => simp

/-- Storing the next block on an image pruned below `F`. -/
theorem pcoh_append {lag : Nat} {c : List Block} {F : Nat} {d : Disk} {b : Block} {ws : List Write}
    (hwf' : WfChain (c ++ [b])) (hp : PCoh lag c F d) (hF : F ≤ c.length) (hnd : b.txs.Nodup)
    (hfh : c.find? (fun x => x.hash = b.hash) = none)
    (hft : ∀ t ∈ b.txs, lookupTx c t = none) (haux : OnlyAux ws) :
    PCoh lag (c ++ [b]) F (applyBatch d (blockWrites b ++ ws)) := by
  have hnum : b.num = c.length := hwf'.num c.length b (by
    rw [List.getElem?_append_right (Nat.le_refl _)]; simp)
  have hat : (c ++ [b])[c.length]? = some b := by
    rw [List.getElem?_append_right (Nat.le_refl _)]; simp
  have elem : ∀ n, (c ++ [b])[n]? = if n = b.num then some b else c[n]? := by
    intro n
    by_cases h1 : n < c.length
    · rw [List.getElem?_append_left h1]; simp [hnum, Nat.ne_of_lt h1]
    · by_cases h2 : n = c.length
      · subst h2; simp [hnum]
      · have h3 : (c ++ [b])[n]? = none := List.getElem?_eq_none (by simp; omega)
        have h4 : c[n]? = none := List.getElem?_eq_none (by omega)
        simp [h3, h4, hnum, h2]
  refine ⟨?_, ?_, ?_, ?_, ?_, ?_, ?_, ?_⟩
  · have : applyBatch d (blockWrites b ++ ws) .height = some (.num b.num) := by
      rw [store_lookup haux (k := .height) trivial, blockWrites_lookup d b hnd]
    simp [getHeight, this, hnum]
  · intro n
    rw [store_lookup haux (k := .header n) trivial, blockWrites_lookup d b hnd, elem]
    by_cases e : n = b.num
    · have : ¬ n + lag < F := by omega
      simp [e, this]
      omega
    · simp [e, hp.header]
  · intro n
    rw [store_lookup haux (k := .txs n) trivial, blockWrites_lookup d b hnd, elem]
    by_cases e : n = b.num
    · have : ¬ b.num < F := by omega
      simp [e, this]
    · simp [e, hp.txs]
  · intro n
    rw [store_lookup haux (k := .su n) trivial, blockWrites_lookup d b hnd, elem]
    by_cases e : n = b.num
    · have : ¬ b.num < F := by omega
      simp [e, this]
    · simp [e, hp.su]
  · intro n
    rw [store_lookup haux (k := .commit n) trivial, blockWrites_lookup d b hnd]
    by_cases e : n = b.num
    · have : F ≤ b.num ∧ b.num < (c ++ [b]).length := by simp; omega
      simp [e, this]
      omega
    · simp only [e, if_false, hp.commit, List.length_append, List.length_singleton]
      by_cases h1 : F ≤ n ∧ n < c.length
      · have : F ≤ n ∧ n < c.length + 1 := by omega
        simp [h1, this]
      · have : ¬ (F ≤ n ∧ n < c.length + 1) := by omega
        simp [h1, this]
  · intro h
    rw [store_lookup haux (k := .numByHash h) trivial, blockWrites_lookup d b hnd, List.find?_append]
    by_cases e : h = b.hash
    · subst e
      have : ¬ b.num + 1 < F := by omega
      simp [hfh, this]
    · have : [b].find? (fun x => decide (x.hash = h)) = none := by simp [Ne.symm e]
      simp only [e, if_false, hp.numByHash, this, Option.or_none]
  · intro t
    rw [store_lookup haux (k := .txLookup t) trivial, blockWrites_lookup d b hnd,
      lookupTxF_append hwf' hF, hp.txLookup]
    cases hi : List.idxOf? t b.txs with
    | none =>
      simp only [hi]
      cases h1 : lookupTxF c F t with
      | some v => rfl
      | none => cases lookupTx c t <;> rfl
    | some j =>
      have hmem : t ∈ b.txs := by
        apply Classical.byContradiction
        intro hn'
        rw [List.idxOf?_eq_none_iff.mpr hn'] at hi
        cases hi
      have hnone := hft t hmem
      have : lookupTxF c F t = none := by simp [lookupTxF, hnone]
      simp [hi, this, hnone]
  · have : applyBatch d (blockWrites b ++ ws) .state = some (.num b.root) := by
      rw [store_lookup haux (k := .state) trivial, blockWrites_lookup d b hnd]
    simp [stateRoot, this]

/-- Reverting the head (not pruned: `F ≤` its number) of an image pruned below `F`. -/
theorem pcoh_prefix {lag : Nat} {c' : List Block} {F : Nat} {d : Disk} {last : Block} {ws : List Write}
    (hwf : WfChain (c' ++ [last])) (hp : PCoh lag (c' ++ [last]) F d) (hF : F ≤ c'.length)
    (haux : OnlyAux ws) :
    PCoh lag c' F (applyBatch d (revertWrites c'.length last last last ++ ws)) := by
  have elem : ∀ n, (c' ++ [last])[n]? = if n = c'.length then some last else c'[n]? := by
    intro n
    by_cases h1 : n < c'.length
    · rw [List.getElem?_append_left h1]; simp [Nat.ne_of_lt h1]
    · by_cases h2 : n = c'.length
      · subst h2; rw [List.getElem?_append_right (Nat.le_refl _)]; simp
      · have h3 : (c' ++ [last])[n]? = none := List.getElem?_eq_none (by simp; omega)
        have h4 : c'[n]? = none := List.getElem?_eq_none (by omega)
        simp [h3, h4, h2]
  have hnone : c'[c'.length]? = none := List.getElem?_eq_none (Nat.le_refl _)
  have hhashes := hwf.hashes
  rw [List.map_append, List.nodup_append] at hhashes
  have htxs := hwf.txs
  rw [List.flatMap_append, List.nodup_append] at htxs
  refine ⟨?_, ?_, ?_, ?_, ?_, ?_, ?_, ?_⟩
  · have : applyBatch d (revertWrites c'.length last last last ++ ws) .height =
        if c'.length = 0 then none else some (.num (c'.length - 1)) := by
      rw [revert_lookup haux (k := .height) trivial, revertWrites_lookup]
    simp only [getHeight, this]
    by_cases h0 : c'.length = 0 <;> simp [h0]
  · intro n
    rw [revert_lookup haux (k := .header n) trivial, revertWrites_lookup]
    by_cases e : n = c'.length
    · simp [e, hnone]
    · have := hp.header n; rw [elem] at this; simp [e] at this; simp [e, this]
  · intro n
    rw [revert_lookup haux (k := .txs n) trivial, revertWrites_lookup]
    by_cases e : n = c'.length
    · simp [e, hnone]
    · have := hp.txs n; rw [elem] at this; simp [e] at this; simp [e, this]
  · intro n
    rw [revert_lookup haux (k := .su n) trivial, revertWrites_lookup]
    by_cases e : n = c'.length
    · simp [e, hnone]
    · have := hp.su n; rw [elem] at this; simp [e] at this; simp [e, this]
  · intro n
    rw [revert_lookup haux (k := .commit n) trivial, revertWrites_lookup]
    by_cases e : n = c'.length
    · simp [e]
    · have := hp.commit n
      simp only [List.length_append, List.length_singleton] at this
      simp only [e, if_false, this]
      by_cases h1 : F ≤ n ∧ n < c'.length
      · have : F ≤ n ∧ n < c'.length + 1 := by omega
        simp [h1, this]
      · have : ¬ (F ≤ n ∧ n < c'.length + 1) := by omega
        simp [h1, this]
  · intro x
    rw [revert_lookup haux (k := .numByHash x) trivial, revertWrites_lookup]
    have := hp.numByHash x
    rw [List.find?_append] at this
    by_cases e : x = last.hash
    · subst e
      have : c'.find? (fun b => b.hash = last.hash) = none := by
        rw [find_hash_none_iff]
        intro hm
        exact hhashes.2.2 _ hm _ (by simp) rfl
      simp [this]
    · have h1 : [last].find? (fun b => decide (b.hash = x)) = none := by simp [Ne.symm e]
      rw [h1, Option.or_none] at this
      simp [e, this]
  · intro t
    rw [revert_lookup haux (k := .txLookup t) trivial, revertWrites_lookup]
    have := hp.txLookup t
    rw [lookupTxF_append hwf hF] at this
    by_cases e : t ∈ last.txs
    · have hl : lookupTx c' t = none := by
        rw [lookupTx_none_iff]
        intro hm
        exact htxs.2.2 _ hm _ (by simpa using e) rfl
      simp [e, lookupTxF, hl]
    · have hi : List.idxOf? t last.txs = none := List.idxOf?_eq_none_iff.mpr e
      simp only [hi] at this
      simp only [e, if_false, this]
      cases h1 : lookupTxF c' F t with
      | some v => rfl
      | none =>
        cases h2 : lookupTx c' t with
        | none => rfl
        | some v => rfl
  · have : applyBatch d (revertWrites c'.length last last last ++ ws) .state = some (.num last.oldRoot) := by
      rw [revert_lookup haux (k := .state) trivial, revertWrites_lookup]
    simp only [stateRoot, this]
    by_cases h0 : c'.length = 0
    · have : c' = [] := List.eq_nil_of_length_eq_zero h0
      subst this
      have := hwf.first last (by simp)
      simp [this.2]
    · have hlt : c'.length - 1 < c'.length := by omega
      have hx : (c' ++ [last])[c'.length - 1]? = some c'[c'.length - 1] := by
        rw [List.getElem?_append_left hlt, List.getElem?_eq_getElem hlt]
      have hy : (c' ++ [last])[c'.length - 1 + 1]? = some last := by
        rw [show c'.length - 1 + 1 = c'.length by omega, List.getElem?_append_right (Nat.le_refl _)]; simp
      have := (hwf.link _ _ _ hx hy).2
      rw [getLast?_eq_getElem?, List.getElem?_eq_getElem hlt]
      simp [this]

end Juno.C05
