import JunoModel.C05.ProofsP2
/-!
Helper lemmas for C05, part 21 (round 5): Store on a node pruned below `F` — every refusal, the
stored block, and what the extended image looks like (incl. the window a rollover persists).
-/
namespace Juno.C05

theorem expectedNext_of_pcoh {lag : Nat} {c : List Block} {F : Nat} {d : Disk} (hp : PCoh lag c F d)
    (hF : F ≤ c.length - 1) : expectedNext d = (c.length, (c.getLast?.map (·.hash)).getD 0) := by
  unfold expectedNext
  rw [hp.height]
  by_cases hl : c.length = 0
  · have : c = [] := List.eq_nil_of_length_eq_zero hl
    subst this
    simp
  · simp only [hl, if_false]
    have hlt : c.length - 1 < c.length := by omega
    have hh := hp.header (c.length - 1)
    rw [if_neg (by omega)] at hh
    simp only [getBlk, hh, List.getElem?_eq_getElem hlt, Option.map_some]
    rw [getLast?_eq_getElem?, List.getElem?_eq_getElem hlt]
    simp
    omega

/-- From the disk's view (`Fresh`) and the collision-freeness against pruned blocks (`FreshBelow`):
the offered block reuses no hash and no transaction hash of ANY block of the chain. -/
theorem freshAll_of_valid {lag : Nat} {c : List Block} {F : Nat} {d : Disk} {ever : List Block} {b : Block}
    (hp : PCoh lag c F d) (hev : ∀ x ∈ c, x ∈ ever) (hfr : Fresh d b)
    (hfb : FreshBelow ever F b) :
    c.find? (fun x => x.hash = b.hash) = none ∧ ∀ t ∈ b.txs, lookupTx c t = none := by
  constructor
  · cases hf : c.find? (fun x => x.hash = b.hash) with
    | none => rfl
    | some x =>
      exfalso
      have hm := List.mem_of_find?_eq_some hf
      have hh : x.hash = b.hash := by simpa using List.find?_some hf
      by_cases hlt : x.num + 1 < F
      · exact (hfb x (hev x hm) (by omega)).1 hh
      · have := hp.numByHash b.hash
        rw [hf, hfr.1] at this
        simp [hlt] at this
  · intro t ht
    cases hl : lookupTx c t with
    | none => rfl
    | some v =>
      exfalso
      obtain ⟨x, i, hx, hv, htx⟩ := lookupTx_some hl
      by_cases hlt : x.num < F
      · exact (hfb x (hev x hx) hlt).2 t ht htx
      · have := hp.txLookup t
        rw [hfr.2.1 t ht, lookupTxF, hl, hv] at this
        simp [hlt] at this

theorem wf_append_of_fresh {c : List Block} {b : Block} (hwf : WfChain c) (hnum : b.num = c.length)
    (hpar : b.parent = (c.getLast?.map (·.hash)).getD 0)
    (hold : b.oldRoot = (c.getLast?.map (·.root)).getD 0)
    (hfh : c.find? (fun x => x.hash = b.hash) = none) (hft : ∀ t ∈ b.txs, lookupTx c t = none)
    (hnd : b.txs.Nodup) : WfChain (c ++ [b]) := by
  have hhash : b.hash ∉ c.map (·.hash) := by rw [← find_hash_none_iff]; exact hfh
  have htx : ∀ t ∈ b.txs, t ∉ c.flatMap (·.txs) := by
    intro t ht
    rw [← lookupTx_none_iff]
    exact hft t ht
  have hat : (c ++ [b])[c.length]? = some b := by
    rw [List.getElem?_append_right (Nat.le_refl _)]; simp
  refine ⟨?_, ?_, ?_, ?_, ?_⟩
  · intro i x hx
    by_cases h1 : i < c.length
    · rw [List.getElem?_append_left h1] at hx
      exact hwf.num i x hx
    · by_cases h2 : i = c.length
      · subst h2; rw [hat] at hx; cases hx; exact hnum
      · have : (c ++ [b])[i]? = none := List.getElem?_eq_none (by simp; omega)
        rw [this] at hx; cases hx
  · intro i x y hx hy
    by_cases h1 : i + 1 < c.length
    · rw [List.getElem?_append_left (by omega)] at hx
      rw [List.getElem?_append_left h1] at hy
      exact hwf.link i x y hx hy
    · by_cases h2 : i + 1 = c.length
      · rw [List.getElem?_append_left (by omega)] at hx
        rw [h2, hat] at hy
        cases hy
        have hlast : c.getLast? = some x := by
          rw [getLast?_eq_getElem?, ← hx]; congr 1; omega
        rw [hpar, hold, hlast]
        simp
      · have : (c ++ [b])[i + 1]? = none := List.getElem?_eq_none (by simp; omega)
        rw [this] at hy; cases hy
  · intro x hx
    by_cases h0 : 0 < c.length
    · rw [List.getElem?_append_left h0] at hx
      exact hwf.first x hx
    · have hl : c = [] := List.eq_nil_of_length_eq_zero (by omega)
      subst hl
      simp at hx
      subst hx
      rw [hpar, hold]
      simp
  · rw [List.map_append, List.nodup_append]
    refine ⟨hwf.hashes, by simp, ?_⟩
    intro a ha b' hb' e
    simp at hb'
    subst hb'
    subst e
    exact hhash ha
  · rw [List.flatMap_append, List.nodup_append]
    refine ⟨hwf.txs, by simpa using hnd, ?_⟩
    intro a ha b' hb' e
    simp at hb'
    subst e
    exact htx a hb' ha

/-- The image after the batch of a Store (block records + what the filter's insert hands to the
batch: nothing, or the complete window at a rollover) on a node pruned below `F`. -/
theorem pimg_store {W : Nat} (hW : 0 < W) {c : List Block} {F : Nat} {d : Disk} {b : Block} {f f' : Filt}
    {ws : List Write} (hwf : WfChain c) (hwf' : WfChain (c ++ [b])) (hp : PImg W blockHashLag c F d)
    (hF : F ≤ c.length) (hnumb : b.num = c.length) (hnd : b.txs.Nodup)
    (hfh : c.find? (fun x => x.hash = b.hash) = none) (hft : ∀ t ∈ b.txs, lookupTx c t = none)
    (hins : f.insert W b.bits b.num = some (f', ws))
    (hws : (ws = [] ∧ (c.length + 1) % W ≠ 0) ∨
       (∃ w', ws = [.put (.win (wstart W c.length)) (.win w')] ∧ (c.length + 1) % W = 0 ∧
          w'.lo = wstart W c.length ∧
          ∀ x i, wstart W c.length ≤ x → x < wstart W c.length + W → bitIn (forget F c ++ [b]) x i →
            w'.has x i = true)) :
    PImg W blockHashLag (c ++ [b]) F (applyBatch d (blockWrites b ++ ws)) := by
  have hnum := hwf.num
  have haux := insert_onlyAux hins
  have hlenc : (c ++ [b]).length = c.length + 1 := by simp
  have hnlt : ¬ b.num < F := by omega
  have hwin : ∀ lo, applyBatch d (blockWrites b ++ ws) (.win lo) = applyBatch d ws (.win lo) := by
    intro lo
    rw [applyBatch_append]
    rcases hws with ⟨rfl, _⟩ | ⟨w', rfl, _⟩
    · simp only [applyBatch_nil]; rw [blockWrites_lookup _ b hnd]
    · simp only [applyBatch, List.foldl_cons, List.foldl_nil, applyW]
      split
      · rfl
      · have := blockWrites_lookup d b hnd (.win lo)
        simp only [applyBatch] at this; exact this
  have hsnap : applyBatch d (blockWrites b ++ ws) .snap = d .snap := by
    rw [applyBatch_append]
    have h0 : applyBatch d (blockWrites b) .snap = d .snap := by
      rw [blockWrites_lookup _ b hnd]
    rcases hws with ⟨rfl, _⟩ | ⟨w', rfl, _⟩
    · simp only [applyBatch_nil]; exact h0
    · simp only [applyBatch, List.foldl_cons, List.foldl_nil, applyW] at h0 ⊢
      simp [h0]
  have hold := hp.wins
  refine ⟨pcoh_append hwf' hp.pcoh hF hnd hfh hft haux, ⟨?_, ?_⟩, ?_⟩
  · intro lo
    simp only [getWin, hwin lo, hlenc]
    rcases hws with ⟨rfl, hmod⟩ | ⟨w', rfl, hmod, _, _⟩
    · simp only [applyBatch_nil]
      have := hold.exist lo
      simp only [getWin] at this
      rw [this]
      constructor
      · rintro ⟨a, b', e⟩; exact ⟨a, by omega, e⟩
      · rintro ⟨a, b', e⟩
        refine ⟨a, ?_, e⟩
        by_cases e2 : lo + W = c.length + 1
        · exfalso; apply hmod
          have : (c.length + 1) % W = (lo + W) % W := by rw [e2]
          rw [this, Nat.add_mod_right]; exact a
        · omega
    · simp only [applyBatch, List.foldl_cons, List.foldl_nil, applyW]
      have hend : wstart W c.length + W = c.length + 1 := by
        have h1 := wstart_of_mod_zero hmod
        rcases wstart_succ hW c.length with ⟨ha, _⟩ | ⟨_, hb⟩
        · omega
        · have := wstart_le W c.length; have := lt_wstart_add hW c.length; omega
      by_cases e : lo = wstart W c.length
      · subst e
        simp [wstart_mod, hend, wstart_mono W hF]
      · have hne : Key.win lo ≠ .win (wstart W c.length) := by intro h; cases h; exact e rfl
        simp only [hne, if_false]
        have := hold.exist lo
        simp only [getWin] at this
        rw [this]
        constructor
        · rintro ⟨a, b', e3⟩; exact ⟨a, by omega, e3⟩
        · rintro ⟨a, b', e3⟩
          refine ⟨a, ?_, e3⟩
          by_cases e2 : lo + W = c.length + 1
          · exfalso; apply e
            have h5 := wstart_le W c.length
            have h6 := lt_wstart_add hW c.length
            omega
          · omega
  · intro lo w hget
    rw [getWin_congr (hwin lo)] at hget
    have oldcase : ∀ w0, getWin d lo = some w0 →
        w0.lo = lo ∧ ∀ x i, lo ≤ x → F ≤ x → x < lo + W → bitIn (c ++ [b]) x i → w0.has x i = true := by
      intro w0 h0
      have hex : (getWin d lo).isSome = true := by rw [h0]; rfl
      have hcomp := (hold.exist lo).mp hex
      obtain ⟨hl, hs⟩ := hold.sound lo w0 h0
      refine ⟨hl, ?_⟩
      intro x i h1 hFx h2 hb
      exact hs x i h1 hFx h2 (bitIn_of_append_lt (by omega) hb)
    rcases hws with ⟨rfl, _⟩ | ⟨w', rfl, hmod, hwlo, hsound⟩
    · exact oldcase w hget
    · by_cases e : lo = wstart W c.length
      · subst e
        have : getWin (applyBatch d [Write.put (.win (wstart W c.length)) (.win w')]) (wstart W c.length) = some w' := by
          simp [getWin, applyBatch, applyW]
        rw [this] at hget
        cases hget
        refine ⟨hwlo, ?_⟩
        intro x i h1 hFx h2 hb
        apply hsound x i h1 h2
        rw [← forget_append hnlt]
        exact bitIn_forget_of_ge hwf'.num hFx hb
      · have hne : Key.win lo ≠ .win (wstart W c.length) := by intro h; cases h; exact e rfl
        have : getWin (applyBatch d [Write.put (.win (wstart W c.length)) (.win w')]) lo = getWin d lo := by
          apply getWin_congr
          simp [applyBatch, applyW, hne]
        rw [this] at hget
        exact oldcase w hget
  · have hthis := hp.snap
    unfold SnapOKP at hthis ⊢
    rw [hsnap]
    cases hsn : d .snap with
    | none => trivial
    | some v =>
      rw [hsn] at hthis
      cases v with
      | snap w nx =>
        obtain ⟨h1', h2', h3'⟩ := hthis
        refine ⟨by rw [hlenc]; omega, h2', ?_⟩
        intro x i hx1 hFx hx2 hb
        exact h3' x i hx1 hFx hx2 (bitIn_of_append_lt (by omega) hb)
      | num x => exact hthis
      | blk x => exact hthis
      | idx x y => exact hthis
      | win x => exact hthis

/-- The plan of a Store from a good pruning node: a refusal (chain unchanged, memory dropped) or
the block appended. -/
theorem planOK_store {W : Nat} (hW : 0 < W) {c : List Block} {F : Nat} {n : Node} {ever : List Block}
    {b : Block} (hg : GoodP W c F n) (hev : ∀ x ∈ c, x ∈ ever)
    (hv : Extends n.disk b → Fresh n.disk b ∧ FreshBelow ever (floorOf n.disk) b) :
    ∃ c', (c' = c ∨ c' = c ++ [b]) ∧
      PlanOK W c c' F (.store b) (planG (initFilterP W) W Fixes.all n (.store b))
        (failMemG (initFilterP W) W Fixes.all n (.store b)) := by
  have hfm : failMemG (initFilterP W) W Fixes.all n (.store b) =
      (planG (initFilterP W) W Fixes.all n (.store b)).mem := rfl
  have hpl : planG (initFilterP W) W Fixes.all n (.store b) = storePlanG (initFilterP W) W n b := rfl
  rw [hfm, hpl]
  -- a refusal before anything is touched
  have refuse : ∀ e, storePlanG (initFilterP W) W n b = ⟨n.disk, [], n.mem, .err e⟩ →
      ∃ c', (c' = c ∨ c' = c ++ [b]) ∧ PlanOK W c c' F (.store b) (storePlanG (initFilterP W) W n b)
        (storePlanG (initFilterP W) W n b).mem := by
    intro e he
    rw [he]
    exact ⟨c, Or.inl rfl, by simp, hg.img, by simpa [applyCommits] using hg.img, trivial, trivial, hg.wf, hg.floor⟩
  have hen := expectedNext_of_pcoh hg.img.pcoh hg.floor
  by_cases h1 : (expectedNext n.disk).1 ≠ b.num
  · exact refuse .succession (by simp only [storePlanG]; rw [if_pos h1])
  by_cases h2 : (expectedNext n.disk).2 ≠ b.parent
  · exact refuse .parent (by simp only [storePlanG]; rw [if_neg h1, if_pos h2])
  by_cases h3 : stateRoot n.disk ≠ b.oldRoot
  · exact refuse .state (by simp only [storePlanG]; rw [if_neg h1, if_neg h2, if_pos h3])
  by_cases h4 : b.applied ≠ b.root
  · exact refuse .state (by simp only [storePlanG]; rw [if_neg h1, if_neg h2, if_neg h3, if_pos h4])
  -- the block extends the head
  have hnumb : b.num = c.length := by rw [hen] at h1; simp at h1; exact h1.symm
  have hpar : b.parent = (c.getLast?.map (·.hash)).getD 0 := by rw [hen] at h2; simp at h2; exact h2.symm
  have hold : b.oldRoot = (c.getLast?.map (·.root)).getD 0 := by
    rw [hg.img.pcoh.state] at h3; simp at h3; exact h3.symm
  have hext : Extends n.disk b := by
    unfold Extends; rw [hen, hnumb, hpar]
  obtain ⟨hfr, hfb⟩ := hv hext
  rw [floorOf_of_pcoh hg.img.pcoh hg.floor] at hfb
  obtain ⟨hfh, hft⟩ := freshAll_of_valid hg.img.pcoh hev hfr hfb
  have hwf' := wf_append_of_fresh hg.wf hnumb hpar hold hfh hft hfr.2.2
  obtain ⟨hg1, ⟨f, hmem, hf⟩, _⟩ := ensureInitP_goodP hW hg
  have hFle : F ≤ c.length := by have := hg.floor; omega
  have hnlt : ¬ b.num < F := by omega
  have hfF := filtOK_forget hg.wf.num hf
  have hnb' : b.num = (forget F c).length := by rw [forget_length]; exact hnumb
  obtain ⟨f', ws, hins, hf', hws⟩ := insert_filtOK hW hfF hnb'
  rw [forget_length] at hws
  have hplan : storePlanG (initFilterP W) W n b =
      ⟨(ensureInitG (initFilterP W) n).disk, [blockWrites b ++ ws], .ready f', .ok⟩ := by
    simp only [storePlanG]
    rw [if_neg h1, if_neg h2, if_neg h3, if_neg h4]
    simp only [hmem, hins]
  rw [hplan]
  refine ⟨c ++ [b], Or.inr rfl, by simp, hg1.img, ?_, ?_, trivial, hwf', by simp; omega⟩
  · simp only [applyCommits, List.foldl_cons, List.foldl_nil]
    exact pimg_store hW hg.wf hwf' hg1.img hFle hnumb hfr.2.2 hfh hft hins hws
  · show FiltOKP W (c ++ [b]) F f'
    apply filtOKP_of_forget hwf'.num
    rw [forget_append hnlt]
    exact hf'

end Juno.C05
