import JunoModel.C05.Model
/-!
C05 — the vocabulary of the property statements: what it means for a disk image to describe a
chain (`Coh`), for the persisted bloom windows / the persisted snapshot / the in-memory running
filter to describe that chain (`WinsOK`, `SnapOK`, `FiltOK`), and which inputs / histories the
statements quantify over. Core Lean only.
-/
namespace Juno.C05

/-- A chain as the node should hold it: block `i` has number `i`, links to its parent by hash and
by state root, block hashes are pairwise distinct and so are all transaction hashes (an ideal
collision-free hash: a block hash commits to number and parent, a transaction hash to its nonce). -/
structure WfChain (c : List Block) : Prop where
  num : ∀ (i : Nat) (x : Block), c[i]? = some x → x.num = i
  link : ∀ (i : Nat) (x y : Block), c[i]? = some x → c[i + 1]? = some y →
    y.parent = x.hash ∧ y.oldRoot = x.root
  first : ∀ x : Block, c[0]? = some x → x.parent = 0 ∧ x.oldRoot = 0
  hashes : (c.map (·.hash)).Nodup
  txs : (c.flatMap (·.txs)).Nodup

/-- Position of transaction `t` in the chain. -/
def lookupTx : List Block → Nat → Option Val
  | [], _ => none
  | b :: rest, t =>
    match b.txs.idxOf? t with
    | some i => some (.idx b.num i)
    | none => lookupTx rest t

/-- The disk image describes exactly the chain `c`: every record of every block is present and
is that block's, nothing else is (no record above the head, no dangling hash or transaction
lookup), the height is the last block's number, the state is the head's. All "block" buckets of
the database are covered: header by number, number by hash, transactions+receipts, transaction
lookups, state update, commitments, state, chain height. -/
structure Coh (c : List Block) (d : Disk) : Prop where
  height : getHeight d = if c.length = 0 then none else some (c.length - 1)
  header : ∀ n, d (.header n) = (c[n]?).map Val.blk
  txs : ∀ n, d (.txs n) = (c[n]?).map Val.blk
  su : ∀ n, d (.su n) = (c[n]?).map Val.blk
  commit : ∀ n, d (.commit n) = if n < c.length then some (.num n) else none
  numByHash : ∀ h, d (.numByHash h) = (c.find? (fun b => b.hash = h)).map (fun b => Val.num b.num)
  txLookup : ∀ t, d (.txLookup t) = lookupTx c t
  state : stateRoot d = (c.getLast?.map (·.root)).getD 0

/-- The stored block is new to the node: its hash and its transaction hashes are not in use. -/
def Fresh (d : Disk) (b : Block) : Prop :=
  d (.numByHash b.hash) = none ∧ (∀ t ∈ b.txs, d (.txLookup t) = none) ∧ b.txs.Nodup

/-- The offered block passes `verifyBlockSuccession` on this disk (number and parent). -/
def Extends (d : Disk) (b : Block) : Prop := expectedNext d = (b.num, b.parent)

/-- Histories in which every block that EXTENDS the head when it is offered is fresh. Offers the
node must refuse (a block it already holds, an orphan, a gap) are unrestricted. -/
def ValidHist (W : Nat) (fx : Fixes) : Node → List (Op × Fault) → Prop
  | _, [] => True
  | n, (op, ft) :: rest =>
    (match op with
      | .store b => Extends n.disk b → Fresh n.disk b
      | .prune _ => False
      | _ => True) ∧ ValidHist W fx (exec W fx n op ft).1 rest

/-- Bit `i` is set in the bloom of block `b` of the chain. -/
def bitIn (c : List Block) (b i : Nat) : Prop := ∃ blk, c[b]? = some blk ∧ i ∈ blk.bits

/-- The running filter describes the chain: it expects the chain's next block, its window is the
aligned window of that block, and it has no false negative for any block of the chain in it. -/
structure FiltOK (W : Nat) (c : List Block) (f : Filt) : Prop where
  next : f.next = c.length
  lo : f.win.lo = wstart W c.length
  sound : ∀ b i, f.win.lo ≤ b → b < c.length → bitIn c b i → f.win.has b i = true

/-- The persisted windows are exactly the complete windows of the chain, each without false
negatives. -/
structure WinsOK (W : Nat) (c : List Block) (d : Disk) : Prop where
  exist : ∀ lo, (getWin d lo).isSome = true ↔ (lo % W = 0 ∧ lo + W ≤ c.length)
  sound : ∀ lo w, getWin d lo = some w →
    w.lo = lo ∧ ∀ b i, lo ≤ b → b < lo + W → bitIn c b i → w.has b i = true

/-- The persisted snapshot, if any, describes a prefix of the present chain. -/
def SnapOK (W : Nat) (c : List Block) (d : Disk) : Prop :=
  match d .snap with
  | none => True
  | some (.snap w nx) =>
    nx ≤ c.length ∧ w.lo = wstart W nx ∧ ∀ b i, w.lo ≤ b → b < nx → bitIn c b i → w.has b i = true
  | some _ => False

def MemOK (W : Nat) (c : List Block) : Mem → Prop
  | .lazy => True
  | .ready f => FiltOK W c f
  | .broken => False

/-- Everything the property asks of a node at rest. -/
structure Good (W : Nat) (c : List Block) (n : Node) : Prop where
  wf : WfChain c
  coh : Coh c n.disk
  wins : WinsOK W c n.disk
  snap : SnapOK W c n.disk
  mem : MemOK W c n.mem

/-- The next block the network would offer on top of chain `c`. -/
structure NextBlock (c : List Block) (d : Disk) (b : Block) : Prop where
  num : b.num = c.length
  parent : b.parent = (c.getLast?.map (·.hash)).getD 0
  oldRoot : b.oldRoot = (c.getLast?.map (·.root)).getD 0
  newRoot : b.applied = b.root
  fresh : Fresh d b

/-- No commit of a Store / RevertHead is made to fail and no write of a lazy filter initialisation
(crashes are allowed everywhere). -/
def NoFailedChainCommit : List (Op × Fault) → Prop
  | [] => True
  | (op, ft) :: rest =>
    (match op, ft with
      | .store _, .failAt _ => False
      | .revert, .failAt _ => False
      | _, .failInit => False
      | _, _ => True) ∧ NoFailedChainCommit rest

/-- A revert is "safe" for the unrepaired code when it does not take the chain below a persisted
snapshot (lead L3) and does not remove the last block of a window (lead L15). -/
def RevertSafe (W : Nat) (d : Disk) : Prop :=
  match getHeight d with
  | none => True
  | some h =>
    (h + 1) % W ≠ 0 ∧
    (match d .snap with
      | some (.snap _ nx) => nx ≤ h
      | _ => True)

def RevertsSafe (W : Nat) (fx : Fixes) : Node → List (Op × Fault) → Prop
  | _, [] => True
  | n, (op, ft) :: rest =>
    (match op with
      | .revert => RevertSafe W n.disk
      | _ => True) ∧ RevertsSafe W fx (exec W fx n op ft).1 rest

/-! Observations used by the concrete witnesses. -/

def Mem.has? (m : Mem) (b i : Nat) : Option Bool :=
  match m with
  | .ready f => some (f.win.has b i)
  | _ => none

def Mem.next? (m : Mem) : Option Nat :=
  match m with
  | .ready f => some f.next
  | _ => none

/-- What a restarted process initialises its filter to: (`has b i`, `next`). -/
def initObs (W : Nat) (d : Disk) (b i : Nat) : Option (Bool × Nat) :=
  (initFilter W d).map (fun r => (r.1.win.has b i, r.1.next))

end Juno.C05
