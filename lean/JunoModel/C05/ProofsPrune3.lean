import JunoModel.C05.ProofsPrune2
/-!
Helper lemmas for C05, part 14: the event index of a PRUNING node. Floor-relative versions of
`FiltOK` / `WinsOK` / `SnapOK` and the theorem that `pruner.InitializeRunningEventFilter`
(`initFilterP`) builds an exact filter from every image pruned below a floor `F`.

Technique: `forget F c` is the chain `c` with the events of the blocks below `F` forgotten; "no
false negative for any RETAINED block" is `FiltOK` for `forget F c`, so the lemmas about `insert`
and `fill` are reused as they are.
-/
namespace Juno.C05

/-- The running filter of a node pruned below `F` describes the chain: it expects the next block,
its window is the aligned window of that block, no false negative for any RETAINED block in it. -/
structure FiltOKP (W : Nat) (c : List Block) (F : Nat) (f : Filt) : Prop where
  next : f.next = c.length
  lo : f.win.lo = wstart W c.length
  sound : ∀ b i, f.win.lo ≤ b → F ≤ b → b < c.length → bitIn c b i → f.win.has b i = true

/-- The persisted windows of a node pruned below `F`: exactly the complete windows from the floor's
own window on (`pruneAggregatedBloomFiltersUpto` drops the windows entirely below the aligned
floor), each without false negatives for retained blocks. -/
structure WinsOKP (W : Nat) (c : List Block) (F : Nat) (d : Disk) : Prop where
  exist : ∀ lo, (getWin d lo).isSome = true ↔ (lo % W = 0 ∧ lo + W ≤ c.length ∧ wstart W F ≤ lo)
  sound : ∀ lo w, getWin d lo = some w →
    w.lo = lo ∧ ∀ b i, lo ≤ b → F ≤ b → b < lo + W → bitIn c b i → w.has b i = true

/-- The persisted snapshot describes a prefix of the chain (retained blocks only). -/
def SnapOKP (W : Nat) (c : List Block) (F : Nat) (d : Disk) : Prop :=
  match d .snap with
  | none => True
  | some (.snap w nx) =>
    nx ≤ c.length ∧ w.lo = wstart W nx ∧
      ∀ b i, w.lo ≤ b → F ≤ b → b < nx → bitIn c b i → w.has b i = true
  | some _ => False

theorem filtOKP_zero {W : Nat} {c : List Block} {f : Filt} : FiltOKP W c 0 f ↔ FiltOK W c f :=
  ⟨fun h => ⟨h.next, h.lo, fun b i h1 h2 h3 => h.sound b i h1 (Nat.zero_le _) h2 h3⟩,
   fun h => ⟨h.next, h.lo, fun b i h1 _ h2 h3 => h.sound b i h1 h2 h3⟩⟩

/-! ### Forgetting the events of pruned blocks -/

def forgetBits (F : Nat) (b : Block) : Block := if b.num < F then { b with bits := [] } else b

def forget (F : Nat) (c : List Block) : List Block := c.map (forgetBits F)

theorem forgetBits_num (F : Nat) (b : Block) : (forgetBits F b).num = b.num := by
  unfold forgetBits; split <;> rfl

theorem forget_length (F : Nat) (c : List Block) : (forget F c).length = c.length := by
  simp [forget]

theorem forget_getElem (F : Nat) (c : List Block) (n : Nat) :
    (forget F c)[n]? = (c[n]?).map (forgetBits F) := by
  simp [forget]

theorem forget_num {F : Nat} {c : List Block} (hnum : ∀ (i : Nat) (x : Block), c[i]? = some x → x.num = i) :
    ∀ (i : Nat) (x : Block), (forget F c)[i]? = some x → x.num = i := by
  intro i x h
  rw [forget_getElem] at h
  cases hc : c[i]? with
  | none => rw [hc] at h; cases h
  | some y =>
    rw [hc] at h
    simp only [Option.map_some, Option.some.injEq] at h
    rw [← h, forgetBits_num]; exact hnum i y hc

theorem forget_ge {F : Nat} {c : List Block} (hnum : ∀ (i : Nat) (x : Block), c[i]? = some x → x.num = i) {n : Nat}
    (hn : F ≤ n) : (forget F c)[n]? = c[n]? := by
  rw [forget_getElem]
  cases hc : c[n]? with
  | none => rfl
  | some y =>
    have := hnum n y hc
    simp only [Option.map_some, forgetBits]
    rw [if_neg (by omega)]

theorem bitIn_forget {F : Nat} {c : List Block} (hnum : ∀ (i : Nat) (x : Block), c[i]? = some x → x.num = i) {b i : Nat}
    (h : bitIn (forget F c) b i) : F ≤ b ∧ bitIn c b i := by
  obtain ⟨blk, hb, hi⟩ := h
  rw [forget_getElem] at hb
  cases hc : c[b]? with
  | none => rw [hc] at hb; cases hb
  | some y =>
    rw [hc] at hb
    simp only [Option.map_some, Option.some.injEq] at hb
    have hy := hnum b y hc
    by_cases hlt : y.num < F
    · simp only [forgetBits, if_pos hlt] at hb
      rw [← hb] at hi; cases hi
    · simp only [forgetBits, if_neg hlt] at hb
      exact ⟨by omega, y, hc, by rw [hb]; exact hi⟩

theorem filtOKP_of_forget {W : Nat} {c : List Block} {F : Nat} {f : Filt}
    (hnum : ∀ (i : Nat) (x : Block), c[i]? = some x → x.num = i) (h : FiltOK W (forget F c) f) : FiltOKP W c F f := by
  refine ⟨by rw [h.next, forget_length], by rw [h.lo, forget_length], ?_⟩
  intro b i h1 h2 h3 hb
  apply h.sound b i h1 (by rw [forget_length]; exact h3)
  obtain ⟨blk, hg, hi⟩ := hb
  exact ⟨blk, by rw [forget_ge hnum h2]; exact hg, hi⟩

/-! ### `fill` when only the headers from the starting block on are readable -/

theorem fill_filtOK_from {W : Nat} (hW : 0 < W) {c : List Block}
    (hnum : ∀ (i : Nat) (x : Block), c[i]? = some x → x.num = i) :
    ∀ (cnt k : Nat) (f : Filt) (d : Disk), k + cnt = c.length →
      (∀ n, k ≤ n → getBlk d (.header n) = c[n]?) → FiltOK W (c.take k) f →
      ∃ f' d', fill W cnt k f d = some (f', d') ∧ FiltOK W c f' := by
  intro cnt
  induction cnt with
  | zero =>
    intro k f d hk _ hf
    refine ⟨f, d, rfl, ?_⟩
    have : c.take k = c := List.take_of_length_le (by omega)
    rw [this] at hf; exact hf
  | succ cnt ih =>
    intro k f d hk hhdr hf
    have hklt : k < c.length := by omega
    have hx : c[k]? = some c[k] := List.getElem?_eq_getElem hklt
    have hnum' : (c[k]).num = (c.take k).length := by
      rw [List.length_take, Nat.min_eq_left (by omega)]
      exact hnum k _ hx
    obtain ⟨f', ws, hins, hf', _⟩ := insert_filtOK hW hf hnum'
    have hlen : (c.take k).length = k := by rw [List.length_take]; omega
    rw [hlen] at hnum'
    rw [← take_succ_eq hx] at hf'
    simp only [fill, hhdr k (Nat.le_refl k), hx]
    rw [hnum'] at hins
    rw [hins]
    have haux := insert_onlyAux hins
    cases ws with
    | nil => exact ih (k + 1) f' d (by omega) (fun n hn => hhdr n (by omega)) hf'
    | cons w ws' =>
      apply ih (k + 1) f' _ (by omega) _ hf'
      intro n hn
      have : applyBatch d (w :: ws') (.header n) = d (.header n) := applyBatch_onlyAux haux d trivial
      simp only [getBlk, this]
      exact hhdr n (by omega)

/-! ### Window arithmetic -/

theorem wstart_eq_mul (W n : Nat) : wstart W n = W * (n / W) := by
  unfold wstart
  have := Nat.div_add_mod n W
  omega

theorem wstart_mono (W : Nat) {a b : Nat} (h : a ≤ b) : wstart W a ≤ wstart W b := by
  rw [wstart_eq_mul, wstart_eq_mul]
  exact Nat.mul_le_mul_left W (Nat.div_le_div_right h)

/-- Two different window starts are at least a window apart. -/
theorem wstart_gap {W : Nat} (_hW : 0 < W) {a b : Nat} (h : wstart W a < wstart W b) :
    wstart W a + W ≤ wstart W b := by
  rw [wstart_eq_mul, wstart_eq_mul] at *
  have hq : a / W < b / W := Nat.lt_of_mul_lt_mul_left h
  have := Nat.mul_le_mul_left W (Nat.succ_le_of_lt hq)
  rw [Nat.mul_succ] at this
  exact this

/-- A block inside an aligned window has that window's start. -/
theorem wstart_eq_of_mem {W : Nat} (hW : 0 < W) {lo n : Nat} (hlo : lo % W = 0) (h1 : lo ≤ n)
    (h2 : n < lo + W) : wstart W n = lo := by
  have hle : lo ≤ wstart W n := by
    have := wstart_mono W h1
    rw [wstart_of_mod_zero hlo] at this; exact this
  apply Classical.byContradiction
  intro hne
  have hlt : wstart W lo < wstart W n := by rw [wstart_of_mod_zero hlo]; omega
  have := wstart_gap hW hlt
  rw [wstart_of_mod_zero hlo] at this
  have := wstart_le W n
  omega

/-! ### The floor-bounded backward scan -/

theorem scanBackP_found {W : Nat} {d : Disk} {fl fa lo : Nat} (h : (getWin d lo).isSome = true) :
    ∀ fuel, scanBackP W d fl fa fuel lo = (lo + W, lo + W) := by
  intro fuel
  cases fuel <;> simp [scanBackP, h]

theorem scanBackP_good {W : Nat} (hW : 0 < W) {c : List Block} {F : Nat} {d : Disk}
    (hw : WinsOKP W c F d) (hF : F < c.length) :
    scanBackP W d F (wstart W F) ((c.length - 1) / W + 1) (wstart W (c.length - 1)) =
      if wstart W F < wstart W c.length then (wstart W c.length, wstart W c.length)
      else (F, wstart W F) := by
  have hL : c.length - 1 + 1 = c.length := by omega
  have hFm : wstart W F ≤ wstart W (c.length - 1) := wstart_mono W (by omega)
  have hFle := wstart_le W F
  rcases wstart_succ hW (c.length - 1) with ⟨hlast, hnext⟩ | ⟨hnl, hsame⟩
  · -- the head is the last block of its window: that window is persisted
    rw [hL] at hnext
    have hfound : (getWin d (wstart W (c.length - 1))).isSome = true :=
      (hw.exist _).mpr ⟨wstart_mod _, by omega, hFm⟩
    rw [scanBackP_found hfound, if_pos (by omega)]
    have : wstart W (c.length - 1) + W = wstart W c.length := by omega
    rw [this]
  · rw [hL] at hsame
    have hlt := lt_wstart_add hW (c.length - 1)
    have hnot : ¬ (getWin d (wstart W (c.length - 1))).isSome = true := by
      rw [hw.exist]; intro h; omega
    by_cases hsw : wstart W F < wstart W c.length
    · rw [if_pos hsw]
      rw [hsame] at hsw
      have hgap := wstart_gap hW hsw
      have hprev : (getWin d (wstart W (c.length - 1) - W)).isSome = true := by
        rw [hw.exist]
        refine ⟨?_, by have := wstart_le W (c.length - 1); omega, by omega⟩
        have hm := wstart_mod (W := W) (c.length - 1)
        rw [Nat.sub_mod_eq_zero_of_mod_eq (by rw [hm, Nat.mod_self])]
      have hnle : ¬ wstart W (c.length - 1) ≤ wstart W F := by omega
      simp only [scanBackP, hnot, hnle, if_false, Bool.false_eq_true]
      rw [scanBackP_found hprev, hsame]
      have : wstart W (c.length - 1) - W + W = wstart W (c.length - 1) := by omega
      rw [this]
    · rw [if_neg hsw]
      rw [hsame] at hsw
      have hle : wstart W (c.length - 1) ≤ wstart W F := by omega
      simp only [scanBackP, hnot, hle, if_true, if_false, Bool.false_eq_true]

/-! ### `pruner.InitializeRunningEventFilter` on a pruned image -/

theorem getBlk_header_of_pcoh {lag : Nat} {c : List Block} {F : Nat} {d : Disk} (hp : PCoh lag c F d)
    {n : Nat} (hn : F ≤ n) : getBlk d (.header n) = c[n]? := by
  simp only [getBlk, hp.header n]
  rw [if_neg (by omega)]
  cases c[n]? <;> rfl

/-- On every image pruned below a floor `F` (head retained) whose persisted windows and snapshot
are those of a pruning node, `pruner.InitializeRunningEventFilter` succeeds and yields a filter
that expects block `height+1`, has the aligned window of that block, and has no false negative
for any retained block in it — whichever path it takes (snapshot as is, snapshot resumed from
`max(next, floor)`, rebuild from the last persisted window at or above the floor's window, or
rebuild from the floor itself). -/
theorem initFilterP_good {W : Nat} (hW : 0 < W) {lag : Nat} {c : List Block} {F : Nat} {d : Disk}
    (hwf : WfChain c) (hp : PCoh lag c F d) (hF : F < c.length) (hw : WinsOKP W c F d)
    (hs : SnapOKP W c F d) :
    ∃ f d', initFilterP W d = some (f, d') ∧ FiltOKP W c F f := by
  have hnum := hwf.num
  have hnumF : ∀ (i : Nat) (x : Block), (forget F c)[i]? = some x → x.num = i := forget_num (F := F) hnum
  have hne : c.length ≠ 0 := by omega
  have hL : c.length - 1 + 1 = c.length := by omega
  have hhdr : ∀ k, F ≤ k → ∀ n, k ≤ n → getBlk d (.header n) = (forget F c)[n]? := by
    intro k hk n hn
    rw [getBlk_header_of_pcoh hp (by omega), forget_ge hnum (by omega)]
  have hfloor : (oldestRetained d (c.length - 1 + 1) 0).getD 0 = F := by
    rw [oldestRetained_pcoh hp _ 0 (Nat.zero_le _), if_pos ⟨hF, by omega⟩]; rfl
  -- it is enough to describe the chain whose pruned blocks have no events
  suffices h : ∃ f d', initFilterP W d = some (f, d') ∧ FiltOK W (forget F c) f by
    obtain ⟨f, d', h1, h2⟩ := h
    exact ⟨f, d', h1, filtOKP_of_forget hnum h2⟩
  have hlenF := forget_length F c
  have rebuild_ok : ∃ f d',
      (match scanBackP W d F (wstart W F) ((c.length - 1) / W + 1) (wstart W (c.length - 1)) with
        | (cont, ws) => fill W (c.length - 1 + 1 - cont) cont ⟨Win.empty ws, cont⟩ d) = some (f, d') ∧
      FiltOK W (forget F c) f := by
    rw [scanBackP_good hW hw hF, hL]
    by_cases hsw : wstart W F < wstart W c.length
    · rw [if_pos hsw]
      have hle := wstart_le W c.length
      have hFs : F ≤ wstart W c.length := by
        have := lt_wstart_add hW F
        have := wstart_gap hW hsw
        omega
      apply fill_filtOK_from hW hnumF _ _ _ _ (by rw [hlenF]; omega) (hhdr _ hFs)
      have hlen : ((forget F c).take (wstart W c.length)).length = wstart W c.length := by
        rw [List.length_take, hlenF]; omega
      refine ⟨by rw [hlen], ?_, ?_⟩
      · rw [hlen]; simp only [Win.empty]
        exact (wstart_of_mod_zero (wstart_mod _)).symm
      · intro b i h1 h2 _
        rw [hlen] at h2
        simp only [Win.empty] at h1
        omega
    · rw [if_neg hsw]
      apply fill_filtOK_from hW hnumF _ _ _ _ (by rw [hlenF]; omega) (hhdr _ (Nat.le_refl _))
      have hlen : ((forget F c).take F).length = F := by
        rw [List.length_take, hlenF]; omega
      refine ⟨by rw [hlen], by rw [hlen]; rfl, ?_⟩
      intro b i _ h2 hb
      rw [hlen] at h2
      have := (bitIn_forget hnum (bitIn_take hb)).1
      omega
  unfold initFilterP
  rw [hp.height]
  simp only [hne, if_false, hfloor]
  unfold SnapOKP at hs
  split
  · rename_i w nx hsn
    rw [hsn] at hs
    obtain ⟨hnx, hlo, hsound⟩ := hs
    split
    · rename_i e
      refine ⟨_, _, rfl, ⟨?_, ?_, ?_⟩⟩
      · show nx = _; rw [hlenF]; omega
      · show w.lo = _; rw [hlo, hlenF]; congr 1; omega
      · intro b i h1 h2 hb
        rw [hlenF] at h2
        obtain ⟨hFb, hb'⟩ := bitIn_forget hnum hb
        exact hsound b i h1 hFb (by omega) hb'
    · split
      · rename_i hgap
        have hmaxle : max nx F ≤ c.length := by
          rcases Nat.le_total nx F with h | h
          · rw [Nat.max_eq_right h]; omega
          · rw [Nat.max_eq_left h]; omega
        have hlen : ((forget F c).take (max nx F)).length = max nx F := by
          rw [List.length_take, hlenF]; omega
        apply fill_filtOK_from hW hnumF _ _ _ _ (by rw [hlenF]; omega) (hhdr _ (Nat.le_max_right nx F))
        refine ⟨by rw [hlen], ?_, ?_⟩
        · rw [hlen]
          show w.lo = wstart W (max nx F)
          have hwm : w.lo % W = 0 := by rw [hlo]; exact wstart_mod _
          have h1 : w.lo ≤ max nx F := by
            have := wstart_le W nx
            have := Nat.le_max_left nx F
            omega
          have h2 : max nx F < w.lo + W := by
            rcases Nat.le_total nx F with h | h
            · rw [Nat.max_eq_right h]; omega
            · rw [Nat.max_eq_left h]; omega
          exact (wstart_eq_of_mem hW hwm h1 h2).symm
        · intro b i h1 h2 hb
          rw [hlen] at h2
          obtain ⟨hFb, hb'⟩ := bitIn_forget hnum (bitIn_take hb)
          have hbn : b < nx := by
            rcases Nat.le_total nx F with h | h
            · rw [Nat.max_eq_right h] at h2; omega
            · rw [Nat.max_eq_left h] at h2; exact h2
          exact hsound b i h1 hFb hbn hb'
      · exact rebuild_ok
  · exact rebuild_ok

end Juno.C05
