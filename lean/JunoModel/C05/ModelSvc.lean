import JunoModel.C05.Model
/-!
C05 model, part 2 (round 6): the `pruner.Pruner` SERVICE — both event handlers and its in-memory
counter. Core Lean only (linked into `c05drv`).

`Pruner.Run` dispatches two kinds of events to two handlers that share ONE tail, `pruneUpto`
(raise the shared retention floor, then the multi-batch sweep):

* `onNewL1Head` (modelled since round 5 as `POp.l1event`): guards `l1 ≥ height`, `l1 < R`;
  resets the counter `pendingL2Heads`; target `l1 − R`;
* `onNewBlock` (new): the L2 path. Guards: no L1 head on disk; `l1 ≤ num`; `num < R`; the event is
  STALE (`num > height`: the feed buffers one event per subscriber, so a block that has been
  reverted since it was published can still arrive — pruning up to it would delete the head itself
  and raise the floor above it); then the counter: `pendingL2Heads++`, nothing happens until it
  reaches `l2HeadsPerPrune`, then it is reset and `pruneUpto(num − R)` runs.

No min-age floor (`minAge = 0`: `refreshStaleSample` and `applyTimeFloor` are the identity).
-/
namespace Juno.C05

/-- `core.GetL1Head(db).BlockNumber`. -/
def getL1 (d : Disk) : Option Nat :=
  match d .l1head with
  | some (.num v) => some v
  | _ => none

/-- `Pruner.onNewBlock` up to the call of `pruneUpto`: the target it prunes to (if it prunes) and
the counter afterwards. `l1` = L1 head on disk, `height` = chain height on disk, `num` = number of
the block the event carries, `R` = numRetainedBlocks, `per` = l2HeadsPerPrune, `pending` =
pendingL2Heads before the event. -/
def l2Decide (l1 height : Option Nat) (num R per pending : Nat) : Option Nat × Nat :=
  match l1 with
  | none => (none, pending)
  | some l1 =>
    if l1 ≤ num ∨ num < R then (none, pending)
    else
      match height with
      | none => (none, pending)
      | some h =>
        if num > h then (none, pending)
        else if pending + 1 < per then (none, pending + 1)
        else (some (num - R), 0)

/-- The same handler WITHOUT the stale-event guard (the code before the guard was added; used by the
negative witness in `Props` only). -/
def l2DecideNoStaleGuard (l1 height : Option Nat) (num R per pending : Nat) : Option Nat × Nat :=
  match l1 with
  | none => (none, pending)
  | some l1 =>
    if l1 ≤ num ∨ num < R then (none, pending)
    else
      match height with
      | none => (none, pending)
      | some _ =>
        if pending + 1 < per then (none, pending + 1)
        else (some (num - R), 0)

/-- `Pruner.onNewL1Head` up to the call of `pruneUpto`: target and counter afterwards. -/
def l1Decide (height : Option Nat) (l1 R pending : Nat) : Option Nat × Nat :=
  match height with
  | none => (none, pending)
  | some h => if l1 ≥ h ∨ l1 < R then (none, pending) else (some (l1 - R), 0)

/-- `Pruner.pruneUpto(e)`, the tail both handlers share: raise the shared floor to `e − 1` (BEFORE
the sweep: `early = true` is the code), then `PruneUpto(e)` under the fault. A crash restarts the
process: freshly seeded floor. -/
def pruneUptoEv (early : Bool) (W : Nat) (fx : Fixes) (pn : PNode) (e : Nat) (ft : Fault) : PNode × Out :=
  let raised := if e > 0 then raiseFloor pn.floor (e - 1) else pn.floor
  let r := execP W fx pn.node (.prune e) ft
  let fl : Option Nat :=
    if ft.isCrash then freshFloor pn.wired r.1.disk
    else if early then raised
    else (match r.2 with | .ok => raised | _ => pn.floor)
  (⟨r.1, fl, pn.wired⟩, r.2)

/-- A process: node + shared floor (`PNode`) + the pruner service's counter `pendingL2Heads`. -/
structure Svc where
  pn : PNode
  pending : Nat

/-- What happens to a process: a call of the `Blockchain`, an L1-head event, an L2-head event. -/
inductive SEv where
  | call (op : Op)
  | l1 (l1 R : Nat)
  | l2 (num R per : Nat)

/-- Does the call end with a new process (new `Pruner`, counter 0)? -/
def restartsProcess (op : Op) (ft : Fault) (o : Out) : Bool :=
  ft.isCrash ||
    (match op with
      | .kill => true
      | .restart => decide (o = .ok)
      | _ => false)

/-- One call / event of the process under a fault. -/
def sexec (early : Bool) (W : Nat) (fx : Fixes) (s : Svc) (ev : SEv) (ft : Fault) : Svc × Out :=
  match ev with
  | .call op =>
    let r := pexec early W fx s.pn (.call op) ft
    (⟨r.1, if restartsProcess op ft r.2 then 0 else s.pending⟩, r.2)
  | .l1 l1 R =>
    let r := pexec early W fx s.pn (.l1event l1 R) ft
    (⟨r.1, if ft.isCrash then 0 else (l1Decide (getHeight s.pn.node.disk) l1 R s.pending).2⟩, r.2)
  | .l2 num R per =>
    match l2Decide (getL1 s.pn.node.disk) (getHeight s.pn.node.disk) num R per s.pending with
    | (none, p') => (⟨s.pn, p'⟩, .ok)
    | (some e, p') =>
      let r := pruneUptoEv early W fx s.pn e ft
      (⟨r.1, if ft.isCrash then 0 else p'⟩, r.2)

def srun (early : Bool) (W : Nat) (fx : Fixes) (s : Svc) : List (SEv × Fault) → Svc
  | [] => s
  | (ev, ft) :: rest => srun early W fx (sexec early W fx s ev ft).1 rest

def Svc.init : Svc := ⟨PNode.init, 0⟩

/-- What the harness does in one step: a NEW `Pruner` (counter 0) receives the L2-head events
`nums` one after the other; the fault hits the first event that prunes (all others run fault-free;
an event whose prune failed is followed by the remaining events, as `Run` logs the error and goes
on). Returns the first error, else ok. -/
def l2Burst (W : Nat) (fx : Fixes) (R per : Nat) :
    List Nat → PNode → Nat → Fault → Out → PNode × Out
  | [], pn, _, _, o => (pn, o)
  | num :: rest, pn, pending, ft, o =>
    let prunes := (l2Decide (getL1 pn.node.disk) (getHeight pn.node.disk) num R per pending).1.isSome
    let r := sexec true W fx ⟨pn, pending⟩ (.l2 num R per) (if prunes then ft else .none)
    let o' := match o with | .ok => r.2 | e => e
    if prunes && ft.isCrash then (r.1.pn, o')
    else l2Burst W fx R per rest r.1.pn r.1.pending (if prunes then .none else ft) o'

end Juno.C05
