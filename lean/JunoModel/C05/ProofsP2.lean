import JunoModel.C05.ProofsP1
/-!
Helper lemmas for C05, part 20 (round 5): `GoodP` under one call of a node built by
`blockchain.New` (`execG (initFilterP W) …`), any fault — the generic part (what a fault does to a
call whose fault-free plan is understood), the lazy initialisation, and the calls that do not change
the chain: kill, set-L1-head, snapshot, graceful restart.
-/
namespace Juno.C05

/-! ### `PImg` mentions chain keys, window keys and the snapshot key only -/

theorem pimg_of_eq {W lag : Nat} {c : List Block} {F : Nat} {d d' : Disk} (hp : PImg W lag c F d)
    (hck : ∀ k, IsChainKey k → d' k = d k) (hwin : ∀ lo, d' (.win lo) = d (.win lo))
    (hsnap : d' .snap = d .snap) : PImg W lag c F d' := by
  refine ⟨pcoh_of_eq_chainKeys hp.pcoh hck, ⟨?_, ?_⟩, ?_⟩
  · intro lo; simp only [getWin, hwin lo]; exact hp.wins.exist lo
  · intro lo w hget; apply hp.wins.sound lo w; simp only [getWin, ← hwin lo]; exact hget
  · have hs := hp.snap
    unfold SnapOKP at hs ⊢
    rw [hsnap]; exact hs

/-! ### Lazy initialisation on a good pruning node -/

theorem ensureInitP_goodP {W : Nat} (hW : 0 < W) {c : List Block} {F : Nat} {n : Node}
    (hg : GoodP W c F n) :
    GoodP W c F (ensureInitG (initFilterP W) n) ∧
      (∃ f, (ensureInitG (initFilterP W) n).mem = .ready f ∧ FiltOKP W c F f) ∧
      (∀ key, (∀ lo, key ≠ .win lo) → (ensureInitG (initFilterP W) n).disk key = n.disk key) := by
  cases hm : n.mem with
  | lazy =>
    by_cases hne : c.length = 0
    · have hnil : c = [] := List.eq_nil_of_length_eq_zero hne
      subst hnil
      have hF : F = 0 := by have := hg.floor; simp at this; exact this
      subst hF
      have hh : getHeight n.disk = none := by rw [hg.img.pcoh.height]; simp
      have hi : initFilterP W n.disk = some (⟨Win.empty 0, 0⟩, n.disk) := by
        unfold initFilterP; rw [hh]
      have hE : ensureInitG (initFilterP W) n = ⟨n.disk, .ready ⟨Win.empty 0, 0⟩⟩ := by
        unfold ensureInitG; rw [hm]; simp only [hi]
      rw [hE]
      have hf : FiltOKP W [] 0 ⟨Win.empty 0, 0⟩ :=
        ⟨rfl, by simp [Win.empty, wstart], fun b i _ _ h2 => by simp at h2⟩
      exact ⟨⟨hg.wf, hg.img, hf, hg.floor⟩, ⟨_, rfl, hf⟩, fun _ _ => rfl⟩
    · have hF : F < c.length := by have := hg.floor; omega
      obtain ⟨f, d', hi, hf, himg, hoth⟩ := initFilterP_grow hW hg.wf hg.img hF
      have hE : ensureInitG (initFilterP W) n = ⟨d', .ready f⟩ := by
        unfold ensureInitG; rw [hm]; simp only [hi]
      rw [hE]
      exact ⟨⟨hg.wf, himg, hf, hg.floor⟩, ⟨f, rfl, hf⟩, hoth⟩
  | ready f =>
    have := hg.mem
    rw [hm] at this
    have hE : ensureInitG (initFilterP W) n = n := by
      unfold ensureInitG; rw [hm]
    rw [hE]
    exact ⟨hg, ⟨f, hm, this⟩, fun _ _ => rfl⟩
  | broken =>
    have := hg.mem
    rw [hm] at this
    exact absurd this (by simp [MemOKP])

/-! ### What a fault does to a call whose plan is understood -/

/-- Memory a call leaves behind when its commit fails (before `memAfter`). -/
def failMemG (ini : Disk → Option (Filt × Disk)) (W : Nat) (fx : Fixes) (n : Node) (op : Op) : Mem :=
  match op with
  | .restart => (snapPlanG ini n).mem
  | _ => (planG ini W fx n op).mem

/-- The fault-free plan of a call from a node good for chain `c`: at most one commit; the store as
the commit finds it is an image of `c`; the image after the commit is an image of `c'`; the memory
left behind describes `c'` (no failure) resp. `c` (the commit failed). -/
structure PlanOK (W : Nat) (c c' : List Block) (F : Nat) (op : Op) (p : Plan) (fm : Mem) : Prop where
  len : p.commits.length ≤ 1
  d0 : PImg W blockHashLag c F p.disk0
  after : PImg W blockHashLag c' F (applyCommits p.disk0 p.commits)
  memOk : MemOKP W c' F (memAfter Fixes.all op p.out p.mem)
  memFail : MemOKP W c F (memAfter Fixes.all op (.err .io) fm)
  wf' : WfChain c'
  fl' : F ≤ c'.length - 1

theorem execG_failAt_lt {ini : Disk → Option (Filt × Disk)} {nw : Disk → Bool} {W : Nat} {fx : Fixes}
    {n : Node} {op : Op} {k : Nat} (h : k < (planG ini W fx n op).commits.length) :
    (execG ini nw W fx n op (.failAt k)).1 =
      ⟨applyCommits (planG ini W fx n op).disk0 ((planG ini W fx n op).commits.take k),
        memAfter fx op (.err .io) (failMemG ini W fx n op)⟩ := by
  simp only [execG, h, if_true]
  cases op <;> rfl

theorem execG_failAt_ge {ini : Disk → Option (Filt × Disk)} {nw : Disk → Bool} {W : Nat} {fx : Fixes}
    {n : Node} {op : Op} {k : Nat} (h : ¬ k < (planG ini W fx n op).commits.length) :
    execG ini nw W fx n op (.failAt k) = execG ini nw W fx n op .none := by
  simp only [execG, h, if_false]

theorem take_le_one_all {α : Type} (l : List α) (h : l.length ≤ 1) (k : Nat) : l.take (k + 1) = l := by
  match l, h with
  | [], _ => simp
  | [a], _ => simp

theorem execG_goodP_of_planOK {ini : Disk → Option (Filt × Disk)} {nw : Disk → Bool} {W : Nat}
    {c c' : List Block} {F : Nat} {n : Node} {op : Op} (hg : GoodP W c F n)
    (hp : PlanOK W c c' F op (planG ini W Fixes.all n op) (failMemG ini W Fixes.all n op)) (ft : Fault) :
    GoodP W c F (execG ini nw W Fixes.all n op ft).1 ∨ GoodP W c' F (execG ini nw W Fixes.all n op ft).1 := by
  have hnone : GoodP W c' F ⟨applyCommits (planG ini W Fixes.all n op).disk0 (planG ini W Fixes.all n op).commits,
      memAfter Fixes.all op (planG ini W Fixes.all n op).out (planG ini W Fixes.all n op).mem⟩ :=
    ⟨hp.wf', hp.after, hp.memOk, hp.fl'⟩
  have hlazy : ∀ m : Mem, m = .lazy → ∀ (cc : List Block), MemOKP W cc F m := by
    intro m hm cc; subst hm; trivial
  cases ft with
  | none => right; exact hnone
  | failAt k =>
    by_cases hk : k < (planG ini W Fixes.all n op).commits.length
    · have hk0 : k = 0 := by have := hp.len; omega
      subst hk0
      left
      rw [execG_failAt_lt hk]
      exact ⟨hg.wf, by simpa [applyCommits] using hp.d0, hp.memFail, hg.floor⟩
    · right
      rw [execG_failAt_ge hk]
      exact hnone
  | crashAfter k =>
    right
    simp only [execG, take_le_one_all _ hp.len k]
    exact ⟨hp.wf', hp.after, trivial, hp.fl'⟩
  | failInit =>
    simp only [execG]
    split
    · left
      refine ⟨hg.wf, hg.img, ?_, hg.floor⟩
      show MemOKP W c F (memAfter Fixes.all op (.err .init) (if Fixes.all.retryInit = true then .lazy else .broken))
      have : (if Fixes.all.retryInit = true then Mem.lazy else Mem.broken) = .lazy := rfl
      rw [this, memAfter_lazy]
      trivial
    · right; exact hnone
  | crashInit =>
    left
    exact ⟨hg.wf, hp.d0, trivial, hg.floor⟩

/-! ### Calls that leave the chain alone -/

theorem planOK_kill {W : Nat} {c : List Block} {F : Nat} {n : Node} (hg : GoodP W c F n) :
    PlanOK W c c F .kill (planG (initFilterP W) W Fixes.all n .kill)
      (failMemG (initFilterP W) W Fixes.all n .kill) :=
  ⟨by simp [planG], hg.img, by simpa [planG, applyCommits] using hg.img, trivial, trivial, hg.wf, hg.floor⟩

theorem planOK_l1head {W : Nat} {c : List Block} {F : Nat} {n : Node} (hg : GoodP W c F n) (v : Nat) :
    PlanOK W c c F (.l1head v) (planG (initFilterP W) W Fixes.all n (.l1head v))
      (failMemG (initFilterP W) W Fixes.all n (.l1head v)) := by
  refine ⟨by simp [planG], hg.img, ?_, hg.mem, hg.mem, hg.wf, hg.floor⟩
  simp only [planG, applyCommits, List.foldl_cons, List.foldl_nil, applyBatch, applyW]
  apply pimg_of_eq hg.img
  · intro k hk
    have : k ≠ .l1head := by intro e; subst e; exact hk
    simp [this]
  · intro lo; simp
  · simp

/-- The snapshot of a filter that describes the chain is a sound snapshot. -/
theorem snap_put_goodP {W lag : Nat} {c : List Block} {F : Nat} {d : Disk} {f : Filt}
    (hp : PImg W lag c F d) (hf : FiltOKP W c F f) :
    PImg W lag c F (applyBatch d [.put .snap (.snap f.win f.next)]) := by
  refine ⟨pcoh_of_eq_chainKeys hp.pcoh ?_, ⟨?_, ?_⟩, ?_⟩
  · intro k hk
    have : k ≠ .snap := by intro e; subst e; exact hk
    simp [applyBatch, applyW, this]
  · intro lo
    have : getWin (applyBatch d [.put .snap (.snap f.win f.next)]) lo = getWin d lo := by
      apply getWin_congr; simp [applyBatch, applyW]
    rw [this]; exact hp.wins.exist lo
  · intro lo w hget
    have : getWin (applyBatch d [.put .snap (.snap f.win f.next)]) lo = getWin d lo := by
      apply getWin_congr; simp [applyBatch, applyW]
    rw [this] at hget; exact hp.wins.sound lo w hget
  · unfold SnapOKP
    have : applyBatch d [.put .snap (.snap f.win f.next)] .snap = some (.snap f.win f.next) := by
      simp [applyBatch, applyW]
    rw [this]
    refine ⟨by rw [hf.next]; exact Nat.le_refl _, by rw [hf.lo, hf.next], ?_⟩
    intro b i h1 h2 h3 hb
    rw [hf.next] at h3
    exact hf.sound b i h1 h2 h3 hb

theorem planOK_snap {W : Nat} (hW : 0 < W) {c : List Block} {F : Nat} {n : Node} (hg : GoodP W c F n)
    (op : Op) (hop : op = .snap ∨ op = .restart) :
    PlanOK W c c F op (planG (initFilterP W) W Fixes.all n op) (failMemG (initFilterP W) W Fixes.all n op) := by
  obtain ⟨hg1, ⟨f, hmem, hf⟩, _⟩ := ensureInitP_goodP hW hg
  have hsp : snapPlanG (initFilterP W) n =
      ⟨(ensureInitG (initFilterP W) n).disk, [[.put .snap (.snap f.win f.next)]],
        (ensureInitG (initFilterP W) n).mem, .ok⟩ := by
    simp only [snapPlanG, hmem]
  have hafter : PImg W blockHashLag c F
      (applyCommits (ensureInitG (initFilterP W) n).disk [[.put .snap (.snap f.win f.next)]]) := by
    simp only [applyCommits, List.foldl_cons, List.foldl_nil]
    exact snap_put_goodP hg1.img hf
  rcases hop with rfl | rfl
  · have hpl : planG (initFilterP W) W Fixes.all n .snap = snapPlanG (initFilterP W) n := rfl
    have hfm : failMemG (initFilterP W) W Fixes.all n .snap = (snapPlanG (initFilterP W) n).mem := rfl
    rw [hpl, hfm, hsp]
    exact ⟨by simp, hg1.img, hafter, by simp only [memAfter, hmem]; exact hf,
      by simp only [memAfter, hmem]; exact hf, hg.wf, hg.floor⟩
  · have hpl : planG (initFilterP W) W Fixes.all n .restart =
        ⟨(ensureInitG (initFilterP W) n).disk, [[.put .snap (.snap f.win f.next)]], .lazy, .ok⟩ := by
      simp only [planG, hsp]
    have hfm : failMemG (initFilterP W) W Fixes.all n .restart = (snapPlanG (initFilterP W) n).mem := rfl
    rw [hpl, hfm, hsp]
    exact ⟨by simp, hg1.img, hafter, trivial, by simp only [memAfter, hmem]; exact hf, hg.wf, hg.floor⟩

end Juno.C05
