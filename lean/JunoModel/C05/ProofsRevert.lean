import JunoModel.C05.ProofsFilter5
/-! Helper lemmas for C05, part 11: RevertHead of the repaired code keeps the node good. -/
namespace Juno.C05

theorem bitIn_dropLast {c : List Block} {b i : Nat} (h : bitIn c.dropLast b i) : bitIn c b i := by
  obtain ⟨blk, hb, hi⟩ := h
  refine ⟨blk, ?_, hi⟩
  rw [List.getElem?_dropLast] at hb
  split at hb
  · exact hb
  · cases hb

/-- `onReorg` of the repaired code on a filter that describes `c` (non-empty), with good
persisted windows: it succeeds, the new filter describes `c` without its head, and its writes are
the snapshot delete plus — when the head was the last block of a window... no: when the head is
the FIRST block after a window boundary — the deletes of the (never persisted) current window and
of the re-opened previous window. -/
theorem onReorg_good {W : Nat} (hW : 0 < W) {fx : Fixes} (hs : fx.dropSnapOnRevert = true)
    (hp : fx.dropPrevWinOnCross = true) {c : List Block} {f : Filt} {d : Disk}
    (hne : c.length ≠ 0) (hf : FiltOK W c f) (hw : WinsOK W c d) :
    ∃ f', FiltOK W c.dropLast f' ∧
      ((c.length % W ≠ 0 ∧ f.onReorg W fx d = (f', [.del .snap], .ok)) ∨
       (c.length % W = 0 ∧ W ≤ c.length ∧
         f.onReorg W fx d = (f', [.del .snap, .del (.win c.length), .del (.win (c.length - W))], .ok))) := by
  have hnext := hf.next
  have hlo := hf.lo
  have hlen : c.dropLast.length = c.length - 1 := by simp
  have hcur : f.next - 1 = c.length - 1 := by rw [hnext]
  have hn0 : ¬ f.next = 0 := by rw [hnext]; exact hne
  have hL : c.length - 1 + 1 = c.length := by omega
  unfold Filt.onReorg
  simp only [hs, hp, if_true, hn0, if_false, hcur]
  rcases wstart_succ hW (c.length - 1) with ⟨hlast, hnx⟩ | ⟨hnl, hsame⟩
  · -- the head is the last block of its window?  no: `c.length - 1` is the last block of a window,
    -- so `c.length` starts a window: lo = c.length, crossing backwards
    rw [hL] at hnx
    have hmod : c.length % W = 0 := by have := wstart_mod (W := W) c.length; rw [hnx] at this; exact this
    have hcross : c.length - 1 + 1 = f.win.lo := by rw [hlo, hnx, hL]
    have hWle : W ≤ c.length := by
      have := wstart_le W (c.length - 1); omega
    have hws : wstart W (c.length - 1) = c.length - W := by omega
    have hex : (getWin d (wstart W (c.length - 1))).isSome = true := by
      rw [hw.exist]; exact ⟨wstart_mod _, by omega⟩
    obtain ⟨prev, hprev⟩ := Option.isSome_iff_exists.mp hex
    obtain ⟨hplo, hpsound⟩ := hw.sound _ _ hprev
    have hclr : ∃ w', prev.clear W (c.length - 1) = some w' := by
      unfold Win.clear
      have : ¬ (prev.lo > c.length - 1 ∨ prev.lo + (W - 1) < c.length - 1) := by rw [hplo]; omega
      simp [this]
    obtain ⟨w', hw'⟩ := hclr
    obtain ⟨hw'lo, hw'has⟩ := has_clear hw'
    refine ⟨⟨w', c.length - 1⟩, ⟨by simp [hlen], ?_, ?_⟩, Or.inr ⟨hmod, hWle, ?_⟩⟩
    · show w'.lo = wstart W c.dropLast.length
      rw [hlen, hw'lo, hplo]
    · intro b i h1 h2 hb
      rw [hlen] at h2
      have h1' : wstart W (c.length - 1) ≤ b := by
        have : w'.lo = wstart W (c.length - 1) := by rw [hw'lo, hplo]
        simpa [this] using h1
      rw [hw'has]
      have hne' : (b != c.length - 1) = true := by simp; omega
      rw [hne', Bool.true_and]
      exact hpsound b i h1' (by omega) (bitIn_dropLast hb)
    · rw [hws] at hprev
      simp only [hcross, if_true, hlo, hnx, hws, List.cons_append, List.nil_append, hprev, hw']
  · rw [hL] at hsame
    have hmod : c.length % W ≠ 0 := by
      intro e
      have := wstart_of_mod_zero e
      have := wstart_le W (c.length - 1)
      omega
    have hncross : ¬ c.length - 1 + 1 = f.win.lo := by
      rw [hlo, hsame, hL]
      have := wstart_le W (c.length - 1)
      omega
    have hclr : ∃ w', f.win.clear W (c.length - 1) = some w' := by
      unfold Win.clear
      have h1 := wstart_le W (c.length - 1)
      have h2 := lt_wstart_add hW (c.length - 1)
      have : ¬ (f.win.lo > c.length - 1 ∨ f.win.lo + (W - 1) < c.length - 1) := by rw [hlo, hsame]; omega
      simp [this]
    obtain ⟨w', hw'⟩ := hclr
    obtain ⟨hw'lo, hw'has⟩ := has_clear hw'
    refine ⟨⟨w', c.length - 1⟩, ⟨by simp [hlen], ?_, ?_⟩, Or.inl ⟨hmod, ?_⟩⟩
    · show w'.lo = wstart W c.dropLast.length
      rw [hlen, hw'lo, hlo, hsame]
    · intro b i h1 h2 hb
      rw [hlen] at h2
      rw [hw'has]
      have hne' : (b != c.length - 1) = true := by simp; omega
      rw [hne', Bool.true_and]
      apply hf.sound b i _ (by omega) (bitIn_dropLast hb)
      have : w'.lo = f.win.lo := hw'lo
      simpa [this] using h1
    · simp only [hncross, if_false, hw']

theorem revertWrites_aux (d : Disk) (h : Nat) (b : Block) (k : Key) (hk : ¬ IsChainKey k) :
    applyBatch d (revertWrites h b b b) k = d k := by
  rw [revertWrites_lookup]
  cases k <;> first | rfl | exact absurd trivial hk

theorem getWin_none_of_incomplete {W : Nat} {c : List Block} {d : Disk} (hw : WinsOK W c d) {lo : Nat}
    (h : ¬ (lo % W = 0 ∧ lo + W ≤ c.length)) : getWin d lo = none := by
  cases hx : getWin d lo with
  | none => rfl
  | some w =>
    have : (getWin d lo).isSome = true := by rw [hx]; rfl
    exact absurd ((hw.exist lo).mp this) h

/-- The persisted windows after a revert: those of the shorter chain. -/
theorem winsOK_dropLast {W : Nat} {c : List Block} {d d' : Disk} (hw : WinsOK W c d)
    (hwin : ∀ lo, getWin d' lo = if lo + W ≤ c.length - 1 then getWin d lo else none) :
    WinsOK W c.dropLast d' := by
  have hlen : c.dropLast.length = c.length - 1 := by simp
  constructor
  · intro lo
    rw [hwin lo, hlen]
    by_cases h : lo + W ≤ c.length - 1
    · simp only [h, if_true]
      rw [hw.exist lo]
      constructor
      · rintro ⟨a, _⟩; exact ⟨a, trivial⟩
      · rintro ⟨a, _⟩; exact ⟨a, by omega⟩
    · simp [h]
  · intro lo w hget
    rw [hwin lo] at hget
    by_cases h : lo + W ≤ c.length - 1
    · simp only [h, if_true] at hget
      obtain ⟨hl, hs⟩ := hw.sound lo w hget
      exact ⟨hl, fun b i h1 h2 hb => hs b i h1 h2 (bitIn_dropLast hb)⟩
    · simp [h] at hget

/-- RevertHead of the repaired code from a good node, under any fault: good again — for the chain
without its head when the revert was committed, for the same chain otherwise. -/
theorem revert_good {W : Nat} (hW : 0 < W) {fx : Fixes} (hs : fx.dropSnapOnRevert = true)
    (hp : fx.dropPrevWinOnCross = true) (hr : fx.resetOnError = true) {c : List Block} {n : Node}
    (hg : Good W c n) (ft : Fault) (hb : ft ≠ .failInit ∧ ft ≠ .crashInit) :
    ∃ c', Good W c' (exec W fx n .revert ft).1 := by
  by_cases hne : c.length = 0
  · -- nothing to revert: the call fails before touching anything
    have hh : getHeight n.disk = none := by rw [hg.coh.height]; simp [hne]
    have hpl : plan W fx n .revert = ⟨n.disk, [], n.mem, .err .notfound⟩ := by
      simp only [plan, revertPlan, hh]
    refine ⟨c, ?_⟩
    cases ft with
    | failInit => exact absurd rfl hb.1
    | crashInit => exact absurd rfl hb.2
    | none =>
      simp only [exec, hpl, applyCommits, List.foldl_nil, memAfter, hr, if_true]
      exact ⟨hg.wf, hg.coh, hg.wins, hg.snap, trivial⟩
    | failAt k =>
      have hk : ¬ k < (plan W fx n .revert).commits.length := by rw [hpl]; simp
      rw [exec_failAt_ge hk]
      simp only [exec, hpl, applyCommits, List.foldl_nil, memAfter, hr, if_true]
      exact ⟨hg.wf, hg.coh, hg.wins, hg.snap, trivial⟩
    | crashAfter k =>
      simp only [exec, hpl, applyCommits, List.take_nil, List.foldl_nil]
      exact ⟨hg.wf, hg.coh, hg.wins, hg.snap, trivial⟩
  · have hnil : c ≠ [] := by intro e; subst e; exact hne rfl
    obtain ⟨c', last, rfl⟩ : ∃ c' last, c = c' ++ [last] :=
      ⟨c.dropLast, c.getLast hnil, (List.dropLast_concat_getLast hnil).symm⟩
    have hlen : (c' ++ [last]).length = c'.length + 1 := by simp
    have hat : (c' ++ [last])[c'.length]? = some last := by
      rw [List.getElem?_append_right (Nat.le_refl _)]; simp
    have hh : getHeight n.disk = some c'.length := by rw [hg.coh.height]; simp
    have hsu : getBlk n.disk (.su c'.length) = some last := getBlk_of_eq (by rw [hg.coh.su, hat])
    have hhb : getBlk n.disk (.header c'.length) = some last := getBlk_of_eq (by rw [hg.coh.header, hat])
    have htb : getBlk n.disk (.txs c'.length) = some last := getBlk_of_eq (by rw [hg.coh.txs, hat])
    have hst : ¬ stateRoot n.disk ≠ last.root := by rw [hg.coh.state]; simp
    obtain ⟨hg1, f, hmem, hf⟩ := ensureInit_good' hW hg
    obtain ⟨f', hf', hor⟩ := onReorg_good hW hs hp (d := (ensureInit W n).disk) hne hf hg1.wins
    have hdl : (c' ++ [last]).dropLast = c' := by simp
    rw [hdl] at hf'
    -- common part: given the filter writes `ws` and what they do to window / snapshot keys
    have assemble : ∀ ws : List Write, f.onReorg W fx (ensureInit W n).disk = (f', ws, .ok) → OnlyAux ws →
        (∀ base : Disk, applyBatch base ws .snap = none) →
        (∀ lo, getWin (applyBatch (ensureInit W n).disk (revertWrites c'.length last last last ++ ws)) lo =
          if lo + W ≤ (c' ++ [last]).length - 1 then getWin (ensureInit W n).disk lo else none) →
        ∃ c'', Good W c'' (exec W fx n .revert ft).1 := by
      intro ws hre haux hsnapd hwind
      have hpl : plan W fx n .revert =
          ⟨(ensureInit W n).disk, [revertWrites c'.length last last last ++ ws], .ready f', .ok⟩ := by
        simp only [plan, revertPlan, hh, hsu, hhb, htb, hst, if_false, hmem, hre]
      have hcoh' := coh_prefix (ws := ws) hg1.wf hg1.coh haux
      have hwins' : WinsOK W c' (applyBatch (ensureInit W n).disk (revertWrites c'.length last last last ++ ws)) := by
        have := winsOK_dropLast hg1.wins hwind
        rw [hdl] at this; exact this
      have hsnap' : SnapOK W c' (applyBatch (ensureInit W n).disk (revertWrites c'.length last last last ++ ws)) := by
        unfold SnapOK
        rw [applyBatch_append, hsnapd]
        trivial
      have hwf' := wf_prefix hg1.wf
      cases ft with
      | failInit => exact absurd rfl hb.1
      | crashInit => exact absurd rfl hb.2
      | none =>
        refine ⟨c', ?_⟩
        simp only [exec, hpl, applyCommits, List.foldl_cons, List.foldl_nil, memAfter]
        exact ⟨hwf', hcoh', hwins', hsnap', hf'⟩
      | failAt k =>
        by_cases hk : k < (plan W fx n .revert).commits.length
        · refine ⟨c' ++ [last], ?_⟩
          rw [exec_failAt_lt hk]
          have : k = 0 := by rw [hpl] at hk; simpa using hk
          subst this
          simp only [hpl, List.take_zero, applyCommits, List.foldl_nil, memAfter, hr, if_true]
          exact ⟨hg1.wf, hg1.coh, hg1.wins, hg1.snap, trivial⟩
        · refine ⟨c', ?_⟩
          rw [exec_failAt_ge hk]
          simp only [exec, hpl, applyCommits, List.foldl_cons, List.foldl_nil, memAfter]
          exact ⟨hwf', hcoh', hwins', hsnap', hf'⟩
      | crashAfter k =>
        refine ⟨c', ?_⟩
        simp only [exec, hpl, applyCommits, List.take_succ_cons, List.take_nil, List.foldl_cons, List.foldl_nil]
        exact ⟨hwf', hcoh', hwins', hsnap', trivial⟩
    have hrw : ∀ lo, applyBatch (ensureInit W n).disk (revertWrites c'.length last last last) (.win lo) =
        (ensureInit W n).disk (.win lo) := fun lo => revertWrites_aux _ _ _ _ (by simp [IsChainKey])
    have hmodeq : ∀ lo, lo % W = 0 → lo + W = (c' ++ [last]).length → (c' ++ [last]).length % W = 0 := by
      intro lo h1 h2; rw [← h2, Nat.add_mod_right]; exact h1
    rcases hor with ⟨hmod, hre⟩ | ⟨hmod, hWle, hre⟩
    · -- same window: only the snapshot goes
      apply assemble [.del .snap] hre onlyAux_del_snap
      · intro base; simp [applyBatch, applyW]
      · intro lo
        have : getWin (applyBatch (ensureInit W n).disk (revertWrites c'.length last last last ++ [.del .snap])) lo =
            getWin (ensureInit W n).disk lo := by
          apply getWin_congr
          rw [applyBatch_append]
          simp only [applyBatch, List.foldl_cons, List.foldl_nil, applyW]
          have := hrw lo
          simp only [applyBatch] at this
          simp [this]
        rw [this]
        by_cases h : lo + W ≤ (c' ++ [last]).length - 1
        · rw [if_pos h]
        · rw [if_neg h]
          apply getWin_none_of_incomplete hg1.wins
          rintro ⟨h1, h2⟩
          exact hmod (hmodeq lo h1 (by omega))
    · -- the head was the first block of a window: the re-opened window's persisted copy goes too
      apply assemble [.del .snap, .del (.win (c' ++ [last]).length), .del (.win ((c' ++ [last]).length - W))] hre
      · intro w hw
        simp only [List.mem_cons, List.mem_nil_iff, or_false] at hw
        rcases hw with rfl | rfl | rfl <;> exact Or.inr ⟨_, rfl, fun h => h⟩
      · intro base; simp [applyBatch, applyW]
      · intro lo
        by_cases e1 : lo = (c' ++ [last]).length - W
        · have : getWin (applyBatch (ensureInit W n).disk (revertWrites c'.length last last last ++
              [.del .snap, .del (.win (c' ++ [last]).length), .del (.win ((c' ++ [last]).length - W))])) lo = none := by
            subst e1
            simp [getWin, applyBatch_append, applyBatch, applyW]
          rw [this]
          have hn' : ¬ lo + W ≤ (c' ++ [last]).length - 1 := by omega
          rw [if_neg hn']
        · by_cases e2 : lo = (c' ++ [last]).length
          · have : getWin (applyBatch (ensureInit W n).disk (revertWrites c'.length last last last ++
                [.del .snap, .del (.win (c' ++ [last]).length), .del (.win ((c' ++ [last]).length - W))])) lo = none := by
              subst e2
              simp [getWin, applyBatch_append, applyBatch, applyW]
            rw [this]
            have hn' : ¬ lo + W ≤ (c' ++ [last]).length - 1 := by omega
            rw [if_neg hn']
          · have : getWin (applyBatch (ensureInit W n).disk (revertWrites c'.length last last last ++
                [.del .snap, .del (.win (c' ++ [last]).length), .del (.win ((c' ++ [last]).length - W))])) lo =
                getWin (ensureInit W n).disk lo := by
              apply getWin_congr
              rw [applyBatch_append]
              have h1 : Key.win lo ≠ Key.win ((c' ++ [last]).length - W) := by intro h; cases h; exact e1 rfl
              have h2 : Key.win lo ≠ Key.win (c' ++ [last]).length := by intro h; cases h; exact e2 rfl
              simp only [applyBatch, List.foldl_cons, List.foldl_nil, applyW]
              have := hrw lo
              simp only [applyBatch] at this
              have e1' : ¬ lo = c'.length + 1 - W := by rw [← hlen]; exact e1
              have e2' : ¬ lo = c'.length + 1 := by rw [← hlen]; exact e2
              simp [h1, h2, e1', e2', this]
            rw [this]
            by_cases h : lo + W ≤ (c' ++ [last]).length - 1
            · rw [if_pos h]
            · rw [if_neg h]
              apply getWin_none_of_incomplete hg1.wins
              rintro ⟨h1, h2⟩
              omega

theorem storePlan_disk0 (W : Nat) (n : Node) (b : Block) :
    (storePlan W n b).disk0 = n.disk ∨ (storePlan W n b).disk0 = (ensureInit W n).disk := by
  simp only [storePlan]
  repeat' split
  all_goals first | exact Or.inl rfl | exact Or.inr rfl

/-- Store of the repaired code from a good node with ANY fault (also a failed commit: the filter
is dropped and rebuilt from the unchanged disk). -/
theorem store_any_good_repaired {W : Nat} (hW : 0 < W) {fx : Fixes} (hr : fx.resetOnError = true)
    {c : List Block} {n : Node} {b : Block} (hg : Good W c n) (hfr : Extends n.disk b → Fresh n.disk b)
    (ft : Fault) (hb : ft ≠ .failInit ∧ ft ≠ .crashInit) :
    ∃ c', Good W c' (exec W fx n (.store b) ft).1 := by
  cases ft with
  | failInit => exact absurd rfl hb.1
  | crashInit => exact absurd rfl hb.2
  | none => exact store_any_good hW fx hg hfr .none (by intro k h; cases h) ⟨by simp, by simp⟩
  | crashAfter k => exact store_any_good hW fx hg hfr (.crashAfter k) (by intro k h; cases h) ⟨by simp, by simp⟩
  | failAt k =>
    by_cases hk : k < (plan W fx n (.store b)).commits.length
    · refine ⟨c, ?_⟩
      rw [exec_failAt_lt hk]
      have hle := commits_le_one W fx n (.store b) (by intro e h; cases h)
      have hk0 : k = 0 := by omega
      subst hk0
      simp only [List.take_zero, applyCommits, List.foldl_nil, memAfter, hr, if_true]
      obtain ⟨hg1, _⟩ := ensureInit_good' hW hg
      rcases storePlan_disk0 W n b with h | h
      · exact ⟨hg.wf, by simp only [plan, h]; exact hg.coh, by simp only [plan, h]; exact hg.wins,
          by simp only [plan, h]; exact hg.snap, trivial⟩
      · exact ⟨hg.wf, by simp only [plan, h]; exact hg1.coh, by simp only [plan, h]; exact hg1.wins,
          by simp only [plan, h]; exact hg1.snap, trivial⟩
    · rw [exec_failAt_ge hk]
      exact store_any_good hW fx hg hfr .none (by intro k h; cases h) ⟨by simp, by simp⟩

/-- One call of the repaired code (all four repairs) from a good node, under ANY fault — failure of
any commit, of the lazy initialisation's write, a crash after any commit or after the
initialisation's write: good again. -/
theorem exec_good_repaired {W : Nat} (hW : 0 < W) {fx : Fixes} (hs : fx.dropSnapOnRevert = true)
    (hp : fx.dropPrevWinOnCross = true) (hr : fx.resetOnError = true) (hi : fx.retryInit = true)
    {c : List Block} {n : Node} (hg : Good W c n) (op : Op) (ft : Fault)
    (hv : match op with
      | .store b => Extends n.disk b → Fresh n.disk b
      | .prune _ => False
      | _ => True) :
    ∃ c', Good W c' (exec W fx n op ft).1 := by
  have hpr : ∀ e, op ≠ .prune e := by
    intro e he; subst he; exact hv
  have basic : ∀ ft', ft' ≠ .failInit ∧ ft' ≠ .crashInit → ∃ c', Good W c' (exec W fx n op ft').1 := by
    intro ft' hb
    cases op with
    | store b => exact store_any_good_repaired hW hr hg hv ft' hb
    | revert => exact revert_good hW hs hp hr hg ft' hb
    | l1head v => exact ⟨c, misc_good fx hg _ (Or.inl ⟨v, rfl⟩) ft' hb⟩
    | snap => exact ⟨c, snap_good hW fx hg _ (Or.inl rfl) ft' hb⟩
    | restart => exact ⟨c, snap_good hW fx hg _ (Or.inr rfl) ft' hb⟩
    | kill => exact ⟨c, misc_good fx hg _ (Or.inr rfl) ft' hb⟩
    | prune e => exact absurd hv (by simp)
  by_cases hci : ft = .crashInit
  · subst hci; exact ⟨c, crashInit_good hW fx hg op hpr⟩
  by_cases hfi : ft = .failInit
  · subst hfi
    rcases failInit_good hi hg op with h | h
    · rw [h]; exact basic .none ⟨by simp, by simp⟩
    · exact ⟨c, h⟩
  exact basic ft ⟨hfi, hci⟩

/-- The repaired code: EVERY history over store / revert / set-L1-head / snapshot / restart /
kill, with EVERY fault, keeps the node good. -/
theorem good_run_repaired {W : Nat} (hW : 0 < W) {fx : Fixes} (hs : fx.dropSnapOnRevert = true)
    (hp : fx.dropPrevWinOnCross = true) (hr : fx.resetOnError = true) (hi : fx.retryInit = true) :
    ∀ (h : List (Op × Fault)) (n : Node) (c : List Block), Good W c n → ValidHist W fx n h →
      ∃ c', Good W c' (run W fx n h) := by
  intro h
  induction h with
  | nil => intro n c hg _; exact ⟨c, hg⟩
  | cons x rest ih =>
    intro n c hg hv
    obtain ⟨op, ft⟩ := x
    simp only [ValidHist] at hv
    simp only [run]
    obtain ⟨c', hg'⟩ := exec_good_repaired hW hs hp hr hi hg op ft hv.1
    exact ih _ c' hg' hv.2

/-- The code as it is (the initialisation error is still cached): the same for histories in which
no write of a lazy initialisation fails. -/
theorem good_run_now {W : Nat} (hW : 0 < W) {fx : Fixes} (hs : fx.dropSnapOnRevert = true)
    (hp : fx.dropPrevWinOnCross = true) (hr : fx.resetOnError = true) :
    ∀ (h : List (Op × Fault)) (n : Node) (c : List Block), Good W c n → ValidHist W fx n h →
      (∀ x ∈ h, x.2 ≠ .failInit) → ∃ c', Good W c' (run W fx n h) := by
  intro h
  induction h with
  | nil => intro n c hg _ _; exact ⟨c, hg⟩
  | cons x rest ih =>
    intro n c hg hv hnf
    obtain ⟨op, ft⟩ := x
    simp only [ValidHist] at hv
    simp only [run]
    have hpr : ∀ e, op ≠ .prune e := by
      intro e he; subst he; exact hv.1
    have step : ∃ c', Good W c' (exec W fx n op ft).1 := by
      by_cases hci : ft = .crashInit
      · subst hci; exact ⟨c, crashInit_good hW fx hg op hpr⟩
      have hb : ft ≠ .failInit ∧ ft ≠ .crashInit := ⟨hnf (op, ft) List.mem_cons_self, hci⟩
      cases op with
      | store b => exact store_any_good_repaired hW hr hg hv.1 ft hb
      | revert => exact revert_good hW hs hp hr hg ft hb
      | l1head v => exact ⟨c, misc_good fx hg _ (Or.inl ⟨v, rfl⟩) ft hb⟩
      | snap => exact ⟨c, snap_good hW fx hg _ (Or.inl rfl) ft hb⟩
      | restart => exact ⟨c, snap_good hW fx hg _ (Or.inr rfl) ft hb⟩
      | kill => exact ⟨c, misc_good fx hg _ (Or.inr rfl) ft hb⟩
      | prune e => exact absurd hv.1 (by simp)
    obtain ⟨c', hg'⟩ := step
    exact ih _ c' hg' hv.2 (fun x hx => hnf x (List.mem_cons_of_mem _ hx))

end Juno.C05
