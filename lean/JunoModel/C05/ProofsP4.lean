import JunoModel.C05.ProofsP3
/-!
Helper lemmas for C05, part 22 (round 5): RevertHead on a node pruned below `F` (the head and the
new head retained) — the filter's `onReorg` relative to the floor, the persisted windows of the
shorter chain, the plan.
-/
namespace Juno.C05

/-- `onReorg` (all repairs) on a filter exact for the retained blocks of `c`, with the persisted
windows of a pruning node whose head is retained. -/
theorem onReorg_goodP {W : Nat} (hW : 0 < W) {c : List Block} {F : Nat} {f : Filt} {d : Disk}
    (hne : c.length ≠ 0) (hF : F ≤ c.length - 1) (hf : FiltOKP W c F f) (hw : WinsOKP W c F d) :
    ∃ f', FiltOKP W c.dropLast F f' ∧
      ((c.length % W ≠ 0 ∧ f.onReorg W Fixes.all d = (f', [.del .snap], .ok)) ∨
       (c.length % W = 0 ∧ W ≤ c.length ∧
         f.onReorg W Fixes.all d = (f', [.del .snap, .del (.win c.length), .del (.win (c.length - W))], .ok))) := by
  have hnext := hf.next
  have hlo := hf.lo
  have hlen : c.dropLast.length = c.length - 1 := by simp
  have hcur : f.next - 1 = c.length - 1 := by rw [hnext]
  have hn0 : ¬ f.next = 0 := by rw [hnext]; exact hne
  have hL : c.length - 1 + 1 = c.length := by omega
  have hs : Fixes.all.dropSnapOnRevert = true := rfl
  have hp : Fixes.all.dropPrevWinOnCross = true := rfl
  unfold Filt.onReorg
  simp only [hs, hp, if_true, hn0, if_false, hcur]
  rcases wstart_succ hW (c.length - 1) with ⟨hlast, hnx⟩ | ⟨hnl, hsame⟩
  · rw [hL] at hnx
    have hmod : c.length % W = 0 := by have := wstart_mod (W := W) c.length; rw [hnx] at this; exact this
    have hcross : c.length - 1 + 1 = f.win.lo := by rw [hlo, hnx, hL]
    have hWle : W ≤ c.length := by
      have := wstart_le W (c.length - 1); omega
    have hws : wstart W (c.length - 1) = c.length - W := by omega
    have hex : (getWin d (wstart W (c.length - 1))).isSome = true := by
      rw [hw.exist]; exact ⟨wstart_mod _, by omega, wstart_mono W hF⟩
    obtain ⟨prev, hprev⟩ := Option.isSome_iff_exists.mp hex
    obtain ⟨hplo, hpsound⟩ := hw.sound _ _ hprev
    have hclr : ∃ w', prev.clear W (c.length - 1) = some w' := by
      unfold Win.clear
      have : ¬ (prev.lo > c.length - 1 ∨ prev.lo + (W - 1) < c.length - 1) := by rw [hplo]; omega
      simp [this]
    obtain ⟨w', hw'⟩ := hclr
    obtain ⟨hw'lo, hw'has⟩ := has_clear hw'
    refine ⟨⟨w', c.length - 1⟩, ⟨by simp [hlen], ?_, ?_⟩, Or.inr ⟨hmod, hWle, ?_⟩⟩
    · show w'.lo = wstart W c.dropLast.length
      rw [hlen, hw'lo, hplo]
    · intro b i h1 hFb h2 hb
      rw [hlen] at h2
      have h1' : wstart W (c.length - 1) ≤ b := by
        have : w'.lo = wstart W (c.length - 1) := by rw [hw'lo, hplo]
        simpa [this] using h1
      rw [hw'has]
      have hne' : (b != c.length - 1) = true := by simp; omega
      rw [hne', Bool.true_and]
      exact hpsound b i h1' hFb (by omega) (bitIn_dropLast hb)
    · rw [hws] at hprev
      simp only [hcross, if_true, hlo, hnx, hws, List.cons_append, List.nil_append, hprev, hw']
  · rw [hL] at hsame
    have hmod : c.length % W ≠ 0 := by
      intro e
      have := wstart_of_mod_zero e
      have := wstart_le W (c.length - 1)
      omega
    have hncross : ¬ c.length - 1 + 1 = f.win.lo := by
      rw [hlo, hsame, hL]
      have := wstart_le W (c.length - 1)
      omega
    have hclr : ∃ w', f.win.clear W (c.length - 1) = some w' := by
      unfold Win.clear
      have h1 := wstart_le W (c.length - 1)
      have h2 := lt_wstart_add hW (c.length - 1)
      have : ¬ (f.win.lo > c.length - 1 ∨ f.win.lo + (W - 1) < c.length - 1) := by rw [hlo, hsame]; omega
      simp [this]
    obtain ⟨w', hw'⟩ := hclr
    obtain ⟨hw'lo, hw'has⟩ := has_clear hw'
    refine ⟨⟨w', c.length - 1⟩, ⟨by simp [hlen], ?_, ?_⟩, Or.inl ⟨hmod, ?_⟩⟩
    · show w'.lo = wstart W c.dropLast.length
      rw [hlen, hw'lo, hlo, hsame]
    · intro b i h1 hFb h2 hb
      rw [hlen] at h2
      rw [hw'has]
      have hne' : (b != c.length - 1) = true := by simp; omega
      rw [hne', Bool.true_and]
      apply hf.sound b i _ hFb (by omega) (bitIn_dropLast hb)
      have : w'.lo = f.win.lo := hw'lo
      simpa [this] using h1
    · simp only [hncross, if_false, hw']

theorem getWin_none_of_incompleteP {W : Nat} {c : List Block} {F : Nat} {d : Disk} (hw : WinsOKP W c F d)
    {lo : Nat} (h : ¬ (lo % W = 0 ∧ lo + W ≤ c.length ∧ wstart W F ≤ lo)) : getWin d lo = none := by
  cases hx : getWin d lo with
  | none => rfl
  | some w =>
    have : (getWin d lo).isSome = true := by rw [hx]; rfl
    exact absurd ((hw.exist lo).mp this) h

/-- The persisted windows of a pruning node after a revert: those of the shorter chain. -/
theorem winsOKP_dropLast {W : Nat} {c : List Block} {F : Nat} {d d' : Disk} (hw : WinsOKP W c F d)
    (hwin : ∀ lo, getWin d' lo = if lo + W ≤ c.length - 1 then getWin d lo else none) :
    WinsOKP W c.dropLast F d' := by
  have hlen : c.dropLast.length = c.length - 1 := by simp
  constructor
  · intro lo
    rw [hwin lo, hlen]
    by_cases h : lo + W ≤ c.length - 1
    · simp only [h, if_true]
      rw [hw.exist lo]
      constructor
      · rintro ⟨a, _, e⟩; exact ⟨a, trivial, e⟩
      · rintro ⟨a, _, e⟩; exact ⟨a, by omega, e⟩
    · simp [h]
  · intro lo w hget
    rw [hwin lo] at hget
    by_cases h : lo + W ≤ c.length - 1
    · simp only [h, if_true] at hget
      obtain ⟨hl, hs⟩ := hw.sound lo w hget
      exact ⟨hl, fun b i h1 hFb h2 hb => hs b i h1 hFb h2 (bitIn_dropLast hb)⟩
    · simp [h] at hget

/-- The plan of a RevertHead from a good pruning node whose new head stays retained. -/
theorem planOK_revert {W : Nat} (hW : 0 < W) {c : List Block} {F : Nat} {n : Node} (hg : GoodP W c F n)
    (hv : floorOf n.disk = 0 ∨ ∀ h, getHeight n.disk = some h → floorOf n.disk < h) :
    ∃ c', (c' = c ∨ c' = c.dropLast) ∧
      PlanOK W c c' F .revert (planG (initFilterP W) W Fixes.all n .revert)
        (failMemG (initFilterP W) W Fixes.all n .revert) := by
  have hfm : failMemG (initFilterP W) W Fixes.all n .revert =
      (planG (initFilterP W) W Fixes.all n .revert).mem := rfl
  have hpl0 : planG (initFilterP W) W Fixes.all n .revert = revertPlanG (initFilterP W) W Fixes.all n := rfl
  rw [hfm, hpl0]
  by_cases hne : c.length = 0
  · have hh : getHeight n.disk = none := by rw [hg.img.pcoh.height]; simp [hne]
    have hpl : revertPlanG (initFilterP W) W Fixes.all n = ⟨n.disk, [], n.mem, .err .notfound⟩ := by
      simp only [revertPlanG, hh]
    rw [hpl]
    exact ⟨c, Or.inl rfl, by simp, hg.img, by simpa [applyCommits] using hg.img, trivial, trivial, hg.wf, hg.floor⟩
  · have hnil : c ≠ [] := by intro e; subst e; exact hne rfl
    obtain ⟨c', last, rfl⟩ : ∃ c' last, c = c' ++ [last] :=
      ⟨c.dropLast, c.getLast hnil, (List.dropLast_concat_getLast hnil).symm⟩
    have hlen : (c' ++ [last]).length = c'.length + 1 := by simp
    have hFle : F ≤ c'.length := by have := hg.floor; rw [hlen] at this; omega
    have hat : (c' ++ [last])[c'.length]? = some last := by
      rw [List.getElem?_append_right (Nat.le_refl _)]; simp
    have hh : getHeight n.disk = some c'.length := by rw [hg.img.pcoh.height]; simp
    have hpc := hg.img.pcoh
    have hsu : getBlk n.disk (.su c'.length) = some last :=
      getBlk_of_eq (by rw [hpc.su, if_neg (by omega), hat])
    have hhb : getBlk n.disk (.header c'.length) = some last :=
      getBlk_of_eq (by rw [hpc.header, if_neg (by omega), hat])
    have htb : getBlk n.disk (.txs c'.length) = some last :=
      getBlk_of_eq (by rw [hpc.txs, if_neg (by omega), hat])
    have hst : ¬ stateRoot n.disk ≠ last.root := by rw [hpc.state]; simp
    -- the new head stays retained
    have hfl' : F ≤ c'.length - 1 := by
      rw [floorOf_of_pcoh hpc hg.floor] at hv
      rcases hv with h0 | h0
      · omega
      · have := h0 _ hh; omega
    obtain ⟨hg1, ⟨f, hmem, hf⟩, hoth⟩ := ensureInitP_goodP hW hg
    obtain ⟨f', hf', hor⟩ := onReorg_goodP hW (d := (ensureInitG (initFilterP W) n).disk) hne hg.floor hf hg1.img.wins
    have hdl : (c' ++ [last]).dropLast = c' := by simp
    rw [hdl] at hf'
    have hwf' := wf_prefix hg1.wf
    have assemble : ∀ ws : List Write,
        f.onReorg W Fixes.all (ensureInitG (initFilterP W) n).disk = (f', ws, .ok) → OnlyAux ws →
        (∀ base : Disk, applyBatch base ws .snap = none) →
        (∀ lo, getWin (applyBatch (ensureInitG (initFilterP W) n).disk (revertWrites c'.length last last last ++ ws)) lo =
          if lo + W ≤ (c' ++ [last]).length - 1 then getWin (ensureInitG (initFilterP W) n).disk lo else none) →
        ∃ c'', (c'' = c' ++ [last] ∨ c'' = (c' ++ [last]).dropLast) ∧
          PlanOK W (c' ++ [last]) c'' F .revert (revertPlanG (initFilterP W) W Fixes.all n)
            (revertPlanG (initFilterP W) W Fixes.all n).mem := by
      intro ws hre haux hsnapd hwind
      have hpl : revertPlanG (initFilterP W) W Fixes.all n =
          ⟨(ensureInitG (initFilterP W) n).disk, [revertWrites c'.length last last last ++ ws], .ready f', .ok⟩ := by
        simp only [revertPlanG, hh, hsu, hhb, htb]
        rw [if_neg hst]
        simp only [hmem, hre]
      rw [hpl]
      refine ⟨c', Or.inr hdl.symm, by simp, hg1.img, ?_, hf', trivial, hwf', hfl'⟩
      simp only [applyCommits, List.foldl_cons, List.foldl_nil]
      refine ⟨pcoh_prefix hg1.wf hg1.img.pcoh hFle haux, ?_, ?_⟩
      · have := winsOKP_dropLast hg1.img.wins hwind
        rw [hdl] at this; exact this
      · unfold SnapOKP
        rw [applyBatch_append, hsnapd]
        trivial
    have hrw : ∀ lo, applyBatch (ensureInitG (initFilterP W) n).disk (revertWrites c'.length last last last) (.win lo) =
        (ensureInitG (initFilterP W) n).disk (.win lo) := fun lo => revertWrites_aux _ _ _ _ (by simp [IsChainKey])
    have hmodeq : ∀ lo, lo % W = 0 → lo + W = (c' ++ [last]).length → (c' ++ [last]).length % W = 0 := by
      intro lo h1 h2; rw [← h2, Nat.add_mod_right]; exact h1
    rcases hor with ⟨hmod, hre⟩ | ⟨hmod, hWle, hre⟩
    · apply assemble [.del .snap] hre onlyAux_del_snap
      · intro base; simp [applyBatch, applyW]
      · intro lo
        have : getWin (applyBatch (ensureInitG (initFilterP W) n).disk (revertWrites c'.length last last last ++ [.del .snap])) lo =
            getWin (ensureInitG (initFilterP W) n).disk lo := by
          apply getWin_congr
          rw [applyBatch_append]
          simp only [applyBatch, List.foldl_cons, List.foldl_nil, applyW]
          have := hrw lo
          simp only [applyBatch] at this
          simp [this]
        rw [this]
        by_cases h : lo + W ≤ (c' ++ [last]).length - 1
        · rw [if_pos h]
        · rw [if_neg h]
          apply getWin_none_of_incompleteP hg1.img.wins
          rintro ⟨h1, h2, _⟩
          exact hmod (hmodeq lo h1 (by omega))
    · apply assemble [.del .snap, .del (.win (c' ++ [last]).length), .del (.win ((c' ++ [last]).length - W))] hre
      · intro w hw
        simp only [List.mem_cons, List.mem_nil_iff, or_false] at hw
        rcases hw with rfl | rfl | rfl <;> exact Or.inr ⟨_, rfl, fun h => h⟩
      · intro base; simp [applyBatch, applyW]
      · intro lo
        by_cases e1 : lo = (c' ++ [last]).length - W
        · have : getWin (applyBatch (ensureInitG (initFilterP W) n).disk (revertWrites c'.length last last last ++
              [.del .snap, .del (.win (c' ++ [last]).length), .del (.win ((c' ++ [last]).length - W))])) lo = none := by
            subst e1
            simp [getWin, applyBatch_append, applyBatch, applyW]
          rw [this]
          have hn' : ¬ lo + W ≤ (c' ++ [last]).length - 1 := by omega
          rw [if_neg hn']
        · by_cases e2 : lo = (c' ++ [last]).length
          · have : getWin (applyBatch (ensureInitG (initFilterP W) n).disk (revertWrites c'.length last last last ++
                [.del .snap, .del (.win (c' ++ [last]).length), .del (.win ((c' ++ [last]).length - W))])) lo = none := by
              subst e2
              simp [getWin, applyBatch_append, applyBatch, applyW]
            rw [this]
            have hn' : ¬ lo + W ≤ (c' ++ [last]).length - 1 := by omega
            rw [if_neg hn']
          · have : getWin (applyBatch (ensureInitG (initFilterP W) n).disk (revertWrites c'.length last last last ++
                [.del .snap, .del (.win (c' ++ [last]).length), .del (.win ((c' ++ [last]).length - W))])) lo =
                getWin (ensureInitG (initFilterP W) n).disk lo := by
              apply getWin_congr
              rw [applyBatch_append]
              have h1 : Key.win lo ≠ Key.win ((c' ++ [last]).length - W) := by intro h; cases h; exact e1 rfl
              have h2 : Key.win lo ≠ Key.win (c' ++ [last]).length := by intro h; cases h; exact e2 rfl
              simp only [applyBatch, List.foldl_cons, List.foldl_nil, applyW]
              have := hrw lo
              simp only [applyBatch] at this
              have e1' : ¬ lo = c'.length + 1 - W := by rw [← hlen]; exact e1
              have e2' : ¬ lo = c'.length + 1 := by rw [← hlen]; exact e2
              simp [h1, h2, e1', e2', this]
            rw [this]
            by_cases h : lo + W ≤ (c' ++ [last]).length - 1
            · rw [if_pos h]
            · rw [if_neg h]
              apply getWin_none_of_incompleteP hg1.img.wins
              rintro ⟨h1, h2, _⟩
              omega

end Juno.C05
