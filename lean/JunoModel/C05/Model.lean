/-
C05 — executable model of juno's block storage as far as atomicity and crash consistency go.

Transcribed (core Lean only; linked into `c05drv`):

* `blockchain/statebackend/{statebackend,deprecated}.go`  Store / RevertHead: ONE closure handed to
  `database.Write/Update`; every effect goes to the batch; the in-memory running event filter is
  mutated INSIDE the closure (`InsertWithBatch` / `OnReorgWithBatch`), i.e. before the commit.
* `blockchain/statebackend/block_ops.go`  verifyBlockSuccession, writeBlockContent (chain height
  LAST), deleteBlockContent.
* `core/running_event_filter.go`  insert (window rollover persists the window through the writer),
  onReorg (backward boundary crossing: deletes the persisted CURRENT window, reloads the previous
  one from the database), Write (snapshot), InitializeRunningEventFilter, fillRunningEventFilter,
  rebuildRunningEventFilter, lazy initialisation.
* `blockchain/blockchain.go`  SetL1Head, WriteRunningEventFilter; a new `Blockchain` on an existing
  store = lazy filter (restart).
* `pruner/accessors.go`  PruneUpto (several batches).

Abstractions (stated in notes/C05.md): hashes are opaque naturals; a block's events bloom is the
list of its set bit indices; the state tries are one key `state` holding the state root (they are
written through the same batch; their internals belong to C01/C03/C04); `NumBlocksPerFilter` is the
parameter `W` (8192 in juno, the driver runs with 8192; theorems hold for every `W > 0`).
-/
namespace Juno.C05

/-- What the model keeps of a block (header + state update + transactions). -/
structure Block where
  num : Nat
  hash : Nat
  parent : Nat
  /-- GlobalStateRoot / state update NewRoot -/
  root : Nat
  /-- state update OldRoot -/
  oldRoot : Nat
  /-- the root the state really has once the block's diff is applied (`st.Update` recomputes the
  commitment and refuses the block when it differs from `root`) -/
  applied : Nat
  /-- set bit indices of the header's EventsBloom -/
  bits : List Nat
  /-- transaction hashes -/
  txs : List Nat
deriving DecidableEq, Repr

/-- `core.AggregatedBloomFilter`: a window `[lo, lo+W-1]`; `cells` = set (block, bit) pairs. -/
structure Win where
  lo : Nat
  cells : List (Nat × Nat)
deriving DecidableEq, Repr

def Win.empty (lo : Nat) : Win := ⟨lo, []⟩

def Win.has (w : Win) (b i : Nat) : Bool := w.cells.contains (b, i)

/-- `AggregatedBloomFilter.Insert`: range check, then set the bits of column `b`. -/
def Win.insert (W : Nat) (w : Win) (bits : List Nat) (b : Nat) : Option Win :=
  if w.lo > b ∨ w.lo + (W - 1) < b then none
  else some { w with cells := bits.map (fun i => (b, i)) ++ w.cells }

/-- `AggregatedBloomFilter.clear`. -/
def Win.clear (W : Nat) (w : Win) (b : Nat) : Option Win :=
  if w.lo > b ∨ w.lo + (W - 1) < b then none
  else some { w with cells := w.cells.filter (fun c => c.1 != b) }

/-- Keys of the database, by bucket. -/
inductive Key where
  | height
  | header (n : Nat)
  | numByHash (h : Nat)
  | txs (n : Nat)
  | txLookup (t : Nat)
  | su (n : Nat)
  | commit (n : Nat)
  | state
  | win (lo : Nat)
  | snap
  | l1head
deriving DecidableEq, Repr

inductive Val where
  | num (n : Nat)
  | blk (b : Block)
  | idx (n i : Nat)
  | win (w : Win)
  | snap (w : Win) (next : Nat)
deriving DecidableEq, Repr

/-- The database content: a finite map given by its lookup function. -/
abbrev Disk := Key → Option Val

def Disk.empty : Disk := fun _ => none

inductive Write where
  | put (k : Key) (v : Val)
  | del (k : Key)
  /-- `DeleteRange` over the number-keyed buckets: every key selected by `p` -/
  | delWhere (p : Key → Bool)

def applyW (d : Disk) : Write → Disk
  | .put k v => fun k' => if k' = k then some v else d k'
  | .del k => fun k' => if k' = k then none else d k'
  | .delWhere p => fun k' => if p k' then none else d k'

/-- A batch commit: all writes in order, or nothing. -/
def applyBatch (d : Disk) (ws : List Write) : Disk := ws.foldl applyW d

inductive Err where
  | succession | parent | state | notfound | range | io | init
deriving DecidableEq, Repr

inductive Out where
  | ok
  | err (e : Err)
deriving DecidableEq, Repr

/-- `core.RunningEventFilter` (in memory). -/
structure Filt where
  win : Win
  next : Nat
deriving DecidableEq, Repr

/-- In-memory part of a node: the lazily initialised running filter. `broken` = the initialiser
failed once (`initErr` is sticky: `sync.Once`). -/
inductive Mem where
  | lazy
  | ready (f : Filt)
  | broken
deriving DecidableEq, Repr

structure Node where
  disk : Disk
  mem : Mem

def Node.init : Node := ⟨Disk.empty, .lazy⟩

/-- Which of the repairs proposed in `/verif/proposed-fixes/C05-*.diff` the code contains. The
harness probes the real code's behaviour and tells the driver; `Fixes.none` is the unrepaired
tree. -/
structure Fixes where
  /-- Store / RevertHead drop the in-memory running filter (lazy again) when they return an error -/
  resetOnError : Bool
  /-- RevertHead deletes the persisted running-filter snapshot in its batch -/
  dropSnapOnRevert : Bool
  /-- a revert crossing a window boundary backwards deletes the persisted previous window too -/
  dropPrevWinOnCross : Bool
  /-- `ensureInit` does not keep the error of a failed lazy initialisation: the next access runs
  the initialiser again (proposed-fixes/C05-filter-init-error-not-cached.diff) -/
  retryInit : Bool
deriving DecidableEq, Repr

def Fixes.none : Fixes := ⟨false, false, false, false⟩
def Fixes.all : Fixes := ⟨true, true, true, true⟩
/-- The tree before c8ac4a7 (84d7a3b, 702b167, 3373c0b are in, the initialisation error is still
cached); `Fixes.all` is /repo since c8ac4a7. Used by regression witnesses only. -/
def Fixes.beforeC8ac4a7 : Fixes := ⟨true, true, true, false⟩

/-! ### Accessors -/

def getHeight (d : Disk) : Option Nat :=
  match d .height with
  | some (.num h) => some h
  | _ => none

def getBlk (d : Disk) (k : Key) : Option Block :=
  match d k with
  | some (.blk b) => some b
  | _ => none

def getWin (d : Disk) (lo : Nat) : Option Win :=
  match d (.win lo) with
  | some (.win w) => some w
  | _ => none

def stateRoot (d : Disk) : Nat :=
  match d .state with
  | some (.num r) => r
  | _ => 0

def wstart (W n : Nat) : Nat := n - n % W

/-! ### Running event filter -/

/-- `RunningEventFilter.insert` (after `ensureInit`): returns the new filter and what it sends to
the writer. -/
def Filt.insert (W : Nat) (f : Filt) (bits : List Nat) (b : Nat) : Option (Filt × List Write) :=
  match f.win.insert W bits b with
  | none => none
  | some w' =>
    if b = w'.lo + (W - 1) then
      some (⟨Win.empty (b + 1), b + 1⟩, [.put (.win w'.lo) (.win w')])
    else
      some (⟨w', b + 1⟩, [])

/-- `fillRunningEventFilter`: insert the blooms of blocks `b, b+1, …` (`cnt` of them) read from the
database; a rollover during the fill writes the window directly to the database. -/
def fill (W : Nat) : Nat → Nat → Filt → Disk → Option (Filt × Disk)
  | 0, _, f, d => some (f, d)
  | cnt + 1, b, f, d =>
    match getBlk d (.header b) with
    | none => none
    | some hb =>
      match f.insert W hb.bits b with
      | none => none
      | some (f', ws) =>
        -- (no closure layer when nothing is written: a fill of 8000 blocks would otherwise leave
        -- an 8000-deep lookup chain in the compiled driver)
        match ws with
        | [] => fill W cnt (b + 1) f' d
        | _ => fill W cnt (b + 1) f' (applyBatch d ws)

/-- The backward scan of `rebuildRunningEventFilter`: first persisted window at or below `lo`
(stepping by `W`), returning where to continue from. -/
def scanBack (W : Nat) (d : Disk) : Nat → Nat → Nat
  | 0, lo => if (getWin d lo).isSome then lo + W else 0
  | fuel + 1, lo =>
    if (getWin d lo).isSome then lo + W
    else if lo = 0 then 0
    else scanBack W d fuel (lo - W)

def rebuild (W : Nat) (d : Disk) (latest : Nat) : Option (Filt × Disk) :=
  let cont := scanBack W d (latest / W + 1) (wstart W latest)
  fill W (latest + 1 - cont) cont ⟨Win.empty cont, cont⟩ d

/-- `core.InitializeRunningEventFilter`. -/
def initFilter (W : Nat) (d : Disk) : Option (Filt × Disk) :=
  match getHeight d with
  | none => some (⟨Win.empty 0, 0⟩, d)
  | some latest =>
    match d .snap with
    | some (.snap w nx) =>
      if nx = latest + 1 then some (⟨w, nx⟩, d)
      else if nx ≤ latest ∧ latest ≤ w.lo + (W - 1) then fill W (latest + 1 - nx) nx ⟨w, nx⟩ d
      else rebuild W d latest
    | _ => rebuild W d latest

/-- `fill` in which the direct write of a rollover FAILS (the database refuses it): `none` as soon
as a write is attempted. -/
def fillNW (W : Nat) : Nat → Nat → Filt → Disk → Option Filt
  | 0, _, f, _ => some f
  | cnt + 1, b, f, d =>
    match getBlk d (.header b) with
    | none => none
    | some hb =>
      match f.insert W hb.bits b with
      | none => none
      | some (f', ws) =>
        match ws with
        | [] => fillNW W cnt (b + 1) f' d
        | _ => none

/-- `initFilter` on a database that refuses the initialisation's direct writes. -/
def initFilterNW (W : Nat) (d : Disk) : Option Filt :=
  match getHeight d with
  | none => some ⟨Win.empty 0, 0⟩
  | some latest =>
    let rb : Option Filt :=
      let cont := scanBack W d (latest / W + 1) (wstart W latest)
      fillNW W (latest + 1 - cont) cont ⟨Win.empty cont, cont⟩ d
    match d .snap with
    | some (.snap w nx) =>
      if nx = latest + 1 then some ⟨w, nx⟩
      else if nx ≤ latest ∧ latest ≤ w.lo + (W - 1) then fillNW W (latest + 1 - nx) nx ⟨w, nx⟩ d
      else rb
    | _ => rb

/-- The lazy initialisation on this disk needs a direct write (a fill that reaches the end of a
window persists that window): the only commit of the storage paths that is not part of a call's
own batch. -/
def initNeedsWrite (W : Nat) (d : Disk) : Bool :=
  (initFilter W d).isSome && (initFilterNW W d).isNone

/-- `ensureInit`: a lazy filter is brought up from the database on first use. -/
def ensureInit (W : Nat) (n : Node) : Node :=
  match n.mem with
  | .lazy =>
    match initFilter W n.disk with
    | some (f, d') => ⟨d', .ready f⟩
    | none => ⟨n.disk, .broken⟩
  | _ => n

/-- `RunningEventFilter.onReorg` (after `ensureInit`). Reads the previous window from the DATABASE
(not from the batch). Go computes `next-1` in uint64: with `next = 0` it wraps, the boundary test
succeeds for `lo = 0`, and the lookup of the previous window fails with key-not-found. The
assignment order is the code's: window swap, `next`, then `clear`, whose error is returned with the
mutations already made. -/
def Filt.onReorg (W : Nat) (fx : Fixes) (f : Filt) (d : Disk) : Filt × List Write × Out :=
  let snapDel : List Write := if fx.dropSnapOnRevert then [.del .snap] else []
  if f.next = 0 then (f, snapDel, .err .notfound)
  else
    let cur := f.next - 1
    if cur + 1 = f.win.lo then
      let ws := snapDel ++ [Write.del (.win f.win.lo)]
        ++ (if fx.dropPrevWinOnCross then [Write.del (.win (wstart W cur))] else [])
      match getWin d (wstart W cur) with
      | none => (f, ws, .err .notfound)
      | some prev =>
        match prev.clear W cur with
        | none => (⟨prev, cur⟩, ws, .err .range)
        | some w' => (⟨w', cur⟩, ws, .ok)
    else
      match f.win.clear W cur with
      | none => (⟨f.win, cur⟩, snapDel, .err .range)
      | some w' => (⟨w', cur⟩, snapDel, .ok)

/-! ### Operations -/

inductive Op where
  | store (b : Block)
  | revert
  | l1head (v : Nat)
  /-- `WriteRunningEventFilter` -/
  | snap
  /-- graceful stop (snapshot written) and a new process on the same store -/
  | restart
  /-- ungraceful stop and a new process on the same store -/
  | kill
  /-- `pruner.PruneUpto(end)` with one batch per block (the smallest batch threshold) -/
  | prune (endExcl : Nat)

/-- What a call does when no commit fails: the commits it issues in order (each a batch or a
direct write), the memory it leaves behind — also when a commit then fails, because the memory is
changed inside the closure — and its result. `disk0` is the store after side effects of a lazy
filter initialisation (fills that cross a window write directly). -/
structure Plan where
  disk0 : Disk
  commits : List (List Write)
  mem : Mem
  out : Out

/-- `verifyBlockSuccession`. A missing header under an existing height is a key-not-found, which
the code treats like an empty chain. -/
def expectedNext (d : Disk) : Nat × Nat :=
  match getHeight d with
  | none => (0, 0)
  | some h =>
    match getBlk d (.header h) with
    | some hb => (h + 1, hb.hash)
    | none => (0, 0)

def txLookups (n : Nat) : Nat → List Nat → List Write
  | _, [] => []
  | i, t :: ts => .put (.txLookup t) (.idx n i) :: txLookups n (i + 1) ts

/-- state update + `writeBlockContent`: the chain height is the last write. -/
def blockWrites (b : Block) : List Write :=
  [.put .state (.num b.root),
   .put (.numByHash b.hash) (.num b.num),
   .put (.header b.num) (.blk b)]
  ++ txLookups b.num 0 b.txs ++
  [.put (.txs b.num) (.blk b),
   .put (.su b.num) (.blk b),
   .put (.commit b.num) (.num b.num),
   .put .height (.num b.num)]

def storePlan (W : Nat) (n : Node) (b : Block) : Plan :=
  let (en, ep) := expectedNext n.disk
  if en ≠ b.num then ⟨n.disk, [], n.mem, .err .succession⟩
  else if ep ≠ b.parent then ⟨n.disk, [], n.mem, .err .parent⟩
  else if stateRoot n.disk ≠ b.oldRoot then ⟨n.disk, [], n.mem, .err .state⟩
  -- `st.Update`: the diff is applied to the batch, the new commitment must be the header's root;
  -- a late refusal with a full batch, before the block records and the filter are touched
  else if b.applied ≠ b.root then ⟨n.disk, [], n.mem, .err .state⟩
  else
    let n1 := ensureInit W n
    match n1.mem with
    | .ready f =>
      match f.insert W b.bits b.num with
      | none => ⟨n1.disk, [], n1.mem, .err .range⟩
      | some (f', ws) => ⟨n1.disk, [blockWrites b ++ ws], .ready f', .ok⟩
    | m => ⟨n1.disk, [], m, .err .init⟩

/-- `deleteBlockContent` for block `h` whose stored records are `hb` (header), `tb` (transactions). -/
def revertWrites (h : Nat) (hb tb su : Block) : List Write :=
  [.put .state (.num su.oldRoot),
   .del (.header h), .del (.numByHash hb.hash), .del (.commit h)]
  ++ tb.txs.map (fun t => .del (.txLookup t)) ++
  [.del (.txs h), .del (.su h),
   if h = 0 then .del .height else .put .height (.num (h - 1))]

def revertPlan (W : Nat) (fx : Fixes) (n : Node) : Plan :=
  match getHeight n.disk with
  | none => ⟨n.disk, [], n.mem, .err .notfound⟩
  | some h =>
    match getBlk n.disk (.su h), getBlk n.disk (.header h), getBlk n.disk (.txs h) with
    | some su, some hb, some tb =>
      if stateRoot n.disk ≠ su.root then ⟨n.disk, [], n.mem, .err .state⟩
      else
        let n1 := ensureInit W n
        match n1.mem with
        | .ready f =>
          let (f', ws, o) := f.onReorg W fx n1.disk
          match o with
          | .ok => ⟨n1.disk, [revertWrites h hb tb su ++ ws], .ready f', .ok⟩
          | e => ⟨n1.disk, [], .ready f', e⟩
        | m => ⟨n1.disk, [], m, .err .init⟩
    | _, _, _ => ⟨n.disk, [], n.mem, .err .notfound⟩

def snapPlan (W : Nat) (n : Node) : Plan :=
  let n1 := ensureInit W n
  match n1.mem with
  | .ready f => ⟨n1.disk, [[.put .snap (.snap f.win f.next)]], n1.mem, .ok⟩
  | m => ⟨n1.disk, [], m, .err .init⟩

/-- First block number with a commitments record (`OldestRetainedBlock`), searching `[b, b+fuel)`. -/
def oldestRetained (d : Disk) : Nat → Nat → Option Nat
  | 0, _ => none
  | fuel + 1, b => if (d (.commit b)).isSome then some b else oldestRetained d fuel (b + 1)

/-- `PruneBlockDataUpto(end)`: range deletes (the headers keep a lag of `lag` blocks; windows
entirely below the aligned end go). -/
def pruneRange (W lag endExcl : Nat) : List Write :=
  [.delWhere (fun k => match k with
      | .header n => decide (n + lag < endExcl)
      | .commit n => decide (n < endExcl)
      | .su n => decide (n < endExcl)
      | .txs n => decide (n < endExcl)
      | .win lo => decide (W ≤ endExcl ∧ lo < wstart W endExcl)
      | _ => false)]

/-- `core.BlockHashLag`. -/
def blockHashLag : Nat := 10

/-- The point deletes of one iteration of the sweep. -/
def blockDels (prev : Option Nat) (tb : Block) : List Write :=
  (match prev with
    | some h => [Write.del (.numByHash h)]
    | none => [])
  ++ tb.txs.map (fun t => Write.del (.txLookup t))

/-- The sweep of `pruneHashKeyedUpto` (as of 55da2ac): per block, delete the hash→number mapping of
the block BELOW it (`prev`; one iteration late, so the mapping of the block below wherever the
sweep stops survives), its transaction-hash lookups (L1-message lookups and legacy state history
are keyed the same way and abstracted with them); when `cut b acc` says so the pending batch is committed TOGETHER WITH the range delete for the blocks it covers
(`PruneBlockDataUpto(b+1)`) and a new batch is started; the last batch carries
`PruneBlockDataUpto(end)`. `cut` stands for `batch.Size() >= targetBatchByteSize` — an ARBITRARY decision as far as the model
goes (the real size also counts the state-history deletes the model does not have), so theorems
quantify over every `cut`; the harness uses the smallest threshold (`cutNonEmpty`). Reads go to the database, whose records of block
`b` are untouched by the batches committed before (they only delete below `b`). -/
def pruneSweep (W lag : Nat) (d : Disk) (cut : Nat → List Write → Bool) :
    Nat → Nat → Option Nat → List Write → Option (List (List Write))
  | 0, b, _, acc => some [acc ++ pruneRange W lag b]
  | cnt + 1, b, prev, acc =>
    match getBlk d (.su b), getBlk d (.txs b) with
    | some su, some tb =>
      let acc' := acc ++ blockDels prev tb
      if cut b acc' = true then
        (pruneSweep W lag d cut cnt (b + 1) (some su.hash) []).map
          (fun rest => (acc' ++ pruneRange W lag (b + 1)) :: rest)
      else pruneSweep W lag d cut cnt (b + 1) (some su.hash) acc'
    | _, _ => none

/-- `pruner.PruneUpto(end)` with rotation decision `cut`. -/
def prunePlanThr (W : Nat) (n : Node) (endExcl : Nat) (cut : Nat → List Write → Bool) : Plan :=
  match getHeight n.disk with
  | none => ⟨n.disk, [], n.mem, .ok⟩
  | some h =>
    match oldestRetained n.disk (h + 1) 0 with
    | none => ⟨n.disk, [], n.mem, .ok⟩
    | some start =>
      if start ≥ endExcl then ⟨n.disk, [], n.mem, .ok⟩
      else
        let prev : Option (Option Nat) :=
          if start = 0 then some none
          else (getBlk n.disk (.header (start - 1))).map (fun hb => some hb.hash)
        match prev with
        | none => ⟨n.disk, [], n.mem, .err .notfound⟩
        | some p0 =>
          match pruneSweep W blockHashLag n.disk cut (endExcl - start) start p0 [] with
          | none => ⟨n.disk, [], n.mem, .err .notfound⟩
          | some bs => ⟨n.disk, bs, n.mem, .ok⟩

/-- The harness' threshold (1 byte): a batch is committed as soon as it holds a point delete. -/
def cutNonEmpty : Nat → List Write → Bool := fun _ acc => !acc.isEmpty

def prunePlan (W : Nat) (n : Node) (endExcl : Nat) : Plan := prunePlanThr W n endExcl cutNonEmpty

/-! ### The pruning node's filter initialiser (`pruner.InitializeRunningEventFilter`) -/

/-- Backward scan of `pruner.rebuildRunningEventFilter`, bounded by the aligned retention floor:
`(continueFrom, windowStart)`. -/
def scanBackP (W : Nat) (d : Disk) (floor floorAligned : Nat) : Nat → Nat → Nat × Nat
  | 0, lo => if (getWin d lo).isSome then (lo + W, lo + W) else (floor, floorAligned)
  | fuel + 1, lo =>
    if (getWin d lo).isSome then (lo + W, lo + W)
    else if lo ≤ floorAligned then (floor, floorAligned)
    else scanBackP W d floor floorAligned fuel (lo - W)

/-- `pruner.InitializeRunningEventFilter`: like `initFilter`, aware of the retention floor — a
same-window resume from the snapshot is clamped to the floor (the headers below it may be gone;
bits of pruned blocks stay as harmless false positives), a rebuild does not look for persisted
windows below the floor's window and, without an anchor, roots the window at the aligned floor
and fills from the floor itself. -/
def initFilterP (W : Nat) (d : Disk) : Option (Filt × Disk) :=
  match getHeight d with
  | none => some (⟨Win.empty 0, 0⟩, d)
  | some latest =>
    let floor := (oldestRetained d (latest + 1) 0).getD 0
    let rebuildP : Option (Filt × Disk) :=
      let (cont, ws) := scanBackP W d floor (wstart W floor) (latest / W + 1) (wstart W latest)
      fill W (latest + 1 - cont) cont ⟨Win.empty ws, cont⟩ d
    match d .snap with
    | some (.snap w nx) =>
      if nx = latest + 1 then some (⟨w, nx⟩, d)
      else if nx ≤ latest ∧ latest ≤ w.lo + (W - 1) then
        let nx' := max nx floor
        fill W (latest + 1 - nx') nx' ⟨w, nx'⟩ d
      else rebuildP
    | _ => rebuildP

/-- `ensureInit` of a pruning node. -/
def ensureInitP (W : Nat) (n : Node) : Node :=
  match n.mem with
  | .lazy =>
    match initFilterP W n.disk with
    | some (f, d') => ⟨d', .ready f⟩
    | none => ⟨n.disk, .broken⟩
  | _ => n

def plan (W : Nat) (fx : Fixes) (n : Node) : Op → Plan
  | .store b => storePlan W n b
  | .revert => revertPlan W fx n
  | .l1head v => ⟨n.disk, [[.put .l1head (.num v)]], n.mem, .ok⟩
  | .snap => snapPlan W n
  | .restart =>
    let p := snapPlan W n
    { p with mem := match p.out with | .ok => .lazy | _ => p.mem }
  | .kill => ⟨n.disk, [], .lazy, .ok⟩
  | .prune e => prunePlan W n e

/-- What goes wrong during a call. `failAt k`: the k-th commit of the call (0-based) returns an
error, nothing of it is applied, the call returns the error. `crashAfter k`: the process dies right
after the k-th commit was applied. -/
inductive Fault where
  | none
  | failAt (k : Nat)
  | crashAfter (k : Nat)
  /-- the direct window write of the lazy filter initialisation inside the call fails -/
  | failInit
  /-- the process dies after the lazy initialisation's write, before the call's own commit -/
  | crashInit
deriving DecidableEq, Repr

def applyCommits (d : Disk) (cs : List (List Write)) : Disk := cs.foldl applyBatch d

/-- Memory after a call that returned `o`: the repaired Store / RevertHead drop the running
filter when they fail. -/
def memAfter (fx : Fixes) (op : Op) (o : Out) (m : Mem) : Mem :=
  match op, o with
  | .store _, .err _ => if fx.resetOnError then .lazy else m
  | .revert, .err _ => if fx.resetOnError then .lazy else m
  | _, _ => m

/-- One call under a fault. A restart (`restart` op without failure, `kill`, or a crash) leaves a
lazy filter. -/
def exec (W : Nat) (fx : Fixes) (n : Node) (op : Op) (ft : Fault) : Node × Out :=
  let p := plan W fx n op
  match ft with
  | .none => (⟨applyCommits p.disk0 p.commits, memAfter fx op p.out p.mem⟩, p.out)
  | .failAt k =>
    if k < p.commits.length then
      (⟨applyCommits p.disk0 (p.commits.take k),
        memAfter fx op (.err .io) (match op with | .restart => (snapPlan W n).mem | _ => p.mem)⟩, .err .io)
    else (⟨applyCommits p.disk0 p.commits, memAfter fx op p.out p.mem⟩, p.out)
  | .crashAfter k => (⟨applyCommits p.disk0 (p.commits.take (k + 1)), .lazy⟩, .ok)
  | .failInit =>
    -- The call reaches the filter (on a node whose initialisation cannot complete it answers
    -- `err init` exactly then), the filter is lazy and its initialisation has to write: the
    -- write fails, nothing reaches the disk, the call returns the initialisation error. The
    -- code as it is keeps that error (`.broken`); Store / RevertHead then drop it again
    -- (`memAfter`), WriteRunningEventFilter does not.
    if n.mem = .lazy ∧ initNeedsWrite W n.disk = true ∧ (plan W fx ⟨n.disk, .broken⟩ op).out = .err .init then
      (⟨n.disk, memAfter fx op (.err .init) (if fx.retryInit then .lazy else .broken)⟩, .err .init)
    else (⟨applyCommits p.disk0 p.commits, memAfter fx op p.out p.mem⟩, p.out)
  | .crashInit => (⟨p.disk0, .lazy⟩, .ok)

/-- A history: calls with their faults. -/
def run (W : Nat) (fx : Fixes) (n : Node) : List (Op × Fault) → Node
  | [] => n
  | (op, ft) :: rest => run W fx (exec W fx n op ft).1 rest

/-! ### The calls with the filter initialiser as a parameter (round 5)

`blockchain.New` takes the initialiser of the lazily initialised running filter as an option
(`WithRunningEventFilterInitializer`) and installs `pruner.InitializeRunningEventFilter` — the
floor-aware one, `initFilterP` — BY DEFAULT, for every node, pruning or not. The definitions above
use `core.InitializeRunningEventFilter` (`initFilter`); the ones below are the same calls with the
initialiser `ini` (and `nw`: does the initialisation on this disk have to write a window?) as a
parameter. `execP` is the call as `blockchain.New` wires it. `ProofsInit` proves
`execG (initFilter W) (initNeedsWrite W) = exec` and `execP = exec` on every never-pruned image. -/

/-- `ensureInit` with the initialiser the `Blockchain` was constructed with. -/
def ensureInitG (ini : Disk → Option (Filt × Disk)) (n : Node) : Node :=
  match n.mem with
  | .lazy =>
    match ini n.disk with
    | some (f, d') => ⟨d', .ready f⟩
    | none => ⟨n.disk, .broken⟩
  | _ => n

def storePlanG (ini : Disk → Option (Filt × Disk)) (W : Nat) (n : Node) (b : Block) : Plan :=
  let (en, ep) := expectedNext n.disk
  if en ≠ b.num then ⟨n.disk, [], n.mem, .err .succession⟩
  else if ep ≠ b.parent then ⟨n.disk, [], n.mem, .err .parent⟩
  else if stateRoot n.disk ≠ b.oldRoot then ⟨n.disk, [], n.mem, .err .state⟩
  else if b.applied ≠ b.root then ⟨n.disk, [], n.mem, .err .state⟩
  else
    let n1 := ensureInitG ini n
    match n1.mem with
    | .ready f =>
      match f.insert W b.bits b.num with
      | none => ⟨n1.disk, [], n1.mem, .err .range⟩
      | some (f', ws) => ⟨n1.disk, [blockWrites b ++ ws], .ready f', .ok⟩
    | m => ⟨n1.disk, [], m, .err .init⟩

def revertPlanG (ini : Disk → Option (Filt × Disk)) (W : Nat) (fx : Fixes) (n : Node) : Plan :=
  match getHeight n.disk with
  | none => ⟨n.disk, [], n.mem, .err .notfound⟩
  | some h =>
    match getBlk n.disk (.su h), getBlk n.disk (.header h), getBlk n.disk (.txs h) with
    | some su, some hb, some tb =>
      if stateRoot n.disk ≠ su.root then ⟨n.disk, [], n.mem, .err .state⟩
      else
        let n1 := ensureInitG ini n
        match n1.mem with
        | .ready f =>
          let (f', ws, o) := f.onReorg W fx n1.disk
          match o with
          | .ok => ⟨n1.disk, [revertWrites h hb tb su ++ ws], .ready f', .ok⟩
          | e => ⟨n1.disk, [], .ready f', e⟩
        | m => ⟨n1.disk, [], m, .err .init⟩
    | _, _, _ => ⟨n.disk, [], n.mem, .err .notfound⟩

def snapPlanG (ini : Disk → Option (Filt × Disk)) (n : Node) : Plan :=
  let n1 := ensureInitG ini n
  match n1.mem with
  | .ready f => ⟨n1.disk, [[.put .snap (.snap f.win f.next)]], n1.mem, .ok⟩
  | m => ⟨n1.disk, [], m, .err .init⟩

def planG (ini : Disk → Option (Filt × Disk)) (W : Nat) (fx : Fixes) (n : Node) : Op → Plan
  | .store b => storePlanG ini W n b
  | .revert => revertPlanG ini W fx n
  | .l1head v => ⟨n.disk, [[.put .l1head (.num v)]], n.mem, .ok⟩
  | .snap => snapPlanG ini n
  | .restart =>
    let p := snapPlanG ini n
    { p with mem := match p.out with | .ok => .lazy | _ => p.mem }
  | .kill => ⟨n.disk, [], .lazy, .ok⟩
  | .prune e => prunePlan W n e

/-- `exec` with the initialiser as a parameter. -/
def execG (ini : Disk → Option (Filt × Disk)) (nw : Disk → Bool) (W : Nat) (fx : Fixes) (n : Node)
    (op : Op) (ft : Fault) : Node × Out :=
  let p := planG ini W fx n op
  match ft with
  | .none => (⟨applyCommits p.disk0 p.commits, memAfter fx op p.out p.mem⟩, p.out)
  | .failAt k =>
    if k < p.commits.length then
      (⟨applyCommits p.disk0 (p.commits.take k),
        memAfter fx op (.err .io) (match op with | .restart => (snapPlanG ini n).mem | _ => p.mem)⟩, .err .io)
    else (⟨applyCommits p.disk0 p.commits, memAfter fx op p.out p.mem⟩, p.out)
  | .crashAfter k => (⟨applyCommits p.disk0 (p.commits.take (k + 1)), .lazy⟩, .ok)
  | .failInit =>
    if n.mem = .lazy ∧ nw n.disk = true ∧ (planG ini W fx ⟨n.disk, .broken⟩ op).out = .err .init then
      (⟨n.disk, memAfter fx op (.err .init) (if fx.retryInit then .lazy else .broken)⟩, .err .init)
    else (⟨applyCommits p.disk0 p.commits, memAfter fx op p.out p.mem⟩, p.out)
  | .crashInit => (⟨p.disk0, .lazy⟩, .ok)

/-- `pruner.InitializeRunningEventFilter` on a database that refuses the initialisation's direct
writes (`initFilterNW` for the floor-aware initialiser). -/
def initFilterPNW (W : Nat) (d : Disk) : Option Filt :=
  match getHeight d with
  | none => some ⟨Win.empty 0, 0⟩
  | some latest =>
    let floor := (oldestRetained d (latest + 1) 0).getD 0
    let rb : Option Filt :=
      let (cont, ws) := scanBackP W d floor (wstart W floor) (latest / W + 1) (wstart W latest)
      fillNW W (latest + 1 - cont) cont ⟨Win.empty ws, cont⟩ d
    match d .snap with
    | some (.snap w nx) =>
      if nx = latest + 1 then some ⟨w, nx⟩
      else if nx ≤ latest ∧ latest ≤ w.lo + (W - 1) then
        let nx' := max nx floor
        fillNW W (latest + 1 - nx') nx' ⟨w, nx'⟩ d
      else rb
    | _ => rb

def initNeedsWriteP (W : Nat) (d : Disk) : Bool :=
  (initFilterP W d).isSome && (initFilterPNW W d).isNone

/-- One call of a `Blockchain` as `blockchain.New` builds it: the floor-aware initialiser. -/
def execP (W : Nat) (fx : Fixes) (n : Node) (op : Op) (ft : Fault) : Node × Out :=
  execG (initFilterP W) (initNeedsWriteP W) W fx n op ft

def runP (W : Nat) (fx : Fixes) (n : Node) : List (Op × Fault) → Node
  | [] => n
  | (op, ft) :: rest => runP W fx (execP W fx n op ft).1 rest

/-! ### The shared in-memory retention floor (`pruner.RetentionFloor`, round 5)

`node.New` builds ONE `RetentionFloor`, hands it to the `Blockchain` (`WithRetentionFloor`; the
state backends consult it in `StateAtBlockNumber` instead of probing the database) and to the
`pruner.Pruner` service; `node.Run` seeds it from the database when the process starts; the
pruner RAISES it in `pruneUpto` BEFORE the multi-batch sweep. It is a cache of the disk's oldest
retained block: memory next to the running filter. -/

/-- `OldestRetainedBlock` of the image (0 on an empty database). -/
def floorOf (d : Disk) : Nat :=
  match getHeight d with
  | none => 0
  | some h => (oldestRetained d (h + 1) 0).getD 0

/-- `RetentionFloor.raiseTo`: never lowers; the zero value (unseeded, `none`) takes any value. -/
def raiseFloor (cur : Option Nat) (f : Nat) : Option Nat :=
  match cur with
  | none => some f
  | some c => if f + 1 ≤ c + 1 then some c else some f

/-- `RetentionFloor.Seed`: oldest retained block − 1 (history entries hold pre-block values, so the
state one block below the oldest retained block is reconstructible); an empty database seeds 0. -/
def seedFloor (cur : Option Nat) (d : Disk) : Option Nat := raiseFloor cur (max (floorOf d) 1 - 1)

/-- `RequireStateRetainedByBlockNumber` (what `StateAtBlockNumber(k)` decides before it hands out a
reader): seeded floor — `k` at or above the floor and at most the chain height; unseeded — the
database probe: header `k` readable and its hash→number mapping still present. -/
def stateServed (fl : Option Nat) (d : Disk) (k : Nat) : Bool :=
  match fl with
  | some f =>
    if k < f then false
    else
      match getHeight d with
      | some h => decide (k ≤ h)
      | none => false
  | none =>
    match getBlk d (.header k) with
    | some hb => (d (.numByHash hb.hash)).isSome
    | none => false

/-- A node together with the retention floor its process shares between `Blockchain` and pruner.
`wired = false`: a `Blockchain` built without `WithRetentionFloor` (floor never seeded: database
probe). -/
structure PNode where
  node : Node
  floor : Option Nat
  wired : Bool

inductive POp where
  /-- a call of the `Blockchain`, or the package-level `PruneUpto`: the floor is not touched -/
  | call (op : Op)
  /-- `Pruner.onNewL1Head(l1)` of a pruner with `numRetainedBlocks = R` (no min-age floor) -/
  | l1event (l1 R : Nat)

/-- The floor a freshly started process holds. -/
def freshFloor (wired : Bool) (d : Disk) : Option Nat := if wired then seedFloor none d else none

def Fault.isCrash : Fault → Bool
  | .crashAfter _ => true
  | .crashInit => true
  | _ => false

/-- One call / pruner event under a fault. `early = true` is the code: `pruneUpto` raises the
shared floor to `oldestBlockToKeep − 1` BEFORE `PruneUpto` runs its batches (`early = false`, raising
only after a successful sweep, exists for the negative witness in `Props`). A process that
(re)starts — `kill`, a successful graceful `restart`, any crash — holds a freshly seeded floor. -/
def pexec (early : Bool) (W : Nat) (fx : Fixes) (pn : PNode) (pop : POp) (ft : Fault) : PNode × Out :=
  match pop with
  | .call op =>
    let r := execP W fx pn.node op ft
    let restarted : Bool :=
      ft.isCrash ||
        (match op with
          | .kill => true
          | .restart => decide (r.2 = .ok)
          | _ => false)
    (⟨r.1, if restarted then freshFloor pn.wired r.1.disk else pn.floor, pn.wired⟩, r.2)
  | .l1event l1 R =>
    match getHeight pn.node.disk with
    | none => (pn, .ok)
    | some h =>
      if l1 ≥ h ∨ l1 < R then (pn, .ok)
      else
        let e := l1 - R
        let raised := if e > 0 then raiseFloor pn.floor (e - 1) else pn.floor
        let r := execP W fx pn.node (.prune e) ft
        let fl : Option Nat :=
          if ft.isCrash then freshFloor pn.wired r.1.disk
          else if early then raised
          else (match r.2 with | .ok => raised | _ => pn.floor)
        (⟨r.1, fl, pn.wired⟩, r.2)

def prun (early : Bool) (W : Nat) (fx : Fixes) (pn : PNode) : List (POp × Fault) → PNode
  | [] => pn
  | (pop, ft) :: rest => prun early W fx (pexec early W fx pn pop ft).1 rest

/-- A freshly started process on an empty database, wired as `node.New` / `node.Run` do. -/
def PNode.init : PNode := ⟨Node.init, some 0, true⟩

end Juno.C05
