import JunoModel.C05.ProofsP6
import JunoModel.C05.ModelSvc
/-!
Helper lemmas for C05, part 25 (round 6): the `pruner.Pruner` service with BOTH event handlers
(`onNewL1Head`, `onNewBlock`) and its counter; the invariant `PInv` (node good, floor seeded and
safe) along every history of calls and events.
-/
namespace Juno.C05

/-! ### The decisions of the two handlers -/

/-- An L2-head event that prunes: the target is `num − R`, at most the chain height (the head is
never pruned), the L1 head is above the event's block, and the counter is reset. -/
theorem l2Decide_some {l1 height : Option Nat} {num R per pending e p' : Nat}
    (h : l2Decide l1 height num R per pending = (some e, p')) :
    p' = 0 ∧ e = num - R ∧ R ≤ num ∧ per ≤ pending + 1 ∧
      (∃ hh, height = some hh ∧ num ≤ hh ∧ e ≤ hh) ∧ (∃ l, l1 = some l ∧ num < l) := by
  unfold l2Decide at h
  cases l1 with
  | none => simp at h
  | some l =>
    simp only [] at h
    split at h
    · simp at h
    · rename_i hg
      cases height with
      | none => simp at h
      | some hh =>
        simp only [] at h
        split at h
        · simp at h
        · split at h
          · simp at h
          · simp only [Prod.mk.injEq, Option.some.injEq] at h
            refine ⟨h.2.symm, h.1.symm, by omega, by omega, ⟨hh, rfl, by omega, by omega⟩, ⟨l, rfl, by omega⟩⟩

/-- An L2-head event that does not prune leaves the counter alone or counts one; it counts only
below the threshold. -/
theorem l2Decide_none {l1 height : Option Nat} {num R per pending p' : Nat}
    (h : l2Decide l1 height num R per pending = (none, p')) :
    p' = pending ∨ (p' = pending + 1 ∧ p' < per) := by
  unfold l2Decide at h
  cases l1 with
  | none => simp at h; exact Or.inl h.symm
  | some l =>
    simp only [] at h
    split at h
    · simp at h; exact Or.inl h.symm
    · cases height with
      | none => simp at h; exact Or.inl h.symm
      | some hh =>
        simp only [] at h
        split at h
        · simp at h; exact Or.inl h.symm
        · split at h
          · simp at h; right; omega
          · simp at h

/-- The counter stays below the threshold (for a threshold of at least 1). -/
theorem l2Decide_counter_lt {l1 height : Option Nat} {num R per pending : Nat} (hp : pending < max per 1) :
    (l2Decide l1 height num R per pending).2 < max per 1 := by
  cases hd : l2Decide l1 height num R per pending with
  | mk t p' =>
    cases t with
    | none => rcases l2Decide_none hd with h | h <;> simp only [] <;> omega
    | some e => have := (l2Decide_some hd).1; simp only []; omega

/-- A stale event (its block is above the chain height: reverted since it was published) is
dropped: no prune, counter untouched. -/
theorem l2Decide_stale (l1 : Option Nat) (h num R per pending : Nat) (hs : h < num) :
    l2Decide l1 (some h) num R per pending = (none, pending) := by
  unfold l2Decide
  cases l1 with
  | none => rfl
  | some l =>
    by_cases hg : l ≤ num ∨ num < R <;> simp [hg, hs]

/-- The L1 handler's decision is what `pexec` does with an L1 event. -/
theorem pexec_l1event_eq (early : Bool) (W : Nat) (fx : Fixes) (pn : PNode) (l1 R : Nat) (ft : Fault) :
    pexec early W fx pn (.l1event l1 R) ft =
      match (l1Decide (getHeight pn.node.disk) l1 R 0).1 with
      | none => (pn, .ok)
      | some e => pruneUptoEv early W fx pn e ft := by
  simp only [pexec, l1Decide, pruneUptoEv]
  cases getHeight pn.node.disk with
  | none => rfl
  | some h =>
    simp only []
    split <;> rfl

/-! ### The shared tail `pruneUpto` keeps the invariant -/

theorem pruneUptoEv_inv {W : Nat} {c : List Block} {F : Nat} {pn : PNode}
    (hi : PInv W c F pn) (hw : pn.wired = true) (e : Nat)
    (he : ∀ h', getHeight pn.node.disk = some h' → e ≤ h') (ft : Fault) :
    ∃ F', PInv W c F' (pruneUptoEv true W Fixes.all pn e ft).1 := by
  obtain ⟨f0, hf0⟩ : ∃ f0, pn.floor = some f0 := by
    have := hi.seeded
    rw [hw] at this
    exact Option.isSome_iff_exists.mp this
  obtain ⟨F', h1, h2, h3⟩ := prune_goodP hi.good e he ft
  refine ⟨F', ?_⟩
  simp only [pruneUptoEv]
  by_cases hcr : ft.isCrash = true
  · simp only [hcr, if_true]
    exact freshFloor_inv pn.wired h3
  · simp only [hcr, Bool.false_eq_true, if_false, if_true]
    have hF0 := hi.safe f0 hf0
    by_cases hpos : e > 0
    · simp only [hpos, if_true]
      obtain ⟨g, hg1, hg2, hg3⟩ := raiseFloor_some pn.floor (e - 1)
      refine ⟨h3, ?_, ?_⟩
      · show (raiseFloor pn.floor (e - 1)).isSome = pn.wired
        rw [hg1, hw]; rfl
      · intro f hf
        have hfe : raiseFloor pn.floor (e - 1) = some f := hf
        rw [hg1] at hfe
        cases hfe
        have := hg3 f0 hf0
        omega
    · simp only [hpos, if_false]
      refine ⟨h3, hi.seeded, ?_⟩
      intro f hf
      have hfe : pn.floor = some f := hf
      rw [hf0] at hfe
      cases hfe
      omega

/-- Within a process (no crash) `pruneUpto` never lowers the shared floor, and after it the floor
is at least `e − 1` — whether the sweep succeeded, or any of its batches failed. -/
theorem pruneUptoEv_floor_mono (W : Nat) (fx : Fixes) (pn : PNode) (e : Nat) (ft : Fault) (f : Nat)
    (hf : pn.floor = some f) (hc : ft.isCrash = false) :
    ∃ g, (pruneUptoEv true W fx pn e ft).1.floor = some g ∧ f ≤ g ∧ e ≤ g + 1 := by
  simp only [pruneUptoEv, hc, Bool.false_eq_true, if_false, if_true]
  by_cases hpos : e > 0
  · simp only [hpos, if_true]
    obtain ⟨g, hg1, hg2, hg3⟩ := raiseFloor_some pn.floor (e - 1)
    exact ⟨g, hg1, hg3 f hf, by omega⟩
  · simp only [hpos, if_false]
    exact ⟨f, hf, Nat.le_refl _, by omega⟩

/-! ### Histories of the whole service -/

/-- Inputs of a history of a process with its pruner service: the clauses of `ValidPHist` for calls
and L1 events; L2 events, like L1 events, only on a wired process. -/
def ValidSHist (W : Nat) (fx : Fixes) : Svc → List Block → List (SEv × Fault) → Prop
  | _, _, [] => True
  | s, ever, (ev, ft) :: rest =>
    (match ev with
      | .call (.store b) => Extends s.pn.node.disk b → Fresh s.pn.node.disk b ∧ FreshBelow ever (floorOf s.pn.node.disk) b
      | .call .revert => floorOf s.pn.node.disk = 0 ∨ ∀ h, getHeight s.pn.node.disk = some h → floorOf s.pn.node.disk < h
      | .call (.prune e) => s.pn.wired = false ∧ ∀ h, getHeight s.pn.node.disk = some h → e ≤ h
      | .call _ => True
      | .l1 _ _ => s.pn.wired = true
      | .l2 _ _ _ => s.pn.wired = true) ∧
    ValidSHist W fx (sexec true W fx s ev ft).1
      (match ev with | .call (.store b) => b :: ever | _ => ever) rest

theorem sexec_inv {W : Nat} (hW : 0 < W) {c : List Block} {F : Nat} {s : Svc} {ever : List Block}
    (hi : PInv W c F s.pn) (hev : ∀ x ∈ c, x ∈ ever) (ev : SEv) (ft : Fault)
    (hv : match ev with
      | .call (.store b) => Extends s.pn.node.disk b → Fresh s.pn.node.disk b ∧ FreshBelow ever (floorOf s.pn.node.disk) b
      | .call .revert => floorOf s.pn.node.disk = 0 ∨ ∀ h, getHeight s.pn.node.disk = some h → floorOf s.pn.node.disk < h
      | .call (.prune e) => s.pn.wired = false ∧ ∀ h, getHeight s.pn.node.disk = some h → e ≤ h
      | .call _ => True
      | .l1 _ _ => s.pn.wired = true
      | .l2 _ _ _ => s.pn.wired = true) :
    ∃ c' F', PInv W c' F' (sexec true W Fixes.all s ev ft).1.pn ∧
      (∀ x ∈ c', x ∈ (match ev with | .call (.store b) => b :: ever | _ => ever)) := by
  cases ev with
  | call op =>
    have := pexec_inv hW hi hev (.call op) ft (by cases op <;> exact hv)
    cases op <;> exact this
  | l1 l1 R =>
    exact pexec_inv hW hi hev (.l1event l1 R) ft hv
  | l2 num R per =>
    have hw : s.pn.wired = true := hv
    simp only [sexec]
    cases hd : l2Decide (getL1 s.pn.node.disk) (getHeight s.pn.node.disk) num R per s.pending with
    | mk t p' =>
      cases t with
      | none => exact ⟨c, F, hi, hev⟩
      | some e =>
        obtain ⟨_, _, _, _, ⟨hh, hh1, _, hh3⟩, _⟩ := l2Decide_some hd
        have he : ∀ h', getHeight s.pn.node.disk = some h' → e ≤ h' := by
          intro h' h2; rw [hh1] at h2; cases h2; exact hh3
        obtain ⟨F', hF'⟩ := pruneUptoEv_inv hi hw e he ft
        exact ⟨c, F', hF', hev⟩

theorem sinv_run {W : Nat} (hW : 0 < W) : ∀ (hs : List (SEv × Fault)) (s : Svc) (ever : List Block)
    (c : List Block) (F : Nat), PInv W c F s.pn → (∀ x ∈ c, x ∈ ever) → ValidSHist W Fixes.all s ever hs →
    ∃ c' F', PInv W c' F' (srun true W Fixes.all s hs).pn := by
  intro hs
  induction hs with
  | nil => intro s _ c F hi _ _; exact ⟨c, F, hi⟩
  | cons x rest ih =>
    intro s ever c F hi hev hv
    obtain ⟨ev, ft⟩ := x
    simp only [ValidSHist] at hv
    simp only [srun]
    obtain ⟨c', F', hi', hev'⟩ := sexec_inv hW hi hev ev ft hv.1
    exact ih _ _ c' F' hi' hev' hv.2

/-- The counter of the service stays below the threshold along every history in which all L2 events
carry the same threshold `per` (it is a constant of the `Pruner`). -/
theorem sexec_pending_lt (early : Bool) (W : Nat) (fx : Fixes) (s : Svc) (ev : SEv) (ft : Fault) (per : Nat)
    (hper : ∀ num R p, ev = .l2 num R p → p = per) (hp : s.pending < max per 1) :
    (sexec early W fx s ev ft).1.pending < max per 1 := by
  cases ev with
  | call op =>
    simp only [sexec]
    split <;> omega
  | l1 l1 R =>
    simp only [sexec, l1Decide]
    split
    · omega
    · cases getHeight s.pn.node.disk with
      | none => exact hp
      | some h =>
        simp only []
        split
        · exact hp
        · simp only []; omega
  | l2 num R p =>
    have hpp : p = per := hper num R p rfl
    subst hpp
    simp only [sexec]
    have hlt := l2Decide_counter_lt (l1 := getL1 s.pn.node.disk) (height := getHeight s.pn.node.disk)
      (num := num) (R := R) hp
    cases hd : l2Decide (getL1 s.pn.node.disk) (getHeight s.pn.node.disk) num R p s.pending with
    | mk t p' =>
      rw [hd] at hlt
      cases t with
      | none => exact hlt
      | some e =>
        simp only []
        split
        · omega
        · exact hlt

/-- … along whole histories. -/
theorem srun_pending_lt (early : Bool) (W : Nat) (fx : Fixes) (per : Nat) :
    ∀ (hs : List (SEv × Fault)) (s : Svc),
      (∀ x ∈ hs, ∀ num R p, x.1 = .l2 num R p → p = per) → s.pending < max per 1 →
      (srun early W fx s hs).pending < max per 1 := by
  intro hs
  induction hs with
  | nil => intro s _ hp; exact hp
  | cons x rest ih =>
    intro s hper hp
    obtain ⟨ev, ft⟩ := x
    simp only [srun]
    apply ih
    · intro y hy; exact hper y (List.mem_cons_of_mem _ hy)
    · exact sexec_pending_lt early W fx s ev ft per (fun num R p h => hper (ev, ft) (List.mem_cons_self ..) num R p h) hp

/-- Histories without L2 events are the histories of round 5 (`prun`). -/
theorem srun_eq_prun (early : Bool) (W : Nat) (fx : Fixes) :
    ∀ (hs : List (POp × Fault)) (s : Svc),
      (srun early W fx s (hs.map (fun x => ((match x.1 with
        | .call op => SEv.call op
        | .l1event l1 R => SEv.l1 l1 R), x.2)))).pn = prun early W fx s.pn hs := by
  intro hs
  induction hs with
  | nil => intro s; rfl
  | cons x rest ih =>
    intro s
    obtain ⟨pop, ft⟩ := x
    cases pop with
    | call op => simp only [List.map_cons, srun, prun]; rw [ih]; rfl
    | l1event l1 R => simp only [List.map_cons, srun, prun]; rw [ih]; rfl

end Juno.C05
