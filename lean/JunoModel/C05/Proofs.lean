import JunoModel.C05.ModelSpec
/-! Helper lemmas for C05, part 1: commit structure of the calls (atomicity). -/
namespace Juno.C05

/-- Every call except `prune` issues at most one commit: all its effects are one batch (or one
direct write). -/
theorem commits_le_one (W : Nat) (fx : Fixes) (n : Node) (op : Op) (h : ∀ e, op ≠ .prune e) :
    (plan W fx n op).commits.length ≤ 1 := by
  cases op with
  | store b =>
    simp only [plan, storePlan]
    repeat' split
    all_goals simp
  | revert =>
    simp only [plan, revertPlan]
    repeat' split
    all_goals simp
  | l1head v => simp [plan]
  | snap =>
    simp only [plan, snapPlan]
    split <;> simp
  | restart =>
    simp only [plan, snapPlan]
    split <;> simp
  | kill => simp [plan]
  | prune e => exact absurd rfl (h e)

theorem take_of_le_one {α : Type} (l : List α) (h : l.length ≤ 1) (k : Nat) :
    l.take k = [] ∨ l.take k = l := by
  match l, h with
  | [], _ => simp
  | [a], _ =>
    cases k with
    | zero => simp
    | succ k => simp

theorem op_atomic_lemma (W : Nat) (fx : Fixes) (n : Node) (op : Op) (ft : Fault)
    (h : ∀ e, op ≠ .prune e) :
    (exec W fx n op ft).1.disk = (plan W fx n op).disk0 ∨
    (exec W fx n op ft).1.disk = (exec W fx n op .none).1.disk ∨
    (exec W fx n op ft).1.disk = n.disk := by
  have hl := commits_le_one W fx n op h
  cases ft with
  | none => right; left; rfl
  | failInit =>
    simp only [exec]
    split
    · right; right; rfl
    · right; left; rfl
  | crashInit => left; rfl
  | failAt k =>
    simp only [exec]
    split
    · rcases take_of_le_one _ hl k with h0 | h1
      · left; simp [h0, applyCommits]
      · right; left; simp [h1]
    · right; left; rfl
  | crashAfter k =>
    simp only [exec]
    rcases take_of_le_one _ hl (k + 1) with h0 | h1
    · left; simp [h0, applyCommits]
    · right; left; simp [h1]

end Juno.C05
