import JunoModel.C05.ProofsPrune3
/-!
Helper lemmas for C05, part 15: `PruneUpto` keeps the event index of a pruning node — every batch
of the sweep takes `PImg … F` (block buckets pruned below `F`, persisted windows exactly the
complete ones from the floor's window on, snapshot sound) to `PImg … F'`.
-/
namespace Juno.C05

/-- Everything the property asks of the DISK of a node pruned below `F`. `F = 0`: an unpruned
good disk. -/
structure PImg (W lag : Nat) (c : List Block) (F : Nat) (d : Disk) : Prop where
  pcoh : PCoh lag c F d
  wins : WinsOKP W c F d
  snap : SnapOKP W c F d

theorem wstart_lt_window {W n : Nat} (h : n < W) : wstart W n = 0 := by
  rw [wstart_eq_mul, Nat.div_eq_of_lt h]; rfl

theorem pimg_of_good {W lag : Nat} {c : List Block} {d : Disk} (hc : Coh c d) (hw : WinsOK W c d)
    (hs : SnapOK W c d) : PImg W lag c 0 d := by
  refine ⟨pcoh_zero_of_coh hc, ⟨?_, ?_⟩, ?_⟩
  · intro lo
    rw [hw.exist lo]
    have : wstart W 0 = 0 := by simp [wstart]
    constructor
    · rintro ⟨h1, h2⟩; exact ⟨h1, h2, by omega⟩
    · rintro ⟨h1, h2, _⟩; exact ⟨h1, h2⟩
  · intro lo w hg
    obtain ⟨h1, h2⟩ := hw.sound lo w hg
    exact ⟨h1, fun b i a _ b' hb => h2 b i a b' hb⟩
  · unfold SnapOKP
    unfold SnapOK at hs
    split
    · trivial
    · rename_i w nx hsn
      rw [hsn] at hs
      obtain ⟨h1, h2, h3⟩ := hs
      exact ⟨h1, h2, fun b i a _ b' hb => h3 b i a b' hb⟩
    · rename_i x hx1 hx2
      rw [hx2] at hs
      cases x with
      | snap w nx => exact absurd rfl (hx1 w nx)
      | _ => exact hs

/-- One batch of the sweep keeps the event index of the pruning node. -/
theorem pimg_batch {W lag : Nat} {c : List Block} (hwf : WfChain c) {F k : Nat} {d : Disk}
    (hp : PImg W lag c F d) (hk : F + k ≤ c.length) :
    PImg W lag c (F + k) (applyBatch d (pdsN c F k ++ pruneRange W lag (F + k))) := by
  have other : ∀ key, (∀ h, key ≠ .numByHash h) → (∀ t, key ≠ .txLookup t) →
      applyBatch d (pdsN c F k) key = d key :=
    fun key h1 h2 => applyBatch_misses (pdsN_misses c F key h1 h2 k) d
  have hwin : ∀ lo, applyBatch d (pdsN c F k ++ pruneRange W lag (F + k)) (.win lo) =
      if decide (W ≤ F + k ∧ lo < wstart W (F + k)) = true then none else d (.win lo) := by
    intro lo
    rw [applyBatch_append, pruneRange_apply, other _ (by simp) (by simp)]
  have hsnap : applyBatch d (pdsN c F k ++ pruneRange W lag (F + k)) .snap = d .snap := by
    rw [applyBatch_append, pruneRange_apply]
    simp only [Bool.false_eq_true, if_false]
    exact other _ (by simp) (by simp)
  have hmono : wstart W F ≤ wstart W (F + k) := wstart_mono W (by omega)
  refine ⟨pcoh_batch hwf hp.pcoh hk, ⟨?_, ?_⟩, ?_⟩
  · intro lo
    by_cases hdel : W ≤ F + k ∧ lo < wstart W (F + k)
    · have : getWin (applyBatch d (pdsN c F k ++ pruneRange W lag (F + k))) lo = none := by
        simp [getWin, hwin lo, hdel]
      rw [this]
      constructor
      · intro h; cases h
      · rintro ⟨_, _, h3⟩; omega
    · have hsame : getWin (applyBatch d (pdsN c F k ++ pruneRange W lag (F + k))) lo = getWin d lo := by
        apply getWin_congr
        rw [hwin lo, if_neg (by simpa using hdel)]
      rw [hsame, hp.wins.exist lo]
      have hboth : wstart W (F + k) ≤ lo ∧ wstart W F ≤ lo := by
        by_cases hW : W ≤ F + k
        · have : ¬ lo < wstart W (F + k) := fun h => hdel ⟨hW, h⟩
          omega
        · have h1 : wstart W (F + k) = 0 := wstart_lt_window (by omega)
          omega
      constructor
      · rintro ⟨h1, h2, _⟩; exact ⟨h1, h2, hboth.1⟩
      · rintro ⟨h1, h2, _⟩; exact ⟨h1, h2, hboth.2⟩
  · intro lo w hg
    have hg' : getWin d lo = some w := by
      by_cases hdel : W ≤ F + k ∧ lo < wstart W (F + k)
      · have : getWin (applyBatch d (pdsN c F k ++ pruneRange W lag (F + k))) lo = none := by
          simp [getWin, hwin lo, hdel]
        rw [this] at hg; cases hg
      · rw [← hg]; symm
        apply getWin_congr
        rw [hwin lo, if_neg (by simpa using hdel)]
    obtain ⟨h1, h2⟩ := hp.wins.sound lo w hg'
    exact ⟨h1, fun b i a hb b' hbit => h2 b i a (by omega) b' hbit⟩
  · have hs := hp.snap
    unfold SnapOKP at hs ⊢
    rw [hsnap]
    split
    · trivial
    · rename_i w nx hsn
      rw [hsn] at hs
      obtain ⟨h1, h2, h3⟩ := hs
      exact ⟨h1, h2, fun b i a hb b' hbit => h3 b i a (by omega) b' hbit⟩
    · rename_i x hx1 hx2
      rw [hx2] at hs
      cases x with
      | snap w nx => exact absurd rfl (hx1 w nx)
      | _ => exact hs

/-- `sweep_images` for any invariant of the batches (same proof, `P` instead of `PCoh`). -/
theorem sweep_images_gen {W lag : Nat} {cut : Nat → List Write → Bool} {c : List Block}
    (P : Nat → Disk → Prop)
    (hbatch : ∀ F k d, P F d → F + k ≤ c.length →
      P (F + k) (applyBatch d (pdsN c F k ++ pruneRange W lag (F + k))))
    {d0 : Disk} {F0 : Nat}
    (hreads : ∀ x, F0 ≤ x → x < c.length → getBlk d0 (.su x) = c[x]? ∧ getBlk d0 (.txs x) = c[x]?) :
    ∀ (cnt b : Nat) (prev : Option Nat) (acc : List Write) (Fc : Nat) (d' : Disk) (bs : List (List Write)),
      F0 ≤ Fc → Fc ≤ b → b + cnt ≤ c.length →
      prev = (if b = 0 then none else (c[b - 1]?).map (·.hash)) →
      acc = pdsN c Fc (b - Fc) → P Fc d' →
      pruneSweep W lag d0 cut cnt b prev acc = some bs →
      ∀ k, k ≤ bs.length → ∃ F, Fc ≤ F ∧ F ≤ b + cnt ∧
        P F (applyCommits d' (bs.take k)) ∧ (k = bs.length → F = b + cnt) := by
  intro cnt
  induction cnt with
  | zero =>
    intro b prev acc Fc d' bs h0 h1 h2 hprev hacc hp hs k hk
    simp only [pruneSweep, Option.some.injEq] at hs
    subst hs
    cases k with
    | zero => exact ⟨Fc, Nat.le_refl _, by omega, by simpa [applyCommits] using hp, by simp⟩
    | succ k =>
      have : k = 0 := by simp at hk; exact hk
      subst this
      refine ⟨b, h1, by omega, ?_, by simp⟩
      simp only [List.take_succ_cons, List.take_zero, applyCommits, List.foldl_cons, List.foldl_nil]
      rw [hacc]
      have := hbatch Fc (b - Fc) d' hp (by omega)
      rw [show Fc + (b - Fc) = b by omega] at this
      exact this
  | succ cnt ih =>
    intro b prev acc Fc d' bs h0 h1 h2 hprev hacc hp hs k hk
    have hb : b < c.length := by omega
    obtain ⟨hr1, hr2⟩ := hreads b (by omega) hb
    have hcb : c[b]? = some c[b] := List.getElem?_eq_getElem hb
    rw [hcb] at hr1 hr2
    simp only [pruneSweep, hr1, hr2] at hs
    have hacc' : acc ++ blockDels prev c[b] = pdsN c Fc (b + 1 - Fc) := by
      rw [show b + 1 - Fc = (b - Fc) + 1 by omega, pdsN, ← hacc, hprev,
        pd_eq_of_reads hcb, show Fc + (b - Fc) = b by omega]
    have hprev' : some (c[b]).hash = (if b + 1 = 0 then none else (c[b + 1 - 1]?).map (·.hash)) := by
      simp [hcb]
    rw [hacc'] at hs
    split at hs
    · cases hrest : pruneSweep W lag d0 cut cnt (b + 1) (some (c[b]).hash) [] with
      | none => rw [hrest] at hs; simp at hs
      | some rest =>
        rw [hrest] at hs
        simp only [Option.map_some, Option.some.injEq] at hs
        subst hs
        cases k with
        | zero => exact ⟨Fc, Nat.le_refl _, by omega, by simpa [applyCommits] using hp, by simp⟩
        | succ k =>
          have hp1 : P (b + 1) (applyBatch d' (pdsN c Fc (b + 1 - Fc) ++ pruneRange W lag (b + 1))) := by
            have := hbatch Fc (b + 1 - Fc) d' hp (by omega)
            rw [show Fc + (b + 1 - Fc) = b + 1 by omega] at this
            exact this
          obtain ⟨F, hF1, hF2, hF3, hF4⟩ := ih (b + 1) (some (c[b]).hash) [] (b + 1) _ rest (by omega)
            (Nat.le_refl _) (by omega) hprev' (by simp [pdsN]) hp1 hrest k (by simpa using hk)
          refine ⟨F, by omega, by omega, ?_, ?_⟩
          · simp only [List.take_succ_cons, applyCommits, List.foldl_cons]
            exact hF3
          · intro e
            apply (hF4 (by simpa using e)).trans
            omega
    · obtain ⟨F, hF1, hF2, hF3, hF4⟩ := ih (b + 1) (some (c[b]).hash) _ Fc d' bs h0 (by omega) (by omega)
        hprev' rfl hp hs k hk
      exact ⟨F, hF1, by omega, hF3, fun e => (hF4 e).trans (by omega)⟩

/-- `prune_images` with the event index: one `PruneUpto(e)` cut after any number of batches, for
any rotation decision, leaves the image of a pruning node with floor `F0 ≤ F ≤ e`. -/
theorem prune_imagesP {W : Nat} {cut : Nat → List Write → Bool} {c : List Block} (hwf : WfChain c)
    {n : Node} {F0 e : Nat} (hp : PImg W blockHashLag c F0 n.disk) (hF0 : F0 < e) (he : e ≤ c.length)
    (k : Nat) :
    (prunePlanThr W n e cut).disk0 = n.disk ∧
    ∃ F, F0 ≤ F ∧ F ≤ e ∧
      PImg W blockHashLag c F (applyCommits n.disk ((prunePlanThr W n e cut).commits.take k)) ∧
      ((prunePlanThr W n e cut).commits.length ≤ k → F = e) := by
  have hpc := hp.pcoh
  have hlen : c.length ≠ 0 := by omega
  have hh : getHeight n.disk = some (c.length - 1) := by rw [hpc.height]; simp [hlen]
  have hor : oldestRetained n.disk (c.length - 1 + 1) 0 = some F0 := by
    rw [oldestRetained_pcoh hpc _ 0 (by omega)]
    have : F0 < c.length ∧ F0 < 0 + (c.length - 1 + 1) := by omega
    rw [if_pos this]
  have hprev : (if F0 = 0 then some none
      else (getBlk n.disk (.header (F0 - 1))).map (fun hb => some hb.hash)) =
      some (if F0 = 0 then none else (c[F0 - 1]?).map (·.hash)) := by
    by_cases h0 : F0 = 0
    · simp [h0]
    · simp only [h0, if_false]
      have hx : c[F0 - 1]? = some c[F0 - 1] := List.getElem?_eq_getElem (by omega)
      have : ¬ F0 - 1 + blockHashLag < F0 := by simp [blockHashLag]; omega
      simp [getBlk, hpc.header, this, hx]
  have hreads : ∀ x, F0 ≤ x → x < c.length →
      getBlk n.disk (.su x) = c[x]? ∧ getBlk n.disk (.txs x) = c[x]? := by
    intro x h1 h2
    have hx : c[x]? = some c[x] := List.getElem?_eq_getElem h2
    have : ¬ x < F0 := by omega
    simp [getBlk, hpc.su, hpc.txs, this, hx]
  have hnot : ¬ F0 ≥ e := by omega
  obtain ⟨h0, F', _, _, _, _, hout⟩ := prune_images (W := W) (cut := cut) hwf hpc hF0 he k
  cases hsw : pruneSweep W blockHashLag n.disk cut (e - F0) F0
      (if F0 = 0 then none else (c[F0 - 1]?).map (·.hash)) [] with
  | none =>
    exfalso
    have hpl : prunePlanThr W n e cut = ⟨n.disk, [], n.mem, .err .notfound⟩ := by
      simp only [prunePlanThr, hh, hor, hnot, if_false, hprev, hsw]
    rw [hpl] at hout; cases hout
  | some bs =>
    have hpl : prunePlanThr W n e cut = ⟨n.disk, bs, n.mem, .ok⟩ := by
      simp only [prunePlanThr, hh, hor, hnot, if_false, hprev, hsw]
    rw [hpl]
    refine ⟨rfl, ?_⟩
    have hb := fun F k d (h : PImg W blockHashLag c F d) hk => pimg_batch (W := W) hwf (k := k) h hk
    by_cases hk : k ≤ bs.length
    · obtain ⟨F, h1, h2, h3, h4⟩ := sweep_images_gen (PImg W blockHashLag c) hb hreads (e - F0) F0 _ []
        F0 n.disk bs (Nat.le_refl _) (Nat.le_refl _) (by omega) rfl (by simp [pdsN]) hp hsw k hk
      refine ⟨F, h1, by omega, h3, ?_⟩
      intro hle
      have : k = bs.length := by simp at hle; omega
      rw [h4 this]; omega
    · obtain ⟨F, h1, h2, h3, h4⟩ := sweep_images_gen (PImg W blockHashLag c) hb hreads (e - F0) F0 _ []
        F0 n.disk bs (Nat.le_refl _) (Nat.le_refl _) (by omega) rfl (by simp [pdsN]) hp hsw bs.length
        (Nat.le_refl _)
      have htake : bs.take k = bs.take bs.length := by
        rw [List.take_of_length_le (by omega), List.take_length]
      refine ⟨F, h1, by omega, by simp only [htake]; exact h3, ?_⟩
      intro _
      rw [h4 rfl]; omega

/-- The same through `exec`: any fault during `PruneUpto(e)`. -/
theorem prune_exec_imagesP {W : Nat} (fx : Fixes) {c : List Block} (hwf : WfChain c) {n : Node}
    {F0 e : Nat} (hp : PImg W blockHashLag c F0 n.disk) (hF0 : F0 < e) (he : e ≤ c.length) (ft : Fault)
    (hb : ft ≠ .failInit ∧ ft ≠ .crashInit) :
    ∃ F, F0 ≤ F ∧ F ≤ e ∧ PImg W blockHashLag c F (exec W fx n (.prune e) ft).1.disk ∧
      (ft = .none → F = e) := by
  have hpl : plan W fx n (.prune e) = prunePlanThr W n e cutNonEmpty := rfl
  cases ft with
  | failInit => exact absurd rfl hb.1
  | crashInit => exact absurd rfl hb.2
  | none =>
    obtain ⟨h0, F, h1, h2, h3, h4⟩ := prune_imagesP (W := W) (cut := cutNonEmpty) hwf hp hF0 he
      (prunePlanThr W n e cutNonEmpty).commits.length
    refine ⟨F, h1, h2, ?_, fun _ => h4 (Nat.le_refl _)⟩
    simp only [exec, hpl, h0]
    rw [List.take_length] at h3; exact h3
  | failAt k =>
    by_cases hk : k < (plan W fx n (.prune e)).commits.length
    · obtain ⟨h0, F, h1, h2, h3, _⟩ := prune_imagesP (W := W) (cut := cutNonEmpty) hwf hp hF0 he k
      refine ⟨F, h1, h2, ?_, fun h => by cases h⟩
      rw [exec_failAt_lt hk]
      simp only [hpl, h0]; exact h3
    · obtain ⟨h0, F, h1, h2, h3, _⟩ := prune_imagesP (W := W) (cut := cutNonEmpty) hwf hp hF0 he
        (prunePlanThr W n e cutNonEmpty).commits.length
      refine ⟨F, h1, h2, ?_, fun h => by cases h⟩
      rw [exec_failAt_ge hk]
      simp only [exec, hpl, h0]
      rw [List.take_length] at h3; exact h3
  | crashAfter k =>
    obtain ⟨h0, F, h1, h2, h3, _⟩ := prune_imagesP (W := W) (cut := cutNonEmpty) hwf hp hF0 he (k + 1)
    refine ⟨F, h1, h2, ?_, fun h => by cases h⟩
    simp only [exec, hpl, h0]; exact h3

end Juno.C05
