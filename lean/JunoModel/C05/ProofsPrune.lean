import JunoModel.C05.ProofsRevert
/-! Helper lemmas for C05, part 12: a multi-batch prune — every batch atomic, every image between
two batches that of a prune which stopped at a well-defined floor. -/
namespace Juno.C05

/-- Position of a transaction hash, hidden when its block is below the retention floor `F`. -/
def lookupTxF (c : List Block) (F t : Nat) : Option Val :=
  match lookupTx c t with
  | some (.idx n i) => if n < F then none else some (.idx n i)
  | x => x

/-- The image describes chain `c` pruned below `F`: blocks at or above `F` fully present, blocks
below `F` fully absent, with the two carve-outs of the pruner — the hash→number mapping of block
`F-1` and the headers of the last `lag` blocks below `F` survive. `F = 0` is `Coh`. -/
structure PCoh (lag : Nat) (c : List Block) (F : Nat) (d : Disk) : Prop where
  height : getHeight d = if c.length = 0 then none else some (c.length - 1)
  header : ∀ n, d (.header n) = if n + lag < F then none else (c[n]?).map Val.blk
  txs : ∀ n, d (.txs n) = if n < F then none else (c[n]?).map Val.blk
  su : ∀ n, d (.su n) = if n < F then none else (c[n]?).map Val.blk
  commit : ∀ n, d (.commit n) = if F ≤ n ∧ n < c.length then some (.num n) else none
  numByHash : ∀ h, d (.numByHash h) =
    (c.find? (fun b => b.hash = h)).bind (fun b => if b.num + 1 < F then none else some (Val.num b.num))
  txLookup : ∀ t, d (.txLookup t) = lookupTxF c F t
  state : stateRoot d = (c.getLast?.map (·.root)).getD 0

theorem pcoh_zero_of_coh {lag : Nat} {c : List Block} {d : Disk} (h : Coh c d) : PCoh lag c 0 d where
  height := h.height
  header n := by simp [h.header]
  txs n := by simp [h.txs]
  su n := by simp [h.su]
  commit n := by simp [h.commit]
  numByHash x := by
    rw [h.numByHash]
    cases c.find? (fun b => b.hash = x) <;> simp
  txLookup t := by
    rw [h.txLookup, lookupTxF]
    cases lookupTx c t with
    | none => rfl
    | some v => cases v <;> simp
  state := h.state

/-- The point deletes the sweep issues for block `x`: the hash→number mapping of the block below
it and its transaction lookups. -/
def pd (c : List Block) (x : Nat) : List Write :=
  (if x = 0 then [] else
    match c[x - 1]? with
    | some p => [Write.del (.numByHash p.hash)]
    | none => [])
  ++ (match c[x]? with
      | some b => b.txs.map (fun t => Write.del (.txLookup t))
      | none => [])

/-- … for the blocks `a, …, a+k-1`. -/
def pdsN (c : List Block) (a : Nat) : Nat → List Write
  | 0 => []
  | k + 1 => pdsN c a k ++ pd c (a + k)

theorem pd_misses (c : List Block) (x : Nat) (k : Key) (h1 : ∀ h, k ≠ .numByHash h) (h2 : ∀ t, k ≠ .txLookup t) :
    ∀ w ∈ pd c x, w.misses k := by
  intro w hw
  simp only [pd, List.mem_append] at hw
  rcases hw with hw | hw
  · split at hw
    · cases hw
    · split at hw
      · simp at hw; subst hw; exact fun e => h1 _ e.symm
      · cases hw
  · split at hw
    · simp only [List.mem_map] at hw
      obtain ⟨t, _, rfl⟩ := hw
      exact fun e => h2 _ e.symm
    · cases hw

theorem pdsN_misses (c : List Block) (a : Nat) (k : Key) (h1 : ∀ h, k ≠ .numByHash h) (h2 : ∀ t, k ≠ .txLookup t) :
    ∀ n, ∀ w ∈ pdsN c a n, w.misses k := by
  intro n
  induction n with
  | zero => intro w hw; cases hw
  | succ n ih =>
    intro w hw
    simp only [pdsN, List.mem_append] at hw
    rcases hw with hw | hw
    · exact ih w hw
    · exact pd_misses c _ k h1 h2 w hw

/-- deletes never resurrect a key -/
theorem applyBatch_dels_none {ws : List Write} (hdel : ∀ w ∈ ws, ∃ k, w = .del k) {d : Disk} {k : Key}
    (h : d k = none) : applyBatch d ws k = none := by
  induction ws generalizing d with
  | nil => exact h
  | cons w ws ih =>
    rw [applyBatch_cons]
    apply ih (fun w' hw' => hdel w' (List.mem_cons_of_mem _ hw'))
    obtain ⟨k', rfl⟩ := hdel w List.mem_cons_self
    simp only [applyW]
    split <;> simp [h]

theorem pd_dels (c : List Block) (x : Nat) : ∀ w ∈ pd c x, ∃ k, w = .del k := by
  intro w hw
  simp only [pd, List.mem_append] at hw
  rcases hw with hw | hw
  · split at hw
    · cases hw
    · split at hw
      · simp at hw; exact ⟨_, hw⟩
      · cases hw
  · split at hw
    · simp only [List.mem_map] at hw
      obtain ⟨t, _, rfl⟩ := hw
      exact ⟨_, rfl⟩
    · cases hw

theorem pdsN_dels (c : List Block) (a : Nat) : ∀ n, ∀ w ∈ pdsN c a n, ∃ k, w = .del k := by
  intro n
  induction n with
  | zero => intro w hw; cases hw
  | succ n ih =>
    intro w hw
    simp only [pdsN, List.mem_append] at hw
    rcases hw with hw | hw
    · exact ih w hw
    · exact pd_dels c _ w hw

/-- a key that some write of a delete-only batch deletes is gone afterwards -/
theorem applyBatch_dels_hit {ws : List Write} (hdel : ∀ w ∈ ws, ∃ k, w = .del k) {k : Key}
    (hin : Write.del k ∈ ws) (d : Disk) : applyBatch d ws k = none := by
  induction ws generalizing d with
  | nil => cases hin
  | cons w ws ih =>
    rw [applyBatch_cons]
    rcases List.mem_cons.mp hin with e | hin'
    · subst e
      apply applyBatch_dels_none (fun w' hw' => hdel w' (List.mem_cons_of_mem _ hw'))
      simp [applyW]
    · exact ih (fun w' hw' => hdel w' (List.mem_cons_of_mem _ hw')) hin' _

/-- a key that no write of the batch names is untouched -/
theorem applyBatch_dels_miss {ws : List Write} (hdel : ∀ w ∈ ws, ∃ k, w = .del k) {k : Key}
    (hnot : Write.del k ∉ ws) (d : Disk) : applyBatch d ws k = d k := by
  apply applyBatch_misses
  intro w hw
  obtain ⟨k', rfl⟩ := hdel w hw
  intro e; subst e; exact hnot hw

theorem mem_pdsN {c : List Block} {a n : Nat} {w : Write} :
    w ∈ pdsN c a n ↔ ∃ x, a ≤ x ∧ x < a + n ∧ w ∈ pd c x := by
  induction n with
  | zero => simp only [pdsN]; constructor
            · intro h; cases h
            · rintro ⟨x, h1, h2, _⟩; omega
  | succ n ih =>
    simp only [pdsN, List.mem_append, ih]
    constructor
    · rintro (⟨x, h1, h2, h3⟩ | h)
      · exact ⟨x, h1, by omega, h3⟩
      · exact ⟨a + n, by omega, by omega, h⟩
    · rintro ⟨x, h1, h2, h3⟩
      by_cases e : x = a + n
      · subst e; exact Or.inr h3
      · exact Or.inl ⟨x, h1, by omega, h3⟩

/-! ### Uniqueness facts of a well-formed chain -/

theorem nodup_map_inj {α β : Type} {f : α → β} : ∀ {l : List α}, (l.map f).Nodup →
    ∀ {x y : α}, x ∈ l → y ∈ l → f x = f y → x = y := by
  intro l
  induction l with
  | nil => intro _ x y hx; cases hx
  | cons a l ih =>
    intro hnd x y hx hy he
    simp only [List.map_cons, List.nodup_cons, List.mem_map, not_exists, not_and] at hnd
    rcases List.mem_cons.mp hx with rfl | hx' <;> rcases List.mem_cons.mp hy with rfl | hy'
    · rfl
    · exact absurd he.symm (hnd.1 y hy')
    · exact absurd he (hnd.1 x hx')
    · exact ih hnd.2 hx' hy' he

theorem flatMap_nodup_unique {f : Block → List Nat} : ∀ {c : List Block}, (c.flatMap f).Nodup →
    ∀ {x y : Nat} {b b' : Block} {t : Nat}, c[x]? = some b → c[y]? = some b' → t ∈ f b → t ∈ f b' → x = y := by
  intro c
  induction c with
  | nil => intro _ x y b b' t hx; simp at hx
  | cons a l ih =>
    intro hnd x y b b' t hx hy hb hb'
    rw [List.flatMap_cons, List.nodup_append] at hnd
    have inTail : ∀ {z : Nat} {q : Block}, l[z]? = some q → t ∈ f q → t ∈ l.flatMap f := by
      intro z q hz hq
      exact List.mem_flatMap.mpr ⟨q, List.mem_of_getElem? hz, hq⟩
    cases x with
    | zero =>
      cases y with
      | zero => rfl
      | succ y =>
        simp at hx hy; subst hx
        exact absurd rfl (hnd.2.2 t hb t (inTail hy hb'))
    | succ x =>
      cases y with
      | zero =>
        simp at hx hy; subst hy
        exact absurd rfl (hnd.2.2 t hb' t (inTail hx hb))
      | succ y =>
        simp at hx hy
        rw [ih hnd.2.1 hx hy hb hb']

theorem find_hash_of_getElem {c : List Block} (hwf : WfChain c) {y : Nat} {p : Block}
    (hy : c[y]? = some p) : c.find? (fun b => b.hash = p.hash) = some p := by
  have hmem : p ∈ c := List.mem_of_getElem? hy
  have hsome : (c.find? (fun b => decide (b.hash = p.hash))).isSome = true :=
    List.find?_isSome.mpr ⟨p, hmem, by simp⟩
  obtain ⟨q, hq⟩ := Option.isSome_iff_exists.mp hsome
  have hqm := List.mem_of_find?_eq_some hq
  have hqh : q.hash = p.hash := by simpa using List.find?_some hq
  rw [hq, nodup_map_inj hwf.hashes hqm hmem hqh]

theorem getElem_of_find_hash {c : List Block} (hwf : WfChain c) {h : Nat} {b : Block}
    (hf : c.find? (fun x => x.hash = h) = some b) : c[b.num]? = some b ∧ b.hash = h := by
  have hm := List.mem_of_find?_eq_some hf
  have hh : b.hash = h := by simpa using List.find?_some hf
  obtain ⟨i, hi⟩ := List.mem_iff_getElem?.mp hm
  rw [hwf.num i b hi]
  exact ⟨hi, hh⟩

theorem lookupTx_some {c : List Block} {t : Nat} {v : Val} (h : lookupTx c t = some v) :
    ∃ b i, b ∈ c ∧ v = .idx b.num i ∧ t ∈ b.txs := by
  induction c with
  | nil => simp [lookupTx] at h
  | cons a l ih =>
    simp only [lookupTx] at h
    cases hi : List.idxOf? t a.txs with
    | some i =>
      rw [hi] at h
      simp at h
      have : t ∈ a.txs := by
        apply Classical.byContradiction; intro hn
        rw [List.idxOf?_eq_none_iff.mpr hn] at hi; cases hi
      exact ⟨a, i, List.mem_cons_self, h.symm, this⟩
    | none =>
      rw [hi] at h
      obtain ⟨b, i, hb, hv, ht⟩ := ih h
      exact ⟨b, i, List.mem_cons_of_mem _ hb, hv, ht⟩

theorem lookupTx_isSome_of_mem {c : List Block} {t : Nat} {b : Block} (hb : b ∈ c) (ht : t ∈ b.txs) :
    ∃ v, lookupTx c t = some v := by
  cases h : lookupTx c t with
  | some v => exact ⟨v, rfl⟩
  | none =>
    rw [lookupTx_none_iff] at h
    exact absurd (List.mem_flatMap.mpr ⟨b, hb, ht⟩) h

/-- In a well-formed chain the lookup of `t` is `idx n _` exactly for the one block `n` holding `t`. -/
theorem lookupTx_block {c : List Block} (hwf : WfChain c) {t x : Nat} {b : Block}
    (hx : c[x]? = some b) (ht : t ∈ b.txs) : ∃ i, lookupTx c t = some (.idx x i) := by
  obtain ⟨v, hv⟩ := lookupTx_isSome_of_mem (List.mem_of_getElem? hx) ht
  obtain ⟨b', i, hb', rfl, ht'⟩ := lookupTx_some hv
  obtain ⟨j, hj⟩ := List.mem_iff_getElem?.mp hb'
  have : j = x := flatMap_nodup_unique hwf.txs hj hx ht' ht
  subst this
  rw [hwf.num j b' hj] at hv
  exact ⟨i, hv⟩

theorem lookupTx_block' {c : List Block} (hwf : WfChain c) {t n i : Nat}
    (h : lookupTx c t = some (.idx n i)) : ∃ b, c[n]? = some b ∧ t ∈ b.txs := by
  obtain ⟨b, i', hb, hv, ht⟩ := lookupTx_some h
  obtain ⟨j, hj⟩ := List.mem_iff_getElem?.mp hb
  have hn : b.num = j := hwf.num j b hj
  cases hv
  exact ⟨b, by rw [hn]; exact hj, ht⟩

theorem mem_pd_hash {c : List Block} {x h : Nat} :
    Write.del (.numByHash h) ∈ pd c x ↔ x ≠ 0 ∧ ∃ p, c[x - 1]? = some p ∧ p.hash = h := by
  simp only [pd, List.mem_append]
  constructor
  · rintro (hw | hw)
    · split at hw
      · cases hw
      · rename_i hx
        split at hw
        · rename_i p hp
          simp at hw
          exact ⟨hx, p, hp, hw.symm⟩
        · cases hw
    · split at hw
      · simp at hw
      · cases hw
  · rintro ⟨hx, p, hp, rfl⟩
    left
    simp [hx, hp]

theorem mem_pd_tx {c : List Block} {x t : Nat} :
    Write.del (.txLookup t) ∈ pd c x ↔ ∃ b, c[x]? = some b ∧ t ∈ b.txs := by
  simp only [pd, List.mem_append]
  constructor
  · rintro (hw | hw)
    · split at hw
      · cases hw
      · split at hw
        · simp at hw
        · cases hw
    · split at hw
      · rename_i b hb
        simp at hw
        exact ⟨b, hb, hw⟩
      · cases hw
  · rintro ⟨b, hb, ht⟩
    right
    simp [hb, ht]

theorem pruneRange_apply (W lag e : Nat) (d : Disk) (k : Key) :
    applyBatch d (pruneRange W lag e) k =
      if (match k with
          | .header n => decide (n + lag < e)
          | .commit n => decide (n < e)
          | .su n => decide (n < e)
          | .txs n => decide (n < e)
          | .win lo => decide (W ≤ e ∧ lo < wstart W e)
          | _ => false) = true then none else d k := by
  cases k <;> simp [pruneRange, applyBatch, applyW]

/-- One batch of the sweep — the point deletes of blocks `F … F+k-1` and the range delete up to
`F+k` — takes an image pruned below `F` to the image pruned below `F+k`. -/
theorem pcoh_batch {W lag : Nat} {c : List Block} (hwf : WfChain c) {F k : Nat} {d : Disk}
    (hp : PCoh lag c F d) (hk : F + k ≤ c.length) :
    PCoh lag c (F + k) (applyBatch d (pdsN c F k ++ pruneRange W lag (F + k))) := by
  have hdels := pdsN_dels c F k
  have other : ∀ key, (∀ h, key ≠ .numByHash h) → (∀ t, key ≠ .txLookup t) →
      applyBatch d (pdsN c F k) key = d key :=
    fun key h1 h2 => applyBatch_misses (pdsN_misses c F key h1 h2 k) d
  refine ⟨?_, ?_, ?_, ?_, ?_, ?_, ?_, ?_⟩
  · have : applyBatch d (pdsN c F k ++ pruneRange W lag (F + k)) .height = d .height := by
      rw [applyBatch_append, pruneRange_apply]; simp only [Bool.false_eq_true, if_false]
      exact other _ (by simp) (by simp)
    rw [getHeight_congr this]; exact hp.height
  · intro n
    rw [applyBatch_append, pruneRange_apply, other _ (by simp) (by simp), hp.header]
    by_cases h : n + lag < F + k
    · simp [h]
    · have : ¬ n + lag < F := by omega
      simp [h, this]
  · intro n
    rw [applyBatch_append, pruneRange_apply, other _ (by simp) (by simp), hp.txs]
    by_cases h : n < F + k
    · simp [h]
    · have : ¬ n < F := by omega
      simp [h, this]
  · intro n
    rw [applyBatch_append, pruneRange_apply, other _ (by simp) (by simp), hp.su]
    by_cases h : n < F + k
    · simp [h]
    · have : ¬ n < F := by omega
      simp [h, this]
  · intro n
    rw [applyBatch_append, pruneRange_apply, other _ (by simp) (by simp), hp.commit]
    by_cases h : n < F + k
    · have : ¬ (F + k ≤ n ∧ n < c.length) := by omega
      simp [h, this]
    · simp only [h, decide_false, Bool.false_eq_true, if_false]
      by_cases h2 : n < c.length
      · have a1 : F ≤ n ∧ n < c.length := ⟨by omega, h2⟩
        have a2 : F + k ≤ n ∧ n < c.length := ⟨by omega, h2⟩
        simp [a1, a2]
      · have a1 : ¬ (F ≤ n ∧ n < c.length) := by omega
        have a2 : ¬ (F + k ≤ n ∧ n < c.length) := by omega
        simp [a1, a2]
  · intro h
    rw [applyBatch_append, pruneRange_apply]
    simp only [Bool.false_eq_true, if_false]
    have hd := hp.numByHash h
    cases hf : c.find? (fun b => b.hash = h) with
    | none =>
      rw [hf] at hd
      simp only [Option.bind_none] at hd ⊢
      exact applyBatch_dels_none hdels hd
    | some b =>
      rw [hf] at hd
      simp only [Option.bind_some] at hd ⊢
      obtain ⟨hbi, hbh⟩ := getElem_of_find_hash hwf hf
      by_cases h1 : b.num + 1 < F + k
      · simp only [h1, if_true]
        by_cases h2 : b.num + 1 < F
        · simp only [h2, if_true] at hd
          exact applyBatch_dels_none hdels hd
        · apply applyBatch_dels_hit hdels
          rw [mem_pdsN]
          refine ⟨b.num + 1, by omega, h1, ?_⟩
          rw [mem_pd_hash]
          exact ⟨by omega, b, by simpa using hbi, hbh⟩
      · have h2 : ¬ b.num + 1 < F := by omega
        simp only [h1, h2, if_false] at hd ⊢
        rw [applyBatch_dels_miss hdels _ d, hd]
        intro hin
        rw [mem_pdsN] at hin
        obtain ⟨x, hx1, hx2, hx3⟩ := hin
        rw [mem_pd_hash] at hx3
        obtain ⟨hx0, p, hp', hph⟩ := hx3
        have := find_hash_of_getElem hwf hp'
        rw [hph, hf] at this
        cases this
        have hnum := hwf.num _ _ hp'
        omega
  · intro t
    rw [applyBatch_append, pruneRange_apply]
    simp only [Bool.false_eq_true, if_false]
    have hd := hp.txLookup t
    unfold lookupTxF at hd ⊢
    cases hl : lookupTx c t with
    | none =>
      rw [hl] at hd
      simp only at hd ⊢
      exact applyBatch_dels_none hdels hd
    | some v =>
      obtain ⟨b0, i0, _, hv, _⟩ := lookupTx_some hl
      subst hv
      rw [hl] at hd
      simp only at hd ⊢
      obtain ⟨b, hb, htb⟩ := lookupTx_block' hwf hl
      by_cases h1 : b0.num < F + k
      · simp only [h1, if_true]
        by_cases h2 : b0.num < F
        · simp only [h2, if_true] at hd
          exact applyBatch_dels_none hdels hd
        · apply applyBatch_dels_hit hdels
          rw [mem_pdsN]
          exact ⟨b0.num, by omega, h1, mem_pd_tx.mpr ⟨b, hb, htb⟩⟩
      · have h2 : ¬ b0.num < F := by omega
        simp only [h1, h2, if_false] at hd ⊢
        rw [applyBatch_dels_miss hdels _ d, hd]
        intro hin
        rw [mem_pdsN] at hin
        obtain ⟨x, hx1, hx2, hx3⟩ := hin
        obtain ⟨b', hb', htb'⟩ := mem_pd_tx.mp hx3
        have : x = b0.num := flatMap_nodup_unique hwf.txs hb' hb htb' htb
        omega
  · have : applyBatch d (pdsN c F k ++ pruneRange W lag (F + k)) .state = d .state := by
      rw [applyBatch_append, pruneRange_apply]; simp only [Bool.false_eq_true, if_false]
      exact other _ (by simp) (by simp)
    rw [stateRoot_congr this]; exact hp.state

theorem pd_eq_of_reads {c : List Block} {b : Nat} {blk : Block} (hb : c[b]? = some blk) :
    blockDels (if b = 0 then none else (c[b - 1]?).map (·.hash)) blk = pd c b := by
  unfold pd blockDels
  rw [hb]
  by_cases h0 : b = 0
  · simp [h0]
  · simp only [h0, if_false]
    cases c[b - 1]? <;> rfl

/-- The images a sweep leaves between its batches. `d0` is the database the sweep reads block
records from, `d'` the database as committed so far (pruned below `Fc`), `acc` the point deletes
pending since then. After any number `k` of the remaining batches the image is that of a prune
that stopped at some floor `F` — and after all of them `F` is the target. -/
theorem sweep_images {W lag : Nat} {cut : Nat → List Write → Bool} {c : List Block} (hwf : WfChain c) {d0 : Disk} {F0 : Nat}
    (hreads : ∀ x, F0 ≤ x → x < c.length → getBlk d0 (.su x) = c[x]? ∧ getBlk d0 (.txs x) = c[x]?) :
    ∀ (cnt b : Nat) (prev : Option Nat) (acc : List Write) (Fc : Nat) (d' : Disk) (bs : List (List Write)),
      F0 ≤ Fc → Fc ≤ b → b + cnt ≤ c.length →
      prev = (if b = 0 then none else (c[b - 1]?).map (·.hash)) →
      acc = pdsN c Fc (b - Fc) → PCoh lag c Fc d' →
      pruneSweep W lag d0 cut cnt b prev acc = some bs →
      ∀ k, k ≤ bs.length → ∃ F, Fc ≤ F ∧ F ≤ b + cnt ∧
        PCoh lag c F (applyCommits d' (bs.take k)) ∧ (k = bs.length → F = b + cnt) := by
  intro cnt
  induction cnt with
  | zero =>
    intro b prev acc Fc d' bs h0 h1 h2 hprev hacc hp hs k hk
    simp only [pruneSweep, Option.some.injEq] at hs
    subst hs
    cases k with
    | zero => exact ⟨Fc, Nat.le_refl _, by omega, by simpa [applyCommits] using hp, by simp⟩
    | succ k =>
      have : k = 0 := by simp at hk; exact hk
      subst this
      refine ⟨b, h1, by omega, ?_, by simp⟩
      simp only [List.take_succ_cons, List.take_zero, applyCommits, List.foldl_cons, List.foldl_nil]
      rw [hacc]
      have := pcoh_batch (W := W) hwf (k := b - Fc) hp (by omega)
      rw [show Fc + (b - Fc) = b by omega] at this
      exact this
  | succ cnt ih =>
    intro b prev acc Fc d' bs h0 h1 h2 hprev hacc hp hs k hk
    have hb : b < c.length := by omega
    obtain ⟨hr1, hr2⟩ := hreads b (by omega) hb
    have hcb : c[b]? = some c[b] := List.getElem?_eq_getElem hb
    rw [hcb] at hr1 hr2
    simp only [pruneSweep, hr1, hr2] at hs
    have hacc' : acc ++ blockDels prev c[b] = pdsN c Fc (b + 1 - Fc) := by
      rw [show b + 1 - Fc = (b - Fc) + 1 by omega, pdsN, ← hacc, hprev,
        pd_eq_of_reads hcb, show Fc + (b - Fc) = b by omega]
    have hprev' : some (c[b]).hash = (if b + 1 = 0 then none else (c[b + 1 - 1]?).map (·.hash)) := by
      simp [hcb]
    rw [hacc'] at hs
    split at hs
    · -- the batch is committed with the range delete for the blocks it covers
      cases hrest : pruneSweep W lag d0 cut cnt (b + 1) (some (c[b]).hash) [] with
      | none => rw [hrest] at hs; simp at hs
      | some rest =>
        rw [hrest] at hs
        simp only [Option.map_some, Option.some.injEq] at hs
        subst hs
        cases k with
        | zero => exact ⟨Fc, Nat.le_refl _, by omega, by simpa [applyCommits] using hp, by simp⟩
        | succ k =>
          have hp1 : PCoh lag c (b + 1) (applyBatch d' (pdsN c Fc (b + 1 - Fc) ++ pruneRange W lag (b + 1))) := by
            have := pcoh_batch (W := W) hwf (k := b + 1 - Fc) hp (by omega)
            rw [show Fc + (b + 1 - Fc) = b + 1 by omega] at this
            exact this
          obtain ⟨F, hF1, hF2, hF3, hF4⟩ := ih (b + 1) (some (c[b]).hash) [] (b + 1) _ rest (by omega)
            (Nat.le_refl _) (by omega) hprev' (by simp [pdsN]) hp1 hrest k (by simpa using hk)
          refine ⟨F, by omega, by omega, ?_, ?_⟩
          · simp only [List.take_succ_cons, applyCommits, List.foldl_cons]
            exact hF3
          · intro e
            apply (hF4 (by simpa using e)).trans
            omega
    · obtain ⟨F, hF1, hF2, hF3, hF4⟩ := ih (b + 1) (some (c[b]).hash) _ Fc d' bs h0 (by omega) (by omega)
        hprev' rfl hp hs k hk
      exact ⟨F, hF1, by omega, hF3, fun e => (hF4 e).trans (by omega)⟩

theorem oldestRetained_none {d : Disk} (h : ∀ n, d (.commit n) = none) :
    ∀ fuel b, oldestRetained d fuel b = none := by
  intro fuel
  induction fuel with
  | zero => intro b; rfl
  | succ fuel ih => intro b; simp [oldestRetained, h b, ih]

theorem oldestRetained_pcoh {lag : Nat} {c : List Block} {F0 : Nat} {d : Disk} (hp : PCoh lag c F0 d) :
    ∀ fuel b, b ≤ F0 → oldestRetained d fuel b =
      if F0 < c.length ∧ F0 < b + fuel then some F0 else none := by
  intro fuel
  induction fuel with
  | zero =>
    intro b hb
    have : ¬ (F0 < c.length ∧ F0 < b + 0) := by omega
    rw [if_neg this]; rfl
  | succ fuel ih =>
    intro b hb
    simp only [oldestRetained, hp.commit b]
    by_cases h : F0 ≤ b ∧ b < c.length
    · have hb' : b = F0 := by omega
      subst hb'
      have h2 : b < c.length ∧ b < b + (fuel + 1) := ⟨h.2, by omega⟩
      rw [if_pos h, if_pos h2]; rfl
    · rw [if_neg h]
      have hnone : (none : Option Val).isSome = false := rfl
      simp only [hnone, Bool.false_eq_true, if_false]
      by_cases hlt : b < F0
      · rw [ih (b + 1) (by omega)]
        by_cases h3 : F0 < c.length ∧ F0 < b + 1 + fuel
        · rw [if_pos h3, if_pos ⟨h3.1, by omega⟩]
        · rw [if_neg h3, if_neg (by omega)]
      · have hb' : b = F0 := by omega
        subst hb'
        have h1 : ¬ b < c.length := fun hh => h ⟨Nat.le_refl _, hh⟩
        rw [oldestRetained_none (fun n => by rw [hp.commit n]; exact if_neg (by omega)),
          if_neg (fun hh => h1 hh.1)]

/-- `prune_images`: a prune of a node whose image is pruned below `F0`, towards `e ≤ height+1`,
cut after ANY number `k` of its batches (a crash after the k-th batch, or the failure of the
(k+1)-th): the image is that of a prune that stopped at a floor `F` with `F0 ≤ F ≤ e` — every
block from `F` on fully present, every block below fully absent up to the two carve-outs — and
after all batches `F = e`. For every rotation decision `cut`. -/
theorem prune_images {W : Nat} {cut : Nat → List Write → Bool} {c : List Block} (hwf : WfChain c) {n : Node} {F0 e : Nat}
    (hp : PCoh blockHashLag c F0 n.disk) (hF0 : F0 < e) (he : e ≤ c.length) (k : Nat) :
    (prunePlanThr W n e cut).disk0 = n.disk ∧
    ∃ F, F0 ≤ F ∧ F ≤ e ∧
      PCoh blockHashLag c F (applyCommits n.disk ((prunePlanThr W n e cut).commits.take k)) ∧
      ((prunePlanThr W n e cut).commits.length ≤ k → F = e) ∧
      (prunePlanThr W n e cut).out = .ok := by
  have hlen : c.length ≠ 0 := by omega
  have hh : getHeight n.disk = some (c.length - 1) := by rw [hp.height]; simp [hlen]
  have hor : oldestRetained n.disk (c.length - 1 + 1) 0 = some F0 := by
    rw [oldestRetained_pcoh hp _ 0 (by omega)]
    have : F0 < c.length ∧ F0 < 0 + (c.length - 1 + 1) := by omega
    rw [if_pos this]
  have hprev : (if F0 = 0 then some none
      else (getBlk n.disk (.header (F0 - 1))).map (fun hb => some hb.hash)) =
      some (if F0 = 0 then none else (c[F0 - 1]?).map (·.hash)) := by
    by_cases h0 : F0 = 0
    · simp [h0]
    · simp only [h0, if_false]
      have hx : c[F0 - 1]? = some c[F0 - 1] := List.getElem?_eq_getElem (by omega)
      have : ¬ F0 - 1 + blockHashLag < F0 := by simp [blockHashLag]; omega
      simp [getBlk, hp.header, this, hx]
  have hreads : ∀ x, F0 ≤ x → x < c.length →
      getBlk n.disk (.su x) = c[x]? ∧ getBlk n.disk (.txs x) = c[x]? := by
    intro x h1 h2
    have hx : c[x]? = some c[x] := List.getElem?_eq_getElem h2
    have : ¬ x < F0 := by omega
    simp [getBlk, hp.su, hp.txs, this, hx]
  have hnot : ¬ F0 ≥ e := by omega
  cases hsw : pruneSweep W blockHashLag n.disk cut (e - F0) F0
      (if F0 = 0 then none else (c[F0 - 1]?).map (·.hash)) [] with
  | none =>
    -- impossible: the sweep only fails on a missing record
    exfalso
    have key : ∀ (cnt b : Nat) (prev : Option Nat) (acc : List Write), F0 ≤ b → b + cnt ≤ c.length →
        pruneSweep W blockHashLag n.disk cut cnt b prev acc ≠ none := by
      intro cnt
      induction cnt with
      | zero => intro b prev acc _ _; simp [pruneSweep]
      | succ cnt ih =>
        intro b prev acc h1 h2
        obtain ⟨r1, r2⟩ := hreads b h1 (by omega)
        have hx : c[b]? = some c[b] := List.getElem?_eq_getElem (by omega)
        rw [hx] at r1 r2
        simp only [pruneSweep, r1, r2]
        split
        · intro h
          cases hr : pruneSweep W blockHashLag n.disk cut cnt (b + 1) (some (c[b]).hash) [] with
          | none => exact ih _ _ _ (by omega) (by omega) hr
          | some x => rw [hr] at h; simp at h
        · exact ih _ _ _ (by omega) (by omega)
    exact key _ _ _ _ (Nat.le_refl _) (by omega) hsw
  | some bs =>
    have hpl : prunePlanThr W n e cut = ⟨n.disk, bs, n.mem, .ok⟩ := by
      simp only [prunePlanThr, hh, hor, hnot, if_false, hprev, hsw]
    rw [hpl]
    refine ⟨rfl, ?_⟩
    by_cases hk : k ≤ bs.length
    · obtain ⟨F, h1, h2, h3, h4⟩ := sweep_images hwf hreads (e - F0) F0 _ [] F0 n.disk bs (Nat.le_refl _)
        (Nat.le_refl _) (by omega) rfl (by simp [pdsN]) hp hsw k hk
      refine ⟨F, h1, by omega, h3, ?_, rfl⟩
      intro hle
      have : k = bs.length := by simp at hle; omega
      rw [h4 this]; omega
    · obtain ⟨F, h1, h2, h3, h4⟩ := sweep_images hwf hreads (e - F0) F0 _ [] F0 n.disk bs (Nat.le_refl _)
        (Nat.le_refl _) (by omega) rfl (by simp [pdsN]) hp hsw bs.length (Nat.le_refl _)
      have htake : bs.take k = bs.take bs.length := by
        rw [List.take_of_length_le (by omega), List.take_length]
      refine ⟨F, h1, by omega, by simp only [htake]; exact h3, ?_, rfl⟩
      intro _
      rw [h4 rfl]; omega

/-- The same through `exec`: any fault during `PruneUpto(e)`. -/
theorem prune_exec_images {W : Nat} (fx : Fixes) {c : List Block} (hwf : WfChain c) {n : Node} {F0 e : Nat}
    (hp : PCoh blockHashLag c F0 n.disk) (hF0 : F0 < e) (he : e ≤ c.length) (ft : Fault)
    (hb : ft ≠ .failInit ∧ ft ≠ .crashInit) :
    ∃ F, F0 ≤ F ∧ F ≤ e ∧ PCoh blockHashLag c F (exec W fx n (.prune e) ft).1.disk ∧
      (ft = .none → F = e ∧ (exec W fx n (.prune e) ft).2 = .ok) := by
  have hpl : plan W fx n (.prune e) = prunePlanThr W n e cutNonEmpty := rfl
  cases ft with
  | failInit => exact absurd rfl hb.1
  | crashInit => exact absurd rfl hb.2
  | none =>
    obtain ⟨h0, F, h1, h2, h3, h4, h5⟩ := prune_images (W := W) (cut := cutNonEmpty) hwf hp hF0 he
      (prunePlanThr W n e cutNonEmpty).commits.length
    refine ⟨F, h1, h2, ?_, fun _ => ⟨h4 (Nat.le_refl _), ?_⟩⟩
    · simp only [exec, hpl, h0]
      rw [List.take_length] at h3; exact h3
    · simp only [exec, hpl]; exact h5
  | failAt k =>
    by_cases hk : k < (plan W fx n (.prune e)).commits.length
    · obtain ⟨h0, F, h1, h2, h3, _, _⟩ := prune_images (W := W) (cut := cutNonEmpty) hwf hp hF0 he k
      refine ⟨F, h1, h2, ?_, fun h => by cases h⟩
      rw [exec_failAt_lt hk]
      simp only [hpl, h0]; exact h3
    · obtain ⟨h0, F, h1, h2, h3, _, _⟩ := prune_images (W := W) (cut := cutNonEmpty) hwf hp hF0 he
        (prunePlanThr W n e cutNonEmpty).commits.length
      refine ⟨F, h1, h2, ?_, fun h => by cases h⟩
      rw [exec_failAt_ge hk]
      simp only [exec, hpl, h0]
      rw [List.take_length] at h3; exact h3
  | crashAfter k =>
    obtain ⟨h0, F, h1, h2, h3, _, _⟩ := prune_images (W := W) (cut := cutNonEmpty) hwf hp hF0 he (k + 1)
    refine ⟨F, h1, h2, ?_, fun h => by cases h⟩
    simp only [exec, hpl, h0]; exact h3

end Juno.C05
