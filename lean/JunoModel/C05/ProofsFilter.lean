import JunoModel.C05.ProofsCoh4
/-! Helper lemmas for C05, part 6: the running event filter and the persisted windows. -/
namespace Juno.C05

/-! ### Window arithmetic -/

theorem wstart_le (W n : Nat) : wstart W n ≤ n := by unfold wstart; omega

theorem lt_wstart_add {W : Nat} (hW : 0 < W) (n : Nat) : n < wstart W n + W := by
  unfold wstart
  have := Nat.mod_lt n hW
  omega

theorem wstart_mod {W : Nat} (n : Nat) : wstart W n % W = 0 := by
  unfold wstart
  have h := Nat.div_add_mod n W
  have : n - n % W = W * (n / W) := by omega
  rw [this]
  exact Nat.mul_mod_right W (n / W)

theorem wstart_of_mod_zero {W n : Nat} (h : n % W = 0) : wstart W n = n := by
  unfold wstart; omega

/-- Window start of the successor: either the same window, or `n` was the last block of its
window. -/
theorem wstart_succ {W : Nat} (hW : 0 < W) (n : Nat) :
    (n = wstart W n + (W - 1) ∧ wstart W (n + 1) = n + 1) ∨
    (n ≠ wstart W n + (W - 1) ∧ wstart W (n + 1) = wstart W n) := by
  have h1 := Nat.mod_lt n hW
  have h2 := Nat.mod_le n W
  have hm : (n + 1) % W = (n % W + 1) % W := by
    rw [Nat.add_mod]
    by_cases hW1 : W = 1
    · subst hW1; simp [Nat.mod_one]
    · rw [Nat.mod_eq_of_lt (show 1 < W by omega)]
  unfold wstart
  by_cases e : n % W + 1 = W
  · have : (n + 1) % W = 0 := by rw [hm, e]; exact Nat.mod_self W
    left; omega
  · have : (n + 1) % W = n % W + 1 := by rw [hm]; exact Nat.mod_eq_of_lt (by omega)
    right; omega

/-! ### Windows -/

theorem has_insert {W : Nat} {w w' : Win} {bits : List Nat} {b : Nat}
    (h : w.insert W bits b = some w') :
    w'.lo = w.lo ∧ w.lo ≤ b ∧ b ≤ w.lo + (W - 1) ∧
      ∀ b' i, w'.has b' i = ((b' == b && bits.contains i) || w.has b' i) := by
  unfold Win.insert at h
  split at h
  · cases h
  · rename_i hr
    cases h
    refine ⟨rfl, by omega, by omega, ?_⟩
    intro b' i
    simp only [Win.has, List.contains_eq_mem, List.mem_append, List.mem_map, Prod.mk.injEq]
    by_cases e : b' = b
    · subst e
      by_cases hi : i ∈ bits
      · simp [hi]
      · simp [hi]
    · have : ¬ ∃ a, a ∈ bits ∧ b = b' ∧ a = i := by
        rintro ⟨a, _, hb, _⟩; exact e hb.symm
      simp [e, this]

theorem has_clear {W : Nat} {w w' : Win} {b : Nat} (h : w.clear W b = some w') :
    w'.lo = w.lo ∧ ∀ b' i, w'.has b' i = (b' != b && w.has b' i) := by
  unfold Win.clear at h
  split at h
  · cases h
  · cases h
    refine ⟨rfl, ?_⟩
    intro b' i
    simp only [Win.has, List.contains_eq_mem, List.mem_filter]
    by_cases e : b' = b <;> simp [e]

theorem has_empty (lo b i : Nat) : (Win.empty lo).has b i = false := by
  simp [Win.empty, Win.has]

theorem bitIn_append_left {c : List Block} {x : Block} {b i : Nat} (h : bitIn c b i) :
    bitIn (c ++ [x]) b i := by
  obtain ⟨blk, hb, hi⟩ := h
  refine ⟨blk, ?_, hi⟩
  have hlt : b < c.length := by
    apply Classical.byContradiction; intro hn
    rw [List.getElem?_eq_none (by omega)] at hb; cases hb
  rw [List.getElem?_append_left hlt]; exact hb

theorem bitIn_append {c : List Block} {x : Block} {b i : Nat} (h : bitIn (c ++ [x]) b i) :
    bitIn c b i ∨ (b = c.length ∧ i ∈ x.bits) := by
  obtain ⟨blk, hb, hi⟩ := h
  by_cases h1 : b < c.length
  · rw [List.getElem?_append_left h1] at hb; exact Or.inl ⟨blk, hb, hi⟩
  · by_cases h2 : b = c.length
    · subst h2
      rw [List.getElem?_append_right (Nat.le_refl _)] at hb
      simp at hb; subst hb
      exact Or.inr ⟨rfl, hi⟩
    · rw [List.getElem?_eq_none (by simp; omega)] at hb; cases hb

/-- Inserting the next block into a filter that describes the chain: the filter describes the
extended chain; at the end of a window the full window is handed to the writer. -/
theorem insert_filtOK {W : Nat} (hW : 0 < W) {c : List Block} {f : Filt} {x : Block}
    (hf : FiltOK W c f) (hx : x.num = c.length) :
    ∃ f' ws, f.insert W x.bits x.num = some (f', ws) ∧ FiltOK W (c ++ [x]) f' ∧
      ((ws = [] ∧ (c.length + 1) % W ≠ 0) ∨
       (∃ w', ws = [.put (.win (wstart W c.length)) (.win w')] ∧ (c.length + 1) % W = 0 ∧
          w'.lo = wstart W c.length ∧
          ∀ b i, wstart W c.length ≤ b → b < wstart W c.length + W → bitIn (c ++ [x]) b i →
            w'.has b i = true)) := by
  have hlo := hf.lo
  have hle := wstart_le W c.length
  have hlt := lt_wstart_add hW c.length
  have hins : ∃ w', f.win.insert W x.bits x.num = some w' := by
    unfold Win.insert
    rw [hx, hlo]
    have : ¬ (wstart W c.length > c.length ∨ wstart W c.length + (W - 1) < c.length) := by omega
    simp [this]
  obtain ⟨w', hw'⟩ := hins
  obtain ⟨hlo', _, _, hhas⟩ := has_insert hw'
  have sound' : ∀ b i, w'.lo ≤ b → b < c.length + 1 → bitIn (c ++ [x]) b i → w'.has b i = true := by
    intro b i h1 h2 hb
    rw [hhas]
    rcases bitIn_append hb with h | ⟨rfl, hi⟩
    · have hbl : b < c.length := by
        obtain ⟨blk, hg, _⟩ := h
        apply Classical.byContradiction; intro hn
        rw [List.getElem?_eq_none (by omega)] at hg; cases hg
      simp [hf.sound b i (by rw [← hlo']; exact h1) hbl h]
    · simp [hx, hi]
  unfold Filt.insert
  rw [hw']
  simp only
  rcases wstart_succ hW c.length with ⟨hlast, hnext⟩ | ⟨hnl, hsame⟩
  · -- rollover
    have hcond : x.num = w'.lo + (W - 1) := by rw [hx, hlo', hlo]; exact hlast
    simp only [hcond, if_true]
    refine ⟨_, _, rfl, ⟨?_, ?_, ?_⟩, Or.inr ⟨w', ?_, ?_, ?_, ?_⟩⟩
    · simp [← hcond, hx]
    · simp only [Win.empty, List.length_append, List.length_singleton]
      rw [hnext, ← hcond, hx]
    · intro b i h1 h2 _
      simp only [Win.empty, List.length_append, List.length_singleton] at h1 h2
      rw [← hcond, hx] at h1
      omega
    · rw [hlo', hlo]
    · have := wstart_mod (W := W) (c.length + 1)
      rw [hnext] at this; exact this
    · rw [hlo', hlo]
    · intro b i h1 h2 hb
      apply sound' b i (by rw [hlo', hlo]; exact h1) _ hb
      omega
  · have hcond : ¬ x.num = w'.lo + (W - 1) := by rw [hx, hlo', hlo]; exact hnl
    simp only [hcond, if_false]
    refine ⟨_, _, rfl, ⟨?_, ?_, ?_⟩, Or.inl ⟨rfl, ?_⟩⟩
    · simp [hx]
    · simp only [List.length_append, List.length_singleton]
      rw [hsame, hlo', hlo]
    · intro b i h1 h2 hb
      simp only [List.length_append, List.length_singleton] at h2
      exact sound' b i h1 h2 hb
    · intro e
      have := wstart_of_mod_zero e
      rw [hsame] at this
      omega

end Juno.C05
