import JunoModel.C05.Proofs
/-! Helper lemmas for C05, part 2: the block buckets of the disk image always describe exactly one
well-formed chain (`Coh`), for every call and every fault. -/
namespace Juno.C05

/-! ### Batches as function updates -/

theorem applyBatch_nil (d : Disk) : applyBatch d [] = d := rfl

theorem applyBatch_cons (d : Disk) (w : Write) (ws : List Write) :
    applyBatch d (w :: ws) = applyBatch (applyW d w) ws := rfl

theorem applyBatch_append (d : Disk) (a b : List Write) :
    applyBatch d (a ++ b) = applyBatch (applyBatch d a) b := by
  simp [applyBatch, List.foldl_append]

/-- A write does not touch key `k`. -/
def Write.misses (k : Key) : Write → Prop
  | .put k' _ => k' ≠ k
  | .del k' => k' ≠ k
  | .delWhere p => p k = false

theorem applyW_misses {d : Disk} {w : Write} {k : Key} (h : w.misses k) : applyW d w k = d k := by
  cases w with
  | put k' v => simp only [Write.misses] at h; simp [applyW, Ne.symm h]
  | del k' => simp only [Write.misses] at h; simp [applyW, Ne.symm h]
  | delWhere p => simp only [Write.misses] at h; simp [applyW, h]

theorem applyBatch_misses {ws : List Write} {k : Key} (h : ∀ w ∈ ws, w.misses k) (d : Disk) :
    applyBatch d ws k = d k := by
  induction ws generalizing d with
  | nil => rfl
  | cons w ws ih =>
    rw [applyBatch_cons, ih (fun w' hw' => h w' (List.mem_cons_of_mem _ hw'))]
    exact applyW_misses (h w List.mem_cons_self)

/-- keys that belong to the chain families (everything except bloom windows, snapshot, L1 head) -/
def IsChainKey : Key → Prop
  | .win _ => False
  | .snap => False
  | .l1head => False
  | _ => True

/-- `OnlyAux ws`: every write of `ws` is a put/del on a `.win _`, `.snap` or `.l1head` key. -/
def OnlyAux (ws : List Write) : Prop :=
  ∀ w ∈ ws, (∃ k v, w = .put k v ∧ ¬ IsChainKey k) ∨ (∃ k, w = .del k ∧ ¬ IsChainKey k)

theorem onlyAux_misses {ws : List Write} (h : OnlyAux ws) {k : Key} (hk : IsChainKey k) :
    ∀ w ∈ ws, w.misses k := by
  intro w hw
  rcases h w hw with ⟨k', v, rfl, hk'⟩ | ⟨k', rfl, hk'⟩
  · intro e; subst e; exact hk' hk
  · intro e; subst e; exact hk' hk

theorem applyBatch_onlyAux {ws : List Write} (h : OnlyAux ws) (d : Disk) {k : Key} (hk : IsChainKey k) :
    applyBatch d ws k = d k :=
  applyBatch_misses (onlyAux_misses h hk) d

/-! ### `Coh` only looks at chain keys -/

theorem getHeight_congr {d d' : Disk} (h : d' .height = d .height) : getHeight d' = getHeight d := by
  simp [getHeight, h]

theorem stateRoot_congr {d d' : Disk} (h : d' .state = d .state) : stateRoot d' = stateRoot d := by
  simp [stateRoot, h]

theorem coh_of_eq_chainKeys {c : List Block} {d d' : Disk}
    (hc : Coh c d) (h : ∀ k, IsChainKey k → d' k = d k) : Coh c d' where
  height := by rw [getHeight_congr (h .height trivial)]; exact hc.height
  header n := by rw [h (.header n) trivial]; exact hc.header n
  txs n := by rw [h (.txs n) trivial]; exact hc.txs n
  su n := by rw [h (.su n) trivial]; exact hc.su n
  commit n := by rw [h (.commit n) trivial]; exact hc.commit n
  numByHash x := by rw [h (.numByHash x) trivial]; exact hc.numByHash x
  txLookup t := by rw [h (.txLookup t) trivial]; exact hc.txLookup t
  state := by rw [stateRoot_congr (h .state trivial)]; exact hc.state

/-! ### The running filter only ever writes window / snapshot keys -/

theorem insert_onlyAux {W : Nat} {f f' : Filt} {bits : List Nat} {b : Nat} {ws : List Write}
    (h : f.insert W bits b = some (f', ws)) : OnlyAux ws := by
  unfold Filt.insert at h
  split at h
  · simp at h
  · split at h
    · simp only [Option.some.injEq, Prod.mk.injEq] at h
      obtain ⟨_, rfl⟩ := h
      intro w hw
      simp only [List.mem_singleton] at hw
      subst hw
      exact Or.inl ⟨_, _, rfl, fun h => h⟩
    · simp only [Option.some.injEq, Prod.mk.injEq] at h
      obtain ⟨_, rfl⟩ := h
      intro w hw
      simp at hw

theorem fill_chainKeys {W : Nat} : ∀ (cnt b : Nat) (f : Filt) (d : Disk) {f' : Filt} {d' : Disk},
    fill W cnt b f d = some (f', d') → ∀ k, IsChainKey k → d' k = d k := by
  intro cnt
  induction cnt with
  | zero =>
    intro b f d f' d' h k _
    simp only [fill, Option.some.injEq, Prod.mk.injEq] at h
    rw [← h.2]
  | succ cnt ih =>
    intro b f d f' d' h k hk
    simp only [fill] at h
    split at h
    · simp at h
    · split at h
      · simp at h
      · rename_i f1 ws hins
        split at h
        · exact ih _ _ _ h k hk
        · rw [ih _ _ _ h k hk]
          exact applyBatch_onlyAux (insert_onlyAux hins) d hk

theorem initFilter_chainKeys {W : Nat} {d d' : Disk} {f : Filt}
    (h : initFilter W d = some (f, d')) : ∀ k, IsChainKey k → d' k = d k := by
  intro k hk
  unfold initFilter at h
  split at h
  · simp only [Option.some.injEq, Prod.mk.injEq] at h; rw [← h.2]
  · split at h
    · split at h
      · simp only [Option.some.injEq, Prod.mk.injEq] at h; rw [← h.2]
      · split at h
        · exact fill_chainKeys _ _ _ _ h k hk
        · exact fill_chainKeys _ _ _ _ h k hk
    · exact fill_chainKeys _ _ _ _ h k hk

theorem ensureInit_chainKeys (W : Nat) (n : Node) :
    ∀ k, IsChainKey k → (ensureInit W n).disk k = n.disk k := by
  intro k hk
  unfold ensureInit
  split
  · split
    · rename_i f d' h
      exact initFilter_chainKeys h k hk
    · rfl
  · rfl

/-! ### Lookups after the writes of a stored block -/

theorem txLookups_misses (n : Nat) (k : Key) (hk : ∀ t, k ≠ .txLookup t) :
    ∀ (ts : List Nat) (i : Nat), ∀ w ∈ txLookups n i ts, w.misses k := by
  intro ts
  induction ts with
  | nil => intro i w hw; simp [txLookups] at hw
  | cons t ts ih =>
    intro i w hw
    simp only [txLookups, List.mem_cons] at hw
    rcases hw with rfl | hw
    · exact fun e => hk t e.symm
    · exact ih _ w hw

theorem applyBatch_txLookups (n : Nat) : ∀ (ts : List Nat) (i : Nat) (d : Disk) (t : Nat), ts.Nodup →
    applyBatch d (txLookups n i ts) (.txLookup t) =
      match ts.idxOf? t with
      | some j => some (.idx n (i + j))
      | none => d (.txLookup t) := by
  intro ts
  induction ts with
  | nil => intro i d t _; simp [txLookups, applyBatch_nil]
  | cons t0 ts ih =>
    intro i d t hnd
    have hnd' : ts.Nodup := (List.nodup_cons.mp hnd).2
    have hni : t0 ∉ ts := (List.nodup_cons.mp hnd).1
    simp only [txLookups, applyBatch_cons]
    rw [ih (i + 1) _ t hnd', List.idxOf?_cons]
    by_cases e : t0 = t
    · subst e
      have : ts.idxOf? t0 = none := List.idxOf?_eq_none_iff.mpr hni
      simp [this, applyW]
    · have e' : (t0 == t) = false := by simp [e]
      simp only [e', Bool.false_eq_true, if_false]
      cases h : ts.idxOf? t with
      | none => simp [applyW, Ne.symm e]
      | some j => simp; omega

/-- What the disk holds after the writes of block `b` (state, header, lookups, height). -/
theorem blockWrites_lookup (d : Disk) (b : Block) (hnd : b.txs.Nodup) (k : Key) :
    applyBatch d (blockWrites b) k =
      match k with
      | .height => some (.num b.num)
      | .state => some (.num b.root)
      | .header n => if n = b.num then some (.blk b) else d k
      | .txs n => if n = b.num then some (.blk b) else d k
      | .su n => if n = b.num then some (.blk b) else d k
      | .commit n => if n = b.num then some (.num b.num) else d k
      | .numByHash h => if h = b.hash then some (.num b.num) else d k
      | .txLookup t =>
        (match b.txs.idxOf? t with
          | some j => some (.idx b.num j)
          | none => d k)
      | _ => d k := by
  unfold blockWrites
  rw [applyBatch_append, applyBatch_append]
  cases k with
  | txLookup t =>
    have h1 : ∀ w ∈ [Write.put (.txs b.num) (.blk b), .put (.su b.num) (.blk b),
        .put (.commit b.num) (.num b.num), .put .height (.num b.num)], w.misses (.txLookup t) := by
      intro w hw; simp at hw; rcases hw with rfl | rfl | rfl | rfl <;> simp [Write.misses]
    rw [applyBatch_misses h1, applyBatch_txLookups b.num b.txs 0 _ t hnd]
    have h0 : ∀ w ∈ [Write.put .state (.num b.root), .put (.numByHash b.hash) (.num b.num),
        .put (.header b.num) (.blk b)], w.misses (.txLookup t) := by
      intro w hw; simp at hw; rcases hw with rfl | rfl | rfl <;> simp [Write.misses]
    rw [applyBatch_misses h0]
    cases h : List.idxOf? t b.txs <;> simp [h]
  | height =>
    rw [show applyBatch _ [Write.put (.txs b.num) (.blk b), .put (.su b.num) (.blk b),
      .put (.commit b.num) (.num b.num), .put .height (.num b.num)] Key.height = some (.num b.num) from by
        simp [applyBatch, applyW]]
  | state =>
    rw [applyBatch_misses (k := .state) (by intro w hw; simp at hw; rcases hw with rfl | rfl | rfl | rfl <;> simp [Write.misses]),
      applyBatch_misses (txLookups_misses b.num .state (by intro t; simp) b.txs 0)]
    simp [applyBatch, applyW]
  | header n =>
    rw [applyBatch_misses (k := .header n) (by intro w hw; simp at hw; rcases hw with rfl | rfl | rfl | rfl <;> simp [Write.misses]),
      applyBatch_misses (txLookups_misses b.num (.header n) (by intro t; simp) b.txs 0)]
    simp [applyBatch, applyW]
  | numByHash h =>
    rw [applyBatch_misses (k := .numByHash h) (by intro w hw; simp at hw; rcases hw with rfl | rfl | rfl | rfl <;> simp [Write.misses]),
      applyBatch_misses (txLookups_misses b.num (.numByHash h) (by intro t; simp) b.txs 0)]
    simp [applyBatch, applyW]
  | txs n =>
    rw [show ∀ d', applyBatch d' [Write.put (.txs b.num) (.blk b), .put (.su b.num) (.blk b),
      .put (.commit b.num) (.num b.num), .put .height (.num b.num)] (.txs n) =
        if n = b.num then some (.blk b) else d' (.txs n) from by intro d'; simp [applyBatch, applyW]]
    rw [applyBatch_misses (txLookups_misses b.num (.txs n) (by intro t; simp) b.txs 0)]
    simp [applyBatch, applyW]
  | su n =>
    rw [show ∀ d', applyBatch d' [Write.put (.txs b.num) (.blk b), .put (.su b.num) (.blk b),
      .put (.commit b.num) (.num b.num), .put .height (.num b.num)] (.su n) =
        if n = b.num then some (.blk b) else d' (.su n) from by intro d'; simp [applyBatch, applyW]]
    rw [applyBatch_misses (txLookups_misses b.num (.su n) (by intro t; simp) b.txs 0)]
    simp [applyBatch, applyW]
  | commit n =>
    rw [show ∀ d', applyBatch d' [Write.put (.txs b.num) (.blk b), .put (.su b.num) (.blk b),
      .put (.commit b.num) (.num b.num), .put .height (.num b.num)] (.commit n) =
        if n = b.num then some (.num b.num) else d' (.commit n) from by intro d'; simp [applyBatch, applyW]]
    rw [applyBatch_misses (txLookups_misses b.num (.commit n) (by intro t; simp) b.txs 0)]
    simp [applyBatch, applyW]
  | win lo =>
    rw [applyBatch_misses (k := .win lo) (by intro w hw; simp at hw; rcases hw with rfl | rfl | rfl | rfl <;> simp [Write.misses]),
      applyBatch_misses (txLookups_misses b.num (.win lo) (by intro t; simp) b.txs 0)]
    simp [applyBatch, applyW]
  | snap =>
    rw [applyBatch_misses (k := .snap) (by intro w hw; simp at hw; rcases hw with rfl | rfl | rfl | rfl <;> simp [Write.misses]),
      applyBatch_misses (txLookups_misses b.num .snap (by intro t; simp) b.txs 0)]
    simp [applyBatch, applyW]
  | l1head =>
    rw [applyBatch_misses (k := .l1head) (by intro w hw; simp at hw; rcases hw with rfl | rfl | rfl | rfl <;> simp [Write.misses]),
      applyBatch_misses (txLookups_misses b.num .l1head (by intro t; simp) b.txs 0)]
    simp [applyBatch, applyW]

end Juno.C05
