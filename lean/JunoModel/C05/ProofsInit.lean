import JunoModel.C05.ProofsPrune4
/-!
Helper lemmas for C05, part 16 (round 5): the initialiser of the lazily initialised running filter
as a parameter. `blockchain.New` installs the floor-aware `pruner.InitializeRunningEventFilter`
(`initFilterP`) for EVERY node; the theorems of rounds 1-4 are about `exec`, which uses
`core.InitializeRunningEventFilter` (`initFilter`). Here:

* `execG (initFilter W) (initNeedsWrite W) = exec` (the parametrised calls are the same calls);
* `execG` depends on the initialiser only through its value on the node's disk;
* on a disk whose block 0 is retained (every never-pruned image) `initFilterP = initFilter`, also on
  a store that refuses the initialisation's writes — so `execP = exec` there, and `runP = run` for
  every history without prune.
-/
namespace Juno.C05

theorem ensureInitG_initFilter (W : Nat) (n : Node) : ensureInitG (initFilter W) n = ensureInit W n := rfl

theorem storePlanG_initFilter (W : Nat) (n : Node) (b : Block) :
    storePlanG (initFilter W) W n b = storePlan W n b := rfl

theorem revertPlanG_initFilter (W : Nat) (fx : Fixes) (n : Node) :
    revertPlanG (initFilter W) W fx n = revertPlan W fx n := rfl

theorem snapPlanG_initFilter (W : Nat) (n : Node) : snapPlanG (initFilter W) n = snapPlan W n := rfl

theorem planG_initFilter (W : Nat) (fx : Fixes) (n : Node) (op : Op) :
    planG (initFilter W) W fx n op = plan W fx n op := by
  cases op <;> rfl

/-- The parametrised call with `core.InitializeRunningEventFilter` is `exec`. -/
theorem execG_initFilter (W : Nat) (fx : Fixes) (n : Node) (op : Op) (ft : Fault) :
    execG (initFilter W) (initNeedsWrite W) W fx n op ft = exec W fx n op ft := by
  unfold execG exec
  simp only [planG_initFilter, snapPlanG_initFilter]

/-! ### The call depends on the initialiser only through its value on the node's disk -/

theorem ensureInitG_congr {i1 i2 : Disk → Option (Filt × Disk)} {n : Node} (h : i1 n.disk = i2 n.disk) :
    ensureInitG i1 n = ensureInitG i2 n := by
  unfold ensureInitG
  rw [h]

theorem planG_congr {i1 i2 : Disk → Option (Filt × Disk)} (W : Nat) (fx : Fixes) {n : Node}
    (h : i1 n.disk = i2 n.disk) (op : Op) : planG i1 W fx n op = planG i2 W fx n op := by
  have he := ensureInitG_congr (n := n) h
  cases op with
  | store b => simp only [planG, storePlanG, he]
  | revert => simp only [planG, revertPlanG, he]
  | l1head v => rfl
  | snap => simp only [planG, snapPlanG, he]
  | restart => simp only [planG, snapPlanG, he]
  | kill => rfl
  | prune e => rfl

/-- A node whose memory is not lazy never runs the initialiser. -/
theorem planG_broken (i1 i2 : Disk → Option (Filt × Disk)) (W : Nat) (fx : Fixes) (d : Disk) (op : Op) :
    planG i1 W fx ⟨d, .broken⟩ op = planG i2 W fx ⟨d, .broken⟩ op := by
  cases op <;> rfl

theorem execG_congr {i1 i2 : Disk → Option (Filt × Disk)} {nw1 nw2 : Disk → Bool} (W : Nat) (fx : Fixes)
    {n : Node} (h : i1 n.disk = i2 n.disk) (hnw : nw1 n.disk = nw2 n.disk) (op : Op) (ft : Fault) :
    execG i1 nw1 W fx n op ft = execG i2 nw2 W fx n op ft := by
  have hp := planG_congr W fx h op
  have hs : snapPlanG i1 n = snapPlanG i2 n := by
    simp only [snapPlanG, ensureInitG_congr (n := n) h]
  unfold execG
  simp only [hp, hs, hnw, planG_broken i1 i2]

/-! ### The floor-aware initialiser on a disk whose block 0 is retained -/

theorem oldestRetained_zero {d : Disk} (h : (d (.commit 0)).isSome = true) (fuel : Nat) :
    oldestRetained d (fuel + 1) 0 = some 0 := by
  simp [oldestRetained, h]

theorem scanBackP_floor_zero (W : Nat) (d : Disk) : ∀ fuel lo,
    scanBackP W d 0 0 fuel lo = (scanBack W d fuel lo, scanBack W d fuel lo) := by
  intro fuel
  induction fuel with
  | zero =>
    intro lo
    simp only [scanBackP, scanBack]
    split <;> rfl
  | succ fuel ih =>
    intro lo
    simp only [scanBackP, scanBack]
    split
    · rfl
    · by_cases h0 : lo = 0
      · subst h0; simp
      · have : ¬ lo ≤ 0 := by omega
        simp only [this, h0, if_false]
        exact ih (lo - W)

theorem wstart_zero (W : Nat) : wstart W 0 = 0 := by simp [wstart]

/-- `pruner.InitializeRunningEventFilter` is `core.InitializeRunningEventFilter` on every disk
whose genesis block is retained (or that is empty). -/
theorem initFilterP_of_unpruned (W : Nat) {d : Disk}
    (h : getHeight d ≠ none → (d (.commit 0)).isSome = true) : initFilterP W d = initFilter W d := by
  unfold initFilterP initFilter
  cases hh : getHeight d with
  | none => rfl
  | some latest =>
    have h0 := h (by rw [hh]; simp)
    simp only [oldestRetained_zero h0, Option.getD_some, wstart_zero, scanBackP_floor_zero,
      Nat.max_zero, rebuild]

theorem initFilterPNW_of_unpruned (W : Nat) {d : Disk}
    (h : getHeight d ≠ none → (d (.commit 0)).isSome = true) : initFilterPNW W d = initFilterNW W d := by
  unfold initFilterPNW initFilterNW
  cases hh : getHeight d with
  | none => rfl
  | some latest =>
    have h0 := h (by rw [hh]; simp)
    simp only [oldestRetained_zero h0, Option.getD_some, wstart_zero, scanBackP_floor_zero,
      Nat.max_zero]

theorem initNeedsWriteP_of_unpruned (W : Nat) {d : Disk}
    (h : getHeight d ≠ none → (d (.commit 0)).isSome = true) : initNeedsWriteP W d = initNeedsWrite W d := by
  unfold initNeedsWriteP initNeedsWrite
  rw [initFilterP_of_unpruned W h, initFilterPNW_of_unpruned W h]

theorem unpruned_of_coh {c : List Block} {d : Disk} (hc : Coh c d) :
    getHeight d ≠ none → (d (.commit 0)).isSome = true := by
  intro hh
  have hne : c.length ≠ 0 := by
    intro e
    rw [hc.height, if_pos e] at hh
    exact hh rfl
  rw [hc.commit 0, if_pos (by omega)]
  rfl

/-- On a never-pruned image the call as `blockchain.New` wires it (floor-aware initialiser) IS the
call the theorems of rounds 1-4 are about. -/
theorem execP_eq_exec_of_coh (W : Nat) (fx : Fixes) {c : List Block} {n : Node} (hc : Coh c n.disk)
    (op : Op) (ft : Fault) : execP W fx n op ft = exec W fx n op ft := by
  unfold execP
  rw [← execG_initFilter]
  exact execG_congr W fx (initFilterP_of_unpruned W (unpruned_of_coh hc))
    (initNeedsWriteP_of_unpruned W (unpruned_of_coh hc)) op ft

/-- … hence for every history without prune, under every fault schedule and code variant. -/
theorem runP_eq_run (W : Nat) (fx : Fixes) : ∀ (hs : List (Op × Fault)) (n : Node),
    CInv n → ValidHist W fx n hs → runP W fx n hs = run W fx n hs := by
  intro hs
  induction hs with
  | nil => intro n _ _; rfl
  | cons x rest ih =>
    intro n hi hv
    obtain ⟨op, ft⟩ := x
    obtain ⟨c, _, hc⟩ := id hi
    simp only [ValidHist] at hv
    simp only [runP, run, execP_eq_exec_of_coh W fx hc]
    apply ih _ _ hv.2
    have hp : ∀ e, op ≠ .prune e := by
      intro e he; subst he; exact hv.1
    apply exec_cinv W fx n op ft _ hp hi
    intro b hb
    subst hb
    exact hv.1

end Juno.C05
