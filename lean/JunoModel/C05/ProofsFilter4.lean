import JunoModel.C05.ProofsFilter3
/-! Helper lemmas for C05, part 9: a Store from a good node — completed, or interrupted by a crash
at any point — leaves a good node. -/
namespace Juno.C05

/-- Window `w` has no false negative for the blocks of `c` in `[lo, lo+W)`. -/
def SoundWin (W : Nat) (c : List Block) (lo : Nat) (w : Win) : Prop :=
  w.lo = lo ∧ ∀ b i, lo ≤ b → b < lo + W → bitIn c b i → w.has b i = true

/-- `d'` differs from `d` only in persisted windows, and every window it changed is a complete,
sound window of `c`. -/
structure WinsGrow (W : Nat) (c : List Block) (d d' : Disk) : Prop where
  others : ∀ key, (∀ lo, key ≠ .win lo) → d' key = d key
  wins : ∀ lo, d' (.win lo) = d (.win lo) ∨
    (lo % W = 0 ∧ lo + W ≤ c.length ∧ ∃ w, d' (.win lo) = some (.win w) ∧ SoundWin W c lo w)

theorem winsGrow_refl (W : Nat) (c : List Block) (d : Disk) : WinsGrow W c d d :=
  ⟨fun _ _ => rfl, fun _ => Or.inl rfl⟩

theorem winsGrow_trans {W : Nat} {c : List Block} {d1 d2 d3 : Disk}
    (h12 : WinsGrow W c d1 d2) (h23 : WinsGrow W c d2 d3) : WinsGrow W c d1 d3 := by
  refine ⟨fun k hk => by rw [h23.others k hk, h12.others k hk], ?_⟩
  intro lo
  rcases h23.wins lo with h | h
  · rw [h]; exact h12.wins lo
  · exact Or.inr h

theorem bitIn_of_take {c : List Block} {k b i : Nat} (hb : b < k) (h : bitIn c b i) :
    bitIn (c.take k) b i := by
  obtain ⟨blk, hg, hi⟩ := h
  refine ⟨blk, ?_, hi⟩
  rw [List.getElem?_take]; simp [hb, hg]

theorem winsOK_grow {W : Nat} {c : List Block} {d d' : Disk} (hw : WinsOK W c d)
    (hg : WinsGrow W c d d') : WinsOK W c d' := by
  constructor
  · intro lo
    rcases hg.wins lo with h | ⟨h1, h2, w, hw', _⟩
    · simp only [getWin, h]; exact hw.exist lo
    · simp only [getWin, hw']; simp [h1, h2]
  · intro lo w hget
    rcases hg.wins lo with h | ⟨_, _, w', hw', hs⟩
    · apply hw.sound lo w; simp only [getWin, ← h]; exact hget
    · simp only [getWin, hw'] at hget
      cases hget
      exact hs

/-- `fill` with its effect on the disk. -/
theorem fill_grow {W : Nat} (hW : 0 < W) {c : List Block} (hwf : WfChain c) :
    ∀ (cnt k : Nat) (f : Filt) (d : Disk), k + cnt = c.length →
      (∀ n, getBlk d (.header n) = c[n]?) → FiltOK W (c.take k) f →
      ∃ f' d', fill W cnt k f d = some (f', d') ∧ FiltOK W c f' ∧ WinsGrow W c d d' := by
  intro cnt
  induction cnt with
  | zero =>
    intro k f d hk _ hf
    refine ⟨f, d, rfl, ?_, winsGrow_refl W c d⟩
    have : c.take k = c := List.take_of_length_le (by omega)
    rw [this] at hf; exact hf
  | succ cnt ih =>
    intro k f d hk hhdr hf
    have hklt : k < c.length := by omega
    have hx : c[k]? = some c[k] := List.getElem?_eq_getElem hklt
    have hlen : (c.take k).length = k := by rw [List.length_take]; omega
    have hnum : (c[k]).num = (c.take k).length := by
      rw [hlen]; exact hwf.num k _ hx
    obtain ⟨f', ws, hins, hf', hws⟩ := insert_filtOK hW hf hnum
    rw [hlen] at hnum hws
    rw [← take_succ_eq hx] at hf' hws
    simp only [fill, hhdr k, hx]
    rw [hnum] at hins
    rw [hins]
    have haux := insert_onlyAux hins
    rcases hws with ⟨rfl, _⟩ | ⟨w', rfl, hmod, hwlo, hsound⟩
    · exact ih (k + 1) f' d (by omega) hhdr hf'
    · -- rollover: the complete window [wstart k, k] is written
      have hhdr' : ∀ n, getBlk (applyBatch d [Write.put (.win (wstart W k)) (.win w')]) (.header n) = c[n]? := by
        intro n
        have : applyBatch d [Write.put (.win (wstart W k)) (.win w')] (.header n) = d (.header n) :=
          applyBatch_onlyAux haux d trivial
        simp only [getBlk, this]; exact hhdr n
      obtain ⟨f2, d2, hfill, hf2, hg2⟩ := ih (k + 1) f' _ (by omega) hhdr' hf'
      refine ⟨f2, d2, hfill, hf2, winsGrow_trans ?_ hg2⟩
      have hend : wstart W k + W = k + 1 := by
        have h1 := wstart_of_mod_zero hmod
        rcases wstart_succ hW k with ⟨ha, _⟩ | ⟨_, hb⟩
        · omega
        · have := wstart_le W k; have := lt_wstart_add hW k; omega
      refine ⟨?_, ?_⟩
      · intro key hkey
        simp only [applyBatch, List.foldl_cons, List.foldl_nil, applyW]
        have : key ≠ .win (wstart W k) := hkey _
        simp [this]
      · intro lo
        by_cases e : lo = wstart W k
        · subst e
          refine Or.inr ⟨wstart_mod _, by omega, w', by simp [applyBatch, applyW], hwlo, ?_⟩
          intro b i h1 h2 hb
          exact hsound b i h1 h2 (bitIn_of_take (by omega) hb)
        · left
          simp only [applyBatch, List.foldl_cons, List.foldl_nil, applyW]
          have : Key.win lo ≠ .win (wstart W k) := by intro h; cases h; exact e rfl
          simp [this]

/-- `initFilter_good` with the effect on the disk. -/
theorem initFilter_grow {W : Nat} (hW : 0 < W) {c : List Block} {d : Disk} (hwf : WfChain c)
    (hc : Coh c d) (hw : WinsOK W c d) (hs : SnapOK W c d) :
    ∃ f d', initFilter W d = some (f, d') ∧ FiltOK W c f ∧ WinsGrow W c d d' := by
  have hhdr := getBlk_header_of_coh hc
  unfold initFilter
  rw [hc.height]
  by_cases hne : c.length = 0
  · have : c = [] := List.eq_nil_of_length_eq_zero hne
    subst this
    refine ⟨_, _, rfl, ⟨rfl, by simp [Win.empty, wstart], ?_⟩, winsGrow_refl _ _ _⟩
    intro b i _ h2; simp at h2
  · simp only [hne, if_false]
    have hL : c.length - 1 + 1 = c.length := by omega
    have rebuild_ok : ∃ f d', rebuild W d (c.length - 1) = some (f, d') ∧ FiltOK W c f ∧ WinsGrow W c d d' := by
      unfold rebuild
      simp only [scanBack_good hW hw hne, hL]
      have hle := wstart_le W c.length
      apply fill_grow hW hwf _ _ _ _ (by omega) hhdr
      have hlen : (c.take (wstart W c.length)).length = wstart W c.length := by
        rw [List.length_take]; omega
      refine ⟨by rw [hlen], ?_, ?_⟩
      · rw [hlen]; simp only [Win.empty]
        exact (wstart_of_mod_zero (wstart_mod _)).symm
      · intro b i h1 h2 _
        rw [hlen] at h2
        simp only [Win.empty] at h1
        omega
    unfold SnapOK at hs
    split
    · rename_i w nx hsn
      rw [hsn] at hs
      obtain ⟨hnx, hlo, hsound⟩ := hs
      split
      · rename_i e
        refine ⟨_, _, rfl, ⟨by show nx = _; omega, by show w.lo = _; rw [hlo]; congr 1; omega, ?_⟩, winsGrow_refl _ _ _⟩
        intro b i h1 h2 hb
        exact hsound b i h1 (by omega) hb
      · split
        · rename_i hgap
          have hlen : (c.take nx).length = nx := by rw [List.length_take]; omega
          apply fill_grow hW hwf _ _ _ _ (by omega) hhdr
          refine ⟨by rw [hlen], by rw [hlen]; exact hlo, ?_⟩
          intro b i h1 h2 hb
          rw [hlen] at h2
          exact hsound b i h1 h2 (bitIn_take hb)
        · exact rebuild_ok
    · exact rebuild_ok

/-- The disk part of `Good` survives a `WinsGrow` step. -/
theorem good_disk_grow {W : Nat} {c : List Block} {d d' : Disk} (hc : Coh c d) (hw : WinsOK W c d)
    (hs : SnapOK W c d) (hg : WinsGrow W c d d') : Coh c d' ∧ WinsOK W c d' ∧ SnapOK W c d' := by
  refine ⟨coh_of_eq_chainKeys hc ?_, winsOK_grow hw hg, ?_⟩
  · intro k hk
    apply hg.others
    intro lo e; subst e; exact hk
  · unfold SnapOK
    rw [hg.others .snap (by intro lo; simp)]
    exact hs

/-- A lazy filter initialisation on a good node gives a good node with a live filter. -/
theorem ensureInit_good' {W : Nat} (hW : 0 < W) {c : List Block} {n : Node} (hg : Good W c n) :
    Good W c (ensureInit W n) ∧ ∃ f, (ensureInit W n).mem = .ready f ∧ FiltOK W c f := by
  unfold ensureInit
  cases hm : n.mem with
  | lazy =>
    obtain ⟨f, d', hi, hf, hgr⟩ := initFilter_grow hW hg.wf hg.coh hg.wins hg.snap
    simp only [hi]
    obtain ⟨h1, h2, h3⟩ := good_disk_grow hg.coh hg.wins hg.snap hgr
    exact ⟨⟨hg.wf, h1, h2, h3, hf⟩, f, rfl, hf⟩
  | ready f =>
    have := hg.mem
    rw [hm] at this
    refine ⟨?_, f, by simp [hm], this⟩
    exact hg
  | broken =>
    have := hg.mem
    rw [hm] at this
    exact absurd this (by simp [MemOK])

theorem getWin_congr {d d' : Disk} {lo : Nat} (h : d' (.win lo) = d (.win lo)) :
    getWin d' lo = getWin d lo := by
  simp [getWin, h]

theorem bitIn_of_append_lt {c : List Block} {x : Block} {b i : Nat} (hb : b < c.length)
    (h : bitIn (c ++ [x]) b i) : bitIn c b i := by
  rcases bitIn_append h with h' | ⟨e, _⟩
  · exact h'
  · omega

/-- A Store from a good node — completed or cut short by a crash after its commit — leaves a
good node for the extended chain. -/
theorem store_good {W : Nat} (hW : 0 < W) (fx : Fixes) {c : List Block} {n : Node} {b : Block}
    (hg : Good W c n) (hn : NextBlock c n.disk b) (ft : Fault)
    (hft : ft = .none ∨ ∃ k, ft = .crashAfter k) :
    Good W (c ++ [b]) (exec W fx n (.store b) ft).1 := by
  obtain ⟨hg1, f, hmem, hf⟩ := ensureInit_good' hW hg
  have hck := ensureInit_chainKeys W n
  have hn1 : NextBlock c (ensureInit W n).disk b :=
    ⟨hn.num, hn.parent, hn.oldRoot, hn.newRoot, fresh_congr hck hn.fresh⟩
  obtain ⟨f', ws, hins, hf', hws⟩ := insert_filtOK hW hf hn.num
  have hen := expectedNext_of_coh hg.coh
  have h1 : ¬ (expectedNext n.disk).1 ≠ b.num := by rw [hen, hn.num]; simp
  have h2 : ¬ (expectedNext n.disk).2 ≠ b.parent := by rw [hen, hn.parent]; simp
  have h3 : ¬ stateRoot n.disk ≠ b.oldRoot := by rw [hg.coh.state, hn.oldRoot]; simp
  have h4 : ¬ b.applied ≠ b.root := by rw [hn.newRoot]; simp
  have haux := insert_onlyAux hins
  have hnd := hn.fresh.2.2
  -- the disk after the commit
  have hdisk : (exec W fx n (.store b) ft).1.disk = applyBatch (ensureInit W n).disk (blockWrites b ++ ws) := by
    cases ft with
    | none => simp only [exec, plan, storePlan, h1, h2, h3, h4, if_false, hmem, hins, applyCommits,
        List.foldl_cons, List.foldl_nil]
    | failAt k => rcases hft with h | ⟨_, h⟩ <;> cases h
    | failInit => rcases hft with h | ⟨_, h⟩ <;> cases h
    | crashInit => rcases hft with h | ⟨_, h⟩ <;> cases h
    | crashAfter k => simp only [exec, plan, storePlan, h1, h2, h3, h4, if_false, hmem, hins, applyCommits,
        List.take_succ_cons, List.take_nil, List.foldl_cons, List.foldl_nil]
  have hmemOK : MemOK W (c ++ [b]) (exec W fx n (.store b) ft).1.mem := by
    cases ft with
    | none =>
      simp only [exec, plan, storePlan, h1, h2, h3, h4, if_false, hmem, hins, memAfter]
      exact hf'
    | failAt k => rcases hft with h | ⟨_, h⟩ <;> cases h
    | failInit => rcases hft with h | ⟨_, h⟩ <;> cases h
    | crashInit => rcases hft with h | ⟨_, h⟩ <;> cases h
    | crashAfter k => simp [exec, MemOK]
  -- lookups of window / snapshot keys after the batch
  have hwin : ∀ lo, applyBatch (ensureInit W n).disk (blockWrites b ++ ws) (.win lo) =
      applyBatch (ensureInit W n).disk ws (.win lo) := by
    intro lo
    rw [applyBatch_append]
    rcases hws with ⟨rfl, _⟩ | ⟨w', rfl, _⟩
    · simp only [applyBatch_nil]; rw [blockWrites_lookup _ b hnd]
    · simp only [applyBatch, List.foldl_cons, List.foldl_nil, applyW]
      split
      · rfl
      · have := blockWrites_lookup (ensureInit W n).disk b hnd (.win lo)
        simp only [applyBatch] at this; exact this
  have hsnap : applyBatch (ensureInit W n).disk (blockWrites b ++ ws) .snap = (ensureInit W n).disk .snap := by
    rw [applyBatch_append]
    have h0 : applyBatch (ensureInit W n).disk (blockWrites b) .snap = (ensureInit W n).disk .snap := by
      rw [blockWrites_lookup _ b hnd]
    rcases hws with ⟨rfl, _⟩ | ⟨w', rfl, _⟩
    · simp only [applyBatch_nil]; exact h0
    · simp only [applyBatch, List.foldl_cons, List.foldl_nil, applyW] at h0 ⊢
      simp [h0]
  have hlenc : (c ++ [b]).length = c.length + 1 := by simp
  refine ⟨wf_append hg1.wf hg1.coh hn1, by rw [hdisk]; exact coh_append hg1.coh hn1 haux, ?_, ?_, hmemOK⟩
  · -- persisted windows
    rw [hdisk]
    have hold := hg1.wins
    constructor
    · intro lo
      simp only [getWin, hwin lo, hlenc]
      rcases hws with ⟨rfl, hmod⟩ | ⟨w', rfl, hmod, _, _⟩
      · simp only [applyBatch_nil]
        have := hold.exist lo
        simp only [getWin] at this
        rw [this]
        constructor
        · rintro ⟨a, b'⟩; exact ⟨a, by omega⟩
        · rintro ⟨a, b'⟩
          refine ⟨a, ?_⟩
          by_cases e : lo + W = c.length + 1
          · exfalso; apply hmod
            have : (c.length + 1) % W = (lo + W) % W := by rw [e]
            rw [this, Nat.add_mod_right]; exact a
          · omega
      · simp only [applyBatch, List.foldl_cons, List.foldl_nil, applyW]
        have hend : wstart W c.length + W = c.length + 1 := by
          have h1 := wstart_of_mod_zero hmod
          rcases wstart_succ hW c.length with ⟨ha, _⟩ | ⟨_, hb⟩
          · omega
          · have := wstart_le W c.length; have := lt_wstart_add hW c.length; omega
        by_cases e : lo = wstart W c.length
        · subst e; simp [wstart_mod, hend]
        · have hne : Key.win lo ≠ .win (wstart W c.length) := by intro h; cases h; exact e rfl
          simp only [hne, if_false]
          have := hold.exist lo
          simp only [getWin] at this
          rw [this]
          constructor
          · rintro ⟨a, b'⟩; exact ⟨a, by omega⟩
          · rintro ⟨a, b'⟩
            refine ⟨a, ?_⟩
            by_cases e2 : lo + W = c.length + 1
            · exfalso; apply e
              have h5 := wstart_le W c.length
              have h6 := lt_wstart_add hW c.length
              -- two window starts with the same end are equal
              omega
            · omega
    · intro lo w hget
      rw [getWin_congr (hwin lo)] at hget
      have oldcase : ∀ w0, getWin (ensureInit W n).disk lo = some w0 →
          w0.lo = lo ∧ ∀ x i, lo ≤ x → x < lo + W → bitIn (c ++ [b]) x i → w0.has x i = true := by
        intro w0 h0
        have hex : (getWin (ensureInit W n).disk lo).isSome = true := by rw [h0]; rfl
        have hcomp := (hold.exist lo).mp hex
        obtain ⟨hl, hs⟩ := hold.sound lo w0 h0
        refine ⟨hl, ?_⟩
        intro x i h1 h2 hb
        exact hs x i h1 h2 (bitIn_of_append_lt (by omega) hb)
      rcases hws with ⟨rfl, _⟩ | ⟨w', rfl, hmod, hwlo, hsound⟩
      · exact oldcase w hget
      · by_cases e : lo = wstart W c.length
        · subst e
          have : getWin (applyBatch (ensureInit W n).disk
              [Write.put (.win (wstart W c.length)) (.win w')]) (wstart W c.length) = some w' := by
            simp [getWin, applyBatch, applyW]
          rw [this] at hget
          cases hget
          exact ⟨hwlo, hsound⟩
        · have hne : Key.win lo ≠ .win (wstart W c.length) := by intro h; cases h; exact e rfl
          have : getWin (applyBatch (ensureInit W n).disk
              [Write.put (.win (wstart W c.length)) (.win w')]) lo = getWin (ensureInit W n).disk lo := by
            apply getWin_congr
            simp [applyBatch, applyW, hne]
          rw [this] at hget
          exact oldcase w hget
  · -- snapshot
    rw [hdisk]
    have hthis := hg1.snap
    unfold SnapOK at hthis ⊢
    rw [hsnap]
    cases hsn : (ensureInit W n).disk .snap with
    | none => trivial
    | some v =>
      rw [hsn] at hthis
      cases v with
      | snap w nx =>
        obtain ⟨h1', h2', h3'⟩ := hthis
        refine ⟨by rw [hlenc]; omega, h2', ?_⟩
        intro x i hx1 hx2 hb
        exact h3' x i hx1 hx2 (bitIn_of_append_lt (by omega) hb)
      | num x => exact hthis
      | blk x => exact hthis
      | idx x y => exact hthis
      | win x => exact hthis

end Juno.C05
