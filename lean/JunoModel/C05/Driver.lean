import JunoModel.Common.Proto
import JunoModel.C05.Model
import JunoModel.C05.ModelSvc
import Std.Data.HashMap
/-! Line-protocol driver for the C05 model (`lake build c05drv`).

Requests (one per line; `F` is a fault: `-` none, `f<k>` fail the k-th commit of the call,
`c<k>` crash after the k-th commit of the call, `i` the lazy initialisation's write fails, `ci` crash
after that write):

* `cfg <W> <abcd[p]>`                        new empty node with window size W; a,b,c,d ∈ {0,1}: which
                                             repairs (`Fixes`) the code under test contains; p = 1: the
                                             node uses the floor-aware filter initialiser (calls = `execP`,
                                             the default wiring of `blockchain.New`), p = 0 / absent: `exec`
* `blk <num> <hash> <parent> <root> <oldroot> <applied> <bits> <txs>`   append a block to the base chain
* `base <s|-> [F]`                           node := canonical image of the base chain (graceful
                                             shutdown snapshot at next = s, or none), pruned below F
                                             (default 0 = never pruned), lazy memory
* `store <num> <hash> <parent> <root> <oldroot> <applied> <bits> <txs> F`
* `revert F` | `l1head <v> F` | `snap F` | `restart F` | `kill` | `prune <end> F`
* `l1event <l1> <R> F`   `Pruner.onNewL1Head(l1)` of a pruner with numRetainedBlocks = R: raises the
                         shared retention floor, then `PruneUpto(l1-R)` (a sixth `cfg` flag w = 1: the
                         node is wired as node.New does — floor shared and seeded at process start)
* `l2events <R> <per> <n1,n2,…> F`   a NEW `Pruner` (numRetainedBlocks R, l2HeadsPerPrune per, counter 0)
                         receives these L2-head events one after the other (`Pruner.onNewBlock`: guards,
                         stale-event check, counter, `pruneUpto(num-R)`); the fault hits the first event
                         that prunes (`l2Burst`)
* `pfloor`               the in-memory retention floor (`-` = unseeded)
* `served <k>`           does `StateAtBlockNumber(k)` hand out a reader (`y` / `n`)
* `basecheck`  compares the closed-form base image with the fold of the model's own store writes
* `touchp` | `initp` | `initpbits`   the same for a pruning node (`pruner.InitializeRunningEventFilter`)
* `floor`      OldestRetainedBlock;  `ncommits prune <e>`  how many batches `prune e` would write
* `touch`      any access to the running filter (initialises a lazy one)
* `save` | `load`   remember / restore the node (to branch into a crash and come back)
* `obsd`       like `obs` without the memory filter (printed as lazy)
* `obs`        height, state root, memory filter, persisted windows, snapshot, L1 head
* `membits` | `winbits <lo>` | `snapbits`    sorted set cells `block:bit,…`
* `init`       what InitializeRunningEventFilter yields on the present disk (`lo/next` or `err`)
* `initbits`   its cells
* `blkobs <n>` which records exist for block number n
-/
open Juno.Proto Juno.C05

/-- The index maps of the closed form. They are kept in the driver state (not in a `let` next to
the lookup closure: the compiler may move such a `let` under the closure's lambda, which
recomputes the maps at every lookup). -/
structure ChainIdx where
  arr : Array Block
  hashIdx : Std.HashMap Nat Nat
  txIdx : Std.HashMap Nat (Nat × Nat)

structure DState where
  W : Nat
  fx : Fixes
  node : Node
  base : List Block   -- reversed
  saved : Option Node := none
  ix : Option ChainIdx := none
  /-- the `Blockchain` was built with the floor-aware filter initialiser
  (`pruner.InitializeRunningEventFilter`, the default of `blockchain.New`): calls are `execP` -/
  pr : Bool := false
  /-- the shared in-memory retention floor of the process (`none` = unseeded) and whether the node
  is wired as `node.New` does (`WithRetentionFloor` + `Seed` at start, pruner shares it) -/
  floor : Option Nat := none
  wired : Bool := false
  savedFloor : Option Nat := none

def parseNat? (s : String) : Option Nat := s.toNat?

def parseList? (s : String) : Option (List Nat) :=
  if s == "-" then some [] else (s.splitOn ",").mapM (fun x => x.toNat?)

def parseFault? (s : String) : Option Fault :=
  if s == "-" then some .none
  else if s == "i" then some .failInit
  else if s == "ci" then some .crashInit
  else match s.toList with
    | 'f' :: r => (String.ofList r).toNat?.map Fault.failAt
    | 'c' :: r => (String.ofList r).toNat?.map Fault.crashAfter
    | _ => none

def parseBlock? (a : List String) : Option Block :=
  match a with
  | [n, h, p, r, o, a, bits, txs] => do
    let n ← parseNat? n; let h ← parseNat? h; let p ← parseNat? p
    let r ← parseNat? r; let o ← parseNat? o; let a ← parseNat? a
    let bits ← parseList? bits; let txs ← parseList? txs
    pure ⟨n, h, p, r, o, a, bits, txs⟩
  | _ => none

def errStr : Err → String
  | .succession => "succession" | .parent => "parent" | .state => "state" | .notfound => "notfound"
  | .range => "range" | .io => "io" | .init => "init"

def outStr : Out → String
  | .ok => "ok"
  | .err e => "err:" ++ errStr e

def insertSorted (x : Nat × Nat) : List (Nat × Nat) → List (Nat × Nat)
  | [] => [x]
  | y :: ys =>
    if x.1 < y.1 ∨ (x.1 = y.1 ∧ x.2 < y.2) then x :: y :: ys
    else if x = y then y :: ys
    else y :: insertSorted x ys

def cellsStr (cs : List (Nat × Nat)) : String :=
  let sorted := cs.foldl (fun acc c => insertSorted c acc) []
  if sorted.isEmpty then "-" else ",".intercalate (sorted.map (fun c => s!"{c.1}:{c.2}"))

def optNat : Option Nat → String
  | some n => toString n
  | none => "-"

def memStr : Mem → String
  | .lazy => "lazy"
  | .broken => "broken"
  | .ready f => s!"{f.win.lo}/{f.next}"

def winsStr (W : Nat) (d : Disk) : String :=
  let top := match getHeight d with | some h => h / W + 2 | none => 2
  let los := (List.range (top + 1)).filterMap (fun i => if (getWin d (i * W)).isSome then some (i * W) else none)
  if los.isEmpty then "-" else ",".intercalate (los.map toString)

def obsStr (W : Nat) (n : Node) : String :=
  let d := n.disk
  let snap := match d .snap with | some (.snap w nx) => s!"{w.lo}/{nx}" | _ => "-"
  let l1 := match d .l1head with | some (.num v) => toString v | _ => "-"
  s!"h={optNat (getHeight d)} st={stateRoot d} mem={memStr n.mem} wins={winsStr W d} snap={snap} l1={l1}"

/-- canonical image of a chain (see `base`). -/
def chainWrites (c : List Block) : List Write := c.flatMap blockWrites

def winOfChain (W : Nat) (c : List Block) (lo : Nat) : Win :=
  ⟨lo, (c.filter (fun b => lo ≤ b.num ∧ b.num < lo + W)).reverse.flatMap (fun b => b.bits.map (fun i => (b.num, i)))⟩

/-- Closed form of `applyBatch Disk.empty (chainWrites c)` for a chain whose block hashes and
transaction hashes are distinct: O(1) lookups instead of a closure per write (the base chain of a
window-boundary history has 8190 blocks). `basecheck` compares the two on every key of a chain. -/
def chainLookup (c : Array Block) (hashIdx : Std.HashMap Nat Nat) (txIdx : Std.HashMap Nat (Nat × Nat))
    (k : Key) : Option Val :=
  match k with
  | .height => if c.size = 0 then none else some (.num (c.size - 1))
  | .header n => c[n]?.map .blk
  | .numByHash h => hashIdx[h]?.map .num
  | .txs n => c[n]?.map .blk
  | .su n => c[n]?.map .blk
  | .commit n => if n < c.size then some (.num n) else none
  | .txLookup t => txIdx[t]?.map (fun x => .idx x.1 x.2)
  | .state => c.back?.map (fun b => .num b.root)
  | _ => none

/-- Closed form of the image of the chain pruned below `F` by ONE `PruneUpto(F)` from a never-pruned
node (header lag `lag`; the persisted windows are added by `overlay`): what `PCoh` describes. `F = 0`
is `chainLookup`. `basecheck` compares it with the model's own prune on every key of a short chain. -/
def chainLookupP (F lag : Nat) (c : Array Block) (hashIdx : Std.HashMap Nat Nat)
    (txIdx : Std.HashMap Nat (Nat × Nat)) (k : Key) : Option Val :=
  match k with
  | .height => if c.size = 0 then none else some (.num (c.size - 1))
  | .header n => if n + lag < F then none else c[n]?.map .blk
  | .numByHash h => (hashIdx[h]?).bind (fun n => if n + 1 < F then none else some (.num n))
  | .txs n => if n < F then none else c[n]?.map .blk
  | .su n => if n < F then none else c[n]?.map .blk
  | .commit n => if F ≤ n ∧ n < c.size then some (.num n) else none
  | .txLookup t => (txIdx[t]?).bind (fun x => if x.1 < F then none else some (.idx x.1 x.2))
  | .state => c.back?.map (fun b => .num b.root)
  | _ => none

@[noinline] def mkChainIdx (c : List Block) : ChainIdx :=
  let arr := c.toArray
  { arr := arr
    hashIdx := arr.foldl (fun m b => m.insert b.hash b.num) {}
    txIdx := arr.foldl (fun m b => (b.txs.foldl (fun (acc : Std.HashMap Nat (Nat × Nat) × Nat) t => (acc.1.insert t (b.num, acc.2), acc.2 + 1)) (m, 0)).1) {} }

def chainDiskFast (ix : ChainIdx) : Disk := chainLookup ix.arr ix.hashIdx ix.txIdx

def chainDiskFastP (F : Nat) (ix : ChainIdx) : Disk := chainLookupP F blockHashLag ix.arr ix.hashIdx ix.txIdx

def chainKeys (W : Nat) (c : List Block) : List Key :=
  [.height, .state, .snap, .l1head]
  ++ (List.range (c.length + 2)).flatMap (fun n => [.header n, .txs n, .su n, .commit n, .win (n * W)])
  ++ c.flatMap (fun b => .numByHash b.hash :: b.txs.map .txLookup)

structure Boxed where
  disk : Disk

/-- Windows of the complete windows and the snapshot on top of the chain image. Every choice is
made on `Boxed` values, never on bare `Disk` functions (see `ChainIdx`). -/
def overlay (W : Nat) (c : List Block) (snap : Option Nat) (d : Disk) (F : Nat := 0) : Boxed :=
  let full := c.length / W
  let ws : List Write := ((List.range full).filter (fun i => decide (wstart W F ≤ i * W))).map
    (fun i => .put (.win (i * W)) (.win (winOfChain W c (i * W))))
  let ws := match snap with
    | none => ws
    | some s => ws ++ [.put .snap (.snap (winOfChain W (c.take s) (wstart W s)) s)]
  ⟨applyBatch d ws⟩

def baseDisk (W : Nat) (c : List Block) (ix : ChainIdx) (snap : Option Nat) (F : Nat := 0) : Boxed :=
  match decide (c.length ≤ 64 ∧ F = 0) with
  | true => overlay W c snap (applyBatch Disk.empty (chainWrites c))
  | false => overlay W c snap (chainDiskFastP F ix) F

/-- The model's own image of the chain pruned below `F` in one batch (for `basecheck`). -/
def prunedByModel (W : Nat) (c : List Block) (F : Nat) : Disk :=
  let d := applyBatch Disk.empty (chainWrites c)
  applyCommits d (prunePlanThr W ⟨d, .lazy⟩ F (fun _ _ => false)).commits

def doOp (s : DState) (op : Op) (ft : Fault) : DState × String :=
  if s.pr then
    let (pn, o) := pexec true s.W s.fx ⟨s.node, s.floor, s.wired⟩ (.call op) ft
    ({ s with node := pn.node, floor := pn.floor }, outStr o)
  else
    let (n', o) := exec s.W s.fx s.node op ft
    ({ s with node := n' }, outStr o)

def flag? (c : Char) : Option Bool := if c == '1' then some true else if c == '0' then some false else none

def step (s : DState) (line : String) : DState × String :=
  match words line with
  | ["cfg", w, fxs] =>
    match parseNat? w, fxs.toList with
    | some w, [a, b, c, e] =>
      match flag? a, flag? b, flag? c, flag? e with
      | some a, some b, some c, some e =>
        if w = 0 then (s, "bad-op") else (⟨w, ⟨a, b, c, e⟩, Node.init, [], none, none, false, none, false, none⟩, "ok")
      | _, _, _, _ => (s, "bad-op")
    | some w, [a, b, c, e, p] =>
      match flag? a, flag? b, flag? c, flag? e, flag? p with
      | some a, some b, some c, some e, some p =>
        if w = 0 then (s, "bad-op") else (⟨w, ⟨a, b, c, e⟩, Node.init, [], none, none, p, none, false, none⟩, "ok")
      | _, _, _, _, _ => (s, "bad-op")
    | some w, [a, b, c, e, p, wi] =>
      match flag? a, flag? b, flag? c, flag? e, flag? p, flag? wi with
      | some a, some b, some c, some e, some p, some wi =>
        if w = 0 then (s, "bad-op")
        else (⟨w, ⟨a, b, c, e⟩, Node.init, [], none, none, p, freshFloor wi Node.init.disk, wi, none⟩, "ok")
      | _, _, _, _, _, _ => (s, "bad-op")
    | _, _ => (s, "bad-op")
  | "blk" :: rest =>
    match parseBlock? rest with
    | some b => ({ s with base := b :: s.base }, "ok")
    | none => (s, "bad-op")
  | "base" :: sn :: rest =>
    let c := s.base.reverse
    let snap : Option (Option Nat) := if sn == "-" then some none else (parseNat? sn).map some
    let fl : Option Nat := match rest with | [] => some 0 | [f] => parseNat? f | _ => none
    match snap, fl with
    | some sp, some F =>
      let ix := mkChainIdx c
      let bd := baseDisk s.W c ix sp F
      ({ s with node := ⟨bd.disk, .lazy⟩, base := [], ix := some ix, floor := freshFloor s.wired bd.disk }, "ok")
    | _, _ => (s, "bad-op")
  | ["basecheck"] =>
    let c := s.base.reverse
    let d1 := applyBatch Disk.empty (chainWrites c)
    let ix := mkChainIdx c
    let d2 := chainDiskFast ix
    let keys := chainKeys s.W c
    let plain := keys.all (fun k => d1 k == d2 k)
    -- the pruned closed form against the model's own single-batch prune, every floor below the head
    let pruned := (List.range c.length).all (fun F =>
      let dm := prunedByModel s.W c F
      let df := chainDiskFastP F ix
      keys.all (fun k => match k with | .win _ => true | _ => dm k == df k))
    (s, if plain && pruned then "same" else "differ")
  | "store" :: rest =>
    match rest.getLast?, parseBlock? rest.dropLast with
    | some f, some b =>
      match parseFault? f with
      | some ft => doOp s (.store b) ft
      | none => (s, "bad-op")
    | _, _ => (s, "bad-op")
  | ["revert", f] => match parseFault? f with | some ft => doOp s .revert ft | none => (s, "bad-op")
  | ["snap", f] => match parseFault? f with | some ft => doOp s .snap ft | none => (s, "bad-op")
  | ["restart", f] => match parseFault? f with | some ft => doOp s .restart ft | none => (s, "bad-op")
  | ["kill"] => doOp s .kill .none
  | ["l1head", v, f] =>
    match parseNat? v, parseFault? f with
    | some v, some ft => doOp s (.l1head v) ft
    | _, _ => (s, "bad-op")
  | ["prune", e, f] =>
    match parseNat? e, parseFault? f with
    | some e, some ft => doOp s (.prune e) ft
    | _, _ => (s, "bad-op")
  | ["touch"] =>
    ({ s with node := if s.pr then ensureInitG (initFilterP s.W) s.node else ensureInit s.W s.node }, "ok")
  | ["touchp"] => ({ s with node := ensureInitP s.W s.node }, "ok")
  | ["initp"] =>
    (s, match initFilterP s.W s.node.disk with | some (f, _) => s!"{f.win.lo}/{f.next}" | none => "err")
  | ["initpbits"] =>
    (s, match initFilterP s.W s.node.disk with | some (f, _) => cellsStr f.win.cells | none => "err")
  | ["floor"] =>
    (s, match getHeight s.node.disk with
        | some h => optNat (oldestRetained s.node.disk (h + 1) 0)
        | none => "-")
  | ["ncommits", "prune", e] =>
    match parseNat? e with
    | some e => (s, toString (prunePlan s.W s.node e).commits.length)
    | none => (s, "bad-op")
  | ["save"] => ({ s with saved := some s.node, savedFloor := s.floor }, "ok")
  | ["load"] =>
    match s.saved with
    | some n => ({ s with node := n, floor := s.savedFloor }, "ok")
    | none => (s, "bad-op")
  | ["l1event", l1, r, f] =>
    match parseNat? l1, parseNat? r, parseFault? f with
    | some l1, some r, some ft =>
      let (pn, o) := pexec true s.W s.fx ⟨s.node, s.floor, s.wired⟩ (.l1event l1 r) ft
      ({ s with node := pn.node, floor := pn.floor }, outStr o)
    | _, _, _ => (s, "bad-op")
  | ["l2events", r, per, nums, f] =>
    match parseNat? r, parseNat? per, parseList? nums, parseFault? f with
    | some r, some per, some nums, some ft =>
      let (pn, o) := l2Burst s.W s.fx r per nums ⟨s.node, s.floor, s.wired⟩ 0 ft .ok
      ({ s with node := pn.node, floor := pn.floor }, outStr o)
    | _, _, _, _ => (s, "bad-op")
  | ["pfloor"] => (s, optNat s.floor)
  | ["served", k] =>
    match parseNat? k with
    | some k => (s, if stateServed s.floor s.node.disk k then "y" else "n")
    | none => (s, "bad-op")
  | ["obs"] => (s, obsStr s.W s.node)
  | ["obsd"] => (s, obsStr s.W ⟨s.node.disk, .lazy⟩)
  | ["membits"] =>
    (s, match s.node.mem with | .ready f => cellsStr f.win.cells | _ => "-")
  | ["winbits", lo] =>
    match parseNat? lo with
    | some lo => (s, match getWin s.node.disk lo with | some w => cellsStr w.cells | none => "none")
    | none => (s, "bad-op")
  | ["snapbits"] =>
    (s, match s.node.disk .snap with | some (.snap w _) => cellsStr w.cells | _ => "none")
  | ["init"] =>
    (s, match initFilter s.W s.node.disk with | some (f, _) => s!"{f.win.lo}/{f.next}" | none => "err")
  | ["initbits"] =>
    (s, match initFilter s.W s.node.disk with | some (f, _) => cellsStr f.win.cells | none => "err")
  | ["blkobs", n] =>
    match parseNat? n with
    | some n =>
      let d := s.node.disk
      let hdr := match getBlk d (.header n) with | some b => toString b.hash | none => "-"
      let nbh := match getBlk d (.header n) with
        | some b => (match d (.numByHash b.hash) with | some (.num k) => toString k | _ => "-")
        | none => "-"
      let txs := match getBlk d (.txs n) with | some b => toString b.txs.length | none => "-"
      let su := if (d (.su n)).isSome then "y" else "-"
      let cm := if (d (.commit n)).isSome then "y" else "-"
      let txl := match getBlk d (.txs n) with
        | some b => toString (b.txs.filter (fun t => (d (.txLookup t)).isSome)).length
        | none => "-"
      (s, s!"hdr={hdr} nbh={nbh} txs={txs} txl={txl} su={su} cm={cm}")
    | none => (s, "bad-op")
  | _ => (s, "bad-op")

def main : IO Unit := loop step ⟨8192, Fixes.none, Node.init, [], none, none, false, none, false, none⟩
