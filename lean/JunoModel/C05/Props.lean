import JunoModel.C05.Proofs
/-!
C05 — property theorems (statements only; proofs are in `Proofs*.lean`).

Block storage is atomic and crash-consistent at every interruption point. `W` is
`core.NumBlocksPerFilter` (8192 in juno); everything holds for every `W`. `fx` says which of the
proposed repairs the code contains (`Fixes.none` = the tree as it is).
-/
namespace Juno.C05.Props
open Juno.C05

/-! ## Atomicity -/

/-- `op_atomic`: for every call except `prune` (store, revert, set-L1-head, snapshot, restart,
kill), every node state and every fault (failure of any commit, crash after any commit), the disk
image afterwards is the image before the call (`disk0`: the node's disk after a lazy filter
initialisation, which differs from it at most in bloom-window keys) or the image after the
fault-free call. -/
theorem op_atomic (W : Nat) (fx : Fixes) (n : Node) (op : Op) (ft : Fault) (h : ∀ e, op ≠ .prune e) :
    (exec W fx n op ft).1.disk = (plan W fx n op).disk0 ∨
    (exec W fx n op ft).1.disk = (exec W fx n op .none).1.disk :=
  op_atomic_lemma W fx n op ft h

/-- The reason: one batch (or one direct write) per call. -/
theorem one_commit_per_call (W : Nat) (fx : Fixes) (n : Node) (op : Op) (h : ∀ e, op ≠ .prune e) :
    (plan W fx n op).commits.length ≤ 1 :=
  commits_le_one W fx n op h

/-! ## Witnesses: where the unrepaired code breaks the property (window size 2 or 4 so that the
kernel can run them; the harness replays the same histories on the real code with 8192) -/

def b0 : Block := ⟨0, 1, 0, 11, 0, [5], [100]⟩
def b1 : Block := ⟨1, 2, 1, 12, 11, [6], [101]⟩
def b1' : Block := ⟨1, 7, 1, 17, 11, [9], [107]⟩
def b2 : Block := ⟨2, 3, 2, 13, 12, [7], []⟩

/-- L4 (store): a commit failure while storing the last block of a window leaves the in-memory
filter rolled over; the retry of the same block fails with "block number is not within range". -/
theorem failed_store_commit_blocks_retry :
    (exec 2 .none (run 2 .none Node.init [(.store b0, .none), (.store b1, .failAt 0)]) (.store b1) .none).2
      = .err .range := by decide

/-- … and the repaired code stores it. -/
theorem failed_store_commit_retry_ok_when_repaired :
    (exec 2 .all (run 2 .all Node.init [(.store b0, .none), (.store b1, .failAt 0)]) (.store b1) .none).2
      = .ok := by decide

/-- L4 (revert): after a failed RevertHead commit the head block is still on disk but the
in-memory filter has lost its bits (event queries miss the head block's events). -/
theorem failed_revert_commit_loses_head_bits :
    let n := run 4 .none Node.init [(.store b0, .none), (.store b1, .none), (.revert, .failAt 0)]
    getHeight n.disk = some 1 ∧ n.mem.has? 1 6 = some false ∧ n.mem.next? = some 1 := by decide

/-- L15: reverting the last block of a window leaves that window's persisted filter on disk; a
process that dies afterwards rebuilds a filter for the NEXT window and can never store the block
again. -/
theorem crossing_revert_then_crash_blocks_store :
    (exec 2 .none
      (run 2 .none Node.init [(.store b0, .none), (.store b1, .none), (.store b2, .none),
        (.revert, .none), (.revert, .crashAfter 0)]) (.store b1') .none).2 = .err .range := by decide

theorem crossing_revert_then_crash_ok_when_repaired :
    (exec 2 .all
      (run 2 .all Node.init [(.store b0, .none), (.store b1, .none), (.store b2, .none),
        (.revert, .none), (.revert, .crashAfter 0)]) (.store b1') .none).2 = .ok := by decide

/-- L3: the snapshot written at shutdown is trusted after a revert-and-replace of the block below
its `next`: an ungraceful restart yields a filter without the bits of the replacing block. -/
theorem stale_snapshot_after_revert :
    let n := run 4 .none Node.init [(.store b0, .none), (.store b1, .none), (.restart, .none),
      (.revert, .none), (.store b1', .none), (.kill, .none)]
    getHeight n.disk = some 1 ∧ initObs 4 n.disk 1 9 = some (false, 2) := by decide

theorem stale_snapshot_gone_when_repaired :
    let n := run 4 .all Node.init [(.store b0, .none), (.store b1, .none), (.restart, .none),
      (.revert, .none), (.store b1', .none), (.kill, .none)]
    initObs 4 n.disk 1 9 = some (true, 2) := by decide

end Juno.C05.Props
