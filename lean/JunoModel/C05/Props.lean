import JunoModel.C05.ProofsPrune2
/-!
C05 — property theorems (statements only; proofs are in `Proofs*.lean`).

Block storage is atomic and crash-consistent at every interruption point. `W` is
`core.NumBlocksPerFilter` (8192 in juno); everything holds for every `W`. `fx` says which of the
proposed repairs the code contains (`Fixes.none` = the tree as it is).
-/
namespace Juno.C05.Props
open Juno.C05

/-! ## Atomicity -/

/-- `op_atomic`: for every call except `prune` (store, revert, set-L1-head, snapshot, restart,
kill), every node state and every fault (failure of any commit, crash after any commit), the disk
image afterwards is the image before the call (`disk0`: the node's disk after a lazy filter
initialisation, which differs from it at most in bloom-window keys) or the image after the
fault-free call. -/
theorem op_atomic (W : Nat) (fx : Fixes) (n : Node) (op : Op) (ft : Fault) (h : ∀ e, op ≠ .prune e) :
    (exec W fx n op ft).1.disk = (plan W fx n op).disk0 ∨
    (exec W fx n op ft).1.disk = (exec W fx n op .none).1.disk :=
  op_atomic_lemma W fx n op ft h

/-- The reason: one batch (or one direct write) per call. -/
theorem one_commit_per_call (W : Nat) (fx : Fixes) (n : Node) (op : Op) (h : ∀ e, op ≠ .prune e) :
    (plan W fx n op).commits.length ≤ 1 :=
  commits_le_one W fx n op h

/-! ## Every reachable image is coherent -/

/-- `consistent_image`: for every history of store / revert / set-L1-head / snapshot / graceful and
ungraceful restart calls from the empty node, every fault schedule (any commit failing, a crash
after any commit) and every repair variant of the code, the disk image describes exactly one
well-formed chain `c` (`Coh`): height = last block, header / transactions / state update /
commitments present for exactly the blocks of `c`, hash→number and transaction-hash lookups
exactly those of `c` (none dangling), state = the head's. Inputs: stored blocks carry unused
hashes (`ValidHist`); `prune` is treated separately. -/
theorem consistent_image (W : Nat) (fx : Fixes) (hs : List (Op × Fault))
    (hv : ValidHist W fx Node.init hs) :
    ∃ c, WfChain c ∧ Coh c (run W fx Node.init hs).disk :=
  consistent_image_chain W fx hs Node.init cinv_init hv

/-- One call from any coherent node, any fault: the image stays coherent (the invariant step). -/
theorem call_keeps_image_coherent (W : Nat) (fx : Fixes) (n : Node) (op : Op) (ft : Fault)
    (hfresh : ∀ b, op = .store b → Fresh n.disk b) (hp : ∀ e, op ≠ .prune e)
    (hi : ∃ c, WfChain c ∧ Coh c n.disk) :
    ∃ c, WfChain c ∧ Coh c (exec W fx n op ft).1.disk :=
  exec_cinv W fx n op ft hfresh hp hi

/-! ## Restart and the next block

`Good W c n` (ModelSpec): the image describes chain `c` (`Coh`), the persisted bloom windows are
exactly the complete windows of `c`, each without false negatives (`WinsOK`), the persisted
snapshot — if any — describes a prefix of `c` (`SnapOK`), and the in-memory filter is lazy or
describes `c` (`MemOK`).

The full-strength statements (`crash_consistent`, `restart_ok`, `next_block_storable`,
`memory_tracks_disk`, below) are proved for the code as it is now (`Fixes.all`: fix commits
84d7a3b, 702b167, 3373c0b) by showing that `Good` is an invariant of EVERY history and EVERY fault
schedule. For the earlier trees they are false — a failed Store / RevertHead commit left the
memory filter mutated (L4), RevertHead kept a stale snapshot (L3) and the persisted window of a
window that lost its last block (L15): the proved negations at the end are the witnesses, and
`crash_consistent_without_reverts_any_variant` is what holds for every variant. -/

/-- `crash_consistent`: the code as it is now. For EVERY history over {store of any fresh block,
RevertHead, set-L1-head, snapshot, graceful restart, kill} from the empty node and EVERY fault
schedule (failure of any commit, crash after any commit) the node ends good: the image describes
one well-formed chain, exactly the complete bloom windows are persisted and none has a false
negative, the persisted snapshot (if any) describes a prefix of the chain, the in-memory filter is
either dropped or describes the chain. -/
theorem crash_consistent (W : Nat) (hW : 0 < W) (hs : List (Op × Fault))
    (hv : ValidHist W Fixes.all Node.init hs) :
    ∃ c, Good W c (run W Fixes.all Node.init hs) :=
  good_run_repaired hW rfl rfl rfl hs Node.init [] (good_init W hW) hv

/-- `restart_ok`: after any such history and fault schedule, a new process initialises its
running filter successfully and exactly (next = height+1, aligned window, no false negatives). -/
theorem restart_ok (W : Nat) (hW : 0 < W) (hs : List (Op × Fault))
    (hv : ValidHist W Fixes.all Node.init hs) :
    ∃ c f d', Coh c (run W Fixes.all Node.init hs).disk ∧
      initFilter W (run W Fixes.all Node.init hs).disk = some (f, d') ∧ FiltOK W c f := by
  obtain ⟨c, hg⟩ := crash_consistent W hW hs hv
  obtain ⟨f, d', h1, h2⟩ := initFilter_good hW hg.wf hg.coh hg.wins hg.snap
  exact ⟨c, f, d', hg.coh, h1, h2⟩

/-- `next_block_storable`: after any such history and fault schedule — on the live node after a
failed call as well as on a restarted one — the block the network offers next is stored. -/
theorem next_block_storable (W : Nat) (hW : 0 < W) (hs : List (Op × Fault))
    (hv : ValidHist W Fixes.all Node.init hs) :
    ∃ c, Coh c (run W Fixes.all Node.init hs).disk ∧
      ∀ b, NextBlock c (run W Fixes.all Node.init hs).disk b →
        (exec W Fixes.all (run W Fixes.all Node.init hs) (.store b) .none).2 = .ok := by
  obtain ⟨c, hg⟩ := crash_consistent W hW hs hv
  exact ⟨c, hg.coh, fun b hn => store_ok_of_good hW _ hg hn⟩

/-- `memory_tracks_disk`: after every call of any such history, failed or not, the in-memory
running filter is either dropped (rebuilt from the disk on next use) or describes the chain the
disk holds — it never disagrees with the disk. -/
theorem memory_tracks_disk (W : Nat) (hW : 0 < W) (hs : List (Op × Fault))
    (hv : ValidHist W Fixes.all Node.init hs) :
    ∃ c, Coh c (run W Fixes.all Node.init hs).disk ∧ MemOK W c (run W Fixes.all Node.init hs).mem := by
  obtain ⟨c, hg⟩ := crash_consistent W hW hs hv
  exact ⟨c, hg.coh, hg.mem⟩

/-- One RevertHead of the repaired code from a good node, any fault. -/
theorem revert_keeps_good (W : Nat) (hW : 0 < W) (c : List Block) (n : Node) (hg : Good W c n)
    (ft : Fault) : ∃ c', Good W c' (exec W Fixes.all n .revert ft).1 :=
  revert_good hW rfl rfl rfl hg ft



/-- `restart_ok` for good disks: InitializeRunningEventFilter succeeds and yields a filter that
expects block `height+1`, has the aligned window of that block, and has no false negative for any
block of the chain in it — whichever path it takes (snapshot as is, snapshot + fill, rebuild from
the last persisted window). -/
theorem restart_ok_of_good (W : Nat) (hW : 0 < W) (c : List Block) (d : Disk)
    (hwf : WfChain c) (hc : Coh c d) (hw : WinsOK W c d) (hs : SnapOK W c d) :
    ∃ f d', initFilter W d = some (f, d') ∧ FiltOK W c f :=
  initFilter_good hW hwf hc hw hs

/-- `next_block_storable` for good nodes (in particular right after a restart or crash, memory
lazy): Store of the block the network offers next returns ok, the height becomes its number and
its header is readable. -/
theorem next_block_storable_of_good (W : Nat) (hW : 0 < W) (fx : Fixes) (c : List Block) (n : Node)
    (b : Block) (hg : Good W c n) (hn : NextBlock c n.disk b) :
    (exec W fx n (.store b) .none).2 = .ok ∧
      getHeight (exec W fx n (.store b) .none).1.disk = some b.num ∧
      getBlk (exec W fx n (.store b) .none).1.disk (.header b.num) = some b :=
  ⟨store_ok_of_good hW fx hg hn, store_height_of_good hW fx hg hn⟩

/-- The in-memory filter follows a successful Store: from a filter that describes `c`, inserting
the next block gives a filter that describes `c ++ [b]`; exactly at the end of a window the full
window (no false negatives) is handed to the batch. -/
theorem memory_tracks_store (W : Nat) (hW : 0 < W) (c : List Block) (f : Filt) (b : Block)
    (hf : FiltOK W c f) (hb : b.num = c.length) :
    ∃ f' ws, f.insert W b.bits b.num = some (f', ws) ∧ FiltOK W (c ++ [b]) f' ∧
      ((ws = [] ∧ (c.length + 1) % W ≠ 0) ∨
       (∃ w', ws = [.put (.win (wstart W c.length)) (.win w')] ∧ (c.length + 1) % W = 0 ∧
          w'.lo = wstart W c.length ∧
          ∀ x i, wstart W c.length ≤ x → x < wstart W c.length + W → bitIn (c ++ [b]) x i →
            w'.has x i = true)) :=
  insert_filtOK hW hf hb

/-- A Store from a good node — the block the network offers next — completed, or cut short by a
crash right after its commit: the node is good again, for the extended chain (so a restart builds
the right filter and the block after it can be stored: `restart_ok_of_good`,
`next_block_storable_of_good`). Every repair variant. -/
theorem store_keeps_good (W : Nat) (hW : 0 < W) (fx : Fixes) (c : List Block) (n : Node) (b : Block)
    (hg : Good W c n) (hn : NextBlock c n.disk b) (ft : Fault) (hft : ∀ k, ft ≠ .failAt k) :
    Good W (c ++ [b]) (exec W fx n (.store b) ft).1 :=
  store_good hW fx hg hn ft hft

/-- `crash_consistent_without_reverts_any_variant` (also true of the unrepaired trees): every history over {store (any fresh block, also
ones the node must refuse), set-L1-head, snapshot, graceful restart, kill} from the empty node,
with a crash after ANY commit and a failure of ANY snapshot / L1-head write, ends in a good node:
coherent image, exactly the complete windows persisted and sound, snapshot (if any) describing a
prefix of the chain, memory filter lazy or exact. Hence after such a history a restart yields the
right filter and the next block is stored. Partial: no RevertHead / prune in the history and no
failed Store commit (those are where the unrepaired code breaks — witnesses below). -/
theorem crash_consistent_without_reverts_any_variant (W : Nat) (hW : 0 < W) (fx : Fixes)
    (hs : List (Op × Fault)) (hv : ValidHist W fx Node.init hs) (hnr : NoRevert hs)
    (hnf : NoFailedChainCommit hs) :
    ∃ c, Good W c (run W fx Node.init hs) :=
  good_run_no_revert hW fx hs Node.init [] (good_init W hW) hv hnr hnf

-- non-vacuity: the empty node is good for every window size
example (W : Nat) (hW : 0 < W) : Good W [] Node.init := by
  refine ⟨cinv_init_wf, cinv_init_coh, ⟨?_, ?_⟩, ?_, ?_⟩
  · intro lo; simp [getWin, Node.init, Disk.empty]; omega
  · intro lo w h; simp [getWin, Node.init, Disk.empty] at h
  · simp [SnapOK, Node.init, Disk.empty]
  · simp [MemOK, Node.init]

/-! ## Pruning: several batches, each atomic, every image in between well-defined

`PCoh lag c F d` (ProofsPrune): the image describes chain `c` pruned below `F` — blocks at or above
`F` fully present (header, transactions, state update, commitments, hash→number, transaction
lookups), blocks below `F` fully absent, except the pruner's two carve-outs (hash→number of block
`F-1`; headers of the last `lag` blocks below `F`). `PCoh lag c 0 d` is `Coh c d`. -/

/-- `prune_atomic_batches`: `PruneUpto(e)` (sweep of 55da2ac: every batch carries the range delete
for the blocks it covers) on a node pruned below `F0`, with ANY batch-size threshold, cut after
ANY number `k` of batches: the image is pruned below some `F`, `F0 ≤ F ≤ e` — never a block that
is "retained" but has lost its hash-keyed indexes — and after the last batch `F = e`. -/
theorem prune_atomic_batches (W thr : Nat) (c : List Block) (hwf : WfChain c) (n : Node) (F0 e : Nat)
    (hp : PCoh blockHashLag c F0 n.disk) (hF0 : F0 < e) (he : e ≤ c.length) (k : Nat) :
    ∃ F, F0 ≤ F ∧ F ≤ e ∧
      PCoh blockHashLag c F (applyCommits n.disk ((prunePlanThr W n e thr).commits.take k)) ∧
      ((prunePlanThr W n e thr).commits.length ≤ k → F = e) := by
  obtain ⟨_, F, h1, h2, h3, h4, _⟩ := prune_images (W := W) (thr := thr) hwf hp hF0 he k
  exact ⟨F, h1, h2, h3, h4⟩

/-- … and as a call under any fault (failure of any batch commit, crash after any batch). -/
theorem prune_crash_consistent (W : Nat) (fx : Fixes) (c : List Block) (hwf : WfChain c) (n : Node)
    (F0 e : Nat) (hp : PCoh blockHashLag c F0 n.disk) (hF0 : F0 < e) (he : e ≤ c.length) (ft : Fault) :
    ∃ F, F0 ≤ F ∧ F ≤ e ∧ PCoh blockHashLag c F (exec W fx n (.prune e) ft).1.disk ∧
      (ft = .none → F = e ∧ (exec W fx n (.prune e) ft).2 = .ok) :=
  prune_exec_images fx hwf hp hF0 he ft

/-- Storing the next block on an image pruned below `F` (the batch of `Store` / `Finalise`, filter
writes included) gives the image of the extended chain pruned below the same `F`. -/
theorem store_on_pruned_image (c : List Block) (F : Nat) (d : Disk) (b : Block) (ws : List Write)
    (hwf' : WfChain (c ++ [b])) (hp : PCoh blockHashLag c F d) (hF : F ≤ c.length)
    (hnd : b.txs.Nodup) (hfh : c.find? (fun x => x.hash = b.hash) = none)
    (hft : ∀ t ∈ b.txs, lookupTx c t = none) (haux : OnlyAux ws) :
    PCoh blockHashLag (c ++ [b]) F (applyBatch d (blockWrites b ++ ws)) :=
  pcoh_append hwf' hp hF hnd hfh hft haux

/-- Reverting the head of an image pruned below `F` (head not pruned) gives the image of the chain
without its head, pruned below the same `F`. -/
theorem revert_on_pruned_image (c' : List Block) (last : Block) (F : Nat) (d : Disk) (ws : List Write)
    (hwf : WfChain (c' ++ [last])) (hp : PCoh blockHashLag (c' ++ [last]) F d) (hF : F ≤ c'.length)
    (haux : OnlyAux ws) :
    PCoh blockHashLag c' F (applyBatch d (revertWrites c'.length last last last ++ ws)) :=
  pcoh_prefix hwf hp hF haux

/-- The first prune of a node that has never pruned starts from a coherent image. -/
theorem coherent_is_unpruned (c : List Block) (d : Disk) (h : Coh c d) : PCoh blockHashLag c 0 d :=
  pcoh_zero_of_coh h

/-! ## Witnesses: where the unrepaired code breaks the property (window size 2 or 4 so that the
kernel can run them; the harness replays the same histories on the real code with 8192) -/

def b0 : Block := ⟨0, 1, 0, 11, 0, [5], [100]⟩
def b1 : Block := ⟨1, 2, 1, 12, 11, [6], [101]⟩
def b1' : Block := ⟨1, 7, 1, 17, 11, [9], [107]⟩
def b2 : Block := ⟨2, 3, 2, 13, 12, [7], []⟩

-- non-vacuity: a history with a failed commit, a crash, a revert and a restart meets `ValidHist`
example : ValidHist 4 .none Node.init
    [(.store b0, .none), (.store b1, .failAt 0), (.store b1, .crashAfter 0), (.revert, .none),
     (.restart, .none), (.store b1', .none)] := by
  simp only [ValidHist]
  refine ⟨⟨?_, ?_, ?_⟩, ⟨?_, ?_, ?_⟩, ⟨?_, ?_, ?_⟩, trivial, trivial, ⟨?_, ?_, ?_⟩, trivial⟩ <;> decide

/-- L4 (store): a commit failure while storing the last block of a window leaves the in-memory
filter rolled over; the retry of the same block fails with "block number is not within range". -/
theorem failed_store_commit_blocks_retry :
    (exec 2 .none (run 2 .none Node.init [(.store b0, .none), (.store b1, .failAt 0)]) (.store b1) .none).2
      = .err .range := by decide

/-- … and the repaired code stores it. -/
theorem failed_store_commit_retry_ok_when_repaired :
    (exec 2 .all (run 2 .all Node.init [(.store b0, .none), (.store b1, .failAt 0)]) (.store b1) .none).2
      = .ok := by decide

/-- The tree as it is after the fix commits 84d7a3b (L3) and 702b167 (L15): only L4 is left. -/
def fxNow : Fixes := ⟨false, true, true⟩

/-- L4 is still there in that tree … -/
theorem failed_store_commit_blocks_retry_now :
    (exec 2 fxNow (run 2 fxNow Node.init [(.store b0, .none), (.store b1, .failAt 0)]) (.store b1) .none).2
      = .err .range := by decide

/-- … while L15 and L3 are gone. -/
theorem crossing_revert_then_crash_ok_now :
    (exec 2 fxNow
      (run 2 fxNow Node.init [(.store b0, .none), (.store b1, .none), (.store b2, .none),
        (.revert, .none), (.revert, .crashAfter 0)]) (.store b1') .none).2 = .ok := by decide

/-- L4 (revert): after a failed RevertHead commit the head block is still on disk but the
in-memory filter has lost its bits (event queries miss the head block's events). -/
theorem failed_revert_commit_loses_head_bits :
    let n := run 4 .none Node.init [(.store b0, .none), (.store b1, .none), (.revert, .failAt 0)]
    getHeight n.disk = some 1 ∧ n.mem.has? 1 6 = some false ∧ n.mem.next? = some 1 := by decide

/-- L15: reverting the last block of a window leaves that window's persisted filter on disk; a
process that dies afterwards rebuilds a filter for the NEXT window and can never store the block
again. -/
theorem crossing_revert_then_crash_blocks_store :
    (exec 2 .none
      (run 2 .none Node.init [(.store b0, .none), (.store b1, .none), (.store b2, .none),
        (.revert, .none), (.revert, .crashAfter 0)]) (.store b1') .none).2 = .err .range := by decide

theorem crossing_revert_then_crash_ok_when_repaired :
    (exec 2 .all
      (run 2 .all Node.init [(.store b0, .none), (.store b1, .none), (.store b2, .none),
        (.revert, .none), (.revert, .crashAfter 0)]) (.store b1') .none).2 = .ok := by decide

/-- L3: the snapshot written at shutdown is trusted after a revert-and-replace of the block below
its `next`: an ungraceful restart yields a filter without the bits of the replacing block. -/
theorem stale_snapshot_after_revert :
    let n := run 4 .none Node.init [(.store b0, .none), (.store b1, .none), (.restart, .none),
      (.revert, .none), (.store b1', .none), (.kill, .none)]
    getHeight n.disk = some 1 ∧ initObs 4 n.disk 1 9 = some (false, 2) := by decide

theorem stale_snapshot_gone_when_repaired :
    let n := run 4 .all Node.init [(.store b0, .none), (.store b1, .none), (.restart, .none),
      (.revert, .none), (.store b1', .none), (.kill, .none)]
    initObs 4 n.disk 1 9 = some (true, 2) := by decide

end Juno.C05.Props
