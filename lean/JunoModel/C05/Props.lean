import JunoModel.C05.ProofsSvc
/-!
C05 — property theorems (statements only; proofs are in `Proofs*.lean`).

Block storage is atomic and crash-consistent at every interruption point. `W` is
`core.NumBlocksPerFilter` (8192 in juno); everything holds for every `W > 0`. `fx : Fixes` says which
repairs the code contains: `Fixes.all` = /repo since c8ac4a7 (84d7a3b, 702b167, 3373c0b, c8ac4a7 are
all in); older variants appear in regression witnesses only (`*_before_<commit>`). The harness probes
the real code and refuses to run (harness failure, never green) unless it behaves as `Fixes.all`.

Faults (`Fault`): `failAt k` — the k-th commit of the call fails, nothing of it is applied;
`crashAfter k` — the process dies right after it; `failInit` — the direct window write of a lazy
filter initialisation inside the call fails; `crashInit` — the process dies after that write,
before the call's own commit.

Modelling decision, NOT a theorem: every call except prune issues its effects as ONE batch
(`Proofs.commits_le_one` is true by construction of the model). That juno does so is checked on the
real code only (harness: the image after every commit must be bit-equal to the before- or the
after-image, `op-not-atomic-*`).
-/
namespace Juno.C05.Props
open Juno.C05

/-! ## Atomicity of a call on the block buckets -/

/-- `op_atomic`: every call except prune, every node, every fault: on EVERY key of the block
buckets (height, header, number-by-hash, transactions, transaction lookups, state update,
commitments, state) the disk afterwards equals the node's disk before the call, or the whole disk
is the image after the fault-free call. (Window keys may in addition hold what a lazy filter
initialisation wrote: `lazy_init_writes_only_complete_windows`.) -/
theorem op_atomic (W : Nat) (fx : Fixes) (n : Node) (op : Op) (ft : Fault) (h : ∀ e, op ≠ .prune e) :
    (∀ k, IsChainKey k → (exec W fx n op ft).1.disk k = n.disk k) ∨
    (exec W fx n op ft).1.disk = (exec W fx n op .none).1.disk := by
  rcases op_atomic_lemma W fx n op ft h with hd | hd | hd
  · left; intro k hk; rw [hd]; exact disk0_chainKeys W fx n op h k hk
  · right; exact hd
  · left; intro k _; rw [hd]

/-- What a lazy initialisation may write on a good node: nothing but complete windows of the
chain, each without false negatives (so the persisted windows stay exactly the complete ones). -/
theorem lazy_init_writes_only_complete_windows (W : Nat) (hW : 0 < W) (c : List Block) (d : Disk)
    (hwf : WfChain c) (hc : Coh c d) (hw : WinsOK W c d) (hs : SnapOK W c d) :
    ∃ f d', initFilter W d = some (f, d') ∧ WinsGrow W c d d' := by
  obtain ⟨f, d', h1, _, h3⟩ := initFilter_grow hW hwf hc hw hs
  exact ⟨f, d', h1, h3⟩

/-! ## Every reachable image is coherent -/

/-- `consistent_image`: for every history of store / revert / set-L1-head / snapshot / graceful and
ungraceful restart calls from the empty node, every fault schedule and every variant of the code,
the disk image describes exactly one well-formed chain `c` (`Coh`): height = last block, header /
transactions / state update / commitments present for exactly the blocks of `c`, hash→number and
transaction-hash lookups exactly those of `c` (none dangling), state = the head's. Inputs
(`ValidHist`): a block that EXTENDS the head when offered carries unused hashes; offers the node
must refuse (duplicates, orphans, gaps, wrong roots) are unrestricted; prune is treated separately. -/
theorem consistent_image (W : Nat) (fx : Fixes) (hs : List (Op × Fault))
    (hv : ValidHist W fx Node.init hs) :
    ∃ c, WfChain c ∧ Coh c (run W fx Node.init hs).disk :=
  consistent_image_chain W fx hs Node.init cinv_init hv

/-- One call from any coherent node, any fault: the image stays coherent (the invariant step). -/
theorem call_keeps_image_coherent (W : Nat) (fx : Fixes) (n : Node) (op : Op) (ft : Fault)
    (hfresh : ∀ b, op = .store b → Extends n.disk b → Fresh n.disk b) (hp : ∀ e, op ≠ .prune e)
    (hi : ∃ c, WfChain c ∧ Coh c n.disk) :
    ∃ c, WfChain c ∧ Coh c (exec W fx n op ft).1.disk :=
  exec_cinv W fx n op ft hfresh hp hi

/-! ## Restart, next block, memory — `Good`

`Good W c n` (ModelSpec): the image describes chain `c` (`Coh`), the persisted bloom windows are
exactly the complete windows of `c`, each without false negatives (`WinsOK`), the persisted
snapshot — if any — describes a prefix of `c` (`SnapOK`), and the in-memory filter is dropped
(lazy: rebuilt from the disk on next use) or describes `c` (`MemOK`; a filter whose initialisation
error is cached, `Mem.broken`, is NOT ok). -/

/-- `crash_consistent` (/repo since c8ac4a7): for EVERY history over {store or refused offer
of any block, RevertHead, set-L1-head, snapshot, graceful restart, kill} from the empty node and
EVERY fault schedule — failure of any commit, failure of a lazy initialisation's write, crash
after any commit or after the initialisation's write — the node ends good. -/
theorem crash_consistent (W : Nat) (hW : 0 < W) (hs : List (Op × Fault))
    (hv : ValidHist W Fixes.all Node.init hs) :
    ∃ c, Good W c (run W Fixes.all Node.init hs) :=
  good_run_repaired hW rfl rfl rfl rfl hs Node.init [] (good_init W hW) hv

/-- `restart_ok`: after any such history, a new process initialises its running filter
successfully and exactly (next = height+1, aligned window, no false negatives). -/
theorem restart_ok (W : Nat) (hW : 0 < W) (hs : List (Op × Fault))
    (hv : ValidHist W Fixes.all Node.init hs) :
    ∃ c f d', Coh c (run W Fixes.all Node.init hs).disk ∧
      initFilter W (run W Fixes.all Node.init hs).disk = some (f, d') ∧ FiltOK W c f := by
  obtain ⟨c, hg⟩ := crash_consistent W hW hs hv
  obtain ⟨f, d', h1, h2⟩ := initFilter_good hW hg.wf hg.coh hg.wins hg.snap
  exact ⟨c, f, d', hg.coh, h1, h2⟩

/-- `next_block_storable`: after any such history — on the live node after a failed call as well
as on a restarted one — the block the network offers next is stored. -/
theorem next_block_storable (W : Nat) (hW : 0 < W) (hs : List (Op × Fault))
    (hv : ValidHist W Fixes.all Node.init hs) :
    ∃ c, Coh c (run W Fixes.all Node.init hs).disk ∧
      ∀ b, NextBlock c (run W Fixes.all Node.init hs).disk b →
        (exec W Fixes.all (run W Fixes.all Node.init hs) (.store b) .none).2 = .ok := by
  obtain ⟨c, hg⟩ := crash_consistent W hW hs hv
  exact ⟨c, hg.coh, fun b hn => store_ok_of_good hW _ hg hn⟩

/-- `memory_tracks_disk`: after every call of any such history, failed or not, the in-memory
running filter is either dropped or describes the chain the disk holds; in particular no
initialisation error is ever cached. -/
theorem memory_tracks_disk (W : Nat) (hW : 0 < W) (hs : List (Op × Fault))
    (hv : ValidHist W Fixes.all Node.init hs) :
    ∃ c, Coh c (run W Fixes.all Node.init hs).disk ∧ MemOK W c (run W Fixes.all Node.init hs).mem := by
  obtain ⟨c, hg⟩ := crash_consistent W hW hs hv
  exact ⟨c, hg.coh, hg.mem⟩

/-- One call from a good node, any fault (the invariant step of `crash_consistent`). -/
theorem call_keeps_good (W : Nat) (hW : 0 < W) (c : List Block) (n : Node) (hg : Good W c n)
    (op : Op) (ft : Fault)
    (hv : match op with
      | .store b => Extends n.disk b → Fresh n.disk b
      | .prune _ => False
      | _ => True) :
    ∃ c', Good W c' (exec W Fixes.all n op ft).1 :=
  exec_good_repaired hW rfl rfl rfl rfl hg op ft hv

def b0 : Block := ⟨0, 1, 0, 11, 0, 11, [5], [100]⟩
def b1 : Block := ⟨1, 2, 1, 12, 11, 12, [6], [101]⟩
def b1' : Block := ⟨1, 7, 1, 17, 11, 17, [9], [107]⟩
def b2 : Block := ⟨2, 3, 2, 13, 12, 13, [7], []⟩

/-- A node whose lazy initialisation has to write: block 0, graceful restart (snapshot next = 1),
block 1 (the last of its window, W = 2), ungraceful stop. -/
def hInit : List (Op × Fault) :=
  [(.store b0, .none), (.restart, .none), (.store b1, .none), (.kill, .none)]

/-! ### Steps and variants -/

/-- `restart_ok` for good disks: InitializeRunningEventFilter succeeds and yields a filter that
expects block `height+1`, has the aligned window of that block, and has no false negative for any
block of the chain in it — whichever path it takes (snapshot as is, snapshot + fill, rebuild from
the last persisted window). -/
theorem restart_ok_of_good (W : Nat) (hW : 0 < W) (c : List Block) (d : Disk)
    (hwf : WfChain c) (hc : Coh c d) (hw : WinsOK W c d) (hs : SnapOK W c d) :
    ∃ f d', initFilter W d = some (f, d') ∧ FiltOK W c f :=
  initFilter_good hW hwf hc hw hs

/-- `next_block_storable` for good nodes (in particular right after a restart or crash, memory
lazy): Store of the block the network offers next returns ok, the height becomes its number and
its header is readable. -/
theorem next_block_storable_of_good (W : Nat) (hW : 0 < W) (fx : Fixes) (c : List Block) (n : Node)
    (b : Block) (hg : Good W c n) (hn : NextBlock c n.disk b) :
    (exec W fx n (.store b) .none).2 = .ok ∧
      getHeight (exec W fx n (.store b) .none).1.disk = some b.num ∧
      getBlk (exec W fx n (.store b) .none).1.disk (.header b.num) = some b :=
  ⟨store_ok_of_good hW fx hg hn, store_height_of_good hW fx hg hn⟩

/-- The in-memory filter follows a successful Store: from a filter that describes `c`, inserting
the next block gives a filter that describes `c ++ [b]`; exactly at the end of a window the full
window (no false negatives) is handed to the batch. -/
theorem memory_tracks_store (W : Nat) (hW : 0 < W) (c : List Block) (f : Filt) (b : Block)
    (hf : FiltOK W c f) (hb : b.num = c.length) :
    ∃ f' ws, f.insert W b.bits b.num = some (f', ws) ∧ FiltOK W (c ++ [b]) f' ∧
      ((ws = [] ∧ (c.length + 1) % W ≠ 0) ∨
       (∃ w', ws = [.put (.win (wstart W c.length)) (.win w')] ∧ (c.length + 1) % W = 0 ∧
          w'.lo = wstart W c.length ∧
          ∀ x i, wstart W c.length ≤ x → x < wstart W c.length + W → bitIn (c ++ [b]) x i →
            w'.has x i = true)) :=
  insert_filtOK hW hf hb

-- non-vacuity: the empty node is good; a non-trivial good node of the repaired code (a failed
-- Store commit at a window rollover, a crash in a RevertHead that re-opens a window, a failed
-- initialisation write, duplicate offers) is reached by a `ValidHist` history
example (W : Nat) (hW : 0 < W) : Good W [] Node.init := good_init W hW

def hMixed : List (Op × Fault) :=
  [(.store b0, .none), (.store b0, .none), (.store b1, .failAt 0), (.store b1, .none),
   (.store b0, .crashAfter 0), (.store b2, .none), (.revert, .failAt 0), (.revert, .none),
   (.revert, .crashAfter 0), (.restart, .none), (.store b1', .none), (.kill, .none),
   (.snap, .failInit), (.snap, .crashInit), (.store b1', .none)]

example : ValidHist 2 .all Node.init hMixed := by
  simp only [hMixed, ValidHist, run, and_true]
  refine ⟨?_, ?_, ?_, ?_, ?_, ?_, trivial, trivial, trivial, trivial, ?_, trivial, trivial, trivial, ?_⟩ <;>
    first
    | (intro h; exact absurd h (by unfold Extends; decide))
    | (intro _; refine ⟨?_, ?_, ?_⟩ <;> decide)

example : getHeight (run 2 .all Node.init hMixed).disk = some 1 := by decide

/-! ## Pruning: several batches, each atomic, every image in between well-defined

`PCoh lag c F d` (ProofsPrune): the image describes chain `c` pruned below `F` — blocks at or above
`F` fully present (header, transactions, state update, commitments, hash→number, transaction
lookups), blocks below `F` fully absent, except the pruner's two carve-outs (hash→number of block
`F-1`; headers of the last `lag` blocks below `F`). `PCoh lag c 0 d` is `Coh c d`.
Not covered by a theorem: histories that CONTINUE after a prune (see notes: `GoodP`). -/

/-- `prune_atomic_batches`: `PruneUpto(e)` (sweep of 55da2ac: every batch carries the range delete
for the blocks it covers) on a node pruned below `F0`, for EVERY rotation decision `cut` (any byte
threshold, any pattern of batch sizes), cut short after ANY number `k` of batches: the image is
pruned below some `F`, `F0 ≤ F ≤ e` — never a block that is "retained" but has lost its hash-keyed
indexes — after the last batch `F = e`, and the fault-free call returns ok. -/
theorem prune_atomic_batches (W : Nat) (cut : Nat → List Write → Bool) (c : List Block) (hwf : WfChain c)
    (n : Node) (F0 e : Nat) (hp : PCoh blockHashLag c F0 n.disk) (hF0 : F0 < e) (he : e ≤ c.length)
    (k : Nat) :
    ∃ F, F0 ≤ F ∧ F ≤ e ∧
      PCoh blockHashLag c F (applyCommits n.disk ((prunePlanThr W n e cut).commits.take k)) ∧
      ((prunePlanThr W n e cut).commits.length ≤ k → F = e) ∧ (prunePlanThr W n e cut).out = .ok := by
  obtain ⟨_, F, h1, h2, h3, h4, h5⟩ := prune_images (W := W) (cut := cut) hwf hp hF0 he k
  exact ⟨F, h1, h2, h3, h4, h5⟩

/-- … and as a call under any commit fault (failure of any batch commit, crash after any batch). -/
theorem prune_crash_consistent (W : Nat) (fx : Fixes) (c : List Block) (hwf : WfChain c) (n : Node)
    (F0 e : Nat) (hp : PCoh blockHashLag c F0 n.disk) (hF0 : F0 < e) (he : e ≤ c.length) (ft : Fault)
    (hb : ft ≠ .failInit ∧ ft ≠ .crashInit) :
    ∃ F, F0 ≤ F ∧ F ≤ e ∧ PCoh blockHashLag c F (exec W fx n (.prune e) ft).1.disk ∧
      (ft = .none → F = e ∧ (exec W fx n (.prune e) ft).2 = .ok) :=
  prune_exec_images fx hwf hp hF0 he ft hb

/-- The first prune of a node that has never pruned starts from a coherent image. -/
theorem coherent_is_unpruned (c : List Block) (d : Disk) (h : Coh c d) : PCoh blockHashLag c 0 d :=
  pcoh_zero_of_coh h

-- non-vacuity of the prune theorems: a stored three-block chain is coherent, hence `PCoh … 0`
example : ∃ c, WfChain c ∧ c.length = 3 ∧
    PCoh blockHashLag c 0 (run 4 .all Node.init [(.store b0, .none), (.store b1, .none), (.store b2, .none)]).disk := by
  obtain ⟨c, hwf, hc⟩ := consistent_image 4 .all [(.store b0, .none), (.store b1, .none), (.store b2, .none)] (by
    simp only [ValidHist, run, and_true]
    refine ⟨?_, ?_, ?_⟩ <;> (intro _; refine ⟨?_, ?_, ?_⟩ <;> decide))
  refine ⟨c, hwf, ?_, pcoh_zero_of_coh hc⟩
  have := hc.height
  have h2 : getHeight (run 4 .all Node.init [(.store b0, .none), (.store b1, .none), (.store b2, .none)]).disk = some 2 := by
    decide
  rw [h2] at this
  by_cases h0 : c.length = 0
  · simp [h0] at this
  · simp [h0] at this; omega

/-! ## Pruning nodes: the event index survives `PruneUpto`, and a restart rebuilds it

`PImg W lag c F d`: the disk of a node pruned below `F` — block buckets `PCoh`, persisted windows
exactly the complete windows from the floor's own window on (`WinsOKP`), snapshot sound for
retained blocks (`SnapOKP`). `FiltOKP W c F f`: the filter expects the next block, has its aligned
window and no false negative for any RETAINED block. -/

/-- An unpruned good disk is the image pruned below 0. -/
theorem good_disk_is_unpruned_image (W lag : Nat) (c : List Block) (n : Node) (hg : Good W c n) :
    PImg W lag c 0 n.disk :=
  pimg_of_good hg.coh hg.wins hg.snap

/-- `PruneUpto(e)` on a (possibly already pruned) node, ANY fault (failure of any batch, crash after
any batch): the image is that of a pruning node with floor `F0 ≤ F ≤ e` INCLUDING its event index —
the windows entirely below the aligned floor are gone, all others and the snapshot are intact. -/
theorem prune_keeps_event_index (W : Nat) (fx : Fixes) (c : List Block) (hwf : WfChain c) (n : Node)
    (F0 e : Nat) (hp : PImg W blockHashLag c F0 n.disk) (hF0 : F0 < e) (he : e ≤ c.length) (ft : Fault)
    (hb : ft ≠ .failInit ∧ ft ≠ .crashInit) :
    ∃ F, F0 ≤ F ∧ F ≤ e ∧ PImg W blockHashLag c F (exec W fx n (.prune e) ft).1.disk ∧
      (ft = .none → F = e) :=
  prune_exec_imagesP fx hwf hp hF0 he ft hb

/-- `pruner.InitializeRunningEventFilter` on ANY image of a pruning node whose head is retained
succeeds and yields an exact filter (next = height+1, aligned window, no false negative for any
retained block) — whichever path it takes: snapshot as is, snapshot resumed from max(next, floor),
rebuild from the last persisted window at or above the floor's window, rebuild from the floor. -/
theorem pruning_node_restart_ok (W : Nat) (hW : 0 < W) (c : List Block) (hwf : WfChain c) (F : Nat)
    (d : Disk) (hp : PImg W blockHashLag c F d) (hF : F < c.length) :
    ∃ f d', initFilterP W d = some (f, d') ∧ FiltOKP W c F f :=
  initFilterP_good hW hwf hp.pcoh hF hp.wins hp.snap

/-- History level: after EVERY history of store / revert / … calls with EVERY fault schedule, a
`PruneUpto(e)` below the head that is interrupted anywhere (any fault) leaves a disk pruned below
some `F ≤ e` from which a restarted pruning node builds an exact event filter. -/
theorem restart_ok_after_prune (W : Nat) (hW : 0 < W) (hs : List (Op × Fault))
    (hv : ValidHist W Fixes.all Node.init hs) (h e : Nat)
    (hh : getHeight (run W Fixes.all Node.init hs).disk = some h) (h0 : 0 < e) (he : e ≤ h)
    (ft : Fault) (hb : ft ≠ .failInit ∧ ft ≠ .crashInit) :
    ∃ c F f d', F ≤ e ∧
      PCoh blockHashLag c F (exec W Fixes.all (run W Fixes.all Node.init hs) (.prune e) ft).1.disk ∧
      initFilterP W (exec W Fixes.all (run W Fixes.all Node.init hs) (.prune e) ft).1.disk = some (f, d') ∧
      FiltOKP W c F f := by
  obtain ⟨c, hg⟩ := crash_consistent W hW hs hv
  have hlen : c.length ≠ 0 ∧ h = c.length - 1 := by
    have := hg.coh.height
    rw [hh] at this
    by_cases h0 : c.length = 0
    · rw [if_pos h0] at this; cases this
    · rw [if_neg h0] at this; exact ⟨h0, by injection this⟩
  obtain ⟨F, _, hFe, hp, _⟩ := prune_exec_imagesP Fixes.all hg.wf
    (pimg_of_good (lag := blockHashLag) hg.coh hg.wins hg.snap) h0 (by omega) ft hb
  obtain ⟨f, d', h1, h2⟩ := initFilterP_good hW hg.wf hp.pcoh (by omega) hp.wins hp.snap
  exact ⟨c, F, f, d', hFe, hp.pcoh, h1, h2⟩

-- a concrete pruned node (W = 2): blocks 0..2, prune below 2; the restarted filter expects block 3
example : (initFilterP 2 (run 2 .all Node.init
    [(.store b0, .none), (.store b1, .none), (.store b2, .none), (.prune 2, .none)]).disk).map
      (fun r => (r.1.next, r.1.win.lo, r.1.win.has 2 7)) = some (3, 2, true) := by decide

/-! ## The wiring of `blockchain.New`: the floor-aware initialiser by default (round 5)

`blockchain.New` installs `pruner.InitializeRunningEventFilter` (`initFilterP`) as the initialiser
of the lazily initialised running filter for EVERY node; `execP` / `runP` are the calls wired that
way (`exec` / `run` above: `core.InitializeRunningEventFilter`, what a node gets with the option
`WithRunningEventFilterInitializer(core.InitializeRunningEventFilter)`). -/

/-- On every image whose genesis block is retained (and on the empty database) the floor-aware
initialiser IS the plain one — same filter, same direct window writes. -/
theorem default_initialiser_is_plain_on_unpruned (W : Nat) (d : Disk)
    (h : getHeight d ≠ none → (d (.commit 0)).isSome = true) :
    initFilterP W d = initFilter W d ∧ initNeedsWriteP W d = initNeedsWrite W d :=
  ⟨initFilterP_of_unpruned W h, initNeedsWriteP_of_unpruned W h⟩

/-- One call of a node built by `blockchain.New`, on any coherent (never-pruned) image, any fault,
any code variant: exactly the call the theorems above are about. -/
theorem call_with_default_initialiser (W : Nat) (fx : Fixes) (c : List Block) (n : Node)
    (hc : Coh c n.disk) (op : Op) (ft : Fault) : execP W fx n op ft = exec W fx n op ft :=
  execP_eq_exec_of_coh W fx hc op ft

/-- `op_atomic` for the node as `blockchain.New` wires it, from ANY node (pruned or not, good or
not): every call except prune, every fault — the block buckets are the node's before the call, or
the whole disk is the after-image. -/
theorem op_atomic_default_wiring (W : Nat) (fx : Fixes) (n : Node) (op : Op) (ft : Fault)
    (h : ∀ e, op ≠ .prune e) :
    (∀ k, IsChainKey k → (execP W fx n op ft).1.disk k = n.disk k) ∨
    (execP W fx n op ft).1.disk = (execP W fx n op .none).1.disk :=
  op_atomic_P W fx n op ft h

/-- `crash_consistent` for the node as `blockchain.New` wires it: every history without prune,
every fault schedule. -/
theorem crash_consistent_default_wiring (W : Nat) (hW : 0 < W) (hs : List (Op × Fault))
    (hv : ValidHist W Fixes.all Node.init hs) :
    runP W Fixes.all Node.init hs = run W Fixes.all Node.init hs ∧
    ∃ c, Good W c (runP W Fixes.all Node.init hs) := by
  have h := runP_eq_run W Fixes.all hs Node.init cinv_init hv
  exact ⟨h, by rw [h]; exact crash_consistent W hW hs hv⟩

/-! ## Histories that CONTAIN prune calls (round 5)

`GoodP W c F n` (ProofsP0): the node's disk is the image of chain `c` pruned below `F` — block
buckets `PCoh`, persisted windows exactly the complete ones from the floor's window on, snapshot
sound for retained blocks (`PImg`) —, the in-memory filter is dropped or exact for the retained
blocks, the head is retained. `GoodP W c 0 n` is `Good W c n`. `ValidHistP`: the inputs — a block
that extends the head is fresh on the disk AND against the pruned blocks (collision-free hashes:
`FreshBelow`), the pruner never prunes the head (`e ≤ height`), a revert never removes the oldest
retained block. -/

/-- `crash_consistent` with prune in the alphabet: for EVERY history over {store or refused offer,
RevertHead, set-L1-head, snapshot, graceful restart, kill, PruneUpto} of a node built by
`blockchain.New`, from the empty node, and EVERY fault schedule — failure of any commit (any batch of
a prune), failure of a lazy initialisation's write, crash after any commit / batch / initialisation
write — the node ends good for some chain pruned below some floor. -/
theorem crash_consistent_with_prune (W : Nat) (hW : 0 < W) (hs : List (Op × Fault))
    (hv : ValidHistP W Fixes.all Node.init [] hs) :
    ∃ c F, GoodP W c F (runP W Fixes.all Node.init hs) :=
  goodP_run hW hs Node.init [] [] 0 (goodP_init W hW) (fun _ h => by cases h) hv

/-- One call from a good (possibly pruned) node, any fault: good again; the floor moves only in a
prune, and then to at most the target (the invariant step). -/
theorem call_keeps_goodP (W : Nat) (hW : 0 < W) (c : List Block) (F : Nat) (n : Node) (ever : List Block)
    (hg : GoodP W c F n) (hev : ∀ x ∈ c, x ∈ ever) (op : Op) (ft : Fault)
    (hv : match op with
      | .store b => Extends n.disk b → Fresh n.disk b ∧ FreshBelow ever (floorOf n.disk) b
      | .revert => floorOf n.disk = 0 ∨ ∀ h, getHeight n.disk = some h → floorOf n.disk < h
      | .prune e => ∀ h, getHeight n.disk = some h → e ≤ h
      | _ => True) :
    ∃ c' F', GoodP W c' F' (execP W Fixes.all n op ft).1 ∧ F ≤ F' ∧
      ((∀ e, op ≠ .prune e) → F' = F) ∧ (∀ e, op = .prune e → F' ≤ max F e) := by
  obtain ⟨c', F', h1, _, h3, h4, h5⟩ := execP_goodP hW hg hev op ft hv
  exact ⟨c', F', h1, h3, h4, h5⟩

/-- `restart_ok` with prune in the alphabet: after any such history a new process initialises its
running filter (floor-aware initialiser) successfully and exactly for the retained blocks. -/
theorem restart_ok_with_prune (W : Nat) (hW : 0 < W) (hs : List (Op × Fault))
    (hv : ValidHistP W Fixes.all Node.init [] hs) :
    ∃ c F f d', PCoh blockHashLag c F (runP W Fixes.all Node.init hs).disk ∧
      initFilterP W (runP W Fixes.all Node.init hs).disk = some (f, d') ∧ FiltOKP W c F f := by
  obtain ⟨c, F, hg⟩ := crash_consistent_with_prune W hW hs hv
  obtain ⟨_, ⟨f, hm, hf⟩, _⟩ := ensureInitP_goodP hW (n := ⟨(runP W Fixes.all Node.init hs).disk, .lazy⟩)
    ⟨hg.wf, hg.img, trivial, hg.floor⟩
  cases hi : initFilterP W (runP W Fixes.all Node.init hs).disk with
  | none => simp [ensureInitG, hi] at hm
  | some r =>
    obtain ⟨f', d'⟩ := r
    simp only [ensureInitG, hi] at hm
    cases hm
    exact ⟨c, F, f, d', hg.img.pcoh, rfl, hf⟩

/-- `next_block_storable` with prune in the alphabet: after any such history — live node after a
failed call or a half-done prune, or restarted — the block the network offers next is stored. -/
theorem next_block_storable_with_prune (W : Nat) (hW : 0 < W) (hs : List (Op × Fault))
    (hv : ValidHistP W Fixes.all Node.init [] hs) :
    ∃ c F, PCoh blockHashLag c F (runP W Fixes.all Node.init hs).disk ∧
      ∀ b, NextBlockP c (runP W Fixes.all Node.init hs).disk b →
        (execP W Fixes.all (runP W Fixes.all Node.init hs) (.store b) .none).2 = .ok := by
  obtain ⟨c, F, hg⟩ := crash_consistent_with_prune W hW hs hv
  exact ⟨c, F, hg.img.pcoh, fun b hn => (store_ok_of_goodP hW hg hn).1⟩

/-- `memory_tracks_disk` with prune in the alphabet: the in-memory running filter is dropped or
exact for the retained blocks of the chain the disk holds; never a cached error. -/
theorem memory_tracks_disk_with_prune (W : Nat) (hW : 0 < W) (hs : List (Op × Fault))
    (hv : ValidHistP W Fixes.all Node.init [] hs) :
    ∃ c F, PCoh blockHashLag c F (runP W Fixes.all Node.init hs).disk ∧
      MemOKP W c F (runP W Fixes.all Node.init hs).mem := by
  obtain ⟨c, F, hg⟩ := crash_consistent_with_prune W hW hs hv
  exact ⟨c, F, hg.img.pcoh, hg.mem⟩

def b3 : Block := ⟨3, 4, 3, 14, 13, 14, [5], [103]⟩
def b4 : Block := ⟨4, 5, 4, 15, 14, 15, [], [104]⟩
def b4' : Block := ⟨4, 9, 4, 19, 14, 19, [9], [109]⟩

/-- blocks 0..4; a three-batch prune whose second batch fails; kill; the prune again; snapshot;
RevertHead of block 4 (the new head 3 is the oldest retained block); a replacement block whose
Store is cut by a crash; graceful restart; a prune with nothing left to do that "crashes". -/
def hPruned : List (Op × Fault) :=
  [(.store b0, .none), (.store b1, .none), (.store b2, .none), (.store b3, .none), (.store b4, .none),
   (.prune 3, .failAt 1), (.kill, .none), (.prune 3, .none), (.snap, .none), (.revert, .none),
   (.store b4', .crashAfter 0), (.restart, .failAt 0), (.prune 3, .crashAfter 0), (.store b1, .none)]

-- non-vacuity: `hPruned` satisfies the input hypothesis; it ends at height 4 with floor 3
example : ValidHistP 2 .all Node.init [] hPruned := by
  simp only [hPruned, ValidHistP, and_true]
  refine ⟨?_, ?_, ?_, ?_, ?_, ?_, trivial, ?_, trivial, ?_, ?_, trivial, ?_, ?_⟩
  · intro _; refine ⟨⟨?_, ?_, ?_⟩, ?_⟩ <;> first | decide | (unfold FreshBelow; decide)
  · intro _; refine ⟨⟨?_, ?_, ?_⟩, ?_⟩ <;> first | decide | (unfold FreshBelow; decide)
  · intro _; refine ⟨⟨?_, ?_, ?_⟩, ?_⟩ <;> first | decide | (unfold FreshBelow; decide)
  · intro _; refine ⟨⟨?_, ?_, ?_⟩, ?_⟩ <;> first | decide | (unfold FreshBelow; decide)
  · intro _; refine ⟨⟨?_, ?_, ?_⟩, ?_⟩ <;> first | decide | (unfold FreshBelow; decide)
  · exact le_height_of (k := 4) (by decide) (by decide)
  · exact le_height_of (k := 4) (by decide) (by decide)
  · right; exact floor_lt_height_of (k := 4) (by decide) (by decide)
  · intro _; refine ⟨⟨?_, ?_, ?_⟩, ?_⟩ <;> first | decide | (unfold FreshBelow; decide)
  · exact le_height_of (k := 4) (by decide) (by decide)
  · intro h; exact absurd h (by unfold Extends; decide)

example : getHeight (runP 2 .all Node.init hPruned).disk = some 4 ∧
    floorOf (runP 2 .all Node.init hPruned).disk = 3 := by decide

/-! ## The shared in-memory retention floor (`pruner.RetentionFloor`, round 5)

`PNode` = node + the floor its process shares between `Blockchain` (`StateAtBlockNumber` consults
it instead of probing the database) and the `pruner.Pruner` service. `FloorSafe pn`: every
historical state the node hands out (`stateServed`) is reconstructible from ITS disk — the oldest
retained block is at most one above it — and is at most the chain height. -/

/-- A process that starts on ANY image of a pruning node (floor seeded from the database as
`node.Run` does, or left unseeded: database probe) serves only reconstructible states. -/
theorem fresh_process_floor_safe (W : Nat) (c : List Block) (F : Nat) (n : Node) (wired : Bool)
    (hwf : WfChain c) (hp : PImg W blockHashLag c F n.disk) (hF : F ≤ c.length - 1) :
    FloorSafe ⟨n, freshFloor wired n.disk, wired⟩ :=
  freshFloor_safe wired hwf hp.pcoh hF

/-- `memory_tracks_disk` for the retention floor, for ANY cut of a prune's batches: after
`Pruner.onNewL1Head(l1)` (numRetainedBlocks `R`) on any image of a pruning node whose seeded floor
is safe — the sweep completed, any of its batch commits failed (`failAt k`), or the process died
after any batch (`crashAfter k`) — the node still serves only states its disk can reconstruct.
(`pruneUpto` raises the floor to target − 1 BEFORE the first batch.) -/
theorem floor_tracks_disk_under_prune (W : Nat) (fx : Fixes) (c : List Block) (hwf : WfChain c)
    (F0 : Nat) (pn : PNode) (hp : PImg W blockHashLag c F0 pn.node.disk) (hF0 : F0 ≤ c.length - 1)
    (hseed : pn.floor ≠ none) (hs : FloorSafe pn) (l1 R : Nat) (ft : Fault) :
    FloorSafe (pexec true W fx pn (.l1event l1 R) ft).1 :=
  l1event_floor_safe fx hwf hp hF0 hseed hs l1 R ft


/-- `memory_tracks_disk` for the retention floor along WHOLE histories: every history of calls
and pruner events (`Pruner.onNewL1Head`) of a process wired as `node.New` does, from the empty
node, every fault schedule (any cut of any sweep): the node stays good and serves only states its
disk can reconstruct. -/
theorem retention_floor_tracks_disk (W : Nat) (hW : 0 < W) (hs : List (POp × Fault))
    (hv : ValidPHist W Fixes.all PNode.init [] hs) :
    FloorSafe (prun true W Fixes.all PNode.init hs) ∧
      ∃ c F, GoodP W c F (prun true W Fixes.all PNode.init hs).node := by
  obtain ⟨c, F, hi⟩ := pinv_run hW hs PNode.init [] [] 0 (pinv_init W hW) (fun _ h => by cases h) hv
  exact ⟨floorSafe_of_inv hi, c, F, hi.good⟩

/-- Five blocks on a node wired as `node.New` does, then the pruner is told L1 head 3 (retaining 0
blocks below it): a three-batch sweep whose THIRD batch fails. -/
def hFloor : List (POp × Fault) :=
  [(.call (.store b0), .none), (.call (.store b1), .none), (.call (.store b2), .none),
   (.call (.store b3), .none), (.call (.store b4), .none), (.l1event 3 0, .failAt 2)]

example : ValidPHist 4 .all PNode.init [] hFloor := by
  simp only [hFloor, ValidPHist, and_true]
  refine ⟨?_, ?_, ?_, ?_, ?_, rfl⟩ <;>
    (intro _; refine ⟨⟨?_, ?_, ?_⟩, ?_⟩ <;> first | decide | (unfold FreshBelow; decide))

-- non-vacuity of `floor_tracks_disk_under_prune` and what it excludes: with the floor raised
-- BEFORE the sweep (the code) the state at block 0 is refused after the failed sweep; were it
-- raised only after a successful sweep, the node would hand out the state at block 0 although
-- the disk's oldest retained block is 2 (history entries of block 1 deleted).
theorem floor_raised_before_sweep_refuses_pruned_state :
    let pn := prun true 4 .all PNode.init hFloor
    floorOf pn.node.disk = 2 ∧ pn.floor = some 2 ∧ stateServed pn.floor pn.node.disk 0 = false ∧
      stateServed pn.floor pn.node.disk 2 = true := by decide

theorem floor_raised_after_sweep_would_serve_pruned_state :
    let pn := prun false 4 .all PNode.init hFloor
    floorOf pn.node.disk = 2 ∧ pn.floor = some 0 ∧ stateServed pn.floor pn.node.disk 0 = true ∧
      ¬ FloorSafe pn := by
  refine ⟨by decide, by decide, by decide, ?_⟩
  intro h
  have := (h 0 (by decide)).1
  revert this
  decide

/-! ## The pruner SERVICE: both event handlers and the counter (round 6)

`Pruner.Run` dispatches L1-head events to `onNewL1Head` (`POp.l1event` above) and L2-head events to
`onNewBlock`; both end in `pruneUpto` (`pruneUptoEv`: raise the shared floor, then the sweep).
`l2Decide` transcribes `onNewBlock` up to that call: the guards (no L1 head on disk, `l1 ≤ num`,
`num < R`, the event is STALE: `num > height`) and the in-memory counter `pendingL2Heads` with its
threshold `l2HeadsPerPrune`. `Svc` = process with the counter, `SEv` = call | L1 event | L2 event,
`sexec` / `srun` as before. -/

/-- Both handlers share one tail: the L1 handler is its own decision (`l1Decide`) followed by
`pruneUpto` of the target — the function the L2 handler calls too. -/
theorem l1_handler_is_decision_then_pruneUpto (early : Bool) (W : Nat) (fx : Fixes) (pn : PNode)
    (l1 R : Nat) (ft : Fault) :
    pexec early W fx pn (.l1event l1 R) ft =
      match (l1Decide (getHeight pn.node.disk) l1 R 0).1 with
      | none => (pn, .ok)
      | some e => pruneUptoEv early W fx pn e ft :=
  pexec_l1event_eq early W fx pn l1 R ft

/-- `onNewBlock` never prunes the head: when an L2-head event prunes, the target is `num − R`, it is
at most the chain height ON DISK (the sweep deletes strictly below the target), the event's block is
on the chain (`num ≤ height`) and below the L1 head, the threshold has been reached and the counter
is reset. -/
theorem l2_event_never_prunes_head (l1 height : Option Nat) (num R per pending e p' : Nat)
    (h : l2Decide l1 height num R per pending = (some e, p')) :
    p' = 0 ∧ e = num - R ∧ R ≤ num ∧ per ≤ pending + 1 ∧
      (∃ hh, height = some hh ∧ num ≤ hh ∧ e ≤ hh) ∧ (∃ l, l1 = some l ∧ num < l) :=
  l2Decide_some h

/-- A stale L2-head event — its block is above the chain height, i.e. it has been reverted since
the event was published — is dropped: no prune, counter untouched; whatever L1 head, `R`, threshold. -/
theorem stale_l2_event_is_dropped (l1 : Option Nat) (h num R per pending : Nat) (hs : h < num) :
    l2Decide l1 (some h) num R per pending = (none, pending) :=
  l2Decide_stale l1 h num R per pending hs

/-- The counter `pendingL2Heads` stays below the threshold along EVERY history of calls, L1 events
and L2 events and every fault schedule (so a prune is triggered exactly by the `per`-th counted
event; restarts and L1-triggered prunes reset it). -/
theorem pruner_counter_below_threshold (early : Bool) (W : Nat) (fx : Fixes) (per : Nat)
    (hs : List (SEv × Fault)) (hper : ∀ x ∈ hs, ∀ num R p, x.1 = .l2 num R p → p = per) :
    (srun early W fx Svc.init hs).pending < max per 1 :=
  srun_pending_lt early W fx per hs Svc.init hper (by show 0 < max per 1; omega)

/-- `memory_tracks_disk` for the retention floor under `pruneUpto` from EITHER handler: any target
that does not exceed the chain height, any fault (the sweep completed, any of its batch commits
failed, the process died after any batch): the invariant (good node, floor seeded and at least
`oldest retained − 1`) survives, hence only reconstructible states are served. -/
theorem floor_tracks_disk_under_pruneUpto (W : Nat) (c : List Block) (F : Nat) (pn : PNode)
    (hi : PInv W c F pn) (hw : pn.wired = true) (e : Nat)
    (he : ∀ h, getHeight pn.node.disk = some h → e ≤ h) (ft : Fault) :
    FloorSafe (pruneUptoEv true W Fixes.all pn e ft).1 ∧
      ∃ F', GoodP W c F' (pruneUptoEv true W Fixes.all pn e ft).1.node := by
  obtain ⟨F', h⟩ := pruneUptoEv_inv hi hw e he ft
  exact ⟨floorSafe_of_inv h, F', h.good⟩

/-- Update order of the shared floor, stated directly: within a process (no crash) `pruneUpto(e)`
leaves the floor at least `e − 1` and never below what it was — for the completed sweep AND for a
sweep whose k-th batch commit failed, for every k (so whatever the committed batches removed — they
only delete below `e` — lies below the floor the readers see). -/
theorem floor_raised_before_any_batch (W : Nat) (fx : Fixes) (pn : PNode) (e : Nat) (ft : Fault) (f : Nat)
    (hf : pn.floor = some f) (hc : ft.isCrash = false) :
    ∃ g, (pruneUptoEv true W fx pn e ft).1.floor = some g ∧ f ≤ g ∧ e ≤ g + 1 :=
  pruneUptoEv_floor_mono W fx pn e ft f hf hc

/-- `retention_floor_tracks_disk` for the whole service: every history of calls, L1-head events AND
L2-head events (stale ones, below-threshold ones, pruning ones) of a process wired as `node.New`
does, from the empty node, every fault schedule: the node stays good and serves only states its
disk can reconstruct. -/
theorem retention_floor_tracks_disk_service (W : Nat) (hW : 0 < W) (hs : List (SEv × Fault))
    (hv : ValidSHist W Fixes.all Svc.init [] hs) :
    FloorSafe (srun true W Fixes.all Svc.init hs).pn ∧
      ∃ c F, GoodP W c F (srun true W Fixes.all Svc.init hs).pn.node := by
  obtain ⟨c, F, hi⟩ := sinv_run hW hs Svc.init [] [] 0 (pinv_init W hW) (fun _ h => by cases h) hv
  exact ⟨floorSafe_of_inv hi, c, F, hi.good⟩

/-- Histories without L2 events are exactly the histories of `retention_floor_tracks_disk`. -/
theorem service_without_l2_events (early : Bool) (W : Nat) (fx : Fixes) (hs : List (POp × Fault)) :
    (srun early W fx Svc.init (hs.map (fun x => ((match x.1 with
      | .call op => SEv.call op
      | .l1event l1 R => SEv.l1 l1 R), x.2)))).pn = prun early W fx PNode.init hs :=
  srun_eq_prun early W fx hs Svc.init

/-- Five blocks, L1 head 4, two reverts (height 2): the event of block 3 is STALE. -/
def hStale : List (SEv × Fault) :=
  [(.call (.store b0), .none), (.call (.store b1), .none), (.call (.store b2), .none),
   (.call (.store b3), .none), (.call (.store b4), .none), (.call (.l1head 4), .none),
   (.call .revert, .none), (.call .revert, .none)]

/-- … then the service at work (threshold 2): the stale event (dropped), a counted event, the event
that prunes to the head itself (target 2 = height) with its SECOND batch failing, a counted event,
an L1 event whose process dies after the first batch, and a prune with threshold 1. -/
def hSvc : List (SEv × Fault) := hStale ++
  [(.l2 3 0 2, .none), (.l2 1 0 2, .none), (.l2 2 0 2, .failAt 1), (.l2 2 1 2, .none),
   (.l1 1 0, .crashAfter 0), (.l2 2 0 1, .none)]

-- non-vacuity of `retention_floor_tracks_disk_service`
example : ValidSHist 4 .all Svc.init [] hSvc := by
  simp only [hSvc, hStale, List.cons_append, List.nil_append, ValidSHist, and_true]
  refine ⟨?_, ?_, ?_, ?_, ?_, trivial, Or.inl (by decide), Or.inl (by decide), rfl, rfl, rfl, rfl, rfl, rfl⟩ <;>
    (intro _; refine ⟨⟨?_, ?_, ?_⟩, ?_⟩ <;> first | decide | (unfold FreshBelow; decide))

example : let s := srun true 4 .all Svc.init hSvc
    getHeight s.pn.node.disk = some 2 ∧ floorOf s.pn.node.disk = 2 ∧ s.pn.floor = some 1 ∧ s.pending = 0 ∧
      stateServed s.pn.floor s.pn.node.disk 0 = false ∧ stateServed s.pn.floor s.pn.node.disk 1 = true := by
  decide

/-- The stale-event guard at work, and what it excludes: after `hStale` (height 2, L1 head 4) the
event of the reverted block 3 is dropped by the code; WITHOUT the guard `onNewBlock` would call
`pruneUpto(3)`, which deletes the records of the head block 2 itself (state update and commitments
gone while the chain height still says 2) and raises the floor to the head. -/
theorem stale_l2_event_dropped_by_guard :
    let s := srun true 4 .all Svc.init hStale
    getHeight s.pn.node.disk = some 2 ∧ getL1 s.pn.node.disk = some 4 ∧
      l2Decide (getL1 s.pn.node.disk) (getHeight s.pn.node.disk) 3 0 1 0 = (none, 0) ∧
      (sexec true 4 .all s (.l2 3 0 1) .none).1.pn.node.disk (.su 2) = s.pn.node.disk (.su 2) := by
  decide

theorem stale_l2_event_without_guard_would_prune_head :
    let s := srun true 4 .all Svc.init hStale
    l2DecideNoStaleGuard (getL1 s.pn.node.disk) (getHeight s.pn.node.disk) 3 0 1 0 = (some 3, 0) ∧
      (let r := pruneUptoEv true 4 .all s.pn 3 .none
       getHeight r.1.node.disk = some 2 ∧ (r.1.node.disk (.su 2)).isSome = false ∧
         (r.1.node.disk (.commit 2)).isSome = false ∧ r.1.floor = some 2) := by
  decide

/-! ## Regression witnesses for defects that are fixed in /repo (code variants that no longer exist)

Window size 2 or 4 so that the kernel can run them; the harness replayed the same histories on
the real code with 8192. Each `_before_<commit>` is the defect, `_now` the same history on the
present code. -/

/-- L4 (store), before 3373c0b: a commit failure while storing the last block of a window left the
in-memory filter rolled over; the retry failed with "block number is not within range". -/
theorem failed_store_commit_blocks_retry_before_3373c0b :
    (exec 2 ⟨false, true, true, false⟩ (run 2 ⟨false, true, true, false⟩ Node.init
      [(.store b0, .none), (.store b1, .failAt 0)]) (.store b1) .none).2 = .err .range := by decide

theorem failed_store_commit_retry_ok_now :
    (exec 2 .all (run 2 .all Node.init [(.store b0, .none), (.store b1, .failAt 0)]) (.store b1) .none).2
      = .ok := by decide

/-- L4 (revert), before 3373c0b: after a failed RevertHead commit the head was still on disk but
the in-memory filter had lost its bits. -/
theorem failed_revert_commit_loses_head_bits_before_3373c0b :
    let n := run 4 ⟨false, true, true, false⟩ Node.init
      [(.store b0, .none), (.store b1, .none), (.revert, .failAt 0)]
    getHeight n.disk = some 1 ∧ n.mem.has? 1 6 = some false ∧ n.mem.next? = some 1 := by decide

/-- L15, before 702b167: reverting the last block of a window left that window's persisted filter;
a process that died afterwards could never store the block again. -/
theorem crossing_revert_then_crash_blocks_store_before_702b167 :
    (exec 2 .none
      (run 2 .none Node.init [(.store b0, .none), (.store b1, .none), (.store b2, .none),
        (.revert, .none), (.revert, .crashAfter 0)]) (.store b1') .none).2 = .err .range := by decide

theorem crossing_revert_then_crash_ok_now :
    (exec 2 .all
      (run 2 .all Node.init [(.store b0, .none), (.store b1, .none), (.store b2, .none),
        (.revert, .none), (.revert, .crashAfter 0)]) (.store b1') .none).2 = .ok := by decide

/-- L3, before 84d7a3b: the shutdown snapshot was trusted after a revert-and-replace. -/
theorem stale_snapshot_after_revert_before_84d7a3b :
    let n := run 4 .none Node.init [(.store b0, .none), (.store b1, .none), (.restart, .none),
      (.revert, .none), (.store b1', .none), (.kill, .none)]
    getHeight n.disk = some 1 ∧ initObs 4 n.disk 1 9 = some (false, 2) := by decide

theorem stale_snapshot_gone_now :
    let n := run 4 .all Node.init [(.store b0, .none), (.store b1, .none), (.restart, .none),
      (.revert, .none), (.store b1', .none), (.kill, .none)]
    initObs 4 n.disk 1 9 = some (true, 2) := by decide

/-- L17, before c8ac4a7: the window write of a lazy initialisation fails once inside
`WriteRunningEventFilter` — the error was cached (`Mem.broken`); every later snapshot attempt failed
with it although the disk was intact and healthy, and the next block was refused once. -/
theorem failed_init_write_is_cached_before_c8ac4a7 :
    let fx := Fixes.beforeC8ac4a7
    let n := run 2 fx Node.init (hInit ++ [(.snap, .failInit)])
    n.mem = .broken ∧ getHeight n.disk = some 1 ∧
    (exec 2 fx n .snap .none).2 = .err .init ∧
    (exec 2 fx (exec 2 fx n .snap .none).1 .snap .none).2 = .err .init ∧
    (exec 2 fx n (.store b2) .none).2 = .err .init ∧
    (exec 2 fx (exec 2 fx n (.store b2) .none).1 (.store b2) .none).2 = .ok := by decide

theorem failed_init_write_not_cached_now :
    let n := run 2 .all Node.init (hInit ++ [(.snap, .failInit)])
    n.mem = .lazy ∧ (exec 2 .all n .snap .none).2 = .ok ∧ (exec 2 .all n (.store b2) .none).2 = .ok := by
  decide

/-- What held before c8ac4a7: `Good` after every history and fault schedule in which no write of a
lazy initialisation FAILS (crashes inside the initialisation included). -/
theorem crash_consistent_before_c8ac4a7 (W : Nat) (hW : 0 < W) (hs : List (Op × Fault))
    (hv : ValidHist W Fixes.beforeC8ac4a7 Node.init hs) (hni : ∀ x ∈ hs, x.2 ≠ .failInit) :
    ∃ c, Good W c (run W Fixes.beforeC8ac4a7 Node.init hs) :=
  good_run_now hW rfl rfl rfl hs Node.init [] (good_init W hW) hv hni

end Juno.C05.Props
