import JunoModel.C05.ProofsP4
/-!
Helper lemmas for C05, part 23 (round 5): `GoodP` is an invariant of EVERY history over store /
revert / set-L1-head / snapshot / restart / kill / prune with every fault schedule, for the node as
`blockchain.New` wires it; and the shared in-memory retention floor stays safe along every history
of calls and pruner events.
-/
namespace Juno.C05

/-! ### Prune -/

theorem prunePlan_mem (W : Nat) (fx : Fixes) (n : Node) (e : Nat) : (plan W fx n (.prune e)).mem = n.mem := by
  simp only [plan, prunePlan, prunePlanThr]
  repeat' split
  all_goals rfl

theorem exec_prune_mem (W : Nat) (fx : Fixes) (n : Node) (e : Nat) (ft : Fault) :
    (exec W fx n (.prune e) ft).1.mem = n.mem ∨ (exec W fx n (.prune e) ft).1.mem = .lazy := by
  have hm := prunePlan_mem W fx n e
  cases ft with
  | none => left; simp only [exec, memAfter, hm]
  | failAt k =>
    by_cases hk : k < (plan W fx n (.prune e)).commits.length
    · left; rw [exec_failAt_lt hk]; simp only [failMem, memAfter, hm]
    · left; rw [exec_failAt_ge hk]; simp only [exec, memAfter, hm]
  | crashAfter k => right; rfl
  | failInit => left; rw [exec_prune_failInit]; simp only [exec, memAfter, hm]
  | crashInit => right; rfl

theorem filtOKP_mono {W : Nat} {c : List Block} {F F' : Nat} {f : Filt} (h : F ≤ F') (hf : FiltOKP W c F f) :
    FiltOKP W c F' f :=
  ⟨hf.next, hf.lo, fun b i h1 h2 h3 hb => hf.sound b i h1 (by omega) h3 hb⟩

theorem memOKP_mono {W : Nat} {c : List Block} {F F' : Nat} {m : Mem} (h : F ≤ F') (hm : MemOKP W c F m) :
    MemOKP W c F' m := by
  cases m with
  | lazy => trivial
  | ready f => exact filtOKP_mono h hm
  | broken => exact hm

/-- The image after `PruneUpto(e)` (head retained), any fault: a pruning node's image at a floor
between the old one and `max old e`. -/
theorem prune_exec_img {W : Nat} (fx : Fixes) {c : List Block} (hwf : WfChain c) {F0 : Nat} {n : Node}
    (hp : PImg W blockHashLag c F0 n.disk) (hF0 : F0 ≤ c.length - 1) (e : Nat)
    (he : ∀ h, getHeight n.disk = some h → e ≤ h) (ft : Fault) :
    ∃ F, F0 ≤ F ∧ F ≤ max F0 e ∧ F ≤ c.length - 1 ∧
      PImg W blockHashLag c F (exec W fx n (.prune e) ft).1.disk := by
  by_cases hne : c.length = 0
  · -- empty database: nothing happens
    have hh : getHeight n.disk = none := by rw [hp.pcoh.height, if_pos hne]
    have hpl : plan W fx n (.prune e) = ⟨n.disk, [], n.mem, .ok⟩ := by
      show prunePlanThr W n e cutNonEmpty = _
      simp only [prunePlanThr, hh]
    refine ⟨F0, Nat.le_refl _, by omega, hF0, ?_⟩
    have hd : (exec W fx n (.prune e) ft).1.disk = n.disk := by
      cases ft with
      | failInit => rw [exec_prune_failInit]; simp [exec, hpl, applyCommits]
      | none => simp [exec, hpl, applyCommits]
      | failAt k => simp [exec, hpl, applyCommits]
      | crashAfter k => simp [exec, hpl, applyCommits]
      | crashInit => simp [exec, hpl]
    rw [hd]; exact hp
  · have hh : getHeight n.disk = some (c.length - 1) := by rw [hp.pcoh.height, if_neg hne]
    have hele : e ≤ c.length - 1 := he _ hh
    by_cases hlt : F0 < e
    · by_cases hb : ft ≠ .failInit ∧ ft ≠ .crashInit
      · obtain ⟨F, h1, h2, h3, _⟩ := prune_exec_imagesP fx hwf hp hlt (by omega) ft hb
        exact ⟨F, h1, by omega, by omega, h3⟩
      · have hpl : plan W fx n (.prune e) = prunePlanThr W n e cutNonEmpty := rfl
        rcases Classical.not_and_iff_not_or_not.mp hb with h1 | h1
        · have : ft = .failInit := Classical.not_not.mp h1
          subst this
          rw [exec_prune_failInit]
          obtain ⟨F, h1, h2, h3, _⟩ := prune_exec_imagesP fx hwf hp hlt (by omega) .none (by simp)
          exact ⟨F, h1, by omega, by omega, h3⟩
        · have : ft = .crashInit := Classical.not_not.mp h1
          subst this
          obtain ⟨h0, _⟩ := prune_imagesP (W := W) (cut := cutNonEmpty) hwf hp hlt (by omega) 0
          refine ⟨F0, Nat.le_refl _, by omega, hF0, ?_⟩
          simp only [exec, hpl, h0]; exact hp
    · have hor : oldestRetained n.disk (c.length - 1 + 1) 0 = some F0 := by
        rw [oldestRetained_pcoh hp.pcoh _ 0 (by omega)]
        rw [if_pos ⟨by omega, by omega⟩]
      have hpl : plan W fx n (.prune e) = ⟨n.disk, [], n.mem, .ok⟩ := by
        show prunePlanThr W n e cutNonEmpty = _
        simp only [prunePlanThr, hh, hor]
        rw [if_pos (by omega)]
      refine ⟨F0, Nat.le_refl _, by omega, hF0, ?_⟩
      have hd : (exec W fx n (.prune e) ft).1.disk = n.disk := by
        cases ft with
        | failInit => rw [exec_prune_failInit]; simp [exec, hpl, applyCommits]
        | none => simp [exec, hpl, applyCommits]
        | failAt k => simp [exec, hpl, applyCommits]
        | crashAfter k => simp [exec, hpl, applyCommits]
        | crashInit => simp [exec, hpl]
      rw [hd]; exact hp

theorem prune_goodP {W : Nat} {c : List Block} {F : Nat} {n : Node} (hg : GoodP W c F n) (e : Nat)
    (he : ∀ h, getHeight n.disk = some h → e ≤ h) (ft : Fault) :
    ∃ F', F ≤ F' ∧ F' ≤ max F e ∧ GoodP W c F' (execP W Fixes.all n (.prune e) ft).1 := by
  rw [execP_prune]
  obtain ⟨F', h1, h2, h3, h4⟩ := prune_exec_img Fixes.all hg.wf hg.img hg.floor e he ft
  refine ⟨F', h1, h2, hg.wf, h4, ?_, h3⟩
  rcases exec_prune_mem W Fixes.all n e ft with hm | hm
  · rw [hm]; exact memOKP_mono h1 hg.mem
  · rw [hm]; trivial

/-! ### One call, any fault -/

theorem mem_of_mem_dropLast {c : List Block} {x : Block} (h : x ∈ c.dropLast) : x ∈ c := by
  rw [List.dropLast_eq_take] at h
  exact List.mem_of_mem_take h

/-- The invariant step: one call of a node built by `blockchain.New`, from a node good for chain
`c` pruned below `F`, under ANY fault. The floor only moves in a prune. -/
theorem execP_goodP {W : Nat} (hW : 0 < W) {c : List Block} {F : Nat} {n : Node} {ever : List Block}
    (hg : GoodP W c F n) (hev : ∀ x ∈ c, x ∈ ever) (op : Op) (ft : Fault)
    (hv : match op with
      | .store b => Extends n.disk b → Fresh n.disk b ∧ FreshBelow ever (floorOf n.disk) b
      | .revert => floorOf n.disk = 0 ∨ ∀ h, getHeight n.disk = some h → floorOf n.disk < h
      | .prune e => ∀ h, getHeight n.disk = some h → e ≤ h
      | _ => True) :
    ∃ c' F', GoodP W c' F' (execP W Fixes.all n op ft).1 ∧
      (∀ x ∈ c', x ∈ (match op with | .store b => b :: ever | _ => ever)) ∧ F ≤ F' ∧
      ((∀ e, op ≠ .prune e) → F' = F) ∧ (∀ e, op = .prune e → F' ≤ max F e) := by
  -- the calls that go through a plan with at most one commit
  have viaPlan : ∀ (op' : Op) (ever' : List Block) (c' : List Block), (∀ x ∈ c', x ∈ ever') →
      (∀ x ∈ c, x ∈ ever') → (∀ e, op' ≠ .prune e) →
      PlanOK W c c' F op' (planG (initFilterP W) W Fixes.all n op') (failMemG (initFilterP W) W Fixes.all n op') →
      ∃ c'' F', GoodP W c'' F' (execP W Fixes.all n op' ft).1 ∧
        (∀ x ∈ c'', x ∈ ever') ∧ F ≤ F' ∧
        ((∀ e, op' ≠ .prune e) → F' = F) ∧ (∀ e, op' = .prune e → F' ≤ max F e) := by
    intro op' ever' c' hc' hc hnp hpl
    rcases execG_goodP_of_planOK (nw := initNeedsWriteP W) hg hpl ft with h | h
    · exact ⟨c, F, h, hc, Nat.le_refl _, fun _ => rfl, fun e he => absurd he (hnp e)⟩
    · exact ⟨c', F, h, hc', Nat.le_refl _, fun _ => rfl, fun e he => absurd he (hnp e)⟩
  cases op with
  | store b =>
    obtain ⟨c', hc', hpl⟩ := planOK_store hW hg hev hv
    apply viaPlan (.store b) (b :: ever) c' _ (fun x hx => List.mem_cons_of_mem _ (hev x hx))
      (by intro e h; cases h) hpl
    intro x hx
    rcases hc' with rfl | rfl
    · exact List.mem_cons_of_mem _ (hev x hx)
    · rcases List.mem_append.mp hx with h | h
      · exact List.mem_cons_of_mem _ (hev x h)
      · simp at h; subst h; exact List.mem_cons_self
  | revert =>
    obtain ⟨c', hc', hpl⟩ := planOK_revert hW hg hv
    apply viaPlan .revert ever c' _ hev (by intro e h; cases h) hpl
    intro x hx
    rcases hc' with rfl | rfl
    · exact hev x hx
    · exact hev x (mem_of_mem_dropLast hx)
  | l1head v => exact viaPlan (.l1head v) ever c hev hev (by intro e h; cases h) (planOK_l1head hg v)
  | snap => exact viaPlan .snap ever c hev hev (by intro e h; cases h) (planOK_snap hW hg .snap (Or.inl rfl))
  | restart =>
    exact viaPlan .restart ever c hev hev (by intro e h; cases h) (planOK_snap hW hg .restart (Or.inr rfl))
  | kill => exact viaPlan .kill ever c hev hev (by intro e h; cases h) (planOK_kill hg)
  | prune e =>
    obtain ⟨F', h1, h2, h3⟩ := prune_goodP hg e hv ft
    exact ⟨c, F', h3, hev, h1, fun h => absurd rfl (h e), fun e' he => by cases he; exact h2⟩

/-- Every history over store / revert / set-L1-head / snapshot / restart / kill / prune, every
fault schedule: the node stays good (for some chain, pruned below some floor). -/
theorem goodP_run {W : Nat} (hW : 0 < W) : ∀ (hs : List (Op × Fault)) (n : Node) (ever : List Block)
    (c : List Block) (F : Nat), GoodP W c F n → (∀ x ∈ c, x ∈ ever) → ValidHistP W Fixes.all n ever hs →
    ∃ c' F', GoodP W c' F' (runP W Fixes.all n hs) := by
  intro hs
  induction hs with
  | nil => intro n _ c F hg _ _; exact ⟨c, F, hg⟩
  | cons x rest ih =>
    intro n ever c F hg hev hv
    obtain ⟨op, ft⟩ := x
    simp only [ValidHistP] at hv
    simp only [runP]
    obtain ⟨c', F', hg', hev', _, _, _⟩ := execP_goodP hW hg hev op ft hv.1
    exact ih _ _ c' F' hg' hev' hv.2

/-- On a good pruning node the block the network offers next is stored. -/
theorem store_ok_of_goodP {W : Nat} (hW : 0 < W) {c : List Block} {F : Nat} {n : Node} {b : Block}
    (hg : GoodP W c F n) (hn : NextBlockP c n.disk b) :
    (execP W Fixes.all n (.store b) .none).2 = .ok ∧
      GoodP W (c ++ [b]) F (execP W Fixes.all n (.store b) .none).1 := by
  have hen := expectedNext_of_pcoh hg.img.pcoh hg.floor
  have h1 : ¬ (expectedNext n.disk).1 ≠ b.num := by rw [hen, hn.num]; simp
  have h2 : ¬ (expectedNext n.disk).2 ≠ b.parent := by rw [hen, hn.parent]; simp
  have h3 : ¬ stateRoot n.disk ≠ b.oldRoot := by rw [hg.img.pcoh.state, hn.oldRoot]; simp
  have h4 : ¬ b.applied ≠ b.root := by rw [hn.newRoot]; simp
  have hwf' := wf_append_of_fresh hg.wf hn.num hn.parent hn.oldRoot hn.freshAll.1 hn.freshAll.2 hn.fresh.2.2
  obtain ⟨hg1, ⟨f, hmem, hf⟩, _⟩ := ensureInitP_goodP hW hg
  have hFle : F ≤ c.length := by have := hg.floor; omega
  have hnlt : ¬ b.num < F := by rw [hn.num]; omega
  have hfF := filtOK_forget hg.wf.num hf
  have hnb' : b.num = (forget F c).length := by rw [forget_length]; exact hn.num
  obtain ⟨f', ws, hins, hf', hws⟩ := insert_filtOK hW hfF hnb'
  rw [forget_length] at hws
  have hplan : planG (initFilterP W) W Fixes.all n (.store b) =
      ⟨(ensureInitG (initFilterP W) n).disk, [blockWrites b ++ ws], .ready f', .ok⟩ := by
    show storePlanG (initFilterP W) W n b = _
    simp only [storePlanG]
    rw [if_neg h1, if_neg h2, if_neg h3, if_neg h4]
    simp only [hmem, hins]
  have hex : execP W Fixes.all n (.store b) .none =
      (⟨applyBatch (ensureInitG (initFilterP W) n).disk (blockWrites b ++ ws), .ready f'⟩, .ok) := by
    simp only [execP, execG, hplan, applyCommits, List.foldl_cons, List.foldl_nil, memAfter]
  rw [hex]
  refine ⟨rfl, hwf', ?_, ?_, by simp; omega⟩
  · exact pimg_store hW hg.wf hwf' hg1.img hFle hn.num hn.fresh.2.2 hn.freshAll.1 hn.freshAll.2 hins hws
  · show FiltOKP W (c ++ [b]) F f'
    apply filtOKP_of_forget hwf'.num
    rw [forget_append hnlt]
    exact hf'

/-! ### The shared retention floor along histories of calls and pruner events -/

/-- Inputs of a history of a process with (`wired`) or without a shared retention floor: the
clauses of `ValidHistP` for the calls; the package-level `PruneUpto` (`.call (.prune e)`) only on a
process WITHOUT a shared floor (it does not raise one — at runtime only the pruner service prunes);
pruner events only on a wired process. -/
def ValidPHist (W : Nat) (fx : Fixes) : PNode → List Block → List (POp × Fault) → Prop
  | _, _, [] => True
  | pn, ever, (pop, ft) :: rest =>
    (match pop with
      | .call (.store b) => Extends pn.node.disk b → Fresh pn.node.disk b ∧ FreshBelow ever (floorOf pn.node.disk) b
      | .call .revert => floorOf pn.node.disk = 0 ∨ ∀ h, getHeight pn.node.disk = some h → floorOf pn.node.disk < h
      | .call (.prune e) => pn.wired = false ∧ ∀ h, getHeight pn.node.disk = some h → e ≤ h
      | .call _ => True
      | .l1event _ _ => pn.wired = true) ∧
    ValidPHist W fx (pexec true W fx pn pop ft).1
      (match pop with | .call (.store b) => b :: ever | _ => ever) rest

/-- The invariant: the node is good, the floor is seeded exactly on wired processes, and a seeded
floor is at least `oldest retained − 1`. -/
structure PInv (W : Nat) (c : List Block) (F : Nat) (pn : PNode) : Prop where
  good : GoodP W c F pn.node
  seeded : pn.floor.isSome = pn.wired
  safe : ∀ f, pn.floor = some f → F ≤ f + 1

theorem freshFloor_inv {W : Nat} {c : List Block} {F : Nat} {n : Node} (wired : Bool) (hg : GoodP W c F n) :
    PInv W c F ⟨n, freshFloor wired n.disk, wired⟩ := by
  refine ⟨hg, ?_, ?_⟩
  · cases wired <;> simp [freshFloor, seedFloor, raiseFloor]
  · intro f hf
    cases wired with
    | false => simp [freshFloor] at hf
    | true =>
      simp only [freshFloor, if_true, seedFloor, raiseFloor, Option.some.injEq] at hf
      have := floorOf_of_pcoh hg.img.pcoh hg.floor
      show F ≤ f + 1
      omega

theorem floorSafe_of_inv {W : Nat} {c : List Block} {F : Nat} {pn : PNode} (h : PInv W c F pn) : FloorSafe pn := by
  obtain ⟨n, fl, w⟩ := pn
  cases hfl : fl with
  | none =>
    subst hfl
    exact floorSafe_of_unseeded h.good.wf h.good.img.pcoh h.good.floor
  | some f =>
    subst hfl
    apply floorSafe_of_seeded
    show floorOf n.disk ≤ f + 1
    rw [floorOf_of_pcoh h.good.img.pcoh h.good.floor]
    exact h.safe f rfl

theorem ite_or {α : Type} (p : Prop) [Decidable p] (a b : α) :
    (if p then a else b) = b ∨ (if p then a else b) = a := by
  by_cases h : p <;> simp [h]

theorem pexec_call_node (W : Nat) (fx : Fixes) (pn : PNode) (op : Op) (ft : Fault) :
    (pexec true W fx pn (.call op) ft).1.node = (execP W fx pn.node op ft).1 := rfl

theorem pexec_call_wired (W : Nat) (fx : Fixes) (pn : PNode) (op : Op) (ft : Fault) :
    (pexec true W fx pn (.call op) ft).1.wired = pn.wired := rfl

theorem pexec_call_floor (W : Nat) (fx : Fixes) (pn : PNode) (op : Op) (ft : Fault) :
    (pexec true W fx pn (.call op) ft).1.floor = pn.floor ∨
      (pexec true W fx pn (.call op) ft).1.floor = freshFloor pn.wired (execP W fx pn.node op ft).1.disk := by
  simp only [pexec]
  exact ite_or _ _ _

theorem call_inv_step {W : Nat} (hW : 0 < W) {c : List Block} {F : Nat} {pn : PNode} {ever : List Block}
    (hi : PInv W c F pn) (hev : ∀ x ∈ c, x ∈ ever) (op : Op) (ft : Fault)
    (hvop : match op with
      | .store b => Extends pn.node.disk b → Fresh pn.node.disk b ∧ FreshBelow ever (floorOf pn.node.disk) b
      | .revert => floorOf pn.node.disk = 0 ∨ ∀ h, getHeight pn.node.disk = some h → floorOf pn.node.disk < h
      | .prune e => ∀ h, getHeight pn.node.disk = some h → e ≤ h
      | _ => True)
    (hkeepw : (∃ e, op = .prune e) → pn.floor = none) :
    ∃ c' F', PInv W c' F' (pexec true W Fixes.all pn (.call op) ft).1 ∧
      (∀ x ∈ c', x ∈ (match op with | .store b => b :: ever | _ => ever)) := by
  obtain ⟨c', F', hg', hev', _, hF', _⟩ := execP_goodP hW hi.good hev op ft hvop
  refine ⟨c', F', ?_, hev'⟩
  rcases pexec_call_floor W Fixes.all pn op ft with hfl | hfl
  · refine ⟨by rw [pexec_call_node]; exact hg', by rw [hfl, pexec_call_wired]; exact hi.seeded, ?_⟩
    intro f hf
    rw [hfl] at hf
    by_cases hpr : ∃ e, op = .prune e
    · rw [hkeepw hpr] at hf; cases hf
    · have : F' = F := hF' (fun e he => hpr ⟨e, he⟩)
      rw [this]; exact hi.safe f hf
  · have hinv := freshFloor_inv pn.wired hg'
    refine ⟨by rw [pexec_call_node]; exact hg', by rw [hfl, pexec_call_wired]; exact hinv.seeded, ?_⟩
    intro f hf
    rw [hfl] at hf
    exact hinv.safe f hf

theorem pexec_inv {W : Nat} (hW : 0 < W) {c : List Block} {F : Nat} {pn : PNode} {ever : List Block}
    (hi : PInv W c F pn) (hev : ∀ x ∈ c, x ∈ ever) (pop : POp) (ft : Fault)
    (hv : match pop with
      | .call (.store b) => Extends pn.node.disk b → Fresh pn.node.disk b ∧ FreshBelow ever (floorOf pn.node.disk) b
      | .call .revert => floorOf pn.node.disk = 0 ∨ ∀ h, getHeight pn.node.disk = some h → floorOf pn.node.disk < h
      | .call (.prune e) => pn.wired = false ∧ ∀ h, getHeight pn.node.disk = some h → e ≤ h
      | .call _ => True
      | .l1event _ _ => pn.wired = true) :
    ∃ c' F', PInv W c' F' (pexec true W Fixes.all pn pop ft).1 ∧
      (∀ x ∈ c', x ∈ (match pop with | .call (.store b) => b :: ever | _ => ever)) := by
  cases pop with
  | call op =>
    have hnone_of_unwired : pn.wired = false → pn.floor = none := by
      intro hw
      have := hi.seeded
      rw [hw] at this
      cases hfl : pn.floor with
      | none => rfl
      | some f => rw [hfl] at this; cases this
    cases op with
    | store b => exact call_inv_step hW hi hev (.store b) ft hv (by rintro ⟨e, he⟩; cases he)
    | revert => exact call_inv_step hW hi hev .revert ft hv (by rintro ⟨e, he⟩; cases he)
    | l1head v => exact call_inv_step hW hi hev (.l1head v) ft trivial (by rintro ⟨e, he⟩; cases he)
    | snap => exact call_inv_step hW hi hev .snap ft trivial (by rintro ⟨e, he⟩; cases he)
    | restart => exact call_inv_step hW hi hev .restart ft trivial (by rintro ⟨e, he⟩; cases he)
    | kill => exact call_inv_step hW hi hev .kill ft trivial (by rintro ⟨e, he⟩; cases he)
    | prune e => exact call_inv_step hW hi hev (.prune e) ft hv.2 (fun _ => hnone_of_unwired hv.1)
  | l1event l1 R =>
    have hw : pn.wired = true := hv
    obtain ⟨f0, hf0⟩ : ∃ f0, pn.floor = some f0 := by
      have := hi.seeded
      rw [hw] at this
      exact Option.isSome_iff_exists.mp this
    simp only [pexec]
    cases hh : getHeight pn.node.disk with
    | none => exact ⟨c, F, hi, hev⟩
    | some h =>
      simp only []
      by_cases hg : l1 ≥ h ∨ l1 < R
      · rw [if_pos hg]; exact ⟨c, F, hi, hev⟩
      · rw [if_neg hg]
        have he : ∀ h', getHeight pn.node.disk = some h' → l1 - R ≤ h' := by
          intro h' hh'; rw [hh] at hh'; cases hh'; omega
        obtain ⟨F', h1, h2, h3⟩ := prune_goodP hi.good (l1 - R) he ft
        refine ⟨c, F', ?_, hev⟩
        by_cases hcr : ft.isCrash = true
        · simp only [hcr, if_true]
          exact freshFloor_inv pn.wired h3
        · simp only [hcr, Bool.false_eq_true, if_false, if_true]
          have hF0 := hi.safe f0 hf0
          by_cases hpos : l1 - R > 0
          · simp only [hpos, if_true]
            obtain ⟨g, hg1, hg2, hg3⟩ := raiseFloor_some pn.floor (l1 - R - 1)
            refine ⟨h3, ?_, ?_⟩
            · show (raiseFloor pn.floor (l1 - R - 1)).isSome = pn.wired
              rw [hg1, hw]; rfl
            · intro f hf
              have hfe : raiseFloor pn.floor (l1 - R - 1) = some f := hf
              rw [hg1] at hfe
              cases hfe
              have := hg3 f0 hf0
              omega
          · simp only [hpos, if_false]
            refine ⟨h3, hi.seeded, ?_⟩
            intro f hf
            have hfe : pn.floor = some f := hf
            rw [hf0] at hfe
            cases hfe
            omega

/-- Every history of calls and pruner events of a process, every fault schedule: the node stays
good and whatever it serves through `StateAtBlockNumber` is reconstructible from its disk. -/
theorem pinv_run {W : Nat} (hW : 0 < W) : ∀ (hs : List (POp × Fault)) (pn : PNode) (ever : List Block)
    (c : List Block) (F : Nat), PInv W c F pn → (∀ x ∈ c, x ∈ ever) → ValidPHist W Fixes.all pn ever hs →
    ∃ c' F', PInv W c' F' (prun true W Fixes.all pn hs) := by
  intro hs
  induction hs with
  | nil => intro pn _ c F hi _ _; exact ⟨c, F, hi⟩
  | cons x rest ih =>
    intro pn ever c F hi hev hv
    obtain ⟨pop, ft⟩ := x
    simp only [ValidPHist] at hv
    simp only [prun]
    obtain ⟨c', F', hi', hev'⟩ := pexec_inv hW hi hev pop ft hv.1
    exact ih _ _ c' F' hi' hev' hv.2

/-! Helpers for the concrete (non-vacuity) histories in `Props`. -/

theorem le_height_of {d : Disk} {e k : Nat} (h : getHeight d = some k) (hk : e ≤ k) :
    ∀ h', getHeight d = some h' → e ≤ h' := by
  intro h' hh; rw [h] at hh; cases hh; exact hk

theorem floor_lt_height_of {d : Disk} {k : Nat} (h : getHeight d = some k) (hk : floorOf d < k) :
    ∀ h', getHeight d = some h' → floorOf d < h' := by
  intro h' hh; rw [h] at hh; cases hh; exact hk

theorem pinv_init (W : Nat) (hW : 0 < W) : PInv W [] 0 PNode.init :=
  ⟨goodP_init W hW, rfl, fun f _ => Nat.zero_le _⟩

end Juno.C05
