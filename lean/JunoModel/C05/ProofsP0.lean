import JunoModel.C05.ProofsInit
/-!
Helper definitions for C05, part 17 (round 5): the vocabulary for histories that CONTAIN prune
calls — a node whose `Blockchain` uses the floor-aware filter initialiser (`execP`, what
`blockchain.New` installs) and whose disk is pruned below a floor `F`.
-/
namespace Juno.C05

/-- The in-memory filter of a node pruned below `F`: dropped, or exact for the retained blocks. -/
def MemOKP (W : Nat) (c : List Block) (F : Nat) : Mem → Prop
  | .lazy => True
  | .ready f => FiltOKP W c F f
  | .broken => False

/-- Everything the property asks of a node at rest whose disk is pruned below `F` (`F = 0`: never
pruned): block buckets `PCoh` (blocks from `F` on fully present, blocks below fully absent up to
the two documented carve-outs), persisted windows exactly the complete ones from the floor's own
window on, snapshot sound for retained blocks, memory dropped or exact, the head retained. -/
structure GoodP (W : Nat) (c : List Block) (F : Nat) (n : Node) : Prop where
  wf : WfChain c
  img : PImg W blockHashLag c F n.disk
  mem : MemOKP W c F n.mem
  floor : F ≤ c.length - 1

/-- Collision-freeness against blocks that are no longer on disk: the offered block does not reuse
the hash or a transaction hash of any block offered earlier whose number lies below the floor
(their lookups have been pruned, so `Fresh` on the disk cannot see them). -/
def FreshBelow (ever : List Block) (F : Nat) (b : Block) : Prop :=
  ∀ x ∈ ever, x.num < F → x.hash ≠ b.hash ∧ ∀ t ∈ b.txs, t ∉ x.txs

/-- Histories over store / revert / set-L1-head / snapshot / restart / kill / PRUNE for a node built
by `blockchain.New` (`execP`). `ever` = the blocks offered so far. Inputs: a block that extends
the head is fresh (on the disk, and against the pruned blocks); the pruner never prunes the head
(`e ≤ height`); a revert never removes the oldest retained block of a pruned node (reorgs stay above
the retention floor). -/
def ValidHistP (W : Nat) (fx : Fixes) : Node → List Block → List (Op × Fault) → Prop
  | _, _, [] => True
  | n, ever, (op, ft) :: rest =>
    (match op with
      | .store b => Extends n.disk b → Fresh n.disk b ∧ FreshBelow ever (floorOf n.disk) b
      | .revert => floorOf n.disk = 0 ∨ ∀ h, getHeight n.disk = some h → floorOf n.disk < h
      | .prune e => ∀ h, getHeight n.disk = some h → e ≤ h
      | _ => True) ∧
    ValidHistP W fx (execP W fx n op ft).1 (match op with | .store b => b :: ever | _ => ever) rest

/-- The next block the network would offer on top of chain `c` to a node pruned below `F`. -/
structure NextBlockP (c : List Block) (d : Disk) (b : Block) : Prop where
  num : b.num = c.length
  parent : b.parent = (c.getLast?.map (·.hash)).getD 0
  oldRoot : b.oldRoot = (c.getLast?.map (·.root)).getD 0
  newRoot : b.applied = b.root
  fresh : Fresh d b
  /-- not a hash / transaction hash of any block of the chain, pruned ones included -/
  freshAll : c.find? (fun x => x.hash = b.hash) = none ∧ ∀ t ∈ b.txs, lookupTx c t = none

theorem goodP_of_good {W : Nat} {c : List Block} {n : Node} (hg : Good W c n) : GoodP W c 0 n := by
  refine ⟨hg.wf, pimg_of_good hg.coh hg.wins hg.snap, ?_, Nat.zero_le _⟩
  have := hg.mem
  cases hm : n.mem with
  | lazy => trivial
  | ready f => rw [hm] at this; exact filtOKP_zero.mpr this
  | broken => rw [hm] at this; exact this

theorem goodP_init (W : Nat) (hW : 0 < W) : GoodP W [] 0 Node.init := goodP_of_good (good_init W hW)

end Juno.C05
