import JunoModel.C05.ProofsCoh2
/-! Helper lemmas for C05, part 4: reverting the head removes exactly the head from the coherent
chain. -/
namespace Juno.C05

theorem delTx_misses (k : Key) (hk : ∀ t, k ≠ .txLookup t) (ts : List Nat) :
    ∀ w ∈ ts.map (fun t => Write.del (.txLookup t)), w.misses k := by
  intro w hw
  simp only [List.mem_map] at hw
  obtain ⟨t, _, rfl⟩ := hw
  exact fun e => hk t e.symm

theorem applyBatch_delTx (d : Disk) (t : Nat) : ∀ ts : List Nat,
    applyBatch d (ts.map (fun t => Write.del (.txLookup t))) (.txLookup t) =
      if t ∈ ts then none else d (.txLookup t) := by
  intro ts
  induction ts generalizing d with
  | nil => simp [applyBatch_nil]
  | cons t0 ts ih =>
    simp only [List.map_cons, applyBatch_cons, ih, List.mem_cons]
    by_cases h1 : t ∈ ts
    · simp [h1]
    · by_cases h2 : t = t0
      · simp [h2, applyW]
      · simp [h1, h2, applyW]

/-- What the disk holds after the writes of RevertHead for block `h` with stored record `b`. -/
theorem revertWrites_lookup (d : Disk) (h : Nat) (b : Block) (k : Key) :
    applyBatch d (revertWrites h b b b) k =
      match k with
      | .height => if h = 0 then none else some (.num (h - 1))
      | .state => some (.num b.oldRoot)
      | .header n => if n = h then none else d k
      | .txs n => if n = h then none else d k
      | .su n => if n = h then none else d k
      | .commit n => if n = h then none else d k
      | .numByHash x => if x = b.hash then none else d k
      | .txLookup t => if t ∈ b.txs then none else d k
      | _ => d k := by
  unfold revertWrites
  rw [applyBatch_append, applyBatch_append]
  have tail : ∀ d' : Disk, ∀ k, applyBatch d' [Write.del (.txs h), .del (.su h),
      if h = 0 then .del .height else .put .height (.num (h - 1))] k =
        match k with
        | .height => if h = 0 then none else some (.num (h - 1))
        | .txs n => if n = h then none else d' k
        | .su n => if n = h then none else d' k
        | _ => d' k := by
    intro d' k
    by_cases h0 : h = 0
    · cases k <;> simp [applyBatch, applyW, h0]
    · cases k <;> simp [applyBatch, applyW, h0]
  have headw : ∀ d' : Disk, ∀ k, applyBatch d' [Write.put .state (.num b.oldRoot), .del (.header h),
      .del (.numByHash b.hash), .del (.commit h)] k =
        match k with
        | .state => some (.num b.oldRoot)
        | .header n => if n = h then none else d' k
        | .numByHash x => if x = b.hash then none else d' k
        | .commit n => if n = h then none else d' k
        | _ => d' k := by
    intro d' k
    cases k <;> simp [applyBatch, applyW]
  rw [tail]
  cases k with
  | txLookup t => simp only [applyBatch_delTx, headw]
  | height => rfl
  | state => simp only [applyBatch_misses (delTx_misses .state (by intro t; simp) b.txs), headw]
  | header n => simp only [applyBatch_misses (delTx_misses (.header n) (by intro t; simp) b.txs), headw]
  | numByHash x => simp only [applyBatch_misses (delTx_misses (.numByHash x) (by intro t; simp) b.txs), headw]
  | commit n => simp only [applyBatch_misses (delTx_misses (.commit n) (by intro t; simp) b.txs), headw]
  | txs n => simp only [applyBatch_misses (delTx_misses (.txs n) (by intro t; simp) b.txs), headw]
  | su n => simp only [applyBatch_misses (delTx_misses (.su n) (by intro t; simp) b.txs), headw]
  | win lo => simp only [applyBatch_misses (delTx_misses (.win lo) (by intro t; simp) b.txs), headw]
  | snap => simp only [applyBatch_misses (delTx_misses .snap (by intro t; simp) b.txs), headw]
  | l1head => simp only [applyBatch_misses (delTx_misses .l1head (by intro t; simp) b.txs), headw]

theorem wf_prefix {c' : List Block} {last : Block} (hwf : WfChain (c' ++ [last])) : WfChain c' := by
  refine ⟨?_, ?_, ?_, ?_, ?_⟩
  · intro i x hx
    have hi : i < c'.length := by
      apply Classical.byContradiction; intro hn
      rw [List.getElem?_eq_none (by omega)] at hx; cases hx
    exact hwf.num i x (by rw [List.getElem?_append_left hi]; exact hx)
  · intro i x y hx hy
    have hi : i + 1 < c'.length := by
      apply Classical.byContradiction; intro hn
      rw [List.getElem?_eq_none (by omega)] at hy; cases hy
    exact hwf.link i x y (by rw [List.getElem?_append_left (by omega)]; exact hx)
      (by rw [List.getElem?_append_left hi]; exact hy)
  · intro x hx
    have hi : 0 < c'.length := by
      apply Classical.byContradiction; intro hn
      rw [List.getElem?_eq_none (by omega)] at hx; cases hx
    exact hwf.first x (by rw [List.getElem?_append_left hi]; exact hx)
  · have := hwf.hashes
    rw [List.map_append, List.nodup_append] at this
    exact this.1
  · have := hwf.txs
    rw [List.flatMap_append, List.nodup_append] at this
    exact this.1

theorem revert_lookup {d : Disk} {h : Nat} {b : Block} {ws : List Write} (haux : OnlyAux ws) {k : Key}
    (hk : IsChainKey k) :
    applyBatch d (revertWrites h b b b ++ ws) k = applyBatch d (revertWrites h b b b) k := by
  rw [applyBatch_append, applyBatch_onlyAux haux _ hk]

theorem coh_prefix {c' : List Block} {d : Disk} {last : Block} {ws : List Write}
    (hwf : WfChain (c' ++ [last])) (hc : Coh (c' ++ [last]) d) (haux : OnlyAux ws) :
    Coh c' (applyBatch d (revertWrites c'.length last last last ++ ws)) := by
  have hnumlast : last.num = c'.length := hwf.num c'.length last (by
    rw [List.getElem?_append_right (Nat.le_refl _)]; simp)
  have elem : ∀ n, (c' ++ [last])[n]? = if n = c'.length then some last else c'[n]? := by
    intro n
    by_cases h1 : n < c'.length
    · rw [List.getElem?_append_left h1]; simp [Nat.ne_of_lt h1]
    · by_cases h2 : n = c'.length
      · subst h2; rw [List.getElem?_append_right (Nat.le_refl _)]; simp
      · have h3 : (c' ++ [last])[n]? = none := List.getElem?_eq_none (by simp; omega)
        have h4 : c'[n]? = none := List.getElem?_eq_none (by omega)
        simp [h3, h4, h2]
  have hnone : c'[c'.length]? = none := List.getElem?_eq_none (Nat.le_refl _)
  have hhashes := hwf.hashes
  rw [List.map_append, List.nodup_append] at hhashes
  have htxs := hwf.txs
  rw [List.flatMap_append, List.nodup_append] at htxs
  refine ⟨?_, ?_, ?_, ?_, ?_, ?_, ?_, ?_⟩
  · have : applyBatch d (revertWrites c'.length last last last ++ ws) .height =
        if c'.length = 0 then none else some (.num (c'.length - 1)) := by
      rw [revert_lookup haux (k := .height) trivial, revertWrites_lookup]
    simp only [getHeight, this]
    by_cases h0 : c'.length = 0 <;> simp [h0]
  · intro n
    rw [revert_lookup haux (k := .header n) trivial, revertWrites_lookup]
    by_cases e : n = c'.length
    · simp [e]
    · have := hc.header n; rw [elem] at this; simp [e] at this; simp [e, this]
  · intro n
    rw [revert_lookup haux (k := .txs n) trivial, revertWrites_lookup]
    by_cases e : n = c'.length
    · simp [e]
    · have := hc.txs n; rw [elem] at this; simp [e] at this; simp [e, this]
  · intro n
    rw [revert_lookup haux (k := .su n) trivial, revertWrites_lookup]
    by_cases e : n = c'.length
    · simp [e]
    · have := hc.su n; rw [elem] at this; simp [e] at this; simp [e, this]
  · intro n
    rw [revert_lookup haux (k := .commit n) trivial, revertWrites_lookup]
    by_cases e : n = c'.length
    · simp [e]
    · have := hc.commit n
      simp only [List.length_append, List.length_singleton] at this
      simp only [e, if_false, this]
      by_cases h1 : n < c'.length
      · simp [h1]; omega
      · simp [h1]; omega
  · intro x
    rw [revert_lookup haux (k := .numByHash x) trivial, revertWrites_lookup]
    have := hc.numByHash x
    rw [List.find?_append] at this
    by_cases e : x = last.hash
    · subst e
      have : c'.find? (fun b => b.hash = last.hash) = none := by
        rw [find_hash_none_iff]
        intro hm
        exact hhashes.2.2 _ hm _ (by simp) rfl
      simp [this]
    · have h1 : [last].find? (fun b => decide (b.hash = x)) = none := by simp [Ne.symm e]
      rw [h1, Option.or_none] at this
      simp [e, this]
  · intro t
    rw [revert_lookup haux (k := .txLookup t) trivial, revertWrites_lookup]
    have := hc.txLookup t
    rw [lookupTx_append] at this
    by_cases e : t ∈ last.txs
    · have : lookupTx c' t = none := by
        rw [lookupTx_none_iff]
        intro hm
        exact htxs.2.2 _ hm _ (by simpa using e) rfl
      simp [e, this]
    · have hi : List.idxOf? t last.txs = none := List.idxOf?_eq_none_iff.mpr e
      rw [hi] at this
      simp only [e, if_false, this]
      cases lookupTx c' t <;> rfl
  · have : applyBatch d (revertWrites c'.length last last last ++ ws) .state = some (.num last.oldRoot) := by
      rw [revert_lookup haux (k := .state) trivial, revertWrites_lookup]
    simp only [stateRoot, this]
    by_cases h0 : c'.length = 0
    · have : c' = [] := List.eq_nil_of_length_eq_zero h0
      subst this
      have := hwf.first last (by simp)
      simp [this.2]
    · have hlt : c'.length - 1 < c'.length := by omega
      have hx : (c' ++ [last])[c'.length - 1]? = some c'[c'.length - 1] := by
        rw [List.getElem?_append_left hlt, List.getElem?_eq_getElem hlt]
      have hy : (c' ++ [last])[c'.length - 1 + 1]? = some last := by
        rw [show c'.length - 1 + 1 = c'.length by omega, List.getElem?_append_right (Nat.le_refl _)]; simp
      have := (hwf.link _ _ _ hx hy).2
      rw [getLast?_eq_getElem?, List.getElem?_eq_getElem hlt]
      simp [this]

end Juno.C05
