import JunoModel.C05.ProofsP0
/-!
Helper lemmas for C05, part 18 (round 5): the shared in-memory retention floor
(`pruner.RetentionFloor`) never disagrees with the disk in the harmful direction — whatever the
live process serves through `StateAtBlockNumber` is still reconstructible from the surviving image
— for any cut of a prune's batches (failure of any batch, crash after any batch).
-/
namespace Juno.C05

/-- Every historical state the node hands out is reconstructible from its disk: history entries
hold pre-block values, so the state at `k` needs the entries of the blocks above `k`, i.e. the
oldest retained block is at most `k + 1`; and `k` is at most the chain height. -/
def FloorSafe (pn : PNode) : Prop :=
  ∀ k, stateServed pn.floor pn.node.disk k = true →
    floorOf pn.node.disk ≤ k + 1 ∧ ∃ h, getHeight pn.node.disk = some h ∧ k ≤ h

theorem floorOf_of_pcoh {lag : Nat} {c : List Block} {F : Nat} {d : Disk} (hp : PCoh lag c F d)
    (hF : F ≤ c.length - 1) : floorOf d = F := by
  unfold floorOf
  rw [hp.height]
  by_cases hne : c.length = 0
  · simp only [hne, if_true]; omega
  · simp only [hne, if_false]
    rw [oldestRetained_pcoh hp _ 0 (Nat.zero_le _), if_pos ⟨by omega, by omega⟩]
    rfl

theorem raiseFloor_some (cur : Option Nat) (f : Nat) :
    ∃ g, raiseFloor cur f = some g ∧ f ≤ g ∧ (∀ c, cur = some c → c ≤ g) := by
  unfold raiseFloor
  cases cur with
  | none => exact ⟨f, rfl, Nat.le_refl _, fun c h => by cases h⟩
  | some c =>
    simp only []
    split
    · exact ⟨c, rfl, by omega, fun c' h' => by cases h'; exact Nat.le_refl _⟩
    · exact ⟨f, rfl, Nat.le_refl _, fun c' h' => by cases h'; omega⟩

/-- A seeded floor at or above `oldest retained − 1` serves only reconstructible states. -/
theorem floorSafe_of_seeded {n : Node} {f : Nat} {w : Bool} (h : floorOf n.disk ≤ f + 1) :
    FloorSafe ⟨n, some f, w⟩ := by
  intro k hk
  simp only [stateServed] at hk
  split at hk
  · cases hk
  · rename_i hkf
    split at hk
    · rename_i hh hgh
      refine ⟨?_, hh, hgh, by simpa using hk⟩
      show floorOf n.disk ≤ k + 1
      omega
    · cases hk

/-- The database probe of an unseeded floor (header readable, its hash→number mapping present) on a
pruned image: the mapping of block `k` survives exactly when `k + 1 ≥ F`. -/
theorem floorSafe_of_unseeded {lag : Nat} {c : List Block} {F : Nat} {n : Node} {w : Bool}
    (hwf : WfChain c) (hp : PCoh lag c F n.disk) (hF : F ≤ c.length - 1) : FloorSafe ⟨n, none, w⟩ := by
  intro k hk
  simp only [stateServed] at hk
  rw [floorOf_of_pcoh hp hF]
  cases hb : getBlk n.disk (.header k) with
  | none => rw [hb] at hk; cases hk
  | some hdr =>
    rw [hb] at hk
    simp only at hk
    -- the header read gives block k of the chain
    have hhdr := hp.header k
    have hck : c[k]? = some hdr := by
      simp only [getBlk] at hb
      by_cases hlag : k + lag < F
      · rw [hhdr, if_pos hlag] at hb; cases hb
      · rw [hhdr, if_neg hlag] at hb
        cases hc : c[k]? with
        | none => rw [hc] at hb; cases hb
        | some y => rw [hc] at hb; simp at hb; rw [hb]
    have hklt : k < c.length := by
      apply Classical.byContradiction
      intro hn
      rw [List.getElem?_eq_none (by omega)] at hck
      cases hck
    have hnum := hwf.num k hdr hck
    rw [hp.numByHash hdr.hash, find_hash_of_getElem hwf hck] at hk
    simp only [Option.bind_some] at hk
    refine ⟨?_, c.length - 1, ?_, by omega⟩
    · apply Classical.byContradiction
      intro hn
      have : hdr.num + 1 < F := by omega
      rw [if_pos this] at hk
      cases hk
    · rw [hp.height, if_neg (by omega)]

/-- A freshly started process (floor seeded from the disk, or left unseeded) is safe on every image
of a pruning node. -/
theorem freshFloor_safe {lag : Nat} {c : List Block} {F : Nat} {n : Node} (wired : Bool)
    (hwf : WfChain c) (hp : PCoh lag c F n.disk) (hF : F ≤ c.length - 1) :
    FloorSafe ⟨n, freshFloor wired n.disk, wired⟩ := by
  unfold freshFloor
  cases wired with
  | false => exact floorSafe_of_unseeded hwf hp hF
  | true =>
    simp only [if_true, seedFloor, raiseFloor]
    apply floorSafe_of_seeded
    rw [floorOf_of_pcoh hp hF]
    omega

/-- The prune call does not depend on the filter initialiser. -/
theorem execP_prune (W : Nat) (fx : Fixes) (n : Node) (e : Nat) (ft : Fault) :
    execP W fx n (.prune e) ft = exec W fx n (.prune e) ft := by
  unfold execP
  rw [← execG_initFilter]
  have hout : ∀ (ini : Disk → Option (Filt × Disk)) (m : Node),
      (planG ini W fx m (.prune e)).out ≠ .err .init := by
    intro ini m
    simp only [planG, prunePlan, prunePlanThr]
    repeat' split
    all_goals simp
  cases ft with
  | failInit =>
    simp only [execG]
    rw [if_neg (fun h => hout _ _ h.2.2), if_neg (fun h => hout _ _ h.2.2)]
    rfl
  | none => rfl
  | failAt k => rfl
  | crashAfter k => rfl
  | crashInit => rfl

theorem exec_prune_failInit (W : Nat) (fx : Fixes) (n : Node) (e : Nat) :
    exec W fx n (.prune e) .failInit = exec W fx n (.prune e) .none := by
  have hout : (plan W fx ⟨n.disk, .broken⟩ (.prune e)).out ≠ .err .init := by
    simp only [plan, prunePlan, prunePlanThr]
    repeat' split
    all_goals simp
  simp only [exec]
  rw [if_neg (fun hc => hout hc.2.2)]

theorem isCrash_disk (W : Nat) (fx : Fixes) (n : Node) (op : Op) (ft : Fault) (h : ft.isCrash = true) :
    (exec W fx n op ft).2 = .ok := by
  cases ft <;> simp [Fault.isCrash] at h <;> rfl

/-- `Pruner.onNewL1Head` on a node whose image is that of a pruning node (floor `F0`, head
retained), the shared floor seeded and safe: after the event — the sweep completed, ANY of its
batches failed, or the process died after ANY batch — everything the node serves is still
reconstructible. The floor is raised to `target − 1` BEFORE the first batch, and every image the
sweep can leave has its oldest retained block at most at the target. -/
theorem l1event_floor_safe {W : Nat} (fx : Fixes) {c : List Block} (hwf : WfChain c) {F0 : Nat}
    {pn : PNode} (hp : PImg W blockHashLag c F0 pn.node.disk) (hF0 : F0 ≤ c.length - 1)
    (hseed : pn.floor ≠ none) (hs : FloorSafe pn) (l1 R : Nat) (ft : Fault) :
    FloorSafe (pexec true W fx pn (.l1event l1 R) ft).1 := by
  have hfl : floorOf pn.node.disk = F0 := floorOf_of_pcoh hp.pcoh hF0
  obtain ⟨f0, hf0⟩ : ∃ f0, pn.floor = some f0 := by
    cases h : pn.floor with
    | none => exact absurd h hseed
    | some f0 => exact ⟨f0, rfl⟩
  -- what the seeded floor guarantees before the event
  have hF0f : c.length ≠ 0 → F0 ≤ f0 + 1 := by
    intro hne
    have hh : getHeight pn.node.disk = some (c.length - 1) := by rw [hp.pcoh.height, if_neg hne]
    -- block max f0 .. is served when it is at most the height; use k = max f0 … carefully:
    by_cases hle : f0 ≤ c.length - 1
    · have hk : stateServed pn.floor pn.node.disk f0 = true := by
        simp [stateServed, hf0, hh, hle]
      have := (hs f0 hk).1
      omega
    · omega
  simp only [pexec]
  cases hh : getHeight pn.node.disk with
  | none => exact hs
  | some h =>
    simp only []
    by_cases hg : l1 ≥ h ∨ l1 < R
    · rw [if_pos hg]; exact hs
    · rw [if_neg hg]
      have hne : c.length ≠ 0 := by
        intro e0; rw [hp.pcoh.height, if_pos e0] at hh; cases hh
      have hhe : h = c.length - 1 := by
        rw [hp.pcoh.height, if_neg hne] at hh; injection hh with hh; exact hh.symm
      have he : l1 - R ≤ c.length - 1 := by omega
      rw [execP_prune]
      -- the image after the (possibly cut) sweep
      have himg : ∃ F, F ≤ max F0 (l1 - R) ∧ F ≤ c.length - 1 ∧
          PImg W blockHashLag c F (exec W fx pn.node (.prune (l1 - R)) ft).1.disk := by
        by_cases hlt : F0 < l1 - R
        · by_cases hb : ft ≠ .failInit ∧ ft ≠ .crashInit
          · obtain ⟨F, _, h2, h3, _⟩ := prune_exec_imagesP fx hwf hp hlt (by omega) ft hb
            exact ⟨F, by omega, by omega, h3⟩
          · -- failInit behaves as no fault, crashInit applies no commit
            have hpl : plan W fx pn.node (.prune (l1 - R)) = prunePlanThr W pn.node (l1 - R) cutNonEmpty := rfl
            rcases Classical.not_and_iff_not_or_not.mp hb with h1 | h1
            · have : ft = .failInit := Classical.not_not.mp h1
              subst this
              rw [exec_prune_failInit]
              obtain ⟨F, _, h2, h3, _⟩ := prune_exec_imagesP fx hwf hp hlt (by omega) .none (by simp)
              exact ⟨F, by omega, by omega, h3⟩
            · have : ft = .crashInit := Classical.not_not.mp h1
              subst this
              obtain ⟨h0, _⟩ := prune_imagesP (W := W) (cut := cutNonEmpty) hwf hp hlt (by omega) 0
              refine ⟨F0, by omega, hF0, ?_⟩
              simp only [exec, hpl, h0]; exact hp
        · -- nothing to prune: the plan has no commit, the disk is unchanged under every fault
          have hor : oldestRetained pn.node.disk (c.length - 1 + 1) 0 = some F0 := by
            rw [oldestRetained_pcoh hp.pcoh _ 0 (by omega)]
            rw [if_pos ⟨by omega, by omega⟩]
          have hh' : getHeight pn.node.disk = some (c.length - 1) := by rw [hh, hhe]
          have hpl : plan W fx pn.node (.prune (l1 - R)) = ⟨pn.node.disk, [], pn.node.mem, .ok⟩ := by
            show prunePlanThr W pn.node (l1 - R) cutNonEmpty = _
            simp only [prunePlanThr, hh', hor]
            rw [if_pos (by omega)]
          refine ⟨F0, by omega, hF0, ?_⟩
          have hd : (exec W fx pn.node (.prune (l1 - R)) ft).1.disk = pn.node.disk := by
            cases ft with
            | failInit => rw [exec_prune_failInit]; simp [exec, hpl, applyCommits]
            | none => simp [exec, hpl, applyCommits]
            | failAt k => simp [exec, hpl, applyCommits]
            | crashAfter k => simp [exec, hpl, applyCommits]
            | crashInit => simp [exec, hpl]
          rw [hd]; exact hp
      obtain ⟨F, hFm, hFl, hPI⟩ := himg
      have hflo : floorOf (exec W fx pn.node (.prune (l1 - R)) ft).1.disk = F := floorOf_of_pcoh hPI.pcoh hFl
      by_cases hcr : ft.isCrash = true
      · -- a new process: floor seeded from the surviving image
        simp only [hcr, if_true]
        exact freshFloor_safe pn.wired hwf hPI.pcoh hFl
      · simp only [hcr, Bool.false_eq_true, if_false, if_true]
        by_cases hpos : l1 - R > 0
        · simp only [hpos, if_true]
          obtain ⟨g, hg1, hg2, hg3⟩ := raiseFloor_some pn.floor (l1 - R - 1)
          rw [hg1]
          apply floorSafe_of_seeded
          rw [hflo]
          have := hg3 f0 hf0
          have := hF0f hne
          omega
        · simp only [hpos, if_false, hf0]
          apply floorSafe_of_seeded
          rw [hflo]
          have := hF0f hne
          omega

end Juno.C05
