import JunoModel.C05.ProofsP5
/-!
Helper lemmas for C05, part 24 (round 5): atomicity of a call on the block buckets for the node as
`blockchain.New` wires it (`execP`), from ANY node — no invariant assumed.
-/
namespace Juno.C05

theorem initFilterP_chainKeys {W : Nat} {d d' : Disk} {f : Filt}
    (h : initFilterP W d = some (f, d')) : ∀ k, IsChainKey k → d' k = d k := by
  intro k hk
  unfold initFilterP at h
  split at h
  · simp only [Option.some.injEq, Prod.mk.injEq] at h; rw [← h.2]
  · simp only [] at h
    split at h
    · split at h
      · simp only [Option.some.injEq, Prod.mk.injEq] at h; rw [← h.2]
      · split at h
        · exact fill_chainKeys _ _ _ _ h k hk
        · exact fill_chainKeys _ _ _ _ h k hk
    · exact fill_chainKeys _ _ _ _ h k hk

theorem ensureInitP_chainKeys (W : Nat) (n : Node) :
    ∀ k, IsChainKey k → (ensureInitG (initFilterP W) n).disk k = n.disk k := by
  intro k hk
  unfold ensureInitG
  split
  · split
    · rename_i f d' h
      exact initFilterP_chainKeys h k hk
    · rfl
  · rfl

theorem commitsP_le_one (W : Nat) (fx : Fixes) (n : Node) (op : Op) (h : ∀ e, op ≠ .prune e) :
    (planG (initFilterP W) W fx n op).commits.length ≤ 1 := by
  cases op with
  | store b =>
    simp only [planG, storePlanG]
    repeat' split
    all_goals simp
  | revert =>
    simp only [planG, revertPlanG]
    repeat' split
    all_goals simp
  | l1head v => simp [planG]
  | snap =>
    simp only [planG, snapPlanG]
    split <;> simp
  | restart =>
    simp only [planG, snapPlanG]
    split <;> simp
  | kill => simp [planG]
  | prune e => exact absurd rfl (h e)

theorem disk0P_chainKeys (W : Nat) (fx : Fixes) (n : Node) (op : Op) (hp : ∀ e, op ≠ .prune e) :
    ∀ k, IsChainKey k → (planG (initFilterP W) W fx n op).disk0 k = n.disk k := by
  intro k hk
  have hE := ensureInitP_chainKeys W n k hk
  cases op with
  | store b =>
    simp only [planG, storePlanG]
    repeat' split
    all_goals first | rfl | exact hE
  | revert =>
    simp only [planG, revertPlanG]
    repeat' split
    all_goals first | rfl | exact hE
  | l1head v => rfl
  | snap =>
    simp only [planG, snapPlanG]
    split <;> exact hE
  | restart =>
    simp only [planG, snapPlanG]
    split <;> exact hE
  | kill => rfl
  | prune e => exact absurd rfl (hp e)

/-- `op_atomic` for the default wiring: from ANY node, any call except prune, any fault — on every
key of the block buckets the disk afterwards is the node's disk before the call, or the whole disk
is the image after the fault-free call. -/
theorem op_atomic_P (W : Nat) (fx : Fixes) (n : Node) (op : Op) (ft : Fault) (h : ∀ e, op ≠ .prune e) :
    (∀ k, IsChainKey k → (execP W fx n op ft).1.disk k = n.disk k) ∨
    (execP W fx n op ft).1.disk = (execP W fx n op .none).1.disk := by
  have hl := commitsP_le_one W fx n op h
  have h0 := disk0P_chainKeys W fx n op h
  unfold execP
  cases ft with
  | none => right; rfl
  | failInit =>
    simp only [execG]
    split
    · left; intro k _; rfl
    · right; rfl
  | crashInit => left; exact h0
  | failAt k =>
    simp only [execG]
    split
    · rcases take_of_le_one _ hl k with e0 | e1
      · left; intro key hk; simp only [e0, applyCommits, List.foldl_nil]; exact h0 key hk
      · right; simp [e1]
    · right; rfl
  | crashAfter k =>
    simp only [execG]
    rcases take_of_le_one _ hl (k + 1) with e0 | e1
    · left; intro key hk; simp only [e0, applyCommits, List.foldl_nil]; exact h0 key hk
    · right; simp [e1]

end Juno.C05
