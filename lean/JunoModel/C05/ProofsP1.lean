import JunoModel.C05.ProofsFloor
/-!
Helper lemmas for C05, part 19 (round 5): towards `GoodP` as an invariant of histories that
contain prune calls. Here: `forget` bookkeeping, `PCoh` / `PImg` only depend on the keys they
mention, `fill` with its effect on the disk when only the headers from the starting block on are
readable, and `pruner.InitializeRunningEventFilter` with its effect on the disk of a pruning node.
-/
namespace Juno.C05

/-! ### `forget` -/

theorem filtOK_forget {W : Nat} {c : List Block} {F : Nat} {f : Filt}
    (hnum : ∀ (i : Nat) (x : Block), c[i]? = some x → x.num = i) (h : FiltOKP W c F f) :
    FiltOK W (forget F c) f := by
  refine ⟨by rw [h.next, forget_length], by rw [h.lo, forget_length], ?_⟩
  intro b i h1 h2 hb
  rw [forget_length] at h2
  obtain ⟨hF, hb'⟩ := bitIn_forget hnum hb
  exact h.sound b i h1 hF h2 hb'

theorem forget_append {F : Nat} {c : List Block} {b : Block} (h : ¬ b.num < F) :
    forget F (c ++ [b]) = forget F c ++ [b] := by
  simp [forget, forgetBits, h]

theorem bitIn_forget_of_ge {F : Nat} {c : List Block}
    (hnum : ∀ (i : Nat) (x : Block), c[i]? = some x → x.num = i) {x i : Nat} (hF : F ≤ x)
    (h : bitIn c x i) : bitIn (forget F c) x i := by
  obtain ⟨blk, hg, hi⟩ := h
  exact ⟨blk, by rw [forget_ge hnum hF]; exact hg, hi⟩

/-! ### `PCoh` mentions chain keys only -/

theorem pcoh_of_eq_chainKeys {lag : Nat} {c : List Block} {F : Nat} {d d' : Disk} (hp : PCoh lag c F d)
    (h : ∀ k, IsChainKey k → d' k = d k) : PCoh lag c F d' where
  height := by rw [getHeight_congr (h .height trivial)]; exact hp.height
  header n := by rw [h (.header n) trivial]; exact hp.header n
  txs n := by rw [h (.txs n) trivial]; exact hp.txs n
  su n := by rw [h (.su n) trivial]; exact hp.su n
  commit n := by rw [h (.commit n) trivial]; exact hp.commit n
  numByHash x := by rw [h (.numByHash x) trivial]; exact hp.numByHash x
  txLookup t := by rw [h (.txLookup t) trivial]; exact hp.txLookup t
  state := by rw [stateRoot_congr (h .state trivial)]; exact hp.state

/-! ### `fill` from block `k` on, with its effect on the disk -/

/-- `d'` differs from `d` only in persisted windows; every window it changed is a complete window
of `c` that ends above block `k`, sound. -/
structure WinsGrowFrom (W : Nat) (c : List Block) (k : Nat) (d d' : Disk) : Prop where
  others : ∀ key, (∀ lo, key ≠ .win lo) → d' key = d key
  wins : ∀ lo, d' (.win lo) = d (.win lo) ∨
    (lo % W = 0 ∧ lo + W ≤ c.length ∧ k < lo + W ∧ ∃ w, d' (.win lo) = some (.win w) ∧ SoundWin W c lo w)

theorem winsGrowFrom_refl (W : Nat) (c : List Block) (k : Nat) (d : Disk) : WinsGrowFrom W c k d d :=
  ⟨fun _ _ => rfl, fun _ => Or.inl rfl⟩

theorem winsGrowFrom_mono {W : Nat} {c : List Block} {k k' : Nat} {d d' : Disk} (hk : k ≤ k')
    (h : WinsGrowFrom W c k' d d') : WinsGrowFrom W c k d d' := by
  refine ⟨h.others, fun lo => ?_⟩
  rcases h.wins lo with h1 | ⟨a, b, e, w⟩
  · exact Or.inl h1
  · exact Or.inr ⟨a, b, by omega, w⟩

theorem winsGrowFrom_trans {W : Nat} {c : List Block} {k : Nat} {d1 d2 d3 : Disk}
    (h12 : WinsGrowFrom W c k d1 d2) (h23 : WinsGrowFrom W c k d2 d3) : WinsGrowFrom W c k d1 d3 := by
  refine ⟨fun key hk => by rw [h23.others key hk, h12.others key hk], ?_⟩
  intro lo
  rcases h23.wins lo with h | h
  · rw [h]; exact h12.wins lo
  · exact Or.inr h

theorem fill_grow_from {W : Nat} (hW : 0 < W) {c : List Block}
    (hnum : ∀ (i : Nat) (x : Block), c[i]? = some x → x.num = i) :
    ∀ (cnt k : Nat) (f : Filt) (d : Disk), k + cnt = c.length →
      (∀ n, k ≤ n → getBlk d (.header n) = c[n]?) → FiltOK W (c.take k) f →
      ∃ f' d', fill W cnt k f d = some (f', d') ∧ FiltOK W c f' ∧ WinsGrowFrom W c k d d' := by
  intro cnt
  induction cnt with
  | zero =>
    intro k f d hk _ hf
    refine ⟨f, d, rfl, ?_, winsGrowFrom_refl W c k d⟩
    have : c.take k = c := List.take_of_length_le (by omega)
    rw [this] at hf; exact hf
  | succ cnt ih =>
    intro k f d hk hhdr hf
    have hklt : k < c.length := by omega
    have hx : c[k]? = some c[k] := List.getElem?_eq_getElem hklt
    have hlen : (c.take k).length = k := by rw [List.length_take]; omega
    have hnum' : (c[k]).num = (c.take k).length := by
      rw [hlen]; exact hnum k _ hx
    obtain ⟨f', ws, hins, hf', hws⟩ := insert_filtOK hW hf hnum'
    rw [hlen] at hnum' hws
    rw [← take_succ_eq hx] at hf' hws
    simp only [fill, hhdr k (Nat.le_refl k), hx]
    rw [hnum'] at hins
    rw [hins]
    have haux := insert_onlyAux hins
    rcases hws with ⟨rfl, _⟩ | ⟨w', rfl, hmod, hwlo, hsound⟩
    · obtain ⟨f2, d2, hfill, hf2, hg2⟩ := ih (k + 1) f' d (by omega) (fun n hn => hhdr n (by omega)) hf'
      exact ⟨f2, d2, hfill, hf2, winsGrowFrom_mono (Nat.le_succ k) hg2⟩
    · have hhdr' : ∀ n, k + 1 ≤ n →
          getBlk (applyBatch d [Write.put (.win (wstart W k)) (.win w')]) (.header n) = c[n]? := by
        intro n hn
        have : applyBatch d [Write.put (.win (wstart W k)) (.win w')] (.header n) = d (.header n) :=
          applyBatch_onlyAux haux d trivial
        simp only [getBlk, this]; exact hhdr n (by omega)
      obtain ⟨f2, d2, hfill, hf2, hg2⟩ := ih (k + 1) f' _ (by omega) hhdr' hf'
      refine ⟨f2, d2, hfill, hf2, winsGrowFrom_trans ?_ (winsGrowFrom_mono (Nat.le_succ k) hg2)⟩
      have hend : wstart W k + W = k + 1 := by
        have h1 := wstart_of_mod_zero hmod
        rcases wstart_succ hW k with ⟨ha, _⟩ | ⟨_, hb⟩
        · omega
        · have := wstart_le W k; have := lt_wstart_add hW k; omega
      refine ⟨?_, ?_⟩
      · intro key hkey
        simp only [applyBatch, List.foldl_cons, List.foldl_nil, applyW]
        have : key ≠ .win (wstart W k) := hkey _
        simp [this]
      · intro lo
        by_cases e : lo = wstart W k
        · subst e
          refine Or.inr ⟨wstart_mod _, by omega, by omega, w', by simp [applyBatch, applyW], hwlo, ?_⟩
          intro b i h1 h2 hb
          exact hsound b i h1 h2 (bitIn_of_take (by omega) hb)
        · left
          simp only [applyBatch, List.foldl_cons, List.foldl_nil, applyW]
          have : Key.win lo ≠ .win (wstart W k) := by intro h; cases h; exact e rfl
          simp [this]

/-! ### A pruning node's image after windows of retained blocks were (re)written -/

theorem wstart_le_of_lt_end {W : Nat} (hW : 0 < W) {F lo : Nat} (hlo : lo % W = 0) (h : F < lo + W) :
    wstart W F ≤ lo := by
  by_cases hle : lo ≤ F
  · rw [wstart_eq_of_mem hW hlo hle h]; exact Nat.le_refl _
  · have := wstart_le W F; omega

theorem pimg_grow {W lag : Nat} (hW : 0 < W) {c : List Block} {F k : Nat} {d d' : Disk}
    (hnum : ∀ (i : Nat) (x : Block), c[i]? = some x → x.num = i)
    (hp : PImg W lag c F d) (hg : WinsGrowFrom W (forget F c) k d d') (hk : F ≤ k) :
    PImg W lag c F d' := by
  have hck : ∀ key, IsChainKey key → d' key = d key := by
    intro key hkey
    apply hg.others
    intro lo e; subst e; exact hkey
  refine ⟨pcoh_of_eq_chainKeys hp.pcoh hck, ⟨?_, ?_⟩, ?_⟩
  · intro lo
    rcases hg.wins lo with h | ⟨h1, h2, h3, w, hw', _⟩
    · simp only [getWin, h]; exact hp.wins.exist lo
    · rw [forget_length] at h2
      simp only [getWin, hw']
      simp [h1, h2, wstart_le_of_lt_end hW h1 (by omega : F < lo + W)]
  · intro lo w hget
    rcases hg.wins lo with h | ⟨_, _, _, w', hw', hs⟩
    · apply hp.wins.sound lo w; simp only [getWin, ← h]; exact hget
    · simp only [getWin, hw'] at hget
      cases hget
      refine ⟨hs.1, ?_⟩
      intro b i h1 hF h2 hb
      exact hs.2 b i h1 h2 (bitIn_forget_of_ge hnum hF hb)
  · have hs := hp.snap
    unfold SnapOKP at hs ⊢
    rw [hg.others .snap (by intro lo; simp)]
    exact hs

/-- `pruner.InitializeRunningEventFilter` with its effect on the disk: on every image of a pruning
node (head retained) it succeeds, the filter is exact for the retained blocks, and the disk it
leaves — it may have persisted a window that its fill completed — is again the image of the same
pruning node; block buckets and snapshot untouched. -/
theorem initFilterP_grow {W : Nat} (hW : 0 < W) {lag : Nat} {c : List Block} {F : Nat} {d : Disk}
    (hwf : WfChain c) (hp : PImg W lag c F d) (hF : F < c.length) :
    ∃ f d', initFilterP W d = some (f, d') ∧ FiltOKP W c F f ∧ PImg W lag c F d' ∧
      (∀ key, (∀ lo, key ≠ .win lo) → d' key = d key) := by
  have hnum := hwf.num
  have hnumF : ∀ (i : Nat) (x : Block), (forget F c)[i]? = some x → x.num = i := forget_num (F := F) hnum
  have hne : c.length ≠ 0 := by omega
  have hL : c.length - 1 + 1 = c.length := by omega
  have hhdr : ∀ k, F ≤ k → ∀ n, k ≤ n → getBlk d (.header n) = (forget F c)[n]? := by
    intro k hk n hn
    rw [getBlk_header_of_pcoh hp.pcoh (by omega), forget_ge hnum (by omega)]
  have hfloor : (oldestRetained d (c.length - 1 + 1) 0).getD 0 = F := by
    rw [oldestRetained_pcoh hp.pcoh _ 0 (Nat.zero_le _), if_pos ⟨hF, by omega⟩]; rfl
  have hlenF := forget_length F c
  -- it is enough to have the result of a fill from some block at or above the floor
  have wrap : ∀ {k : Nat} {r : Option (Filt × Disk)}, F ≤ k →
      (∃ f d', r = some (f, d') ∧ FiltOK W (forget F c) f ∧ WinsGrowFrom W (forget F c) k d d') →
      ∃ f d', r = some (f, d') ∧ FiltOKP W c F f ∧ PImg W lag c F d' ∧
        (∀ key, (∀ lo, key ≠ .win lo) → d' key = d key) := by
    intro k r hk ⟨f, d', h1, h2, h3⟩
    exact ⟨f, d', h1, filtOKP_of_forget hnum h2, pimg_grow hW hnum hp h3 hk, h3.others⟩
  have rebuild_ok : ∃ f d',
      (match scanBackP W d F (wstart W F) ((c.length - 1) / W + 1) (wstart W (c.length - 1)) with
        | (cont, ws) => fill W (c.length - 1 + 1 - cont) cont ⟨Win.empty ws, cont⟩ d) = some (f, d') ∧
      FiltOKP W c F f ∧ PImg W lag c F d' ∧ (∀ key, (∀ lo, key ≠ .win lo) → d' key = d key) := by
    rw [scanBackP_good hW hp.wins hF, hL]
    by_cases hsw : wstart W F < wstart W c.length
    · rw [if_pos hsw]
      have hle := wstart_le W c.length
      have hFs : F ≤ wstart W c.length := by
        have := lt_wstart_add hW F
        have := wstart_gap hW hsw
        omega
      apply wrap hFs
      apply fill_grow_from hW hnumF _ _ _ _ (by rw [hlenF]; omega) (hhdr _ hFs)
      have hlen : ((forget F c).take (wstart W c.length)).length = wstart W c.length := by
        rw [List.length_take, hlenF]; omega
      refine ⟨by rw [hlen], ?_, ?_⟩
      · rw [hlen]; simp only [Win.empty]
        exact (wstart_of_mod_zero (wstart_mod _)).symm
      · intro b i h1 h2 _
        rw [hlen] at h2
        simp only [Win.empty] at h1
        omega
    · rw [if_neg hsw]
      apply wrap (Nat.le_refl F)
      apply fill_grow_from hW hnumF _ _ _ _ (by rw [hlenF]; omega) (hhdr _ (Nat.le_refl _))
      have hlen : ((forget F c).take F).length = F := by
        rw [List.length_take, hlenF]; omega
      refine ⟨by rw [hlen], by rw [hlen]; rfl, ?_⟩
      intro b i _ h2 hb
      rw [hlen] at h2
      have := (bitIn_forget hnum (bitIn_take hb)).1
      omega
  unfold initFilterP
  rw [hp.pcoh.height]
  simp only [hne, if_false, hfloor]
  have hs := hp.snap
  unfold SnapOKP at hs
  split
  · rename_i w nx hsn
    rw [hsn] at hs
    obtain ⟨hnx, hlo, hsound⟩ := hs
    split
    · rename_i e
      refine ⟨_, _, rfl, ⟨?_, ?_, ?_⟩, hp, fun _ _ => rfl⟩
      · show nx = _; omega
      · show w.lo = _; rw [hlo]; congr 1; omega
      · intro b i h1 hFb h2 hb
        exact hsound b i h1 hFb (by omega) hb
    · split
      · rename_i hgap
        have hmaxle : max nx F ≤ c.length := by
          rcases Nat.le_total nx F with h | h
          · rw [Nat.max_eq_right h]; omega
          · rw [Nat.max_eq_left h]; omega
        have hlen : ((forget F c).take (max nx F)).length = max nx F := by
          rw [List.length_take, hlenF]; omega
        apply wrap (Nat.le_max_right nx F)
        apply fill_grow_from hW hnumF _ _ _ _ (by rw [hlenF]; omega) (hhdr _ (Nat.le_max_right nx F))
        refine ⟨by rw [hlen], ?_, ?_⟩
        · rw [hlen]
          show w.lo = wstart W (max nx F)
          have hwm : w.lo % W = 0 := by rw [hlo]; exact wstart_mod _
          have h1 : w.lo ≤ max nx F := by
            have := wstart_le W nx
            have := Nat.le_max_left nx F
            omega
          have h2 : max nx F < w.lo + W := by
            rcases Nat.le_total nx F with h | h
            · rw [Nat.max_eq_right h]; omega
            · rw [Nat.max_eq_left h]; omega
          exact (wstart_eq_of_mem hW hwm h1 h2).symm
        · intro b i h1 h2 hb
          rw [hlen] at h2
          obtain ⟨hFb, hb'⟩ := bitIn_forget hnum (bitIn_take hb)
          have hbn : b < nx := by
            rcases Nat.le_total nx F with h | h
            · rw [Nat.max_eq_right h] at h2; omega
            · rw [Nat.max_eq_left h] at h2; exact h2
          exact hsound b i h1 hFb hbn hb'
      · exact rebuild_ok
  · exact rebuild_ok

end Juno.C05
